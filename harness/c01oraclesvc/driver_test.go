//go:build verif

// Driver of the oracle-service extension of C01: executes TLC behaviours of OracleSvcImpl, seeded random schedules (larger
// universes: 4 / 7 nodes, every answer class, fee and designation changes) and scripted worlds on N real oracle services
// on N real ledgers, and records after every step what the real objects did (transactions found in the services'
// incomplete-transaction maps, OnTransaction calls and what the ledgers answered, blocks, digests) for OracleSvcTrace.tla.
package c01oraclesvc

import (
	"encoding/hex"
	"encoding/json"
	"fmt"
	"math/rand"
	"os"
	"path/filepath"
	"runtime/debug"
	"sort"
	"strings"
	"testing"

	"verifharness/internal/chainkit"
	"verifharness/internal/vh"

	"github.com/nspcc-dev/neo-go/pkg/core"
	"github.com/nspcc-dev/neo-go/pkg/core/native/noderoles"
	"github.com/nspcc-dev/neo-go/pkg/core/state"
	"github.com/nspcc-dev/neo-go/pkg/core/transaction"
	"github.com/nspcc-dev/neo-go/pkg/crypto/hash"
	"github.com/nspcc-dev/neo-go/pkg/smartcontract/trigger"
	"github.com/nspcc-dev/neo-go/pkg/util"
)

// Op is one step of a schedule (TLC history entry or random / scripted step).
type Op struct {
	Op string `json:"op"`
	// init
	N     int   `json:"n"`
	Inc   int   `json:"inc"`
	Desig []int `json:"desig"` // init: first designation; mine: new designation (empty = none)
	// mine
	New   int       `json:"new"`   // number of new requests with seeded specs (TLC behaviours)
	Specs []ReqSpec `json:"specs"` // explicit new requests
	Fee   *int      `json:"fee"`   // absolute fee level (see feeLevels); nil = unchanged
	Fees  *Fees     `json:"fees"`
	Fast  bool      `json:"fast"`  // the seeded new request needs no fetch
	Flags [][]int   `json:"flags"` // TLC behaviours: the model's prediction of the sent flags after the step
	Rev   bool      `json:"rev"`   // relay the services' transactions to the producer in reverse order
	// node steps
	Node   int    `json:"node"`
	Req    int    `json:"req"` // 1-based position of the request in the world
	Alt    bool   `json:"alt"` // answer: the web server gives this node another answer
	Ans    string `json:"ans"` // answer: explicit class
	From   int    `json:"from"`
	To     int    `json:"to"`
	Which  string `json:"which"` // sig: main | backup
	Mode   string `json:"mode"`  // sig: ok | junk | outsider
	Ledger bool   `json:"ledger"`
}

type snapEntry struct {
	main, backup string
	sent         bool
	has          bool
	h            int // height of the node's ledger when this build was first seen
}

type sigRec struct {
	sig  []byte
	hash string // signed part it is valid for
}

type runner struct {
	w      *World
	res    *vh.Result
	src    string
	rng    *rand.Rand
	events []map[string]any
	snap   map[[2]int]map[uint64]snapEntry // (node, incarnation) -> req -> entry
	sigs   map[string]sigRec               // from/req/which -> latest signature
	ans    map[string]string               // node/inc/req -> answer class its fetch got
	nmsg   int
	nsent  int
	lvl    int
	ndrift int
	failed string
}

func altOf(cls string) string {
	if cls == "notfound" {
		return "forbidden"
	}
	return "notfound"
}

var allClasses = []string{"ok", "ok", "ok", "big", "notfound", "forbidden", "timeout", "err500", "toolarge", "maxsize", "badct", "noct",
	"badutf8", "neterr", "redirok", "redirloop", "redirhttp", "ftp", "malformed"}
var filters = []string{"", "", "$.f", "$.g", "$.g[1]", "$.x", "$.s", "$[", "$..f", "$"}

func randSpec(r *rand.Rand) ReqSpec {
	s := ReqSpec{Cls: allClasses[r.Intn(len(allClasses))], Gas: []int64{100, 100, 200, 60, 1000}[r.Intn(5)]}
	if s.Cls == "ok" || s.Cls == "redirok" {
		s.Filter = filters[r.Intn(len(filters))]
	}
	if s.Cls == "maxsize" {
		s.Gas = []int64{400, 400, 50}[r.Intn(3)] // 50: does not fit
	}
	if s.Cls == "big" && r.Intn(3) == 0 {
		s.Gas = 10 // 0.1 GAS: the minimum
	}
	s.Throw = r.Intn(8) == 0
	return s
}

func (r *runner) key(parts ...any) string { return fmt.Sprint(parts...) }

// digestOf is what the protocol defines at the ledger's current height as far as these worlds touch it (the full
// 13-component digest of the C01 check costs 40 ms a call): tip, state root, an independent dump of all contract storage,
// the execution results of the top block (block-level and per transaction), policy and role answers.
func digestOf(bc *core.Blockchain) map[string]string {
	d := map[string]string{}
	hh := func(parts ...any) string {
		b, _ := json.Marshal(parts)
		x := hash.Sha256(b)
		return hex.EncodeToString(x[:10])
	}
	height := bc.BlockHeight()
	d["height"] = fmt.Sprint(height)
	d["tip"] = bc.CurrentBlockHash().StringLE()
	if r, err := bc.GetStateRoot(height); err == nil {
		d["stateroot"] = r.Root.StringLE()
	} else {
		d["stateroot"] = "ERR:" + err.Error()
	}
	d["storage"] = hh(chainkit.StorageDump(bc))
	var aers []any
	if blk, err := bc.GetBlock(bc.CurrentBlockHash()); err == nil {
		hs := []util.Uint256{blk.Hash()}
		for _, tx := range blk.Transactions {
			hs = append(hs, tx.Hash())
		}
		for _, x := range hs {
			rs, err := bc.GetAppExecResults(x, trigger.All)
			if err != nil {
				aers = append(aers, "ERR:"+err.Error())
				continue
			}
			for i := range rs {
				b, _ := json.Marshal(&rs[i])
				aers = append(aers, string(b))
			}
		}
	} else {
		aers = append(aers, "ERR:"+err.Error())
	}
	d["aers"] = hh(aers)
	d["policy"] = hh(bc.FeePerByte(), bc.GetBaseExecFee(), bc.GetStoragePrice(), bc.GetMaxValidUntilBlockIncrement(), bc.GetMaxVerificationGAS(),
		bc.CalculateAttributesFee(&transaction.Transaction{Attributes: []transaction.Attribute{{Type: transaction.OracleResponseT, Value: &transaction.OracleResponse{}}}}))
	ks, at, err := bc.GetDesignatedByRole(noderoles.Oracle)
	var ps []string
	for _, k := range ks {
		ps = append(ps, k.StringCompressed())
	}
	d["roles"] = hh(ps, at, fmt.Sprint(err))
	return d
}

func (r *runner) emit(ev map[string]any) {
	r.observe(ev)
	ev["src"] = r.src
	r.events = append(r.events, ev)
}

func shash(tx *transaction.Transaction) string {
	h := hash.Sha256(encodeHashable(tx))
	return hex.EncodeToString(h[:8])
}

// observe attaches what the services did since the last event.
func (r *runner) observe(ev map[string]any) {
	w := r.w
	built, gone, st, sent := []any{}, []any{}, []any{}, []any{}
	views := map[int]map[uint64]*IncView{}
	for _, nd := range w.Nodes {
		if !nd.Up {
			continue
		}
		k := [2]int{nd.Idx, nd.Inc}
		old := r.snap[k]
		if old == nil {
			old = map[uint64]snapEntry{}
		}
		cur := map[uint64]snapEntry{}
		pv := w.Peek(nd)
		views[nd.Idx] = pv
		ids := make([]uint64, 0, len(pv))
		for id := range pv {
			ids = append(ids, id)
		}
		sort.Slice(ids, func(a, b int) bool { return ids[a] < ids[b] })
		for _, id := range ids {
			v := pv[id]
			e := snapEntry{sent: v.Sent, has: v.Main != nil && v.Backup != nil}
			if e.has {
				e.main, e.backup = v.Main.Hash, v.Backup.Hash
			}
			o, was := old[id]
			e.h = o.h
			if e.has && (!was || o.main != e.main || o.backup != e.backup) {
				e.h = nd.H
			}
			cur[id] = e
			if e.has && (!was || o.main != e.main || o.backup != e.backup) {
				a := r.ans[r.key(nd.Idx, "/", nd.Inc, "/", id)]
				if q := w.Reqs[id]; q != nil && fast(q.Spec.Cls) {
					a = q.Spec.Cls
				}
				built = append(built, map[string]any{"node": nd.Idx, "req": int(id), "h": nd.H, "ans": a, "main": v.Main, "backup": v.Backup})
				r.res.Count(map[string]any{"k": "build", "code": v.Main.Code, "ans": a, "h": nd.H - int(reqHeight(w, id)), "n": w.N})
			}
			if !was || o.sent != e.sent {
				st = append(st, map[string]any{"node": nd.Idx, "req": int(id), "sent": v.Sent})
			}
		}
		for id := range old {
			if _, ok := cur[id]; !ok {
				gone = append(gone, map[string]any{"node": nd.Idx, "req": int(id)})
			}
		}
		r.snap[k] = cur
	}
	sort.Slice(gone, func(a, b int) bool { return fmt.Sprint(gone[a]) < fmt.Sprint(gone[b]) })
	// signatures the services broadcast: which of the sender's transactions each one is for
	for _, m := range w.TakeMsgs(r.nmsg) {
		r.nmsg++
		nd := w.Nodes[m.Node]
		if m.Inc != nd.Inc {
			continue
		}
		v := views[m.Node][m.Req]
		if v == nil || v.MainTx == nil {
			continue
		}
		pub := nd.Key.PublicKey()
		switch {
		case pub.VerifyHashable(m.Sig, uint32(w.net.Magic), v.MainTx):
			r.sigs[r.key(m.Node, "/", m.Req, "/main")] = sigRec{m.Sig, v.Main.Hash}
		case pub.VerifyHashable(m.Sig, uint32(w.net.Magic), v.BackupTx):
			r.sigs[r.key(m.Node, "/", m.Req, "/backup")] = sigRec{m.Sig, v.Backup.Hash}
		default:
			r.res.Inc("oraclesvc_broadcast_signature_for_neither", 1)
		}
	}
	for _, s := range w.TakeSent(r.nsent) {
		r.nsent++
		id, _ := respID(s.Tx)
		which := "other"
		if v := views[s.Node][id]; v != nil && v.Main != nil {
			switch shash(s.Tx) {
			case v.Main.Hash:
				which = "main"
			case v.Backup.Hash:
				which = "backup"
			}
		}
		wit, pushes, junk := w.Witness(s.Tx)
		s.BH = int(s.H)
		if se, ok := r.snap[[2]int{s.Node, s.Inc}][id]; ok && se.has {
			s.BH = se.h
		}
		keys := []int{}
		if v := views[s.Node][id]; v != nil && v.Main != nil {
			keys = v.Main.Signers
		}
		e := map[string]any{"node": s.Node, "req": int(id), "hash": shash(s.Tx), "which": which, "wit": wit, "pushes": pushes, "junk": junk,
			"bh": s.BH, "keys": keys, "desig": w.FactsOf(w.Nodes[s.Node].BC).Desig, "fast": w.Reqs[id] != nil && fast(w.Reqs[id].Spec.Cls),
			"h": int(s.H), "vub": int(s.Tx.ValidUntilBlock), "ok": s.Err == nil, "pending": s.Pending, "conflict": s.Conflict, "err": errClass(s.Err),
			"code": s.Tx.Attributes[0].Value.(*transaction.OracleResponse).Code.String()}
		sent = append(sent, e)
		r.res.Count(map[string]any{"k": "sent", "which": which, "ok": s.Err == nil, "pending": s.Pending, "conflict": s.Conflict})
	}
	if len(built) > 0 {
		ev["built"] = built
	}
	if len(gone) > 0 {
		ev["gone"] = gone
	}
	if len(st) > 0 {
		ev["st"] = st
	}
	if len(sent) > 0 {
		ev["sent"] = sent
	}
}

func reqHeight(w *World, id uint64) uint32 {
	if q := w.Reqs[id]; q != nil {
		return q.Height
	}
	return 0
}

func fast(cls string) bool { return cls == "ftp" || cls == "malformed" }

func errClass(err error) string {
	if err == nil {
		return ""
	}
	s := err.Error()
	for _, k := range []string{"negative system fee", "GAS limit exceeded", "insufficient funds", "expired", "oracle tx points to invalid request",
		"OracleResponse attribute", "already exists", "not signed by oracle nodes", "net fee is", "signature check failed", "insufficient gas", "does not round-trip"} {
		if strings.Contains(s, k) {
			return k
		}
	}
	if len(s) > 80 {
		s = s[:80]
	}
	return s
}

// compareFlags compares the model's prediction of the sent flags with the real services (drift, never a verdict).
func (r *runner) compareFlags(op Op) {
	want := map[[2]int]bool{}
	for _, p := range op.Flags {
		if len(p) == 2 {
			want[[2]int{p[0], p[1]}] = true
		}
	}
	got := map[[2]int]bool{}
	for _, nd := range r.w.Nodes {
		for id, e := range r.snap[[2]int{nd.Idx, nd.Inc}] {
			if q := r.w.Reqs[id]; q != nil && e.sent {
				got[[2]int{nd.Idx, q.Seq}] = true
			}
		}
	}
	same := len(want) == len(got)
	for k := range want {
		same = same && got[k]
	}
	r.res.Inc("oraclesvc_flag_predictions", 1)
	if !same {
		r.res.Inc("oraclesvc_flag_drift", 1)
		if r.ndrift++; r.ndrift > 1 {
			return
		}
		r.res.AddDrift(map[string]any{"part": "oraclesvc", "world": r.src, "op": op.Op, "model_sent": fmt.Sprint(op.Flags), "real_sent": fmt.Sprint(got)})
	}
}

func (r *runner) req(seq int) *Req {
	if seq < 1 || seq > len(r.w.Order) {
		return nil
	}
	return r.w.Reqs[r.w.Order[seq-1]]
}

func (r *runner) node(i int) *Node {
	if i < 0 || i >= len(r.w.Nodes) {
		return nil
	}
	return r.w.Nodes[i]
}

// feeLevels are the fee policies the schedules switch between: fee per byte, exec fee factor, OracleResponse attribute fee,
// price of an oracle request.
var feeLevels = [][4]int64{{1000, 30, 0, 5000_0000}, {1500, 30, 0, 5000_0000}, {700, 40, 0, 5000_0000}, {1000, 25, 0, 5000_0000}, {1000, 30, 100_0000, 5000_0000},
	{1000, 30, 0, 3000_0000}, {1200, 30, 0, 7000_0000}}

func feeChange(from, to int) *Fees {
	if from == to || to < 0 || to >= len(feeLevels) {
		return nil
	}
	a, b := feeLevels[from], feeLevels[to]
	f := &Fees{Attr: -1}
	if a[0] != b[0] {
		f.Fpb = b[0]
	}
	if a[1] != b[1] {
		f.Eff = b[1]
	}
	if a[2] != b[2] {
		f.Attr = b[2]
	}
	if a[3] != b[3] {
		f.Price = b[3]
	}
	return f
}

// step executes one op; ops that the real world does not enable are skipped (returns false).
func (r *runner) step(op Op) bool {
	w := r.w
	switch op.Op {
	case "mine":
		rel := w.Relay(op.Rev)
		specs := op.Specs
		for i := 0; i < op.New; i++ {
			sp := randSpec(r.rng)
			for fast(sp.Cls) != op.Fast {
				sp = randSpec(r.rng)
			}
			specs = append(specs, sp)
		}
		fees := op.Fees
		if fees == nil && op.Fee != nil {
			fees = feeChange(r.lvl, *op.Fee)
			if fees != nil {
				r.lvl = *op.Fee
			}
		}
		var desig []int
		if len(op.Desig) > 0 {
			desig = op.Desig
		}
		made, inc, err := w.Mine(specs, desig, fees)
		if err != nil {
			r.failed = err.Error()
			return false
		}
		ev := map[string]any{"event": "mine", "facts": w.FactsOf(w.P), "digest": digestOf(w.P), "pend": pendInts(w.PendingOnChain(w.P))}
		mm := []any{}
		for _, q := range made {
			mm = append(mm, map[string]any{"id": int(q.ID), "h": int(q.Height), "gas": q.Gas, "cls": q.Spec.Cls, "filter": q.Spec.Filter, "throw": q.Spec.Throw, "fast": fast(q.Spec.Cls)})
		}
		rr := []any{}
		for _, x := range rel {
			id, _ := respID(x.S.Tx)
			rr = append(rr, map[string]any{"node": x.S.Node, "req": int(id), "hash": shash(x.S.Tx), "ok": x.Err == nil, "err": errClass(x.Err),
				"pending": x.Pending, "conflict": x.Conflict, "h": int(x.H), "vub": int(x.S.Tx.ValidUntilBlock), "bh": x.S.BH,
				"keys": w.view(x.S.Tx).Signers, "desig": x.Desig, "fast": w.Reqs[id] != nil && fast(w.Reqs[id].Spec.Cls)})
			r.res.Count(map[string]any{"k": "relay", "ok": x.Err == nil, "pending": x.Pending, "conflict": x.Conflict, "late": x.S.Tx.ValidUntilBlock <= x.H})
		}
		ii := []any{}
		for _, x := range inc {
			var sys int64
			rlen := 0
			sh := ""
			for _, s := range w.TakeSent(0) {
				if s.Tx.Hash() == x.Hash {
					sys, sh = s.Tx.SystemFee, shash(s.Tx)
					rlen = len(s.Tx.Attributes[0].Value.(*transaction.OracleResponse).Result)
				}
			}
			ii = append(ii, map[string]any{"req": int(x.Req), "shash": sh, "code": x.Code, "state": x.State, "resp": x.Resp, "cb": x.Cb, "sys": sys, "rlen": rlen})
			r.res.Count(map[string]any{"k": "included", "code": x.Code, "state": x.State})
			r.res.Inc("oraclesvc_responses_on_chain", 1)
		}
		ev["made"], ev["relayed"], ev["included"] = mm, rr, ii
		r.emit(ev)
	case "deliver":
		nd := r.node(op.Node)
		if nd == nil || nd.H >= len(w.blocks) {
			return false
		}
		before := fmt.Sprint(w.FactsOf(nd.BC).Desig)
		err := w.Deliver(nd)
		ev := map[string]any{"event": "deliver", "node": nd.Idx, "h": nd.H, "stored": err == nil, "cfg": nd.Idx % 4}
		if fmt.Sprint(w.FactsOf(nd.BC).Desig) != before {
			ev["stale"] = true // the block changes the designation: what the service built before is for the old set
		}
		if err != nil {
			ev["h"] = nd.H + 1
			ev["err"] = err.Error()
			r.failed = err.Error()
		} else {
			ev["digest"] = digestOf(nd.BC)
		}
		r.emit(ev)
		r.res.Count(map[string]any{"k": "deliver", "cfg": nd.Idx % 4, "lag": len(w.blocks) - nd.H})
	case "answer":
		nd, q := r.node(op.Node), r.req(op.Req)
		if nd == nil || q == nil || !nd.Up || !w.Waiting(nd, q) {
			return false
		}
		cls := q.Spec.Cls
		if op.Ans != "" {
			cls = op.Ans
		} else if op.Alt {
			cls = altOf(cls)
		}
		r.ans[r.key(nd.Idx, "/", nd.Inc, "/", q.ID)] = cls
		w.Answer(nd, q, cls)
		r.emit(map[string]any{"event": "answer", "node": nd.Idx, "req": int(q.ID), "ans": cls})
	case "sig":
		to, q := r.node(op.To), r.req(op.Req)
		if to == nil || q == nil || !to.Up || op.From == op.To {
			return false
		}
		which := op.Which
		if which == "" {
			which = "main"
		}
		from := op.From
		var sig []byte
		h := ""
		switch op.Mode {
		case "junk":
			if r.node(from) == nil {
				return false
			}
			sig = make([]byte, 64)
			r.rng.Read(sig)
			to.Orc.AddResponse(nodeKey(from).PublicKey(), q.ID, sig)
		case "outsider":
			// a key that is not designated signs what `from` built
			fn := r.node(op.From)
			if fn == nil || !fn.Up {
				return false
			}
			v := w.Peek(fn)[q.ID]
			if v == nil || v.MainTx == nil {
				return false
			}
			tx, hh := v.MainTx, v.Main.Hash
			if which == "backup" {
				tx, hh = v.BackupTx, v.Backup.Hash
			}
			sig, h, from = outsider().SignHashable(uint32(w.net.Magic), tx), hh, 99
			to.Orc.AddResponse(outsider().PublicKey(), q.ID, sig)
		default:
			rec, ok := r.sigs[r.key(from, "/", q.ID, "/", which)]
			if !ok {
				return false
			}
			sig, h = rec.sig, rec.hash
			to.Orc.AddResponse(nodeKey(from).PublicKey(), q.ID, sig)
		}
		w.Quiesce()
		r.emit(map[string]any{"event": "sig", "from": from, "to": to.Idx, "req": int(q.ID), "hash": h, "which": which, "mode": op.Mode})
		r.res.Count(map[string]any{"k": "sig", "mode": op.Mode, "which": which})
	case "tick":
		nd, q := r.node(op.Node), r.req(op.Req)
		if nd == nil || q == nil || !nd.Up {
			return false
		}
		// the refresh timer re-processes only entries the node processed itself before (an entry made by a peer's
		// signature alone has a zero time stamp: the timer drops it instead)
		if v := w.Peek(nd)[q.ID]; v == nil || v.MainTx == nil {
			return false
		}
		nd.Orc.ProcessRequestsInternal(map[uint64]*state.OracleRequest{q.ID: nil})
		w.Quiesce()
		r.emit(map[string]any{"event": "tick", "node": nd.Idx, "req": int(q.ID)})
	case "restart":
		nd := r.node(op.Node)
		if nd == nil {
			return false
		}
		// everything the old incarnation held is gone
		gone := []any{}
		for id := range r.snap[[2]int{nd.Idx, nd.Inc}] {
			gone = append(gone, map[string]any{"node": nd.Idx, "req": int(id)})
		}
		sort.Slice(gone, func(a, b int) bool { return fmt.Sprint(gone[a]) < fmt.Sprint(gone[b]) })
		delete(r.snap, [2]int{nd.Idx, nd.Inc})
		for k := range r.sigs {
			if strings.HasPrefix(k, fmt.Sprint(nd.Idx, "/")) {
				delete(r.sigs, k) // what a dead incarnation signed stays valid, but the harness network forgets it
			}
		}
		if err := w.Restart(nd, op.Ledger); err != nil {
			r.failed = err.Error()
			return false
		}
		ev := map[string]any{"event": "restart", "node": nd.Idx, "ledger": op.Ledger, "h": nd.H, "digest": digestOf(nd.BC), "cfg": nd.Idx % 4}
		r.observe(ev)
		if g2, ok := ev["gone"].([]any); ok {
			gone = append(gone, g2...)
		}
		if len(gone) > 0 {
			ev["gone"] = gone
		}
		ev["src"] = r.src
		r.events = append(r.events, ev)
		r.res.Count(map[string]any{"k": "restart", "ledger": op.Ledger})
	case "final":
		r.final()
	default:
		return false
	}
	return true
}

func pendInts(ids []uint64) []int {
	out := []int{}
	for _, i := range ids {
		out = append(out, int(i))
	}
	return out
}

// final is a fair completion made of ordinary steps: every node gets every block and every answer, every signature
// reaches everybody, refresh, blocks.
func (r *runner) final() {
	w := r.w
	for round := 0; round < 3 && r.failed == ""; round++ {
		for _, nd := range w.Nodes {
			for nd.H < len(w.blocks) && r.failed == "" {
				r.step(Op{Op: "deliver", Node: nd.Idx})
			}
		}
		for seq := range w.Order {
			for _, nd := range w.Nodes {
				r.step(Op{Op: "answer", Node: nd.Idx, Req: seq + 1})
			}
		}
		for seq := range w.Order {
			for _, a := range w.Nodes {
				if round > 0 {
					r.step(Op{Op: "tick", Node: a.Idx, Req: seq + 1})
				}
				for _, b := range w.Nodes {
					r.step(Op{Op: "sig", From: a.Idx, To: b.Idx, Req: seq + 1, Which: "main"})
					if round > 0 {
						r.step(Op{Op: "sig", From: a.Idx, To: b.Idx, Req: seq + 1, Which: "backup"})
					}
				}
			}
		}
		r.step(Op{Op: "mine"})
	}
	for _, nd := range w.Nodes {
		for nd.H < len(w.blocks) && r.failed == "" {
			r.step(Op{Op: "deliver", Node: nd.Idx})
		}
	}
	r.emit(map[string]any{"event": "final", "pend": pendInts(w.PendingOnChain(w.P))})
}

// runWorld executes one schedule; the first op is init.
func runWorld(t *testing.T, res *vh.Result, tr *vh.Trace, src string, seed int64, ops []Op, dir string) {
	if len(ops) == 0 || ops[0].Op != "init" {
		return
	}
	in := ops[0]
	if in.Inc == 0 {
		in.Inc = 4
	}
	wdir := filepath.Join(dir, "w")
	_ = os.MkdirAll(wdir, 0o755)
	w, err := NewWorld(t, in.N, uint32(in.Inc), in.Desig, wdir)
	if err != nil {
		res.Inc("oraclesvc_worlds_failed", 1)
		res.AddDrift(map[string]any{"part": "oraclesvc", "world": src, "error": err.Error()})
		if w != nil {
			w.Close()
		}
		return
	}
	r := &runner{w: w, res: res, src: src, rng: rand.New(rand.NewSource(seed)), snap: map[[2]int]map[uint64]snapEntry{}, sigs: map[string]sigRec{}, ans: map[string]string{}}
	defer func() {
		if p := recover(); p != nil {
			// a panic escaping the service / ledger API: the locks may be held, do not try to close
			res.Violate(map[string]any{"kind": "panic", "part": "oraclesvc"}, fmt.Sprintf("panic in world %s: %v\n%s", src, p, debug.Stack()), map[string]any{"ops": ops})
			for _, e := range r.events {
				tr.Emit(e)
			}
			return
		}
		w.Close()
	}()
	init := map[string]any{"event": "init", "n": in.N, "facts": w.FactsOf(w.P), "digest": digestOf(w.P), "inc": in.Inc}
	r.emit(init)
	done, skipped := 0, 0
	for _, op := range ops[1:] {
		if r.failed != "" {
			break
		}
		if op.Op == "relay" || op.Op == "forge" {
			continue // model-only steps: the harness relays at every mine and forges when the signature is delivered
		}
		if r.step(op) {
			done++
			if op.Flags != nil {
				r.compareFlags(op)
			}
		} else {
			skipped++
		}
	}
	res.Inc("oraclesvc_steps", done)
	res.Inc("oraclesvc_steps_not_enabled", skipped)
	if r.failed != "" {
		res.Inc("oraclesvc_worlds_aborted", 1)
		res.AddDrift(map[string]any{"part": "oraclesvc", "world": src, "aborted": r.failed})
	}
	for k, v := range w.Stats {
		res.Inc("oraclesvc_"+k, v)
	}
	for _, e := range r.events {
		tr.Emit(e)
	}
	res.Traces++
	res.Inc("oraclesvc_worlds", 1)
	res.Inc("oraclesvc_requests", len(w.Order))
	if len(r.events) > 3 {
		res.Sample(map[string]any{"world": src, "events": len(r.events), "requests": len(w.Order), "last": r.events[len(r.events)-1]})
	}
}

// randomOps makes a seeded schedule over a larger universe.
func randomOps(rng *rand.Rand, n int) []Op {
	inc := 3 + rng.Intn(4)
	all := make([]int, n)
	for i := range all {
		all[i] = i
	}
	ops := []Op{{Op: "init", N: n, Inc: inc, Desig: all}}
	nreq := 0
	steps := 30 + rng.Intn(50)
	policy := rng.Intn(3) == 0 // worlds with fee / designation changes
	for s := 0; s < steps; s++ {
		x := rng.Intn(100)
		nd := rng.Intn(n)
		rq := 1
		if nreq > 0 {
			rq = 1 + rng.Intn(nreq)
			if rng.Intn(2) == 0 {
				rq = nreq // the youngest
			}
		}
		switch {
		case x < 12:
			op := Op{Op: "mine", Rev: rng.Intn(2) == 0}
			if nreq < 6 && rng.Intn(3) > 0 {
				k := 1 + rng.Intn(2)
				for i := 0; i < k; i++ {
					op.Specs = append(op.Specs, randSpec(rng))
				}
				nreq += k
			}
			if policy && rng.Intn(4) == 0 {
				l := rng.Intn(len(feeLevels))
				op.Fee = &l
			}
			if policy && rng.Intn(6) == 0 {
				k := 1 + rng.Intn(n)
				p := rng.Perm(n)[:k]
				sort.Ints(p)
				op.Desig = p
			}
			ops = append(ops, op)
		case x < 32:
			ops = append(ops, Op{Op: "deliver", Node: nd})
		case x < 55:
			ops = append(ops, Op{Op: "answer", Node: nd, Req: rq, Alt: rng.Intn(7) == 0})
		case x < 88:
			op := Op{Op: "sig", From: rng.Intn(n), To: nd, Req: rq, Which: "main", Mode: "ok"}
			if rng.Intn(4) == 0 {
				op.Which = "backup"
			}
			switch rng.Intn(12) {
			case 0:
				op.Mode = "junk"
			case 1:
				op.Mode = "outsider"
			}
			ops = append(ops, op)
		case x < 94:
			ops = append(ops, Op{Op: "tick", Node: nd, Req: rq})
		case x < 97:
			ops = append(ops, Op{Op: "restart", Node: nd, Ledger: rng.Intn(2) == 0})
		default:
			// a burst: everybody gets the block and the answer of the youngest request
			for i := 0; i < n; i++ {
				ops = append(ops, Op{Op: "deliver", Node: i}, Op{Op: "answer", Node: i, Req: rq})
			}
		}
	}
	ops = append(ops, Op{Op: "final"})
	return ops
}

// scripted worlds: the happy path, both transactions collecting M signatures, and regressions of the three defects the
// extension found and the lead repaired (9e0aa89 InsufficientFunds size, 99cbbbc intake race, 8ec6243 attribute fee).
func scripted(n int) map[string][]Op {
	all := make([]int, n)
	for i := range all {
		all[i] = i
	}
	everyone := func(f func(i int) []Op) (out []Op) {
		for i := 0; i < n; i++ {
			out = append(out, f(i)...)
		}
		return
	}
	sigsAll := func(req int, which string) (out []Op) {
		for a := 0; a < n; a++ {
			for b := 0; b < n; b++ {
				if a != b {
					out = append(out, Op{Op: "sig", From: a, To: b, Req: req, Which: which, Mode: "ok"})
				}
			}
		}
		return
	}
	cat := func(parts ...[]Op) (out []Op) {
		for _, p := range parts {
			out = append(out, p...)
		}
		return
	}
	dl := everyone(func(i int) []Op { return []Op{{Op: "deliver", Node: i}} })
	ansAll := func(req int) []Op {
		return everyone(func(i int) []Op { return []Op{{Op: "answer", Node: i, Req: req}} })
	}
	one := 1
	m := map[string][]Op{}
	m["happy"] = cat([]Op{{Op: "init", N: n, Inc: 4, Desig: all}, {Op: "mine", Specs: []ReqSpec{{Cls: "ok", Filter: "$.g", Gas: 100}, {Cls: "notfound", Gas: 100}}}},
		dl, ansAll(1), ansAll(2), sigsAll(1, "main"), sigsAll(2, "main"), []Op{{Op: "mine"}}, dl, []Op{{Op: "final"}})
	// the web server answers half of the nodes differently: main cannot collect M, the refresh makes the backup complete;
	// then the late main signatures arrive too and somebody else completes the main transaction
	half := everyone(func(i int) []Op { return []Op{{Op: "answer", Node: i, Req: 1, Alt: i%2 == 1}} })
	ticks := everyone(func(i int) []Op { return []Op{{Op: "tick", Node: i, Req: 1}} })
	m["both"] = cat([]Op{{Op: "init", N: n, Inc: 4, Desig: all}, {Op: "mine", Specs: []ReqSpec{{Cls: "ok", Gas: 100}}}},
		dl, half, sigsAll(1, "main"), ticks, sigsAll(1, "backup"), []Op{{Op: "mine", Rev: true}}, dl, []Op{{Op: "final"}})
	// main AND backup complete on different nodes: node 0 never sees the main signatures, gets the backup ones
	var mainNot0, backupTo0 []Op
	for _, o := range sigsAll(1, "main") {
		if o.To != 0 {
			mainNot0 = append(mainNot0, o)
		}
	}
	for _, o := range sigsAll(1, "backup") {
		if o.To == 0 {
			backupTo0 = append(backupTo0, o)
		}
	}
	// (a second request stays pending meanwhile: the Oracle contract's balance covers both transactions, only the pool's
	// one-response-per-request rule stands between them and a block with two responses to one request)
	m["twotx"] = cat([]Op{{Op: "init", N: n, Inc: 4, Desig: all}, {Op: "mine", Specs: []ReqSpec{{Cls: "ok", Filter: "$.f", Gas: 100}, {Cls: "err500", Gas: 400}}}},
		dl, ansAll(1), ticks, backupTo0, mainNot0, []Op{{Op: "mine", Rev: true}}, dl, sigsAll(1, "main"), ticks, []Op{{Op: "mine"}}, dl, []Op{{Op: "final"}})
	m["repro-insufficient"] = cat([]Op{{Op: "init", N: n, Inc: 4, Desig: all}, {Op: "mine", Specs: []ReqSpec{{Cls: "maxsize", Gas: 50}}}},
		dl, ansAll(1), sigsAll(1, "main"), []Op{{Op: "final"}})
	m["repro-nofetch"] = cat([]Op{{Op: "init", N: n, Inc: 4, Desig: all}, {Op: "mine", Specs: []ReqSpec{{Cls: "ftp", Gas: 100}, {Cls: "malformed", Gas: 100}}}},
		dl, sigsAll(1, "main"), sigsAll(2, "main"), []Op{{Op: "final"}})
	m["repro-attrfee"] = cat([]Op{{Op: "init", N: n, Inc: 4, Desig: all}, {Op: "mine", Specs: []ReqSpec{{Cls: "ok", Gas: 100}}, Fees: &Fees{Attr: 100_0000}}},
		dl, ansAll(1), sigsAll(1, "main"), []Op{{Op: "final"}})
	// residual of the intake window: the block that carries a request needing no fetch also changes the fee policy; a
	// node that processes the request while the block is being stored reads the previous policy
	m["residual-feewindow"] = cat([]Op{{Op: "init", N: n, Inc: 4, Desig: all}, {Op: "mine", Specs: []ReqSpec{{Cls: "ftp", Gas: 100}}, Fee: &one}},
		dl, sigsAll(1, "main"), []Op{{Op: "final"}})
	// restart of every node (ledger too) between the answer and the signatures; a redesignation in between
	sub := all[:n-1]
	m["restart-redesig"] = cat([]Op{{Op: "init", N: n, Inc: 5, Desig: all}, {Op: "mine", Specs: []ReqSpec{{Cls: "ok", Gas: 100}, {Cls: "forbidden", Gas: 100}}}},
		dl, ansAll(1), everyone(func(i int) []Op { return []Op{{Op: "restart", Node: i, Ledger: i%2 == 0}} }), ansAll(1), ansAll(2),
		[]Op{{Op: "mine", Desig: sub, Fee: &one}}, dl, sigsAll(1, "main"), everyone(func(i int) []Op { return []Op{{Op: "restart", Node: i, Ledger: i%2 == 1}} }),
		[]Op{{Op: "final"}})
	// the price of a request changes, every ledger restarts (half of them), a request is made at the new price and answered
	five, six := 5, 6
	m["restart-price"] = cat([]Op{{Op: "init", N: n, Inc: 5, Desig: all}, {Op: "mine", Fee: &five}}, dl,
		everyone(func(i int) []Op { return []Op{{Op: "restart", Node: i, Ledger: i%2 == 0}} }),
		[]Op{{Op: "mine", Specs: []ReqSpec{{Cls: "ok", Filter: "$.s", Gas: 100}}}}, dl, ansAll(1), sigsAll(1, "main"), []Op{{Op: "mine", Fee: &six}}, dl,
		everyone(func(i int) []Op { return []Op{{Op: "restart", Node: i, Ledger: i%2 == 1}} }),
		[]Op{{Op: "mine", Specs: []ReqSpec{{Cls: "timeout", Gas: 100, Throw: true}}}}, dl, ansAll(2), sigsAll(2, "main"), []Op{{Op: "final"}})
	return m
}

func TestDriver(t *testing.T) {
	res := vh.NewResult()
	tr := vh.NewTrace("trace.ndjson")
	dir := t.TempDir()
	nBig := 4
	if vh.Thorough() {
		nBig = 7
	}
	// 1. scripted worlds
	sc := scripted(4)
	names := make([]string, 0, len(sc))
	for k := range sc {
		names = append(names, k)
	}
	sort.Strings(names)
	for _, k := range names {
		runWorld(t, res, tr, "scripted:"+k, 1, sc[k], dir)
	}
	if vh.Thorough() {
		sc7 := scripted(7)
		for _, k := range names {
			runWorld(t, res, tr, "scripted7:"+k, 1, sc7[k], dir)
		}
	}
	// 2. TLC behaviours of OracleSvcImpl
	var behaviours [][]Op
	if vh.InDir() != "" {
		if err := vh.ReadJSON("behaviours.json", &behaviours); err != nil {
			t.Fatalf("behaviours: %v", err)
		}
	}
	for i, b := range behaviours {
		ops := append([]Op{}, b...)
		ops = append(ops, Op{Op: "final"})
		runWorld(t, res, tr, fmt.Sprintf("tlc:%d", i), vh.Seed()*7919+int64(i), ops, dir)
	}
	// 3. seeded random schedules
	nrand := vh.EnvInt("VERIF_RANDOM", 40)
	for i := 0; i < nrand; i++ {
		rng := vh.Rand(int64(1000 + i))
		n := 4
		if i%3 == 2 {
			n = nBig
		}
		runWorld(t, res, tr, fmt.Sprintf("random:%d", i), vh.Seed()*104729+int64(i), randomOps(rng, n), dir)
	}
	tr.Close()
	if err := res.Write(); err != nil {
		t.Fatal(err)
	}
	b, _ := json.Marshal(res.Stats)
	t.Logf("stats %s", b)
}
