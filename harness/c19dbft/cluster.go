// Package c19dbft runs N real consensus.Service instances on N real ledgers (real bqueue, real extensible
// pool) over a harness network with virtual time, one event at a time.
package c19dbft

import (
	"fmt"
	"os"
	"path/filepath"
	"slices"
	"sync"
	"time"

	"verifharness/internal/chainkit"

	"github.com/nspcc-dev/dbft"
	"github.com/nspcc-dev/neo-go/pkg/config"
	"github.com/nspcc-dev/neo-go/pkg/consensus"
	"github.com/nspcc-dev/neo-go/pkg/core"
	"github.com/nspcc-dev/neo-go/pkg/core/block"
	"github.com/nspcc-dev/neo-go/pkg/core/transaction"
	"github.com/nspcc-dev/neo-go/pkg/crypto/keys"
	"github.com/nspcc-dev/neo-go/pkg/io"
	"github.com/nspcc-dev/neo-go/pkg/network/bqueue"
	"github.com/nspcc-dev/neo-go/pkg/network/extpool"
	npayload "github.com/nspcc-dev/neo-go/pkg/network/payload"
	"github.com/nspcc-dev/neo-go/pkg/util"
	"github.com/nspcc-dev/neo-go/pkg/wallet"
	"go.uber.org/zap"
)

// ---------------------------------------------------------------- virtual time

type clock struct {
	mu  sync.Mutex
	now time.Time
}

func (c *clock) Now() time.Time {
	c.mu.Lock()
	defer c.mu.Unlock()
	c.now = c.now.Add(time.Millisecond) // strictly increasing reads
	return c.now
}

func (c *clock) advanceTo(t time.Time) {
	c.mu.Lock()
	if t.After(c.now) {
		c.now = t
	}
	c.mu.Unlock()
}

// vtimer is a dbft.Timer that never fires by itself: the harness fires it (Timeout step).
type vtimer struct {
	mu       sync.Mutex
	clk      *clock
	h        uint32
	v        byte
	deadline time.Time
	armed    bool
	ch       chan time.Time
	resets   int
}

func newVTimer(c *clock) *vtimer { return &vtimer{clk: c, ch: make(chan time.Time, 1)} }

func (t *vtimer) Now() time.Time { return t.clk.Now() }
func (t *vtimer) Reset(h uint32, v byte, d time.Duration) {
	t.mu.Lock()
	defer t.mu.Unlock()
	select {
	case <-t.ch:
	default:
	}
	t.h, t.v, t.deadline, t.armed = h, v, t.clk.Now().Add(d), true
	t.resets++
}
func (t *vtimer) Extend(d time.Duration) {
	t.mu.Lock()
	t.deadline = t.deadline.Add(d)
	t.mu.Unlock()
}
func (t *vtimer) Height() uint32      { t.mu.Lock(); defer t.mu.Unlock(); return t.h }
func (t *vtimer) View() byte          { t.mu.Lock(); defer t.mu.Unlock(); return t.v }
func (t *vtimer) C() <-chan time.Time { return t.ch }

// fire delivers the timeout if the timer is armed; returns false otherwise.
func (t *vtimer) fire() bool {
	t.mu.Lock()
	defer t.mu.Unlock()
	if !t.armed {
		return false
	}
	t.armed = false
	t.clk.advanceTo(t.deadline)
	select {
	case t.ch <- t.deadline:
	default:
	}
	return true
}

// ---------------------------------------------------------------- nodes and network

// recQueue is the BlockQueuer handed to the consensus service: it records what the validator assembled
// (block + witness) and checks, on a peer's ledger, that the witness satisfies the consensus address the
// previous header designates - i.e. that the committed block is acceptable elsewhere - then forwards to the
// node's real block queue.
type recQueue struct {
	c   *Cluster
	idx int
	in  *bqueue.Queue[*block.Block]
}

func (r recQueue) Put(b *block.Block) error {
	ok, checked := true, 0
	errs := ""
	for j, o := range r.c.Nodes {
		if j == r.idx || o == nil {
			continue
		}
		prev, err := o.BC.GetHeader(b.PrevHash)
		if err != nil {
			continue
		}
		checked++
		if _, err := o.BC.VerifyWitness(prev.NextConsensus, b, &b.Script, o.BC.GetMaxVerificationGAS()); err != nil {
			ok = false
			errs = err.Error()
		}
	}
	r.c.Log(map[string]any{"event": "queued", "node": r.idx, "h": b.Index, "hash": b.Hash().StringLE(), "peers_checked": checked, "witness_ok": ok, "err": errs})
	return r.in.Put(b)
}

type queuer struct{ bc *core.Blockchain }

func (q queuer) AddItem(b *block.Block) error     { return q.bc.AddBlock(b) }
func (q queuer) AddItems(b ...*block.Block) error { panic("not used") }
func (q queuer) Height() uint32                   { return q.bc.BlockHeight() }

// Msg is one payload put on the network by a node.
type Msg struct {
	ID     int
	From   int
	Type   string
	Height uint32
	View   byte
	Raw    []byte // wire encoding of the extensible payload
	Hash   util.Uint256
}

type Node struct {
	Idx    int
	BC     *core.Blockchain
	Q      *bqueue.Queue[*block.Block]
	Svc    consensus.Service
	Ext    *extpool.Pool
	Timer  *vtimer
	iters  int // event-loop iterations completed (under Cluster.mu)
	Queued []util.Uint256
}

type Cluster struct {
	Variants int // transactions handed to a node as another valid copy (different witness)
	N, F     int
	Net      *chainkit.Net
	Nodes    []*Node
	clk      *clock
	mu       sync.Mutex
	cond     *sync.Cond
	Msgs     []*Msg
	TxReqs   [][2]any // (node, hashes) requests for transactions
	bySvc    map[consensus.Service]*Node
	dir      string
	Log      func(ev map[string]any)
}

var hookMu sync.Mutex

// NewCluster builds n validators (committee = validators = n), each with its own ledger, queue, pool and service.
// MaxTxPerBlock is the block capacity of the clusters built next (scenes about full proposals lower it).
var MaxTxPerBlock uint16 = 16

func NewCluster(n int, dir string, logf func(map[string]any)) (*Cluster, error) {
	c := &Cluster{N: n, F: (n - 1) / 3, Net: chainkit.NewNet(n, n), clk: &clock{now: time.Unix(1_700_000_000, 0)},
		bySvc: map[consensus.Service]*Node{}, dir: dir, Log: logf}
	c.cond = sync.NewCond(&c.mu)
	consensus.VerifLoopIdle = func(s consensus.Service) {
		c.mu.Lock()
		if nd := c.bySvc[s]; nd != nil {
			nd.iters++
		}
		c.cond.Broadcast()
		c.mu.Unlock()
	}
	hook := func(cfg *config.Blockchain) {
		cfg.TimePerBlock = 100 * time.Millisecond
		cfg.Genesis.TimePerBlock = 100 * time.Millisecond
		cfg.MaxTransactionsPerBlock = MaxTxPerBlock
		cfg.MemPoolSize = 100
	}
	for i := 0; i < n; i++ {
		bc, err := c.Net.NewChain(nil, hook)
		if err != nil {
			return nil, err
		}
		chainkit.Start(bc)
		nd := &Node{Idx: i, BC: bc, Timer: newVTimer(c.clk)}
		nd.Ext = extpool.New(bc, 100, func([]util.Uint256) {})
		nd.Q = bqueue.New[*block.Block](queuer{bc}, zap.NewNop(), func(b *block.Block) {}, 64, nil, bqueue.NonBlocking)
		go nd.Q.Run()
		// wallet with this validator's key (cheap scrypt: the wallet only has to be decryptable)
		wp := filepath.Join(dir, fmt.Sprintf("w%d-%d.json", n, i))
		w, err := wallet.NewWallet(wp)
		if err != nil {
			return nil, err
		}
		w.Scrypt = keys.ScryptParams{N: 2, R: 1, P: 1}
		acc := wallet.NewAccountFromPrivateKey(chainkit.Key(fmt.Sprintf("committee-%d", i)))
		if err := acc.Encrypt("pw", w.Scrypt); err != nil {
			return nil, err
		}
		w.AddAccount(acc)
		if err := w.Save(); err != nil {
			return nil, err
		}
		w.Close()
		idx := i
		hookMu.Lock()
		consensus.VerifNewTimer = func() dbft.Timer { return nd.Timer }
		svc, err := consensus.NewService(consensus.Config{
			Logger:                zap.NewNop(),
			Broadcast:             func(p *npayload.Extensible) { c.onBroadcast(idx, p) },
			Chain:                 bc,
			BlockQueue:            recQueue{c: c, idx: idx, in: nd.Q},
			ProtocolConfiguration: bc.GetConfig().ProtocolConfiguration,
			RequestTx:             func(h ...util.Uint256) { c.onRequestTx(idx, h) },
			StopTxFlow:            func() {},
			Wallet:                config.Wallet{Path: wp, Password: "pw"},
		})
		consensus.VerifNewTimer = nil
		hookMu.Unlock()
		if err != nil {
			return nil, err
		}
		nd.Svc = svc
		c.bySvc[svc] = nd
		c.Nodes = append(c.Nodes, nd)
	}
	return c, nil
}

func typeName(t dbft.MessageType) string {
	switch t {
	case dbft.ChangeViewType:
		return "ChangeView"
	case dbft.PrepareRequestType:
		return "PrepareRequest"
	case dbft.PrepareResponseType:
		return "PrepareResponse"
	case dbft.CommitType:
		return "Commit"
	case dbft.RecoveryRequestType:
		return "RecoveryRequest"
	case dbft.RecoveryMessageType:
		return "RecoveryMessage"
	}
	return fmt.Sprintf("T%d", t)
}

func (c *Cluster) onBroadcast(from int, p *npayload.Extensible) {
	bw := io.NewBufBinWriter()
	p.EncodeBinary(bw.BinWriter)
	raw := bw.Bytes()
	// decode our own copy to classify it
	cp := consensus.NewPayload(c.Net.Magic, false)
	r := io.NewBinReaderFromBuf(raw)
	cp.DecodeBinary(r)
	m := &Msg{From: from, Raw: raw, Hash: p.Hash()}
	if r.Err == nil {
		m.Type, m.Height, m.View = typeName(cp.Type()), cp.Height(), cp.ViewNumber()
	} else {
		m.Type = "undecodable"
	}
	c.mu.Lock()
	m.ID = len(c.Msgs)
	c.Msgs = append(c.Msgs, m)
	c.mu.Unlock()
	c.Log(map[string]any{"event": "send", "id": m.ID, "from": from, "type": m.Type, "h": m.Height, "view": int(m.View)})
}

func (c *Cluster) onRequestTx(node int, hs []util.Uint256) {
	c.mu.Lock()
	// (a copy: the service hands over the slice it keeps editing while the requested transactions arrive)
	c.TxReqs = append(c.TxReqs, [2]any{node, slices.Clone(hs)})
	c.mu.Unlock()
}

func (c *Cluster) Start() {
	for _, n := range c.Nodes {
		n.Svc.Start()
	}
	c.Settle()
}

func (c *Cluster) Close() {
	for _, n := range c.Nodes {
		n.Svc.Shutdown()
		n.Q.Discard()
		n.BC.Close()
	}
	consensus.VerifLoopIdle = nil
}

func (c *Cluster) itersOf(i int) int {
	c.mu.Lock()
	defer c.mu.Unlock()
	return c.Nodes[i].iters
}

// waitIter waits until node i completed an event-loop iteration beyond `before`. Wall-clock is used only to
// detect a dead driver (-> inconclusive), never for a verdict.
func (c *Cluster) waitIter(i, before int) error {
	deadline := time.Now().Add(20 * time.Second)
	c.mu.Lock()
	defer c.mu.Unlock()
	for c.Nodes[i].iters <= before {
		if time.Now().After(deadline) {
			return fmt.Errorf("node %d did not finish processing an event within 20s", i)
		}
		c.mu.Unlock()
		time.Sleep(200 * time.Microsecond)
		c.mu.Lock()
	}
	return nil
}

// Settle waits until nothing moves any more: loop iteration counters, chain heights and the number of sent
// messages are stable over several polls (block notifications travel through internal goroutines).
func (c *Cluster) Settle() {
	stable := 0
	var last string
	for stable < 4 {
		time.Sleep(300 * time.Microsecond)
		c.mu.Lock()
		cur := fmt.Sprint(len(c.Msgs))
		for _, n := range c.Nodes {
			cur += fmt.Sprintf("|%d:%d:%d", n.iters, n.BC.BlockHeight(), n.Timer.resetsCount())
		}
		c.mu.Unlock()
		if cur == last {
			stable++
		} else {
			stable, last = 0, cur
		}
	}
}

func (t *vtimer) resetsCount() int { t.mu.Lock(); defer t.mu.Unlock(); return t.resets }

// Deliver hands message id to node `to` the way Server.handleExtensibleCmd does: decode from the wire, pass the
// extensible pool (witness, sender whitelist, height window, de-duplication), then the consensus service.
func (c *Cluster) Deliver(id, to int) (string, error) {
	c.mu.Lock()
	if id < 0 || id >= len(c.Msgs) {
		c.mu.Unlock()
		return "nomsg", nil
	}
	m := c.Msgs[id]
	c.mu.Unlock()
	n := c.Nodes[to]
	e := npayload.NewExtensible()
	r := io.NewBinReaderFromBuf(m.Raw)
	e.DecodeBinary(r)
	if r.Err != nil {
		return "undecodable", nil
	}
	ok, err := n.Ext.Add(e)
	if err != nil {
		return "pool-rejected", nil
	}
	if !ok {
		return "duplicate", nil
	}
	before := c.itersOf(to)
	if err := n.Svc.OnPayload(e); err != nil {
		return "service-error", nil
	}
	// OnPayload drops payloads it cannot validate without touching the loop: poll shortly for an iteration
	if err := c.waitIterSoft(to, before); err != nil {
		return "dropped", nil
	}
	c.Settle()
	return "delivered", nil
}

func (c *Cluster) waitIterSoft(i, before int) error {
	deadline := time.Now().Add(300 * time.Millisecond)
	for {
		if c.itersOf(i) > before {
			return nil
		}
		if time.Now().After(deadline) {
			return fmt.Errorf("no iteration")
		}
		time.Sleep(100 * time.Microsecond)
	}
}

// Timeout fires node i's timer (if armed).
func (c *Cluster) Timeout(i int) (bool, error) {
	before := c.itersOf(i)
	if !c.Nodes[i].Timer.fire() {
		return false, nil
	}
	if err := c.waitIter(i, before); err != nil {
		return true, err
	}
	c.Settle()
	return true, nil
}

// FireEarliest fires the armed timer with the earliest virtual deadline among the nodes not excluded
// (what real time does under synchrony). Returns the node index or -1.
func (c *Cluster) FireEarliest(excluded map[int]bool) (int, error) {
	best := -1
	var bd time.Time
	for i, n := range c.Nodes {
		if excluded[i] {
			continue
		}
		n.Timer.mu.Lock()
		if n.Timer.armed && (best < 0 || n.Timer.deadline.Before(bd)) {
			best, bd = i, n.Timer.deadline
		}
		n.Timer.mu.Unlock()
	}
	if best < 0 {
		return -1, nil
	}
	_, err := c.Timeout(best)
	return best, err
}

// GiveTx pools a transaction on node i and tells its consensus service (what the server does on CMDTX).
func (c *Cluster) GiveTx(i int, tx *transaction.Transaction) error {
	n := c.Nodes[i]
	cp := *tx // fresh object per node as after decoding
	if i%2 == 1 {
		// odd nodes get ANOTHER valid copy of the transaction (same hash, the multisignature made by another subset of the
		// signers), as it can reach different nodes from different relays
		if v, ok := chainkit.WitnessVariant(tx, c.Net.Magic); ok {
			cp = *v
			c.Variants++
		}
	}
	if err := n.BC.PoolTx(&cp); err != nil {
		return err
	}
	n.Svc.OnTransaction(&cp)
	c.Settle()
	return nil
}

// ServeTxRequests answers pending getdata-for-transactions requests from any node that has them pooled.
func (c *Cluster) ServeTxRequests() int {
	c.mu.Lock()
	reqs := c.TxReqs
	c.TxReqs = nil
	c.mu.Unlock()
	served := 0
	for _, rq := range reqs {
		node := rq[0].(int)
		for _, h := range rq[1].([]util.Uint256) {
			for _, o := range c.Nodes {
				if tx, ok := o.BC.GetMemPool().TryGetValue(h); ok {
					// what the server does with a transaction consensus asked for: hand it to the service FIRST, whatever
					// the node's own pool then says about it (it may conflict with something pooled there)
					cp := *tx
					c.Nodes[node].Svc.OnTransaction(&cp)
					c.Settle()
					cp2 := *tx
					perr := c.Nodes[node].BC.PoolTx(&cp2)
					c.Log(map[string]any{"event": "txserved", "node": node, "tx": h.StringLE(), "pooled": perr == nil, "err": fmt.Sprint(perr)})
					served++
					break
				}
			}
		}
	}
	return served
}

// NodeOfValidator maps a dBFT validator index (position in the sorted validator key list) to the node holding that key.
func (c *Cluster) NodeOfValidator(vi int) int {
	vals, err := c.Nodes[0].BC.GetNextBlockValidators()
	if err != nil || vi >= len(vals) {
		return vi
	}
	for i := range c.Nodes {
		if chainkit.Key(fmt.Sprintf("committee-%d", i)).PublicKey().Equal(vals[vi]) {
			return i
		}
	}
	return vi
}

func (c *Cluster) Heights() []uint32 {
	var r []uint32
	for _, n := range c.Nodes {
		r = append(r, n.BC.BlockHeight())
	}
	return r
}

func (c *Cluster) NMsgs() int { c.mu.Lock(); defer c.mu.Unlock(); return len(c.Msgs) }

func (c *Cluster) Msg(id int) *Msg { c.mu.Lock(); defer c.mu.Unlock(); return c.Msgs[id] }

var _ = os.Remove
