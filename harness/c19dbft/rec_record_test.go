package c19dbft

// Extension c19_recovery: recording of what every payload CARRIES.  cluster.go logs a `send` event with the
// type / height / view of a payload; this file adds, right after every `send`:
//
//	sent           the author's validator index (position in the sorted validator list - dBFT's numbering), the
//	               content that identifies the payload (Commit: signature, PrepareRequest: payload hash,
//	               PrepareResponse: preparation hash, ChangeView: requested view) and a digest of the witness
//	               invocation script (the author's signature of the payload)
//	recovery_sent  for a RecoveryMessage: `wire` = the compact payloads as they are on the wire (parsed here,
//	               independently of the node's decoder), `ext` = the payloads the REAL decoder hands to dBFT for
//	               that message (dbft.RecoveryMessage.GetChangeViews / GetPrepareRequest / GetPrepareResponses /
//	               GetCommits on a decoded copy, the way service.eventLoop + dbft.onRecoveryMessage use them)
//
// Nothing here is judged in Go: DBFTRecTrace.tla keeps the set of payloads really sent and judges every
// compact / extracted payload against it (RecoverySound).

import (
	"crypto/sha256"
	"encoding/hex"
	"fmt"
	"sync"

	"verifharness/internal/vh"

	"github.com/nspcc-dev/dbft"
	"github.com/nspcc-dev/neo-go/pkg/consensus"
	"github.com/nspcc-dev/neo-go/pkg/io"
	npayload "github.com/nspcc-dev/neo-go/pkg/network/payload"
	"github.com/nspcc-dev/neo-go/pkg/util"
)

type recorder struct {
	c    *Cluster
	tr   *vh.Trace
	res  *vh.Result
	vals []dbft.PublicKey
	// node index of every validator index and back
	nodeOf []int
	viOf   []int
	// per message id: decoded facts used by the scenario drivers
	mu     sync.Mutex
	infos  map[int]*sentInfo
	queued map[int]int // blocks handed to the queue, per node
	qh     map[[2]int]bool
}

// assembled: node handed a block of height h to its queue
func (rc *recorder) assembled(node int, h uint32) bool {
	rc.mu.Lock()
	defer rc.mu.Unlock()
	return rc.qh[[2]int{node, int(h)}]
}

func (rc *recorder) inf(id int) *sentInfo {
	rc.mu.Lock()
	defer rc.mu.Unlock()
	return rc.infos[id]
}

func (rc *recorder) nQueued(node int) int {
	rc.mu.Lock()
	defer rc.mu.Unlock()
	return rc.queued[node]
}

type sentInfo struct {
	VI      int
	Type    string
	H       uint32
	View    int
	NewView int
	Wire    *wireRecovery
}

func dig(b []byte) string {
	if len(b) == 0 {
		return ""
	}
	s := sha256.Sum256(b)
	return hex.EncodeToString(s[:6])
}

func short(b []byte) string {
	if len(b) > 8 {
		b = b[:8]
	}
	return hex.EncodeToString(b)
}

func newRecorder(tr *vh.Trace, res *vh.Result) *recorder {
	return &recorder{tr: tr, res: res, infos: map[int]*sentInfo{}, queued: map[int]int{}, qh: map[[2]int]bool{}}
}

// attach is called once the cluster exists (before Start: nothing has been sent yet).
func (rc *recorder) attach(c *Cluster) error {
	rc.c = c
	vals, err := c.Nodes[0].BC.GetNextBlockValidators()
	if err != nil {
		return err
	}
	rc.vals = make([]dbft.PublicKey, len(vals))
	for i := range vals {
		rc.vals[i] = vals[i]
	}
	rc.nodeOf = make([]int, c.N)
	rc.viOf = make([]int, c.N)
	for vi := 0; vi < c.N; vi++ {
		nd := c.NodeOfValidator(vi)
		rc.nodeOf[vi] = nd
		rc.viOf[nd] = vi
	}
	return nil
}

func (rc *recorder) log(ev map[string]any) {
	rc.tr.Emit(ev)
	if rc.c == nil {
		return
	}
	switch ev["event"] {
	case "send":
		if id, ok := ev["id"].(int); ok {
			rc.onSend(id)
		}
	case "queued":
		// the ledger height of the validator at the moment it hands a block to its queue (NoSkip)
		if node, ok := ev["node"].(int); ok {
			rc.mu.Lock()
			rc.queued[node]++
			if h, ok := ev["h"].(uint32); ok {
				rc.qh[[2]int{node, int(h)}] = true
			}
			rc.mu.Unlock()
			rc.tr.Emit(map[string]any{"event": "queued_at", "node": node, "h": ev["h"], "lh": rc.c.Nodes[node].BC.BlockHeight()})
		}
	}
}

// ---------------------------------------------------------------- wire format of a RecoveryMessage (own parser)

type wireCV struct {
	VI, View int
	Inv      string
}
type wirePrep struct {
	VI  int
	Inv string
}
type wireCommit struct {
	VI, View int
	Sig, Inv string
}
type wireRecovery struct {
	CVs     []wireCV
	HasReq  bool
	ReqVI   int
	ReqView int
	PHash   string // preparation hash carried instead of the request ("" if none)
	Preps   []wirePrep
	Commits []wireCommit
}

func parseRecovery(data []byte) (w *wireRecovery, err error) {
	defer func() {
		if r := recover(); r != nil {
			err = fmt.Errorf("parse panic: %v", r)
		}
	}()
	r := io.NewBinReaderFromBuf(data)
	if t := r.ReadB(); t != 0x41 {
		return nil, fmt.Errorf("not a recovery message: %x", t)
	}
	_ = r.ReadU32LE()
	_ = r.ReadB()
	_ = r.ReadB()
	w = &wireRecovery{}
	n := r.ReadVarUint()
	for i := uint64(0); i < n && r.Err == nil; i++ {
		var c wireCV
		c.VI = int(r.ReadB())
		c.View = int(r.ReadB())
		_ = r.ReadU64LE()
		c.Inv = dig(r.ReadVarBytes(1024))
		w.CVs = append(w.CVs, c)
	}
	w.HasReq = r.ReadBool()
	if w.HasReq {
		if t := r.ReadB(); t != 0x20 {
			return nil, fmt.Errorf("embedded request has type %x", t)
		}
		_ = r.ReadU32LE()
		w.ReqVI = int(r.ReadB())
		w.ReqView = int(r.ReadB())
		_ = r.ReadU32LE()             // version
		r.ReadBytes(make([]byte, 32)) // prev hash
		_ = r.ReadU64LE()             // timestamp
		_ = r.ReadU64LE()             // nonce
		k := r.ReadVarUint()
		for i := uint64(0); i < k && r.Err == nil; i++ {
			r.ReadBytes(make([]byte, 32))
		}
	} else {
		l := r.ReadVarUint()
		if l == 32 {
			h := make([]byte, 32)
			r.ReadBytes(h)
			var u util.Uint256
			copy(u[:], h)
			w.PHash = u.StringLE()[:16]
		} else if l != 0 {
			return nil, fmt.Errorf("preparation hash length %d", l)
		}
	}
	n = r.ReadVarUint()
	for i := uint64(0); i < n && r.Err == nil; i++ {
		var p wirePrep
		p.VI = int(r.ReadB())
		p.Inv = dig(r.ReadVarBytes(1024))
		w.Preps = append(w.Preps, p)
	}
	n = r.ReadVarUint()
	for i := uint64(0); i < n && r.Err == nil; i++ {
		var c wireCommit
		c.View = int(r.ReadB())
		c.VI = int(r.ReadB())
		sig := make([]byte, 64)
		r.ReadBytes(sig)
		c.Sig = short(sig)
		c.Inv = dig(r.ReadVarBytes(1024))
		w.Commits = append(w.Commits, c)
	}
	if r.Err != nil {
		return nil, r.Err
	}
	return w, nil
}

// ---------------------------------------------------------------- one payload

func (rc *recorder) decode(raw []byte) (*consensus.Payload, *npayload.Extensible, error) {
	e := npayload.NewExtensible()
	r := io.NewBinReaderFromBuf(raw)
	e.DecodeBinary(r)
	if r.Err != nil {
		return nil, nil, r.Err
	}
	p := consensus.NewPayload(rc.c.Net.Magic, false)
	r2 := io.NewBinReaderFromBuf(raw)
	p.DecodeBinary(r2)
	if r2.Err != nil {
		return nil, nil, r2.Err
	}
	return p, e, nil
}

func primaryOf(h uint32, view, n int) int {
	p := (int(h) - view) % n
	if p < 0 {
		p += n
	}
	return p
}

func (rc *recorder) onSend(id int) {
	m := rc.c.Msg(id)
	p, e, err := rc.decode(m.Raw)
	if err != nil {
		rc.tr.Emit(map[string]any{"event": "sent", "id": id, "node": m.From, "type": "undecodable", "err": err.Error()})
		return
	}
	vi := int(p.ValidatorIndex())
	inf := &sentInfo{VI: vi, Type: m.Type, H: m.Height, View: int(m.View)}
	rc.mu.Lock()
	rc.infos[id] = inf
	rc.mu.Unlock()
	ev := map[string]any{"event": "sent", "id": id, "node": m.From, "vi": vi, "type": m.Type, "h": m.Height, "view": int(m.View),
		"inv": dig(e.Witness.InvocationScript), "content": "", "newview": 0, "node_vi": rc.viOf[m.From],
		"lh": rc.c.Nodes[m.From].BC.BlockHeight()}
	switch p.Type() {
	case dbft.CommitType:
		ev["content"] = short(p.GetCommit().Signature())
	case dbft.PrepareRequestType:
		ev["content"] = p.Hash().StringLE()[:16]
	case dbft.PrepareResponseType:
		ev["content"] = p.GetPrepareResponse().PreparationHash().StringLE()[:16]
	case dbft.ChangeViewType:
		inf.NewView = int(p.GetChangeView().NewViewNumber())
		ev["newview"] = inf.NewView
	}
	rc.tr.Emit(ev)
	if p.Type() != dbft.RecoveryMessageType {
		return
	}
	rc.res.Inc("recovery_messages", 1)
	rev := map[string]any{"event": "recovery_sent", "id": id, "node": m.From, "vi": vi, "h": m.Height, "view": int(m.View)}
	w, werr := parseRecovery(e.Data)
	if werr != nil {
		// our own parser failing is a harness problem, never a verdict
		rev["wire_ok"] = false
		rev["wire_err"] = werr.Error()
		rc.res.AddDrift(map[string]any{"kind": "recovery-wire-parse", "err": werr.Error()})
		w = &wireRecovery{}
	} else {
		rev["wire_ok"] = true
		inf.Wire = w
	}
	wcv, wpr, wcm := []any{}, []any{}, []any{}
	for _, c := range w.CVs {
		wcv = append(wcv, map[string]any{"vi": c.VI, "view": c.View, "inv": c.Inv})
	}
	for _, c := range w.Preps {
		wpr = append(wpr, map[string]any{"vi": c.VI, "inv": c.Inv})
	}
	for _, c := range w.Commits {
		wcm = append(wcm, map[string]any{"vi": c.VI, "view": c.View, "sig": c.Sig, "inv": c.Inv})
	}
	rev["wire"] = map[string]any{"cvs": wcv, "hasreq": w.HasReq, "reqvi": w.ReqVI, "reqview": w.ReqView, "phash": w.PHash, "preps": wpr, "commits": wcm}
	rev["ext"] = rc.extract(p, m)
	rc.tr.Emit(rev)
	rc.res.Count([]any{"rec", m.Height, int(m.View), vi, len(w.CVs), w.HasReq, len(w.Preps), len(w.Commits)})
	if len(w.Commits) > 0 {
		rc.res.Inc("recovery_with_commits", 1)
	}
	if m.View > 0 {
		rc.res.Inc("recovery_in_later_view", 1)
	}
}

// extract runs the node's real decoder of compact payloads on a decoded copy of the message, the way the service's
// event loop and dbft.onRecoveryMessage do for a receiver that is in the message's view at the message's height.
func (rc *recorder) extract(p *consensus.Payload, m *Msg) (out map[string]any) {
	out = map[string]any{"ok": true, "err": "", "cvs": []any{}, "hasreq": false, "req": map[string]any{}, "resps": []any{}, "commits": []any{}}
	defer func() {
		if r := recover(); r != nil {
			out["ok"] = false
			out["err"] = fmt.Sprint(r)
		}
	}()
	rec := p.GetRecoveryMessage()
	prim := primaryOf(m.Height, int(m.View), rc.c.N)
	one := func(x dbft.ConsensusPayload[util.Uint256]) map[string]any {
		q := x.(*consensus.Payload)
		r := map[string]any{"vi": int(q.ValidatorIndex()), "view": int(q.ViewNumber()), "h": q.Height(), "inv": dig(q.Witness.InvocationScript),
			"content": "", "newview": 0, "type": typeName(q.Type())}
		switch q.Type() {
		case dbft.CommitType:
			r["content"] = short(q.GetCommit().Signature())
		case dbft.PrepareRequestType:
			r["content"] = q.Hash().StringLE()[:16]
		case dbft.PrepareResponseType:
			r["content"] = q.GetPrepareResponse().PreparationHash().StringLE()[:16]
		case dbft.ChangeViewType:
			r["newview"] = int(q.GetChangeView().NewViewNumber())
		}
		return r
	}
	var l []any
	for _, x := range rec.GetChangeViews(p, rc.vals) {
		l = append(l, one(x))
	}
	if l != nil {
		out["cvs"] = l
	}
	req := rec.GetPrepareRequest(p, rc.vals, uint16(prim))
	added := false
	if req != nil {
		out["hasreq"] = true
		out["req"] = one(req)
		if rec.PreparationHash() == nil {
			// the event loop restores the preparation hash from the rebuilt request before dBFT sees the message;
			// AddPayload does the same assignment (and appends one more compact for the primary: dropped below)
			rec.AddPayload(req)
			added = true
		}
	}
	resps := rec.GetPrepareResponses(p, rc.vals)
	if added && len(resps) > 0 {
		resps = resps[:len(resps)-1]
	}
	l = nil
	for _, x := range resps {
		if int(x.ValidatorIndex()) == prim {
			continue // dBFT ignores a PrepareResponse attributed to the primary
		}
		l = append(l, one(x))
	}
	if l != nil {
		out["resps"] = l
	}
	l = nil
	for _, x := range rec.GetCommits(p, rc.vals) {
		l = append(l, one(x))
	}
	if l != nil {
		out["commits"] = l
	}
	return out
}
