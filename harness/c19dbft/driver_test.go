package c19dbft

import (
	"fmt"
	"math/rand"
	"os"
	"testing"

	"verifharness/internal/chainkit"
	"verifharness/internal/vh"

	"github.com/nspcc-dev/neo-go/pkg/core/native/nativenames"
	"github.com/nspcc-dev/neo-go/pkg/core/transaction"
	"github.com/nspcc-dev/neo-go/pkg/neotest"
	"github.com/nspcc-dev/neo-go/pkg/util"
)

type mstep struct {
	Op   string `json:"op"`
	V    int    `json:"v"`
	Type string `json:"type"`
	From int    `json:"from"`
	View int    `json:"view"`
	To   int    `json:"to"`
	Set  []int  `json:"set"`
}

type run struct {
	t      *testing.T
	c      *Cluster
	tr     *vh.Trace
	res    *vh.Result
	r      *rand.Rand
	silent map[int]bool
	lastH  []uint32
	given  map[int]map[int]bool // msg id -> node -> delivered
	txs    []*transaction.Transaction
	ntx    int
	id     int
	fatal  error
}

func (x *run) emit(ev map[string]any) { x.tr.Emit(ev) }

// observe logs newly accepted blocks of every node.
func (x *run) observe() {
	for i, n := range x.c.Nodes {
		for h := x.lastH[i] + 1; h <= n.BC.BlockHeight(); h++ {
			hash := n.BC.GetHeaderHash(h)
			b, err := n.BC.GetBlock(hash)
			ntx, prim := 0, -1
			var txh []string
			if err == nil {
				ntx, prim = len(b.Transactions), int(b.PrimaryIndex)
				for _, tx := range b.Transactions {
					txh = append(txh, tx.Hash().StringLE())
				}
			}
			x.emit(map[string]any{"event": "accept", "node": i, "h": h, "hash": hash.StringLE(), "ntx": ntx, "primary": prim, "txs": txh})
			x.lastH[i] = h
		}
	}
}

func (x *run) deliver(id, to int) {
	if x.silent[to] || x.fatal != nil {
		return
	}
	m := x.c.Msg(id)
	if m.From == to {
		return
	}
	resStr, err := x.c.Deliver(id, to)
	if err != nil {
		x.fatal = err
		return
	}
	if x.given[id] == nil {
		x.given[id] = map[int]bool{}
	}
	x.given[id][to] = true
	x.emit(map[string]any{"event": "deliver", "id": id, "to": to, "type": m.Type, "from": m.From, "h": m.Height, "view": int(m.View), "result": resStr})
	x.observe()
	x.res.Count([]any{x.id, "d", id, to})
}

func (x *run) timeout(v int) {
	if x.silent[v] || x.fatal != nil {
		return
	}
	fired, err := x.c.Timeout(v)
	if err != nil {
		x.fatal = err
		return
	}
	x.emit(map[string]any{"event": "timeout", "node": v, "fired": fired})
	x.observe()
	x.res.Count([]any{x.id, "t", v, x.c.NMsgs()})
}

// find maps a model payload (type, from, view) of the height under agreement to the latest real one.
func (x *run) find(typ string, from, view int, h uint32) int {
	for id := x.c.NMsgs() - 1; id >= 0; id-- {
		m := x.c.Msg(id)
		if m.Type == typ && m.From == from && int(m.View) == view && m.Height == h {
			return id
		}
	}
	return -1
}

func (x *run) minmax() (uint32, uint32) {
	hs := x.c.Heights()
	mn, mx := hs[0], hs[0]
	for _, h := range hs {
		mn, mx = min(mn, h), max(mx, h)
	}
	return mn, mx
}

// newTx builds a valid GAS transfer from the validators' multisig account (valid on every node at the same height).
func (x *run) newTx() *transaction.Transaction {
	return x.newTxVUB(x.c.Nodes[0].BC.BlockHeight() + 50)
}

func (x *run) newTxVUB(vub uint32) *transaction.Transaction {
	n0 := x.c.Nodes[0]
	e := x.c.Net.Executor(x.t, n0.BC)
	x.ntx++
	to := util.Uint160{byte(x.ntx), 7}
	tx := e.NewUnsignedTx(x.t, e.NativeHash(x.t, nativenames.Gas), "transfer", e.Validator.ScriptHash(), to, int64(1000+x.ntx), nil)
	tx.ValidUntilBlock = vub
	tx.Nonce = uint32(x.ntx*1000 + x.id)
	return e.SignTx(x.t, tx, 1_0000000, []neotest.Signer{e.Validator}...)
}

func (x *run) adversarial(sched []mstep, extra int) {
	_, mx := x.minmax()
	H := mx + 1
	drift := 0
	// the model agrees on height 1 (primary of view w = (1-w) mod N); at real height H the primary is (H-w) mod N:
	// relabel validators so that model primaries are the real ones
	shift := int(H-1) % x.c.N
	mp := func(v int) int { return x.c.NodeOfValidator((v + shift) % x.c.N) }
	for _, s := range sched {
		if x.fatal != nil {
			return
		}
		switch s.Op {
		case "timeout":
			x.timeout(mp(s.V))
		case "deliver":
			view := s.View
			if s.Type == "ChangeView" {
				view-- // a ChangeView payload carries the view it was sent in; the model names it by the view it asks for
			}
			id := x.find(s.Type, mp(s.From), view, H)
			if id < 0 {
				drift++
				continue
			}
			x.deliver(id, mp(s.To))
		case "silent":
			x.silent = map[int]bool{}
			var set []int
			for _, v := range s.Set {
				x.silent[mp(v)] = true
				set = append(set, mp(v))
			}
			x.emit(map[string]any{"event": "silent", "set": set})
		}
	}
	x.res.Inc("model_steps_unmatched", drift)
	// seeded random adversary on top: any pending payload (recovery traffic included) to anybody, repeats,
	// timers, transactions reaching only some validators, changing silent sets
	for k := 0; k < extra && x.fatal == nil; k++ {
		switch p := x.r.Intn(20); {
		case p < 12 && x.c.NMsgs() > 0:
			id := x.c.NMsgs() - 1 - x.r.Intn(min(x.c.NMsgs(), 12))
			x.deliver(id, x.r.Intn(x.c.N))
		case p < 15:
			x.timeout(x.r.Intn(x.c.N))
		case p < 17:
			tx := x.newTx()
			if x.r.Intn(2) == 0 {
				// short-lived transaction: expires at the next block or the one after it
				tx = x.newTxVUB(x.c.Nodes[0].BC.BlockHeight() + 1 + uint32(x.r.Intn(2)))
			}
			x.txs = append(x.txs, tx)
			var to []int
			for i := range x.c.Nodes {
				if x.r.Intn(2) == 0 && !x.silent[i] {
					if x.c.GiveTx(i, tx) == nil {
						to = append(to, i)
					}
				}
			}
			x.emit(map[string]any{"event": "txgiven", "tx": tx.Hash().StringLE(), "to": to})
			x.observe()
		case p < 18:
			x.c.ServeTxRequests()
			x.observe()
			x.relay(x.r.Intn(x.c.N))
		default:
			x.silent = map[int]bool{}
			var set []int
			for len(set) < x.c.F && x.r.Intn(2) == 0 {
				v := x.r.Intn(x.c.N)
				if !x.silent[v] {
					x.silent[v] = true
					set = append(set, v)
				}
			}
			x.emit(map[string]any{"event": "silent", "set": set})
		}
	}
}

// starved is an asynchronous period in which EVERY direct payload of one type is lost (they are delivered late, in the
// synchronous phase that follows) while everything else, the recovery traffic included, is delivered promptly and timers
// fire when nothing else can happen; optionally the primary of view 0 is silent for the first half, so that the height
// is decided in a later view.  What the lost payloads carried has to arrive through RecoveryMessages.
func (x *run) starved(typ string, primarySilent bool, rounds int) {
	_, mx := x.minmax()
	H := mx + 1
	x.silent = map[int]bool{}
	if primarySilent {
		p := x.c.NodeOfValidator(int(H) % x.c.N)
		x.silent[p] = true
		x.emit(map[string]any{"event": "silent", "set": []int{p}})
	}
	start := x.c.NMsgs()
	for round := 0; round < rounds && x.fatal == nil; round++ {
		if round == rounds/2 && len(x.silent) > 0 {
			x.silent = map[int]bool{}
			x.emit(map[string]any{"event": "silent", "set": []int{}})
		}
		moved := false
		for id := start; id < x.c.NMsgs(); id++ {
			m := x.c.Msg(id)
			if m.Type == typ {
				continue
			}
			for to := range x.c.Nodes {
				if !x.given[id][to] && m.From != to && !x.silent[to] {
					x.deliver(id, to)
					moved = true
				}
			}
		}
		x.c.ServeTxRequests()
		x.observe()
		if mn, _ := x.minmax(); mn >= H {
			break
		}
		if !moved {
			v, err := x.c.FireEarliest(x.silent)
			if err != nil {
				x.fatal = err
			}
			x.emit(map[string]any{"event": "timeout", "node": v, "fired": v >= 0, "earliest": true})
			x.observe()
		}
	}
	x.res.Inc("starved_phases", 1)
}

// runStarve: warm-up, then two (starved period, synchronous phase) pairs.
func runStarve(t *testing.T, res *vh.Result, tr *vh.Trace, id int, n int, typ string, primarySilent bool) error {
	dir, err := os.MkdirTemp(os.Getenv("VERIF_WORK"), "c19")
	if err != nil {
		return err
	}
	defer os.RemoveAll(dir)
	x := &run{t: t, tr: tr, res: res, r: vh.Rand(int64(id)), silent: map[int]bool{}, given: map[int]map[int]bool{}, id: id}
	c, err := NewCluster(n, dir, func(ev map[string]any) { tr.Emit(ev) })
	if err != nil {
		return err
	}
	x.c = c
	x.lastH = make([]uint32, n)
	defer c.Close()
	tr.Emit(map[string]any{"event": "init", "run": id, "n": n, "f": c.F, "m": n - c.F, "starved": typ, "primary_silent": primarySilent})
	c.Start()
	x.synchronous(1, 6*n, false)
	for phase := 0; phase < 2 && x.fatal == nil; phase++ {
		x.starved(typ, primarySilent, 12*n)
		if !x.synchronous(2, 6*n, true) {
			break
		}
	}
	x.feedAll()
	res.Traces++
	return x.fatal
}

// synchronous: everybody honest, everything delivered, timers fire when nothing else can happen.
func (x *run) synchronous(blocks int, bound int, messy bool) bool {
	x.silent = map[int]bool{}
	mn, mxStart := x.minmax()
	// the phase runs until every validator is `blocks` blocks past the highest block existing at its start: the
	// first of them may have been proposed before the phase began
	target := mxStart + uint32(blocks)
	// transactions every validator has pooled at the start of the phase
	pend := []string{}
	for k := 0; k < 2; k++ {
		tx := x.newTx()
		ok := true
		for i := range x.c.Nodes {
			if err := x.c.GiveTx(i, tx); err != nil {
				ok = false
			}
		}
		if ok {
			pend = append(pend, tx.Hash().StringLE())
		}
	}
	x.emit(map[string]any{"event": "syncstart", "minh": mn, "maxh": mxStart, "target": target, "bound": bound, "txs": pend, "messy": messy})
	idle := 0
	next := 0
	for round := 0; round < (int(target-mn)+2)*bound+8 && x.fatal == nil; round++ {
		before, _ := x.minmax()
		// deliver everything not yet delivered (old payloads too: late delivery)
		for next < x.c.NMsgs() {
			for to := range x.c.Nodes {
				if !x.given[next][to] {
					x.deliver(next, to)
				}
			}
			next++
		}
		x.c.ServeTxRequests()
		x.observe()
		x.relay(-1)
		after, _ := x.minmax()
		if after == before && next >= x.c.NMsgs() {
			v, err := x.c.FireEarliest(nil)
			if err != nil {
				x.fatal = err
			}
			x.emit(map[string]any{"event": "timeout", "node": v, "fired": v >= 0, "earliest": true})
			x.observe()
			// everything the firing caused is delivered within the same round
			for next < x.c.NMsgs() {
				for to := range x.c.Nodes {
					if !x.given[next][to] {
						x.deliver(next, to)
					}
				}
				next++
			}
			x.c.ServeTxRequests()
			x.observe()
			x.relay(-1)
		}
		cur, _ := x.minmax()
		incl := []string{}
		n0 := x.c.Nodes[0]
		for _, p := range pend {
			if h, err := util.Uint256DecodeStringLE(p); err == nil {
				if _, hh, err := n0.BC.GetTransaction(h); err == nil && hh <= n0.BC.BlockHeight() {
					incl = append(incl, p)
				}
			}
		}
		x.emit(map[string]any{"event": "syncround", "round": round, "minh": cur, "heights": x.c.Heights(), "included": incl})
		if cur >= target {
			break
		}
		if cur > before {
			idle = 0
		} else {
			idle++
		}
		if messy && cur <= mxStart && idle > bound {
			// the height left over from the asynchronous period does not complete although everybody is honest and
			// everything is delivered now: outside the statement's liveness clause (recorded, not judged)
			x.res.Inc("stalls_after_asynchrony", 1)
			x.emit(map[string]any{"event": "syncend", "minh": cur, "reached": false, "stalled": true})
			return false
		}
	}
	cur, _ := x.minmax()
	// transactions are judged only in phases long enough to get past a proposal that was already in flight
	x.emit(map[string]any{"event": "syncend", "minh": cur, "reached": cur >= target && blocks >= 3, "stalled": false})
	return true
}

// relay gives lagging nodes the blocks their peers have, through the node's block queue (what the P2P layer does
// with blocks received from peers). only < 0: all nodes.
func (x *run) relay(only int) {
	_, mx := x.minmax()
	for i, n := range x.c.Nodes {
		if (only >= 0 && i != only) || x.silent[i] {
			continue
		}
		for h := n.BC.BlockHeight() + 1; h <= mx; h++ {
			var src *Node
			for _, o := range x.c.Nodes {
				if o.BC.BlockHeight() >= h {
					src = o
					break
				}
			}
			if src == nil {
				break
			}
			b, err := src.BC.GetBlock(src.BC.GetHeaderHash(h))
			if err != nil {
				break
			}
			raw, _ := chainkit.EncodeBlock(b)
			nb, err := chainkit.DecodeBlock(raw, false)
			if err != nil {
				break
			}
			_ = n.Q.Put(nb)
			x.emit(map[string]any{"event": "relay", "node": i, "h": h, "hash": b.Hash().StringLE()})
		}
	}
	x.c.Settle()
	x.observe()
}

// feedAll gives every committed block to every ledger that lacks it, through the wire encoding.
func (x *run) feedAll() {
	_, mx := x.minmax()
	for h := uint32(1); h <= mx; h++ {
		var src *Node
		for _, n := range x.c.Nodes {
			if n.BC.BlockHeight() >= h {
				src = n
				break
			}
		}
		if src == nil {
			continue
		}
		b, err := src.BC.GetBlock(src.BC.GetHeaderHash(h))
		if err != nil {
			continue
		}
		raw, err := chainkit.EncodeBlock(b)
		if err != nil {
			continue
		}
		for i, n := range x.c.Nodes {
			if n.BC.BlockHeight()+1 != h {
				continue
			}
			nb, err := chainkit.DecodeBlock(raw, false)
			ok := err == nil
			es := ""
			if ok {
				if err := n.BC.AddBlock(nb); err != nil {
					ok, es = false, err.Error()
				}
			}
			x.emit(map[string]any{"event": "feed", "node": i, "h": h, "hash": b.Hash().StringLE(), "ok": ok, "err": es})
			x.lastH[i] = n.BC.BlockHeight()
		}
	}
}

func runOne(t *testing.T, res *vh.Result, tr *vh.Trace, id int, n int, sched []mstep, extra int, r *rand.Rand) error {
	dir, err := os.MkdirTemp(os.Getenv("VERIF_WORK"), "c19")
	if err != nil {
		return err
	}
	defer os.RemoveAll(dir)
	x := &run{t: t, tr: tr, res: res, r: r, silent: map[int]bool{}, given: map[int]map[int]bool{}, id: id}
	c, err := NewCluster(n, dir, func(ev map[string]any) { tr.Emit(ev) })
	if err != nil {
		return err
	}
	x.c = c
	x.lastH = make([]uint32, n)
	defer c.Close()
	tr.Emit(map[string]any{"event": "init", "run": id, "n": n, "f": c.F, "m": n - c.F})
	c.Start()
	// warm-up: one block with everything delivered, so that every validator has seen every other one (dbft treats
	// validators it has not heard from as failed and then asks for recovery instead of changing view)
	x.synchronous(1, 6*x.c.N, false)
	for phase := 0; phase < 2 && x.fatal == nil; phase++ {
		x.adversarial(sched, extra)
		if !x.synchronous(3, 6*x.c.N, true) {
			break
		}
		sched = nil // second adversarial phase is purely random, at a later height and view
	}
	x.feedAll()
	if x.fatal != nil {
		return x.fatal
	}
	res.Traces++
	if id < 2 {
		res.Sample(map[string]any{"run": id, "n": n, "model_schedule_prefix": sched, "final_heights": c.Heights(), "payloads": c.NMsgs()})
	}
	res.Inc("payloads", c.NMsgs())
	_, mx := x.minmax()
	res.Inc("blocks", int(mx))
	return nil
}

// flood delivers every payload from `start` on that has not been delivered yet to every non-silent node, until nothing
// new appears (transaction requests are NOT served).
func (x *run) flood(start int, rounds int) {
	for r := 0; r < rounds && x.fatal == nil; r++ {
		moved := false
		for id := start; id < x.c.NMsgs(); id++ {
			m := x.c.Msg(id)
			for to := range x.c.Nodes {
				if !x.given[id][to] && m.From != to && !x.silent[to] {
					x.deliver(id, to)
					moved = true
				}
			}
		}
		if !moved {
			return
		}
	}
}

// latePrep: one validator L hears nothing while the others agree on the height; then it receives ALL their Commits
// first and the preparation afterwards, so that when it assembles the block it holds more than M commits.
func (x *run) latePrep() {
	_, mx := x.minmax()
	H := mx + 1
	N := x.c.N
	p0 := x.c.NodeOfValidator(int(H) % N)
	L := (p0 + 1 + x.r.Intn(N-1)) % N
	tx := x.newTx()
	for i := range x.c.Nodes {
		_ = x.c.GiveTx(i, tx)
	}
	x.silent = map[int]bool{L: true}
	x.emit(map[string]any{"event": "silent", "set": []int{L}, "scene": "lateprep"})
	start := x.c.NMsgs()
	x.timeout(p0)
	x.flood(start, 8)
	x.silent = map[int]bool{}
	x.emit(map[string]any{"event": "silent", "set": []int{}})
	for _, typ := range []string{"Commit", "PrepareRequest", "PrepareResponse"} {
		for id := start; id < x.c.NMsgs(); id++ {
			if m := x.c.Msg(id); m.Type == typ && m.Height == H {
				x.deliver(id, L)
			}
		}
	}
	x.res.Inc("lateprep_scenes", 1)
	if x.c.Nodes[L].BC.BlockHeight() >= H {
		x.res.Inc("lateprep_assembled", 1)
	}
}

// partialPool: the primary of view 0 proposes `k` transactions of which the primary of view 1 has pooled only `have`
// (requests for the missing ones are not served); the view changes and the new primary proposes from what is left of
// the failed proposal and its pool.
func (x *run) partialPool(k, have int) {
	_, mx := x.minmax()
	H := mx + 1
	N := x.c.N
	p0 := x.c.NodeOfValidator(int(H) % N)
	p1 := x.c.NodeOfValidator((int(H) - 1 + N) % N)
	var hs []string
	for i := 0; i < k; i++ {
		tx := x.newTx()
		x.txs = append(x.txs, tx)
		to := []int{}
		for j := range x.c.Nodes {
			if j == p0 || i < have || (j != p1 && x.r.Intn(3) == 0) {
				if x.c.GiveTx(j, tx) == nil {
					to = append(to, j)
				}
			}
		}
		hs = append(hs, tx.Hash().StringLE())
		x.emit(map[string]any{"event": "txgiven", "tx": tx.Hash().StringLE(), "to": to})
	}
	if x.r.Intn(2) == 0 {
		// something the new primary has pooled and the old one has not
		tx := x.newTx()
		x.txs = append(x.txs, tx)
		_ = x.c.GiveTx(p1, tx)
		x.emit(map[string]any{"event": "txgiven", "tx": tx.Hash().StringLE(), "to": []int{p1}})
	}
	x.silent = map[int]bool{}
	start := x.c.NMsgs()
	x.emit(map[string]any{"event": "scene", "scene": "partialpool", "k": k, "have": have, "p0": p0, "p1": p1})
	x.timeout(p0)
	x.flood(start, 4)
	for round := 0; round < 6 && x.fatal == nil && x.find("PrepareRequest", p1, 1, H) < 0; round++ {
		for i := range x.c.Nodes {
			if mn, _ := x.minmax(); mn >= H {
				break
			}
			x.timeout((p1 + 1 + i) % N) // the new primary's timer last
			x.flood(start, 4)
		}
	}
	if id := x.find("PrepareRequest", p1, 1, H); id >= 0 {
		x.res.Inc("partialpool_reproposals", 1)
	}
	x.flood(start, 4)
}

// fullProposal: more valid transactions are pending everywhere than a block can carry, so every proposal is cut to
// exactly the block capacity.
func (x *run) fullProposal(k int) {
	for i := 0; i < k; i++ {
		tx := x.newTx()
		x.txs = append(x.txs, tx)
		to := []int{}
		for j := range x.c.Nodes {
			if x.c.GiveTx(j, tx) == nil {
				to = append(to, j)
			}
		}
		x.emit(map[string]any{"event": "txgiven", "tx": tx.Hash().StringLE(), "to": to})
	}
	x.res.Inc("fullproposal_scenes", 1)
}

// splitPools: pairs of valid transactions that conflict with each other (Conflicts attribute, common signer); one half
// of the validators has pooled one side, the other half the other side, nobody both.
func (x *run) splitPools(pairs int) {
	n0 := x.c.Nodes[0]
	e := x.c.Net.Executor(x.t, n0.BC)
	for p := 0; p < pairs; p++ {
		a := x.newTx()
		x.ntx++
		b := e.NewUnsignedTx(x.t, e.NativeHash(x.t, nativenames.Gas), "transfer", e.Validator.ScriptHash(), util.Uint160{byte(x.ntx), 9}, int64(2000+x.ntx), nil)
		b.ValidUntilBlock = a.ValidUntilBlock
		b.Nonce = uint32(x.ntx*1000 + x.id)
		b.Attributes = []transaction.Attribute{{Type: transaction.ConflictsT, Value: &transaction.Conflicts{Hash: a.Hash()}}}
		b = e.SignTx(x.t, b, 1_0000000, []neotest.Signer{e.Validator}...)
		var toA, toB []int
		for j := range x.c.Nodes {
			if j < x.c.N/2 {
				if x.c.GiveTx(j, a) == nil {
					toA = append(toA, j)
				}
			} else if x.c.GiveTx(j, b) == nil {
				toB = append(toB, j)
			}
		}
		x.emit(map[string]any{"event": "txgiven", "tx": a.Hash().StringLE(), "to": toA, "conflicts_with": b.Hash().StringLE()})
		x.emit(map[string]any{"event": "txgiven", "tx": b.Hash().StringLE(), "to": toB, "conflicts_with": a.Hash().StringLE()})
	}
	x.res.Inc("splitpools_scenes", 1)
}

func runScene(t *testing.T, res *vh.Result, tr *vh.Trace, id int, n int, scene string, a, b int) error {
	dir, err := os.MkdirTemp(os.Getenv("VERIF_WORK"), "c19")
	if err != nil {
		return err
	}
	defer os.RemoveAll(dir)
	x := &run{t: t, tr: tr, res: res, r: vh.Rand(int64(id)), silent: map[int]bool{}, given: map[int]map[int]bool{}, id: id}
	if scene == "fullproposal" {
		MaxTxPerBlock = 3
	}
	c, err := NewCluster(n, dir, func(ev map[string]any) { tr.Emit(ev) })
	MaxTxPerBlock = 16
	if err != nil {
		return err
	}
	x.c = c
	x.lastH = make([]uint32, n)
	defer c.Close()
	tr.Emit(map[string]any{"event": "init", "run": id, "n": n, "f": c.F, "m": n - c.F, "scene": scene})
	c.Start()
	x.synchronous(1, 6*n, false)
	for rep := 0; rep < 2 && x.fatal == nil; rep++ {
		switch scene {
		case "lateprep":
			x.latePrep()
		case "partialpool":
			x.partialPool(a, b)
		case "fullproposal":
			x.fullProposal(a)
		case "splitpools":
			x.splitPools(a)
		}
		// (split pools: the unchanged tree itself needs up to 10 rounds per height there - view changes until a proposal
		// suits every private pool -, so no tighter bound than the general one is sound)
		bound := 6 * n
		if !x.synchronous(3, bound, true) {
			break
		}
	}
	x.feedAll()
	res.Traces++
	return x.fatal
}

// runSync is a run in which the statement's liveness condition holds throughout: everybody honest, everything delivered.
func runSync(t *testing.T, res *vh.Result, tr *vh.Trace, id int, n int) error {
	dir, err := os.MkdirTemp(os.Getenv("VERIF_WORK"), "c19")
	if err != nil {
		return err
	}
	defer os.RemoveAll(dir)
	x := &run{t: t, tr: tr, res: res, r: vh.Rand(int64(id)), silent: map[int]bool{}, given: map[int]map[int]bool{}, id: id}
	c, err := NewCluster(n, dir, func(ev map[string]any) { tr.Emit(ev) })
	if err != nil {
		return err
	}
	x.c = c
	x.lastH = make([]uint32, n)
	defer c.Close()
	tr.Emit(map[string]any{"event": "init", "run": id, "n": n, "f": c.F, "m": n - c.F})
	c.Start()
	x.synchronous(1, 6*n, false)
	x.synchronous(2*n, 6*n, false) // two full primary rotations
	x.feedAll()
	res.Traces++
	return x.fatal
}

func TestDriver(t *testing.T) {
	res := vh.NewResult()
	tr := vh.NewTrace("trace.ndjson")
	var scheds [][]mstep
	_ = vh.ReadJSON("schedules.json", &scheds)
	r := vh.Rand(19)
	extra := vh.EnvInt("VERIF_EXTRA", 40)
	for i, s := range scheds {
		if err := runOne(t, res, tr, i, 4, s, extra, r); err != nil {
			tr.Close()
			t.Fatalf("run %d: %v", i, err)
		}
	}
	for i := 0; i < vh.EnvInt("VERIF_SYNCRUNS", 2); i++ {
		n := 4
		if i%2 == 1 {
			n = 7
		}
		if err := runSync(t, res, tr, 2000+i, n); err != nil {
			tr.Close()
			t.Fatalf("sync run %d: %v", i, err)
		}
	}
	// one payload type lost at a time, with and without a silent first primary
	k := 0
	for _, n := range []int{4, 7} {
		if n == 7 && os.Getenv("VERIF_TIER") != "thorough" {
			continue
		}
		for _, typ := range []string{"Commit", "PrepareResponse", "PrepareRequest", "ChangeView"} {
			for _, ps := range []bool{true, false} {
				if err := runStarve(t, res, tr, 3000+k, n, typ, ps); err != nil {
					tr.Close()
					t.Fatalf("starved run %d (%s, %v): %v", k, typ, ps, err)
				}
				k++
			}
		}
	}
	// scripted scenes: more than M commits at assembly time; re-proposal from a partly pooled failed proposal
	k = 0
	for _, n := range []int{4, 7} {
		if n == 7 && os.Getenv("VERIF_TIER") != "thorough" {
			continue
		}
		type sc struct {
			s    string
			a, b int
		}
		for _, s := range []sc{{"lateprep", 0, 0}, {"partialpool", 4, 1}, {"partialpool", 6, 2}, {"partialpool", 5, 3}, {"partialpool", 4, 0}, {"fullproposal", 4, 0}, {"splitpools", 2, 0}, {"splitpools", 1, 0}} {
			if err := runScene(t, res, tr, 4000+k, n, s.s, s.a, s.b); err != nil {
				tr.Close()
				t.Fatalf("scene run %d (%s): %v", k, s.s, err)
			}
			k++
		}
	}
	n7 := vh.EnvInt("VERIF_N7", 1)
	for i := 0; i < n7; i++ {
		if err := runOne(t, res, tr, 1000+i, 7, nil, extra, r); err != nil {
			tr.Close()
			t.Fatalf("run7 %d: %v", i, err)
		}
	}
	tr.Close()
	t.Log(fmt.Sprint(res.Stats))
	if err := res.Write(); err != nil {
		t.Fatal(err)
	}
}
