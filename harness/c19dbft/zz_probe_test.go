package c19dbft

import (
	"fmt"
	"testing"

	"verifharness/internal/vh"
)

func (x *recRun) find2(typ string, vi, view int, h uint32) int {
	for id := x.c.NMsgs() - 1; id >= 0; id-- {
		inf := x.rc.info[id]
		if inf != nil && inf.Type == typ && inf.VI == vi && inf.View == view && inf.H == h {
			return id
		}
	}
	return -1
}

func TestProbeRelabel(t *testing.T) {
	res := vh.NewResult()
	tr := vh.NewTrace("probe.ndjson")
	defer tr.Close()
	x, done, err := newRecRun(t, res, tr, 1, 7, "probe", nil)
	if err != nil {
		t.Fatal(err)
	}
	defer done()
	x.c.Start()
	x.synchronous(1, 42, false)
	_, mx := x.minmax()
	H := mx + 1
	n := 7
	p0 := primaryOf(H, 0, n)
	p1 := primaryOf(H, 1, n)
	t.Log("H", H, "p0", p0, "p1", p1, "nodeOf", x.rc.nodeOf)
	nd := func(vi int) int { return x.rc.nodeOf[vi] }
	X := p0
	// others in index order excluding X and p1
	var rest []int
	for v := 0; v < n; v++ {
		if v != X && v != p1 {
			rest = append(rest, v)
		}
	}
	Z := rest[0]
	B := rest[1:] // four backups
	Y := B[0]
	others := append([]int{p1}, rest...) // the six that change view
	give := func(typ string, from, view int, to ...int) {
		id := x.find2(typ, from, view, H)
		if id < 0 {
			t.Fatalf("no %s from %d view %d", typ, from, view)
		}
		for _, v := range to {
			x.deliver(id, nd(v))
		}
	}
	// 1. view 0
	x.timeout(nd(X))
	give("PrepareRequest", X, 0, B...)
	for _, b := range B {
		give("PrepareResponse", b, 0, X)
	}
	if x.find2("Commit", X, 0, H) < 0 {
		t.Fatal("X did not commit")
	}
	give("Commit", X, 0, Y)
	// 2. everybody else moves to view 1
	for round := 0; round < 4; round++ {
		for _, v := range others {
			if x.find2("ChangeView", v, 0, H) >= 0 {
				continue
			}
			before := x.c.NMsgs()
			x.timeout(nd(v))
			for id := before; id < x.c.NMsgs(); id++ {
				inf := x.rc.info[id]
				if inf != nil && (inf.Type == "RecoveryRequest" || inf.Type == "ChangeView") && inf.VI == v {
					for _, w := range others {
						if w != v {
							x.deliver(id, nd(w))
						}
					}
				}
			}
		}
	}
	// 3. view 1
	x.timeout(nd(p1))
	if x.find2("PrepareRequest", p1, 1, H) < 0 {
		t.Fatal("no PrepareRequest in view 1")
	}
	give("PrepareRequest", p1, 1, B...)
	for _, b := range B {
		give("PrepareResponse", b, 1, append([]int{p1, Z}, B...)...)
	}
	for _, v := range append([]int{p1}, B...) {
		if x.find2("Commit", v, 1, H) < 0 {
			t.Fatalf("%d did not commit in view 1", v)
		}
	}
	// Z asks to change view
	x.timeout(nd(Z))
	t.Log("Z sent", x.rc.info[x.c.NMsgs()-1])
	// Y resends its commit through a recovery message
	x.timeout(nd(Y))
	rid := x.find2("RecoveryMessage", Y, 1, H)
	if rid < 0 {
		t.Fatal("no recovery message from Y")
	}
	t.Logf("recovery: %+v", x.rc.info[rid].Wire)
	x.deliver(rid, nd(Z))
	give("PrepareRequest", p1, 1, Z)
	t.Log("Z committed:", x.find2("Commit", Z, 1, H) >= 0)
	give("Commit", B[1], 1, Z)
	give("Commit", B[2], 1, Z)
	x.observe()
	t.Log("heights", x.c.Heights())
	tr.Close()
	fmt.Println("done")
}
