package c19dbft

// Extension c19_recovery: scripted scenarios (all on real services; indexes named vi are dBFT validator indexes).
//
//	recWindow   a validator R hears nothing of height H while the others prepare and commit (view 0, or view 1 after
//	            a view change without R); then a synchronous window: R's timer fires until it asks for recovery, every
//	            payload sent from then on is delivered to everybody.  Events recwin_open / recwin_close bracket the
//	            window; DBFTRecTrace judges RecoveryAdequate from the RecoveryMessages delivered to R and from what R
//	            did afterwards.
//	cacheScen   a validator X is held back at height H while the others finish H and H+1; X gets the payloads of H+1
//	            first (must change nothing: cache_probe events), then block H through relay (must then count the cached
//	            payloads exactly like payloads delivered on time: cache_replayed event); the twin run delivers the same
//	            payloads after the block.  Late payloads of a finished height are probed too.
//	relabel7    the schedule that made a validator assemble a block with a foreign signature before 21f472b.
//	chainModel  replay of a DBFTChain.tla schedule (several heights, relays, late and early payloads).

import (
	"fmt"
	"testing"
	"time"

	"verifharness/internal/chainkit"
	"verifharness/internal/vh"

	"github.com/nspcc-dev/neo-go/pkg/io"
	npayload "github.com/nspcc-dev/neo-go/pkg/network/payload"
)

func (x *recRun) nd(vi int) int { return x.rc.nodeOf[vi] }

// hdeliver is run.deliver with an event-based wait: a payload the extensible pool let through and the service queued IS
// processed in one loop iteration, however long that takes on a loaded machine (cluster.Deliver gives up after 300 ms and
// reports "dropped", which is fine for exploring schedules but not for an observation a verdict rests on).  All payloads
// handed over here come from the real validators, so the service never refuses them before the loop.
func (x *recRun) hdeliver(id, to int) string {
	if x.silent[to] || x.fatal != nil {
		return "skipped"
	}
	m := x.c.Msg(id)
	if m.From == to {
		return "skipped"
	}
	n := x.c.Nodes[to]
	e := npayload.NewExtensible()
	r := io.NewBinReaderFromBuf(m.Raw)
	e.DecodeBinary(r)
	result := "delivered"
	if r.Err != nil {
		result = "undecodable"
	} else if ok, err := n.Ext.Add(e); err != nil {
		result = "pool-rejected"
	} else if !ok {
		result = "duplicate"
	} else {
		before := x.c.itersOf(to)
		if err := n.Svc.OnPayload(e); err != nil {
			result = "service-error"
		} else {
			// 5 s of wall-clock only separate "being processed" from "the service took it and never looked at it"; a payload
			// reported unprocessed is left out of every premise a verdict rests on (see cacheScen / DBFTRecTrace)
			for dl := time.Now().Add(5 * time.Second); x.c.itersOf(to) <= before; {
				if time.Now().After(dl) {
					result = "unprocessed"
					x.res.Inc("unprocessed_deliveries", 1)
					break
				}
				time.Sleep(100 * time.Microsecond)
			}
		}
		x.c.Settle()
	}
	if x.given[id] == nil {
		x.given[id] = map[int]bool{}
	}
	x.given[id][to] = true
	x.emit(map[string]any{"event": "deliver", "id": id, "to": to, "type": m.Type, "from": m.From, "h": m.Height, "view": int(m.View), "result": result})
	x.observe()
	x.res.Count([]any{x.id, "d", id, to})
	return result
}

func (x *recRun) nextHeight() uint32 {
	_, mx := x.minmax()
	return mx + 1
}

// find2 returns the latest payload of that type / author (validator index) / view / height, or -1.
func (x *recRun) find2(typ string, vi, view int, h uint32) int {
	for id := x.c.NMsgs() - 1; id >= 0; id-- {
		inf := x.rc.inf(id)
		if inf != nil && inf.Type == typ && inf.VI == vi && inf.View == view && inf.H == h {
			return id
		}
	}
	return -1
}

func (x *recRun) countSent(node int, typ string, h uint32, from int) int {
	k := 0
	for id := from; id < x.c.NMsgs(); id++ {
		m := x.c.Msg(id)
		if m.From == node && (typ == "" || m.Type == typ) && (h == 0 || m.Height == h) {
			k++
		}
	}
	return k
}

// among delivers every payload with id >= start sent by a member of grp to the other members that lack it, except the
// types in skip.
func (x *recRun) among(grp []int, start int, skip map[string]bool) bool {
	in := map[int]bool{}
	for _, g := range grp {
		in[g] = true
	}
	moved := false
	for id := start; id < x.c.NMsgs() && x.fatal == nil; id++ {
		m := x.c.Msg(id)
		if !in[m.From] || skip[m.Type] {
			continue
		}
		for _, to := range grp {
			if to != m.From && !x.given[id][to] {
				x.hdeliver(id, to)
				moved = true
			}
		}
	}
	return moved
}

// runGroup lets the nodes in grp talk to each other (timers fire when nothing else can happen) until done() or the
// round limit.  Nodes outside grp get nothing and their timers do not fire.
func (x *recRun) runGroup(grp []int, start int, skip map[string]bool, done func() bool, rounds int) bool {
	excl := map[int]bool{}
	for i := range x.c.Nodes {
		excl[i] = true
	}
	for _, g := range grp {
		excl[g] = false
	}
	for r := 0; r < rounds && x.fatal == nil; r++ {
		moved := x.among(grp, start, skip)
		x.c.ServeTxRequests()
		x.observe()
		if done() {
			return true
		}
		if !moved {
			v, err := x.c.FireEarliest(excl)
			if err != nil {
				x.fatal = err
			}
			x.emit(map[string]any{"event": "timeout", "node": v, "fired": v >= 0, "earliest": true})
			x.observe()
			if v < 0 {
				return done()
			}
		}
	}
	return done()
}

// pump delivers every payload with id >= start to everybody until nothing new appears.
func (x *recRun) pump(start int) {
	all := make([]int, x.c.N)
	for i := range all {
		all[i] = i
	}
	for r := 0; r < 40 && x.fatal == nil; r++ {
		moved := x.among(all, start, nil)
		if x.c.ServeTxRequests() > 0 {
			moved = true
		}
		x.observe()
		if !moved {
			return
		}
	}
}

// ---------------------------------------------------------------- RecoveryAdequate

func recWindow(t *testing.T, res *vh.Result, tr *vh.Trace, id, n int, variant string, pick int, withTx bool) error {
	x, done, err := newRecRun(t, res, tr, id, n, "recwin", map[string]any{"variant": variant})
	if err != nil {
		return err
	}
	defer done()
	x.c.Start()
	x.synchronous(1, 6*n, false)
	H := x.nextHeight()
	p0, p1 := primaryOf(H, 0, n), primaryOf(H, 1, n)
	W := 0
	R := -1
	out := map[int]bool{} // validator indexes outside the group
	switch variant {
	case "v0", "v0req", "v0prep":
		for k := 0; k < n; k++ {
			if v := (pick + k) % n; v != p0 {
				R = v
				break
			}
		}
		out[R] = true
	case "v1":
		W = 1
		if n == 4 {
			R = p0 // three validators are needed for the view change: the one left out is the first primary
			out[R] = true
		} else {
			for k := 0; k < n; k++ {
				if v := (pick + k) % n; v != p0 && v != p1 {
					R = v
					break
				}
			}
			out[R], out[p0] = true, true
		}
	default:
		return fmt.Errorf("unknown variant %s", variant)
	}
	var grp []int
	for v := 0; v < n; v++ {
		if !out[v] {
			grp = append(grp, x.nd(v))
		}
	}
	if withTx {
		tx := x.newTx()
		for _, g := range grp {
			_ = x.c.GiveTx(g, tx)
		}
		_ = x.c.GiveTx(x.nd(R), tx)
		x.emit(map[string]any{"event": "txgiven", "tx": tx.Hash().StringLE(), "to": append([]int{x.nd(R)}, grp...)})
	}
	start := x.c.NMsgs()
	committed := func() bool {
		k := 0
		for v := 0; v < n; v++ {
			if !out[v] && x.find2("Commit", v, W, H) >= 0 {
				k++
			}
		}
		return k == len(grp)
	}
	prepared := func() bool {
		k := 0
		for v := 0; v < n; v++ {
			if !out[v] && (x.find2("PrepareResponse", v, W, H) >= 0 || x.find2("PrepareRequest", v, W, H) >= 0) {
				k++
			}
		}
		return k == len(grp)
	}
	var ok bool
	if variant == "v0prep" {
		// the others only get as far as their own preparation: every PrepareResponse is lost, nobody commits
		ok = x.runGroup(grp, start, map[string]bool{"PrepareResponse": true, "Commit": true}, prepared, 30*n)
	} else {
		// the others prepare and commit among themselves; their Commits are lost, so the height stays open
		ok = x.runGroup(grp, start, map[string]bool{"Commit": true}, committed, 30*n)
	}
	if x.fatal != nil {
		return x.fatal
	}
	if !ok {
		// the setting did not come about (legal: e.g. the group went on to a later view): nothing to judge here
		res.Inc("recwin_setup_missed", 1)
		x.emit(map[string]any{"event": "note", "what": "recwin setup missed", "variant": variant})
	} else {
		Rn := x.nd(R)
		if variant == "v0req" || variant == "v0prep" {
			if rid := x.find2("PrepareRequest", p0, 0, H); rid >= 0 {
				x.hdeliver(rid, Rn)
			}
		}
		ws := x.c.NMsgs()
		x.emit(map[string]any{"event": "recwin_open", "node": Rn, "vi": R, "h": H, "variant": variant, "view": W, "from_id": ws})
		asked := false
		for k := 0; k < 4 && x.fatal == nil && x.c.Nodes[Rn].BC.BlockHeight() < H; k++ {
			x.timeout(Rn)
			x.pump(ws)
			if x.countSent(Rn, "RecoveryRequest", H, ws) > 0 {
				asked = true
				break
			}
		}
		probed := false
		if x.c.Nodes[Rn].BC.BlockHeight() < H && x.fatal == nil {
			// make R show the view it is in
			x.timeout(Rn)
			x.pump(ws)
			probed = true
		}
		x.emit(map[string]any{"event": "recwin_close", "node": Rn, "vi": R, "h": H, "asked": asked, "probed": probed,
			"lh": x.c.Nodes[Rn].BC.BlockHeight()})
		res.Inc("recwin", 1)
		if asked {
			res.Inc("recwin_asked", 1)
		}
		res.Count([]any{"recwin", n, variant, R, withTx})
	}
	x.synchronous(2, 6*n, true)
	x.feedAll()
	res.Traces++
	return x.fatal
}

// ---------------------------------------------------------------- CacheHarmless / NoSkip

func (x *recRun) relayOne(node int, h uint32) bool {
	for _, o := range x.c.Nodes {
		if o.BC.BlockHeight() >= h {
			b, err := o.BC.GetBlock(o.BC.GetHeaderHash(h))
			if err != nil {
				return false
			}
			raw, _ := chainkit.EncodeBlock(b)
			nb, err := chainkit.DecodeBlock(raw, false)
			if err != nil {
				return false
			}
			bc := x.c.Nodes[node].BC
			had := bc.BlockHeight() >= h
			before := x.c.itersOf(node)
			_ = x.c.Nodes[node].Q.Put(nb)
			x.emit(map[string]any{"event": "relay", "node": node, "h": h, "hash": b.Hash().StringLE()})
			if had || bc.BlockHeight()+1 < h {
				x.c.Settle() // nothing to add, or the queue keeps it until the gap is closed
				x.observe()
				return true
			}
			for dl := time.Now().Add(5 * time.Second); bc.BlockHeight() < h && time.Now().Before(dl); {
				time.Sleep(200 * time.Microsecond)
			}
			if bc.BlockHeight() < h {
				// a definitive answer instead of a longer wait: hand the block to the ledger directly
				nb2, _ := chainkit.DecodeBlock(raw, false)
				if err := bc.AddBlock(nb2); err != nil && bc.BlockHeight() < h {
					x.emit(map[string]any{"event": "feed", "node": node, "h": h, "hash": b.Hash().StringLE(), "ok": false, "err": err.Error()})
					x.observe()
					return false
				}
			}
			// event based: the ledger has the block, so the service gets ONE block event and completes one iteration of its
			// loop for it (handleChainBlock -> dbft.Reset -> replay of the cache happen inside that iteration)
			if err := x.c.waitIter(node, before); err != nil {
				x.fatal = err
				return false
			}
			x.c.Settle()
			x.observe()
			return true
		}
	}
	return false
}

// probeDeliver hands payload id to node and records what the node did in reaction.
func (x *recRun) probeDeliver(id, node int, phase string) string {
	m := x.c.Msg(id)
	sb, lb := x.countSent(node, "", 0, 0), x.c.Nodes[node].BC.BlockHeight()
	qb := x.rc.nQueued(node)
	result := x.hdeliver(id, node)
	x.emit(map[string]any{"event": "cache_probe", "phase": phase, "result": result, "node": node, "id": id, "type": m.Type, "h": m.Height,
		"lh_before": lb, "lh_after": x.c.Nodes[node].BC.BlockHeight(), "sends_before": sb, "sends_after": x.countSent(node, "", 0, 0),
		"queued_before": qb, "queued_after": x.rc.nQueued(node)})
	x.res.Count([]any{"cacheprobe", x.id, phase, id, node})
	return result
}

// cacheScen: order = "early" (payloads of H+1, then block H) or "ontime" (block H, then the payloads); subset selects
// which payloads of H+1 X is given: "all", "prep" (request and responses), "commits", "noreq" (responses and commits).
func cacheScen(t *testing.T, res *vh.Result, tr *vh.Trace, id, n int, order, subset string, pick int, withTx bool) error {
	x, done, err := newRecRun(t, res, tr, id, n, "cache", map[string]any{"order": order, "subset": subset})
	if err != nil {
		return err
	}
	defer done()
	x.c.Start()
	x.synchronous(1, 6*n, false)
	H := x.nextHeight()
	X := -1
	for k := 0; k < n; k++ {
		if v := (pick + k) % n; v != primaryOf(H, 0, n) && v != primaryOf(H+1, 0, n) {
			X = v
			break
		}
	}
	Xn := x.nd(X)
	var grp []int
	for v := 0; v < n; v++ {
		if v != X {
			grp = append(grp, x.nd(v))
		}
	}
	if withTx {
		tx := x.newTx()
		for i := range x.c.Nodes {
			_ = x.c.GiveTx(i, tx)
		}
	}
	start := x.c.NMsgs()
	ok := x.runGroup(grp, start, nil, func() bool {
		for _, g := range grp {
			if x.c.Nodes[g].BC.BlockHeight() < H+1 {
				return false
			}
		}
		return true
	}, 30*n)
	if x.fatal != nil {
		return x.fatal
	}
	if !ok || x.c.Nodes[Xn].BC.BlockHeight() != H-1 {
		res.Inc("cache_setup_missed", 1)
		x.emit(map[string]any{"event": "note", "what": "cache setup missed"})
	} else {
		// view in which H+1 was decided (the group may have needed a view change)
		var ids []int
		view1 := -1
		for idm := start; idm < x.c.NMsgs(); idm++ {
			inf := x.rc.inf(idm)
			if inf != nil && inf.H == H+1 && inf.Type == "Commit" && inf.View > view1 {
				view1 = inf.View
			}
		}
		for idm := start; idm < x.c.NMsgs(); idm++ {
			inf := x.rc.inf(idm)
			if inf == nil || inf.H != H+1 || inf.View != view1 {
				continue
			}
			switch inf.Type {
			case "PrepareRequest":
				if subset == "all" || subset == "prep" {
					ids = append(ids, idm)
				}
			case "PrepareResponse":
				if subset != "commits" {
					ids = append(ids, idm)
				}
			case "Commit":
				if subset == "all" || subset == "commits" || subset == "noreq" {
					ids = append(ids, idm)
				}
			}
		}
		// what X was really given: only hand-overs its service completed an iteration for
		gotReq, unprocessed := false, 0
		preps, cmts := []int{}, []int{}
		given := func(idm int, result string) {
			if result != "delivered" {
				unprocessed++
				return
			}
			switch inf := x.rc.inf(idm); inf.Type {
			case "PrepareRequest":
				gotReq = true
			case "PrepareResponse":
				preps = append(preps, inf.VI)
			case "Commit":
				cmts = append(cmts, inf.VI)
			}
		}
		x.emit(map[string]any{"event": "cache_hold", "node": Xn, "vi": X, "h": H, "order": order, "subset": subset, "view": view1})
		if order == "early" {
			for _, idm := range ids {
				given(idm, x.probeDeliver(idm, Xn, "future"))
			}
			x.relayOne(Xn, H)
		} else {
			x.relayOne(Xn, H)
			for _, idm := range ids {
				given(idm, x.hdeliver(idm, Xn))
			}
		}
		x.c.ServeTxRequests()
		x.observe()
		// view1 > 0: a validator entering H+1 is in view 0 and keeps payloads of a later view for that view; only view 0 is
		// judged for exactness
		x.emit(map[string]any{"event": "cache_replayed", "node": Xn, "vi": X, "h": H + 1, "order": order, "view": view1,
			"got_req": gotReq, "got_preps": preps, "got_commits": cmts,
			"sent_resp": x.find2("PrepareResponse", X, view1, H+1) >= 0, "sent_commit": x.find2("Commit", X, view1, H+1) >= 0,
			"lh": x.c.Nodes[Xn].BC.BlockHeight(), "assembled": x.rc.assembled(Xn, H+1), "with_tx": withTx, "unprocessed": unprocessed,
			"reset": x.c.Nodes[Xn].Timer.Height() >= H+1})
		res.Inc("cache_scenarios", 1)
		res.Count([]any{"cache", n, order, subset, X, withTx})
		// late payloads of a finished height
		if x.c.Nodes[Xn].BC.BlockHeight() >= H {
			k := 0
			for idm := start; idm < x.c.NMsgs() && k < 4; idm++ {
				inf := x.rc.inf(idm)
				if inf != nil && inf.H == H && x.c.Msg(idm).From != Xn && !x.given[idm][Xn] {
					x.probeDeliver(idm, Xn, "old")
					k++
				}
			}
		}
	}
	x.synchronous(2, 6*n, true)
	x.feedAll()
	res.Traces++
	return x.fatal
}

// ---------------------------------------------------------------- the repaired defect (21f472b)

func relabel7(t *testing.T, res *vh.Result, tr *vh.Trace, id int) error {
	n := 7
	x, done, err := newRecRun(t, res, tr, id, n, "relabel7", nil)
	if err != nil {
		return err
	}
	defer done()
	x.c.Start()
	x.synchronous(1, 6*n, false)
	H := x.nextHeight()
	p0, p1 := primaryOf(H, 0, n), primaryOf(H, 1, n)
	X := p0
	var rest []int
	for v := 0; v < n; v++ {
		if v != X && v != p1 {
			rest = append(rest, v)
		}
	}
	Z, B := rest[0], rest[1:]
	Y := B[0]
	others := append([]int{p1}, rest...)
	missed := false
	give := func(typ string, from, view int, to ...int) {
		idm := x.find2(typ, from, view, H)
		if idm < 0 {
			missed = true
			return
		}
		for _, v := range to {
			x.hdeliver(idm, x.nd(v))
		}
	}
	// view 0: X proposes, four backups answer, only X sees the answers and commits; Y gets X's Commit
	x.timeout(x.nd(X))
	give("PrepareRequest", X, 0, B...)
	for _, b := range B {
		give("PrepareResponse", b, 0, X)
	}
	give("Commit", X, 0, Y)
	// the six others time out until each has asked for view 1 (the first ones ask for recovery: they have heard nobody)
	for round := 0; round < 4 && !missed; round++ {
		for _, v := range others {
			if x.find2("ChangeView", v, 0, H) >= 0 {
				continue
			}
			before := x.c.NMsgs()
			x.timeout(x.nd(v))
			for idm := before; idm < x.c.NMsgs(); idm++ {
				inf := x.rc.inf(idm)
				if inf != nil && (inf.Type == "RecoveryRequest" || inf.Type == "ChangeView") && inf.VI == v {
					for _, w := range others {
						if w != v {
							x.hdeliver(idm, x.nd(w))
						}
					}
				}
			}
		}
	}
	// view 1: five of them prepare and commit; Z only sees the responses
	x.timeout(x.nd(p1))
	give("PrepareRequest", p1, 1, B...)
	for _, b := range B {
		give("PrepareResponse", b, 1, append([]int{p1, Z}, B...)...)
	}
	// Z asks for view 2; Y resends its Commit in a RecoveryMessage that also carries X's Commit of view 0
	x.timeout(x.nd(Z))
	x.timeout(x.nd(Y))
	if rid := x.find2("RecoveryMessage", Y, 1, H); rid >= 0 && !missed {
		x.hdeliver(rid, x.nd(Z))
		give("PrepareRequest", p1, 1, Z)
		give("Commit", B[1], 1, Z)
		give("Commit", B[2], 1, Z)
		w := x.rc.inf(rid).Wire
		other := 0
		if w != nil {
			for _, c := range w.Commits {
				if c.View != 1 {
					other++
				}
			}
		}
		res.Inc("relabel7_commits_of_other_views_carried", other)
	} else {
		missed = true
	}
	if missed {
		res.Inc("relabel7_setup_missed", 1)
		x.emit(map[string]any{"event": "note", "what": "relabel7 setup missed"})
	}
	x.observe()
	res.Count([]any{"relabel7", missed})
	x.synchronous(2, 6*n, true)
	x.feedAll()
	res.Traces++
	return x.fatal
}

// ---------------------------------------------------------------- DBFTChain schedules

type cstep struct {
	Op   string `json:"op"`
	V    int    `json:"v"`
	Type string `json:"type"`
	From int    `json:"from"`
	H    int    `json:"h"` // height of the model (H0 = 1)
	View int    `json:"view"`
	To   int    `json:"to"`
	Set  []int  `json:"set"`
}

func chainModel(t *testing.T, res *vh.Result, tr *vh.Trace, id, n int, sched []cstep, extra int) error {
	x, done, err := newRecRun(t, res, tr, id, n, "chain", nil)
	if err != nil {
		return err
	}
	defer done()
	x.c.Start()
	x.synchronous(1, 6*n, false)
	base := x.nextHeight() // the model's height 1
	shift := int(base-1) % n
	vi := func(v int) int { return (v + shift) % n }
	unmatched := 0
	for _, s := range sched {
		if x.fatal != nil {
			break
		}
		switch s.Op {
		case "timeout":
			x.timeout(x.nd(vi(s.V)))
		case "deliver":
			view := s.View
			if s.Type == "ChangeView" {
				view--
			}
			idm := x.find2(s.Type, vi(s.From), view, base+uint32(s.H-1))
			if idm < 0 {
				unmatched++
				continue
			}
			to := x.nd(vi(s.To))
			if x.c.Msg(idm).Height > x.c.Nodes[to].BC.BlockHeight()+1 {
				x.probeDeliver(idm, to, "future")
			} else if x.c.Msg(idm).Height <= x.c.Nodes[to].BC.BlockHeight() {
				x.probeDeliver(idm, to, "old")
			} else {
				x.hdeliver(idm, to)
			}
		case "relay":
			node := x.nd(vi(s.V))
			if !x.silent[node] {
				x.relayOne(node, x.c.Nodes[node].BC.BlockHeight()+1)
			}
		case "silent":
			x.silent = map[int]bool{}
			set := []int{}
			for _, v := range s.Set {
				x.silent[x.nd(vi(v))] = true
				set = append(set, x.nd(vi(v)))
			}
			x.emit(map[string]any{"event": "silent", "set": set})
		}
	}
	res.Inc("chain_steps_unmatched", unmatched)
	x.adversarial(nil, extra)
	x.synchronous(2, 6*n, true)
	x.feedAll()
	res.Traces++
	if id%50 == 0 {
		res.Sample(map[string]any{"run": id, "n": n, "kind": "chain", "model_steps": len(sched), "final_heights": x.c.Heights()})
	}
	return x.fatal
}
