// Driver for C07: realises the admission cells enumerated by TLC (spec/admission/AdmissionCases.tla) as concrete
// transactions on prepared real chains, offers them the way peers / RPC clients do (bytes -> NewTransactionFromBytes
// -> PoolTx / VerifyTx) and records facts + observations for AdmissionTrace.tla; replays the packing cases of
// AdmissionPack.tla and seeded pool mixes through mempool -> ApplyPolicyToTxSet -> block -> wire -> replica.
package c07admit

import (
	"fmt"
	"math/rand"
	"runtime"
	"sort"
	"sync"
	"testing"

	"verifharness/internal/vh"

	"github.com/nspcc-dev/neo-go/pkg/core/transaction"
)

func defaultParams(name string) Params {
	return Params{Name: name, FeePerByte: 1000, ExecPico: 300000, AttrFee: map[string]int64{}, MaxSysFee: 1000 * gas}
}

func seededParams(name string, r *rand.Rand) Params {
	p := defaultParams(name)
	p.FeePerByte = int64(200 + r.Intn(3000))
	p.ExecPico = int64(10000 + r.Intn(990000)) // fractional datoshi per unit: rounding matters
	if p.ExecPico%10000 == 0 {
		p.ExecPico += 1 + int64(r.Intn(9999))
	}
	p.AttrFee = map[string]int64{"high": int64(r.Intn(500000)), "conflicts": int64(1 + r.Intn(500000)), "nvb": int64(r.Intn(500000)),
		"notary": int64(1 + r.Intn(20000000))}
	return p
}

// conflictTx builds a valid transaction of account a that names `victim` in a Conflicts attribute.
func (w *World) conflictTx(a *acct, victim *transaction.Transaction, idx int, h uint32) (*Built, error) {
	c := Cell{Form: "ok", Script: "ok", Vub: "mid", Chain: "fresh", Blocked: "none", Sysfee: "ok", Attr: "conflicts", Size: "small",
		D: "p1", Wit: "sig", Cos: "none", Wval: "ok", Wat: "1", Bal: "ok", Enc: "canon"}
	vh := victim.Hash()
	b, err := w.Build(c, idx, h, BuildOpts{Sender: a, ConflictHash: &vh, ExtraFee: gas / 10})
	if err != nil {
		return nil, err
	}
	if b.Tx == nil {
		return nil, fmt.Errorf("conflicting tx does not parse: %s", b.ParseErr)
	}
	return b, nil
}

// emitAdmit writes an admission event (and its side line) and counts it.
func emitAdmit(res *vh.Result, tr, det *vh.Trace, ev map[string]any) {
	ob := ev["o"].(map[string]any)
	det.Emit(map[string]any{"detail": ev["detail"], "msg": ob["poolmsg"]})
	delete(ev, "detail")
	delete(ob, "poolmsg")
	tr.Emit(ev)
	res.Inc("admit_events", 1)
	if ob["inpool"].(bool) {
		res.Inc("admitted", 1)
	}
}

type cellResult struct {
	ev      map[string]any
	paniced any
	err     error
}

// runCells offers every row on world w. Rows whose cell needs facts on chain get them in dedicated blocks first.
func runCells(t *testing.T, res *vh.Result, tr, det *vh.Trace, w *World, rows []Row, pick func(i int) bool) {
	var fact []int
	for i := range rows {
		if pick(i) && rows[i].Cell.Chain != "fresh" {
			fact = append(fact, i)
		}
	}
	const perBlock = 40
	nb := (len(fact) + perBlock - 1) / perBlock
	hf := w.bc.BlockHeight() + uint32(nb)
	prepared := map[int]*Built{}
	skip := map[int]bool{}
	var blockTxs []*transaction.Transaction
	// Everything that goes into the fact blocks is a VALID transaction at this point; it is offered to the node first
	// (a recorded, judged admission like any other).  What the node refuses is left out, so that a node that
	// refuses valid transactions yields a verdict instead of a broken preparation.
	preOffer := func(b *Built) bool {
		out := "open"
		if b.Std && b.Cell.Enc == "canon" {
			out = "accept"
		}
		ev, paniced := w.Offer(b, &Row{Cell: b.Cell, Defects: []string{}, Outcome: out, Err: "ok"})
		if paniced != nil {
			res.Violate(map[string]any{"kind": "panic", "at": "PoolTx/VerifyTx"}, fmt.Sprintf("Go panic escaped admission: %v", paniced),
				map[string]any{"world": w.P, "cell": b.Cell})
			return false
		}
		emitAdmit(res, tr, det, ev)
		return ev["o"].(map[string]any)["inpool"].(bool)
	}
	for _, i := range fact {
		b, err := w.Build(rows[i].Cell, i, hf)
		if err != nil || b.Tx == nil {
			t.Fatalf("cannot prepare chain facts for cell %d %+v: %v %v", i, rows[i].Cell, err, b)
		}
		if rows[i].Cell.Chain == "dup" { // the transaction itself goes on chain: as of now it is a valid one
			pre := *b
			pre.Cell.Chain = "fresh"
			pre.Facts = map[string]any{}
			for k, v := range b.Facts {
				pre.Facts[k] = v
			}
			pre.Idx = 6_000_000 + i
			if !preOffer(&pre) {
				skip[i] = true
				res.Inc("fact_preparation_refused", 1)
				continue
			}
		}
		prepared[i] = b
		switch rows[i].Cell.Chain {
		case "dup":
			blockTxs = append(blockTxs, b.Tx)
		case "namedsender", "namedcosigner", "namedother":
			a := b.Accts[0]
			if rows[i].Cell.Chain == "namedcosigner" {
				a = b.Accts[1]
			} else if rows[i].Cell.Chain == "namedother" {
				a = w.acc["OTHER"]
			}
			cb, err := w.conflictTx(a, b.Tx, 5_000_000+i, hf)
			if err != nil {
				t.Fatalf("cell %d: %v", i, err)
			}
			if !preOffer(cb) {
				skip[i] = true
				delete(prepared, i)
				res.Inc("fact_preparation_refused", 1)
				continue
			}
			blockTxs = append(blockTxs, cb.Tx)
		}
	}
	for k := 0; k < nb; k++ { // the planned number of blocks, whatever was left out
		lo, hi := min(k*perBlock, len(blockTxs)), min((k+1)*perBlock, len(blockTxs))
		w.addBlock(false, blockTxs[lo:hi]...)
	}
	if w.bc.BlockHeight() != hf {
		t.Fatalf("planned height %d, got %d", hf, w.bc.BlockHeight())
	}
	w.scanNamed()
	var idxs []int
	for i := range rows {
		if pick(i) && !skip[i] {
			idxs = append(idxs, i)
		}
	}
	out := make([]cellResult, len(idxs))
	var wg sync.WaitGroup
	nw := min(8, runtime.GOMAXPROCS(0))
	ch := make(chan int)
	for k := 0; k < nw; k++ {
		wg.Add(1)
		go func() {
			defer wg.Done()
			for j := range ch {
				i := idxs[j]
				b := prepared[i]
				if b == nil {
					var err error
					if b, err = w.Build(rows[i].Cell, i, hf); err != nil {
						out[j].err = err
						continue
					}
				}
				out[j].ev, out[j].paniced = w.Offer(b, &rows[i])
			}
		}()
	}
	for j := range idxs {
		ch <- j
	}
	close(ch)
	wg.Wait()
	for j, o := range out {
		c := rows[idxs[j]].Cell
		if o.err != nil {
			t.Fatalf("cell %d %+v cannot be realised: %v", idxs[j], c, o.err)
		}
		if o.paniced != nil {
			res.Violate(map[string]any{"kind": "panic", "at": "PoolTx/VerifyTx"}, fmt.Sprintf("Go panic escaped admission: %v", o.paniced),
				map[string]any{"world": w.P, "cell": c})
			continue
		}
		emitAdmit(res, tr, det, o.ev)
		res.Count([]any{w.P.Name, c})
		ob := o.ev["o"].(map[string]any)
		if j%997 == 3 {
			res.Sample(map[string]any{"world": w.P.Name, "cell": c, "facts": o.ev["f"], "observed": ob})
		}
		if ob["inpool"].(bool) && rows[idxs[j]].HashedNC {
			res.Inc("admitted_in_noncanonical_signed_part", 1)
		}
	}
	res.Traces++
}

func TestDriver(t *testing.T) {
	res := vh.NewResult()
	tr := vh.NewTrace("trace.ndjson")
	det := vh.NewTrace("detail.ndjson") // line k describes line k of the trace (cells only; other lines are empty objects)
	var rows []Row
	if err := vh.ReadJSON("cells.json", &rows); err != nil {
		t.Fatalf("no cells: %v", err)
	}
	sort.SliceStable(rows, func(i, j int) bool { return fmt.Sprint(rows[i].Cell) < fmt.Sprint(rows[j].Cell) })
	r := vh.Rand(7)
	share := vh.EnvInt("VERIF_W1_SHARE", 100) // percent of the cells repeated on the world with seeded policy values
	worlds := []Params{defaultParams("W0")}
	for k := 1; k < vh.EnvInt("VERIF_WORLDS", 2); k++ { // more chain states: seeded Policy values
		worlds = append(worlds, seededParams(fmt.Sprintf("W%d", k), r))
	}
	for wi, p := range worlds {
		w := NewWorld(t, p)
		tr.Emit(map[string]any{"event": "world", "params": p, "height": w.bc.BlockHeight()})
		det.Emit(map[string]any{})
		sel := func(i int) bool { return true }
		if wi > 0 && share < 100 {
			keep := make([]bool, len(rows))
			for i := range keep {
				keep[i] = r.Intn(100) < share
			}
			sel = func(i int) bool { return keep[i] }
		}
		runCells(t, res, tr, det, w, rows, sel)
		w.Close()
	}
	if vh.EnvInt("VERIF_PROPOSALS", 1) != 0 {
		runProposals(t, res, tr)
	}
	tr.Close()
	det.Close()
	sort.Strings(res.Distinct)
	if err := res.Write(); err != nil {
		t.Fatal(err)
	}
}
