// Driver for C07: realises the admission cells enumerated by TLC (spec/admission/AdmissionCases.tla) as concrete
// transactions on prepared real chains, offers them the way peers / RPC clients do (bytes -> NewTransactionFromBytes
// -> PoolTx / VerifyTx) and records facts + observations for AdmissionTrace.tla; replays the packing cases of
// AdmissionPack.tla and seeded pool mixes through mempool -> ApplyPolicyToTxSet -> block -> wire -> replica.
package c07admit

import (
	"fmt"
	"math/rand"
	"runtime"
	"sort"
	"sync"
	"testing"

	"verifharness/internal/vh"

	"github.com/nspcc-dev/neo-go/pkg/core/transaction"
)

func defaultParams(name string) Params {
	return Params{Name: name, FeePerByte: 1000, ExecPico: 300000, AttrFee: map[string]int64{}, MaxSysFee: 1000 * gas}
}

func seededParams(name string, r *rand.Rand) Params {
	p := defaultParams(name)
	p.FeePerByte = int64(200 + r.Intn(3000))
	p.ExecPico = int64(10000 + r.Intn(990000)) // fractional datoshi per unit: rounding matters
	if p.ExecPico%10000 == 0 {
		p.ExecPico += 1 + int64(r.Intn(9999))
	}
	p.AttrFee = map[string]int64{"high": int64(r.Intn(500000)), "conflicts": int64(1 + r.Intn(500000)), "nvb": int64(r.Intn(500000)),
		"notary": int64(1 + r.Intn(20000000))}
	return p
}

// conflictTx builds a valid transaction of account a that names `victim` in a Conflicts attribute.
func (w *World) conflictTx(a *acct, victim *transaction.Transaction, idx int, h uint32) (*transaction.Transaction, error) {
	c := Cell{Form: "ok", Script: "ok", Vub: "mid", Chain: "fresh", Blocked: "none", Sysfee: "ok", Attr: "conflicts", Size: "small",
		D: "p1", Wit: "sig", Cos: "none", Wval: "ok", Wat: "1", Bal: "ok", Enc: "canon"}
	vh := victim.Hash()
	b, err := w.Build(c, idx, h, BuildOpts{Sender: a, ConflictHash: &vh, ExtraFee: gas / 10})
	if err != nil {
		return nil, err
	}
	if b.Tx == nil {
		return nil, fmt.Errorf("conflicting tx does not parse: %s", b.ParseErr)
	}
	return b.Tx, nil
}

type cellResult struct {
	ev      map[string]any
	paniced any
	err     error
}

// runCells offers every row on world w. Rows whose cell needs facts on chain get them in dedicated blocks first.
func runCells(t *testing.T, res *vh.Result, tr, det *vh.Trace, w *World, rows []Row, pick func(i int) bool) {
	var fact []int
	for i := range rows {
		if pick(i) && rows[i].Cell.Chain != "fresh" {
			fact = append(fact, i)
		}
	}
	const perBlock = 40
	nb := (len(fact) + perBlock - 1) / perBlock
	hf := w.bc.BlockHeight() + uint32(nb)
	prepared := map[int]*Built{}
	var blockTxs []*transaction.Transaction
	for _, i := range fact {
		b, err := w.Build(rows[i].Cell, i, hf)
		if err != nil || b.Tx == nil {
			t.Fatalf("cannot prepare chain facts for cell %d %+v: %v %v", i, rows[i].Cell, err, b)
		}
		prepared[i] = b
		switch rows[i].Cell.Chain {
		case "dup":
			blockTxs = append(blockTxs, b.Tx)
		case "namedsender", "namedcosigner", "namedother":
			a := b.Accts[0]
			if rows[i].Cell.Chain == "namedcosigner" {
				a = b.Accts[1]
			} else if rows[i].Cell.Chain == "namedother" {
				a = w.acc["OTHER"]
			}
			ctx, err := w.conflictTx(a, b.Tx, 5_000_000+i, hf)
			if err != nil {
				t.Fatalf("cell %d: %v", i, err)
			}
			blockTxs = append(blockTxs, ctx)
		}
	}
	for k := 0; k < nb; k++ {
		lo, hi := k*perBlock, min((k+1)*perBlock, len(blockTxs))
		w.addBlock(false, blockTxs[lo:hi]...)
	}
	if w.bc.BlockHeight() != hf {
		t.Fatalf("planned height %d, got %d", hf, w.bc.BlockHeight())
	}
	w.scanNamed()
	var idxs []int
	for i := range rows {
		if pick(i) {
			idxs = append(idxs, i)
		}
	}
	out := make([]cellResult, len(idxs))
	var wg sync.WaitGroup
	nw := min(8, runtime.GOMAXPROCS(0))
	ch := make(chan int)
	for k := 0; k < nw; k++ {
		wg.Add(1)
		go func() {
			defer wg.Done()
			for j := range ch {
				i := idxs[j]
				b := prepared[i]
				if b == nil {
					var err error
					if b, err = w.Build(rows[i].Cell, i, hf); err != nil {
						out[j].err = err
						continue
					}
				}
				out[j].ev, out[j].paniced = w.Offer(b, &rows[i])
			}
		}()
	}
	for j := range idxs {
		ch <- j
	}
	close(ch)
	wg.Wait()
	for j, o := range out {
		c := rows[idxs[j]].Cell
		if o.err != nil {
			t.Fatalf("cell %d %+v cannot be realised: %v", idxs[j], c, o.err)
		}
		if o.paniced != nil {
			res.Violate(map[string]any{"kind": "panic", "at": "PoolTx/VerifyTx"}, fmt.Sprintf("Go panic escaped admission: %v", o.paniced),
				map[string]any{"world": w.P, "cell": c})
			continue
		}
		det.Emit(map[string]any{"detail": o.ev["detail"], "msg": o.ev["o"].(map[string]any)["poolmsg"]})
		delete(o.ev, "detail")
		delete(o.ev["o"].(map[string]any), "poolmsg")
		tr.Emit(o.ev)
		res.Count([]any{w.P.Name, c})
		res.Inc("admit_events", 1)
		ob := o.ev["o"].(map[string]any)
		if ob["inpool"].(bool) {
			res.Inc("admitted", 1)
		}
		if j%997 == 3 {
			res.Sample(map[string]any{"world": w.P.Name, "cell": c, "facts": o.ev["f"], "observed": ob})
		}
		if ob["inpool"].(bool) && rows[idxs[j]].HashedNC {
			res.Inc("admitted_in_noncanonical_signed_part", 1)
		}
	}
	res.Traces++
}

func TestDriver(t *testing.T) {
	res := vh.NewResult()
	tr := vh.NewTrace("trace.ndjson")
	det := vh.NewTrace("detail.ndjson") // line k describes line k of the trace (cells only; other lines are empty objects)
	var rows []Row
	if err := vh.ReadJSON("cells.json", &rows); err != nil {
		t.Fatalf("no cells: %v", err)
	}
	sort.SliceStable(rows, func(i, j int) bool { return fmt.Sprint(rows[i].Cell) < fmt.Sprint(rows[j].Cell) })
	r := vh.Rand(7)
	share := vh.EnvInt("VERIF_W1_SHARE", 100) // percent of the cells repeated on the world with seeded policy values
	worlds := []Params{defaultParams("W0"), seededParams("W1", r)}
	for wi, p := range worlds {
		w := NewWorld(t, p)
		tr.Emit(map[string]any{"event": "world", "params": p, "height": w.bc.BlockHeight()})
		det.Emit(map[string]any{})
		sel := func(i int) bool { return true }
		if wi > 0 && share < 100 {
			keep := make([]bool, len(rows))
			for i := range keep {
				keep[i] = r.Intn(100) < share
			}
			sel = func(i int) bool { return keep[i] }
		}
		runCells(t, res, tr, det, w, rows, sel)
		w.Close()
	}
	if vh.EnvInt("VERIF_PROPOSALS", 1) != 0 {
		runProposals(t, res, tr)
	}
	tr.Close()
	det.Close()
	sort.Strings(res.Distinct)
	if err := res.Write(); err != nil {
		t.Fatal(err)
	}
}
