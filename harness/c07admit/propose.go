package c07admit

import (
	"encoding/hex"
	"fmt"
	"math/rand"
	"testing"

	"verifharness/internal/chainkit"
	"verifharness/internal/vh"

	"github.com/nspcc-dev/neo-go/pkg/core/native/nativenames"
	"github.com/nspcc-dev/neo-go/pkg/core/transaction"
	"github.com/nspcc-dev/neo-go/pkg/neotest"
	"github.com/nspcc-dev/neo-go/pkg/util"
)

const (
	packUnit    = 2000        // bytes per model size unit
	packSysUnit = 1_0000_0000 // datoshi per model system fee unit
	sysScale    = 10000       // system fees are reported to TLC in units of 10^4 datoshi (32-bit integers)
)

type packCase struct {
	Pool []struct {
		Size   int `json:"size"`
		Sysfee int `json:"sysfee"`
	} `json:"pool"`
	Lim struct {
		Maxtx   int `json:"maxtx"`
		Maxsize int `json:"maxsize"`
		Maxsys  int `json:"maxsys"`
	} `json:"lim"`
	Sel int `json:"sel"`
}

var validCell = Cell{Form: "ok", Script: "ok", Vub: "mid", Chain: "fresh", Blocked: "none", Sysfee: "ok", Attr: "none", Size: "small",
	D: "0", Wit: "sig", Cos: "none", Wval: "ok", Wat: "1", Bal: "ok", Enc: "canon"}

// emptyBlockLen is the wire size of a block of this network without transactions.
func (w *World) emptyBlockLen() int {
	b, err := w.net.NewBlock(w.bc, 1)
	if err != nil {
		w.t.Fatal(err)
	}
	raw, err := chainkit.EncodeBlock(b)
	if err != nil {
		w.t.Fatal(err)
	}
	return len(raw)
}

var emptyBlockSize = map[bool]int{}

// emptyLen measures (once per header format) the wire size of an empty block of the harness network.
func emptyLen(t *testing.T, srih bool) int {
	if emptyBlockSize[srih] == 0 {
		pp := defaultParams("probe")
		pp.SRIH = srih
		probe := NewWorld(t, pp)
		emptyBlockSize[srih] = probe.emptyBlockLen()
		probe.Close()
	}
	return emptyBlockSize[srih]
}

// proposeRound does what a primary does with its pool and what a backup / peer does with the result:
// pool order -> ApplyPolicyToTxSet -> block -> wire bytes -> fresh parse -> AddBlock on the independent replica.
// cands were offered to the main pool before; pred is the selection length predicted by the model (-1: none).
func (w *World) proposeRound(res *vh.Result, tr *vh.Trace, src string, cands []*Built, pred int, cleanup bool) {
	mp := w.bc.GetMemPool()
	byHash := map[util.Uint256]int{}
	txs := []map[string]any{}
	var objs []*transaction.Transaction
	verified := mp.GetVerifiedTransactions()
	for _, tx := range verified {
		enc, cell := "?", any(map[string]any{})
		if b := w.offered[tx.Hash()]; b != nil {
			enc, cell = b.Cell.Enc, b.Cell
		}
		// identity after the encoding the block uses
		rt, err := transaction.NewTransactionFromBytes(tx.Bytes())
		stable := err == nil && rt.Hash() == tx.Hash()
		objs = append(objs, tx)
		byHash[tx.Hash()] = len(objs)
		m := map[string]any{"size": tx.Size(), "sysfee": tx.SystemFee / sysScale, "enc": enc, "hash": tx.Hash().StringLE(),
			"stable": stable, "cell": cell, "sysfee_exact": tx.SystemFee%sysScale == 0}
		if b := w.offered[tx.Hash()]; !stable && b != nil { // for the replay: the bytes as they were received
			m["raw"] = hex.EncodeToString(b.Raw)
			if rt != nil {
				m["hash_after_block_round_trip"] = rt.Hash().StringLE()
			}
		}
		txs = append(txs, m)
	}
	ids := func(l []*transaction.Transaction) []int {
		r := []int{}
		for _, tx := range l {
			r = append(r, byHash[tx.Hash()])
		}
		return r
	}
	cfg := w.bc.GetConfig()
	ev := map[string]any{"event": "propose", "src": src, "world": w.P.Name, "height": w.bc.BlockHeight(), "tx": txs, "pool": ids(verified),
		"maxtx": int(cfg.MaxTransactionsPerBlock), "maxsize": cfg.MaxBlockSize, "maxsys": cfg.MaxBlockSystemFee / sysScale, "pred": pred,
		"offered": len(cands)}
	var paniced any
	var sel []*transaction.Transaction
	accepted, errS, wire := false, "", 0
	func() {
		defer func() { paniced = recover() }()
		sel = w.bc.ApplyPolicyToTxSet(verified)
		blk, err := w.net.NewBlock(w.bc, 1, sel...)
		if err != nil {
			panic(err)
		}
		raw, err := chainkit.EncodeBlock(blk)
		if err != nil {
			errS = "encode: " + err.Error()
			return
		}
		wire = len(raw)
		d, err := chainkit.DecodeBlock(raw, w.P.SRIH)
		if err != nil {
			errS = "decode: " + err.Error()
			return
		}
		if err = w.rep.AddBlock(d); err != nil {
			errS = "replica: " + err.Error()
			return
		}
		accepted = true
		w.raws = append(w.raws, raw)
		// the proposer stores its own block too (a second, independent parse of the same bytes)
		d2, _ := chainkit.DecodeBlock(raw, w.P.SRIH)
		if err = w.bc.AddBlock(d2); err != nil {
			panic(fmt.Sprintf("replica accepted block %d but the proposer itself rejects it: %v", d2.Index, err))
		}
	}()
	if paniced != nil {
		res.Violate(map[string]any{"kind": "panic", "at": "proposal"}, fmt.Sprintf("Go panic while proposing: %v", paniced), ev)
		w.t.Fatalf("proposal panic: %v", paniced)
	}
	ev["sel"], ev["wiresize"], ev["accepted"], ev["err"] = ids(sel), wire, accepted, errS
	culprits := []int{}
	for _, tx := range sel {
		id := byHash[tx.Hash()]
		if !txs[id-1]["stable"].(bool) {
			culprits = append(culprits, id)
		}
	}
	ev["culprits"] = culprits
	tr.Emit(ev)
	res.Count([]any{"propose", w.P.Name, src, ev["pool"], ev["sel"]})
	res.Inc("proposals", 1)
	if accepted {
		res.Inc("proposals_accepted", 1)
	}
	if res.Stats["proposals"].(int)%40 == 5 {
		res.Sample(map[string]any{"src": src, "pool": ev["pool"], "sel": ev["sel"], "accepted": accepted, "wiresize": wire, "ntx": len(txs)})
	}
	if !accepted {
		w.resetReplica()
		// move on: drop what made the block unacceptable (or, if unknown, everything that was selected)
		drop := sel
		if len(culprits) > 0 {
			drop = nil
			for _, id := range culprits {
				drop = append(drop, objs[id-1])
			}
		}
		for _, tx := range drop {
			mp.Remove(tx.Hash())
		}
		if len(culprits) > 0 && len(src) < 60 {
			w.proposeRound(res, tr, src+"+retry", cands, -1, cleanup)
			return
		}
	}
	if cleanup {
		for _, tx := range mp.GetVerifiedTransactions() {
			mp.Remove(tx.Hash())
		}
	}
}

// offerMain offers a built transaction to the node's own pool, like the network server does.
func (w *World) offerMain(b *Built) bool {
	if b.Tx == nil {
		return false
	}
	if w.offered == nil {
		w.offered = map[util.Uint256]*Built{}
	}
	w.offered[b.Tx.Hash()] = b
	return w.bc.PoolTx(b.Tx) == nil
}

func runPacks(t *testing.T, res *vh.Result, tr *vh.Trace, cases []packCase, r *rand.Rand, budget int) {
	type lim struct{ maxtx, maxsize, maxsys int }
	groups := map[lim][]packCase{}
	var order []lim
	for _, c := range cases {
		k := lim{c.Lim.Maxtx, c.Lim.Maxsize, c.Lim.Maxsys}
		if _, ok := groups[k]; !ok {
			order = append(order, k)
		}
		groups[k] = append(groups[k], c)
	}
	if len(order) == 0 {
		return
	}
	per := budget / len(order)
	for gi, k := range order {
		p := defaultParams(fmt.Sprintf("P%d", gi))
		p.Rich = true
		p.SRIH = gi%2 == 1 // every other packing world carries state roots in its headers
		empty := emptyLen(t, p.SRIH)
		p.MaxTx = uint16(k.maxtx)
		p.MaxBlkSize = uint32(empty + k.maxsize*packUnit) // exactly what the model allows
		p.MaxSysFee = int64(k.maxsys) * packSysUnit
		w := NewWorld(t, p)
		tr.Emit(map[string]any{"event": "world", "params": p, "height": w.bc.BlockHeight(), "empty_block": empty})
		cs := groups[k]
		r.Shuffle(len(cs), func(i, j int) { cs[i], cs[j] = cs[j], cs[i] })
		if len(cs) > per {
			cs = cs[:per]
		}
		senders := []string{"A0", "A1", "A2", "A3", "A4", "A5"}
		for ci, c := range cs {
			var cands []*Built
			ok := true
			// every third case a few bytes are added to one transaction: the model's prediction no longer applies, but the
			// real block must stay within the limit byte-exactly
			tight, pred := -1, c.Sel
			if len(c.Pool) > 0 && r.Intn(3) == 0 {
				tight, pred = r.Intn(len(c.Pool)), -1
			}
			for i, sh := range c.Pool {
				size := sh.Size * packUnit
				if i == tight {
					size += 1 + r.Intn(40)
				}
				b, err := w.Build(validCell, ci*10+i, w.bc.BlockHeight(), BuildOpts{Sender: w.acc[senders[(ci+i)%len(senders)]],
					SysFee: int64(sh.Sysfee) * packSysUnit, SysFeeSet: true, TargetSize: size,
					ExtraFeePerByte: int64(len(c.Pool)-i) * 3000})
				if err != nil {
					t.Fatalf("pack case: %v", err)
				}
				if !w.offerMain(b) {
					ok = false
				}
				cands = append(cands, b)
			}
			if !ok || w.bc.GetMemPool().Count() != len(c.Pool) {
				res.Inc("pack_cases_not_pooled", 1)
				for _, tx := range w.bc.GetMemPool().GetVerifiedTransactions() {
					w.bc.GetMemPool().Remove(tx.Hash())
				}
				continue
			}
			w.proposeRound(res, tr, fmt.Sprintf("pack-%d-%d", gi, ci), cands, pred, true)
		}
		res.Traces++
		w.Close()
	}
}

var (
	mixWit  = []string{"sig", "sig", "sig", "ms11", "ms12", "ms22", "ms13", "ms23", "ms33", "ms14", "ms24", "ms34", "ms44", "cver", "carg", "any"}
	mixCos  = []string{"none", "none", "none", "sig", "ms23", "cver"}
	mixAttr = []string{"none", "none", "none", "high", "nvb", "nvbnow", "conflicts", "conflicts2", "notary", "notarysender", "oracle"}
	mixVub  = []string{"lo", "mid", "mid", "hi"}
	ncAll   = func() []string {
		var r []string
		for _, f := range []string{"nsigners", "nattrs", "scriptlen", "nwit", "invlen", "verlen", "rulecount"} {
			for _, wd := range []string{"fd", "fe", "ff"} {
				r = append(r, f+"_"+wd)
			}
		}
		return append(r, "boolbyte")
	}()
)

// runMixes fills the node's pool with seeded mixes of admitted transactions and proposes from it, round after round.
func runMixes(t *testing.T, res *vh.Result, tr *vh.Trace, r *rand.Rand, rounds int, ncShare int) {
	p := seededParams("M0", r)
	p.MaxTx = uint16(3 + r.Intn(6))
	p.MaxSysFee = 3 * gas
	p.SRIH = r.Intn(2) == 0
	empty := emptyLen(t, p.SRIH)
	p.MaxBlkSize = uint32(empty + 6000 + r.Intn(30000))
	w := NewWorld(t, p)
	defer w.Close()
	tr.Emit(map[string]any{"event": "world", "params": p, "height": w.bc.BlockHeight(), "empty_block": empty})
	// two poor accounts for same-sender chains near the balance
	poor := []*acct{sigAcct("POOR0"), sigAcct("POOR1")}
	var fund []*transaction.Transaction
	for _, a := range poor {
		w.acc[a.name] = a
		w.blockedAcc[a.h] = false
		fund = append(fund, w.prepTx([]neotest.Signer{w.e.Validator}, w.e.NativeHash(t, nativenames.Gas), "transfer", w.e.Validator.ScriptHash(), a.h,
			3*gas+int64(r.Intn(50000000)), nil))
	}
	w.AddBlock(fund...)
	idx := 100000
	for round := 0; round < rounds; round++ {
		n := 2 + r.Intn(12)
		h := w.bc.BlockHeight()
		var cands []*Built
		var last *Built
		for i := 0; i < n; i++ {
			idx++
			c := validCell
			c.Wit, c.Cos = mixWit[r.Intn(len(mixWit))], mixCos[r.Intn(len(mixCos))]
			c.Attr, c.Vub = mixAttr[r.Intn(len(mixAttr))], mixVub[r.Intn(len(mixVub))]
			if r.Intn(100) < ncShare {
				c.Enc = ncAll[r.Intn(len(ncAll))]
			}
			if c.Attr == "oracle" || c.Attr == "notarysender" {
				c.Wit, c.Cos = "sig", "none"
				if c.Attr == "oracle" && (c.Enc == "boolbyte" || (len(c.Enc) > 9 && c.Enc[:9] == "rulecount")) {
					c.Enc = "canon"
				}
			}
			opt := BuildOpts{SysFee: int64(1+r.Intn(120)) * 100_0000, ExtraFeePerByte: int64(r.Intn(4)) * 500, ExtraFee: int64(r.Intn(3)) * 1000}
			switch r.Intn(10) {
			case 0, 1:
				opt.TargetSize = 1000 + r.Intn(14000)
			case 2:
				opt.TargetSize = 20000 + r.Intn(20000)
			}
			if c.Attr == "oracle" {
				opt = BuildOpts{}
			}
			if r.Intn(5) == 0 && c.Attr != "oracle" && c.Attr != "notarysender" { // a chain of one poor sender close to its balance
				c.Wit = "sig"
				opt.Sender = poor[r.Intn(len(poor))]
				opt.SysFee = int64(60+r.Intn(60)) * 100_0000
			}
			switch r.Intn(12) {
			case 0: // takes the whole balance of its payer
				if c.Attr == "none" && c.Cos == "none" {
					c.Bal = "exact"
				}
			case 1, 2: // conflicts with the previous candidate
				if last != nil && last.Tx != nil && (c.Attr == "none" || c.Attr == "conflicts") {
					c.Attr = "conflicts"
					hh := last.Tx.Hash()
					opt.ConflictHash = &hh
					if r.Intn(2) == 0 {
						opt.Sender = last.Accts[0]
						if !isStdKind(opt.Sender.kind) || opt.Sender.kind == "committee" {
							opt.Sender = nil
						}
					}
				}
			}
			b, err := w.Build(c, idx, h, opt)
			if err != nil {
				res.Inc("mix_unbuildable", 1)
				continue
			}
			if w.offerMain(b) {
				res.Inc("mix_pooled", 1)
			} else {
				res.Inc("mix_not_pooled", 1)
			}
			cands = append(cands, b)
			last = b
		}
		w.proposeRound(res, tr, fmt.Sprintf("mix-%d", round), cands, -1, r.Intn(3) == 0)
	}
	res.Traces++
}

// runSweep proposes, for every encoding variant, a pool that holds one valid transaction received in that encoding
// among canonical ones.
func runSweep(t *testing.T, res *vh.Result, tr *vh.Trace, r *rand.Rand) {
	p := seededParams("S0", r)
	p.Rich = true
	w := NewWorld(t, p)
	defer w.Close()
	tr.Emit(map[string]any{"event": "world", "params": p, "height": w.bc.BlockHeight()})
	wits := []string{"sig", "ms23", "cver"}
	idx := 300000
	for vi, enc := range append([]string{"canon"}, ncAll...) {
		var cands []*Built
		for i := 0; i < 3; i++ {
			idx++
			c := validCell
			c.Wit = wits[(vi+i)%len(wits)]
			if i == 1 {
				c.Enc = enc
			}
			b, err := w.Build(c, idx, w.bc.BlockHeight(), BuildOpts{ExtraFeePerByte: int64(3-i) * 100})
			if err != nil {
				t.Fatalf("sweep: %v", err)
			}
			w.offerMain(b)
			cands = append(cands, b)
		}
		w.proposeRound(res, tr, "sweep-"+enc, cands, -1, true)
	}
	res.Traces++
}

// runCrowd: proposals of very different transaction counts from one node, one after another, with the size limit set
// so that the block of the crowded round fits (or misses) by a byte: the count prefix of the block grows from one to
// three bytes at 253 transactions, and whatever the node remembers from an earlier proposal must not leak into this one.
func runCrowd(t *testing.T, res *vh.Result, tr *vh.Trace, r *rand.Rand) {
	const S = 260 // bytes per transaction
	for wi, off := range []int{-1, 0, 1, 2} {
		K := 253 + r.Intn(20)
		p := defaultParams(fmt.Sprintf("CROWD%d", wi))
		p.Rich = true
		p.SRIH = wi%2 == 1
		empty := emptyLen(t, p.SRIH)
		p.MaxTx = 600
		p.MaxBlkSize = uint32(empty + 2 + K*S + off) // K transactions fit exactly when off = 0
		p.MaxSysFee = 5000 * gas
		w := NewWorld(t, p)
		tr.Emit(map[string]any{"event": "world", "params": p, "height": w.bc.BlockHeight(), "empty_block": empty})
		senders := []string{"A0", "A1", "A2", "A3", "A4", "A5"}
		idx := 0
		fill := func(n int) []*Built {
			var cands []*Built
			for i := 0; i < n; i++ {
				idx++
				b, err := w.Build(validCell, 500000+idx, w.bc.BlockHeight(), BuildOpts{Sender: w.acc[senders[idx%len(senders)]],
					SysFee: 100_0000, SysFeeSet: true, TargetSize: S, ExtraFeePerByte: int64(n-i) * 10})
				if err != nil {
					t.Fatalf("crowd: %v", err)
				}
				if !w.offerMain(b) {
					t.Fatalf("crowd: transaction %d not pooled", idx)
				}
				cands = append(cands, b)
			}
			return cands
		}
		for round, n := range []int{3, K + 12, 2, K + 5} {
			cands := fill(n)
			w.proposeRound(res, tr, fmt.Sprintf("crowd-%d-%d", wi, round), cands, -1, true)
		}
		res.Inc("crowd_worlds", 1)
		res.Traces++
		w.Close()
	}
}

func runProposals(t *testing.T, res *vh.Result, tr *vh.Trace) {
	runSweep(t, res, tr, vh.Rand(19))
	runCrowd(t, res, tr, vh.Rand(23))
	var cases []packCase
	if err := vh.ReadJSON("packs.json", &cases); err != nil {
		t.Logf("no pack cases: %v", err)
	}
	runPacks(t, res, tr, cases, vh.Rand(11), vh.EnvInt("VERIF_PACKS", 200))
	runMixes(t, res, tr, vh.Rand(13), vh.EnvInt("VERIF_MIXES", 60), 0)
	runMixes(t, res, tr, vh.Rand(17), vh.EnvInt("VERIF_NCMIXES", 40), 25)
}
