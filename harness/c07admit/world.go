package c07admit

import (
	"encoding/json"
	"fmt"
	"math/big"
	"slices"
	"strings"
	"sync"
	"testing"

	"verifharness/internal/chainkit"

	"github.com/nspcc-dev/neo-go/pkg/compiler"
	"github.com/nspcc-dev/neo-go/pkg/config"
	"github.com/nspcc-dev/neo-go/pkg/core"
	"github.com/nspcc-dev/neo-go/pkg/core/native"
	"github.com/nspcc-dev/neo-go/pkg/core/native/nativehashes"
	"github.com/nspcc-dev/neo-go/pkg/core/native/nativenames"
	"github.com/nspcc-dev/neo-go/pkg/core/native/noderoles"
	"github.com/nspcc-dev/neo-go/pkg/core/transaction"
	"github.com/nspcc-dev/neo-go/pkg/crypto/hash"
	"github.com/nspcc-dev/neo-go/pkg/crypto/keys"
	"github.com/nspcc-dev/neo-go/pkg/neotest"
	"github.com/nspcc-dev/neo-go/pkg/smartcontract"
	"github.com/nspcc-dev/neo-go/pkg/smartcontract/manifest"
	"github.com/nspcc-dev/neo-go/pkg/smartcontract/trigger"
	"github.com/nspcc-dev/neo-go/pkg/util"
	"github.com/nspcc-dev/neo-go/pkg/vm/opcode"
	"github.com/nspcc-dev/neo-go/pkg/vm/stackitem"
)

const gas = int64(1_0000_0000)

// acct is something that can be a signer: how its witness is produced is known to the harness.
type acct struct {
	name string
	kind string // "sig" | "ms" | "contract" | "script"
	h    util.Uint160
	ver  []byte
	keys []*keys.PrivateKey // in verification-script order
	m    int
	arg  bool // contract whose verify takes one boolean
}

// Params are the chain-state parameters of a world (the "for all chain states" part that matters for admission).
type Params struct {
	Name        string           `json:"name"`
	FeePerByte  int64            `json:"fpb"`
	ExecPico    int64            `json:"execpico"` // execution fee factor in picoGAS units (10000 = 1 datoshi)
	AttrFee     map[string]int64 `json:"attrfee"`
	MaxSysFee   int64            `json:"maxsysfee"`
	MaxTx       uint16           `json:"maxtx"`
	MaxBlkSize  uint32           `json:"maxblksize"`
	MemPoolSize int              `json:"mempoolsize"`
	Rich        bool             `json:"rich"` // plain accounts get a large balance (long proposal runs)
	SRIH        bool             `json:"srih"` // StateRootInHeader: headers carry the previous state root (32 bytes more)
}

type World struct {
	t          testing.TB
	P          Params
	net        *chainkit.Net
	bc         *core.Blockchain // the node under test
	rep        *core.Blockchain // independent replica, fed wire blocks only
	e          *neotest.Executor
	acc        map[string]*acct
	nk         *keys.PrivateKey // designated notary node
	ok         *keys.PrivateKey // designated oracle node
	oracleMS   *acct
	reqC       util.Uint160
	nreq       int
	gasFor     int64
	onchain    util.Uint256 // hash of some transaction that is on chain
	fpb        int64
	attrFee    map[transaction.AttrType]int64
	blockedAcc map[util.Uint160]bool
	named      map[util.Uint256][][]util.Uint160 // hash named by Conflicts of on-chain txs -> their signer lists
	scanned    uint32
	offered    map[util.Uint256]*Built // what was offered to the node\'s own pool, by the identity the node derived
	raws       [][]byte                // wire form of every block of the chain, in order
	hook       func(*config.Blockchain)
	mu         sync.Mutex
}

var (
	compileOnce sync.Once
	compiled    map[string]*neotest.Contract
)

const srcVer = `package ver
import "github.com/nspcc-dev/neo-go/pkg/interop"
func Verify() bool { return true }
func OnNEP17Payment(from interop.Hash160, amount int, data any) {}
func Tag() int { return %d }
`
const srcArg = `package arg
import "github.com/nspcc-dev/neo-go/pkg/interop"
func Verify(ok bool) bool { return ok }
func OnNEP17Payment(from interop.Hash160, amount int, data any) {}
`
const srcFault = `package flt
import "github.com/nspcc-dev/neo-go/pkg/interop"
func Verify() bool { panic("never") }
func OnNEP17Payment(from interop.Hash160, amount int, data any) {}
`
const srcNoVer = `package nov
import "github.com/nspcc-dev/neo-go/pkg/interop"
func Main() int { return 1 }
func OnNEP17Payment(from interop.Hash160, amount int, data any) {}
`
const srcReq = `package oreq
import (
	"github.com/nspcc-dev/neo-go/pkg/interop/native/oracle"
	"github.com/nspcc-dev/neo-go/pkg/interop/storage"
)
func Request(n int) { oracle.Request("https://verif.example/x", nil, "cb", n, 100000000) }
func Cb(url string, data any, code int, res []byte) { storage.Put(storage.GetContext(), []byte("r"), res) }
`

func compileAll(t testing.TB, sender util.Uint160) map[string]*neotest.Contract {
	compileOnce.Do(func() {
		wild := manifest.NewPermission(manifest.PermissionWildcard)
		wild.Methods = manifest.WildStrings{}
		mk := func(name, src string) *neotest.Contract {
			return neotest.CompileSource(t, sender, strings.NewReader(src), &compiler.Options{
				Name: "c07" + name, NoEventsCheck: true, NoPermissionsCheck: true, Permissions: []manifest.Permission{*wild}})
		}
		compiled = map[string]*neotest.Contract{
			"cver":   mk("cver", fmt.Sprintf(srcVer, 1)),
			"cver2":  mk("cver2", fmt.Sprintf(srcVer, 2)),
			"carg":   mk("carg", srcArg),
			"cfault": mk("cfault", srcFault),
			"cnover": mk("cnover", srcNoVer),
			"oreq":   mk("oreq", srcReq),
		}
	})
	return compiled
}

func sigAcct(name string) *acct {
	k := chainkit.Key("c07-" + name)
	ver := k.PublicKey().GetVerificationScript()
	return &acct{name: name, kind: "sig", h: hash.Hash160(ver), ver: ver, keys: []*keys.PrivateKey{k}, m: 1}
}

func msAcct(name, family string, m, n int) *acct {
	ks := make([]*keys.PrivateKey, n)
	for i := range ks {
		ks[i] = chainkit.Key(fmt.Sprintf("c07-%s-%d", family, i))
	}
	slices.SortFunc(ks, func(a, b *keys.PrivateKey) int { return a.PublicKey().Cmp(b.PublicKey()) })
	pubs := make(keys.PublicKeys, n)
	for i := range ks {
		pubs[i] = ks[i].PublicKey()
	}
	ver, err := smartcontract.CreateMultiSigRedeemScript(m, pubs)
	if err != nil {
		panic(err)
	}
	return &acct{name: name, kind: "ms", h: hash.Hash160(ver), ver: ver, keys: ks, m: m}
}

func scriptAcct(name string, ver []byte) *acct {
	return &acct{name: name, kind: "script", h: hash.Hash160(ver), ver: ver}
}

var msKinds = [][2]int{{1, 1}, {1, 2}, {2, 2}, {1, 3}, {2, 3}, {3, 3}, {1, 4}, {2, 4}, {3, 4}, {4, 4}}

// NewWorld prepares the chain: accounts of every witness kind, verification contracts, designated notary and
// oracle nodes, a notary deposit, oracle requests, a blocked account and the policy values of p.
func NewWorld(t testing.TB, p Params) *World {
	w := &World{t: t, P: p, net: chainkit.NewNet(6, 4), acc: map[string]*acct{}, named: map[util.Uint256][][]util.Uint160{},
		blockedAcc: map[util.Uint160]bool{}, gasFor: gas}
	hook := func(c *config.Blockchain) {
		if p.MaxSysFee != 0 {
			c.MaxBlockSystemFee = p.MaxSysFee
		}
		c.MaxTransactionsPerBlock = p.MaxTx
		c.MaxBlockSize = p.MaxBlkSize
		c.StateRootInHeader = p.SRIH
		if p.MemPoolSize != 0 {
			c.MemPoolSize = p.MemPoolSize
		}
	}
	var err error
	w.hook = hook
	if w.bc, err = w.net.NewChain(nil, hook); err != nil {
		t.Fatal(err)
	}
	if w.rep, err = w.net.NewChain(nil, hook); err != nil {
		t.Fatal(err)
	}
	chainkit.Start(w.bc)
	chainkit.Start(w.rep)
	w.e = w.net.Executor(t, w.bc)
	e := w.e
	add := func(a *acct) *acct { w.acc[a.name] = a; return a }
	for i := 0; i < 6; i++ {
		add(sigAcct(fmt.Sprintf("A%d", i)))
	}
	for _, n := range []string{"W", "X", "ND", "OTHER", "ALT"} {
		add(sigAcct(n))
	}
	for _, mn := range msKinds {
		add(msAcct(fmt.Sprintf("ms%d%d", mn[0], mn[1]), "ms", mn[0], mn[1]))
	}
	add(msAcct("cos_ms23", "msc", 2, 3))
	add(msAcct("alt_ms", "msalt", 2, 3))
	add(scriptAcct("any", []byte{byte(opcode.PUSHT)}))
	add(scriptAcct("badver", []byte{byte(opcode.PUSHT), byte(opcode.PUSHDATA1), 9, 1, 2}))
	unk := &acct{name: "cunknown", kind: "contract", h: hash.Hash160([]byte("c07 no such contract"))}
	add(unk)
	com := w.net.CommitteeSigner()
	add(&acct{name: "committee", kind: "committee", h: com.ScriptHash(), ver: com.Script()})
	cs := compileAll(t, e.Validator.ScriptHash())
	for _, n := range []string{"cver", "cver2", "carg", "cfault", "cnover"} {
		add(&acct{name: n, kind: "contract", h: cs[n].Hash, arg: n == "carg"})
	}
	w.reqC = cs["oreq"].Hash
	w.nk = chainkit.Key("c07-notary-node")
	w.ok = chainkit.Key("c07-oracle-node")
	w.oracleMS = msOf("oracleMS", 1, w.ok)
	gasH, polH := e.NativeHash(t, nativenames.Gas), e.NativeHash(t, nativenames.Policy)
	val := []neotest.Signer{e.Validator}
	cmt := []neotest.Signer{e.Committee}

	// block 1: funding + deployments
	var txs []*transaction.Transaction
	for _, a := range w.sortedAccts() {
		amt := 900 * gas
		switch {
		case a.name == "W":
			amt = 5000 * gas
		case p.Rich && a.kind == "sig" && a.name[0] == 'A':
			amt = 200000 * gas
		case a.kind == "contract" && a.name != "cunknown":
			continue // not deployed yet
		}
		txs = append(txs, w.prepTx(val, gasH, "transfer", e.Validator.ScriptHash(), a.h, amt, nil))
	}
	for _, n := range []string{"cver", "cver2", "carg", "cfault", "cnover", "oreq"} {
		txs = append(txs, w.prepTxFee(30*gas, val, e.NativeHash(t, nativenames.Management), "deploy", nefBytes(t, cs[n]), manifestBytes(t, cs[n])))
	}
	w.AddBlock(txs...)
	w.onchain = txs[0].Hash()
	// block 2: contracts funded, roles, policy, blocked account, notary deposit
	txs = nil
	for _, n := range []string{"cver", "cver2", "carg", "cfault", "cnover"} {
		txs = append(txs, w.prepTx(val, gasH, "transfer", e.Validator.ScriptHash(), cs[n].Hash, 900*gas, nil))
	}
	desH := e.NativeHash(t, nativenames.Designation)
	txs = append(txs, w.prepTx(cmt, desH, "designateAsRole", int64(noderoles.P2PNotary), []any{w.nk.PublicKey().Bytes()}))
	txs = append(txs, w.prepTx(cmt, desH, "designateAsRole", int64(noderoles.Oracle), []any{w.ok.PublicKey().Bytes()}))
	txs = append(txs, w.prepTx(cmt, polH, "setFeePerByte", p.FeePerByte))
	txs = append(txs, w.prepTx(cmt, polH, "setExecFeeFactor", p.ExecPico))
	for _, name := range sortedKeys(p.AttrFee) {
		txs = append(txs, w.prepTx(cmt, polH, "setAttributeFee", int64(attrByName(name)), p.AttrFee[name]))
	}
	txs = append(txs, w.prepTx(cmt, polH, "blockAccount", w.acc["X"].h))
	w.AddBlock(txs...)
	// block 3: notary deposit, oracle requests
	txs = nil
	nd := neotest.NewSingleSigner(walletOf(w.acc["ND"].keys[0]))
	txs = append(txs, w.prepTx([]neotest.Signer{nd}, gasH, "transfer", nd.ScriptHash(), nativehashes.Notary, 500*gas, []any{nil, int64(100000)}))
	for i := 0; i < 40; i++ {
		txs = append(txs, w.prepTx(val, w.reqC, "request", int64(i)))
		w.nreq++
	}
	w.AddBlock(txs...)
	// the facts the harness later reports are read back from the chain, not assumed
	w.fpb = w.invokeInt(polH, "getFeePerByte")
	w.attrFee = map[transaction.AttrType]int64{}
	for _, at := range []transaction.AttrType{transaction.HighPriority, transaction.OracleResponseT, transaction.NotValidBeforeT,
		transaction.ConflictsT, transaction.NotaryAssistedT} {
		w.attrFee[at] = w.invokeInt(polH, "getAttributeFee", int64(at))
	}
	for _, a := range w.acc {
		w.blockedAcc[a.h] = w.invokeBool(polH, "isBlocked", a.h)
	}
	w.blockedAcc[nativehashes.Notary] = false
	w.blockedAcc[nativehashes.OracleContract] = false
	w.blockedAcc[w.oracleMS.h] = false
	if w.fpb != p.FeePerByte || !w.blockedAcc[w.acc["X"].h] || w.bc.GetBaseExecFee() != p.ExecPico {
		t.Fatalf("world preparation did not take effect: fpb %d exec %d blockedX %v", w.fpb, w.bc.GetBaseExecFee(), w.blockedAcc[w.acc["X"].h])
	}
	return w
}

func msOf(name string, m int, ks ...*keys.PrivateKey) *acct {
	ks = slices.Clone(ks)
	slices.SortFunc(ks, func(a, b *keys.PrivateKey) int { return a.PublicKey().Cmp(b.PublicKey()) })
	pubs := make(keys.PublicKeys, len(ks))
	for i := range ks {
		pubs[i] = ks[i].PublicKey()
	}
	ver, err := smartcontract.CreateMultiSigRedeemScript(m, pubs)
	if err != nil {
		panic(err)
	}
	return &acct{name: name, kind: "ms", h: hash.Hash160(ver), ver: ver, keys: ks, m: m}
}

// resetReplica replaces the replica by a fresh node that has received the chain's blocks over the wire.  Needed
// after the replica rejected a block: a rejected block may leave its header behind (not this property's subject).
func (w *World) resetReplica() {
	w.rep.Close()
	rep, err := w.net.NewChain(nil, w.hook)
	if err != nil {
		w.t.Fatal(err)
	}
	chainkit.Start(rep)
	for i, raw := range w.raws {
		d, err := chainkit.DecodeBlock(raw, w.P.SRIH)
		if err != nil {
			w.t.Fatal(err)
		}
		if err := rep.AddBlock(d); err != nil {
			w.t.Fatalf("fresh replica rejects block %d of the chain: %v", i+1, err)
		}
	}
	w.rep = rep
}

func (w *World) Close() {
	w.bc.Close()
	w.rep.Close()
}

func (w *World) sortedAccts() []*acct {
	var names []string
	for n := range w.acc {
		names = append(names, n)
	}
	slices.Sort(names)
	var r []*acct
	for _, n := range names {
		r = append(r, w.acc[n])
	}
	return r
}

func sortedKeys(m map[string]int64) []string {
	var ks []string
	for k := range m {
		ks = append(ks, k)
	}
	slices.Sort(ks)
	return ks
}

func attrByName(n string) transaction.AttrType {
	switch n {
	case "high":
		return transaction.HighPriority
	case "oracle":
		return transaction.OracleResponseT
	case "nvb":
		return transaction.NotValidBeforeT
	case "conflicts":
		return transaction.ConflictsT
	case "notary":
		return transaction.NotaryAssistedT
	}
	panic("attr " + n)
}

// prepTx builds a preparation transaction with the executor (system fee by test invocation) valid for a few blocks.
func (w *World) prepTx(signers []neotest.Signer, h util.Uint160, method string, args ...any) *transaction.Transaction {
	tx := w.e.NewUnsignedTx(w.t, h, method, args...)
	tx.ValidUntilBlock = w.bc.BlockHeight() + 20
	tx.NetworkFee = gas // on top of what the fee calculator adds: the preparation must not depend on its exactness
	// explicit, generous system fee: a test invocation would be capped by the (possibly tiny) block system fee limit
	return w.e.SignTx(w.t, tx, 4*gas, signers...)
}

// AddBlock makes a block of txs on the node under test and feeds its wire form to the replica.
func (w *World) prepTxFee(sysfee int64, signers []neotest.Signer, h util.Uint160, method string, args ...any) *transaction.Transaction {
	tx := w.e.NewUnsignedTx(w.t, h, method, args...)
	tx.ValidUntilBlock = w.bc.BlockHeight() + 20
	tx.NetworkFee = gas
	return w.e.SignTx(w.t, tx, sysfee, signers...)
}

func nefBytes(t testing.TB, c *neotest.Contract) []byte {
	b, err := c.NEF.Bytes()
	if err != nil {
		t.Fatal(err)
	}
	return b
}

func manifestBytes(t testing.TB, c *neotest.Contract) []byte {
	b, err := json.Marshal(c.Manifest)
	if err != nil {
		t.Fatal(err)
	}
	return b
}

func (w *World) AddBlock(txs ...*transaction.Transaction) { w.addBlock(true, txs...) }

func (w *World) addBlock(mustHalt bool, txs ...*transaction.Transaction) {
	b, err := w.net.NewBlock(w.bc, 1, txs...)
	if err != nil {
		w.t.Fatal(err)
	}
	raw, err := chainkit.EncodeBlock(b)
	if err != nil {
		w.t.Fatal(err)
	}
	w.raws = append(w.raws, raw)
	for _, bc := range []*core.Blockchain{w.bc, w.rep} {
		d, err := chainkit.DecodeBlock(raw, w.P.SRIH)
		if err != nil {
			w.t.Fatal(err)
		}
		if err := bc.AddBlock(d); err != nil {
			w.t.Fatalf("preparation block %d rejected: %v", b.Index, err)
		}
	}
	for _, tx := range txs {
		if !mustHalt {
			break
		}
		aer, err := w.bc.GetAppExecResults(tx.Hash(), trigger.Application)
		if err != nil || len(aer) == 0 || aer[0].VMState.String() != "HALT" {
			w.t.Fatalf("preparation tx %s in block %d did not HALT: %v %v", tx.Hash().StringLE(), b.Index, err, aer)
		}
	}
}

func (w *World) invoke(h util.Uint160, method string, args ...any) stackitem.Item {
	tx := w.e.NewUnsignedTx(w.t, h, method, args...)
	tx.Signers = []transaction.Signer{{Account: w.e.Validator.ScriptHash(), Scopes: transaction.None}}
	v, err := w.e.TestInvoke(tx)
	if err != nil {
		w.t.Fatalf("%s: %v", method, err)
	}
	return v.Estack().Pop().Item()
}

func (w *World) invokeInt(h util.Uint160, method string, args ...any) int64 {
	i, err := w.invoke(h, method, args...).TryInteger()
	if err != nil {
		w.t.Fatal(err)
	}
	return i.Int64()
}

func (w *World) invokeBool(h util.Uint160, method string, args ...any) bool {
	b, err := w.invoke(h, method, args...).TryBool()
	if err != nil {
		w.t.Fatal(err)
	}
	return b
}

// scanNamed reads every block not scanned yet and indexes the Conflicts attributes of on-chain transactions.
func (w *World) scanNamed() {
	w.mu.Lock()
	defer w.mu.Unlock()
	for h := w.scanned + 1; h <= w.bc.BlockHeight(); h++ {
		b, err := w.bc.GetBlock(w.bc.GetHeaderHash(h))
		if err != nil {
			w.t.Fatal(err)
		}
		for _, tx := range b.Transactions {
			for _, a := range tx.GetAttributes(transaction.ConflictsT) {
				var ss []util.Uint160
				for _, s := range tx.Signers {
					ss = append(ss, s.Account)
				}
				nh := a.Value.(*transaction.Conflicts).Hash
				w.named[nh] = append(w.named[nh], ss)
			}
		}
		w.scanned = h
	}
}

func (w *World) namedBy(tx *transaction.Transaction) string {
	w.mu.Lock()
	defer w.mu.Unlock()
	lists := w.named[tx.Hash()]
	if len(lists) == 0 {
		return "none"
	}
	for _, l := range lists {
		for _, s := range tx.Signers {
			if slices.Contains(l, s.Account) {
				return "signer"
			}
		}
	}
	return "other"
}

func (w *World) balance(primary, secondary util.Uint160) *big.Int {
	return w.bc.GetUtilityTokenBalance(primary, secondary)
}

var _ = native.CreateOracleResponseScript
