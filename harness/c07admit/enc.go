package c07admit

import (
	"strings"

	"github.com/nspcc-dev/neo-go/pkg/core/transaction"
	"github.com/nspcc-dev/neo-go/pkg/io"
)

// Encoding variants of one and the same transaction content.  "canon" is what EncodeBinary produces; the
// others write ONE length / count field as a non-minimal var-int ("<field>_<width>", width fd|fe|ff) or the
// boolean of a witness condition as a byte other than 0/1 ("boolbyte").  Fields: nsigners, nattrs, scriptlen,
// rulecount (rules of the signer that carries Rules scope) lie inside the signed part; nwit, invlen, verlen
// (first witness) lie outside.
//
// form is the way the container is deliberately malformed ("ok" = not at all).
type encSpec struct {
	enc        string
	form       string
	ruleSigner int // index of the signer whose Rules are encoded by hand (-1: none)
}

func (s encSpec) field() (string, string) {
	if i := strings.IndexByte(s.enc, '_'); i > 0 {
		return s.enc[:i], s.enc[i+1:]
	}
	return s.enc, ""
}

func writeVarNC(w *io.BinWriter, v uint64, width string) {
	switch width {
	case "fd":
		w.WriteB(0xfd)
		w.WriteU16LE(uint16(v))
	case "fe":
		w.WriteB(0xfe)
		w.WriteU32LE(uint32(v))
	case "ff":
		w.WriteB(0xff)
		w.WriteU64LE(v)
	default:
		w.WriteVarUint(v)
	}
}

func (s encSpec) varint(w *io.BinWriter, name string, v uint64) {
	f, width := s.field()
	if f == name {
		writeVarNC(w, v, width)
		return
	}
	w.WriteVarUint(v)
}

// encodeTx serialises tx according to the variant.  The signer with index ruleSigner must have exactly the
// Rules scope and its first rule must be {Allow, Boolean(true)} when the variant touches the rules.
func encodeTx(tx *transaction.Transaction, s encSpec) []byte {
	w := io.NewBufBinWriter()
	bw := w.BinWriter
	f, _ := s.field()
	if s.form == "version" {
		bw.WriteB(1)
	} else {
		bw.WriteB(tx.Version)
	}
	bw.WriteU32LE(tx.Nonce)
	if s.form == "negsysfee" {
		bw.WriteU64LE(^uint64(0))
	} else {
		bw.WriteU64LE(uint64(tx.SystemFee))
	}
	bw.WriteU64LE(uint64(tx.NetworkFee))
	bw.WriteU32LE(tx.ValidUntilBlock)
	signers := tx.Signers
	scripts := tx.Scripts
	switch s.form {
	case "nosigner":
		signers, scripts = nil, nil
	case "dupsigner":
		signers = append(append([]transaction.Signer{}, signers...), signers[len(signers)-1])
		scripts = append(append([]transaction.Witness{}, scripts...), scripts[len(scripts)-1])
	case "witcount":
		scripts = append(append([]transaction.Witness{}, scripts...), scripts[len(scripts)-1])
	}
	s.varint(bw, "nsigners", uint64(len(signers)))
	for i := range signers {
		if i == s.ruleSigner && (f == "rulecount" || f == "boolbyte") {
			sg := &signers[i]
			bw.WriteBytes(sg.Account[:])
			bw.WriteB(byte(sg.Scopes))
			s.varint(bw, "rulecount", uint64(len(sg.Rules)))
			for j := range sg.Rules {
				if j == 0 && f == "boolbyte" {
					bw.WriteB(byte(transaction.WitnessAllow))
					bw.WriteB(byte(transaction.WitnessBoolean))
					bw.WriteB(2)
					continue
				}
				sg.Rules[j].EncodeBinary(bw)
			}
			continue
		}
		signers[i].EncodeBinary(bw)
	}
	nattr := len(tx.Attributes)
	if s.form == "attrtype" {
		nattr++
	}
	s.varint(bw, "nattrs", uint64(nattr))
	for i := range tx.Attributes {
		tx.Attributes[i].EncodeBinary(bw)
	}
	if s.form == "attrtype" {
		bw.WriteB(0x55) // not a defined attribute type, not in the reserved range
	}
	script := tx.Script
	if s.form == "emptyscript" {
		script = nil
	}
	s.varint(bw, "scriptlen", uint64(len(script)))
	bw.WriteBytes(script)
	s.varint(bw, "nwit", uint64(len(scripts)))
	for i := range scripts {
		if i == 0 {
			s.varint(bw, "invlen", uint64(len(scripts[i].InvocationScript)))
			bw.WriteBytes(scripts[i].InvocationScript)
			s.varint(bw, "verlen", uint64(len(scripts[i].VerificationScript)))
			bw.WriteBytes(scripts[i].VerificationScript)
			continue
		}
		scripts[i].EncodeBinary(bw)
	}
	if s.form == "trailing" {
		bw.WriteB(0)
	}
	if w.Err != nil {
		panic(w.Err)
	}
	return w.Bytes()
}
