package c07admit

import (
	"encoding/binary"
	"errors"
	"fmt"

	"github.com/nspcc-dev/neo-go/pkg/core"
	"github.com/nspcc-dev/neo-go/pkg/core/fee"
	"github.com/nspcc-dev/neo-go/pkg/core/mempool"
	"github.com/nspcc-dev/neo-go/pkg/core/native"
	"github.com/nspcc-dev/neo-go/pkg/core/native/nativehashes"
	"github.com/nspcc-dev/neo-go/pkg/core/transaction"
	"github.com/nspcc-dev/neo-go/pkg/crypto/hash"
	"github.com/nspcc-dev/neo-go/pkg/crypto/keys"
	"github.com/nspcc-dev/neo-go/pkg/util"
	"github.com/nspcc-dev/neo-go/pkg/vm/opcode"
	"github.com/nspcc-dev/neo-go/pkg/wallet"
)

// Cell is one symbolic transaction of spec/admission/AdmissionCases.tla.
type Cell struct {
	Form    string `json:"form"`
	Script  string `json:"script"`
	Vub     string `json:"vub"`
	Chain   string `json:"chain"`
	Blocked string `json:"blocked"`
	Sysfee  string `json:"sysfee"`
	Attr    string `json:"attr"`
	Size    string `json:"size"`
	D       string `json:"d"`
	Wit     string `json:"wit"`
	Cos     string `json:"cos"`
	Wval    string `json:"wval"`
	Wat     string `json:"wat"`
	Bal     string `json:"bal"`
	Enc     string `json:"enc"`
}

// Row is a cell with what the specification says about it.
type Row struct {
	Cell     Cell     `json:"cell"`
	Defects  []string `json:"defects"`
	Outcome  string   `json:"outcome"`
	Err      string   `json:"err"`
	Std      bool     `json:"std"`
	HashedNC bool     `json:"hashednc"`
}

func walletOf(k *keys.PrivateKey) *wallet.Account { return wallet.NewAccountFromPrivateKey(k) }

var (
	notaryAcct = &acct{name: "Notary", kind: "notary", h: nativehashes.Notary}
	oracleAcct = &acct{name: "Oracle", kind: "oraclec", h: nativehashes.OracleContract}
)

func isStdKind(k string) bool { return k == "sig" || k == "ms" || k == "committee" }

func sigPush(sig []byte) []byte {
	return append([]byte{byte(opcode.PUSHDATA1), 64}, sig...)
}

// witnessFor produces the witness of account a for the parsed transaction p (nil: same shape, zero signatures).
// wval is the way the witness is deliberately broken ("ok": not at all).
func (w *World) witnessFor(a *acct, p *transaction.Transaction, wval string) transaction.Witness {
	sign := func(k *keys.PrivateKey) []byte {
		if p == nil {
			return make([]byte, 64)
		}
		switch wval {
		case "badsig": // the right key signs something else
			return k.SignHash(hash.Sha256([]byte("something else")))
		case "wrongkey":
			return w.acc["ALT"].keys[0].SignHashable(uint32(w.net.Magic), p)
		}
		return k.SignHashable(uint32(w.net.Magic), p)
	}
	switch a.kind {
	case "sig", "ms":
		src := a
		if wval == "hashmismatch" { // a perfectly valid witness of somebody else
			src = w.acc["ALT"]
			if a.kind == "ms" {
				src = w.acc["alt_ms"]
			}
		}
		n := src.m
		if wval == "fewsigs" {
			n--
		}
		var sigs [][]byte
		for i := 0; i < n; i++ {
			sigs = append(sigs, sigPush(sign(src.keys[i])))
		}
		if wval == "sigorder" {
			sigs[0], sigs[len(sigs)-1] = sigs[len(sigs)-1], sigs[0]
		}
		var inv []byte
		if wval == "extra" {
			inv = append(inv, byte(opcode.PUSH1))
		}
		for _, s := range sigs {
			inv = append(inv, s...)
		}
		if wval == "noinv" {
			inv = []byte{}
		}
		return transaction.Witness{InvocationScript: inv, VerificationScript: src.ver}
	case "committee":
		var inv []byte
		for k := 0; k < 4; k++ { // 4 of 6
			inv = append(inv, sigPush(make([]byte, 64))...)
		}
		if p != nil {
			inv = w.net.CommitteeSigner().SignHashable(uint32(w.net.Magic), p)
		}
		return transaction.Witness{InvocationScript: inv, VerificationScript: a.ver}
	case "contract":
		inv := []byte{}
		if a.arg {
			inv = []byte{byte(opcode.PUSHT)}
			if wval == "cfalse" {
				inv = []byte{byte(opcode.PUSHF)}
			}
		}
		return transaction.Witness{InvocationScript: inv, VerificationScript: []byte{}}
	case "script":
		return transaction.Witness{InvocationScript: []byte{}, VerificationScript: a.ver}
	case "notary":
		sig := make([]byte, 64)
		if p != nil {
			sig = w.nk.SignHashable(uint32(w.net.Magic), p)
		}
		return transaction.Witness{InvocationScript: sigPush(sig), VerificationScript: []byte{}}
	case "oraclec":
		return transaction.Witness{InvocationScript: []byte{}, VerificationScript: []byte{}}
	}
	panic("kind " + a.kind)
}

func (w *World) acctForKind(k string, cos bool) *acct {
	switch k {
	case "none":
		return nil
	case "sig":
		if cos {
			return w.acc["A1"]
		}
		return w.acc["A0"]
	case "ms23":
		if cos {
			return w.acc["cos_ms23"]
		}
		return w.acc["ms23"]
	case "cver":
		if cos {
			return w.acc["cver2"]
		}
		return w.acc["cver"]
	case "carg", "any":
		return w.acc[k]
	}
	if a, ok := w.acc[k]; ok {
		return a
	}
	panic("witness kind " + k)
}

var padRule = func() transaction.WitnessRule {
	var and transaction.ConditionAnd
	for i := 0; i < 16; i++ {
		var or transaction.ConditionOr
		for j := 0; j < 16; j++ {
			h := transaction.ConditionScriptHash(util.Uint160{byte(i), byte(j), 7})
			or = append(or, &h)
		}
		and = append(and, &or)
	}
	return transaction.WitnessRule{Action: transaction.WitnessAllow, Condition: &and}
}()

func goodScript(pad int) []byte {
	s := []byte{byte(opcode.PUSHDATA2), 0, 0}
	binary.LittleEndian.PutUint16(s[1:], uint16(pad))
	s = append(s, make([]byte, pad)...)
	return append(s, byte(opcode.DROP), byte(opcode.RET))
}

func badTail(kind string) []byte {
	switch kind {
	case "badop":
		return []byte{0xff}
	case "trunc":
		return []byte{byte(opcode.PUSHDATA1), 200, 1}
	case "badjump":
		return []byte{byte(opcode.JMP), 0x7f}
	case "midjump": // lands inside the operand of the next instruction
		return []byte{byte(opcode.JMP), 3, byte(opcode.PUSHINT16), 0, 0, byte(opcode.DROP)}
	case "badtype":
		return []byte{byte(opcode.PUSH1), byte(opcode.CONVERT), 0x77}
	}
	return nil
}

// Built is a realised cell.
type Built struct {
	Cell     Cell
	Idx      int
	Raw      []byte
	Parsed   bool
	ParseErr string
	Facts    map[string]any
	Std      bool
	Tx       *transaction.Transaction // parsed from Raw (nil if it does not parse)
	Info     map[string]any
	Accts    []*acct
}

// BuildOpts overrides what a cell leaves to the harness.
type BuildOpts struct {
	Sender          *acct         // replaces the sender account
	SysFee          int64         // system fee (when the cell does not determine it)
	SysFeeSet       bool          // SysFee is meant even if zero
	ConflictHash    *util.Uint256 // what the first Conflicts attribute names
	TargetSize      int           // exact serialized size wanted (overrides the size class)
	ExtraFee        int64         // added to the network fee (priority in the pool)
	ExtraFeePerByte int64         // added to the network fee per byte of the received size
}

func clip(v int64) int64 {
	if v > 100000 {
		return 100000
	}
	if v < -100000 {
		return -100000
	}
	return v
}

// Build realises cell c as a concrete transaction to be offered at height h (the height the chain has, or will
// have, when the transaction is offered).
func (w *World) Build(c Cell, idx int, h uint32, opts ...BuildOpts) (*Built, error) {
	b := &Built{Cell: c, Idx: idx, Info: map[string]any{}}
	var opt BuildOpts
	if len(opts) > 0 {
		opt = opts[0]
	}
	// --- signers
	sender, cos := w.acctForKind(c.Wit, false), w.acctForKind(c.Cos, true)
	if opt.Sender != nil {
		sender = opt.Sender
	}
	if c.Blocked == "sender" {
		sender = w.acc["X"]
	}
	if c.Sysfee != "ok" {
		sender = w.acc["W"]
	}
	if c.Blocked == "cosigner" {
		cos = w.acc["X"]
	}
	repl := map[string]string{"cunknown": "cunknown", "cnoverify": "cnover", "cfault": "cfault", "badverscript": "badver"}
	if r, ok := repl[c.Wval]; ok {
		if c.Wat == "1" {
			sender = w.acc[r]
		} else {
			cos = w.acc[r]
		}
	}
	accts := []*acct{sender}
	if cos != nil {
		accts = append(accts, cos)
	}
	scopes := map[int]transaction.WitnessScope{}
	isOracle := len(c.Attr) >= 6 && c.Attr[:6] == "oracle"
	switch {
	case c.Attr == "high" || c.Form == "dupattr":
		accts = append(accts, w.acc["committee"])
	case c.Attr == "notary":
		accts = append(accts, notaryAcct)
		scopes[len(accts)-1] = transaction.None
	case c.Attr == "notarysender":
		accts = []*acct{notaryAcct, w.acc["ND"]}
		scopes[0] = transaction.None
	case c.Attr == "notary_sender3":
		accts = []*acct{notaryAcct, w.acc["ND"], w.acc["A1"]}
		scopes[0] = transaction.None
	case isOracle:
		second := w.oracleMS
		if c.Attr == "oracle_nosigner" {
			second = w.acc["A1"]
		}
		accts = []*acct{oracleAcct, second}
		scopes[0], scopes[1] = transaction.None, transaction.None
		if c.Attr == "oracle_scope" {
			scopes[1] = transaction.CalledByEntry
		}
	}
	b.Accts = accts
	ruleSigner := -1
	for i := range accts {
		if _, fixed := scopes[i]; !fixed {
			ruleSigner = i
			break
		}
	}
	encField, _ := encSpec{enc: c.Enc}.field()
	// --- attributes
	var attrs []transaction.Attribute
	rh := func(k byte) util.Uint256 {
		if k == 1 && opt.ConflictHash != nil {
			return *opt.ConflictHash
		}
		return hash.Sha256([]byte(fmt.Sprintf("c07-conflict-%d-%d", idx, k)))
	}
	switch c.Attr {
	case "high", "high_nocommittee":
		attrs = append(attrs, transaction.Attribute{Type: transaction.HighPriority})
	case "nvb":
		attrs = append(attrs, transaction.Attribute{Type: transaction.NotValidBeforeT, Value: &transaction.NotValidBefore{Height: 1}})
	case "nvbnow":
		attrs = append(attrs, transaction.Attribute{Type: transaction.NotValidBeforeT, Value: &transaction.NotValidBefore{Height: h}})
	case "nvb_future":
		attrs = append(attrs, transaction.Attribute{Type: transaction.NotValidBeforeT, Value: &transaction.NotValidBefore{Height: h + 1}})
	case "conflicts":
		attrs = append(attrs, transaction.Attribute{Type: transaction.ConflictsT, Value: &transaction.Conflicts{Hash: rh(1)}})
	case "conflicts2":
		attrs = append(attrs, transaction.Attribute{Type: transaction.ConflictsT, Value: &transaction.Conflicts{Hash: rh(1)}},
			transaction.Attribute{Type: transaction.ConflictsT, Value: &transaction.Conflicts{Hash: rh(2)}})
	case "conflicts_dup":
		attrs = append(attrs, transaction.Attribute{Type: transaction.ConflictsT, Value: &transaction.Conflicts{Hash: rh(1)}},
			transaction.Attribute{Type: transaction.ConflictsT, Value: &transaction.Conflicts{Hash: rh(1)}})
	case "conflicts_onchain":
		attrs = append(attrs, transaction.Attribute{Type: transaction.ConflictsT, Value: &transaction.Conflicts{Hash: w.onchain}})
	case "notary", "notary_nosigner", "notarysender", "notary_sender3":
		attrs = append(attrs, transaction.Attribute{Type: transaction.NotaryAssistedT, Value: &transaction.NotaryAssisted{NKeys: 1}})
	case "reserved":
		attrs = append(attrs, transaction.Attribute{Type: transaction.ReservedLowerBound, Value: &transaction.Reserved{Value: []byte{1, 2, 3}}})
	}
	if isOracle {
		id := uint64(idx % w.nreq)
		if c.Attr == "oracle_noreq" {
			id = 999999
		}
		attrs = append(attrs, transaction.Attribute{Type: transaction.OracleResponseT,
			Value: &transaction.OracleResponse{ID: id, Code: transaction.Success, Result: []byte("verif")}})
	}
	switch c.Form {
	case "dupattr":
		attrs = append(attrs, transaction.Attribute{Type: transaction.HighPriority}, transaction.Attribute{Type: transaction.HighPriority})
	case "manyattrs":
		for k := 0; k < 16; k++ {
			attrs = append(attrs, transaction.Attribute{Type: transaction.ConflictsT, Value: &transaction.Conflicts{Hash: rh(byte(10 + k))}})
		}
	}
	var attrFee int64
	for _, a := range attrs {
		base := w.attrFee[a.Type]
		switch a.Type {
		case transaction.ConflictsT:
			attrFee += base * int64(len(accts))
		case transaction.NotaryAssistedT:
			attrFee += base * int64(a.Value.(*transaction.NotaryAssisted).NKeys+1)
		default:
			attrFee += base
		}
	}
	// --- the content, assembled for a given padding
	target := map[string]int{"small": 0, "mid": 30000, "max": transaction.MaxTransactionSize, "over": transaction.MaxTransactionSize + 1}[c.Size]
	if opt.TargetSize > 0 {
		target = opt.TargetSize
	}
	spec := encSpec{enc: c.Enc, form: c.Form, ruleSigner: ruleSigner}
	vub := map[string]uint32{"expired": h, "lo": h + 1, "mid": h + 10, "hi": h + w.bc.GetMaxValidUntilBlockIncrement(),
		"far": h + w.bc.GetMaxValidUntilBlockIncrement() + 1}[c.Vub]
	assemble := func(pad, nrules int, netfee, sysfee int64, p *transaction.Transaction) *transaction.Transaction {
		var script []byte
		if isOracle {
			script = native.CreateOracleResponseScript(nativehashes.OracleContract)
			if c.Attr == "oracle_script" {
				script = append(script, byte(opcode.NOP))
			}
		} else {
			script = append(goodScript(pad), badTail(c.Script)...)
		}
		tx := transaction.New(script, sysfee)
		tx.Nonce = uint32(idx) + 1000
		tx.NetworkFee = netfee
		tx.ValidUntilBlock = vub
		tx.Attributes = attrs
		for i, a := range accts {
			sg := transaction.Signer{Account: a.h, Scopes: transaction.CalledByEntry}
			if s, ok := scopes[i]; ok {
				sg.Scopes = s
			}
			if i == ruleSigner && (nrules > 0 || encField == "rulecount" || encField == "boolbyte") {
				t := transaction.ConditionBoolean(true)
				sg.Scopes = transaction.Rules
				sg.Rules = []transaction.WitnessRule{{Action: transaction.WitnessAllow, Condition: &t}}
				for k := 0; k < nrules; k++ {
					sg.Rules = append(sg.Rules, padRule)
				}
			}
			tx.Signers = append(tx.Signers, sg)
			wv := "ok"
			if (c.Wat == "1" && i == 0) || (c.Wat == "2" && i == 1) {
				wv = c.Wval
			}
			tx.Scripts = append(tx.Scripts, w.witnessFor(a, p, wv))
		}
		return tx
	}
	pad, nrules := 0, 0
	if target > 0 {
		const ruleLen = 5411
		l0 := len(encodeTx(assemble(0, 0, 0, 0, nil), encSpec{enc: "canon", form: c.Form, ruleSigner: -1}))
		if need := target - l0 - 65000; need > 0 {
			nrules = (need + ruleLen - 1) / ruleLen
		}
		if nrules > 0 && ruleSigner < 0 {
			return nil, fmt.Errorf("cannot pad a transaction without a free signer")
		}
		pad = 1000
		for try := 0; ; try++ {
			// the size of a transaction is the length of its (canonical) encoding, however it arrived
			l := len(encodeTx(assemble(pad, nrules, 0, 0, nil), encSpec{enc: "canon", form: c.Form, ruleSigner: -1}))
			if l == target {
				break
			}
			pad += target - l
			if pad < 0 || pad > 65530 || try > 6 {
				return nil, fmt.Errorf("cannot pad to %d (pad %d rules %d)", target, pad, nrules)
			}
		}
	}
	// --- fees
	probe := assemble(pad, nrules, 0, 0, nil)
	sizeRecv := int64(len(encodeTx(probe, spec)))
	sizeCanon := int64(len(encodeTx(probe, encSpec{enc: "canon", form: c.Form, ruleSigner: -1})))
	// the size the node itself attributes to what it receives (read from the real object: the fee cells are placed
	// relative to it)
	sizeNode := sizeRecv
	if pp, err := transaction.NewTransactionFromBytes(encodeTx(probe, spec)); err == nil {
		sizeNode = int64(pp.Size())
	}
	std := true
	var wcost, rpcCost int64
	exec := w.bc.GetBaseExecFee()
	for i, a := range accts {
		if isStdKind(a.kind) {
			f, _ := fee.Calculate(exec, probe.Scripts[i].VerificationScript)
			wcost += f
			// second source, the logic of the calculatenetworkfee RPC: run the witness (dummy signatures) and take the gas
			if c.Wval == "ok" {
				g, _ := w.bc.VerifyWitness(a.h, probe, &probe.Scripts[i], w.bc.GetMaxVerificationGAS())
				rpcCost += g
			} else {
				rpcCost += f
			}
			continue
		}
		std = false
		g, _ := w.bc.VerifyWitness(a.h, probe, &probe.Scripts[i], w.bc.GetMaxVerificationGAS())
		wcost += g
		rpcCost += g
	}
	b.Std = std
	d := map[string]int64{"m1": -1, "0": 0, "p1": 1}[c.D]
	margin := int64(0)
	if c.Wval == "extra" || c.Attr == "reserved" {
		margin = 100000
	}
	if c.Form != "ok" { // should the container be let through, nothing else must stand in its way
		margin = gas
	}
	netfee := sizeNode*w.fpb + attrFee + wcost + d + margin + opt.ExtraFee + opt.ExtraFeePerByte*sizeNode
	sysfee := int64(100_0000)
	if opt.SysFee > 0 || opt.SysFeeSet {
		sysfee = opt.SysFee
	}
	payer, second := accts[0].h, util.Uint160{}
	if len(accts) > 1 {
		second = accts[1].h
	}
	bal := w.balance(payer, second).Int64()
	switch {
	case isOracle:
		sysfee = w.gasFor - netfee
		if c.Attr == "oracle_gas" {
			sysfee--
		}
	case c.Sysfee == "limit":
		sysfee = w.bc.GetConfig().MaxBlockSystemFee
	case c.Sysfee == "over":
		sysfee = w.bc.GetConfig().MaxBlockSystemFee + 1
	case c.Bal == "exact":
		sysfee = bal - netfee
	case c.Bal == "short":
		sysfee = bal - netfee + 1
	}
	if sysfee < 0 {
		return nil, fmt.Errorf("negative system fee %d", sysfee)
	}
	// --- parse what peers would receive, sign the identity the node derives from it, encode again
	raw0 := encodeTx(assemble(pad, nrules, netfee, sysfee, nil), spec)
	p0, err := transaction.NewTransactionFromBytes(raw0)
	b.Raw = raw0
	if err == nil {
		b.Raw = encodeTx(assemble(pad, nrules, netfee, sysfee, p0), spec)
		b.Tx, err = transaction.NewTransactionFromBytes(b.Raw)
	}
	b.Parsed = err == nil
	if err != nil {
		b.ParseErr = err.Error()
	}
	// --- facts, read back from the real objects wherever there is something to read
	f := map[string]any{"form": c.Form, "script": c.Script, "inc": w.bc.GetMaxValidUntilBlockIncrement(),
		"attr": "ok", "wval": c.Wval, "enc": c.Enc, "std": std, "maxsize": transaction.MaxTransactionSize,
		"vubrel": int64(vub) - int64(h), "dup": false, "namedby": "none", "blocked": false, "sysover": false,
		"size": sizeRecv, "baseslack": clip(netfee - (sizeCanon*w.fpb + attrFee)), "slack": clip(netfee - (sizeCanon*w.fpb + attrFee + wcost)),
		"balslack": clip(bal - netfee - sysfee), "recvslack": clip(netfee - (sizeNode*w.fpb + attrFee + wcost))}
	if isBadAttr(c.Attr) {
		f["attr"] = c.Attr
	}
	// (defaults from the intended content; replaced below by what the parsed transaction says, if it parses)
	f["sysover"] = sysfee > w.bc.GetConfig().MaxBlockSystemFee
	for _, a := range accts {
		if w.blockedAcc[a.h] {
			f["blocked"] = true
		}
	}
	if b.Tx != nil {
		tx := b.Tx
		f["vubrel"] = int64(tx.ValidUntilBlock) - int64(h)
		f["size"] = tx.Size()
		f["sysover"] = tx.SystemFee > w.bc.GetConfig().MaxBlockSystemFee
		for _, s := range tx.Signers {
			if w.blockedAcc[s.Account] {
				f["blocked"] = true
			}
		}
		f["balslack"] = clip(bal - tx.NetworkFee - tx.SystemFee)
		b.Info["hash"] = tx.Hash().StringLE()
		b.Info["netfee"] = tx.NetworkFee
		b.Info["sysfee"] = tx.SystemFee
		b.Info["nsigners"] = len(tx.Signers)
	}
	b.Facts = f
	b.Info["size_recv"], b.Info["size_canon"], b.Info["wcost"], b.Info["attrfee"] = sizeRecv, sizeCanon, wcost, attrFee
	b.Info["size_node"] = sizeNode
	b.Info["rpc_wcost"], b.Info["attrfee_node"] = rpcCost, w.bc.CalculateAttributesFee(probe)
	f["feesources"] = rpcCost == wcost && attrFee == w.bc.CalculateAttributesFee(probe)
	return b, nil
}

func isBadAttr(a string) bool {
	switch a {
	case "high_nocommittee", "nvb_future", "conflicts_dup", "conflicts_onchain", "notary_nosigner", "notary_sender3", "reserved",
		"oracle_scope", "oracle_nosigner", "oracle_script", "oracle_noreq", "oracle_gas":
		return true
	}
	return false
}

// chainFacts fills the facts that depend on the ledger at the moment of the offer.
func (w *World) chainFacts(b *Built) {
	if b.Tx == nil {
		return
	}
	if _, _, err := w.bc.GetTransaction(b.Tx.Hash()); err == nil {
		b.Facts["dup"] = true
	}
	b.Facts["namedby"] = w.namedBy(b.Tx)
}

func errClass(err error) string {
	switch {
	case err == nil:
		return "ok"
	case errors.Is(err, core.ErrInvalidScript):
		return "script"
	case errors.Is(err, core.ErrTxExpired):
		return "expired"
	case errors.Is(err, core.ErrTxNotYetValid):
		return "notyet"
	case errors.Is(err, core.ErrPolicy):
		return "policy"
	case errors.Is(err, core.ErrTxTooBig):
		return "toobig"
	case errors.Is(err, core.ErrTxSmallNetworkFee):
		return "smallfee"
	case errors.Is(err, core.ErrAlreadyExists):
		return "exists"
	case errors.Is(err, core.ErrHasConflicts):
		return "conflicts"
	case errors.Is(err, core.ErrInvalidAttribute):
		return "attr"
	case errors.Is(err, core.ErrInsufficientFunds):
		return "funds"
	case errors.Is(err, core.ErrWitnessHashMismatch), errors.Is(err, core.ErrVerificationFailed), errors.Is(err, core.ErrUnknownVerificationContract),
		errors.Is(err, core.ErrInvalidVerificationContract), errors.Is(err, core.ErrInvalidVerificationScript),
		errors.Is(err, core.ErrInvalidInvocationScript), errors.Is(err, core.ErrNativeContractWitness):
		return "witness"
	}
	return "other"
}

// Offer submits a built cell the way a peer / RPC client would and returns the trace event.
func (w *World) Offer(b *Built, row *Row) (ev map[string]any, paniced any) {
	w.chainFacts(b)
	obs := map[string]any{"parsed": b.Parsed, "poolok": false, "verifyok": false, "inpool": false, "poolerr": "parse", "verifyerr": "parse"}
	if b.Parsed {
		func() {
			defer func() { paniced = recover() }()
			pool := mempool.New(4, false, nil)
			err := w.bc.PoolTx(b.Tx, pool)
			obs["poolok"], obs["poolerr"] = err == nil, errClass(err)
			if err != nil {
				obs["poolmsg"] = err.Error()
			}
			obs["inpool"] = pool.ContainsKey(b.Tx.Hash())
			t2, err := transaction.NewTransactionFromBytes(b.Raw)
			if err != nil {
				panic("second parse failed: " + err.Error())
			}
			err = w.bc.VerifyTx(t2)
			obs["verifyok"], obs["verifyerr"] = err == nil, errClass(err)
		}()
	} else {
		obs["poolmsg"] = b.ParseErr
	}
	// the trace event carries what the specification needs; cell and info go to the side file (same line number)
	ev = map[string]any{"event": "admit", "world": w.P.Name, "idx": b.Idx, "f": b.Facts, "o": obs,
		"detail": map[string]any{"cell": b.Cell, "info": b.Info, "err": row.Err}}
	ev["want"] = map[string]any{"defects": row.Defects, "outcome": row.Outcome}
	if row.Defects == nil {
		ev["want"].(map[string]any)["defects"] = []string{}
	}
	return ev, paniced
}
