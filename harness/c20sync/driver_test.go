// Driver for the state-synchronisation half of C20: a real sink node (statesync.Module on a real Blockchain) is
// fed a real source chain's headers, trie nodes and blocks following TLC delivery schedules of StateSync.tla
// (any order, batching, duplicates, junk, restarts), then both chains get the same further blocks.
package c20sync

import (
	"bytes"
	"fmt"
	"math/rand"
	"os"
	"path/filepath"
	"sort"
	"strings"
	"testing"

	"verifharness/internal/chainkit"
	"verifharness/internal/histgen"
	"verifharness/internal/vh"

	"github.com/nspcc-dev/neo-go/pkg/config"
	"github.com/nspcc-dev/neo-go/pkg/core"
	"github.com/nspcc-dev/neo-go/pkg/core/block"
	"github.com/nspcc-dev/neo-go/pkg/core/mpt"
	"github.com/nspcc-dev/neo-go/pkg/core/native/nativenames"
	"github.com/nspcc-dev/neo-go/pkg/core/storage"
	"github.com/nspcc-dev/neo-go/pkg/core/storage/dbconfig"
	"github.com/nspcc-dev/neo-go/pkg/core/transaction"
	"github.com/nspcc-dev/neo-go/pkg/neotest"
	"github.com/nspcc-dev/neo-go/pkg/util"
)

type step struct {
	Op    string `json:"op"`    // headers | nodes | mixednodes | blocks | restart | junknode | junkheader | junkblock | dupnodes
	N     int    `json:"n"`     // batch size
	Order string `json:"order"` // asc | desc | rnd (which of the requested nodes come first)
}

type noClose struct{ storage.Store }

func (noClose) Close() error { return nil }

type world struct {
	t               *testing.T
	net             *chainkit.Net
	ssi             uint32
	mtb             uint32
	src             *core.Blockchain
	gen             *histgen.Gen
	blocks          []*block.Block // index h-1
	raw             [][]byte
	N, P            uint32
	nodes           map[util.Uint256][]byte
	flatP           [][3]string // source storage dump at height P
	digests         []chainkit.Digest
	dir             string
	finding         string       // "" ordinary world; otherwise the scripted scenario of a listed (known) finding
	probeTx, probed util.Uint256 // txvmstate world: the probing transaction and the transaction it asks about
}

func (w *world) protocol(c *config.Blockchain) {
	c.StateRootInHeader = true
	c.P2PStateExchangeExtensions = true
	c.StateSyncInterval = int(w.ssi)
	c.MaxTraceableBlocks = w.mtb
	c.MaxValidUntilBlockIncrement = w.mtb / 2
}

func (w *world) sinkHook(c *config.Blockchain) {
	w.protocol(c)
	c.Ledger.RemoveUntraceableBlocks = true
	c.Ledger.KeepOnlyLatestState = true
}

func (w *world) srcHook(c *config.Blockchain) {
	w.protocol(c)
}

func (w *world) block(h uint32) *block.Block {
	b, err := chainkit.DecodeBlock(w.raw[h-1], true)
	if err != nil {
		w.t.Fatal(err)
	}
	return b
}

// build generates the source chain up to n blocks, remembering the flat storage at the sync point.
func (w *world) build(n uint32, seed int64) error {
	var err error
	w.src, err = w.net.NewChain(nil, w.srcHook)
	if err != nil {
		return err
	}
	chainkit.Start(w.src)
	w.gen = histgen.New(w.t, w.net, w.src, seed, 8)
	w.N = n
	w.P = (n / w.ssi) * w.ssi
	// A state-synchronised node has no block below P-MaxTraceableBlocks+1 and no execution results of the blocks it
	// fetched; contracts can observe both (two listed findings). Ordinary worlds stay clear of them, two scripted
	// worlds reproduce them.
	w.gen.AvoidOldOracle, w.gen.NoVMStateProbe = true, true
	switch w.finding {
	case "txvmstate":
		w.gen.Weights = map[string]int{"gas": 1}
		w.gen.ScriptOldOracle(0) // deploy (3), designate (4), request (5, never answered)
		a := w.gen.Accts[0]
		w.gen.Script[w.P-2] = func() *transaction.Transaction {
			return w.gen.Tx([]neotest.Signer{a}, w.gen.E.NativeHash(w.t, nativenames.Gas), "transfer", a.ScriptHash(), w.gen.Accts[1].ScriptHash(), int64(7), nil)
		}
		w.gen.Script[w.P+2] = func() *transaction.Transaction {
			for i := len(w.gen.OldTxs) - 1; i >= 0; i-- {
				if h := w.gen.OldTxs[i]; w.gen.TxHeight[h] == w.P-2 && len(w.gen.KVs) > 0 {
					tx := w.gen.Tx([]neotest.Signer{a}, w.gen.KVs[0], "ledgerProbe", int64(w.P-2), h.BytesBE())
					if tx != nil {
						w.probeTx, w.probed = tx.Hash(), h
					}
					return tx
				}
			}
			return nil
		}
	case "oracle":
		w.gen.Weights = map[string]int{"gas": 1}
		w.gen.AvoidOldOracle = false
		w.gen.ScriptOldOracle(w.P + 2)
	}
	if w.finding == "" {
		// the first block after the sync point looks at the transactions of the sync point's block by position (what a
		// node that has just jumped there holds of its newest block)
		if w.gen.Script == nil {
			w.gen.Script = map[uint32]func() *transaction.Transaction{}
		}
		for _, hh := range []uint32{w.P + 1, w.P + 2} {
			at := hh
			w.gen.Script[at] = func() *transaction.Transaction {
				if len(w.gen.KVs) == 0 {
					return nil
				}
				return w.gen.Tx([]neotest.Signer{w.gen.Accts[int(at)%len(w.gen.Accts)]}, w.gen.KVs[0], "ledgerProbe3", int64(w.P), int64(at-w.P-1))
			}
		}
	}
	for h := uint32(1); h <= n; h++ {
		b, err := w.gen.NextBlock(5)
		if err != nil {
			return err
		}
		raw, err := chainkit.EncodeBlock(b)
		if err != nil {
			return err
		}
		w.raw = append(w.raw, raw)
		w.digests = append(w.digests, chainkit.Compute(w.src))
		if h == w.P {
			w.flatP = chainkit.StorageDump(w.src)
		}
	}
	root := w.block(w.P + 1).PrevStateRoot
	w.nodes = map[util.Uint256][]byte{}
	return w.src.GetStateSyncModule().Traverse(root, func(nd mpt.Node, nb []byte) bool {
		w.nodes[nd.Hash()] = bytes.Clone(nb)
		return false
	})
}

type sink struct {
	w       *world
	backend string
	mem     storage.Store
	bc      *core.Blockchain
	n       int
}

func (s *sink) open() error {
	var st storage.Store
	var err error
	switch s.backend {
	case "mem":
		if s.mem == nil {
			s.mem = noClose{storage.NewMemoryStore()}
		}
		st = s.mem
	case "bolt":
		st, err = storage.NewBoltDBStore(dbconfig.BoltDBOptions{FilePath: filepath.Join(s.w.dir, fmt.Sprintf("sink%d.bolt", s.n))})
	case "level":
		st, err = storage.NewLevelDBStore(dbconfig.LevelDBOptions{DataDirectoryPath: filepath.Join(s.w.dir, fmt.Sprintf("sink%d.level", s.n))})
	}
	if err != nil {
		return err
	}
	s.bc, err = s.w.net.NewChain(st, s.w.sinkHook)
	if err != nil {
		return err
	}
	chainkit.Start(s.bc)
	return nil
}

// guarded runs f converting a panic into an error string.
func guarded(f func() error) (err error, pan any) {
	defer func() { pan = recover() }()
	return f(), nil
}

func runWorld(t *testing.T, res *vh.Result, tr *vh.Trace, wi int, sched []step, r *rand.Rand, finding string) {
	dir, err := os.MkdirTemp(os.Getenv("VERIF_WORK"), "c20s")
	if err != nil {
		t.Fatal(err)
	}
	defer os.RemoveAll(dir)
	w := &world{t: t, net: chainkit.NewNet(5, 3), ssi: 4 + uint32(wi%3), mtb: 8 + uint32(wi%2)*4, dir: dir, finding: finding}
	n := 3*w.ssi + 2 + uint32(r.Intn(int(2*w.ssi)))
	if finding != "" {
		w.ssi, w.mtb, n = 4, 8, 31
	}
	if len(sched) > 0 && sched[0].Op == "cfg" { // replay: fixed chain length
		n = uint32(sched[0].N)
	}
	if n%w.ssi == 0 {
		n++ // the module takes the last multiple of the interval not above the remote height as sync point; headers must run beyond it
	}
	if err := w.build(n, vh.Seed()*104729+int64(wi)); err != nil {
		t.Fatalf("source: %v", err)
	}
	defer w.src.Close()
	sk := &sink{w: w, backend: []string{"mem", "bolt", "level"}[wi%3], n: wi}
	if err := sk.open(); err != nil {
		t.Fatalf("sink: %v", err)
	}
	defer func() {
		if sk.bc != nil {
			sk.bc.Close()
		}
	}()
	tr.Emit(map[string]any{"event": "init", "world": wi, "n": w.N, "p": w.P, "ssi": w.ssi, "mtb": w.mtb, "nnodes": len(w.nodes), "backend": sk.backend})
	fail := func(kind, what string, extra map[string]any) {
		sig := map[string]any{"kind": kind}
		for k, v := range extra {
			sig[k] = v
		}
		res.Violate(sig, what, map[string]any{"world": wi, "seed": vh.Seed(), "sched": sched})
	}
	mod := sk.bc.GetStateSyncModule()
	initMod := func(phase string) bool {
		err, pan := guarded(func() error { return mod.Init(w.N) })
		tr.Emit(map[string]any{"event": "modinit", "phase": phase, "ok": err == nil && pan == nil, "err": fmt.Sprint(err), "panic": fmt.Sprint(pan)})
		if pan != nil {
			fail("panic", fmt.Sprintf("statesync.Module.Init panicked after a restart in phase %s: %v", phase, pan), map[string]any{"call": "Init", "phase": phase})
			return false
		}
		if err != nil {
			fail("restart-refused", fmt.Sprintf("statesync.Module.Init failed in phase %s: %v", phase, err), map[string]any{"phase": phase})
			return false
		}
		return true
	}
	if !initMod("start") {
		return
	}
	phase := func() string {
		switch {
		case !mod.IsActive():
			return "done"
		case mod.NeedHeaders():
			return "headers"
		case mod.NeedStorageData():
			return "mpt"
		case mod.NeedBlocks():
			return "blocks"
		}
		return "other"
	}
	var lastNodes [][]byte
	apply := func(s step) bool {
		ph := phase()
		ev := map[string]any{"event": "step", "op": s.Op, "phase": ph, "n": s.N}
		var (
			e   error
			pan any
		)
		switch s.Op {
		case "headers":
			if ph != "headers" {
				return true
			}
			var hs []*block.Header
			for h := sk.bc.HeaderHeight() + 1; h <= w.N && len(hs) < max(s.N, 1); h++ {
				hs = append(hs, &w.block(h).Header)
			}
			e, pan = guarded(func() error { return mod.AddHeaders(hs...) })
			ev["expect_ok"] = true
		case "nodes", "dupnodes", "mixednodes":
			if ph != "mpt" {
				return true
			}
			var batch [][]byte
			if s.Op == "dupnodes" && len(lastNodes) > 0 {
				batch = lastNodes // an already delivered batch arrives again
				ev["expect_ok"] = false
				ev["dup"] = true
			} else {
				need := mod.GetUnknownMPTNodesBatch(64)
				sort.Slice(need, func(i, j int) bool { return bytes.Compare(need[i][:], need[j][:]) < 0 })
				switch s.Order {
				case "desc":
					for i, j := 0, len(need)-1; i < j; i, j = i+1, j-1 {
						need[i], need[j] = need[j], need[i]
					}
				case "rnd":
					r.Shuffle(len(need), func(i, j int) { need[i], need[j] = need[j], need[i] })
				}
				for i := 0; i < len(need) && i < max(s.N, 1); i++ {
					nb, ok := w.nodes[need[i]]
					if !ok {
						fail("unknown-node-requested", "the sink asks for a trie node the source state does not contain", nil)
						return false
					}
					batch = append(batch, nb)
				}
				lastNodes = batch
				ev["expect_ok"] = true
				if s.Op == "mixednodes" && len(batch) > 0 {
					// the same message ends with something that is not the node it pretends to be: what was wanted and
					// correct before it must not be lost (nor be believed stored when it is not)
					var junk []byte
					switch r.Intn(3) {
					case 0:
						junk = []byte{0xff, 0x01}
					case 1:
						junk = bytes.Clone(batch[0][:len(batch[0])/2])
					default:
						junk = []byte{byte(mpt.LeafT), 3, 1, 2, byte(r.Intn(256))}
					}
					batch = append(bytes2(batch), junk)
					lastNodes = batch[:len(batch)-1]
					ev["expect_ok"] = false
					ev["junk"] = true
					ev["mixed"] = len(batch) - 1
				}
			}
			e, pan = guarded(func() error { return mod.AddMPTNodes(batch) })
		case "blocks":
			if ph != "blocks" {
				return true
			}
			for i := 0; i < max(s.N, 1) && mod.NeedBlocks(); i++ {
				h := mod.BlockHeight() + 1
				e, pan = guarded(func() error { return mod.AddBlock(w.block(h)) })
				if e != nil || pan != nil {
					break
				}
			}
			ev["expect_ok"] = true
		case "junknode":
			if ph != "mpt" {
				return true
			}
			// a node that is not requested / does not hash to anything expected
			junk := []byte{byte(mpt.LeafT), 3, 1, 2, byte(r.Intn(256))}
			if need := mod.GetUnknownMPTNodesBatch(1); len(need) == 1 && r.Intn(2) == 0 {
				good := bytes.Clone(w.nodes[need[0]])
				good[len(good)-1] ^= 0x5a // corrupted copy of a requested node
				junk = good
			}
			e, pan = guarded(func() error { return mod.AddMPTNodes([][]byte{junk}) })
			ev["expect_ok"] = false
			ev["junk"] = true
		case "junkheader":
			if ph != "headers" {
				return true
			}
			h := sk.bc.HeaderHeight() + 1
			if h > w.N {
				return true
			}
			hd := w.block(h).Header
			bad := block.Header{Version: hd.Version, PrevHash: hd.PrevHash, MerkleRoot: hd.MerkleRoot, Timestamp: hd.Timestamp + 1,
				Nonce: hd.Nonce, Index: hd.Index, PrimaryIndex: hd.PrimaryIndex, NextConsensus: hd.NextConsensus, Script: hd.Script,
				StateRootEnabled: hd.StateRootEnabled, PrevStateRoot: hd.PrevStateRoot}
			e, pan = guarded(func() error { return mod.AddHeaders(&bad) })
			ev["expect_ok"] = false
			ev["junk"] = true
		case "junkblock":
			if ph != "blocks" {
				return true
			}
			h := mod.BlockHeight() + 1
			b := w.block(h)
			if len(b.Transactions) == 0 {
				return true
			}
			if r.Intn(2) == 0 {
				b.Transactions = b.Transactions[:len(b.Transactions)-1] // Merkle root no longer matches
			} else {
				b.Transactions = nil // the right header with a stripped body
			}
			e, pan = guarded(func() error { return mod.AddBlock(b) })
			ev["expect_ok"] = false
			ev["junk"] = true
		case "restart":
			if ph == "done" {
				return true
			}
			if r.Intn(2) == 0 {
				_ = sk.bc.VerifPersist()
			}
			sk.bc.Close() // clean stop (flushes)
			sk.bc = nil
			if err := sk.open(); err != nil {
				fail("restart-failed", fmt.Sprintf("sink cannot be reopened in phase %s: %v", ph, err), map[string]any{"phase": ph})
				return false
			}
			mod = sk.bc.GetStateSyncModule()
			ev["restarted"] = true
			tr.Emit(ev)
			res.Count([]any{wi, "restart", ph})
			return initMod(ph)
		default:
			return true
		}
		ev["ok"], ev["err"], ev["after"] = e == nil && pan == nil, fmt.Sprint(e), phase()
		ev["hh"] = sk.bc.HeaderHeight()
		tr.Emit(ev)
		res.Count([]any{wi, s.Op, ph, s.N, s.Order})
		if pan != nil {
			fail("panic", fmt.Sprintf("statesync %s panicked in phase %s: %v", s.Op, ph, pan), map[string]any{"call": s.Op, "phase": ph})
			return false
		}
		return true
	}
	for _, s := range sched {
		if !apply(s) {
			return
		}
	}
	// completion: whatever is still missing is delivered in request order
	for guard := 0; phase() != "done" && guard < 400; guard++ {
		var s step
		switch phase() {
		case "headers":
			s = step{Op: "headers", N: 7}
		case "mpt":
			s = step{Op: "nodes", N: 5, Order: "asc"}
			// what a faulty or slow peer adds while the rest is delivered: junk and repeated batches
			switch r.Intn(12) {
			case 0:
				s = step{Op: "junknode"}
			case 1:
				s = step{Op: "dupnodes"}
			case 2, 3:
				s = step{Op: "mixednodes", N: 1 + r.Intn(6), Order: []string{"asc", "desc", "rnd"}[r.Intn(3)]}
			}
		case "blocks":
			s = step{Op: "blocks", N: 1 + r.Intn(3)}
			if r.Intn(2) == 0 {
				s = step{Op: "junkblock"} // the next block with a damaged or stripped body arrives before the honest copy
			}
		default:
			fail("stuck", "state synchronisation is active but needs nothing", nil)
			return
		}
		if r.Intn(16) == 0 {
			s = step{Op: "restart"} // restarts also late in a stage (most of the trie restored, most blocks stored)
		}
		if !apply(s) {
			return
		}
	}
	// verdict material: the synchronised node vs the source at P, then lockstep
	fin := map[string]any{"event": "synced", "height": sk.bc.BlockHeight(), "p": w.P}
	sr, err := sk.bc.GetStateRoot(w.P)
	srcRoot := w.block(w.P + 1).PrevStateRoot
	fin["root_ok"] = err == nil && sr.Root.Equals(srcRoot)
	dump := chainkit.StorageDump(sk.bc)
	fin["storage_ok"] = fmt.Sprint(dump) == fmt.Sprint(w.flatP)
	fin["n_items"], fin["n_items_src"] = len(dump), len(w.flatP)
	tr.Emit(fin)
	lock := true
	for h := w.P + 1; h <= w.N; h++ {
		err, pan := guarded(func() error { return sk.bc.AddBlock(w.block(h)) })
		d := chainkit.Compute(sk.bc)
		same := err == nil && pan == nil && len(chainkit.Diff(d, w.digests[h-1])) == 0
		ev := map[string]any{"event": "lockstep", "h": h, "ok": err == nil && pan == nil, "same": same, "err": fmt.Sprint(err, pan), "diff": chainkit.Diff(d, w.digests[h-1])}
		if !same {
			hh := h
			if err != nil || pan != nil {
				hh = h - 1 // the block was refused: explain the state it was offered to
			}
			diag := w.net.Explain(sk.bc, w.srcHook, hh, w.block) // information for the reader of a replay, not judged
			ev["diag"] = diag
			if g := w.ground(sk, diag, w.block(h), err != nil); g != "" {
				ev["ground"] = g
			}
		}
		tr.Emit(ev)
		if !same {
			lock = false
			break
		}
	}
	_ = lock
	res.Traces++
	if wi < 2 {
		res.Sample(map[string]any{"world": wi, "n": w.N, "p": w.P, "trie_nodes": len(w.nodes), "schedule_prefix": sched[:min(len(sched), 20)]})
	}
	res.Inc("trie_nodes", len(w.nodes))
}

func bytes2(b [][]byte) [][]byte { return append([][]byte{}, b...) }

func TestDriver(t *testing.T) {
	res := vh.NewResult()
	tr := vh.NewTrace("trace.ndjson")
	var scheds [][]step
	if err := vh.ReadJSON("schedules.json", &scheds); err != nil {
		t.Fatalf("no schedules: %v", err)
	}
	r := vh.Rand(20)
	for i, s := range scheds {
		runWorld(t, res, tr, i, s, r, "")
	}
	// the scripted scenarios of the two listed findings (same delivery schedules as the first worlds)
	for i, f := range []string{"txvmstate", "oracle"} {
		if len(scheds) > i && vh.EnvInt("VERIF_FINDING_WORLDS", 1) == 1 {
			runWorld(t, res, tr, 3000+i, scheds[i], r, f)
			res.Inc("finding_worlds", 1)
		}
	}
	tr.Close()
	if err := res.Write(); err != nil {
		t.Fatal(err)
	}
}

// ground recognises, in the scripted world of a listed finding only, the difference that finding predicts: either in the
// explained difference after the block (diag), or - when state roots travel in headers and the block itself was
// refused - in the refused block's content.
func (w *world) ground(sk *sink, diag []string, b *block.Block, refused bool) string {
	switch w.finding {
	case "txvmstate":
		if refused {
			for _, tx := range b.Transactions {
				if tx.Hash() == w.probeTx && w.gen.TxHeight[w.probed] <= w.P {
					return "tx-vmstate-of-block-fetched-by-state-sync"
				}
			}
			return ""
		}
		n := 0
		for _, d := range diag {
			if strings.HasPrefix(d, "storage ") {
				if !strings.Contains(d, "/6c6564:") { // the probe's own record "led"
					return ""
				}
				n++
			}
		}
		if n > 0 {
			return "tx-vmstate-of-block-fetched-by-state-sync"
		}
	case "oracle":
		hit := false
		for _, d := range diag {
			hit = hit || strings.Contains(d, "attrs[OracleResponse")
		}
		if refused {
			for _, tx := range b.Transactions {
				hit = hit || len(tx.GetAttributes(transaction.OracleResponseT)) > 0
			}
		}
		if hit {
			for _, rq := range w.gen.ReqTx {
				_, _, e1 := w.src.GetTransaction(rq)
				_, _, e2 := sk.bc.GetTransaction(rq)
				if e1 == nil && e2 != nil {
					return "oracle-response-original-tx-missing-after-state-sync"
				}
			}
		}
	}
	return ""
}
