//go:build verif

package c20sync

import (
	"fmt"
	"sync"
	"testing"

	"verifharness/internal/chainkit"
	"verifharness/internal/histgen"
	"verifharness/internal/vh"

	"github.com/nspcc-dev/neo-go/pkg/config"
	"github.com/nspcc-dev/neo-go/pkg/core/block"
)

// TestOnce: several producers (block queue, consensus, RPC) hand the SAME next block - each its own decoded copy, as
// it arrives from different sources - to a real core.Blockchain at the same moment, next to a stale and a future block.
// Recorded per round: how many calls stored the block, the heights, the digest against the reference node's at that
// height (judged by LedgerOnceTrace.tla). The scheduling is the Go runtime's: a round can only ever show behaviour the
// real code has; which interleavings are met varies.
func TestOnce(t *testing.T) {
	res := vh.NewResult()
	tr := vh.NewTrace("trace.ndjson")
	worlds := vh.EnvInt("VERIF_ONCE_WORLDS", 2)
	blocks := vh.EnvInt("VERIF_ONCE_BLOCKS", 40)
	for wi := 0; wi < worlds; wi++ {
		net := chainkit.NewNet(5, 3)
		srih := wi%2 == 1
		proto := func(c *config.Blockchain) { c.StateRootInHeader = srih }
		ref, err := net.NewChain(nil, proto)
		if err != nil {
			t.Fatal(err)
		}
		chainkit.Start(ref)
		node, err := net.NewChain(nil, proto)
		if err != nil {
			t.Fatal(err)
		}
		chainkit.Start(node)
		gen := histgen.New(t, net, ref, vh.Seed()*7561+int64(wi), 6)
		gen.AvoidOldOracle, gen.NoVMStateProbe = true, true
		var raws [][]byte
		tr.Emit(map[string]any{"event": "init", "world": wi, "h": 0, "srih": srih})
		for h := 1; h <= blocks; h++ {
			maxTx := 4
			if h%3 == 0 {
				maxTx = 0 // transaction-less blocks: nothing but the index check stands between two copies
			}
			b, err := gen.NextBlock(maxTx)
			if err != nil {
				t.Fatalf("generator: %v", err)
			}
			raw, _ := chainkit.EncodeBlock(b)
			raws = append(raws, raw)
			refD := chainkit.Compute(ref)
			n := 2 + (h+wi)%4
			var offers []*block.Block
			for i := 0; i < n; i++ {
				c, err := chainkit.DecodeBlock(raw, srih)
				if err != nil {
					t.Fatal(err)
				}
				offers = append(offers, c)
			}
			stale := 0
			if h > 2 && h%2 == 0 { // a block that is already on chain, offered again at the same moment
				c, _ := chainkit.DecodeBlock(raws[h-2], srih)
				offers = append(offers, c)
				stale = 1
			}
			before := node.BlockHeight()
			var (
				wg      sync.WaitGroup
				start   = make(chan struct{})
				mu      sync.Mutex
				stored  int
				wrong   int
				panics  int
				refused []string
			)
			for _, o := range offers {
				wg.Add(1)
				go func(o *block.Block) {
					defer wg.Done()
					defer func() {
						if p := recover(); p != nil {
							mu.Lock()
							panics++
							refused = append(refused, fmt.Sprint("panic: ", p))
							mu.Unlock()
						}
					}()
					<-start
					err := node.AddBlock(o)
					mu.Lock()
					if err == nil {
						if int(o.Index) == h {
							stored++
						} else {
							wrong++
						}
					} else if len(refused) < 3 {
						refused = append(refused, err.Error())
					}
					mu.Unlock()
				}(o)
			}
			close(start)
			wg.Wait()
			d := chainkit.Compute(node)
			same := len(chainkit.Diff(d, refD)) == 0
			ev := map[string]any{"event": "round", "world": wi, "h": h, "copies": n, "stale": stale, "ntx": len(b.Transactions), "stored": stored,
				"wrong_index_stored": wrong, "panics": panics, "before": before, "after": node.BlockHeight(), "same": same, "refused": refused}
			if !same {
				ev["diff"] = chainkit.Diff(d, refD)
			}
			tr.Emit(ev)
			res.Count([]any{"once", wi, h, n, stale, stored, same})
			if !same || stored != 1 {
				break // the node is no longer a replica of the reference: nothing more to learn in this world
			}
		}
		res.Traces++
		if wi == 0 {
			res.Sample(map[string]any{"world": wi, "rounds": blocks, "what": "N decoded copies of the next block (+ a stale one) offered to AddBlock by N goroutines released together"})
		}
		node.Close()
		ref.Close()
	}
	tr.Close()
	if err := res.Write(); err != nil {
		t.Fatal(err)
	}
}
