package c05gov

import (
	"fmt"
	"sort"
	"testing"

	"verifharness/internal/vh"

	"github.com/nspcc-dev/neo-go/pkg/core/transaction"
	"github.com/nspcc-dev/neo-go/pkg/neotest"
	"github.com/nspcc-dev/neo-go/pkg/util"
)

// A scenario is a behaviour of spec/governance/GovImpl.tla (printed by GovSim) or a hand-written history in the same
// format: an "init" element (who is registered, who votes for whom, balances in model units) followed by steps;
// "endblock" closes the block being built (p = its primary index) and carries the model's prediction of the
// node's answers after that block.
type simCand struct {
	Present    bool  `json:"present"`
	Registered bool  `json:"registered"`
	Votes      int64 `json:"votes"`
}

type simMember struct {
	Key   int   `json:"key"`
	Votes int64 `json:"votes"`
}

type simPred struct {
	Com    []simMember `json:"com"`
	Nvals  []int       `json:"nvals"`
	Nnvals []int       `json:"nnvals"`
	Cand   []simCand   `json:"cand"`
	Voters int64       `json:"voters"`
}

type simStep struct {
	Op      string    `json:"op"`
	A       int       `json:"a"`
	T       int       `json:"t"`
	C       int       `json:"c"`
	X       int64     `json:"x"`
	Raw     bool      `json:"raw"` // transfer amount in NEO instead of model units
	G       int64     `json:"g"`
	P       int       `json:"p"`
	N       int       `json:"n"`
	K       int       `json:"k"`
	Standby []int     `json:"standby"`
	Bal     []int64   `json:"bal"`
	Total   int64     `json:"total"`
	Cand    []simCand `json:"cand"`
	Votes   []int     `json:"votes"`
	Pred    *simPred  `json:"pred"`
}

type scenario struct {
	Name  string    `json:"name"`
	Steps []simStep `json:"steps"`
}

// mapKeys finds real keys for the model keys 1..nk (rank = number): the standby members are given by the network
// (configuration order), the remaining model keys are taken from the keys of accounts that hold no NEO in scenarios,
// so that the order of the real keys equals the order of the model keys.
func (w *world) mapKeys(standby []int, nk int) (map[int]neotest.SingleSigner, error) {
	rank := func(s neotest.SingleSigner) int {
		k, _ := w.nm.K(s.Account().PublicKey().Bytes())
		var r int
		fmt.Sscanf(k, "K%d", &r)
		return r
	}
	// the standby members must already be ordered the way the model orders them
	type pr struct{ model, real int }
	var ps []pr
	for i, m := range standby {
		ps = append(ps, pr{m, rank(w.sb[i])})
	}
	sort.Slice(ps, func(i, j int) bool { return ps[i].model < ps[j].model })
	for i := 1; i < len(ps); i++ {
		if ps[i-1].real >= ps[i].real {
			return nil, fmt.Errorf("the standby keys of this network are not ordered like the model's standby committee %v", standby)
		}
	}
	out := map[int]neotest.SingleSigner{}
	for i, m := range standby {
		out[m] = w.sb[i]
	}
	spare := append([]neotest.SingleSigner{}, w.gen.Accts[3:]...)
	sort.Slice(spare, func(i, j int) bool { return rank(spare[i]) < rank(spare[j]) })
	used := map[int]bool{}
	for m := 1; m <= nk; m++ {
		if _, ok := out[m]; ok {
			continue
		}
		lo, hi := -1, 1<<30 // real ranks of the neighbouring model keys already mapped
		for mm, s := range out {
			if r := rank(s); mm < m && r > lo {
				lo = r
			} else if mm > m && r < hi {
				hi = r
			}
		}
		// later unmapped model keys above m must still find room: take the lowest fitting spare key
		found := false
		for i, s := range spare {
			if r := rank(s); !used[i] && r > lo && r < hi {
				out[m], used[i], found = s, true, true
				break
			}
		}
		if !found {
			return nil, fmt.Errorf("no real key fits model key %d", m)
		}
	}
	return out, nil
}

// stx builds a scenario transaction with a generous system fee (steps of one block depend on each other, the test
// invocation that estimates the fee runs on the state before the block).
func (w *world) stx(signers []neotest.Signer, h util.Uint160, method string, args ...any) (tx *transaction.Transaction) {
	defer func() {
		if r := recover(); r != nil {
			tx = nil
		}
	}()
	if len(signers) == 0 {
		return nil
	}
	u := w.gen.E.NewUnsignedTx(w.t, h, method, args...)
	u.ValidUntilBlock = w.bc.BlockHeight() + 5
	for _, s := range signers {
		u.Signers = append(u.Signers, transaction.Signer{Account: s.ScriptHash(), Scopes: transaction.Global})
	}
	v, _ := w.gen.E.TestInvoke(u)
	sys := int64(1_0000_0000)
	if v != nil {
		sys += v.GasConsumed()
	}
	u.Signers = nil
	return w.gen.E.SignTx(w.t, u, sys, signers...)
}

func runScenario(t *testing.T, res *vh.Result, tr *vh.Trace, tables map[string]any, i int, sc scenario) {
	if len(sc.Steps) < 2 || sc.Steps[0].Op != "init" {
		return
	}
	in := sc.Steps[0]
	src := "tlc"
	if sc.Name == "" {
		sc.Name = fmt.Sprintf("tlc-%d", i)
	} else {
		src = "scripted"
	}
	w, err := newWorld(t, res, tr, sc.Name, src, vh.Seed()*104729+int64(i), in.N, in.K, 8)
	if err != nil {
		t.Fatal(err)
	}
	defer w.close()
	defer w.finish(tables)
	keyOf, err := w.mapKeys(in.Standby, len(in.Cand))
	if err != nil {
		t.Fatalf("scenario %s: %v", sc.Name, err)
	}
	pub := func(c int) []byte { return keyOf[c].Account().PublicKey().Bytes() }
	kname := func(c int) string { s, _ := w.nm.K(pub(c)); return s }
	unit := int64(100_000_000) / in.Total
	if err := w.genesis(); err != nil {
		t.Fatal(err)
	}
	must := func(txs []*transaction.Transaction) {
		for _, tx := range txs {
			if tx == nil {
				t.Fatalf("scenario %s: bootstrap transaction could not be built (%s)", sc.Name, w.lastErr)
			}
		}
		if _, err := w.addBlock(txs, -1, nil); err != nil {
			t.Fatalf("scenario %s: %v", sc.Name, err)
		}
	}
	// block 1: GAS for everybody who will send transactions, NEO for the holders
	v := []neotest.Signer{w.gen.E.Validator}
	bank := w.gen.E.Validator.ScriptHash()
	var boot []*transaction.Transaction
	for _, a := range w.gen.Accts {
		boot = append(boot, w.pool("fund", w.stx(v, gasH, "transfer", bank, a.ScriptHash(), int64(5000_00000000), nil)))
	}
	for _, s := range w.sb {
		boot = append(boot, w.pool("fund", w.stx(v, gasH, "transfer", bank, s.ScriptHash(), int64(5000_00000000), nil)))
	}
	for a, x := range in.Bal {
		boot = append(boot, w.pool("fund", w.stx(v, neoH, "transfer", bank, w.gen.Accts[a].ScriptHash(), x*unit, nil)))
	}
	must(boot)
	// block 2: the initial candidate table and votes (registered, voted, then unregistered where the model says so)
	boot = nil
	for c, cd := range in.Cand {
		if cd.Present {
			boot = append(boot, w.pool("register", w.stx([]neotest.Signer{keyOf[c+1]}, neoH, "registerCandidate", pub(c+1))))
		}
	}
	for a, c := range in.Votes {
		if c != 0 {
			boot = append(boot, w.pool("vote", w.stx([]neotest.Signer{w.gen.Accts[a]}, neoH, "vote", w.gen.Accts[a].ScriptHash(), pub(c))))
		}
	}
	for c, cd := range in.Cand {
		if cd.Present && !cd.Registered {
			boot = append(boot, w.pool("unregister", w.stx([]neotest.Signer{keyOf[c+1]}, neoH, "unregisterCandidate", pub(c+1))))
		}
	}
	must(boot)
	comparing := true
	var txs []*transaction.Transaction
	acts := []any{}
	for _, s := range sc.Steps[1:] {
		var tx *transaction.Transaction
		switch s.Op {
		case "register":
			tx = w.stx([]neotest.Signer{keyOf[s.C]}, neoH, "registerCandidate", pub(s.C))
		case "unregister":
			tx = w.stx([]neotest.Signer{keyOf[s.C]}, neoH, "unregisterCandidate", pub(s.C))
		case "vote":
			a := w.gen.Accts[s.A-1]
			var to any
			if s.C != 0 {
				to = pub(s.C)
			}
			tx = w.stx([]neotest.Signer{a}, neoH, "vote", a.ScriptHash(), to)
		case "transfer":
			a, b := w.gen.Accts[s.A-1], w.gen.Accts[s.T-1]
			amt := s.X * unit
			if s.Raw {
				amt = s.X
			}
			tx = w.stx([]neotest.Signer{a}, neoH, "transfer", a.ScriptHash(), b.ScriptHash(), amt, nil)
		case "setgpb":
			tx = w.stx(w.committee(), neoH, "setGasPerBlock", s.G*500000)
		case "block":
			tx = w.stx(w.committee(), policyH, "blockAccount", keyOf[s.C].ScriptHash())
		case "unblock":
			tx = w.stx(w.committee(), policyH, "unblockAccount", keyOf[s.C].ScriptHash())
		case "endblock":
			b, err := w.addBlock(txs, s.P%in.K, map[string]any{"acts": acts})
			if err != nil {
				t.Fatalf("scenario %s: %v", sc.Name, err)
			}
			txs, acts = nil, []any{}
			if comparing && s.Pred != nil {
				res.Inc("model_predictions_checked", 1)
				if d := w.predicted(s.Pred, unit, kname); d != "" {
					comparing = false
					res.AddDrift(map[string]any{"part": "gov", "kind": "model-prediction", "hist": w.id, "h": b.Index, "diff": d})
				}
			}
			continue
		default:
			continue
		}
		if tx = w.pool(s.Op, tx); tx == nil {
			comparing = false
			res.Inc("model_steps_skipped", 1)
			continue
		}
		txs = append(txs, tx)
		acts = append(acts, map[string]any{"op": s.Op, "a": s.A, "t": s.T, "c": s.C, "x": s.X, "g": s.G})
	}
	for n := 0; n < 2; n++ {
		if _, err := w.addBlock(nil, -1, nil); err != nil {
			t.Fatalf("scenario %s: %v", sc.Name, err)
		}
	}
	res.Traces++
	res.Inc("scenarios_"+src, 1)
	if i < 2 {
		res.Sample(map[string]any{"history": w.id, "source": src, "steps": len(sc.Steps), "blocks": w.blocks,
			"first_steps": sc.Steps[1:min(4, len(sc.Steps))]})
	}
}

// predicted compares the model's prediction with the chain (NEO amounts scaled by unit). "" = equal.
func (w *world) predicted(p *simPred, unit int64, kname func(int) string) string {
	ev, err := observe(w.bc, w.nm, w.lastBlock(), w.r, 0)
	if err != nil {
		return err.Error()
	}
	st := ev["stored"].([]member)
	if len(st) != len(p.Com) {
		return "committee size"
	}
	// the stored committee changes at epoch boundaries only; the model's `com` after OnPersist of the next block is
	// what the chain stores after THAT block: compare the answers that are defined at this boundary instead
	nn := ev["compvals"].([]string)
	want := map[string]bool{}
	for _, c := range p.Nnvals {
		want[kname(c)] = true
	}
	if len(nn) != len(want) {
		return fmt.Sprintf("computed next validators: model %v, chain %v", p.Nnvals, nn)
	}
	for _, k := range nn {
		if !want[k] {
			return fmt.Sprintf("computed next validators: model %v, chain %v", p.Nnvals, nn)
		}
	}
	cand := ev["cand"].(map[string]candRec)
	for c, mc := range p.Cand {
		rc, ok := cand[kname(c+1)]
		if ok != mc.Present || (ok && (rc.Registered != mc.Registered || rc.Votes != mc.Votes*unit)) {
			return fmt.Sprintf("candidate %d: model %+v, chain %v %+v", c+1, mc, ok, rc)
		}
	}
	if ev["voters"].(int64) != p.Voters*unit {
		return fmt.Sprintf("voters: model %d units, chain %d", p.Voters, ev["voters"])
	}
	return ""
}
