package c05gov

import (
	"fmt"
	"math/big"
	"math/rand"
	"slices"
	"testing"

	"verifharness/internal/chainkit"
	"verifharness/internal/histgen"
	"verifharness/internal/vh"

	"github.com/nspcc-dev/neo-go/pkg/core"
	"github.com/nspcc-dev/neo-go/pkg/core/block"
	"github.com/nspcc-dev/neo-go/pkg/core/native/nativehashes"
	"github.com/nspcc-dev/neo-go/pkg/core/native/noderoles"
	"github.com/nspcc-dev/neo-go/pkg/core/transaction"
	"github.com/nspcc-dev/neo-go/pkg/crypto/keys"
	"github.com/nspcc-dev/neo-go/pkg/neotest"
	"github.com/nspcc-dev/neo-go/pkg/smartcontract"
	"github.com/nspcc-dev/neo-go/pkg/util"
	"github.com/nspcc-dev/neo-go/pkg/vm/opcode"
	"github.com/nspcc-dev/neo-go/pkg/wallet"
)

var (
	neoH    = nativehashes.NeoToken
	gasH    = nativehashes.GasToken
	policyH = nativehashes.PolicyContract
	notaryH = nativehashes.Notary
)

// world is one real chain, the generator that drives it and the trace it is observed into.
type world struct {
	t    *testing.T
	id   string
	src  string // "random" | "tlc" | "scripted"
	nc   int
	nv   int
	net  *chainkit.Net
	bc   *core.Blockchain
	gen  *histgen.Gen
	r    *rand.Rand
	tr   *vh.Trace
	res  *vh.Result
	nm   *names
	keys map[string]*keys.PrivateKey // by compressed public key
	sb   []neotest.SingleSigner      // single-signature accounts of the standby committee members (configuration order)
	kinds map[string]int
	lastErr string
	blocks int
	ask    int // unclaimedGas answers recorded per block
	last   *block.Block
}

func newWorld(t *testing.T, res *vh.Result, tr *vh.Trace, id, src string, seed int64, nc, nv, nacc int) (*world, error) {
	w := &world{t: t, id: id, src: src, nc: nc, nv: nv, net: chainkit.NewNet(nc, nv), tr: tr, res: res,
		r: rand.New(rand.NewSource(seed ^ 0x60f)), keys: map[string]*keys.PrivateKey{}, kinds: map[string]int{}, ask: 4}
	bc, err := w.net.NewChain(nil, nil)
	if err != nil {
		return nil, err
	}
	chainkit.Start(bc)
	w.bc = bc
	w.gen = histgen.New(t, w.net, bc, seed, nacc)
	var universe []*keys.PublicKey
	add := func(k *keys.PrivateKey) {
		w.keys[string(k.PublicKey().Bytes())] = k
		universe = append(universe, k.PublicKey())
	}
	for i := 0; i < nc; i++ {
		k := chainkit.Key(fmt.Sprintf("committee-%d", i))
		add(k)
		w.sb = append(w.sb, neotest.NewSingleSigner(wallet.NewAccountFromPrivateKey(k)))
	}
	for _, a := range w.gen.Accts {
		add(a.Account().PrivateKey())
	}
	add(w.gen.Churn.Account().PrivateKey())
	add(w.gen.Churn2.Account().PrivateKey())
	w.nm = newNames(universe)
	return w, nil
}

func (w *world) close() { w.bc.Close() }

func (w *world) lastBlock() *block.Block { return w.last }

// standbyNames are the standby committee's key names in configuration order.
func (w *world) standbyNames() []string {
	var out []string
	for _, s := range w.sb {
		k, _ := w.nm.K(s.Account().PublicKey().Bytes())
		out = append(out, k)
	}
	return out
}

// committee returns signers for a committee-only method: an ordinary funded account pays, the CURRENT committee
// (which depends on votes) co-signs with the majority multisignature built from the keys this world knows.
func (w *world) committee() []neotest.Signer {
	pubs, err := w.bc.GetCommittee()
	if err != nil {
		return nil
	}
	m := smartcontract.GetMajorityHonestNodeCount(len(pubs))
	var accs []*wallet.Account
	for _, p := range pubs {
		k, ok := w.keys[string(p.Bytes())]
		if !ok {
			continue
		}
		a := wallet.NewAccountFromPrivateKey(k)
		if err := a.ConvertMultisig(m, slices.Clone(pubs)); err != nil {
			return nil
		}
		accs = append(accs, a)
	}
	if len(accs) < m {
		return nil
	}
	return []neotest.Signer{w.gen.Accts[w.r.Intn(len(w.gen.Accts))], neotest.NewMultiSigner(accs...)}
}

// tx builds and signs an invocation with Global-scope signers (nil if it cannot be built).
func (w *world) tx(signers []neotest.Signer, h util.Uint160, method string, args ...any) (tx *transaction.Transaction) {
	if len(signers) == 0 {
		return nil
	}
	return w.gen.Tx(signers, h, method, args...)
}

// script builds and signs a transaction running a raw script.
func (w *world) script(signers []neotest.Signer, script []byte) (tx *transaction.Transaction) {
	defer func() {
		if r := recover(); r != nil {
			tx = nil
		}
	}()
	u := transaction.New(script, 0)
	u.Nonce = neotest.Nonce()
	u.ValidUntilBlock = w.bc.BlockHeight() + 5
	for _, s := range signers {
		u.Signers = append(u.Signers, transaction.Signer{Account: s.ScriptHash(), Scopes: transaction.Global})
	}
	v, _ := w.gen.E.TestInvoke(u)
	sys := int64(3_0000000)
	if v != nil {
		sys += v.GasConsumed()
	}
	u.Signers = nil
	return w.gen.E.SignTx(w.t, u, sys, signers...)
}

// notaryAssisted builds a transaction sent by the Notary contract and paid from payer's deposit, signed by a
// designated notary node whose key this world knows (nil if there is none or the deposit does not cover the fees).
func (w *world) notaryAssisted(payer neotest.SingleSigner, nkeys uint8, script []byte) *transaction.Transaction {
	nodes, _, err := w.bc.GetDesignatedByRole(noderoles.P2PNotary)
	if err != nil || len(nodes) == 0 {
		return nil
	}
	var node *keys.PrivateKey
	for _, n := range nodes {
		if k := w.keys[string(n.Bytes())]; k != nil {
			node = k
			break
		}
	}
	if node == nil {
		return nil
	}
	fpk := w.bc.GetNotaryServiceFeePerKey()
	tx := transaction.New(script, 1_0000000)
	tx.Nonce = neotest.Nonce()
	tx.ValidUntilBlock = w.bc.BlockHeight() + 5
	tx.Attributes = []transaction.Attribute{{Type: transaction.NotaryAssistedT, Value: &transaction.NotaryAssisted{NKeys: nkeys}}}
	tx.NetworkFee = (int64(nkeys)+1)*fpk + 3000_0000
	tx.Signers = []transaction.Signer{
		{Account: notaryH, Scopes: transaction.None},
		{Account: payer.ScriptHash(), Scopes: transaction.Global},
	}
	dep := w.bc.GetUtilityTokenBalance(notaryH, payer.ScriptHash())
	if dep.Cmp(big.NewInt(tx.SystemFee+tx.NetworkFee)) < 0 {
		return nil
	}
	magic := uint32(w.net.Magic)
	tx.Scripts = []transaction.Witness{
		{InvocationScript: append([]byte{byte(opcode.PUSHDATA1), keys.SignatureLen}, node.SignHashable(magic, tx)...)},
		{InvocationScript: payer.SignHashable(magic, tx), VerificationScript: payer.Script()},
	}
	return tx
}

// pool filters a transaction through the chain's own memory pool.
func (w *world) pool(kind string, tx *transaction.Transaction) *transaction.Transaction {
	if tx == nil {
		return nil
	}
	if err := w.bc.PoolTx(tx); err != nil {
		w.res.Inc("rejected_"+kind, 1)
		w.lastErr = fmt.Sprintf("%s: %v", kind, err)
		return nil
	}
	w.kinds[kind]++
	w.res.Inc("tx_"+kind, 1)
	return tx
}

// addBlock seals txs into the next block with the given primary index (-1 = random), adds it, observes it.
func (w *world) addBlock(txs []*transaction.Transaction, primary int, extra map[string]any) (*block.Block, error) {
	b, err := w.net.NewBlock(w.bc, uint64(1+w.r.Intn(3)), txs...)
	if err != nil {
		return nil, err
	}
	if primary < 0 {
		primary = w.r.Intn(w.nv)
	}
	b.PrimaryIndex = byte(primary)
	b = w.net.Reseal(b)
	if err := w.bc.AddBlock(b); err != nil {
		return nil, fmt.Errorf("block %d rejected: %w", b.Index, err)
	}
	w.gen.Harvest(b)
	w.last = b
	return b, w.emit("block", b, extra)
}

func (w *world) emit(event string, b *block.Block, extra map[string]any) error {
	ev, err := observe(w.bc, w.nm, b, w.r, w.ask)
	if err != nil {
		return fmt.Errorf("history %s block %d: %w", w.id, b.Index, err)
	}
	ev["event"], ev["hist"], ev["src"] = event, w.id, w.src
	if event == "init" {
		ev["n"], ev["k"], ev["standby"] = w.nc, w.nv, w.standbyNames()
		ev["keys"] = w.nm.keysInfo()
	}
	ev["kinds"] = w.kinds
	for k, v := range extra {
		ev[k] = v
	}
	w.tr.Emit(ev)
	w.kinds = map[string]int{}
	w.blocks++
	w.res.Count([]any{w.id, b.Index})
	w.res.Inc("blocks", 1)
	w.res.Inc("claims", len(ev["mints"].([]mint)))
	if b.Index > 0 && int(b.Index)%w.nc == 0 {
		w.res.Inc("epoch_boundaries", 1)
		sb := w.standbyNames()
		st := ev["stored"].([]member)
		same := len(st) == len(sb)
		for i := range st {
			same = same && i < len(sb) && st[i].Key == sb[i]
		}
		if !same {
			w.res.Inc("boundaries_with_elected_committee", 1)
		}
	}
	return nil
}

func (w *world) genesis() error {
	g0, err := w.bc.GetBlock(w.bc.GetHeaderHash(0))
	if err != nil {
		return err
	}
	return w.emit("init", g0, nil)
}

// finish writes the name table of the history (diagnosis only).
func (w *world) finish(tables map[string]any) {
	tables[w.id] = w.nm.table()
}
