// Observation of one block for spec/governance/GovJudge.tla: everything is read back from the REAL node after the block
// was stored - from storage (candidate records, voters count, NEO account states, stored committee, stored rewards
// per vote, Policy block list), from the node's answers (GetCommittee, GetNextBlockValidators,
// ComputeNextBlockValidators, getGasPerBlock, CalculateClaimable, NotaryAssisted fee) and from the stored execution
// results (GAS / NEO Transfer and Vote events with their container and trigger). GAS amounts travel as {neg, mag}
// limb records (little-endian base 2^15, spec/common/BigInt.tla), NEO amounts as plain integers (<= 10^8).
// Public keys are named K<rank> (rank in ECPoint order, computed here from the coordinates), accounts A<i>.
package c05gov

import (
	"bytes"
	"crypto/elliptic"
	"encoding/hex"
	"fmt"
	"math/big"
	"math/rand"
	"slices"
	"sort"

	"github.com/nspcc-dev/neo-go/pkg/core"
	"github.com/nspcc-dev/neo-go/pkg/core/block"
	"github.com/nspcc-dev/neo-go/pkg/core/native/nativehashes"
	"github.com/nspcc-dev/neo-go/pkg/core/native/nativeids"
	"github.com/nspcc-dev/neo-go/pkg/core/state"
	"github.com/nspcc-dev/neo-go/pkg/core/transaction"
	"github.com/nspcc-dev/neo-go/pkg/crypto/keys"
	"github.com/nspcc-dev/neo-go/pkg/encoding/bigint"
	"github.com/nspcc-dev/neo-go/pkg/io"
	"github.com/nspcc-dev/neo-go/pkg/smartcontract/callflag"
	"github.com/nspcc-dev/neo-go/pkg/smartcontract/trigger"
	"github.com/nspcc-dev/neo-go/pkg/util"
	"github.com/nspcc-dev/neo-go/pkg/vm/emit"
	"github.com/nspcc-dev/neo-go/pkg/vm/stackitem"
	"github.com/nspcc-dev/neo-go/pkg/vm/vmstate"
)

// Storage layout (pkg/core/native: native_neo.go, native_nep17.go, policy.go).
const (
	prefixAccount      = 20 // NEO: 20 ++ account (BE) -> NEOBalance
	prefixCandidate    = 33 // NEO: 33 ++ public key -> struct(registered, votes)
	prefixVotersCount  = 1  // NEO: NEO held by voting accounts
	prefixGasPerVote   = 23 // NEO: 23 ++ public key -> accumulated voter reward per vote (scaled by 10^8)
	prefixBlockedAcc   = 15 // Policy: 15 ++ account (BE)
	keyCommittee       = 14 // NEO: stored committee (keys with votes, election order)
)

// Num is an integer of arbitrary size in the trace format.
type Num struct {
	Neg bool  `json:"neg"`
	Mag []int `json:"mag"`
}

var limbBase = big.NewInt(1 << 15)

func N(x *big.Int) Num {
	n := Num{Mag: []int{}}
	if x == nil || x.Sign() == 0 {
		return n
	}
	n.Neg = x.Sign() < 0
	a := new(big.Int).Abs(x)
	r := new(big.Int)
	for a.Sign() != 0 {
		a.QuoRem(a, limbBase, r)
		n.Mag = append(n.Mag, int(r.Int64()))
	}
	return n
}

func N64(x int64) Num { return N(big.NewInt(x)) }

// names gives short stable names to public keys and accounts.
type names struct {
	key   map[string]string // compressed key bytes -> K<rank>
	acct  map[util.Uint160]string
	order []util.Uint160
	pubs  []*keys.PublicKey // universe, by rank
}

// newNames ranks the key universe by (X, Y) - the order of public keys the protocol uses for ties - with this
// package's own comparison of the coordinates.
func newNames(universe []*keys.PublicKey) *names {
	ps := append([]*keys.PublicKey{}, universe...)
	sort.Slice(ps, func(i, j int) bool {
		if c := ps[i].X.Cmp(ps[j].X); c != 0 {
			return c < 0
		}
		return ps[i].Y.Cmp(ps[j].Y) < 0
	})
	n := &names{key: map[string]string{}, acct: map[util.Uint160]string{}}
	for i, p := range ps {
		if i > 0 && bytes.Equal(ps[i-1].Bytes(), p.Bytes()) {
			continue
		}
		n.key[string(p.Bytes())] = fmt.Sprintf("K%02d", len(n.pubs))
		n.pubs = append(n.pubs, p)
	}
	return n
}

func (n *names) K(pub []byte) (string, error) {
	if s, ok := n.key[string(pub)]; ok {
		return s, nil
	}
	return "", fmt.Errorf("public key %x is outside the universe of this history", pub)
}

func (n *names) A(u util.Uint160) string {
	if s, ok := n.acct[u]; ok {
		return s
	}
	s := fmt.Sprintf("A%02d", len(n.order))
	n.acct[u] = s
	n.order = append(n.order, u)
	return s
}

// keysInfo is the `keys` field of an init line.
func (n *names) keysInfo() map[string]any {
	m := map[string]any{}
	for i, p := range n.pubs {
		m[fmt.Sprintf("K%02d", i)] = map[string]any{"rank": i, "acct": n.A(p.GetScriptHash()), "pub": hex.EncodeToString(p.Bytes())}
	}
	return m
}

func (n *names) table() map[string]string {
	m := map[string]string{}
	for u, s := range n.acct {
		m[s] = u.StringLE()
	}
	return m
}

type candRec struct {
	Registered bool `json:"registered"`
	Votes      int64 `json:"votes"`
	Blocked    bool `json:"blocked"`
}

type acctRec struct {
	Bal  int64  `json:"bal"`
	Vote string `json:"vote"`
	BH   uint32 `json:"bh"`
}

type xfer struct {
	From string `json:"from"`
	To   string `json:"to"`
	Amt  Num    `json:"amt"`
}

type nxfer struct {
	From string `json:"from"`
	To   string `json:"to"`
	Amt  int64  `json:"amt"`
}

type mint struct {
	To  string `json:"to"`
	Amt Num    `json:"amt"`
	Tx  int    `json:"tx"`
}

type txRec struct {
	Sender string `json:"sender"`
	Sys    Num    `json:"sys"`
	Net    Num    `json:"net"`
	NKeys  int    `json:"nkeys"`
}

type member struct {
	Key   string `json:"key"`
	Votes int64  `json:"votes"`
}

func keyNames(n *names, ps []*keys.PublicKey) ([]string, error) {
	out := []string{}
	for _, p := range ps {
		s, err := n.K(p.Bytes())
		if err != nil {
			return nil, err
		}
		out = append(out, s)
	}
	return out, nil
}

// invokeRead runs a read-only native method on top of the chain (the next block's context) and returns its result.
func invokeRead(bc *core.Blockchain, h util.Uint160, method string, args ...any) (it stackitem.Item, err error) {
	defer func() {
		if r := recover(); r != nil {
			err = fmt.Errorf("invoke %s: %v", method, r)
		}
	}()
	w := io.NewBufBinWriter()
	emit.AppCall(w.BinWriter, h, method, callflag.ReadOnly, args...)
	if w.Err != nil {
		return nil, w.Err
	}
	ic, err := bc.GetTestVM(trigger.Application, nil, nil)
	if err != nil {
		return nil, err
	}
	defer ic.Finalize()
	ic.VM.LoadWithFlags(w.Bytes(), callflag.ReadOnly)
	if err := ic.VM.Run(); err != nil {
		return nil, err
	}
	if ic.VM.Estack().Len() != 1 {
		return nil, fmt.Errorf("invoke %s: %d results", method, ic.VM.Estack().Len())
	}
	return ic.VM.Estack().Pop().Item(), nil
}

func party(n *names, it stackitem.Item) (string, error) {
	if _, ok := it.(stackitem.Null); ok {
		return "", nil
	}
	b, err := it.TryBytes()
	if err != nil {
		return "", err
	}
	u, err := util.Uint160DecodeBytesBE(b)
	if err != nil {
		return "", err
	}
	return n.A(u), nil
}

// observe builds the observation of block b (already stored).
func observe(bc *core.Blockchain, n *names, b *block.Block, r *rand.Rand, maxAsk int) (map[string]any, error) {
	ev := map[string]any{"h": b.Index, "primary": int(b.PrimaryIndex)}
	var err error
	fail := func(f string, a ...any) bool {
		if err == nil {
			err = fmt.Errorf(f, a...)
		}
		return false
	}
	// ---- storage: candidates, voters, accounts, stored committee, rewards per vote
	cand := map[string]candRec{}
	bc.SeekStorage(nativeids.NeoToken, []byte{prefixCandidate}, func(k, v []byte) bool {
		it, e := stackitem.Deserialize(v)
		if e != nil {
			return fail("candidate %x: %v", k, e)
		}
		arr, ok := it.Value().([]stackitem.Item)
		if !ok || len(arr) != 2 {
			return fail("candidate %x: not a 2-element struct", k)
		}
		reg, e1 := arr[0].TryBool()
		votes, e2 := arr[1].TryInteger()
		if e1 != nil || e2 != nil || !votes.IsInt64() {
			return fail("candidate %x: %v %v", k, e1, e2)
		}
		name, e := n.K(k)
		if e != nil {
			return fail("%v", e)
		}
		pub, e := keys.NewPublicKeyFromBytes(k, elliptic.P256())
		if e != nil {
			return fail("candidate key %x: %v", k, e)
		}
		blocked := bc.GetStorageItem(nativeids.PolicyContract, append([]byte{prefixBlockedAcc}, pub.GetScriptHash().BytesBE()...)) != nil
		cand[name] = candRec{Registered: reg, Votes: votes.Int64(), Blocked: blocked}
		return true
	})
	ev["cand"] = cand
	voters := int64(0)
	if si := bc.GetStorageItem(nativeids.NeoToken, []byte{prefixVotersCount}); si != nil {
		voters = bigint.FromBytes(si).Int64()
	}
	ev["voters"] = voters
	neo := map[string]acctRec{}
	var accts []util.Uint160
	bc.SeekStorage(nativeids.NeoToken, []byte{prefixAccount}, func(k, v []byte) bool {
		u, e := util.Uint160DecodeBytesBE(k)
		if e != nil {
			return fail("NEO account key %x: %v", k, e)
		}
		st, e := state.NEOBalanceFromBytes(v)
		if e != nil {
			return fail("NEO account %s: %v", u.StringLE(), e)
		}
		r := acctRec{Bal: st.Balance.Int64(), BH: st.BalanceHeight}
		if st.VoteTo != nil {
			if r.Vote, e = n.K(st.VoteTo.Bytes()); e != nil {
				return fail("%v", e)
			}
		}
		neo[n.A(u)] = r
		accts = append(accts, u)
		return true
	})
	ev["neo"] = neo
	stored := []member{}
	if si := bc.GetStorageItem(nativeids.NeoToken, []byte{keyCommittee}); si != nil {
		it, e := stackitem.Deserialize(si)
		if e != nil {
			return nil, fmt.Errorf("stored committee: %w", e)
		}
		arr, _ := it.Value().([]stackitem.Item)
		for _, x := range arr {
			s, ok := x.Value().([]stackitem.Item)
			if !ok || len(s) < 2 {
				return nil, fmt.Errorf("stored committee: malformed member")
			}
			kb, e1 := s[0].TryBytes()
			vs, e2 := s[1].TryInteger()
			if e1 != nil || e2 != nil {
				return nil, fmt.Errorf("stored committee: %v %v", e1, e2)
			}
			name, e := n.K(kb)
			if e != nil {
				return nil, e
			}
			stored = append(stored, member{Key: name, Votes: vs.Int64()})
		}
	}
	ev["stored"] = stored
	gpv := map[string]Num{}
	bc.SeekStorage(nativeids.NeoToken, []byte{prefixGasPerVote}, func(k, v []byte) bool {
		name, e := n.K(k)
		if e != nil {
			return fail("%v", e)
		}
		gpv[name] = N(bigint.FromBytes(v))
		return true
	})
	ev["gpv"] = gpv
	if err != nil {
		return nil, err
	}
	// ---- the node's answers
	com, e := bc.GetCommittee()
	if e != nil {
		return nil, e
	}
	if ev["committee"], e = keyNames(n, com); e != nil {
		return nil, e
	}
	nv, e := bc.GetNextBlockValidators()
	if e != nil {
		return nil, e
	}
	if ev["nextvals"], e = keyNames(n, nv); e != nil {
		return nil, e
	}
	if ev["compvals"], e = keyNames(n, bc.ComputeNextBlockValidators()); e != nil {
		return nil, e
	}
	it, e := invokeRead(bc, nativehashes.NeoToken, "getGasPerBlock")
	if e != nil {
		return nil, e
	}
	g, e := it.TryInteger()
	if e != nil {
		return nil, e
	}
	ev["gpb"] = N(g)
	ev["nafee"] = N64(bc.GetNotaryServiceFeePerKey())
	// ---- the block: fees, executions
	txs := []txRec{}
	for _, tx := range b.Transactions {
		r := txRec{Sender: n.A(tx.Sender()), Sys: N64(tx.SystemFee), Net: N64(tx.NetworkFee), NKeys: -1}
		if as := tx.GetAttributes(transaction.NotaryAssistedT); len(as) != 0 {
			r.NKeys = int(as[0].Value.(*transaction.NotaryAssisted).NKeys)
		}
		txs = append(txs, r)
	}
	ev["txs"] = txs
	sys, e := bc.GetAppExecResults(b.Hash(), trigger.All)
	if e != nil {
		return nil, fmt.Errorf("block %d executions: %w", b.Index, e)
	}
	onev, postev := []xfer{}, []xfer{}
	gasEvents := func(a *state.AppExecResult, sink *[]xfer) error {
		for _, x := range a.Events {
			if x.ScriptHash != nativehashes.GasToken || x.Name != "Transfer" {
				continue
			}
			f := x.Item.Value().([]stackitem.Item)
			if len(f) != 3 {
				return fmt.Errorf("malformed Transfer event in block %d", b.Index)
			}
			from, e1 := party(n, f[0])
			to, e2 := party(n, f[1])
			amt, e3 := f[2].TryInteger()
			if e1 != nil || e2 != nil || e3 != nil {
				return fmt.Errorf("malformed Transfer event in block %d: %v %v %v", b.Index, e1, e2, e3)
			}
			*sink = append(*sink, xfer{From: from, To: to, Amt: N(amt)})
		}
		return nil
	}
	for i := range sys {
		if sys[i].VMState != vmstate.Halt {
			return nil, fmt.Errorf("block %d: %v execution ended in %v", b.Index, sys[i].Trigger, sys[i].VMState)
		}
		switch sys[i].Trigger {
		case trigger.OnPersist:
			e = gasEvents(&sys[i], &onev)
		case trigger.PostPersist:
			e = gasEvents(&sys[i], &postev)
		}
		if e != nil {
			return nil, e
		}
	}
	ev["onev"], ev["postev"] = onev, postev
	neoev, votev, mints := []nxfer{}, []string{}, []mint{}
	faults := 0
	for ti, tx := range b.Transactions {
		as, e := bc.GetAppExecResults(tx.Hash(), trigger.Application)
		if e != nil {
			return nil, fmt.Errorf("tx %s executions: %w", tx.Hash().StringLE(), e)
		}
		for _, a := range as {
			if a.VMState != vmstate.Halt {
				faults++
				continue
			}
			for _, x := range a.Events {
				switch {
				case x.ScriptHash == nativehashes.NeoToken && x.Name == "Transfer":
					f := x.Item.Value().([]stackitem.Item)
					from, e1 := party(n, f[0])
					to, e2 := party(n, f[1])
					amt, e3 := f[2].TryInteger()
					if e1 != nil || e2 != nil || e3 != nil {
						return nil, fmt.Errorf("malformed NEO Transfer event in block %d", b.Index)
					}
					neoev = append(neoev, nxfer{From: from, To: to, Amt: amt.Int64()})
				case x.ScriptHash == nativehashes.NeoToken && x.Name == "Vote":
					f := x.Item.Value().([]stackitem.Item)
					a, e1 := party(n, f[0])
					if e1 != nil {
						return nil, fmt.Errorf("malformed Vote event in block %d", b.Index)
					}
					votev = append(votev, a)
				case x.ScriptHash == nativehashes.GasToken && x.Name == "Transfer":
					f := x.Item.Value().([]stackitem.Item)
					if _, isNull := f[0].(stackitem.Null); !isNull {
						continue
					}
					tb, e1 := f[1].TryBytes()
					amt, e2 := f[2].TryInteger()
					if e1 != nil || e2 != nil {
						return nil, fmt.Errorf("malformed GAS mint event in block %d", b.Index)
					}
					to, e1 := util.Uint160DecodeBytesBE(tb)
					if e1 != nil {
						return nil, e1
					}
					if to == nativehashes.OracleContract {
						continue // prepaid response fee of an oracle request, not a claim
					}
					mints = append(mints, mint{To: n.A(to), Amt: N(amt), Tx: ti})
				}
			}
		}
	}
	ev["neoev"], ev["votev"], ev["mints"] = neoev, votev, mints
	// ---- unclaimedGas answers for a few accounts: the ones that acted in this block first, then random ones
	acted := map[string]bool{}
	for _, x := range neoev {
		acted[x.From], acted[x.To] = true, true
	}
	for _, a := range votev {
		acted[a] = true
	}
	sort.Slice(accts, func(i, j int) bool { return n.A(accts[i]) < n.A(accts[j]) })
	var ask []util.Uint160
	for _, u := range accts {
		if acted[n.A(u)] && len(ask) < maxAsk/2 {
			ask = append(ask, u)
		}
	}
	for tries := 0; len(ask) < maxAsk && len(ask) < len(accts) && tries < 50; tries++ {
		u := accts[r.Intn(len(accts))]
		if !slices.Contains(ask, u) {
			ask = append(ask, u)
		}
	}
	unclaimed := map[string]Num{}
	for _, u := range ask {
		c, e := bc.CalculateClaimable(u, b.Index+1)
		if e != nil {
			return nil, fmt.Errorf("unclaimedGas(%s, %d): %w", u.StringLE(), b.Index+1, e)
		}
		unclaimed[n.A(u)] = N(c)
	}
	ev["unclaimed"] = unclaimed
	ev["faults"] = faults
	return ev, nil
}
