package c09kv

import (
	"bytes"
	"fmt"
	"math/rand"
	"os"
	"sort"
	"testing"
	"time"

	"verifharness/internal/vh"

	"github.com/nspcc-dev/neo-go/pkg/core/storage"
	"github.com/nspcc-dev/neo-go/pkg/core/storage/dbconfig"
)

// TestLevelDBChurn is NOT part of the registered C09 verdict (its outcome depends on the timing of goleveldb's
// background compaction). It reproduces an observation made while building the check: when one LevelDB database is
// filled and completely emptied hundreds of times through LevelDBStore.PutChangeSet (one goleveldb transaction per
// batch) with idle gaps in between, range scans start to miss committed keys or to return keys deleted long ago.
// The same workload written with leveldb.Batch + db.Write instead of OpenTransaction/Commit does not show it.
// Run: C09_LEVELDB_CHURN=1 go test -tags verif -run TestLevelDBChurn ./c09kv
func TestLevelDBChurn(t *testing.T) {
	if os.Getenv("C09_LEVELDB_CHURN") == "" {
		t.Skip("set C09_LEVELDB_CHURN=1")
	}
	dir := t.TempDir()
	s, err := storage.NewLevelDBStore(dbconfig.LevelDBOptions{DataDirectoryPath: dir})
	if err != nil {
		t.Fatal(err)
	}
	defer s.Close()
	r := rand.New(rand.NewSource(vh.Seed() + 1))
	al := []byte{0, 0x70, 0xff}
	bad := 0
	model := map[string][]byte{}
	for round := 0; round < 20000 && bad < 3; round++ {
		batch := map[string][]byte{}
		for i := 1 + r.Intn(3); i > 0; i-- {
			k := []byte{0x70}
			for j := r.Intn(3); j > 0; j-- {
				k = append(k, al[r.Intn(3)])
			}
			if r.Intn(3) == 0 {
				batch[string(k)] = nil
				delete(model, string(k))
			} else {
				v := []byte{byte(round), byte(round >> 8), byte(i)}
				batch[string(k)] = v
				model[string(k)] = v
			}
		}
		if err := s.PutChangeSet(nil, batch); err != nil {
			t.Fatal(err)
		}
		for q := 0; q < 3; q++ {
			p := []byte{0x70}
			for j := r.Intn(3); j > 0; j-- {
				p = append(p, al[r.Intn(3)])
			}
			var ks []string
			for mk := range model {
				if bytes.HasPrefix([]byte(mk), p) {
					ks = append(ks, mk)
				}
			}
			sort.Strings(ks)
			var exp, got []string
			for _, mk := range ks {
				exp = append(exp, mk+"="+string(model[mk]))
			}
			s.Seek(storage.SeekRange{Prefix: p}, func(k, v []byte) bool { got = append(got, string(k)+"="+string(v)); return true })
			if fmt.Sprintf("%x", exp) != fmt.Sprintf("%x", got) {
				t.Logf("round %d prefix %x: expected %x got %x", round, p, exp, got)
				bad++
			}
		}
		if r.Intn(3) == 0 {
			time.Sleep(time.Duration(r.Intn(4000)) * time.Microsecond)
		}
		if round%7 == 6 { // empty the database
			del := map[string][]byte{}
			s.Seek(storage.SeekRange{}, func(k, v []byte) bool { del[string(k)] = nil; return true })
			if err := s.PutChangeSet(nil, del); err != nil {
				t.Fatal(err)
			}
			model = map[string][]byte{}
		}
	}
	if bad > 0 {
		t.Fatalf("LevelDBStore returned wrong range scans (%d)", bad)
	}
}
