// Concurrent part of the C09 driver: schedules of KVPersistConc (writer / Persist in three steps / readers in two
// steps) are reproduced exactly on one real shared MemCachedStore by wrapping the backend in a gating Store whose
// PutChangeSet and Seek block on harness channels:
//
//	p1  = Persist() runs until the backend's PutChangeSet is entered   (maps swapped, tempstore installed)
//	p2  = the backend's PutChangeSet is executed                        (written, tempstore still installed)
//	p3  = Persist() returns                                             (tempstore removed)
//	pfail = instead of p2: the backend's PutChangeSet fails, Persist merges the swapped-out maps back and returns
//	r1  = Seek()/SeekAsync() runs until the backend's Seek is entered   (snapshot of the top maps taken, ps captured)
//	r2  = the backend scan and the merge run, the reader returns
//
// No sleeps: the harness waits for the arrival of the goroutine at its gate.
package c09kv

import (
	"context"
	"errors"
	"fmt"
	"os"
	"sort"
	"strings"
	"sync/atomic"
	"testing"
	"time"

	"verifharness/internal/vh"

	"github.com/nspcc-dev/neo-go/pkg/core/storage"
)

type arrival struct {
	op      string
	release chan struct{}
}

type gateStore struct {
	inner storage.Store
	on    atomic.Bool
	arr   chan arrival
	// failNext makes the next PutChangeSet fail without writing (Persist's restore path)
	failNext atomic.Bool
}

func (g *gateStore) wait(op string) {
	if !g.on.Load() {
		return
	}
	a := arrival{op: op, release: make(chan struct{})}
	g.arr <- a
	<-a.release
}

func (g *gateStore) Get(k []byte) ([]byte, error) { return g.inner.Get(k) }
var errInjected = errors.New("injected backend failure")

func (g *gateStore) PutChangeSet(p, s map[string][]byte) error {
	g.wait("put")
	if g.failNext.Swap(false) {
		return errInjected // nothing written
	}
	err := g.inner.PutChangeSet(p, s)
	g.wait("putdone")
	return err
}
func (g *gateStore) Seek(rng storage.SeekRange, f func(k, v []byte) bool) {
	g.wait("seek")
	g.inner.Seek(rng, f)
}
func (g *gateStore) SeekGC(rng storage.SeekRange, f func(k, v []byte) (bool, bool)) error {
	return g.inner.SeekGC(rng, f)
}
func (g *gateStore) Close() error { return nil }

// CStep is one step of a schedule (history variable of KVPersistConc).
type CStep struct {
	A     string `json:"a"` // write p1 p2 p3 psync r1 r2 get
	R     int    `json:"r"`
	Batch []pair `json:"batch"`
	Res   []pair `json:"res"`
}

const (
	gateTimeout = 60 * time.Second // everything must have finished by then once all gates are open (else: deadlock)
	stepTimeout = 1500 * time.Millisecond // a step of the schedule that does not get where the model says it gets
)

// errInfeasible: the real code cannot take the schedule's next step at this point (for example a writer blocked
// by a lock the model does not know of). Not a verdict: the schedule is abandoned, all gates are opened, and it only
// becomes an error if the goroutines then fail to finish.
var errInfeasible = errors.New("schedule not feasible on the real code")

type reader struct {
	rel  chan struct{}
	done chan []pair
	fin  chan struct{}
}

func expect(g *gateStore, op string) (arrival, error) {
	select {
	case a := <-g.arr:
		if a.op != op {
			close(a.release)
			return arrival{}, fmt.Errorf("goroutine arrived at gate %q, expected %q", a.op, op)
		}
		return a, nil
	case <-time.After(stepTimeout):
		return arrival{}, fmt.Errorf("%w: no goroutine arrived at gate %q", errInfeasible, op)
	}
}

// bounded runs f in a goroutine and waits for it for at most stepTimeout.
func bounded(fins *[]chan struct{}, f func() error) error {
	fin := make(chan struct{})
	var e error
	*fins = append(*fins, fin)
	go func() { defer close(fin); e = f() }()
	select {
	case <-fin:
		return e
	case <-time.After(stepTimeout):
		return fmt.Errorf("%w: call blocked", errInfeasible)
	}
}

// situation names the circumstances of a step: its kind, whether a reader sits between r1 and r2, and where the
// persister is. Situations in which the real code repeatedly could not take the step are remembered, and schedules
// that would run into one of them are skipped (they cost a timeout each).
func situation(kind string, readersPending int, ppc int) string {
	return fmt.Sprintf("%s/readers=%v/ppc=%d", kind, readersPending > 0, ppc)
}

var infeasibleSeen = map[string]int{}

// feasiblePrefix cuts the schedule before the first step that is known not to be possible in its situation.
func feasiblePrefix(sched []CStep) ([]CStep, bool) {
	ppc, pend := 0, map[int]bool{}
	for i, x := range sched {
		if infeasibleSeen[situation(x.A, len(pend), ppc)] >= 2 {
			return sched[:i], true
		}
		switch x.A {
		case "p1":
			ppc = 1
		case "p2":
			ppc = 2
		case "p3", "pfail":
			ppc = 0
		case "r1":
			pend[x.R] = true
		case "r2":
			delete(pend, x.R)
		}
	}
	return sched, false
}

// runSchedule executes one schedule; returns an error if the schedule could not be reproduced (infrastructure).
func runSchedule(res *vh.Result, tr *vh.Trace, src, bname string, sched []CStep) (err error) {
	b, e := openBackend(bname)
	if e != nil {
		return e
	}
	g := &gateStore{inner: b, arr: make(chan arrival)}
	g.on.Store(true)
	s := storage.NewMemCachedStore(g)
	prefix := []byte{0x70}
	keyset := map[string]bool{}
	for _, st := range sched {
		for _, it := range st.Batch {
			keyset[string(bts(it[0]))] = true
		}
	}
	keys := [][]int{}
	for k := range keyset {
		keys = append(keys, ints([]byte(k)))
	}
	sort.Slice(keys, func(i, j int) bool { return string(bts(keys[i])) < string(bts(keys[j])) })
	tr.Emit(map[string]any{"event": "cinit", "src": src, "backend": bname, "keys": keys})
	var (
		persistDone chan error
		pgate       arrival
		readers     = map[int]*reader{}
		fins        []chan struct{} // closed when the goroutines started by this schedule end
	)
	defer func() {
		if err == nil {
			return
		}
		// never leave goroutines blocked or running into the next schedule: open the gates and wait for them
		g.on.Store(false)
		if pgate.release != nil {
			func() { defer func() { _ = recover() }(); close(pgate.release) }()
		}
		for _, rd := range readers {
			if rd.rel != nil {
				func() { defer func() { _ = recover() }(); close(rd.rel) }()
			}
		}
		deadline := time.After(gateTimeout)
		for _, fin := range fins {
			for open := true; open; {
				select {
				case <-fin:
					open = false
				case a := <-g.arr:
					close(a.release)
				case <-deadline:
					err = fmt.Errorf("goroutines did not finish after all gates were opened (deadlock?): %w", err)
					return
				}
			}
		}
		if errors.Is(err, errInfeasible) {
			res.Inc("schedules_infeasible", 1)
			res.AddDrift(map[string]any{"src": src, "backend": bname, "what": "schedule of KVPersistConc not feasible on the real code", "why": err.Error()})
			err = nil
		}
	}()
	sched = complete(sched)
	if pre, cut := feasiblePrefix(sched); cut {
		res.Inc("schedules_cut_infeasible", 1)
		sched = complete(pre)
	}
	ppc := 0
	for i, st := range sched {
		sit := situation(st.A, len(readers), ppc)
		switch st.A {
		case "p1":
			ppc = 1
		case "p2":
			ppc = 2
		case "p3", "pfail":
			ppc = 0
		}
		defer func(sit string, i int) {
			if errors.Is(err, errInfeasible) && !strings.Contains(err.Error(), "@") {
				err = fmt.Errorf("@%s: %w", sit, err)
				infeasibleSeen[sit]++
			}
		}(sit, i)
		switch st.A {
		case "write":
			p, m := splitMaps(st.Batch)
			if e := bounded(&fins, func() error { return s.PutChangeSet(p, m) }); e != nil {
				return fmt.Errorf("step %d write: %w", i, e)
			}
			tr.Emit(map[string]any{"event": "cwrite", "items": st.Batch})
		case "p1":
			persistDone = make(chan error, 1)
			fin := make(chan struct{})
			fins = append(fins, fin)
			go func() { defer close(fin); _, e := s.Persist(); persistDone <- e }()
			if pgate, err = expect(g, "put"); err != nil {
				return fmt.Errorf("step %d p1: %w", i, err)
			}
			tr.Emit(map[string]any{"event": "cp", "step": "p1"})
		case "p2":
			close(pgate.release)
			pgate.release = nil
			if pgate, err = expect(g, "putdone"); err != nil {
				return fmt.Errorf("step %d p2: %w", i, err)
			}
			tr.Emit(map[string]any{"event": "cp", "step": "p2"})
		case "p3":
			close(pgate.release)
			pgate.release = nil
			select {
			case e := <-persistDone:
				if e != nil {
					return e
				}
			case <-time.After(stepTimeout):
				return fmt.Errorf("step %d p3: %w: Persist did not return", i, errInfeasible)
			}
			tr.Emit(map[string]any{"event": "cp", "step": "p3"})
		case "pfail":
			g.failNext.Store(true)
			close(pgate.release)
			pgate.release = nil
			select {
			case e := <-persistDone:
				if !errors.Is(e, errInjected) {
					return fmt.Errorf("step %d pfail: Persist returned %v instead of the injected error", i, e)
				}
			case <-time.After(stepTimeout):
				return fmt.Errorf("step %d pfail: %w: Persist did not return", i, errInfeasible)
			}
			tr.Emit(map[string]any{"event": "cp", "step": "pfail"})
		case "psync":
			g.on.Store(false) // PersistSync holds the lock across the write: one atomic step
			e := bounded(&fins, func() error { _, e := s.PersistSync(); return e })
			g.on.Store(true)
			if e != nil {
				return fmt.Errorf("step %d psync: %w", i, e)
			}
			tr.Emit(map[string]any{"event": "cp", "step": "psync"})
		case "r1":
			rd := &reader{done: make(chan []pair, 1), fin: make(chan struct{})}
			readers[st.R] = rd
			fins = append(fins, rd.fin)
			rng := storage.SeekRange{Prefix: prefix}
			async := st.R%2 == 0
			go func() {
				out := []pair{}
				defer func() {
					if p := recover(); p != nil {
						out = append(out, pair{[]int{-9}, []int{-9}})
					}
					rd.done <- out
					close(rd.fin)
				}()
				if async {
					for kv := range s.SeekAsync(context.Background(), rng, false) {
						out = append(out, pair{ints(kv.Key), ints(kv.Value)})
					}
				} else {
					s.Seek(rng, collect(&out))
				}
			}()
			a, e := expect(g, "seek")
			if e != nil {
				return fmt.Errorf("step %d r1: %w", i, e)
			}
			rd.rel = a.release
			tr.Emit(map[string]any{"event": "cr1", "r": st.R})
		case "r2":
			rd := readers[st.R]
			if rd == nil {
				return errors.New("r2 without r1")
			}
			close(rd.rel)
			rd.rel = nil
			var out []pair
			select {
			case out = <-rd.done:
			case <-time.After(stepTimeout):
				return fmt.Errorf("step %d r2: %w: reader did not return", i, errInfeasible)
			}
			delete(readers, st.R)
			if len(out) > 0 && len(out[len(out)-1][0]) == 1 && out[len(out)-1][0][0] == -9 {
				res.Violate(map[string]any{"kind": "panic", "op": "seek-concurrent", "backend": bname}, "Go panic in a concurrent Seek",
					map[string]any{"src": src, "backend": bname, "schedule": sched})
				return nil
			}
			tr.Emit(map[string]any{"event": "cr2", "r": st.R, "res": out})
			res.Count([]any{"cseek", trail(sched[:i+1]), out})
			if st.Res != nil && !samePairs(st.Res, out) {
				res.AddDrift(map[string]any{"src": src, "backend": bname, "what": "concurrent Seek answer differs from the KVPersistConc prediction",
					"step": i, "predicted": st.Res, "observed": out})
				res.Inc("drift", 1)
			}
		case "get":
			k := bts(st.Batch[0][0])
			var v []byte
			e := bounded(&fins, func() error { var e error; v, e = s.Get(k); return e })
			r := notFound
			if e == nil {
				r = ints(v)
			} else if !errors.Is(e, storage.ErrKeyNotFound) {
				return fmt.Errorf("step %d get: %w", i, e)
			}
			tr.Emit(map[string]any{"event": "cget", "key": st.Batch[0][0], "res": r})
			res.Count([]any{"cget", trail(sched[:i+1]), r})
		default:
			return errors.New("unknown schedule step " + st.A)
		}
	}
	res.Traces++
	if res.Traces%53 == 2 {
		res.Sample(map[string]any{"src": src, "backend": bname, "schedule": sched})
	}
	return nil
}

// complete appends the steps that finish a pending Persist and pending readers, so that no goroutine outlives
// its schedule (TLC simulation behaviours are cut at a depth bound).
func complete(s []CStep) []CStep {
	ppc := 0
	pending := map[int]bool{}
	order := []int{}
	for _, x := range s {
		switch x.A {
		case "p1":
			ppc = 1
		case "p2":
			ppc = 2
		case "p3", "pfail":
			ppc = 0
		case "r1":
			pending[x.R] = true
			order = append(order, x.R)
		case "r2":
			delete(pending, x.R)
		}
	}
	out := append([]CStep{}, s...)
	if ppc == 1 {
		out = append(out, CStep{A: "p2"})
	}
	if ppc >= 1 {
		out = append(out, CStep{A: "p3"})
	}
	for _, r := range order {
		if pending[r] {
			out = append(out, CStep{A: "r2", R: r})
			delete(pending, r)
		}
	}
	return out
}

func trail(s []CStep) string {
	t := ""
	for _, x := range s {
		t += x.A + fmt.Sprint(x.R) + fmt.Sprint(x.Batch) + ";"
	}
	return t
}

func TestConcDriver(t *testing.T) {
	res := vh.NewResult()
	tr := vh.NewTrace("trace.ndjson")
	defer closeBackends()
	var scheds [][]CStep
	if err := vh.ReadJSON("conc.json", &scheds); err != nil {
		t.Fatalf("no schedules: %v", err)
	}
	failed := 0
	bs := backends
	if b := os.Getenv("VERIF_BACKENDS"); b != "" {
		bs = []string{b}
	}
	for i, s := range scheds {
		for _, b := range bs {
			if err := runSchedule(res, tr, fmt.Sprintf("conc-%d", i), b, s); err != nil {
				t.Logf("schedule %d on %s not reproduced: %v", i, b, err)
				failed++
			}
		}
	}
	res.Inc("replayed_schedules", len(scheds))
	res.Inc("schedules_not_reproduced", failed)
	tr.Close()
	sort.Strings(res.Distinct)
	if err := res.Write(); err != nil {
		t.Fatal(err)
	}
	if failed > 0 {
		t.Fatalf("%d schedules could not be reproduced", failed)
	}
}
