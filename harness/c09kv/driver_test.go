// Driver for C09: executes TLC-generated cases / behaviours and seeded random histories on real
// MemCachedStore stacks (shared, private, through dao.Simple) over MemoryStore, BoltDB and LevelDB,
// and records every write, layer operation and every answer of Get / Seek / SeekAsync / SeekGC /
// dao.Seek / dao.SeekAsync / System.Storage.Find for validation by KVTrace.tla.  The concurrent
// part (gate_test.go) replays writer / Persist / reader interleavings through a gating backend.
package c09kv

import (
	"bytes"
	"context"
	"encoding/binary"
	"errors"
	"fmt"
	"math/big"
	"math/rand"
	"os"
	"path/filepath"
	"runtime"
	"sort"
	"testing"

	"verifharness/internal/vh"

	"github.com/nspcc-dev/neo-go/pkg/core/dao"
	"github.com/nspcc-dev/neo-go/pkg/core/interop"
	istorage "github.com/nspcc-dev/neo-go/pkg/core/interop/storage"
	"github.com/nspcc-dev/neo-go/pkg/core/storage"
	"github.com/nspcc-dev/neo-go/pkg/core/storage/dbconfig"
	"github.com/nspcc-dev/neo-go/pkg/vm"
	"github.com/nspcc-dev/neo-go/pkg/vm/stackitem"
)

// ---------------------------------------------------------------- plumbing

func ints(b []byte) []int {
	r := make([]int, len(b))
	for i, x := range b {
		r[i] = int(x)
	}
	return r
}

func bts(a []int) []byte {
	r := make([]byte, len(a))
	for i, x := range a {
		r[i] = byte(x)
	}
	return r
}

type pair [2][]int // [key, value]; value [-1] = deletion

var tomb = []int{-1}
var notFound = []int{-2}

func isTomb(v []int) bool { return len(v) == 1 && v[0] == -1 }

// Op is one step of a sequential history (also the replay format).
type Op struct {
	Op     string `json:"op"` // push drop put del batch persist get seek seekgc
	At     int    `json:"at"`
	Kind   string `json:"kind,omitempty"` // push: shared|private; persist: persist|sync|pp (PersistPrivate)
	Key    []int  `json:"key,omitempty"`
	Val    []int  `json:"val,omitempty"`
	Items  []pair `json:"items,omitempty"`
	Prefix []int  `json:"prefix,omitempty"`
	Start  []int  `json:"start,omitempty"`
	Back   bool   `json:"back,omitempty"`
	Depth  int    `json:"depth,omitempty"`
	API    string `json:"api,omitempty"` // Seek SeekAsync SeekAsyncCut dao.Seek dao.SeekAsync Find FindRP
	Pop    bool   `json:"pop,omitempty"`
	Limit  int    `json:"limit,omitempty"` // seek through a callback: stop after that many items (0 = no limit)
	Impl   []pair `json:"impl,omitempty"` // prediction of the implementation-shaped model (untrimmed keys), if any
	HasImp bool   `json:"hasimpl,omitempty"`
}

type lay struct {
	st   *storage.MemCachedStore
	d    *dao.Simple
	priv bool
}

type world struct {
	bname   string
	backend storage.Store
	L       []*lay // L[0] unused (backend)
	useDao  bool
	tr      *vh.Trace
	res     *vh.Result
	src     string
	done    []Op
	nAsync  int
	hasImpl bool
}

var (
	workDir  string
	boltDB   storage.Store
	levelDB  storage.Store
	dbSerial int
)

func scratch() string {
	if workDir == "" {
		base := os.Getenv("VERIF_WORK")
		if base == "" {
			base = os.TempDir()
		}
		workDir = filepath.Join(base, "c09db")
		_ = os.RemoveAll(workDir)
		_ = os.MkdirAll(workDir, 0o755)
	}
	return workDir
}

func clearDisk(s storage.Store) error {
	return s.SeekGC(storage.SeekRange{}, func(k, v []byte) (bool, bool) { return false, true })
}

// openBackend returns an EMPTY backend of the named kind. The BoltDB database is opened once and emptied
// between histories (through its own SeekGC with an empty prefix, which the disk backends support).
func openBackend(name string) (storage.Store, error) {
	switch name {
	case "memory":
		return storage.NewMemoryStore(), nil
	case "bolt":
		if boltDB == nil {
			dbSerial++
			s, err := storage.NewBoltDBStore(dbconfig.BoltDBOptions{FilePath: filepath.Join(scratch(), fmt.Sprintf("b%d.bolt", dbSerial))})
			if err != nil {
				return nil, err
			}
			boltDB = s
		}
		return boltDB, clearDisk(boltDB)
	case "leveldb":
		// a fresh database per history: the pinned goleveldb loses / resurrects keys when one database is
		// emptied and refilled hundreds of times through transactions (reported separately, see TestLevelDBChurn)
		if levelDB != nil {
			_ = levelDB.Close()
			levelDB = nil
			_ = os.RemoveAll(filepath.Join(scratch(), fmt.Sprintf("l%d", dbSerial)))
		}
		dbSerial++
		s, err := storage.NewLevelDBStore(dbconfig.LevelDBOptions{DataDirectoryPath: filepath.Join(scratch(), fmt.Sprintf("l%d", dbSerial))})
		if err != nil {
			return nil, err
		}
		levelDB = s
		return levelDB, nil
	}
	return nil, errors.New("unknown backend " + name)
}

func closeBackends() {
	if boltDB != nil {
		_ = boltDB.Close()
		boltDB = nil
	}
	if levelDB != nil {
		_ = levelDB.Close()
		levelDB = nil
	}
}

func isStor(k []byte) bool {
	return len(k) > 0 && (k[0] == byte(storage.STStorage) || k[0] == byte(storage.STTempStorage))
}

func splitMaps(items []pair) (map[string][]byte, map[string][]byte) {
	puts, stor := map[string][]byte{}, map[string][]byte{}
	for _, it := range items {
		k := bts(it[0])
		var v []byte
		if !isTomb(it[1]) {
			v = bts(it[1])
		}
		if isStor(k) {
			stor[string(k)] = v
		} else {
			puts[string(k)] = v
		}
	}
	return puts, stor
}

// daoShaped reports whether key/prefix is STStorage ++ 4 id bytes ++ rest, and returns id and rest.
func daoShaped(k []byte) (int32, []byte, bool) {
	if len(k) < 5 || k[0] != byte(storage.STStorage) {
		return 0, nil, false
	}
	return int32(binary.LittleEndian.Uint32(k[1:5])), k[5:], true
}

func (w *world) top() int { return len(w.L) - 1 }

func (w *world) storeAt(at int) storage.Store {
	if at == 0 {
		return w.backend
	}
	return w.L[at].st
}

func (w *world) emit(ev map[string]any) { w.tr.Emit(ev) }

// ---------------------------------------------------------------- execution of one op

func collect(dst *[]pair) func(k, v []byte) bool { return collectN(dst, 0) }

// collectN stops the iteration (returns false) once limit items were delivered.
func collectN(dst *[]pair, limit int) func(k, v []byte) bool {
	return func(k, v []byte) bool {
		*dst = append(*dst, pair{ints(k), ints(v)})
		return limit == 0 || len(*dst) < limit
	}
}

func (w *world) find(at int, id int32, userPrefix []byte, opts int64) ([]pair, error) {
	ic := &interop.Context{DAO: w.L[at].d, VM: vm.New()}
	defer ic.Finalize()
	ic.VM.Estack().PushItem(stackitem.NewBigInteger(big.NewInt(opts)))
	ic.VM.Estack().PushItem(stackitem.NewByteArray(userPrefix))
	ic.VM.Estack().PushItem(stackitem.NewInterop(&istorage.Context{ID: id}))
	if err := istorage.Find(ic); err != nil {
		return nil, err
	}
	it, ok := ic.VM.Estack().Pop().Value().(*istorage.Iterator)
	if !ok {
		return nil, errors.New("Find did not push an iterator")
	}
	out := []pair{}
	for it.Next() {
		st, ok := it.Value().Value().([]stackitem.Item)
		if !ok || len(st) != 2 {
			return nil, errors.New("unexpected iterator value")
		}
		k, err1 := st[0].TryBytes()
		v, err2 := st[1].TryBytes()
		if err1 != nil || err2 != nil {
			return nil, errors.New("unexpected iterator item types")
		}
		out = append(out, pair{ints(k), ints(v)})
		// "Find, then Get inside the loop": point reads through the same DAO while the iterator is open
		_ = w.L[at].d.GetStorageItem(id+1, []byte{0xee, byte(len(out))})
		_ = w.L[at].d.GetStorageItem(id, append([]byte{0xee}, k...))
	}
	return out, nil
}

// exec executes one op on the real objects and emits the trace event. It returns false if the history has to
// be abandoned (panic).
func (w *world) exec(o Op) (ok bool) {
	w.done = append(w.done, o)
	defer func() {
		if p := recover(); p != nil {
			w.res.Violate(map[string]any{"kind": "panic", "op": o.Op, "api": o.API, "backend": w.bname},
				fmt.Sprintf("Go panic escaped %s: %v", o.Op, p), map[string]any{"src": w.src, "backend": w.bname, "dao": w.useDao, "ops": w.done})
			ok = false
		}
	}()
	switch o.Op {
	case "push":
		priv := o.Kind == "private"
		n := &lay{priv: priv}
		if w.useDao {
			if w.top() == 0 {
				n.d = dao.NewSimple(w.backend, false)
				if priv { // a private layer needs a dao below it: wrap once more
					w.L = append(w.L, &lay{st: n.d.Store, d: n.d})
					w.emit(map[string]any{"event": "push", "kind": "shared"})
					n = &lay{priv: true, d: n.d.GetPrivate()}
				}
			} else if priv {
				n.d = w.L[w.top()].d.GetPrivate()
			} else {
				n.d = w.L[w.top()].d.GetWrapped()
			}
			n.st = n.d.Store
		} else if priv {
			n.st = storage.NewPrivateMemCachedStore(w.storeAt(w.top()))
		} else {
			n.st = storage.NewMemCachedStore(w.storeAt(w.top()))
		}
		w.L = append(w.L, n)
		w.emit(map[string]any{"event": "push", "kind": o.Kind})
	case "drop":
		w.L = w.L[:w.top()]
		w.emit(map[string]any{"event": "drop"})
	case "put", "del":
		k := bts(o.Key)
		var v []byte
		if o.Op == "put" {
			v = bts(o.Val)
		}
		if o.At == 0 {
			p, s := splitMaps([]pair{{o.Key, ifTomb(o.Op == "del", o.Val)}})
			if err := w.backend.PutChangeSet(p, s); err != nil {
				panic(err)
			}
		} else if id, rest, shaped := daoShaped(k); shaped && w.L[o.At].d != nil && len(o.Key)%2 == 0 {
			if o.Op == "put" {
				w.L[o.At].d.PutStorageItem(id, rest, v)
			} else {
				w.L[o.At].d.DeleteStorageItem(id, rest)
			}
		} else if o.Op == "put" {
			w.L[o.At].st.Put(k, v)
		} else {
			w.L[o.At].st.Delete(k)
		}
		ev := map[string]any{"event": o.Op, "at": o.At, "key": o.Key}
		if o.Op == "put" {
			ev["val"] = o.Val
		}
		w.emit(ev)
	case "batch":
		p, s := splitMaps(o.Items)
		if err := w.storeAt(o.At).PutChangeSet(p, s); err != nil {
			panic(err)
		}
		w.emit(map[string]any{"event": "batch", "at": o.At, "items": o.Items})
	case "persist":
		l := w.L[o.At]
		var err error
		switch {
		case o.Kind == "pp" && o.At >= 2 && l.priv && o.At == w.top():
			if l.d != nil && w.L[o.At-1].d != nil {
				w.L[o.At-1].d.PersistPrivate(l.d)
			} else {
				w.L[o.At-1].st.PersistPrivate(l.st)
			}
		case o.Kind == "sync" && !l.priv:
			if l.d != nil {
				_, err = l.d.PersistSync()
			} else {
				_, err = l.st.PersistSync()
			}
		default:
			if l.d != nil {
				_, err = l.d.Persist()
			} else {
				_, err = l.st.Persist()
			}
		}
		if err != nil {
			panic(err)
		}
		pop := o.Pop || l.priv
		if pop {
			if o.At != w.top() {
				panic("harness: pop of a non-top layer")
			}
			w.L = w.L[:w.top()]
		}
		w.emit(map[string]any{"event": "persist", "at": o.At, "pop": pop, "kind": o.Kind})
	case "get":
		k := bts(o.Key)
		var (
			v   []byte
			err error
		)
		if id, rest, shaped := daoShaped(k); o.At > 0 && shaped && w.L[o.At].d != nil && len(o.Key)%2 == 1 {
			si := w.L[o.At].d.GetStorageItem(id, rest)
			if si == nil {
				err = storage.ErrKeyNotFound
			}
			v = si
		} else {
			v, err = w.storeAt(o.At).Get(k)
		}
		r := notFound
		if err == nil {
			r = ints(v)
		} else if !errors.Is(err, storage.ErrKeyNotFound) {
			panic(err)
		}
		w.emit(map[string]any{"event": "get", "at": o.At, "key": o.Key, "res": r})
		w.res.Count([]any{"get", o.Key, r})
	case "seek":
		rng := storage.SeekRange{Prefix: bts(o.Prefix), Start: bts(o.Start), Backwards: o.Back, SearchDepth: o.Depth}
		out := []pair{}
		cutlen := 0
		after := func() {}
		api := o.API
		id, userPrefix, shaped := daoShaped(rng.Prefix)
		if (api == "dao.Seek" || api == "dao.SeekAsync" || api == "Find" || api == "FindRP") && (!shaped || o.At == 0 || w.L[o.At].d == nil) {
			api = "SeekAsyncCut"
		}
		if o.At == 0 {
			api = "Seek"
		}
		limit := 0
		if api == "Seek" || api == "dao.Seek" {
			limit = o.Limit
		}
		switch api {
		case "Seek":
			w.storeAt(o.At).Seek(rng, collectN(&out, limit))
		case "SeekAsync", "SeekAsyncCut":
			cut := api == "SeekAsyncCut"
			if cut {
				cutlen = len(rng.Prefix)
			}
			after = w.writeAfterCall(o.At, rng, func() <-chan storage.KeyValue { return w.L[o.At].st.SeekAsync(context.Background(), rng, cut) }, &out)
		case "dao.Seek":
			cutlen = len(rng.Prefix)
			r2 := rng
			r2.Prefix = userPrefix
			w.L[o.At].d.Seek(id, r2, collectN(&out, limit))
		case "dao.SeekAsync":
			cutlen = len(rng.Prefix)
			r2 := rng
			r2.Prefix = userPrefix
			for kv := range w.L[o.At].d.SeekAsync(context.Background(), id, r2) {
				out = append(out, pair{ints(kv.Key), ints(kv.Value)})
				// what a contract does while it iterates: point reads through the same DAO (they change no state)
				_ = w.L[o.At].d.GetStorageItem(id+1, []byte{0xee, byte(len(out))})
				_ = w.L[o.At].d.GetStorageItem(id, append([]byte{0xee}, kv.Key...))
			}
		case "Find", "FindRP":
			// System.Storage.Find: no start point, full depth; options RemovePrefix / Backwards
			var opts int64
			cutlen = 5
			if api == "FindRP" {
				opts |= istorage.FindRemovePrefix
				cutlen = len(rng.Prefix)
			}
			if o.Back {
				opts |= istorage.FindBackwards
			}
			o.Start, o.Depth = nil, 0
			var err error
			out, err = w.find(o.At, id, userPrefix, opts)
			if err != nil {
				panic(err)
			}
		default:
			panic("harness: unknown api " + api)
		}
		st := o.Start
		if st == nil {
			st = []int{}
		}
		w.emit(map[string]any{"event": "seek", "at": o.At, "prefix": o.Prefix, "start": st, "back": o.Back,
			"depth": o.Depth, "cutlen": cutlen, "api": api, "limit": limit, "res": out})
		w.res.Count([]any{"seek", api, o.Prefix, st, o.Back, o.Depth, out})
		after()
		if o.HasImp {
			pred := make([]pair, len(o.Impl))
			for i, p := range o.Impl {
				pred[i] = pair{p[0][min(cutlen, len(p[0])):], p[1]}
			}
			if !samePairs(pred, out) {
				w.res.AddDrift(map[string]any{"src": w.src, "backend": w.bname, "what": "answer differs from the KVSeekImpl (code-as-it-is) prediction",
					"prefix": o.Prefix, "start": st, "back": o.Back, "depth": o.Depth, "api": api, "predicted": pred, "observed": out})
				w.res.Inc("drift", 1)
			}
		}
	case "seekgc":
		rng := storage.SeekRange{Prefix: bts(o.Prefix), Start: bts(o.Start), Backwards: o.Back}
		visited := []pair{}
		removed := [][]int{}
		err := w.backend.SeekGC(rng, func(k, v []byte) (bool, bool) {
			visited = append(visited, pair{ints(k), ints(v)})
			keep := (len(k)+int(k[len(k)-1]))%2 == 1
			if !keep {
				removed = append(removed, ints(k))
			}
			return keep, true
		})
		if err != nil {
			panic(err)
		}
		st := o.Start
		if st == nil {
			st = []int{}
		}
		w.emit(map[string]any{"event": "seekgc", "prefix": o.Prefix, "start": st, "back": o.Back, "visited": visited, "removed": removed})
		w.res.Count([]any{"seekgc", o.Prefix, st, o.Back, visited})
	default:
		panic("harness: unknown op " + o.Op)
	}
	return true
}

func ifTomb(del bool, v []int) []int {
	if del {
		return tomb
	}
	return v
}

func samePairs(a, b []pair) bool {
	if len(a) != len(b) {
		return false
	}
	for i := range a {
		if !sameInts(a[i][0], b[i][0]) || !sameInts(a[i][1], b[i][1]) {
			return false
		}
	}
	return true
}

func sameInts(a, b []int) bool {
	if len(a) != len(b) {
		return false
	}
	for i := range a {
		if a[i] != b[i] {
			return false
		}
	}
	return true
}

// runHistory executes a history on one backend.
func runHistory(res *vh.Result, tr *vh.Trace, src, bname string, useDao bool, ops []Op) {
	b, err := openBackend(bname)
	if err != nil {
		panic(err)
	}
	w := &world{bname: bname, backend: b, L: []*lay{nil}, useDao: useDao, tr: tr, res: res, src: src}
	tr.Emit(map[string]any{"event": "init", "src": src, "backend": bname, "dao": useDao})
	for _, o := range ops {
		w.hasImpl = w.hasImpl || o.HasImp
	}
	for _, o := range ops {
		if !w.exec(o) {
			break
		}
	}
	res.Traces++
	if res.Traces%97 == 1 {
		n := len(ops)
		if n > 25 {
			n = 25
		}
		res.Sample(map[string]any{"src": src, "backend": bname, "dao": useDao, "first_ops": ops[:n]})
	}
}

// ---------------------------------------------------------------- generators

var alphabet = []byte{0x00, 0x70, 0xff, 0x01, 0xfe, 0x71}

type gen struct {
	r     *rand.Rand
	pool  [][]byte
	daoID []byte
	ops   []Op
	kinds []string // kind of layer i (index 0 unused)
	nval  int
	dao   bool
}

func (g *gen) pick(p []byte, n int) byte {
	return p[g.r.Intn(min(n, len(p)))]
}

func (g *gen) newKey() []byte {
	r := g.r
	if len(g.pool) >= 2 && r.Intn(3) > 0 {
		a := g.pool[r.Intn(len(g.pool))]
		switch r.Intn(6) {
		case 0: // extension
			return append(append([]byte{}, a...), g.pick(alphabet, 5))
		case 1: // truncation
			if len(a) > 1 {
				return append([]byte{}, a[:1+r.Intn(len(a)-1)]...)
			}
		case 2: // a prefix of a key prepended to the key itself (keys repeating their own prefix)
			n := 1 + r.Intn(len(a))
			return append(append([]byte{}, a[:n]...), a...)
		case 3: // a prefix of one key prepended to another key
			b := g.pool[r.Intn(len(g.pool))]
			n := 1 + r.Intn(len(a))
			return append(append([]byte{}, a[:n]...), b...)
		case 4: // neighbour: last byte changed
			c := append([]byte{}, a...)
			c[len(c)-1] = g.pick(alphabet, 5)
			if len(c) == 1 {
				c[0] = a[0]
			}
			return c
		}
	}
	var k []byte
	switch x := r.Intn(10); {
	case x < 6:
		k = []byte{0x70}
	case x < 7:
		k = []byte{0x71}
	case x < 8:
		k = []byte{0x05}
	default:
		k = []byte{0x72}
	}
	if g.dao && k[0] == 0x70 && r.Intn(4) > 0 {
		k = append(k, g.daoID...)
	}
	n := r.Intn(4)
	for i := 0; i < n; i++ {
		k = append(k, g.pick(alphabet, 5))
	}
	return k
}

func (g *gen) key() []byte {
	if len(g.pool) < 4 || (len(g.pool) < 14 && g.r.Intn(3) == 0) {
		k := g.newKey()
		if len(k) > 24 {
			k = k[:24]
		}
		g.pool = append(g.pool, k)
		return k
	}
	return g.pool[g.r.Intn(len(g.pool))]
}

func (g *gen) val() []int {
	g.nval++
	if g.r.Intn(9) == 0 {
		return []int{} // an EMPTY value is a value (present key), not a deletion
	}
	if g.r.Intn(6) == 0 {
		return []int{g.nval % 251, 0, g.nval / 251}
	}
	return []int{g.nval % 251, 1 + g.nval/251}
}

func (g *gen) top() int { return len(g.kinds) - 1 }

// readOps appends n reads at the layers of the current stack, with ranges derived from the key pool.
func (g *gen) readOps(n int) {
	r := g.r
	for i := 0; i < n; i++ {
		at := g.top()
		if r.Intn(4) == 0 {
			at = r.Intn(g.top() + 1)
		}
		if r.Intn(4) == 0 {
			k := g.pool[r.Intn(len(g.pool))]
			g.ops = append(g.ops, Op{Op: "get", At: at, Key: ints(k)})
			continue
		}
		a := g.pool[r.Intn(len(g.pool))]
		// prefix: a non-empty prefix of a key; start: derived from the rest of that or of another key
		pl := 1 + r.Intn(len(a))
		if g.dao && len(a) >= 5 && r.Intn(3) > 0 {
			pl = 5 + r.Intn(len(a)-4)
		}
		prefix := a[:pl]
		var start []byte
		switch r.Intn(6) {
		case 0, 1:
		case 2:
			start = a[pl:]
		case 3:
			rest := a[pl:]
			if len(rest) > 0 {
				start = rest[:1+r.Intn(len(rest))]
			}
		case 4:
			b := g.pool[r.Intn(len(g.pool))]
			if len(b) > pl {
				start = b[pl : pl+1+r.Intn(len(b)-pl)]
			} else {
				start = []byte{g.pick(alphabet, 5)}
			}
		case 5:
			rest := a[pl:]
			if len(rest) > 0 {
				start = append(append([]byte{}, rest[:r.Intn(len(rest))]...), g.pick(alphabet, 5))
			} else {
				start = []byte{g.pick(alphabet, 5)}
			}
		}
		o := Op{Op: "seek", At: at, Prefix: ints(prefix), Start: ints(start), Back: r.Intn(2) == 0}
		if r.Intn(3) == 0 {
			o.Depth = r.Intn(6)
		}
		if r.Intn(5) == 0 && !(o.Back && len(o.Start) > 0) {
			o.Limit = 1 + r.Intn(3)
		}
		switch x := r.Intn(12); {
		case x < 3:
			o.API = "Seek"
		case x < 4:
			o.API = "SeekAsync"
		case x < 7:
			o.API = "SeekAsyncCut"
		case x < 8:
			o.API = "dao.Seek"
		case x < 10:
			o.API = "dao.SeekAsync"
		case x < 11:
			o.API = "Find"
		default:
			o.API = "FindRP"
		}
		g.ops = append(g.ops, o)
	}
}

func randomHistory(r *rand.Rand, useDao bool, nsteps, reads int) []Op {
	g := &gen{r: r, kinds: []string{""}, dao: useDao}
	ids := [][]byte{{0x70, 0x70, 0x70, 0x70}, {0x01, 0x00, 0x00, 0x00}, {0xff, 0xff, 0xff, 0xff}, {0x70, 0x00, 0xff, 0x70}}
	g.daoID = ids[r.Intn(len(ids))]
	push := func() {
		kind := "shared"
		if r.Intn(3) == 0 {
			kind = "private"
		}
		g.ops = append(g.ops, Op{Op: "push", Kind: kind})
		if useDao && g.top() == 0 && kind == "private" {
			g.kinds = append(g.kinds, "shared")
		}
		g.kinds = append(g.kinds, kind)
	}
	push()
	for i := 0; i < 3; i++ {
		g.key()
	}
	if useDao && r.Intn(3) == 0 {
		// one contract with many items that reach the BACKEND before they are iterated: the lower scan of a range
		// read is lazy there, so what happens between two delivered items (point reads of the iterating contract,
		// see the reads) meets a scan in progress
		base := append([]byte{0x70}, g.daoID...)
		if r.Intn(2) == 0 {
			base = append(base, g.pick(alphabet, 5))
		}
		n := 6 + r.Intn(7)
		for i := 0; i < n; i++ {
			k := append(append([]byte{}, base...), byte(0x10+i*7))
			if r.Intn(3) == 0 {
				k = append(k, g.pick(alphabet, 5))
			}
			g.pool = append(g.pool, k)
			g.ops = append(g.ops, Op{Op: "put", At: g.top(), Key: ints(k), Val: g.val()})
		}
		g.ops = append(g.ops, Op{Op: "persist", At: 1, Kind: "persist"})
		g.readOps(reads)
	}
	for s := 0; s < nsteps; s++ {
		top := g.top()
		switch x := r.Intn(100); {
		case x < 40: // put
			at := top
			if r.Intn(8) == 0 {
				at = r.Intn(top + 1)
				if at > 0 && at < top && g.kinds[at] == "private" {
					at = top
				}
			}
			g.ops = append(g.ops, Op{Op: "put", At: at, Key: ints(g.key()), Val: g.val()})
		case x < 55: // delete
			at := top
			if r.Intn(8) == 0 {
				at = r.Intn(top + 1)
				if at > 0 && at < top && g.kinds[at] == "private" {
					at = top
				}
			}
			g.ops = append(g.ops, Op{Op: "del", At: at, Key: ints(g.key())})
		case x < 62: // batch
			n := 1 + r.Intn(4)
			items := []pair{}
			seen := map[string]bool{}
			for j := 0; j < n; j++ {
				k := g.key()
				if seen[string(k)] {
					continue
				}
				seen[string(k)] = true
				v := g.val()
				if r.Intn(3) == 0 {
					v = tomb
				}
				items = append(items, pair{ints(k), v})
			}
			at := top
			if r.Intn(5) == 0 {
				at = r.Intn(top + 1)
				if at > 0 && at < top && g.kinds[at] == "private" {
					at = top
				}
			}
			g.ops = append(g.ops, Op{Op: "batch", At: at, Items: items})
		case x < 72: // new layer
			if top < 4 {
				push()
			}
		case x < 90: // persist some layer
			at := 1 + r.Intn(top)
			if g.kinds[at] == "private" && at != top {
				at = top
			}
			o := Op{Op: "persist", At: at, Kind: "persist"}
			if g.kinds[at] == "private" {
				if r.Intn(2) == 0 && at >= 2 {
					o.Kind = "pp"
				}
				o.Pop = true
			} else {
				if r.Intn(3) == 0 {
					o.Kind = "sync"
				}
				if at == top && top > 1 && r.Intn(3) == 0 {
					o.Pop = true
				}
			}
			g.ops = append(g.ops, o)
			if o.Pop {
				g.kinds = g.kinds[:top]
			}
			if g.top() == 0 {
				push()
			}
		case x < 94: // discard the top layer
			if top > 1 {
				g.ops = append(g.ops, Op{Op: "drop"})
				g.kinds = g.kinds[:top]
			}
		default: // SeekGC on the backend
			a := g.pool[r.Intn(len(g.pool))]
			pl := 1 + r.Intn(len(a))
			o := Op{Op: "seekgc", Prefix: ints(a[:pl]), Back: r.Intn(2) == 0}
			if r.Intn(2) == 0 && len(a) > pl {
				o.Start = ints(a[pl : pl+1+r.Intn(len(a)-pl)])
			}
			g.ops = append(g.ops, o)
		}
		g.readOps(reads)
	}
	return g.ops
}

// SimStep is one step of a KVSim behaviour (TLC simulation of the stack actions of KVSeekImpl).
type SimStep struct {
	Op  string `json:"op"` // init put del push flush pop
	Key []int  `json:"key"`
	At  int    `json:"at"`
}

// fromSim turns a TLC behaviour into a history: layer kinds are chosen so that the behaviour is legal
// (a layer is private only if its next persist is a pop), values are fresh, and reads over the universe of the
// model (prefixes / starts over the same alphabet) follow every step.
func fromSim(r *rand.Rand, sim []SimStep, reads int) []Op {
	g := &gen{r: r, kinds: []string{""}}
	for _, s := range sim {
		if len(s.Key) > 0 {
			g.pool = append(g.pool, bts(s.Key))
		}
	}
	for _, x := range [][]byte{{0x70}, {0x70, 0x70}, {0x70, 0xff}, {0x70, 0x70, 0xff}, {0x70, 0x00}, {0x70, 0xff, 0xff}} {
		g.pool = append(g.pool, x)
	}
	kindOf := func(i, level int) string {
		// private only if the next persist of `level` (while it is on top) is a pop
		depth := level
		for _, s := range sim[i+1:] {
			switch s.Op {
			case "push":
				depth++
			case "pop":
				if depth == level {
					if r.Intn(2) == 0 {
						return "private"
					}
					return "shared"
				}
				depth--
			case "flush":
				if s.At == level {
					return "shared"
				}
			}
		}
		return "shared"
	}
	g.kinds = append(g.kinds, "shared")
	g.ops = append(g.ops, Op{Op: "push", Kind: "shared"})
	for i, s := range sim {
		switch s.Op {
		case "init":
			continue
		case "put":
			g.ops = append(g.ops, Op{Op: "put", At: g.top(), Key: s.Key, Val: g.val()})
		case "del":
			g.ops = append(g.ops, Op{Op: "del", At: g.top(), Key: s.Key})
		case "push":
			k := kindOf(i, g.top()+1)
			g.ops = append(g.ops, Op{Op: "push", Kind: k})
			g.kinds = append(g.kinds, k)
		case "flush":
			kind := "persist"
			if r.Intn(3) == 0 {
				kind = "sync"
			}
			g.ops = append(g.ops, Op{Op: "persist", At: s.At, Kind: kind})
		case "pop":
			kind := "persist"
			if g.kinds[g.top()] == "private" && r.Intn(2) == 0 {
				kind = "pp"
			}
			g.ops = append(g.ops, Op{Op: "persist", At: g.top(), Kind: kind, Pop: true})
			g.kinds = g.kinds[:g.top()]
		}
		g.readOps(reads)
	}
	return g.ops
}

// Case is one (stack, range) pair printed by the exhaustive run of KVSeekImpl (code as it is) on which the model
// of the code differs from the reference: a model-level counterexample, decided here on the real stores.
type Case struct {
	Backend string   `json:"backend"`
	Disk    []pair   `json:"disk"`
	Stack   [][]pair `json:"stack"`
	Prefix  []int    `json:"prefix"`
	Start   []int    `json:"start"`
	Back    bool     `json:"back"`
	Depth   int      `json:"depth"`
	Cut     bool     `json:"cut"`
	Impl    []pair   `json:"impl"`
	Cls     string   `json:"cls"`
}

func fromCase(c Case) []Op {
	ops := []Op{}
	if len(c.Disk) > 0 {
		ops = append(ops, Op{Op: "batch", At: 0, Items: c.Disk})
	}
	for i, l := range c.Stack {
		ops = append(ops, Op{Op: "push", Kind: "shared"})
		for _, it := range l {
			if isTomb(it[1]) {
				ops = append(ops, Op{Op: "del", At: i + 1, Key: it[0]})
			} else {
				ops = append(ops, Op{Op: "put", At: i + 1, Key: it[0], Val: it[1]})
			}
		}
	}
	api := "Seek"
	if c.Cut {
		api = "SeekAsyncCut"
	}
	impl := c.Impl
	if impl == nil {
		impl = []pair{}
	}
	ops = append(ops, Op{Op: "seek", At: len(c.Stack), Prefix: c.Prefix, Start: c.Start, Back: c.Back, Depth: c.Depth, API: api, Impl: impl, HasImp: true})
	// the same question after flushing everything: "flushing a layer changes no answer"
	if c.Depth == 0 {
		for i := len(c.Stack); i >= 1; i-- {
			ops = append(ops, Op{Op: "persist", At: i, Kind: "persist"})
		}
		ops = append(ops, Op{Op: "seek", At: len(c.Stack), Prefix: c.Prefix, Start: c.Start, Back: c.Back, Depth: 0, API: api})
	}
	return ops
}

var backends = []string{"memory", "bolt", "leveldb"}

// writeAfterCall: a scan answers for the moment of the CALL. Every other asynchronous scan is followed, before its first
// result is taken, by writes to the same layer under the sought prefix (a key that was not there appears, the first key
// of the range disappears); then the results are drained. The writes are ordinary steps of the history: their events
// follow the scan's event in the trace (returned function). The scheduler is pinned to one thread between the call and the
// writes, so that the feeding goroutine cannot have started: a scan that takes its view of the layer only when it starts
// running shows the later writes.
func (w *world) writeAfterCall(at int, rng storage.SeekRange, call func() <-chan storage.KeyValue, out *[]pair) func() {
	st := w.L[at].st
	w.nAsync++
	// (not in histories that carry the code-shaped model's predictions for their later steps: extra writes would turn them into drift)
	if w.nAsync%2 == 1 || rng.SearchDepth != 0 || w.hasImpl {
		for kv := range call() {
			*out = append(*out, pair{ints(kv.Key), ints(kv.Value)})
		}
		return func() {}
	}
	var first []byte
	st.Seek(storage.SeekRange{Prefix: rng.Prefix, Start: rng.Start, Backwards: rng.Backwards}, func(k, v []byte) bool {
		first = bytes.Clone(k)
		return false
	})
	ghost := append(bytes.Clone(rng.Prefix), 0x7e, byte(w.nAsync))
	prev := runtime.GOMAXPROCS(1)
	ch := call()
	st.Put(ghost, []byte{0xee, 0xee})
	if first != nil {
		st.Delete(first)
	}
	runtime.GOMAXPROCS(prev)
	for kv := range ch {
		*out = append(*out, pair{ints(kv.Key), ints(kv.Value)})
	}
	w.res.Inc("async_scans_followed_by_writes", 1)
	return func() {
		w.emit(map[string]any{"event": "put", "at": at, "key": ints(ghost), "val": []int{0xee, 0xee}})
		if first != nil {
			w.emit(map[string]any{"event": "del", "at": at, "key": ints(first)})
		}
	}
}

func TestDriver(t *testing.T) {
	res := vh.NewResult()
	tr := vh.NewTrace("trace.ndjson")
	defer closeBackends()
	reads := vh.EnvInt("VERIF_READS", 6)

	// 0. replay of a recorded violation (tools/vcheck C09 --replay file)
	var rp struct {
		Backend string `json:"backend"`
		Dao     bool   `json:"dao"`
		Ops     []Op   `json:"ops"`
	}
	if vh.InDir() != "" && vh.ReadJSON("replay.json", &rp) == nil && len(rp.Ops) > 0 {
		runHistory(res, tr, "replay", rp.Backend, rp.Dao, rp.Ops)
		tr.Close()
		if err := res.Write(); err != nil {
			t.Fatal(err)
		}
		return
	}

	// 1. model-level counterexamples of KVSeekImpl (code as it is), decided on the real stores
	var cases []Case
	if vh.InDir() != "" {
		if err := vh.ReadJSON("cases.json", &cases); err != nil {
			t.Logf("no cases: %v", err)
		}
	}
	for i, c := range cases {
		bs := []string{"memory"}
		if c.Backend != "mem" {
			bs = []string{"bolt", "leveldb"}
		}
		for _, b := range bs {
			runHistory(res, tr, fmt.Sprintf("case-%d-%s", i, c.Cls), b, false, fromCase(c))
		}
	}
	res.Inc("replayed_cases", len(cases))

	// 2. TLC simulation behaviours of the stack actions
	var sims [][]SimStep
	if vh.InDir() != "" {
		if err := vh.ReadJSON("behaviours.json", &sims); err != nil {
			t.Logf("no behaviours: %v", err)
		}
	}
	r := vh.Rand(9)
	for i, s := range sims {
		ops := fromSim(r, s, reads)
		for _, b := range backends {
			runHistory(res, tr, fmt.Sprintf("tlc-%d", i), b, false, ops)
		}
	}
	res.Inc("replayed_behaviours", len(sims))

	// 3. seeded random histories (longer keys, dao-shaped keys, batches, writes below the top, SeekGC)
	nr := vh.EnvInt("VERIF_RANDOM", 30)
	for i := 0; i < nr; i++ {
		useDao := i%2 == 1
		ops := randomHistory(r, useDao, 10+r.Intn(14), reads)
		for _, b := range backends {
			runHistory(res, tr, fmt.Sprintf("rnd-%d", i), b, useDao, ops)
		}
	}
	res.Inc("random_histories", nr)
	tr.Close()
	sort.Strings(res.Distinct)
	if err := res.Write(); err != nil {
		t.Fatal(err)
	}
}
