package c09kv

import (
	"bytes"
	"fmt"
	"math/rand"
	"sort"
	"testing"

	"github.com/nspcc-dev/neo-go/pkg/core/storage"
	"github.com/nspcc-dev/neo-go/pkg/core/storage/dbconfig"
)

func TestProbe(t *testing.T) {
	s, err := storage.NewLevelDBStore(dbconfig.LevelDBOptions{DataDirectoryPath: t.TempDir()})
	if err != nil {
		t.Fatal(err)
	}
	defer s.Close()
	r := rand.New(rand.NewSource(1))
	al := []byte{0, 0x70, 0xff}
	bad := 0
	for round := 0; round < 400 && bad < 5; round++ {
		model := map[string][]byte{}
		for i := 0; i < 6; i++ {
			k := []byte{0x70}
			for j := r.Intn(3); j > 0; j-- {
				k = append(k, al[r.Intn(3)])
			}
			v := []byte{byte(round), byte(i)}
			if r.Intn(4) == 0 {
				v = nil
				delete(model, string(k))
			} else {
				model[string(k)] = v
			}
			s.PutChangeSet(nil, map[string][]byte{string(k): v})
			// ranged check
			p := []byte{0x70}
			for j := r.Intn(3); j > 0; j-- {
				p = append(p, al[r.Intn(3)])
			}
			var exp []string
			for mk := range model {
				if bytes.HasPrefix([]byte(mk), p) {
					exp = append(exp, mk)
				}
			}
			sort.Strings(exp)
			var got []string
			s.Seek(storage.SeekRange{Prefix: p}, func(k, v []byte) bool { got = append(got, string(k)); return true })
			if fmt.Sprintf("%x", exp) != fmt.Sprintf("%x", got) {
				fmt.Printf("round %d step %d prefix %x: exp %x got %x\n", round, i, p, exp, got)
				bad++
			}
		}
		if err := s.SeekGC(storage.SeekRange{}, func(k, v []byte) (bool, bool) { return false, true }); err != nil {
			t.Fatal(err)
		}
	}
}
