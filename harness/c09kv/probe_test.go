package c09kv

import (
	"context"
	"fmt"
	"testing"

	"github.com/nspcc-dev/neo-go/pkg/core/storage"
)

func TestProbe(t *testing.T) {
	ms := storage.NewMemoryStore()
	lower := storage.NewMemCachedStore(ms)
	lower.Put([]byte{0x70, 0xff}, []byte{1})
	lower.Put([]byte{0x70, 0x01}, []byte{9})
	lower.Persist()
	top := storage.NewMemCachedStore(lower)
	top.Put([]byte{0x70, 0x70, 0xff}, []byte{2})
	for kv := range top.SeekAsync(context.Background(), storage.SeekRange{Prefix: []byte{0x70}}, true) {
		fmt.Printf("cut: %x=%x\n", kv.Key, kv.Value)
	}
	top.Seek(storage.SeekRange{Prefix: []byte{0x70}}, func(k, v []byte) bool { fmt.Printf("nocut: %x=%x\n", k, v); return true })
	// empty value
	top.Put([]byte{0x70, 0x05}, []byte{})
	v, err := top.Get([]byte{0x70, 0x05})
	fmt.Printf("empty: %v %v nil=%v\n", v, err, v == nil)
}
