package c09kv

import (
	"bytes"
	"fmt"
	"math/rand"
	"os"
	"sort"
	"testing"
	"time"

	"github.com/nspcc-dev/neo-go/pkg/core/storage"
	"github.com/nspcc-dev/neo-go/pkg/core/storage/dbconfig"
)

func TestProbe(t *testing.T) {
	dir := t.TempDir()
	s, err := storage.NewLevelDBStore(dbconfig.LevelDBOptions{DataDirectoryPath: dir})
	if err != nil {
		t.Fatal(err)
	}
	defer s.Close()
	r := rand.New(rand.NewSource(2))
	al := []byte{0, 0x70, 0xff}
	bad := 0
	useGC := os.Getenv("PROBE_GC") != ""
	model := map[string][]byte{}
	for round := 0; round < 8000 && bad < 3; round++ {
		batch := map[string][]byte{}
		for i := 1 + r.Intn(3); i > 0; i-- {
			k := []byte{0x70}
			for j := r.Intn(3); j > 0; j-- {
				k = append(k, al[r.Intn(3)])
			}
			if r.Intn(3) == 0 {
				batch[string(k)] = nil
				delete(model, string(k))
			} else {
				v := []byte{byte(round), byte(round >> 8), byte(i)}
				batch[string(k)] = v
				model[string(k)] = v
			}
		}
		if err := s.PutChangeSet(nil, batch); err != nil {
			t.Fatal(err)
		}
		for q := 0; q < 3; q++ {
			p := []byte{0x70}
			for j := r.Intn(3); j > 0; j-- {
				p = append(p, al[r.Intn(3)])
			}
			back := r.Intn(2) == 0
			var ks []string
			for mk := range model {
				if bytes.HasPrefix([]byte(mk), p) {
					ks = append(ks, mk)
				}
			}
			sort.Strings(ks)
			var exp []string
			for _, mk := range ks {
				exp = append(exp, mk+"="+string(model[mk]))
			}
			if back {
				for i, j := 0, len(exp)-1; i < j; i, j = i+1, j-1 {
					exp[i], exp[j] = exp[j], exp[i]
				}
			}
			var got []string
			s.Seek(storage.SeekRange{Prefix: p, Backwards: back}, func(k, v []byte) bool { got = append(got, string(k)+"="+string(v)); return true })
			if fmt.Sprintf("%x", exp) != fmt.Sprintf("%x", got) {
				fmt.Printf("round %d prefix %x back %v:\n exp %x\n got %x\n", round, p, back, exp, got)
				bad++
			}
		}
		if r.Intn(3) == 0 {
			time.Sleep(time.Duration(r.Intn(4000)) * time.Microsecond)
		}
		if useGC && round%7 == 6 {
			if os.Getenv("PROBE_GC") == "batch" {
				del := map[string][]byte{}
				s.Seek(storage.SeekRange{}, func(k, v []byte) bool { del[string(k)] = nil; return true })
				if err := s.PutChangeSet(nil, del); err != nil {
					t.Fatal(err)
				}
			} else if err := s.SeekGC(storage.SeekRange{}, func(k, v []byte) (bool, bool) { return false, true }); err != nil {
				t.Fatal(err)
			}
			model = map[string][]byte{}
		}
	}
	b, _ := os.ReadFile(dir + "/LOG")
	fmt.Println("errors in LOG:", bytes.Count(b, []byte("error")), "moves:", bytes.Count(b, []byte("table@move")))
}
