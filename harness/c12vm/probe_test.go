package c12vm

import (
	"fmt"
	"testing"

	"github.com/nspcc-dev/neo-go/pkg/util"
	"github.com/nspcc-dev/neo-go/pkg/vm"
	"github.com/nspcc-dev/neo-go/pkg/vm/opcode"
)

func TestProbe(t *testing.T) {
	prog := []byte{byte(opcode.INITSSLOT), 1, byte(opcode.NEWMAP), byte(opcode.DUP), byte(opcode.PUSH0), byte(opcode.PUSH2), byte(opcode.PICK),
		byte(opcode.SETITEM), byte(opcode.PUSH0), byte(opcode.REMOVE), byte(opcode.NOP), byte(opcode.NOP)}
	v := vm.New()
	v.SetOnExecHook(func(_ util.Uint160, off int, op opcode.Opcode) {
		fmt.Println(off, op, v.VerifRefs(), v.Estack().Len())
	})
	v.Load(prog)
	err := v.Run()
	fmt.Println(err, v.State(), v.VerifRefs(), v.Estack().Len())
}
