package c12vm

import (
	"encoding/binary"
	"math/big"
)

// asm is a tiny assembler with 4-byte relative fix-ups.
type asm struct {
	b []byte
}

func (a *asm) pos() int { return len(a.b) }

func (a *asm) op(ops ...int) {
	for _, o := range ops {
		a.b = append(a.b, byte(o))
	}
}

func (a *asm) op1(o int, x int) { a.b = append(a.b, byte(o), byte(x)) }

// pushInt emits the shortest push of a small integer, or PUSHINT8..64.
func (a *asm) pushInt(n int64) {
	switch {
	case n >= -1 && n <= 16:
		a.op(PUSH0 + int(n))
	case n >= -128 && n <= 127:
		a.op1(PUSHINT8, int(byte(int8(n))))
	case n >= -32768 && n <= 32767:
		a.op(PUSHINT16)
		a.b = binary.LittleEndian.AppendUint16(a.b, uint16(int16(n)))
	case n >= -(1<<31) && n < 1<<31:
		a.op(PUSHINT32)
		a.b = binary.LittleEndian.AppendUint32(a.b, uint32(int32(n)))
	default:
		a.op(PUSHINT64)
		a.b = binary.LittleEndian.AppendUint64(a.b, uint64(n))
	}
}

// pushBig emits PUSHINT256 / PUSHINT128 with the two's complement little-endian encoding of x.
func (a *asm) pushBig(x *big.Int, size int) {
	buf := make([]byte, size)
	m := new(big.Int).Set(x)
	if m.Sign() < 0 {
		m.Add(m, new(big.Int).Lsh(big.NewInt(1), uint(8*size)))
	}
	be := m.Bytes()
	for i := 0; i < len(be) && i < size; i++ {
		buf[i] = be[len(be)-1-i]
	}
	if size == 32 {
		a.op(PUSHINT256)
	} else {
		a.op(PUSHINT128)
	}
	a.b = append(a.b, buf...)
}

func (a *asm) pushData(d []byte) {
	switch {
	case len(d) < 256:
		a.op1(PUSHDATA1, len(d))
	case len(d) < 65536:
		a.op(PUSHDATA2)
		a.b = binary.LittleEndian.AppendUint16(a.b, uint16(len(d)))
	default:
		a.op(PUSHDATA4)
		a.b = binary.LittleEndian.AppendUint32(a.b, uint32(len(d)))
	}
	a.b = append(a.b, d...)
}

// jmpL emits a long jump-like instruction (JMPL.., CALLL, PUSHA, ENDTRYL) with a placeholder and
// returns the instruction address for fix().
func (a *asm) jmpL(o int) int {
	at := a.pos()
	a.op(o)
	a.b = append(a.b, 0, 0, 0, 0)
	return at
}

// fix sets the 4-byte operand number k (0 or 1, TRYL has two) of the instruction at `at` to target-at.
func (a *asm) fix(at int, k int, target int) {
	binary.LittleEndian.PutUint32(a.b[at+1+4*k:], uint32(int32(target-at)))
}

// tryL emits TRYL with placeholders (an operand of 0 means "no such block").
func (a *asm) tryL() int {
	at := a.pos()
	a.op(TRYL)
	a.b = append(a.b, 0, 0, 0, 0, 0, 0, 0, 0)
	return at
}
