package c12vm

import (
	"math/big"
	"math/bits"
	"reflect"

	"github.com/nspcc-dev/neo-go/pkg/vm"
	"github.com/nspcc-dev/neo-go/pkg/vm/stackitem"
)

// obs is what the harness measures of the VM between two instructions, with its own walk.
type obs struct {
	Walked  int  // root cells + elements of every distinct reachable compound (map entry = 2)
	Bits    int  // widest integer, two's complement bits
	Size    int  // longest byte string / buffer
	Cyc     bool // a cycle exists among the items reachable now or just before the last instruction
	IDepth  int
	TDepth  int
	Compact []stackitem.Item // compounds reachable now
}

type walker struct {
	seen map[stackitem.Item]struct{}
	o    obs
}

// intBits is the minimal two's complement width of x.
func intBits(x *big.Int) int {
	if x.IsInt64() {
		v := x.Int64()
		if v < 0 {
			v = ^v
		}
		return bits.Len64(uint64(v)) + 1
	}
	if x.Sign() >= 0 {
		return x.BitLen() + 1
	}
	return new(big.Int).Not(x).BitLen() + 1
}

func (w *walker) leaf(it stackitem.Item) {
	switch t := it.(type) {
	case *stackitem.BigInteger:
		if b := intBits(t.Big()); b > w.o.Bits {
			w.o.Bits = b
		}
	case *stackitem.ByteArray:
		if n := len(t.Value().([]byte)); n > w.o.Size {
			w.o.Size = n
		}
	case *stackitem.Buffer:
		if n := t.Len(); n > w.o.Size {
			w.o.Size = n
		}
	}
}

// visit is called for every reference to it that the walk meets (the cell itself was counted by the caller).
func (w *walker) visit(it stackitem.Item) {
	switch t := it.(type) {
	case *stackitem.Array, *stackitem.Struct:
		if _, ok := w.seen[it]; ok {
			return
		}
		w.seen[it] = struct{}{}
		w.o.Compact = append(w.o.Compact, it)
		el := t.Value().([]stackitem.Item)
		w.o.Walked += len(el)
		for _, e := range el {
			w.visit(e)
		}
	case *stackitem.Map:
		if _, ok := w.seen[it]; ok {
			return
		}
		w.seen[it] = struct{}{}
		w.o.Compact = append(w.o.Compact, it)
		el := t.Value().([]stackitem.MapElement)
		w.o.Walked += 2 * len(el)
		for i := range el {
			w.leaf(el[i].Key)
			w.visit(el[i].Value)
		}
	case nil:
	default:
		w.leaf(it)
	}
}

// tryDepth reads the length of the unexported exception-handler stack of a context (read-only).
func tryDepth(c *vm.Context) int {
	return reflect.ValueOf(c).Elem().FieldByName("tryStack").FieldByName("elems").Len()
}

func tryDepthAvailable() bool {
	defer func() { _ = recover() }()
	f := reflect.ValueOf(vm.NewContext([]byte{0x40})).Elem().FieldByName("tryStack")
	return f.IsValid() && f.FieldByName("elems").IsValid()
}

// walkVM walks every evaluation stack and every slot of every loaded context.
func walkVM(v *vm.VM) obs {
	w := &walker{seen: map[stackitem.Item]struct{}{}}
	stacks := map[*vm.Stack]struct{}{}
	statics := map[*vm.Slot]struct{}{}
	doStack := func(s *vm.Stack) {
		if s == nil {
			return
		}
		if _, ok := stacks[s]; ok {
			return
		}
		stacks[s] = struct{}{}
		s.IterBack(func(e vm.Element) {
			w.o.Walked++
			w.visit(e.Item())
		})
	}
	doSlot := func(s *vm.Slot) {
		if s == nil {
			return
		}
		for _, it := range *s {
			w.o.Walked++ // an empty cell is a (virtual) Null item
			w.visit(it)
		}
	}
	doStack(v.Estack())
	is := v.Istack()
	w.o.IDepth = len(is)
	for _, c := range is {
		doStack(c.Estack())
		doSlot(c.LocalsSlot())
		doSlot(c.ArgumentsSlot())
		st := c.StaticsSlot()
		if _, ok := statics[st]; !ok {
			statics[st] = struct{}{}
			doSlot(st)
		}
		if d := tryDepth(c); d > w.o.TDepth {
			w.o.TDepth = d
		}
	}
	return w.o
}

// hasCycle looks for a cycle in the graph of compound items reachable from the given items.
func hasCycle(from ...[]stackitem.Item) bool {
	const (
		grey  = 1
		black = 2
	)
	col := map[stackitem.Item]int{}
	var dfs func(it stackitem.Item) bool
	kids := func(it stackitem.Item, f func(stackitem.Item) bool) bool {
		switch t := it.(type) {
		case *stackitem.Array, *stackitem.Struct:
			for _, e := range t.Value().([]stackitem.Item) {
				if f(e) {
					return true
				}
			}
		case *stackitem.Map:
			el := t.Value().([]stackitem.MapElement)
			for i := range el {
				if f(el[i].Value) {
					return true
				}
			}
		}
		return false
	}
	dfs = func(it stackitem.Item) bool {
		switch it.(type) {
		case *stackitem.Array, *stackitem.Struct, *stackitem.Map:
		default:
			return false
		}
		switch col[it] {
		case grey:
			return true
		case black:
			return false
		}
		col[it] = grey
		if kids(it, dfs) {
			return true
		}
		col[it] = black
		return false
	}
	for _, l := range from {
		for _, it := range l {
			if dfs(it) {
				return true
			}
		}
	}
	return false
}
