// Driver for C12: executes on the real NeoVM (a) behaviours of the implementation-shaped model VMRef
// realised as scripts (TLC simulation, TLC counterexamples), (b) seeded random byte strings, opcode
// streams, mutants, well-typed "go deep" programs, (c) scripts that walk up to every limit of the
// statement, (d) near misses of the static script check - each under finite gas limits - and records one
// observation per executed instruction (own walk of all stacks and slots, the VM's counter through the
// verif hook, depths, gas) for validation by spec/vmref/VMTrace.tla.
package c12vm

import (
	"encoding/hex"
	"fmt"
	"math/rand"
	"os"
	"sort"
	"strconv"
	"testing"

	"verifharness/internal/vh"
)

type behaviour struct {
	Kind string  `json:"kind"`
	Hist []MStep `json:"hist"`
}

const (
	bigLimit   = int64(200_000_000_000) // datoshi; for scripts that terminate by construction
	smallLimit = int64(300_000)         // datoshi; bounds the steps of arbitrary scripts (>= 30 datoshi per priced instruction)
)

type session struct {
	res         *vh.Result
	tr          *vh.Trace
	r           *rand.Rand
	agg         map[string]*[8]int
	files       int
	events      int
	expectFault bool // for the next run only
}

// rotate starts a new trace file when the current one is large (TLC loads a whole file into memory).
func (s *session) rotate() {
	if s.tr.N < 1_200_000 {
		return
	}
	s.events += s.tr.N
	s.tr.Close()
	s.files++
	s.tr = vh.NewTrace(fmt.Sprintf("trace-%03d.ndjson", s.files))
}

func (s *session) note(class string, o runOut) {
	a := s.agg[class]
	if a == nil {
		a = &[8]int{}
		s.agg[class] = a
	}
	a[0]++
	if o.Halted {
		a[1]++
	}
	a[2] += o.Steps
	a[3] = max(a[3], o.MaxWalk)
	a[4] = max(a[4], o.MaxIDep)
	a[5] = max(a[5], o.MaxTDep)
	a[6] = max(a[6], o.MaxBits)
	a[7] = max(a[7], o.MaxSize)
}

// both runs the script under a generous limit and then under a limit placed on / just below / inside
// the gas it really needs.
func (s *session) both(class, src string, script []byte, limit int64, base int64, marks []mark, note string) runOut {
	s.rotate()
	o := execute(s.res, s.tr, runSpec{Src: src, Script: script, Limit: limit, Base: base, Marks: marks, Note: note,
		ExpectFault: s.expectFault})
	s.expectFault = false
	s.note(class, o)
	if o.Panicked {
		return o
	}
	if o.Steps > 3000 && s.r.Intn(3) != 0 {
		return o
	}
	if class == "cov" && s.r.Intn(4) != 0 { // the cover walks are about item accounting: a sample of them suffices for gas
		return o
	}
	var l2 int64
	switch s.r.Intn(5) {
	case 0:
		l2 = o.Gas
	case 1:
		l2 = o.Gas - 1
	case 2:
		l2 = o.Gas - 1 - s.r.Int63n(40)
	case 3:
		l2 = 0
	default:
		l2 = s.r.Int63n(o.Gas + 1)
	}
	if l2 < 0 {
		l2 = 0
	}
	o2 := execute(s.res, s.tr, runSpec{Src: src + "/gas", Script: script, Limit: l2, Base: base, Note: note})
	s.note(class+"/gas", o2)
	if o2.Halted {
		s.res.Inc("halted_under_tight_limit", 1)
	}
	return o
}

func TestDriver(t *testing.T) {
	if !tryDepthAvailable() {
		t.Fatal("cannot observe the try depth: vm.Context has no tryStack.elems field any more")
	}
	res := vh.NewResult()
	s := &session{res: res, tr: vh.NewTrace("trace-000.ndjson"), r: vh.Rand(12), agg: map[string]*[8]int{}}
	bases := []int64{300000, 299999, 123457}

	// replay of one recorded script (tools/vcheck C12 --replay ...)
	if hx := os.Getenv("VERIF_REPLAY_SCRIPT"); hx != "" {
		sc, err := hex.DecodeString(hx)
		if err != nil {
			t.Fatal(err)
		}
		lim, _ := strconv.ParseInt(os.Getenv("VERIF_REPLAY_LIMIT"), 10, 64)
		base, _ := strconv.ParseInt(os.Getenv("VERIF_REPLAY_BASE"), 10, 64)
		o := execute(res, s.tr, runSpec{Src: "replay-0", Script: sc, Limit: lim, Base: base})
		res.Sample(map[string]any{"src": "replay", "steps": o.Steps, "state": o.State, "max_walked": o.MaxWalk})
		s.tr.Close()
		res.Inc("trace_files", 1)
		if err := res.Write(); err != nil {
			t.Fatal(err)
		}
		return
	}

	// (a) behaviours of the model
	var bs []behaviour
	if vh.InDir() != "" {
		if err := vh.ReadJSON("behaviours.json", &bs); err != nil {
			t.Logf("no behaviours: %v", err)
		}
	}
	for i, b := range bs {
		script, marks, expectFault, err := realize(b.Hist, i*7+int(vh.Seed()))
		if err != nil {
			res.Inc("behaviours_not_realised", 1)
			continue
		}
		src := fmt.Sprintf("%s-%d", b.Kind, i)
		s.expectFault = expectFault
		o := s.both(b.Kind, src, script, bigLimit, bases[i%len(bases)], marks, "")
		if o.MarksHit == len(marks) && (!expectFault || o.State == "FAULT") {
			res.Inc("behaviours_replayed_to_the_end", 1)
		}
		if expectFault {
			res.Inc("behaviours_ending_in_predicted_fault", 1)
		}
		if i%97 == 0 {
			res.Sample(map[string]any{"src": src, "actions": len(b.Hist) - 1, "steps": o.Steps, "state": o.State,
				"last_action": b.Hist[len(b.Hist)-1], "max_walked": o.MaxWalk})
		}
	}
	res.Inc("behaviours", len(bs))

	// (b) arbitrary scripts
	nb := vh.EnvInt("VERIF_BYTES", 300)
	for i := 0; i < nb; i++ {
		s.both("bytes", fmt.Sprintf("bytes-%d", i), genBytes(s.r), s.r.Int63n(smallLimit), 300000, nil, "")
	}
	no := vh.EnvInt("VERIF_OPS", 300)
	for i := 0; i < no; i++ {
		s.both("ops", fmt.Sprintf("ops-%d", i), genOps(s.r), s.r.Int63n(smallLimit), 300000, nil, "")
	}
	nd := vh.EnvInt("VERIF_DEEP", 100)
	for i := 0; i < nd; i++ {
		sc := genDeep(s.r, 20+s.r.Intn(60))
		o := s.both("deep", fmt.Sprintf("deep-%d", i), sc, bigLimit, bases[i%len(bases)], nil, "")
		if i%31 == 0 {
			res.Sample(map[string]any{"src": fmt.Sprintf("deep-%d", i), "len": len(sc), "steps": o.Steps, "state": o.State,
				"max_walked": o.MaxWalk, "max_idepth": o.MaxIDep, "max_tdepth": o.MaxTDep, "cyclic": o.Cyc})
		}
		if i%3 == 0 { // a mutant of a well-typed program: arbitrary but deep-ish
			s.both("mutant", fmt.Sprintf("mutant-%d", i), mutate(s.r, sc), smallLimit, 300000, nil, "")
		}
	}

	// (c) limits
	rounds := vh.EnvInt("VERIF_LIMIT_ROUNDS", 1)
	for k := 0; k < rounds; k++ {
		for _, lc := range genLimits(s.r) {
			o := s.both("limit", "limit-"+lc.name, lc.script, bigLimit, bases[k%len(bases)], nil, lc.name)
			res.Inc("limit_cases", 1)
			if k == 0 && (lc.name == "items-append-loop" || lc.name == "invoc-call") {
				res.Sample(map[string]any{"src": "limit-" + lc.name, "steps": o.Steps, "state": o.State, "max_walked": o.MaxWalk,
					"max_idepth": o.MaxIDep})
			}
		}
	}

	// (c') exceptions raised by SETITEM / PICKITEM themselves, handled at every kind of place
	for k := 0; k < rounds; k++ {
		for i, lc := range genOOR(s.r) {
			o := s.both("oor", "oor-"+lc.name, lc.script, bigLimit, bases[(i+k)%len(bases)], nil, lc.name)
			res.Inc("oor_cases", 1)
			if o.Halted {
				res.Inc("oor_cases_handled", 1)
			}
			if k == 0 && i%150 == 7 {
				res.Sample(map[string]any{"src": "oor-" + lc.name, "script": hex.EncodeToString(lc.script), "steps": o.Steps, "state": o.State})
			}
		}
	}

	// (d) the static check: each jump-like operand once into an instruction, once onto a boundary
	ns := vh.EnvInt("VERIF_STATIC", 2)
	for k := 0; k < ns; k++ {
		for kind := 0; kind < 20; kind++ {
			for _, bad := range []bool{false, true} {
				name, sc := genStatic(s.r, kind, bad)
				o := s.both("static", "static-"+name, sc, smallLimit, 300000, nil, name)
				if bad && o.Checked {
					res.Inc("static_bad_accepted", 1)
				}
				if bad && !o.Checked {
					res.Inc("static_bad_rejected", 1)
				}
				if !bad && o.Checked {
					res.Inc("static_ok_accepted", 1)
				}
			}
		}
	}

	s.tr.Close()
	s.events += s.tr.N
	res.Inc("trace_files", s.files+1)
	classes := []string{}
	for c := range s.agg {
		classes = append(classes, c)
	}
	sort.Strings(classes)
	per := map[string]any{}
	for _, c := range classes {
		a := s.agg[c]
		per[c] = map[string]int{"runs": a[0], "halted": a[1], "steps": a[2], "max_walked": a[3], "max_idepth": a[4],
			"max_tdepth": a[5], "max_intbits": a[6], "max_itemsize": a[7]}
	}
	res.Stats["per_class"] = per
	res.Inc("trace_events", s.events)
	sort.Strings(res.Distinct)
	if err := res.Write(); err != nil {
		t.Fatal(err)
	}
}
