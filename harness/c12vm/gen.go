package c12vm

import (
	"math/big"
	"math/rand"
)

// ---------------------------------------------------------------- random byte strings and opcode streams

func genBytes(r *rand.Rand) []byte {
	n := 1 + r.Intn(60)
	b := make([]byte, n)
	r.Read(b)
	return b
}

// genOps: a stream of valid opcodes with random operands (mostly ill-typed: exercises the central recover).
func genOps(r *rand.Rand) []byte {
	ops := validOps()
	a := &asm{}
	n := 2 + r.Intn(40)
	common := []int{PUSH1, PUSH2, PUSH0, PUSHT, PUSHNULL, NEWARRAY0, NEWSTRUCT0, NEWMAP, DUP, OVER, SWAP, PACK, APPEND, SETITEM,
		DEPTH, UNPACK, VALUES, PICKITEM, POPITEM, REMOVE, CLEARITEMS, ROT, TUCK, DROP, INC, ADD, STSFLD0, LDSFLD0, STLOC0, LDLOC0}
	if r.Intn(3) != 0 { // give the instructions something to work on
		a.op(INITSSLOT, 2, INITSLOT, 2, 0)
		for i := r.Intn(6); i >= 0; i-- {
			a.op(common[r.Intn(8)])
		}
	}
	for i := 0; i < n; i++ {
		o := int(ops[r.Intn(len(ops))])
		if r.Intn(2) == 0 {
			o = common[r.Intn(len(common))]
		}
		if o == SYSCALL || o == CALLT || o == ABORT || o == ABORTMSG {
			if r.Intn(4) != 0 {
				continue
			}
		}
		a.op(o)
		sz := operand[o]
		switch {
		case sz > 0:
			for k := 0; k < sz; k++ {
				if (o >= JMP && o <= CALLL) || o == TRY || o == TRYL || o == ENDTRY || o == ENDTRYL || o == PUSHA {
					// small relative offsets, little endian
					if k == 0 || (o == TRYL && k == 4) || (o == TRY && k == 1) {
						a.b = append(a.b, byte(int8(r.Intn(24)-8)))
					} else if a.b[len(a.b)-1]&0x80 != 0 && (sz == 4 || sz == 8) && k%4 != 0 {
						a.b = append(a.b, 0xff)
					} else {
						a.b = append(a.b, 0)
					}
				} else if o == INITSLOT || o == INITSSLOT {
					a.b = append(a.b, byte(r.Intn(4)))
				} else if o >= LDSFLD0 && o <= STARG {
					a.b = append(a.b, byte(r.Intn(3)))
				} else if o == CONVERT || o == ISTYPE || o == NEWARRAYT {
					a.b = append(a.b, []byte{TAny, TBool, TInt, TBytes, TBuffer, TArray, TStruct, TMap, 0x77}[r.Intn(9)])
				} else {
					a.b = append(a.b, byte(r.Intn(256)))
				}
			}
		case sz < 0 && sz != -9:
			l := r.Intn(5)
			switch sz {
			case -1:
				a.b = append(a.b, byte(l))
			case -2:
				a.b = append(a.b, byte(l), 0)
			default:
				a.b = append(a.b, byte(l), 0, 0, 0)
			}
			for k := 0; k < l; k++ {
				a.b = append(a.b, byte(r.Intn(256)))
			}
		}
	}
	return a.b
}

// mutate flips / replaces a few bytes of a script.
func mutate(r *rand.Rand, s []byte) []byte {
	b := append([]byte(nil), s...)
	if len(b) == 0 {
		return b
	}
	for k := 1 + r.Intn(3); k > 0; k-- {
		i := r.Intn(len(b))
		switch r.Intn(3) {
		case 0:
			b[i] ^= 1 << uint(r.Intn(8))
		case 1:
			b[i] = byte(r.Intn(256))
		default:
			ops := validOps()
			b[i] = ops[r.Intn(len(ops))]
		}
	}
	return b
}

// ---------------------------------------------------------------- well-typed "go deep" generator

type ty int

const (
	tInt ty = iota
	tBool
	tBytes
	tBuf
	tNull
	tArr
	tStruct
	tMap
	tAny
)

func (t ty) compound() bool { return t == tArr || t == tStruct || t == tMap }
func (t ty) seq() bool      { return t == tArr || t == tStruct }
func (t ty) key() bool      { return t == tInt || t == tBool || t == tBytes }

type fn struct {
	nargs  int
	nloc   int
	callAt []int // CALLL instructions to patch
	addr   int
}

type deep struct {
	r     *rand.Rand
	a     *asm
	st    []ty // abstract evaluation stack
	floor int  // instructions may not consume below this height
	nstat int
	stat  []ty
	loc   []ty
	arg   []ty
	fns   []*fn
	cur   int // index of the function being generated (-1: main)
	depth int // nesting of blocks
	inTry int // enclosing try blocks with a catch in the code being generated
	resv  int // index of the first reserved local: [resv] = stack depth at entry, [resv+1+d] = loop counter of nesting d
}

func (g *deep) push(t ty)    { g.st = append(g.st, t) }
func (g *deep) pop() ty      { t := g.st[len(g.st)-1]; g.st = g.st[:len(g.st)-1]; return t }
func (g *deep) top(i int) ty { return g.st[len(g.st)-1-i] }
func (g *deep) avail() int   { return len(g.st) - g.floor }

func (g *deep) pushPrim() {
	switch g.r.Intn(7) {
	case 0, 1:
		g.a.pushInt(int64(g.r.Intn(20) - 2))
		g.push(tInt)
	case 2:
		g.a.op(PUSHT + g.r.Intn(2))
		g.push(tBool)
	case 3:
		d := make([]byte, g.r.Intn(6))
		g.r.Read(d)
		g.a.pushData(d)
		g.push(tBytes)
	case 4:
		g.a.op(PUSHNULL)
		g.push(tNull)
	case 5:
		g.a.pushInt(int64(g.r.Intn(4)))
		g.a.op(NEWBUFFER)
		g.push(tBuf)
	default:
		g.a.pushInt(g.r.Int63n(1 << 40))
		g.push(tInt)
	}
}

func (g *deep) newCompound() {
	switch g.r.Intn(9) {
	case 0:
		g.a.op(NEWARRAY0)
		g.push(tArr)
	case 1:
		g.a.op(NEWSTRUCT0)
		g.push(tStruct)
	case 2:
		g.a.op(NEWMAP)
		g.push(tMap)
	case 3:
		g.a.pushInt(int64(g.r.Intn(4)))
		g.a.op(NEWARRAY)
		g.push(tArr)
	case 4:
		g.a.pushInt(int64(g.r.Intn(4)))
		g.a.op(NEWSTRUCT)
		g.push(tStruct)
	case 5:
		g.a.pushInt(int64(g.r.Intn(3)))
		g.a.op1(NEWARRAYT, []int{TBool, TInt, TBytes, TAny}[g.r.Intn(4)])
		g.push(tArr)
	case 6: // a struct inside a collection: APPEND / SETITEM / VALUES clone it
		g.a.pushInt(int64(g.r.Intn(3)))
		g.a.op(NEWSTRUCT)
		if g.r.Intn(2) == 0 {
			g.a.op(DUP, NEWARRAY0, PUSH1, PACKSTRUCT, APPEND) // nested struct
		}
		switch g.r.Intn(3) {
		case 0:
			g.a.op(PUSH1, PACK)
			g.push(tArr)
		case 1:
			g.a.op(DUP, PUSH2, PACKSTRUCT)
			g.push(tStruct)
		default:
			g.a.op(PUSH1, PUSH1, PACKMAP)
			g.push(tMap)
		}
	default:
		g.pack()
	}
}

// pack packs up to 3 available items.
func (g *deep) pack() {
	n := 0
	if g.avail() > 0 {
		n = g.r.Intn(min(g.avail(), 3) + 1)
	}
	switch g.r.Intn(3) {
	case 0:
		g.a.pushInt(int64(n))
		g.a.op(PACK)
		g.st = g.st[:len(g.st)-n]
		g.push(tArr)
	case 1:
		g.a.pushInt(int64(n))
		g.a.op(PACKSTRUCT)
		g.st = g.st[:len(g.st)-n]
		g.push(tStruct)
	default:
		// PACKMAP needs key/value pairs: use it only when the top items alternate properly
		m := 0
		for 2*(m+1) <= g.avail() && m < 2 && g.top(2*m).key() {
			m++
		}
		g.a.pushInt(int64(m))
		g.a.op(PACKMAP)
		g.st = g.st[:len(g.st)-2*m]
		g.push(tMap)
	}
}

func (g *deep) anySlot() (ld func(), stf func(t ty), ok bool) {
	type sl struct {
		ld0, st0 int
		arr      []ty
	}
	var c []sl
	if len(g.stat) > 0 {
		c = append(c, sl{LDSFLD0, STSFLD0, g.stat})
	}
	if len(g.loc) > 0 {
		c = append(c, sl{LDLOC0, STLOC0, g.loc})
	}
	if len(g.arg) > 0 {
		c = append(c, sl{LDARG0, STARG0, g.arg})
	}
	if len(c) == 0 {
		return nil, nil, false
	}
	s := c[g.r.Intn(len(c))]
	j := g.r.Intn(len(s.arr))
	emit := func(base int) {
		if g.r.Intn(3) == 0 {
			g.a.op1(base+7, j)
		} else {
			g.a.op(base + j)
		}
	}
	return func() { emit(s.ld0); g.push(s.arr[j]) }, func(t ty) { emit(s.st0); s.arr[j] = t }, true
}

// step emits one random well-typed instruction (or a short idiom).
func (g *deep) step() {
	r := g.r
	av := g.avail()
	for tries := 0; tries < 20; tries++ {
		switch k := r.Intn(40); {
		case k < 4:
			g.pushPrim()
			return
		case k < 8:
			g.newCompound()
			return
		case k < 11 && av >= 1: // copy something
			switch r.Intn(4) {
			case 0:
				g.a.op(DUP)
				g.push(g.top(0))
			case 1:
				if av >= 2 {
					g.a.op(OVER)
					g.push(g.top(1))
				} else {
					g.a.op(DUP)
					g.push(g.top(0))
				}
			case 2:
				i := r.Intn(av)
				g.a.pushInt(int64(i))
				g.a.op(PICK)
				g.push(g.top(i))
			default:
				if av >= 2 {
					g.a.op(TUCK)
					t0, t1 := g.pop(), g.pop()
					g.push(t0)
					g.push(t1)
					g.push(t0)
				} else {
					g.a.op(DUP)
					g.push(g.top(0))
				}
			}
			return
		case k < 13 && av >= 2: // permute
			switch r.Intn(4) {
			case 0:
				g.a.op(SWAP)
				n := len(g.st)
				g.st[n-1], g.st[n-2] = g.st[n-2], g.st[n-1]
			case 1:
				if av >= 3 {
					g.a.op(ROT)
					n := len(g.st)
					g.st[n-3], g.st[n-2], g.st[n-1] = g.st[n-2], g.st[n-1], g.st[n-3]
				}
			case 2:
				if av >= 3 {
					g.a.op(REVERSE3)
					n := len(g.st)
					g.st[n-3], g.st[n-1] = g.st[n-1], g.st[n-3]
				}
			default:
				i := r.Intn(av)
				g.a.pushInt(int64(i))
				g.a.op(ROLL)
				n := len(g.st)
				t := g.st[n-1-i]
				copy(g.st[n-1-i:], g.st[n-i:])
				g.st[n-1] = t
			}
			return
		case k < 15 && av >= 1: // drop
			switch r.Intn(3) {
			case 0:
				g.a.op(DROP)
				g.pop()
			case 1:
				if av >= 2 {
					g.a.op(NIP)
					t := g.pop()
					g.pop()
					g.push(t)
				} else {
					g.a.op(DROP)
					g.pop()
				}
			default:
				i := r.Intn(av)
				g.a.pushInt(int64(i))
				g.a.op(XDROP)
				n := len(g.st)
				g.st = append(g.st[:n-1-i], g.st[n-i:]...)
			}
			return
		case k < 19: // slots
			ld, stf, ok := g.anySlot()
			if !ok {
				continue
			}
			if av >= 1 && r.Intn(2) == 0 {
				stf(g.pop())
			} else {
				ld()
			}
			return
		case k < 23 && av >= 2 && g.top(1).seq(): // APPEND
			g.a.op(APPEND)
			g.pop()
			g.pop()
			return
		case k < 26 && av >= 2 && g.top(1).compound(): // SETITEM
			it := g.pop()
			c := g.pop()
			_ = it
			if c == tMap {
				g.a.pushInt(int64(r.Intn(3)))
			} else {
				g.a.pushInt(int64(r.Intn(2))) // may be out of range: a catchable exception
			}
			g.a.op(SWAP, SETITEM)
			return
		case k < 28 && av >= 1 && g.top(0).compound(): // PICKITEM (catchable when out of range)
			g.pop()
			g.a.pushInt(int64(r.Intn(2)))
			g.a.op(PICKITEM)
			g.push(tAny)
			return
		case k < 30 && av >= 1 && g.top(0).compound(): // REMOVE / CLEARITEMS / REVERSEITEMS / POPITEM
			c := g.pop()
			switch r.Intn(4) {
			case 0:
				if c == tMap {
					g.a.pushInt(int64(r.Intn(3)))
					g.a.op(REMOVE)
				} else { // only when not empty: an invalid index is not catchable
					g.a.op(DUP, SIZE)
					at := g.a.jmpL(JMPIFNOTL)
					g.a.op(DUP, PUSH0, REMOVE)
					g.a.fix(at, 0, g.a.pos())
					g.a.op(DROP)
				}
			case 1:
				g.a.op(CLEARITEMS)
			case 2:
				if c.seq() {
					g.a.op(REVERSEIT)
				} else {
					g.a.op(CLEARITEMS)
				}
			default:
				if c.seq() {
					g.a.op(DUP, SIZE)
					at := g.a.jmpL(JMPIFNOTL)
					g.a.op(POPITEM)
					at2 := g.a.jmpL(JMPL)
					g.a.fix(at, 0, g.a.pos())
					g.a.op(DROP, PUSHNULL)
					g.a.fix(at2, 0, g.a.pos())
					g.push(tAny)
				} else {
					g.a.op(CLEARITEMS)
				}
			}
			return
		case k < 33 && av >= 1 && g.top(0).compound(): // VALUES / KEYS / UNPACK+PACK / SIZE / CONVERT
			c := g.pop()
			switch r.Intn(6) {
			case 0:
				g.a.op(VALUES)
				g.push(tArr)
			case 1:
				if c == tMap {
					g.a.op(KEYS)
				} else {
					g.a.op(VALUES)
				}
				g.push(tArr)
			case 2:
				if c == tMap {
					g.a.op(UNPACK, PACKMAP)
					g.push(tMap)
				} else if r.Intn(2) == 0 {
					g.a.op(UNPACK, PACK)
					g.push(tArr)
				} else {
					g.a.op(UNPACK, PACKSTRUCT)
					g.push(tStruct)
				}
			case 3:
				g.a.op(SIZE)
				g.push(tInt)
			case 4:
				if c == tArr {
					g.a.op1(CONVERT, TStruct)
					g.push(tStruct)
				} else if c == tStruct {
					g.a.op1(CONVERT, TArray)
					g.push(tArr)
				} else {
					g.a.op1(CONVERT, TBool)
					g.push(tBool)
				}
			default:
				g.a.pushInt(int64(r.Intn(3)))
				g.a.op(HASKEY)
				g.push(tBool)
			}
			return
		case k < 35 && av >= 2 && g.top(0) == tInt && g.top(1) == tInt: // arithmetic
			g.pop()
			g.a.op([]int{ADD, SUB, MUL, AND, OR, XOR, MIN, MAX, NUMEQUAL, LT}[r.Intn(10)])
			if r.Intn(5) == 0 {
				g.pop()
				g.push(tAny)
			}
			return
		case k < 36 && av >= 1 && g.top(0) == tInt:
			g.a.op([]int{INC, DEC, NEGATE, ABS, SIGN, INVERT, NZ}[r.Intn(7)])
			return
		case k < 37 && av >= 2: // EQUAL on anything (struct comparison walks the items)
			g.pop()
			g.pop()
			g.a.op(EQUAL + r.Intn(2))
			g.push(tBool)
			return
		case k < 38 && av >= 2 && (g.top(0) == tBytes || g.top(0) == tBuf) && (g.top(1) == tBytes || g.top(1) == tBuf):
			g.pop()
			g.pop()
			g.a.op(CAT)
			g.push(tBuf)
			return
		case k < 39 && av >= 1:
			g.pop()
			g.a.op(ISNULL)
			g.push(tBool)
			return
		default:
			g.a.op(NOP)
			return
		}
	}
	g.pushPrim()
}

// oor emits an instruction-raised catchable exception: SETITEM / PICKITEM with an index out of range (or a
// missing map key) on a temporary or on a shared container, with a primitive, struct or array value.  What
// follows in the same block is dead code.  Only used where some handler will catch it.
func (g *deep) oor() {
	r := g.r
	set := r.Intn(2) == 0
	length := 0
	// the container
	existing := g.avail() >= 1 && g.top(0).seq() && r.Intn(3) == 0
	switch {
	case existing:
		g.a.op(DUP) // a container that is referenced elsewhere, of unknown length: a negative index is always out of range
		length = -1
	default:
		switch k := r.Intn(6); {
		case k == 0:
			g.a.op(NEWARRAY0)
		case k == 1:
			length = 1 + r.Intn(3)
			g.a.pushInt(int64(length))
			g.a.op(NEWARRAY)
		case k == 2:
			length = r.Intn(3)
			g.a.pushInt(int64(length))
			g.a.op(NEWSTRUCT)
		case k == 3:
			length = r.Intn(3)
			g.a.pushInt(int64(length))
			g.a.op(NEWBUFFER)
		case k == 4 && !set:
			g.a.op(NEWMAP) // PICKITEM with a key that is not there
		case k == 5 && !set:
			d := make([]byte, r.Intn(3))
			length = len(d)
			g.a.pushData(d)
		default:
			g.a.op(PUSH0, PACK)
		}
		// shared or temporary
		switch r.Intn(4) {
		case 0:
			if len(g.stat) > 0 {
				j := r.Intn(len(g.stat))
				g.a.op(DUP, STSFLD0+j)
				g.stat[j] = tAny
			}
		case 1:
			g.a.op(DUP)
			g.push(tAny) // one copy stays on the stack
		}
	}
	// the index
	switch {
	case length < 0:
		g.a.pushInt(-1)
	case r.Intn(3) == 0:
		g.a.pushInt(-1 - int64(r.Intn(3)))
	default:
		g.a.pushInt(int64(length + r.Intn(3)))
	}
	if !set {
		g.a.op(PICKITEM)
		g.push(tAny) // (dead code keeps a consistent picture)
		return
	}
	// the value
	switch r.Intn(5) {
	case 0:
		g.a.op(PUSH1)
	case 1:
		g.a.pushInt(int64(1 + r.Intn(2)))
		g.a.op(NEWSTRUCT)
	case 2:
		g.a.op(PUSH1, NEWSTRUCT, PUSH1, PACKSTRUCT) // nested struct: cloned by value
	case 3:
		g.a.op(PUSH2, NEWARRAY)
	default:
		if ld, _, ok := g.anySlot(); ok {
			ld()
			g.pop()
		} else {
			g.a.op(PUSHNULL)
		}
	}
	g.a.op(SETITEM)
}

// settle brings the stack back to height `to` (only drops).
func (g *deep) settle(to int) {
	for len(g.st) > to {
		g.a.op(DROP)
		g.pop()
	}
}

// block emits n items: instructions, loops, conditionals, calls, try blocks.
func (g *deep) block(n int) {
	for i := 0; i < n; i++ {
		k := g.r.Intn(30)
		switch {
		case k == 0 && g.depth < 3: // counted loop over a stack-neutral body
			g.loop()
		case k == 1 && g.depth < 3:
			g.cond()
		case k == 2 && g.depth < 3:
			g.try()
		case (k == 3 || k == 4) && g.cur+1 < len(g.fns):
			g.call()
		case k == 5 && g.avail() >= 1 && (g.inTry > 0 || (g.cur >= 0 && g.r.Intn(3) == 0)):
			g.a.op(THROW) // the rest of the block is dead code (still well formed)
			g.pop()
		case k == 6 && (g.inTry > 0 || (g.cur >= 0 && g.r.Intn(3) == 0)):
			g.oor()
		default:
			g.step()
		}
	}
}

func (g *deep) loop() {
	j := g.resv + 1 + g.depth
	iters := 1 + g.r.Intn(6)
	g.a.pushInt(int64(iters))
	g.a.op1(STLOC, j)
	start := g.a.pos()
	of, h := g.floor, len(g.st)
	g.floor = h
	g.depth++
	saveLoc := append([]ty(nil), g.loc...)
	g.block(2 + g.r.Intn(5))
	g.settle(h)
	g.depth--
	g.floor = of
	for i := range g.loc { // slot types after an unknown number of iterations
		if g.loc[i] != saveLoc[i] {
			g.loc[i] = tAny
		}
	}
	g.a.op1(LDLOC, j)
	g.a.op(DEC, DUP)
	g.a.op1(STLOC, j)
	g.a.op(PUSH0)
	at := g.a.jmpL(JMPGTL)
	g.a.fix(at, 0, start)
}

func (g *deep) cond() {
	g.a.op(PUSHT + g.r.Intn(2))
	at := g.a.jmpL(JMPIFNOTL)
	of, h := g.floor, len(g.st)
	g.floor = h
	g.depth++
	g.block(1 + g.r.Intn(4))
	g.settle(h)
	g.depth--
	g.floor = of
	g.a.fix(at, 0, g.a.pos())
	g.anyfySlots()
}

func (g *deep) anyfySlots() {
	for _, s := range [][]ty{g.stat, g.loc, g.arg} {
		for i := range s {
			if s[i].compound() && g.r.Intn(2) == 0 {
				continue
			}
			s[i] = tAny
		}
	}
}

// try: TRY { body } [CATCH { restore the height; .. }] [FINALLY { .. }].  After an exception the real stack
// holds whatever was there at the throw point plus the exception: the catch block packs everything above
// the height at TRY into one array and drops it, so that the tracked stack is exact again.
func (g *deep) try() {
	hasCatch := g.inTry == 0 || g.r.Intn(5) != 0
	hasFin := !hasCatch || g.r.Intn(3) == 0
	at := g.a.tryL()
	of, h := g.floor, len(g.st)
	g.floor = h
	g.depth++
	if hasCatch {
		g.inTry++
	}
	g.block(1 + g.r.Intn(5))
	if g.inTry > 0 && g.r.Intn(3) == 0 { // end the body with an exception raised by an instruction
		g.oor()
	}
	if hasCatch {
		g.inTry--
	}
	g.settle(h)
	e1 := g.a.jmpL(ENDTRYL)
	e2 := -1
	if hasCatch {
		g.a.fix(at, 0, g.a.pos())
		g.a.op(DEPTH)
		g.a.op1(LDLOC, g.resv)
		g.a.op(SUB)
		g.a.pushInt(int64(h))
		g.a.op(SUB, PACK)
		if g.r.Intn(3) == 0 && len(g.stat) > 0 { // keep the wreck alive in a static slot
			j := g.r.Intn(len(g.stat))
			g.a.op(STSFLD0 + j)
			g.stat[j] = tArr
		} else {
			g.a.op(DROP)
		}
		g.block(g.r.Intn(3))
		g.settle(h)
		e2 = g.a.jmpL(ENDTRYL)
	}
	if hasFin {
		g.a.fix(at, 1, g.a.pos())
		g.block(g.r.Intn(3))
		g.settle(h)
		g.a.op(ENDFINALLY)
	}
	g.depth--
	g.floor = of
	end := g.a.pos()
	g.a.fix(e1, 0, end)
	if e2 >= 0 {
		g.a.fix(e2, 0, end)
	}
	g.anyfySlots()
}

func (g *deep) call() {
	f := g.fns[g.cur+1+g.r.Intn(len(g.fns)-g.cur-1)]
	for g.avail() < f.nargs {
		if g.r.Intn(2) == 0 {
			g.newCompound()
		} else {
			g.pushPrim()
		}
	}
	if g.r.Intn(4) == 0 {
		at := g.a.jmpL(PUSHA)
		f.callAt = append(f.callAt, at)
		g.a.op(CALLA)
	} else {
		f.callAt = append(f.callAt, g.a.jmpL(CALLL))
	}
	g.st = g.st[:len(g.st)-f.nargs]
	g.push(tAny)
	g.anyfySlots()
}

// genDeep builds one program: INITSSLOT, main block, RET, then the functions.
func genDeep(r *rand.Rand, size int) []byte {
	g := &deep{r: r, a: &asm{}, cur: -1}
	nf := r.Intn(4)
	for i := 0; i < nf; i++ {
		g.fns = append(g.fns, &fn{nargs: r.Intn(3), nloc: r.Intn(3)})
	}
	ns := r.Intn(4)
	if ns > 0 {
		g.a.op1(INITSSLOT, ns)
		g.stat = make([]ty, ns)
		for i := range g.stat {
			g.stat[i] = tNull
		}
	}
	nl := r.Intn(4)
	g.resv = nl
	g.a.op(INITSLOT, nl+5, 0)
	g.a.op(PUSH0)
	g.a.op1(STLOC, g.resv)
	g.loc = make([]ty, nl)
	for i := range g.loc {
		g.loc[i] = tNull
	}
	// the main program is a sequence of segments, each protected by its own try block
	for seg := 0; seg < 1+size/12; seg++ {
		if r.Intn(4) == 0 {
			g.block(6)
		} else {
			g.try()
		}
	}
	g.a.op(RET)
	for i, f := range g.fns {
		f.addr = g.a.pos()
		g.cur = i
		g.st = g.st[:0]
		g.floor = 0
		g.depth = 0
		g.inTry = 0
		g.resv = f.nloc
		g.a.op(INITSLOT, f.nloc+5, f.nargs)
		g.a.op(DEPTH)
		g.a.op1(STLOC, g.resv)
		g.loc = make([]ty, f.nloc)
		for j := range g.loc {
			g.loc[j] = tNull
		}
		g.arg = make([]ty, f.nargs)
		for j := range g.arg {
			g.arg[j] = tAny
		}
		g.block(3 + r.Intn(size/3+1))
		if len(g.st) == 0 {
			g.pushPrim()
		}
		// leave exactly one item
		for len(g.st) > 1 {
			g.a.op(NIP)
			t := g.pop()
			g.pop()
			g.push(t)
		}
		g.a.op(RET)
		for _, at := range f.callAt {
			g.a.fix(at, 0, f.addr)
		}
	}
	return g.a.b
}

// ---------------------------------------------------------------- scripts built to sit on a limit

type limitCase struct {
	name   string
	script []byte
}

var two255 = new(big.Int).Lsh(big.NewInt(1), 255)

// loopN emits: PUSH n; L: body (stack-neutral above the counter); DEC; DUP; PUSH0; JMPGT L; DROP
func loopN(a *asm, n int, body func()) {
	a.pushInt(int64(n))
	start := a.pos()
	body()
	a.op(DEC, DUP, PUSH0)
	at := a.jmpL(JMPGTL)
	a.fix(at, 0, start)
	a.op(DROP)
}

// genLimits returns scripts that walk up to (and try to step over) each limit of the statement.
func genLimits(r *rand.Rand) []limitCase {
	var out []limitCase
	add := func(name string, f func(a *asm)) {
		a := &asm{}
		f(a)
		out = append(out, limitCase{name, a.b})
	}
	d := r.Intn(5) // jitter
	// --- item count: different ways to arrive at 2048 +- a few
	add("items-newarray", func(a *asm) { // one big array then single pushes
		a.pushInt(int64(2040 - d))
		a.op(NEWARRAY)
		for i := 0; i < 12+d; i++ {
			a.op(PUSH1)
		}
	})
	add("items-append-loop", func(a *asm) { // array in a static slot grows by APPEND
		a.op1(INITSSLOT, 1)
		a.pushInt(int64(2000 - 7*d))
		a.op(NEWARRAY, STSFLD0)
		loopN(a, 60+7*d, func() { a.op(LDSFLD0, PUSHNULL, APPEND) })
	})
	add("items-struct-clone", func(a *asm) { // appending a struct to an array clones it: +1+len each time
		a.op1(INITSSLOT, 2)
		a.pushInt(int64(60 + d))
		a.op(NEWSTRUCT, STSFLD0, NEWARRAY0, STSFLD0+1)
		loopN(a, 40, func() { a.op(LDSFLD0+1, LDSFLD0, APPEND) })
	})
	add("items-unpack-referenced", func(a *asm) { // UNPACK of an array that stays referenced doubles its elements
		a.op1(INITSSLOT, 1)
		a.pushInt(int64(1020 + d))
		a.op(NEWARRAY, DUP, STSFLD0, UNPACK)
	})
	add("items-unpack-unreferenced", func(a *asm) {
		a.pushInt(int64(2046))
		a.op(NEWARRAY, UNPACK, PUSH1, PUSH2)
	})
	add("items-values-referenced", func(a *asm) {
		a.op1(INITSSLOT, 1)
		a.pushInt(int64(1021 + d))
		a.op(NEWARRAY, DUP, STSFLD0, VALUES, PUSH1, PUSH1, PUSH1)
	})
	add("items-map-keys", func(a *asm) { // a map of n entries counts 2n; KEYS adds n+1
		a.op1(INITSSLOT, 1)
		a.op(NEWMAP, STSFLD0)
		a.pushInt(int64(675 + d))
		start := a.pos()
		a.op(LDSFLD0, OVER, DUP, SETITEM)
		a.op(DEC, DUP, PUSH0)
		at := a.jmpL(JMPGTL)
		a.fix(at, 0, start)
		a.op(DROP, LDSFLD0, KEYS, LDSFLD0, VALUES)
	})
	add("items-nested-pack", func(a *asm) { // deep nesting: each level is an array holding the previous one
		a.op(NEWARRAY0)
		loopN(a, 1030+d, func() { a.op(SWAP, PUSH1, PACK, SWAP) })
	})
	add("items-shared", func(a *asm) { // one array referenced many times: its elements count once
		a.op1(INITSSLOT, 1)
		a.pushInt(int64(1000))
		a.op(NEWARRAY, STSFLD0)
		loopN(a, 1060+d, func() { a.op(LDSFLD0, SWAP) })
	})
	add("items-slots-recursive", func(a *asm) { // every invocation owns 255 locals
		a.op1(INITSSLOT, 200)
		a.pushInt(int64(8 + d%2))
		fnAt := a.pos() // f(n): INITSLOT 255,0; if n>0 f(n-1)
		a.op(INITSLOT, 255, 0)
		a.op(DEC, DUP, PUSH0)
		skip := a.jmpL(JMPLEL)
		call := a.jmpL(CALLL)
		a.fix(call, 0, fnAt)
		a.fix(skip, 0, a.pos())
		a.op(RET)
	})
	add("items-popitem-cycle", func(a *asm) { // cycles: the counter may only over-count
		a.op(NEWARRAY0, DUP, DUP, APPEND)
		loopN(a, 30, func() { a.op(OVER, DUP, APPEND) })
		a.op(DROP, DROP)
		a.pushInt(int64(2040))
		a.op(NEWARRAY)
	})
	// --- integers
	maxI := new(big.Int).Sub(two255, big.NewInt(1))
	minI := new(big.Int).Neg(two255)
	add("int-max-inc", func(a *asm) { a.pushBig(maxI, 32); a.op(DUP, DEC, DROP, INC) })
	add("int-min-dec", func(a *asm) { a.pushBig(minI, 32); a.op(DUP, INC, DROP, DEC) })
	add("int-min-negate", func(a *asm) { a.pushBig(minI, 32); a.op(DUP, NEGATE) })
	add("int-min-abs", func(a *asm) { a.pushBig(minI, 32); a.op(ABS) })
	add("int-mul", func(a *asm) {
		a.pushBig(new(big.Int).Lsh(big.NewInt(1), 127), 32)
		a.op(DUP, MUL, DUP, PUSH2, MUL) // 2^254 fits, 2^255 does not
	})
	add("int-shl", func(a *asm) { a.op(PUSH1); a.pushInt(254); a.op(SHL, DUP, PUSH1, SHL) })
	add("int-shl-neg", func(a *asm) { a.op(PUSHM1); a.pushInt(255); a.op(SHL, DUP, PUSH1, SHL) })
	add("int-pow", func(a *asm) { a.op(PUSH2); a.pushInt(254); a.op(POW, PUSH2); a.pushInt(255); a.op(POW) })
	add("int-pow-neg", func(a *asm) {
		a.pushInt(-2)
		a.pushInt(255)
		a.op(POW)
		a.pushInt(-2)
		a.pushInt(256)
		a.op(POW)
	})
	add("int-add", func(a *asm) { a.pushBig(maxI, 32); a.op(DUP, ADD) })
	add("int-sub", func(a *asm) { a.pushBig(minI, 32); a.op(PUSH1, SUB) })
	add("int-invert", func(a *asm) { a.pushBig(maxI, 32); a.op(INVERT, DUP, DEC) })
	add("int-div-min", func(a *asm) { a.pushBig(minI, 32); a.op(PUSHM1, DIV) })
	add("int-modmul", func(a *asm) { a.pushBig(maxI, 32); a.op(DUP); a.pushBig(minI, 32); a.op(MODMUL) })
	add("int-convert", func(a *asm) { // 33 bytes cannot become an integer
		a.pushData(append(make([]byte, 32), 1))
		a.op1(CONVERT, TInt)
	})
	add("int-bytes-arith", func(a *asm) { // byte strings used as integers (32 bytes is the most)
		b := make([]byte, 32)
		b[31] = 0x7f
		for i := 0; i < 31; i++ {
			b[i] = 0xff
		}
		a.pushData(b)
		a.op(INC)
	})
	add("int-sqrt-abs", func(a *asm) { a.pushBig(maxI, 32); a.op(SQRT, DUP, MUL, NEGATE, ABS) })
	// --- item size
	add("size-cat", func(a *asm) { // 2^16 .. doubling over 131070
		a.pushData(make([]byte, 255))
		loopN(a, 10, func() { a.op(SWAP, DUP, CAT, SWAP) })
	})
	add("size-cat-edge", func(a *asm) {
		a.pushData(make([]byte, 65535))
		a.op(DUP, CAT)           // exactly 131070
		a.op(PUSH0, PUSH1, LEFT) // one more byte
		a.op(CAT)
	})
	add("size-newbuffer", func(a *asm) { a.pushInt(131070); a.op(NEWBUFFER, DROP); a.pushInt(131071); a.op(NEWBUFFER) })
	add("size-pushdata4", func(a *asm) { a.pushData(make([]byte, 131070)); a.op(DROP); a.pushData(make([]byte, 131071)) })
	add("size-convert", func(a *asm) { a.pushInt(131070); a.op(NEWBUFFER); a.op1(CONVERT, TBytes); a.op(DUP, CAT) })
	add("size-right", func(a *asm) { a.pushData([]byte("abc")); a.pushInt(100000000); a.op(RIGHT) })
	add("size-substr", func(a *asm) { a.pushData([]byte("abc")); a.pushInt(2147483647); a.op(PUSH1, SUBSTR) })
	// --- invocation depth: f() { if n>0 f(n-1) }
	for _, n := range []int{1022, 1023, 1024, 1030} {
		n := n
		add("invoc-call", func(a *asm) {
			a.pushInt(int64(n))
			fnAt := a.pos()
			a.op(DEC, DUP, PUSH0)
			skip := a.jmpL(JMPLEL)
			if n%2 == 0 {
				call := a.jmpL(CALLL)
				a.fix(call, 0, fnAt)
			} else {
				p := a.jmpL(PUSHA)
				a.fix(p, 0, fnAt)
				a.op(CALLA)
			}
			a.fix(skip, 0, a.pos())
			a.op(RET)
		})
	}
	// --- try nesting: straight-line and through a loop, and per-context nesting across calls
	for _, n := range []int{15, 16, 17, 20} {
		n := n
		add("try-straight", func(a *asm) {
			var ats []int
			for i := 0; i < n; i++ {
				ats = append(ats, a.tryL())
			}
			a.op(PUSH1, THROW)
			c := a.pos()
			a.op(DROP, RET)
			for _, at := range ats {
				a.fix(at, 0, c)
			}
		})
		add("try-loop", func(a *asm) {
			a.pushInt(int64(n))
			start := a.pos()
			t := a.tryL()
			a.op(DEC, DUP, PUSH0)
			at := a.jmpL(JMPGTL)
			a.fix(at, 0, start)
			a.op(RET)
			a.fix(t, 0, a.pos())
			a.op(RET)
		})
	}
	add("try-per-context", func(a *asm) { // 10 blocks in each of 3 nested invocations: allowed
		a.pushInt(3)
		fnAt := a.pos()
		var ats []int
		for i := 0; i < 10; i++ {
			ats = append(ats, a.tryL())
		}
		a.op(DEC, DUP, PUSH0)
		skip := a.jmpL(JMPLEL)
		call := a.jmpL(CALLL)
		a.fix(call, 0, fnAt)
		a.fix(skip, 0, a.pos())
		a.op(RET)
		c := a.pos()
		a.op(RET)
		for _, at := range ats {
			a.fix(at, 0, c)
		}
	})
	add("try-finally-rethrow", func(a *asm) { // exception through finally blocks and contexts with slots holding compounds
		a.op1(INITSSLOT, 1)
		t0 := a.tryL()
		call := a.jmpL(CALLL)
		e0 := a.jmpL(ENDTRYL)
		a.fix(t0, 0, a.pos())
		a.op(STSFLD0) // catch: keep the exception (an array) in a static slot
		e1 := a.jmpL(ENDTRYL)
		a.fix(e0, 0, a.pos())
		a.fix(e1, 0, a.pos())
		a.op(LDSFLD0, RET)
		a.fix(call, 0, a.pos())
		a.op(INITSLOT, 2, 0)
		a.op(PUSH3, NEWARRAY, DUP, STLOC0, DUP, PUSH1, PACK, STLOC0+1)
		t1 := a.tryL()
		a.op(THROW)
		a.fix(t1, 1, a.pos())
		a.op(LDLOC0, LDLOC0+1, APPEND, ENDFINALLY)
		a.op(RET)
	})
	return out
}

// ---------------------------------------------------------------- exceptions raised by instructions

// genOOR enumerates SETITEM / PICKITEM with an index out of range (PICKITEM also with a missing map key) over
// container kind x sharing x value kind x the place of the handler (catch, catch+finally, finally inside an
// outer catch, one and two calls deep with locals holding compound items).  The catch block goes on for a
// few instructions, so that the counter is compared with the walk after the exception was handled.
func genOOR(r *rand.Rand) []limitCase {
	var out []limitCase
	n := 0
	containers := []string{"arr0", "arr2", "struct1", "buffer2", "map1", "bytes2"}
	sharings := []string{"temp", "dup", "slot", "nested"}
	values := []string{"prim", "struct", "struct2", "array"}
	wraps := []string{"catch", "catch-finally", "finally-in-catch", "call", "call2"}
	for _, set := range []bool{true, false} {
		for _, c := range containers {
			if set && (c == "map1" || c == "bytes2") {
				continue // SETITEM on a map never raises; a byte string is not a container for SETITEM
			}
			for _, sh := range sharings {
				vals := values
				if !set {
					vals = values[:1]
				}
				for _, val := range vals {
					for _, w := range wraps {
						n++
						a := &asm{}
						a.op1(INITSSLOT, 2)
						var length int
						body := func() {
							switch c {
							case "arr0":
								a.op(NEWARRAY0)
							case "arr2":
								a.op(PUSH2, NEWARRAY)
								length = 2
							case "struct1":
								a.op(PUSH1, NEWSTRUCT)
								length = 1
							case "buffer2":
								a.op(PUSH2, NEWBUFFER)
								length = 2
							case "map1":
								a.op(PUSH1, PUSH0, PUSH1, PACKMAP) // {0: 1}
								length = 7                         // a key that is not there
							default:
								a.pushData([]byte("ab"))
								length = 2
							}
							switch sh {
							case "dup":
								a.op(DUP)
							case "slot":
								a.op(DUP, STSFLD0)
							case "nested":
								a.op(DUP, PUSH1, PACK, STSFLD0+1)
							}
							switch (n + r.Intn(3)) % 3 {
							case 0:
								a.pushInt(int64(length))
							case 1:
								a.pushInt(int64(length + 1 + r.Intn(100)))
							default:
								if c == "map1" {
									a.pushInt(int64(length))
								} else {
									a.pushInt(-1)
								}
							}
							if !set {
								a.op(PICKITEM)
								return
							}
							switch val {
							case "prim":
								a.op(PUSH1)
							case "struct":
								a.op(PUSH2, NEWSTRUCT)
							case "struct2":
								a.op(PUSH1, NEWSTRUCT, NEWARRAY0, PUSH2, PACKSTRUCT)
							default:
								a.op(PUSH3, NEWARRAY)
							}
							a.op(SETITEM)
						}
						after := func() { // the catch block: message on top
							a.op(NOP, DROP, PUSH1, DROP, LDSFLD0, DROP)
						}
						var fixEnd []int
						switch w {
						case "catch", "catch-finally":
							t := a.tryL()
							body()
							fixEnd = append(fixEnd, a.jmpL(ENDTRYL))
							a.fix(t, 0, a.pos())
							after()
							fixEnd = append(fixEnd, a.jmpL(ENDTRYL))
							if w == "catch-finally" {
								a.fix(t, 1, a.pos())
								a.op(NOP, PUSH2, DROP, ENDFINALLY)
							}
						case "finally-in-catch":
							t := a.tryL()
							t2 := a.tryL()
							body()
							e := a.jmpL(ENDTRYL)
							a.fix(t2, 1, a.pos())
							a.op(NOP, LDSFLD0+1, DROP, ENDFINALLY)
							a.fix(e, 0, a.pos())
							fixEnd = append(fixEnd, a.jmpL(ENDTRYL))
							a.fix(t, 0, a.pos())
							after()
							fixEnd = append(fixEnd, a.jmpL(ENDTRYL))
						default: // the instruction runs one or two invocations below the handler
							t := a.tryL()
							a.op(PUSH3, NEWARRAY) // an argument that is a compound item
							call := a.jmpL(CALLL)
							a.op(DROP)
							fixEnd = append(fixEnd, a.jmpL(ENDTRYL))
							a.fix(t, 0, a.pos())
							after()
							fixEnd = append(fixEnd, a.jmpL(ENDTRYL))
							skip := a.jmpL(JMPL)
							a.fix(call, 0, a.pos())
							a.op(INITSLOT, 2, 1)
							a.op(LDARG0, STLOC0, PUSH2, NEWSTRUCT, STLOC0+1)
							if w == "call2" {
								a.op(LDLOC0 + 1)
								c2 := a.jmpL(CALLL)
								a.op(RET)
								a.fix(c2, 0, a.pos())
								a.op(INITSLOT, 1, 1)
								a.op(LDARG0, PUSH1, PACK, STLOC0)
							}
							body()
							a.op(PUSH1, RET)
							a.fix(skip, 0, a.pos())
						}
						for _, f := range fixEnd {
							a.fix(f, 0, a.pos())
						}
						a.op(NOP, DEPTH, DROP, RET)
						op := "pickitem"
						if set {
							op = "setitem"
						}
						out = append(out, limitCase{op + "-" + c + "-" + sh + "-" + val + "-" + w, a.b})
					}
				}
			}
		}
	}
	return out
}

// ---------------------------------------------------------------- near misses of the static check

// genStatic builds a well-formed script in which exactly one jump-like operand (chosen by kind) points
// into the middle of an instruction whose operand bytes are themselves valid opcodes.  A correct static
// check rejects it; if the check lets it pass, executing it leaves the instruction boundaries.
func genStatic(r *rand.Rand, kind int, bad bool) (string, []byte) {
	a := &asm{}
	names := []string{"JMP", "JMPL", "JMPIF", "JMPIFNOTL", "JMPEQ", "JMPNEL", "JMPGT", "JMPGEL", "JMPLT", "JMPLEL",
		"CALL", "CALLL", "PUSHA+CALLA", "TRY-catch", "TRYL-catch", "TRY-finally", "TRYL-finally", "ENDTRY", "ENDTRYL", "JMPL-back"}
	kind %= len(names)
	// the landing pad: PUSHINT32 whose operand is NOP NOP NOP RET
	pad := func() int {
		at := a.pos()
		a.op(PUSHINT32, NOP, NOP, NOP, RET)
		a.op(DROP)
		return at
	}
	tgt := func(padAt int) int {
		if bad {
			return padAt + 1 + r.Intn(3)
		}
		return padAt
	}
	short := func(op int, pre ...int) {
		a.op(pre...)
		at := a.pos()
		a.op1(op, 0)
		for i := 0; i < r.Intn(3); i++ {
			a.op(NOP)
		}
		p := pad()
		a.b[at+1] = byte(int8(tgt(p) - at))
		a.op(RET)
	}
	long := func(op int, pre ...int) {
		a.op(pre...)
		at := a.jmpL(op)
		for i := 0; i < r.Intn(3); i++ {
			a.op(NOP)
		}
		p := pad()
		a.fix(at, 0, tgt(p))
		a.op(RET)
	}
	switch kind {
	case 0:
		short(JMP)
	case 1:
		long(JMPL)
	case 2:
		short(JMPIF, PUSHT)
	case 3:
		long(JMPIFNOTL, PUSHF)
	case 4:
		short(JMPEQ, PUSH1, PUSH1)
	case 5:
		long(JMPNEL, PUSH1, PUSH2)
	case 6:
		short(JMPGT, PUSH2, PUSH1)
	case 7:
		long(JMPGEL, PUSH2, PUSH1)
	case 8:
		short(JMPLT, PUSH1, PUSH2)
	case 9:
		long(JMPLEL, PUSH1, PUSH2)
	case 10:
		short(CALL)
	case 11:
		long(CALLL)
	case 12:
		at := a.jmpL(PUSHA)
		a.op(CALLA, RET)
		p := pad()
		a.fix(at, 0, tgt(p))
		a.op(RET)
	case 13, 15: // TRY with catch / finally into the pad
		at := a.pos()
		a.op(TRY, 0, 0)
		a.op(PUSH1, THROW)
		p := pad()
		if kind == 13 {
			a.b[at+1] = byte(int8(tgt(p) - at))
		} else {
			a.b[at+2] = byte(int8(tgt(p) - at))
		}
		a.op(RET)
	case 14, 16:
		at := a.tryL()
		a.op(PUSH1, THROW)
		p := pad()
		a.fix(at, (kind-14)/2, tgt(p))
		a.op(RET)
	case 17:
		at := a.pos()
		a.op(TRY, 0, 0)
		e := a.pos()
		a.op1(ENDTRY, 0)
		c := a.pos()
		a.op(DROP, RET)
		a.b[at+1] = byte(int8(c - at))
		p := pad()
		a.b[e+1] = byte(int8(tgt(p) - e))
		a.op(RET)
	case 18:
		at := a.tryL()
		e := a.jmpL(ENDTRYL)
		c := a.pos()
		a.op(DROP, RET)
		a.fix(at, 0, c)
		p := pad()
		a.fix(e, 0, tgt(p))
		a.op(RET)
	default: // backwards jump
		j0 := a.jmpL(JMPL)
		p := pad()
		a.op(RET)
		a.fix(j0, 0, a.pos())
		back := a.jmpL(JMPL)
		a.fix(back, 0, tgt(p))
	}
	n := "ok-"
	if bad {
		n = "bad-"
	}
	return n + names[kind], a.b
}
