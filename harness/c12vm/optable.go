// Package c12vm drives the NeoVM of neo-go for property C12 (total, bounded, memory-safe).
//
// optable.go is the harness's OWN description of the NeoVM instruction set (opcode values and operand
// layout written from the NeoVM specification), used to build scripts and to compute instruction
// boundaries independently of pkg/vm/opcode and pkg/smartcontract/scparser (the code under test).
package c12vm

import "encoding/binary"

const (
	PUSHINT8   = 0x00
	PUSHINT16  = 0x01
	PUSHINT32  = 0x02
	PUSHINT64  = 0x03
	PUSHINT128 = 0x04
	PUSHINT256 = 0x05
	PUSHT      = 0x08
	PUSHF      = 0x09
	PUSHA      = 0x0A
	PUSHNULL   = 0x0B
	PUSHDATA1  = 0x0C
	PUSHDATA2  = 0x0D
	PUSHDATA4  = 0x0E
	PUSHM1     = 0x0F
	PUSH0      = 0x10
	PUSH1      = 0x11
	PUSH2      = 0x12
	PUSH3      = 0x13
	PUSH4      = 0x14
	PUSH16     = 0x20
	NOP        = 0x21
	JMP        = 0x22
	JMPL       = 0x23
	JMPIF      = 0x24
	JMPIFL     = 0x25
	JMPIFNOT   = 0x26
	JMPIFNOTL  = 0x27
	JMPEQ      = 0x28
	JMPEQL     = 0x29
	JMPNE      = 0x2A
	JMPNEL     = 0x2B
	JMPGT      = 0x2C
	JMPGTL     = 0x2D
	JMPGE      = 0x2E
	JMPGEL     = 0x2F
	JMPLT      = 0x30
	JMPLTL     = 0x31
	JMPLE      = 0x32
	JMPLEL     = 0x33
	CALL       = 0x34
	CALLL      = 0x35
	CALLA      = 0x36
	CALLT      = 0x37
	ABORT      = 0x38
	ASSERT     = 0x39
	THROW      = 0x3A
	TRY        = 0x3B
	TRYL       = 0x3C
	ENDTRY     = 0x3D
	ENDTRYL    = 0x3E
	ENDFINALLY = 0x3F
	RET        = 0x40
	SYSCALL    = 0x41
	DEPTH      = 0x43
	DROP       = 0x45
	NIP        = 0x46
	XDROP      = 0x48
	CLEAR      = 0x49
	DUP        = 0x4A
	OVER       = 0x4B
	PICK       = 0x4D
	TUCK       = 0x4E
	SWAP       = 0x50
	ROT        = 0x51
	ROLL       = 0x52
	REVERSE3   = 0x53
	REVERSE4   = 0x54
	REVERSEN   = 0x55
	INITSSLOT  = 0x56
	INITSLOT   = 0x57
	LDSFLD0    = 0x58
	LDSFLD     = 0x5F
	STSFLD0    = 0x60
	STSFLD     = 0x67
	LDLOC0     = 0x68
	LDLOC      = 0x6F
	STLOC0     = 0x70
	STLOC      = 0x77
	LDARG0     = 0x78
	LDARG      = 0x7F
	STARG0     = 0x80
	STARG      = 0x87
	NEWBUFFER  = 0x88
	MEMCPY     = 0x89
	CAT        = 0x8B
	SUBSTR     = 0x8C
	LEFT       = 0x8D
	RIGHT      = 0x8E
	INVERT     = 0x90
	AND        = 0x91
	OR         = 0x92
	XOR        = 0x93
	EQUAL      = 0x97
	NOTEQUAL   = 0x98
	SIGN       = 0x99
	ABS        = 0x9A
	NEGATE     = 0x9B
	INC        = 0x9C
	DEC        = 0x9D
	ADD        = 0x9E
	SUB        = 0x9F
	MUL        = 0xA0
	DIV        = 0xA1
	MOD        = 0xA2
	POW        = 0xA3
	SQRT       = 0xA4
	MODMUL     = 0xA5
	MODPOW     = 0xA6
	SHL        = 0xA8
	SHR        = 0xA9
	NOT        = 0xAA
	BOOLAND    = 0xAB
	BOOLOR     = 0xAC
	NZ         = 0xB1
	NUMEQUAL   = 0xB3
	NUMNOTEQ   = 0xB4
	LT         = 0xB5
	LE         = 0xB6
	GT         = 0xB7
	GE         = 0xB8
	MIN        = 0xB9
	MAX        = 0xBA
	WITHIN     = 0xBB
	PACKMAP    = 0xBE
	PACKSTRUCT = 0xBF
	PACK       = 0xC0
	UNPACK     = 0xC1
	NEWARRAY0  = 0xC2
	NEWARRAY   = 0xC3
	NEWARRAYT  = 0xC4
	NEWSTRUCT0 = 0xC5
	NEWSTRUCT  = 0xC6
	NEWMAP     = 0xC8
	SIZE       = 0xCA
	HASKEY     = 0xCB
	KEYS       = 0xCC
	VALUES     = 0xCD
	PICKITEM   = 0xCE
	APPEND     = 0xCF
	SETITEM    = 0xD0
	REVERSEIT  = 0xD1
	REMOVE     = 0xD2
	CLEARITEMS = 0xD3
	POPITEM    = 0xD4
	ISNULL     = 0xD8
	ISTYPE     = 0xD9
	CONVERT    = 0xDB
	ABORTMSG   = 0xE0
	ASSERTMSG  = 0xE1
)

// stack item type codes (operand of ISTYPE / CONVERT / NEWARRAY_T)
const (
	TAny     = 0x00
	TPointer = 0x10
	TBool    = 0x20
	TInt     = 0x21
	TBytes   = 0x28
	TBuffer  = 0x30
	TArray   = 0x40
	TStruct  = 0x41
	TMap     = 0x48
	TInterop = 0x60
)

// operand layout: >=0 fixed operand size, -1/-2/-4: length prefix of that many bytes, -9: not an opcode.
var operand [256]int

func init() {
	for i := range operand {
		operand[i] = -9
	}
	def := func(sz int, ops ...int) {
		for _, o := range ops {
			operand[o] = sz
		}
	}
	def(1, PUSHINT8)
	def(2, PUSHINT16)
	def(4, PUSHINT32)
	def(8, PUSHINT64)
	def(16, PUSHINT128)
	def(32, PUSHINT256)
	def(0, PUSHT, PUSHF, PUSHNULL)
	def(4, PUSHA)
	def(-1, PUSHDATA1)
	def(-2, PUSHDATA2)
	def(-4, PUSHDATA4)
	for o := PUSHM1; o <= PUSH16; o++ {
		def(0, o)
	}
	def(0, NOP)
	for o := JMP; o <= JMPLE; o += 2 { // short forms
		def(1, o)
		def(4, o+1)
	}
	def(1, CALL)
	def(4, CALLL)
	def(0, CALLA)
	def(2, CALLT)
	def(0, ABORT, ASSERT, THROW)
	def(2, TRY)
	def(8, TRYL)
	def(1, ENDTRY)
	def(4, ENDTRYL)
	def(0, ENDFINALLY, RET)
	def(4, SYSCALL)
	def(0, DEPTH, DROP, NIP, XDROP, CLEAR, DUP, OVER, PICK, TUCK, SWAP, ROT, ROLL, REVERSE3, REVERSE4, REVERSEN)
	def(1, INITSSLOT)
	def(2, INITSLOT)
	for _, base := range []int{LDSFLD0, STSFLD0, LDLOC0, STLOC0, LDARG0, STARG0} {
		for i := 0; i < 7; i++ {
			def(0, base+i)
		}
		def(1, base+7)
	}
	def(0, NEWBUFFER, MEMCPY, CAT, SUBSTR, LEFT, RIGHT)
	def(0, INVERT, AND, OR, XOR, EQUAL, NOTEQUAL)
	def(0, SIGN, ABS, NEGATE, INC, DEC, ADD, SUB, MUL, DIV, MOD, POW, SQRT, MODMUL, MODPOW, SHL, SHR, NOT, BOOLAND, BOOLOR)
	def(0, NZ, NUMEQUAL, NUMNOTEQ, LT, LE, GT, GE, MIN, MAX, WITHIN)
	def(0, PACKMAP, PACKSTRUCT, PACK, UNPACK, NEWARRAY0, NEWARRAY, NEWSTRUCT0, NEWSTRUCT, NEWMAP)
	def(1, NEWARRAYT)
	def(0, SIZE, HASKEY, KEYS, VALUES, PICKITEM, APPEND, SETITEM, REVERSEIT, REMOVE, CLEARITEMS, POPITEM, ISNULL)
	def(1, ISTYPE, CONVERT)
	def(0, ABORTMSG, ASSERTMSG)
}

// validOps lists all defined opcodes.
func validOps() []byte {
	var r []byte
	for i, s := range operand {
		if s != -9 {
			r = append(r, byte(i))
		}
	}
	return r
}

// boundaries decodes the script linearly from offset 0 and returns the set of instruction starts.
// complete is false if decoding stopped before the end (unknown opcode or truncated operand).
func boundaries(script []byte) (bnd []bool, complete bool) {
	bnd = make([]bool, len(script)+1)
	i := 0
	for i < len(script) {
		sz := operand[script[i]]
		if sz == -9 {
			return bnd, false
		}
		bnd[i] = true
		n := 1
		if sz >= 0 {
			n += sz
		} else {
			p := -sz
			if i+1+p > len(script) {
				return bnd, false
			}
			var l int
			switch p {
			case 1:
				l = int(script[i+1])
			case 2:
				l = int(binary.LittleEndian.Uint16(script[i+1:]))
			default:
				l = int(binary.LittleEndian.Uint32(script[i+1:]))
				if l < 0 || l > 1<<24 {
					return bnd, false
				}
			}
			n += p + l
		}
		if i+n > len(script) {
			return bnd, false
		}
		i += n
	}
	bnd[len(script)] = true // falling off the end is the implicit RET
	return bnd, true
}
