package c12vm

import (
	"encoding/hex"
	"fmt"

	"verifharness/internal/vh"

	"github.com/nspcc-dev/neo-go/pkg/core/fee"
	"github.com/nspcc-dev/neo-go/pkg/smartcontract/scparser"
	"github.com/nspcc-dev/neo-go/pkg/util"
	"github.com/nspcc-dev/neo-go/pkg/vm"
	"github.com/nspcc-dev/neo-go/pkg/vm/opcode"
	"github.com/nspcc-dev/neo-go/pkg/vm/stackitem"
)

// mark is a prediction of the implementation-shaped model at an action boundary of a realised behaviour.
type mark struct {
	Off    int
	Refs   int
	Walked int
	Step   int
	Op     string
}

type runSpec struct {
	Src         string // source class of the script (tlc / cex / bytes / ops / deep / limit-... / static-...)
	Script      []byte
	Limit       int64 // gas limit, datoshi (finite)
	Base        int64 // price of one opcode unit in picoGAS
	Marks       []mark
	Note        string
	ExpectFault bool // the model says that the last realised action ends in FAULT (uncaught exception)
}

type runOut struct {
	State    string
	Panicked bool
	Gas      int64
	Steps    int
	Halted   bool
	Checked  bool
	MarksHit int
	MaxWalk  int
	MaxIDep  int
	MaxTDep  int
	MaxBits  int
	MaxSize  int
	Cyc      bool
}

func limbs(x int64) []int64 {
	if x < 0 {
		x = 0
	}
	return []int64{x >> 60, (x >> 30) & (1<<30 - 1), x & (1<<30 - 1)}
}

var runCounter int

// execute runs one script under one finite gas limit on a fresh VM and records one trace.
func execute(res *vh.Result, tr *vh.Trace, rs runSpec) runOut {
	runCounter++
	id := runCounter
	var out runOut
	bnd, _ := boundaries(rs.Script)
	checked := false
	func() {
		defer func() {
			if p := recover(); p != nil { // not part of the statement (nothing is executed yet): recorded, not judged
				res.Inc("static_check_panics", 1)
				res.AddDrift(map[string]any{"what": "scparser.IsScriptCorrect panicked", "panic": fmt.Sprint(p),
					"script": hex.EncodeToString(rs.Script)})
			}
		}()
		checked = scparser.IsScriptCorrect(rs.Script, nil) == nil
	}()
	out.Checked = checked
	tr.Emit(map[string]any{"e": "i", "id": id, "src": rs.Src, "lim": limbs(rs.Limit), "chk": checked,
		"len": len(rs.Script), "script": hex.EncodeToString(rs.Script), "base": rs.Base, "note": rs.Note})

	v := vm.New()
	base := rs.Base
	v.SetPriceGetter(func(op opcode.Opcode, _ []byte) int64 { return fee.Opcode(base, op) })
	var (
		prev    []stackitem.Item
		cyc     bool
		nextM   int
		lastOff = -1
		drifted bool
		lastOp  opcode.Opcode
	)
	observe := func() obs {
		o := walkVM(v)
		if !cyc && (len(o.Compact) > 0 || len(prev) > 0) && hasCycle(prev, o.Compact) {
			cyc = true
		}
		prev = o.Compact
		o.Cyc = cyc
		if o.Walked > out.MaxWalk {
			out.MaxWalk = o.Walked
		}
		if o.IDepth > out.MaxIDep {
			out.MaxIDep = o.IDepth
		}
		if o.TDepth > out.MaxTDep {
			out.MaxTDep = o.TDepth
		}
		if o.Bits > out.MaxBits {
			out.MaxBits = o.Bits
		}
		if o.Size > out.MaxSize {
			out.MaxSize = o.Size
		}
		return o
	}
	v.SetOnExecHook(func(_ util.Uint160, off int, op opcode.Opcode) {
		out.Steps++
		o := observe()
		refs := v.VerifRefs()
		onb := off >= 0 && off < len(bnd) && bnd[off]
		tt := ""
		if es := v.Estack(); es != nil {
			for k := 0; k < 3 && k < es.Len(); k++ {
				if k > 0 {
					tt += ","
				}
				tt += es.Peek(k).Item().Type().String()
			}
		}
		ev := map[string]any{"e": "s", "o": off, "op": int(op), "r": refs, "w": o.Walked, "c": o.Cyc, "b": o.Bits,
			"z": o.Size, "i": o.IDepth, "t": o.TDepth, "g": limbs(v.GasConsumed()), "k": onb, "tt": tt, "st": v.State().String()}
		tr.Emit(ev)
		res.Count([]any{rs.Src[:3], int(lastOp), int(op), refs - o.Walked, o.Cyc, o.IDepth, o.TDepth})
		if nextM < len(rs.Marks) && rs.Marks[nextM].Off == off {
			m := rs.Marks[nextM]
			nextM++
			if !drifted && (m.Refs != refs || m.Walked != o.Walked) {
				drifted = true // later predictions of this run inherit the difference: one record per run
				res.Inc("drift", 1)
				res.AddDrift(map[string]any{"src": rs.Src, "step": m.Step, "op": m.Op, "predicted_refs": m.Refs,
					"predicted_walked": m.Walked, "refs": refs, "walked": o.Walked, "script": hex.EncodeToString(rs.Script)})
			}
		}
		lastOff, lastOp = off, op
	})
	v.LoadWithFlags(rs.Script, 0)
	v.SetGasLimit(rs.Limit)
	var runErr error
	var panicked any
	func() {
		defer func() { panicked = recover() }()
		runErr = v.Run()
	}()
	out.MarksHit = nextM
	out.Gas = v.GasConsumed()
	out.State = v.State().String()
	out.Halted = v.HasHalted() && !v.HasFailed()
	out.Cyc = cyc
	if panicked != nil {
		out.Panicked = true
		res.Violate(map[string]any{"kind": "panic", "op": lastOp.String(), "src": rs.Src[:3]},
			fmt.Sprintf("a Go panic escaped VM.Run at offset %d (%s): %v", lastOff, lastOp, panicked),
			map[string]any{"script": hex.EncodeToString(rs.Script), "limit": rs.Limit, "base": rs.Base})
	}
	fin := map[string]any{"e": "f", "st": out.State, "p": out.Panicked, "g": limbs(out.Gas), "err": runErr != nil,
		"lo": lastOff, "lop": int(lastOp)}
	if !out.Panicked && !v.HasFailed() {
		o := observe()
		fin["r"], fin["w"], fin["c"], fin["b"], fin["z"], fin["i"], fin["t"] = v.VerifRefs(), o.Walked, o.Cyc, o.Bits, o.Size, o.IDepth, o.TDepth
	} else {
		// nothing is said about the wreck of a faulted VM: scalars are recorded as zero and not judged
		fin["r"], fin["w"], fin["c"], fin["b"], fin["z"], fin["i"], fin["t"] = 0, 0, cyc, 0, 0, 0, 0
	}
	tr.Emit(fin)
	res.Traces++
	if rs.ExpectFault && nextM == len(rs.Marks) && out.State != "FAULT" {
		res.Inc("drift", 1)
		res.AddDrift(map[string]any{"src": rs.Src, "what": "the model predicts an uncaught exception (FAULT)", "state": out.State,
			"script": hex.EncodeToString(rs.Script)})
	}
	if nextM < len(rs.Marks) && len(rs.Marks) > 0 {
		res.Inc("replays_not_completed", 1)
		res.AddDrift(map[string]any{"src": rs.Src, "what": "realised behaviour stopped before its last action",
			"reached": nextM, "of": len(rs.Marks), "state": out.State, "at": lastOff, "op": lastOp.String(),
			"script": hex.EncodeToString(rs.Script)})
	}
	return out
}
