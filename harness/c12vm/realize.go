package c12vm

import "fmt"

// MStep is one record of a behaviour of spec/vmref/VMRefSim.tla (or of a TLC counterexample of VMRef).
type MStep struct {
	Op     string `json:"op"`
	A      int    `json:"a"`
	B      int    `json:"b"`
	Kd     string `json:"kd"`
	Refs   int    `json:"refs"`
	Walked int    `json:"walked"`
	Cyc    bool   `json:"cyc"`
	NS     int    `json:"ns"` // init only
}

type rframe struct {
	arg    bool // the frame's single slot cell is an argument (INITSLOT 0,1) rather than a local
	jmpAt  int  // address of the caller's JMPL to the continuation
	tryAt  int  // address of a TRYL whose catch offset is not resolved yet (-1: none)
	hasTry bool
}

// realize turns a behaviour of the implementation-shaped model into a NeoVM script.  Every abstract
// mutation is mapped onto one of the instruction sequences implementing it, chosen round-robin
// (variant counter v).  marks are the model's predictions at the action boundaries.
func realize(h []MStep, v int) ([]byte, []mark, bool, error) {
	script, marks, expectFault, err := realize1(h, v)
	return script, marks, expectFault, err
}

func realize1(h []MStep, v int) (script []byte, marks []mark, expectFault bool, err error) {
	if len(h) == 0 || h[0].Op != "init" {
		return nil, nil, false, fmt.Errorf("behaviour does not start with init")
	}
	a := &asm{}
	ns := h[0].NS
	if ns > 0 {
		a.op1(INITSSLOT, ns)
	}
	frames := []rframe{{tryAt: -1}}
	var loose []int // JMPL / TRYL(k) fix-ups that must point at the trailing RET: (at*2+k)
	pick := func(n int) int { v++; return v % n }
	pushPrim := func() {
		switch pick(6) {
		case 0:
			a.op(PUSH1)
		case 1:
			a.op(PUSHT)
		case 2:
			a.op(PUSHNULL)
		case 3:
			a.pushData([]byte("ab"))
		case 4:
			a.pushInt(1000)
		default:
			a.op(PUSHM1)
		}
	}
	slot := func(base0 int, j int) { // j is 0-based
		if pick(2) == 0 && j < 7 {
			a.op(base0 + j)
		} else {
			a.op1(base0+7, j)
		}
	}
	// caught continues in the catch block of the innermost handler, `unwound` frames below the current one:
	// the frames above it are gone, the catch block starts right here and ENDTRY leaves the try block.
	caught := func(unwound int) error {
		j := len(frames) - 1 - unwound
		if j < 0 || frames[j].tryAt < 0 {
			return fmt.Errorf("exception without a handler")
		}
		for k := len(frames) - 1; k > j; k-- {
			loose = append(loose, frames[k].jmpAt*2)
			if frames[k].tryAt >= 0 {
				loose = append(loose, frames[k].tryAt*2)
			}
		}
		frames = frames[:j+1]
		a.fix(frames[j].tryAt, 0, a.pos()) // catch block starts here
		frames[j].tryAt = -1
		a.op1(ENDTRY, 2)
		return nil
	}
	// oorIndex turns "first index out of range" (0-based: the length) into one of several such indexes
	oorIndex := func(length int) int64 {
		switch pick(4) {
		case 0:
			return int64(length)
		case 1:
			return int64(length + 1 + pick(5))
		case 2:
			return -1
		default:
			return int64(length)
		}
	}
steps:
	for i, s := range h[1:] {
		switch s.Op {
		case "prim":
			pushPrim()
		case "new":
			switch s.Kd {
			case "arr":
				if s.A == 0 {
					switch pick(4) {
					case 0:
						a.op(NEWARRAY0)
					case 1:
						a.op(PUSH0, NEWARRAY)
					case 2:
						a.op(PUSH0, PACK)
					default:
						a.op(PUSH0)
						a.op1(NEWARRAYT, TBool)
					}
				} else {
					a.pushInt(int64(s.A))
					switch pick(3) {
					case 0:
						a.op(NEWARRAY)
					case 1:
						a.op1(NEWARRAYT, TInt)
					default:
						a.op1(NEWARRAYT, TAny)
					}
				}
			case "struct":
				if s.A == 0 {
					switch pick(3) {
					case 0:
						a.op(NEWSTRUCT0)
					case 1:
						a.op(PUSH0, NEWSTRUCT)
					default:
						a.op(PUSH0, PACKSTRUCT)
					}
				} else {
					a.pushInt(int64(s.A))
					a.op(NEWSTRUCT)
				}
			case "map":
				if pick(2) == 0 {
					a.op(NEWMAP)
				} else {
					a.op(PUSH0, PACKMAP)
				}
			}
		case "dup":
			switch {
			case s.A == 0 && pick(2) == 0:
				a.op(DUP)
			case s.A == 1 && pick(2) == 0:
				a.op(OVER)
			default:
				a.pushInt(int64(s.A))
				a.op(PICK)
			}
		case "drop":
			switch {
			case s.A == 0 && pick(2) == 0:
				a.op(DROP)
			case s.A == 1 && pick(2) == 0:
				a.op(NIP)
			default:
				a.pushInt(int64(s.A))
				a.op(XDROP)
			}
		case "lds":
			slot(LDSFLD0, s.A-1)
		case "sts":
			slot(STSFLD0, s.A-1)
		case "ldl":
			if frames[len(frames)-1].arg {
				slot(LDARG0, s.A-1)
			} else {
				slot(LDLOC0, s.A-1)
			}
		case "stl":
			if frames[len(frames)-1].arg {
				slot(STARG0, s.A-1)
			} else {
				slot(STLOC0, s.A-1)
			}
		case "append":
			a.op(APPEND)
		case "setitem":
			a.pushInt(int64(s.A - 1))
			a.op(SWAP, SETITEM)
		case "setmap":
			a.pushInt(int64(s.A))
			a.op(SWAP, SETITEM)
		case "remove":
			if s.Kd == "map" {
				a.pushInt(int64(s.B))
			} else {
				a.pushInt(int64(s.A - 1))
			}
			a.op(REMOVE)
		case "popitem":
			a.op(POPITEM)
		case "clear":
			a.op(CLEARITEMS)
		case "reverse":
			a.op(REVERSEIT)
		case "pack":
			a.pushInt(int64(s.A))
			if s.Kd == "struct" {
				a.op(PACKSTRUCT)
			} else {
				a.op(PACK)
			}
		case "packmap":
			// stack [.. v_n .. v_1] -> [.. v_n k_n .. v_1 k_1 n]; key of pair i is i-1 (all 0 for the duplicate variant)
			for p := 1; p <= s.A; p++ {
				k := int64(p - 1)
				if s.B == 1 {
					k = 0
				}
				a.pushInt(k)
				d := 2 * (p - 1)
				for r := 0; r < d; r++ {
					if d == 2 && pick(2) == 0 {
						a.op(ROT)
					} else {
						a.pushInt(int64(d))
						a.op(ROLL)
					}
				}
			}
			a.pushInt(int64(s.A))
			a.op(PACKMAP)
		case "unpack":
			a.op(UNPACK, DROP)
		case "values":
			a.op(VALUES)
		case "keys":
			a.op(KEYS)
		case "call":
			callAt := a.jmpL(CALLL)
			jmpAt := a.jmpL(JMPL)
			a.fix(callAt, 0, a.pos())
			if s.A == 1 {
				a.op(INITSLOT, 0, 1)
			} else {
				a.op(INITSLOT, 1, 0)
			}
			frames = append(frames, rframe{arg: s.A == 1, jmpAt: jmpAt, tryAt: -1})
		case "ret":
			f := frames[len(frames)-1]
			frames = frames[:len(frames)-1]
			a.op(RET)
			a.fix(f.jmpAt, 0, a.pos())
			if f.tryAt >= 0 {
				loose = append(loose, f.tryAt*2)
			}
		case "try":
			f := &frames[len(frames)-1]
			if f.tryAt >= 0 {
				loose = append(loose, f.tryAt*2)
			}
			f.tryAt = a.tryL()
		case "throw":
			a.op(THROW)
			if err := caught(s.A); err != nil {
				return nil, nil, false, fmt.Errorf("step %d: %v", i+1, err)
			}
		case "pickitem":
			if s.Kd == "map" {
				a.pushInt(int64(s.B))
			} else {
				a.pushInt(int64(s.A - 1))
			}
			a.op(PICKITEM)
		case "setitem_oor", "pickitem_oor", "pickmap_missing":
			switch s.Op {
			case "setitem_oor":
				a.pushInt(oorIndex(s.A - 1))
				a.op(SWAP, SETITEM)
			case "pickitem_oor":
				a.pushInt(oorIndex(s.A - 1))
				a.op(PICKITEM)
			default:
				a.pushInt(int64(s.A))
				a.op(PICKITEM)
			}
			if s.B < 0 { // no handler anywhere: the model says FAULT, nothing follows
				expectFault = true
				break steps
			}
			if err := caught(s.B); err != nil {
				return nil, nil, false, fmt.Errorf("step %d: %v", i+1, err)
			}
		default:
			return nil, nil, false, fmt.Errorf("step %d: unknown model action %q", i+1, s.Op)
		}
		marks = append(marks, mark{Off: a.pos(), Refs: s.Refs, Walked: s.Walked, Step: i + 1, Op: s.Op})
	}
	end := a.pos()
	a.op(RET)
	for _, f := range frames {
		if f.jmpAt > 0 {
			loose = append(loose, f.jmpAt*2)
		}
		if f.tryAt >= 0 {
			loose = append(loose, f.tryAt*2)
		}
	}
	for _, l := range loose {
		a.fix(l/2, l%2, end)
	}
	return a.b, marks, expectFault, nil
}
