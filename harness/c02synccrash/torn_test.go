//go:build verif

package c02synccrash

import (
	"fmt"
	"math/rand"
	"os"
	"runtime"
	"sync"
	"sync/atomic"
	"testing"

	"verifharness/internal/chainkit"

	"github.com/nspcc-dev/neo-go/pkg/core/storage"
)

// TestTornProbe (information for the lead, NOT part of the check: run with VERIF_TORN=1). In production the persist
// timer runs concurrently with the deliveries, so a flush can fall INSIDE one AddMPTNodes call: between the Put of a
// restored leaf and the Put of its storage item, or between a node restored under one path and its restoration under
// another. The probe lets a flusher goroutine spin while trie nodes are delivered, then crashes at every batch.
func TestTornProbe(t *testing.T) {
	if os.Getenv("VERIF_TORN") == "" {
		t.Skip("probe")
	}
	w := &world{t: t, id: 0, net: chainkit.NewNet(5, 3), ssi: 4, mtb: 8}
	if err := w.build(21, 104729, 0); err != nil {
		t.Fatal(err)
	}
	defer w.src.Close()
	ref := w.life(nil, false, w.N, nil, rand.New(rand.NewSource(1)), 0, false)
	torn, bad := 0, 0
	for round := 0; round < 6; round++ {
		s := &sink{w: w, r: rand.New(rand.NewSource(int64(round))), mem: storage.NewMemoryStore()}
		s.rec = NewRecStore(s.mem)
		if a, b, c := s.boot(w.N); a+b+c != "" {
			t.Fatal(a, b, c)
		}
		s.advance("mpt")
		var stop atomic.Bool
		var wg sync.WaitGroup
		wg.Add(1)
		go func() {
			defer wg.Done()
			for !stop.Load() {
				_ = s.bc.VerifPersist()
				runtime.Gosched()
			}
		}()
		for s.phase() == "mpt" && s.ok() {
			s.nodes(1+s.r.Intn(30), "rnd", nil)
		}
		stop.Store(true)
		wg.Wait()
		if !s.ok() {
			t.Fatalf("delivery failed: %v %v", s.refuse, s.pan)
		}
		bs := s.rec.Batches()
		s.close()
		img := Disk{}
		for i, b := range bs {
			img.Apply(b)
			f := w.project(img)
			if f.TempMiss <= 0 && f.RcBad == 0 {
				continue
			}
			torn++
			o := w.life(img.Clone(), false, w.N, nil, rand.New(rand.NewSource(int64(i))), 0, false)
			eq := o.v.final1 != nil && len(DiffDisks(o.v.final1, ref.v.final1, 1)) == 0
			if !o.completed || !o.v.rootOK || !o.v.storeOK || !eq {
				bad++
				if bad <= 5 {
					fmt.Printf("round %d batch %d/%d: durable image with temp_miss=%d rc_bad=%d (stored %d) -> after restart: completed=%v root_ok=%v storage_ok=%v raw_equal=%v lockstep=%v stuck=%q panic=%q\n",
						round, i, len(bs), f.TempMiss, f.RcBad, f.Stored, o.completed, o.v.rootOK, o.v.storeOK, eq, o.v.lock, o.stuck, o.pan)
				}
			}
		}
		fmt.Printf("round %d: %d batches\n", round, len(bs))
	}
	fmt.Printf("torn images: %d, of which end wrong: %d\n", torn, bad)
}
