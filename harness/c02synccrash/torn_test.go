//go:build verif

package c02synccrash

import (
	"fmt"
	"math/rand"
	"os"
	"runtime"
	"sync"
	"sync/atomic"
	"testing"

	"verifharness/internal/chainkit"

	"github.com/nspcc-dev/neo-go/pkg/core/storage"
)

// tornRounds (INFORMATIONAL: timing dependent by nature). In production the persist timer runs concurrently with the
// deliveries, so a flush can fall INSIDE one AddMPTNodes call: between the Put of a restored leaf and the Put of its
// storage item, or between a node restored under one path and its restoration under another. A flusher goroutine spins
// while trie nodes are delivered to a recorded node; every batch prefix whose image shows a restored leaf without its item
// or a reference count that is not the number of restored paths ("torn image") is restarted and continued to the end.
// Returns the number of torn images, how many of them ended differently from an uninterrupted synchronisation, and
// descriptions of the first few. (Tree before b3bbb7d / 131ee52: dozens of torn images, all ending wrong.)
func tornRounds(w *world, rounds int, ref *runOut) (torn, bad int, descr []string, err error) {
	for round := 0; round < rounds; round++ {
		s := &sink{w: w, r: rand.New(rand.NewSource(int64(round))), mem: storage.NewMemoryStore()}
		s.rec = NewRecStore(s.mem)
		if a, b, c := s.boot(w.N); a+b+c != "" {
			return torn, bad, descr, fmt.Errorf("boot: %s %s %s", a, b, c)
		}
		s.advance("mpt")
		var stop atomic.Bool
		var wg sync.WaitGroup
		wg.Add(1)
		go func() {
			defer wg.Done()
			for !stop.Load() {
				_ = s.bc.VerifPersist()
				runtime.Gosched()
			}
		}()
		for s.phase() == "mpt" && s.ok() {
			s.nodes(1+s.r.Intn(30), "rnd", nil)
		}
		stop.Store(true)
		wg.Wait()
		ok := s.ok()
		bs := s.rec.Batches()
		s.close()
		if !ok {
			return torn, bad, descr, fmt.Errorf("delivery under a concurrent flusher failed: %v %v", s.refuse, s.pan)
		}
		img := Disk{}
		for i, b := range bs {
			img.Apply(b)
			f := w.project(img)
			if f.TempMiss <= 0 && f.RcBad == 0 {
				continue
			}
			torn++
			o := w.life(img.Clone(), false, w.N, nil, rand.New(rand.NewSource(int64(i))), 0, false)
			eq := o.v.final1 != nil && ref.v.final1 != nil && len(DiffDisks(o.v.final1, ref.v.final1, 1)) == 0
			if !o.completed || !o.v.rootOK || !o.v.storeOK || !eq {
				bad++
				if len(descr) < 4 {
					descr = append(descr, fmt.Sprintf("round %d batch %d/%d: durable image with %d restored leaves without their item, %d nodes with a wrong reference count (%d stored) -> after restart: completed=%v root_ok=%v storage_ok=%v raw_equal=%v stuck=%q panic=%q",
						round, i, len(bs), f.TempMiss, f.RcBad, f.Stored, o.completed, o.v.rootOK, o.v.storeOK, eq, o.stuck, o.pan))
				}
			}
		}
	}
	return torn, bad, descr, nil
}

// TestTornProbe: the torn-delivery probe on its own (VERIF_TORN=1), six rounds, printed.
func TestTornProbe(t *testing.T) {
	if os.Getenv("VERIF_TORN") == "" {
		t.Skip("probe")
	}
	w := &world{t: t, id: 0, net: chainkit.NewNet(5, 3), ssi: 4, mtb: 8}
	if err := w.build(21, 104729, 0); err != nil {
		t.Fatal(err)
	}
	defer w.src.Close()
	ref := w.life(nil, false, w.N, nil, rand.New(rand.NewSource(1)), 0, false)
	torn, bad, descr, err := tornRounds(w, 6, ref)
	if err != nil {
		t.Fatal(err)
	}
	for _, d := range descr {
		fmt.Println(d)
	}
	fmt.Printf("torn images: %d, of which end wrong: %d\n", torn, bad)
}
