// Package c02synccrash: crashes at every atomic-batch boundary DURING the collection phases of state
// synchronisation (headers, trie nodes, window blocks, the stage changes) and inside the jump that follows.
//
// recstore.go - a storage.Store wrapper that records every atomic batch (PutChangeSet / SeekGC commit) that
// reaches the backend, in the order the backend applied it (the idea of harness/c02crash, reduced to what a
// single-goroutine driver needs), and the materialised database images ("Disk") crash points are made of.
package c02synccrash

import (
	"bytes"
	"sort"
	"sync"

	"github.com/nspcc-dev/neo-go/pkg/core/storage"
)

// Batch is one atomic write of the node to its database.
type Batch struct {
	Idx   int
	Kind  string            // "put" (PutChangeSet) | "gc" (SeekGC)
	KV    map[string][]byte // key -> value, nil value = deletion
	Label string            // the driver's label of the operation in progress
	Op    int               // index of the delivery step in progress
	Stage string            // stage the module reported when the operation began
}

// RecStore wraps a backend and records the batches that reach it.
type RecStore struct {
	inner storage.Store
	mu    sync.Mutex
	bs    []*Batch

	Label string
	Op    int
	Stage string

	// OnGet (optional) is called for every Get that reaches the backend, BEFORE the backend is read (the
	// mid-delivery flush probe places a flush here).
	OnGet func(k []byte)
}

func NewRecStore(inner storage.Store) *RecStore { return &RecStore{inner: inner} }

// Get and Seek hand out COPIES, as the disk backends do.
func (r *RecStore) Get(k []byte) ([]byte, error) {
	if r.OnGet != nil {
		r.OnGet(k)
	}
	v, err := r.inner.Get(k)
	if err != nil {
		return nil, err
	}
	return bytes.Clone(v), nil
}

func (r *RecStore) Seek(rng storage.SeekRange, f func(k, v []byte) bool) {
	r.inner.Seek(rng, func(k, v []byte) bool { return f(bytes.Clone(k), bytes.Clone(v)) })
}

// Close keeps the backend: the driver owns it.
func (r *RecStore) Close() error { return nil }

func (r *RecStore) PutChangeSet(puts map[string][]byte, stor map[string][]byte) error {
	b := &Batch{Kind: "put", KV: make(map[string][]byte, len(puts)+len(stor))}
	for _, m := range []map[string][]byte{puts, stor} {
		for k, v := range m {
			if v == nil {
				b.KV[k] = nil
			} else {
				b.KV[k] = bytes.Clone(v)
			}
		}
	}
	r.mu.Lock()
	defer r.mu.Unlock()
	err := r.inner.PutChangeSet(puts, stor)
	r.record(b)
	return err
}

func (r *RecStore) SeekGC(rng storage.SeekRange, keepCont func(k, v []byte) (bool, bool)) error {
	b := &Batch{Kind: "gc", KV: map[string][]byte{}}
	r.mu.Lock()
	defer r.mu.Unlock()
	err := r.inner.SeekGC(rng, func(k, v []byte) (bool, bool) {
		keep, cont := keepCont(k, v)
		if !keep {
			b.KV[string(bytes.Clone(k))] = nil
		}
		return keep, cont
	})
	r.record(b)
	return err
}

func (r *RecStore) record(b *Batch) {
	if len(b.KV) == 0 {
		return // nothing reached the disk
	}
	b.Idx, b.Label, b.Op, b.Stage = len(r.bs), r.Label, r.Op, r.Stage
	r.bs = append(r.bs, b)
}

func (r *RecStore) Batches() []*Batch {
	r.mu.Lock()
	defer r.mu.Unlock()
	return append([]*Batch(nil), r.bs...)
}

func (r *RecStore) Count() int {
	r.mu.Lock()
	defer r.mu.Unlock()
	return len(r.bs)
}

// Disk is a materialised database: exactly the key/value pairs a sequence of batches leaves behind.
type Disk map[string][]byte

func (d Disk) Apply(b *Batch) {
	for k, v := range b.KV {
		if v == nil {
			delete(d, k)
		} else {
			d[k] = v
		}
	}
}

func (d Disk) Clone() Disk {
	c := make(Disk, len(d))
	for k, v := range d {
		c[k] = v
	}
	return c
}

// Store builds a fresh MemoryStore holding exactly d.
func (d Disk) Store() *storage.MemoryStore {
	mem, stor := map[string][]byte{}, map[string][]byte{}
	for k, v := range d {
		if k[0] == byte(storage.STStorage) || k[0] == byte(storage.STTempStorage) {
			stor[k] = bytes.Clone(v)
		} else {
			mem[k] = bytes.Clone(v)
		}
	}
	st := storage.NewMemoryStore()
	_ = st.PutChangeSet(mem, stor)
	return st
}

// DumpStore reads a whole backend (every one-byte prefix; MemoryStore does not support the empty prefix).
func DumpStore(st storage.Store) Disk {
	d := Disk{}
	for p := 0; p < 256; p++ {
		st.Seek(storage.SeekRange{Prefix: []byte{byte(p)}}, func(k, v []byte) bool {
			d[string(bytes.Clone(k))] = bytes.Clone(v)
			return true
		})
	}
	return d
}

// canon returns the value in a canonical form. The only record whose BYTES are not a function of its content is
// the token transfer info (prefix 0x74): state.TokenTransferInfo serialises a Go map in iteration order.
func canon(k string, v []byte) []byte {
	if len(k) == 0 || k[0] != byte(storage.STTokenTransferInfo) || len(v) < 27 {
		return v
	}
	const hdr = 4 + 4 + 8 + 8 + 1 + 1
	n := int(v[hdr])
	if v[hdr] >= 0xfd || len(v) != hdr+1+8*n {
		return v
	}
	pairs := make([]string, n)
	for i := 0; i < n; i++ {
		pairs[i] = string(v[hdr+1+8*i : hdr+1+8*i+8])
	}
	sort.Strings(pairs)
	out := append([]byte{}, v[:hdr+1]...)
	for _, p := range pairs {
		out = append(out, p...)
	}
	return out
}

// DiffDisks lists up to n keys on which two disks differ (values compared in canonical form).
func DiffDisks(a, b Disk, n int) []string {
	var ks []string
	for k, v := range a {
		if w, ok := b[k]; !ok || !bytes.Equal(canon(k, v), canon(k, w)) {
			ks = append(ks, k)
		}
	}
	for k := range b {
		if _, ok := a[k]; !ok {
			ks = append(ks, k)
		}
	}
	sort.Strings(ks)
	if len(ks) > n {
		ks = ks[:n]
	}
	return ks
}
