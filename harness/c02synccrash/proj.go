//go:build verif

// proj.go - projection of a sink's database image onto the persisted facts spec/synccrash/SyncCrash.tla talks
// about: what start-up (core.NewBlockchain) and statesync.Module.Init read.
package c02synccrash

import (
	"bytes"
	"encoding/binary"

	"github.com/nspcc-dev/neo-go/pkg/core/block"
	"github.com/nspcc-dev/neo-go/pkg/core/mpt"
	"github.com/nspcc-dev/neo-go/pkg/core/storage"
	"github.com/nspcc-dev/neo-go/pkg/io"
	"github.com/nspcc-dev/neo-go/pkg/util"
)

// Facts is the abstract disk (record "disk" of SyncCrash.tla, with sets replaced by their sizes).
type Facts struct {
	Hdr   int    `json:"hdr"`   // SYSCurrentHeader index, -1 absent
	Pages int    `json:"pages"` // stored header-hash pages
	SP    int    `json:"sp"`    // SYSStateSyncPoint, -1 absent
	Cur   int    `json:"cur"`   // SYSCurrentBlock index, -1 absent
	Jst   string `json:"jst"`   // jump stage marker: none | j1 | j2 | j3 | bad
	Pfx   string `json:"pfx"`   // active storage prefix: A (0x70) | B (0x71)
	// trie of the sync point
	Stored   int  `json:"stored"`   // distinct stored nodes that belong to the source trie
	Reach    int  `json:"reach"`    // ... reachable from the root through stored nodes
	Frontier int  `json:"frontier"` // distinct missing nodes directly below the reachable part (the root if it is missing)
	Complete int  `json:"complete"` // distinct reachable nodes whose whole subtree is stored
	TrieDone bool `json:"trie_done"`
	Trap     bool `json:"trap"` // the traversal of defineSyncStage, with the pool bookkeeping of the tree before 847be2f, loses track of a node (see SyncCrash.tla, Trav)
	RcBad    int  `json:"rc_bad"`  // reachable nodes whose stored reference count differs from their reachable occurrences
	Orphans  int  `json:"orphans"` // stored source nodes not reachable from the root
	GenOnly  int  `json:"gen_only"`
	Foreign  int  `json:"foreign"` // stored trie nodes of neither the source state nor genesis, or with other bytes than the source's
	// contract storage
	Temp     int    `json:"temp"`      // items under the inactive (temporary) prefix
	TempBad  int    `json:"temp_bad"`  // ... that are not items of the source state at the sync point
	TempMiss int    `json:"temp_miss"` // restored leaves (reachable occurrences) whose item is missing; -1 not evaluated (after the switch)
	Active   string `json:"active"`    // what the active prefix holds: gen | P | empty | other
	// window blocks
	BlkUpTo int  `json:"blk_upto"` // highest h such that every window block <= h is stored with its transactions (winLo-1 if none)
	BlkAny  int  `json:"blk_any"`  // number of window heights with a full block record
	BPtr    int  `json:"bptr"`     // SYSStateSyncCurrentBlockHeight, -1 absent
	Root    bool `json:"root"`     // local state root record of the sync point
	Keys    int  `json:"keys"`
}

func jstName(v []byte) string {
	if len(v) != 1 {
		return "bad"
	}
	switch v[0] {
	case 0x02:
		return "j1"
	case 0x04:
		return "j2"
	case 0x08:
		return "j3"
	}
	return "bad"
}

func mptKey(h util.Uint256) string {
	return string(append([]byte{byte(storage.DataMPT)}, h.BytesBE()...))
}

func decodeNode(bs []byte) mpt.Node {
	var n mpt.NodeObject
	r := io.NewBinReaderFromBuf(bs)
	n.DecodeBinary(r)
	if r.Err != nil {
		return nil
	}
	return n.Node
}

func sameItems(a, b map[string][]byte) bool {
	if len(a) != len(b) {
		return false
	}
	for k, v := range a {
		if w, ok := b[k]; !ok || !bytes.Equal(v, w) {
			return false
		}
	}
	return true
}

// project computes the facts of image d.
func (w *world) project(d Disk) Facts {
	f := Facts{Hdr: -1, SP: -1, Cur: -1, Jst: "none", Pfx: "A", BPtr: -1, Keys: len(d)}
	if v, ok := d["\xc0"]; ok && len(v) >= 36 {
		f.Cur = le32(v[32:36])
	}
	if v, ok := d["\xc1"]; ok && len(v) >= 36 {
		f.Hdr = le32(v[32:36])
	}
	if v, ok := d["\xc3"]; ok {
		f.SP = le32(v)
	}
	if v, ok := d["\xc2"]; ok {
		f.BPtr = le32(v)
	}
	if v, ok := d["\xc4"]; ok {
		f.Jst = jstName(v)
	}
	if v, ok := d["\xf0"]; ok {
		i := 0
		for i < len(v) && v[i] != 0 {
			i++
		}
		if i+1 < len(v) && v[i+1] == byte(storage.STTempStorage) {
			f.Pfx = "B"
		}
	}
	act, tmp := byte(storage.STStorage), byte(storage.STTempStorage)
	if f.Pfx == "B" {
		act, tmp = tmp, act
	}
	actItems, tmpItems := map[string][]byte{}, map[string][]byte{}
	stored := map[util.Uint256][]byte{} // stored trie nodes (value with the reference-count suffix)
	for k, v := range d {
		switch k[0] {
		case act:
			actItems[k[1:]] = v
		case tmp:
			tmpItems[k[1:]] = v
		case byte(storage.DataMPT):
			if h, err := util.Uint256DecodeBytesBE([]byte(k[1:])); err == nil {
				stored[h] = v
			}
		case byte(storage.IXHeaderHashList):
			f.Pages++
		}
	}
	// contract storage
	switch {
	case len(actItems) == 0:
		f.Active = "empty"
	case sameItems(actItems, w.rawG):
		f.Active = "gen"
	case sameItems(actItems, w.rawP):
		f.Active = "P"
	default:
		f.Active = "other"
	}
	f.Temp = len(tmpItems)
	for k, v := range tmpItems {
		// before the switch the temporary prefix collects the state of the sync point; after it, it holds the old (genesis) items
		ref := w.rawP
		if f.Pfx == "B" {
			ref = w.rawG
		}
		if x, ok := ref[k]; !ok || !bytes.Equal(x, v) {
			f.TempBad++
		}
	}
	// trie nodes
	for h, v := range stored {
		src, ok := w.nodes[h]
		switch {
		case ok && len(v) >= 5 && bytes.Equal(v[:len(v)-5], src):
			f.Stored++
		case ok:
			f.Foreign++
		case w.genNodes[h]:
			f.GenOnly++
		default:
			f.Foreign++
		}
	}
	// walk the restored part from the root of the sync point
	occ := map[util.Uint256]int{}      // reachable occurrences of stored nodes
	missing := map[util.Uint256]bool{} // frontier
	complete := map[util.Uint256]bool{}
	tempMiss := 0
	var walk func(h util.Uint256, path []byte) bool
	walk = func(h util.Uint256, path []byte) bool {
		v, ok := stored[h]
		if !ok || len(v) < 5 {
			missing[h] = true
			return false
		}
		occ[h]++
		n := decodeNode(v[:len(v)-5])
		if n == nil {
			return false
		}
		if leaf, isLeaf := n.(*mpt.LeafNode); isLeaf {
			_ = leaf
			if f.Pfx == "A" {
				if _, ok := tmpItems[string(nibblesToBytes(path))]; !ok {
					tempMiss++
				}
			}
			complete[h] = true
			return true
		}
		all := true
		for ch, paths := range mpt.GetChildrenPaths(path, n) {
			for _, p := range paths {
				if !walk(ch, p) {
					all = false
				}
			}
		}
		if all {
			complete[h] = true
		}
		return all
	}
	walk(w.root, []byte{})
	f.Reach, f.Frontier, f.Complete = len(occ), len(missing), len(complete)
	f.Trap = w.travTrap(stored)
	f.TrieDone = len(missing) == 0
	f.TempMiss = tempMiss
	if f.Pfx == "B" {
		f.TempMiss = -1
	}
	for h, c := range occ {
		v := stored[h]
		if int(binary.LittleEndian.Uint32(v[len(v)-4:])) != c {
			f.RcBad++
		}
	}
	for h, v := range stored {
		if _, ok := w.nodes[h]; ok && occ[h] == 0 && len(v) >= 5 && bytes.Equal(v[:len(v)-5], w.nodes[h]) {
			f.Orphans++
		}
	}
	// window blocks
	f.BlkUpTo = int(w.winLo) - 1
	gap := false
	key := make([]byte, 33)
	key[0] = byte(storage.DataExecutable)
	for h := w.winLo; h <= w.P; h++ {
		copy(key[1:], w.hashes[h].BytesBE())
		ok := false
		if v, has := d[string(key)]; has && len(v) > 0 && v[0] == storage.ExecBlock {
			r := io.NewBinReaderFromBuf(v[1:])
			if b, err := block.NewTrimmedFromReader(true, r); err == nil && len(b.Transactions) == w.ntx[h] && (w.ntx[h] > 0 || f.BPtr >= int(h)) {
				ok = true
				for _, tx := range b.Transactions {
					tk := append([]byte{byte(storage.DataExecutable)}, tx.Hash().BytesBE()...)
					if _, has := d[string(tk)]; !has {
						ok = false
					}
				}
			}
		}
		if ok {
			f.BlkAny++
			if !gap {
				f.BlkUpTo = int(h)
			}
		} else {
			gap = true
		}
	}
	rk := make([]byte, 5)
	rk[0] = byte(storage.DataMPTAux)
	binary.BigEndian.PutUint32(rk[1:], w.P)
	_, f.Root = d[string(rk)]
	return f
}

// nibblesToBytes packs a nibble path (even length) into bytes.
func nibblesToBytes(path []byte) []byte {
	out := make([]byte, len(path)/2)
	for i := range out {
		out[i] = path[2*i]<<4 | path[2*i+1]
	}
	return out
}

// class names the kind of crash point "after this batch": what the batch made durable.
func class(before, after Facts, P int) string {
	switch {
	case after.Jst != "none":
		return "jump-" + after.Jst
	case before.Jst != "none":
		return "jump-final"
	case after.Cur >= P && P > 0 && after.Cur > before.Cur:
		return "jump-final"
	case after.Cur > 0:
		return "after-sync"
	case after.BPtr >= P:
		return "blocks-complete"
	case after.BlkAny > 0:
		return "blocks-partial"
	case after.Hdr > P && after.TrieDone:
		return "mpt-complete"
	case after.Hdr > P && after.Reach > 0:
		return "mpt-partial"
	case after.Hdr > P:
		return "headers-complete"
	case after.Hdr > 0:
		return "headers-partial"
	case after.SP >= 0:
		return "init"
	case after.Hdr == 0:
		return "genesis"
	}
	return "empty"
}

// stageOfClass: the stage the node is in right after a batch of the class (what a crash there interrupts).
func stageOfClass(c string) string {
	switch c {
	case "empty", "genesis", "init", "headers-partial":
		return "headers"
	case "headers-complete", "mpt-partial":
		return "mpt"
	case "mpt-complete", "blocks-partial":
		return "blocks"
	case "after-sync":
		return "done"
	}
	return "jump"
}

// travTrap replays defineSyncStage's traversal on the stored part of the trie with the pool bookkeeping keyed by hash
// (the first visit of a node takes every path the pool has for it): true if a later occurrence of a node finds the
// pool without it. The order is Billet.traverse's: a branch's last child first, then children 0..15.
func (w *world) travTrap(stored map[util.Uint256][]byte) bool {
	pool := map[util.Uint256]bool{w.root: true}
	trap := false
	var visit func(h util.Uint256, path []byte)
	visit = func(h util.Uint256, path []byte) {
		v, ok := stored[h]
		if !ok || len(v) < 5 {
			return
		}
		n := decodeNode(v[:len(v)-5])
		if n == nil {
			return
		}
		if !pool[h] {
			trap = true
		} else {
			delete(pool, h)
			for ch := range mpt.GetChildrenPaths(path, n) {
				pool[ch] = true
			}
		}
		switch b := n.(type) {
		case *mpt.BranchNode:
			for k := 0; k < len(b.Children); k++ {
				i := (k + len(b.Children) - 1) % len(b.Children) // last child first
				if b.Children[i].Type() != mpt.HashT {
					continue
				}
				cp := append([]byte{}, path...)
				if i != len(b.Children)-1 {
					cp = append(cp, byte(i))
				}
				visit(b.Children[i].Hash(), cp)
			}
		case *mpt.ExtensionNode:
			for ch, cps := range mpt.GetChildrenPaths(path, n) {
				visit(ch, cps[0])
			}
		}
	}
	visit(w.root, []byte{})
	return trap
}
