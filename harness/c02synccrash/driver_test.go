//go:build verif

// Driver of the extension c02_synccrash: a real bootstrapping node (core.Blockchain + statesync.Module, MPT-based
// mode) runs on a recording store and is fed a real source chain's headers, trie nodes and window blocks following
// delivery schedules (TLC simulation of spec/synccrash/SyncCrashSim.tla, and seeded random ones) in which a flush
// (VerifPersist) may fall between any two deliveries. Afterwards EVERY prefix of the recorded batch sequence is a
// crash point: the database image is materialised, reopened with core.NewBlockchain, statesync.Module.Init is
// called with the source height, the stage the node reports is recorded, and the delivery is continued to the end
// (any order, duplicates first); a sample of the continuations is itself recorded and crashed again.
// Judged by TLC (spec/synccrash/SyncCrashTrace.tla) on the NDJSON trace written here:
// NoCorruption, Resumable, Lockstep, CrashTransparent.
package c02synccrash

import (
	"bytes"
	"fmt"
	"math/rand"
	"sort"
	"strings"
	"testing"

	"verifharness/internal/chainkit"
	"verifharness/internal/vh"

	"github.com/nspcc-dev/neo-go/pkg/core"
	"github.com/nspcc-dev/neo-go/pkg/core/block"
	"github.com/nspcc-dev/neo-go/pkg/core/statesync"
	"github.com/nspcc-dev/neo-go/pkg/core/storage"
	"github.com/nspcc-dev/neo-go/pkg/util"
)

type step struct {
	Op    string `json:"op"`    // headers | nodes | dup | blocks | flush
	N     int    `json:"n"`     // headers / blocks: N parts out of Of; nodes: batch size (times the Big multiplier)
	Of    int    `json:"of"`
	Big   int    `json:"big"`
	Order string `json:"order"` // asc | desc | rnd: which of the wanted nodes come first
}

// sink is one life of the bootstrapping node (from an open to a crash / the end).
type sink struct {
	w      *world
	mem    *storage.MemoryStore
	rec    *RecStore
	bc     *core.Blockchain
	mod    *statesync.Module
	r      *rand.Rand
	last   [][]byte
	refuse []string // correct, wanted data that was refused
	pan    string
	ndeliv int
}

func guarded(f func() error) (err error, pan any) {
	defer func() { pan = recover() }()
	return f(), nil
}

// boot opens the node on the backend (through the recording store if there is one) and initialises the module.
func (s *sink) boot(remote uint32) (openErr, initErr, pan string) {
	var st storage.Store = s.mem
	if s.rec != nil {
		s.rec.Label, s.rec.Stage = "boot", "down"
		st = s.rec
	}
	err, p := guarded(func() error {
		var e error
		s.bc, e = s.w.newSink(st)
		return e
	})
	if p != nil {
		s.bc = nil
		return "", "", fmt.Sprint(p)
	}
	if err != nil {
		s.bc = nil
		return err.Error(), "", ""
	}
	chainkit.Start(s.bc)
	s.mod = s.bc.GetStateSyncModule()
	err, p = guarded(func() error { return s.mod.Init(remote) })
	if p != nil {
		return "", "", fmt.Sprint(p)
	}
	if err != nil {
		return "", err.Error(), ""
	}
	return "", "", ""
}

func (s *sink) close() {
	if s.bc != nil {
		_, _ = guarded(func() error { s.bc.Close(); return nil })
		s.bc = nil
	}
}

func (s *sink) phase() string {
	switch {
	case !s.mod.IsActive():
		return "done"
	case s.mod.NeedHeaders():
		return "headers"
	case s.mod.NeedStorageData():
		return "mpt"
	case s.mod.NeedBlocks():
		return "blocks"
	}
	return "other"
}

func (s *sink) label(l string, op int) {
	if s.rec != nil {
		s.rec.Label, s.rec.Op, s.rec.Stage = l, op, s.phase()
	}
}

func (s *sink) flush() {
	s.label("flush", s.ndeliv)
	if _, p := guarded(func() error { return s.bc.VerifPersist() }); p != nil {
		s.pan = fmt.Sprintf("VerifPersist: %v", p)
	}
}

func (s *sink) bad(call string, e error, p any) {
	if p != nil {
		s.pan = fmt.Sprintf("%s: %v", call, p)
	} else if e != nil {
		s.refuse = append(s.refuse, fmt.Sprintf("%s: %v", call, e))
	}
}

// headers delivers up to n headers from `from` on (from <= header height + 1: the overlap is what a peer resends).
func (s *sink) headers(from uint32, n int) {
	var hs []*block.Header
	for h := max(from, 1); h <= s.w.N && len(hs) < n; h++ {
		hs = append(hs, &s.w.block(h).Header)
	}
	if len(hs) == 0 {
		return
	}
	s.label("headers", s.ndeliv)
	e, p := guarded(func() error { return s.mod.AddHeaders(hs...) })
	s.ndeliv++
	s.bad("AddHeaders", e, p)
}

// nodes delivers up to n of the wanted trie nodes (in the given order of their hashes), preceded by `extra`
// (already delivered ones a peer sends again).
func (s *sink) nodes(n int, order string, extra [][]byte) {
	need := s.mod.GetUnknownMPTNodesBatch(1 << 20)
	sort.Slice(need, func(i, j int) bool { return bytes.Compare(need[i][:], need[j][:]) < 0 })
	switch order {
	case "desc":
		for i, j := 0, len(need)-1; i < j; i, j = i+1, j-1 {
			need[i], need[j] = need[j], need[i]
		}
	case "rnd":
		s.r.Shuffle(len(need), func(i, j int) { need[i], need[j] = need[j], need[i] })
	}
	batch := append([][]byte{}, extra...)
	var fresh [][]byte
	for i := 0; i < len(need) && i < max(n, 1); i++ {
		nb, ok := s.w.nodes[need[i]]
		if !ok {
			s.refuse = append(s.refuse, "the node asks for a trie node the source state does not contain: "+need[i].StringLE())
			return
		}
		batch = append(batch, nb)
		fresh = append(fresh, nb)
	}
	if len(fresh) > 0 {
		s.last = fresh
	}
	if len(batch) == 0 {
		return
	}
	s.label("nodes", s.ndeliv)
	e, p := guarded(func() error { return s.mod.AddMPTNodes(batch) })
	s.ndeliv++
	s.bad("AddMPTNodes", e, p)
}

func (s *sink) blocks(n int) {
	for i := 0; i < max(n, 1) && s.pan == "" && s.mod.IsActive() && s.mod.NeedBlocks(); i++ {
		h := s.mod.BlockHeight() + 1
		if h > s.w.P || h == 0 {
			s.refuse = append(s.refuse, fmt.Sprintf("the node wants block %d outside (.., P=%d]", h, s.w.P))
			return
		}
		if s.r.Intn(5) == 0 && h > s.w.winLo { // the previous block arrives once more
			s.label("blocks", s.ndeliv)
			e, p := guarded(func() error { return s.mod.AddBlock(s.w.block(h - 1)) })
			if p != nil {
				s.bad("AddBlock(dup)", e, p)
				return
			}
		}
		s.label("blocks", s.ndeliv)
		e, p := guarded(func() error { return s.mod.AddBlock(s.w.block(h)) })
		s.ndeliv++
		s.bad("AddBlock", e, p)
		if e != nil || p != nil {
			return
		}
	}
}

var rank = map[string]int{"headers": 1, "mpt": 2, "blocks": 3, "done": 4, "other": 0}

func (s *sink) ok() bool { return s.pan == "" && len(s.refuse) == 0 }

// advance delivers (in request order, nothing flushed) until the node is in phase `to` or beyond.
func (s *sink) advance(to string) {
	for g := 0; g < 5000 && s.ok() && rank[s.phase()] < rank[to] && rank[s.phase()] > 0; g++ {
		switch s.phase() {
		case "headers":
			s.headers(s.bc.HeaderHeight()+1, 1<<20)
		case "mpt":
			before := s.ndeliv
			s.nodes(64, "asc", nil)
			if s.ndeliv == before {
				return // nothing wanted: stuck (reported by the caller)
			}
		case "blocks":
			s.blocks(1 << 20)
		}
	}
}

// apply executes one schedule step; a step of a later phase first completes the earlier ones.
func (s *sink) apply(st step) {
	if !s.ok() {
		return
	}
	switch st.Op {
	case "flush":
		s.flush()
	case "headers":
		if s.phase() == "headers" {
			hh := s.bc.HeaderHeight()
			s.headers(hh+1, max(1, (int(s.w.N)*st.N+st.Of-1)/max(st.Of, 1)))
		}
	case "headers_to": // long worlds: up to an absolute height (around the header-hash page boundary)
		if hh := s.bc.HeaderHeight(); s.phase() == "headers" && uint32(st.N) > hh {
			s.headers(hh+1, st.N-int(hh))
		}
	case "nodes", "dup":
		s.advance("mpt")
		if s.phase() != "mpt" || !s.ok() {
			return
		}
		if st.Op == "dup" {
			if len(s.last) > 0 {
				s.label("nodes", s.ndeliv)
				e, p := guarded(func() error { return s.mod.AddMPTNodes(s.last) })
				s.bad("AddMPTNodes(dup)", e, p)
			}
			return
		}
		s.nodes(st.N*[]int{1, 7, (len(s.w.nodes) + 5) / 6}[st.Big%3], st.Order, nil)
	case "blocks":
		s.advance("blocks")
		if s.phase() == "blocks" && s.ok() {
			win := int(s.w.P-s.w.winLo) + 1
			s.blocks(max(1, (win*st.N+st.Of-1)/max(st.Of, 1)))
		}
	}
}

// finish continues the delivery to the end: random order and batch sizes, a flush after a delivery with
// probability pflush.
func (s *sink) finish(pflush float64) (completed bool, stuck string) {
	for g := 0; g < 20000 && s.ok(); g++ {
		before := s.ndeliv
		switch s.phase() {
		case "done":
			return true, ""
		case "headers":
			s.headers(s.bc.HeaderHeight()+1, 1+s.r.Intn(int(s.w.N)))
		case "mpt":
			s.nodes(1+s.r.Intn(40), []string{"asc", "desc", "rnd"}[s.r.Intn(3)], nil)
		case "blocks":
			s.blocks(1 + s.r.Intn(4))
		default:
			return false, "the module is active but needs neither headers nor state nor blocks"
		}
		if s.ok() && s.ndeliv == before && s.phase() != "done" {
			return false, fmt.Sprintf("stage %s: the node asks for nothing although the stage is not complete", s.phase())
		}
		if s.ok() && s.phase() != "done" && s.r.Float64() < pflush {
			s.flush()
		}
	}
	return s.ok() && s.phase() == "done", ""
}

type verdict struct {
	height          uint32
	rootOK, storeOK bool
	lock            []map[string]any
	final1, final2  Disk
}

// judge collects the verdict material of a node that reports completion: root and storage at P, lockstep, raw dumps.
func (s *sink) judge() verdict {
	w := s.w
	v := verdict{height: s.bc.BlockHeight()}
	sr, err := s.bc.GetStateRoot(w.P)
	v.rootOK = err == nil && sr.Root.Equals(w.root)
	dump := chainkit.StorageDump(s.bc)
	v.storeOK = fmt.Sprint(dump) == fmt.Sprint(w.flatP)
	// how many headers beyond the sync point a synchronisation happened to collect is not part of its result: the
	// node learns the rest of the source's headers the ordinary way before the databases are compared
	if hh := s.bc.HeaderHeight(); hh < w.N {
		var hs []*block.Header
		for h := hh + 1; h <= w.N; h++ {
			hs = append(hs, &w.block(h).Header)
		}
		s.label("headers-after", s.ndeliv)
		_, _ = guarded(func() error { return s.bc.AddHeaders(hs...) })
	}
	s.label("final-flush", s.ndeliv)
	_, _ = guarded(func() error { return s.bc.VerifPersist() })
	v.final1 = DumpStore(s.mem)
	for h := w.P + 1; h <= w.N && v.height == w.P; h++ {
		s.label("lockstep", s.ndeliv)
		err, pan := guarded(func() error { return s.bc.AddBlock(w.block(h)) })
		ev := map[string]any{"h": h, "ok": err == nil && pan == nil, "err": fmt.Sprint(err, pan)}
		if err == nil && pan == nil {
			df := chainkit.Diff(chainkit.Compute(s.bc), w.digests[h])
			ev["same"], ev["diff"] = len(df) == 0, df
		} else {
			ev["same"] = false
		}
		v.lock = append(v.lock, ev)
		if ev["same"] != true {
			return v
		}
	}
	s.label("final-flush", s.ndeliv)
	_, _ = guarded(func() error { return s.bc.VerifPersist() })
	v.final2 = DumpStore(s.mem)
	return v
}

// run is one recorded life of the node up to completion (or failure).
type runOut struct {
	openErr, initErr string
	stage0           string
	height0          uint32
	claimOK          bool
	completed        bool
	stuck            string
	pan              string
	refuse           []string
	v                verdict
	batches          []*Batch
	ndeliv           int
}

// claim: the state the restarted node serves is the state of the height it reports.
func (s *sink) claim() (uint32, bool) {
	h := s.bc.BlockHeight()
	dump := chainkit.StorageDump(s.bc)
	switch h {
	case 0:
		return h, fmt.Sprint(dump) == fmt.Sprint(s.w.flatG)
	case s.w.P:
		sr, err := s.bc.GetStateRoot(h)
		return h, fmt.Sprint(dump) == fmt.Sprint(s.w.flatP) && err == nil && sr.Root.Equals(s.w.root)
	}
	return h, false
}

// life boots a node on image (nil: a fresh database), applies sched, continues to the end and judges.
func (w *world) life(image Disk, record bool, remote uint32, sched []step, r *rand.Rand, pflush float64, dupFirst bool) *runOut {
	s := &sink{w: w, r: r}
	if image == nil {
		s.mem = storage.NewMemoryStore()
	} else {
		s.mem = image.Store()
	}
	if record {
		s.rec = NewRecStore(s.mem)
	}
	out := &runOut{}
	defer func() {
		s.close()
		if s.rec != nil {
			out.batches = s.rec.Batches()
		}
	}()
	out.openErr, out.initErr, out.pan = s.boot(remote)
	if out.openErr != "" || out.initErr != "" || out.pan != "" {
		return out
	}
	out.stage0 = s.phase()
	out.height0, out.claimOK = s.claim()
	if dupFirst && s.phase() != "done" {
		// what a peer that did not notice the restart sends again: headers from below the durable height, trie nodes
		// the node already has, then the wanted ones
		switch s.phase() {
		case "headers":
			hh := s.bc.HeaderHeight()
			s.headers(hh-min(hh, 3)+1, 4+r.Intn(6))
		case "mpt":
			var have [][]byte
			for _, i := range r.Perm(len(w.sorted)) {
				if _, err := s.mem.Get([]byte(mptKey(w.sorted[i]))); err == nil && len(have) < 6 {
					have = append(have, w.nodes[w.sorted[i]])
				}
			}
			s.nodes(1+r.Intn(5), "rnd", have)
		}
	}
	for _, st := range sched {
		s.apply(st)
	}
	if s.ok() {
		out.completed, out.stuck = s.finish(pflush)
	}
	out.pan, out.refuse, out.ndeliv = s.pan, s.refuse, s.ndeliv
	if out.completed && s.pan == "" && s.bc.BlockHeight() != w.P {
		out.completed, out.stuck = false, fmt.Sprintf("the module reports the synchronisation as finished at height %d, the sync point is %d", s.bc.BlockHeight(), w.P)
	}
	if out.completed && s.pan == "" {
		_, p := guarded(func() error { out.v = s.judge(); return nil })
		if p != nil {
			out.pan = fmt.Sprintf("after completion: %v", p)
		}
	}
	return out
}

// ---------------------------------------------------------------------------------------------------------------

type driver struct {
	t   *testing.T
	res *vh.Result
	tr  *vh.Trace
	r   *rand.Rand
}

func short(s string) string {
	if len(s) > 300 {
		return s[:300] + "..."
	}
	return s
}

// emitOutcome writes the recover / resume / synced / lockstep / final events of one life after a crash (or of an
// uninterrupted one: point "no-crash").
func (d *driver) emitOutcome(w *world, o *runOut, ctx map[string]any, ref *runOut, crashed bool) {
	ev := func(name string, kv map[string]any) {
		m := map[string]any{"event": name}
		for k, v := range ctx {
			m[k] = v
		}
		for k, v := range kv {
			m[k] = v
		}
		d.tr.Emit(m)
	}
	if crashed {
		booted := o.openErr == "" && o.initErr == "" && (o.pan == "" || o.stage0 != "")
		ev("recover", map[string]any{"open_ok": o.openErr == "", "init_ok": o.initErr == "", "booted": booted,
			"err": short(o.openErr + o.initErr), "panic": short(map[bool]string{true: "", false: o.pan}[booted]),
			"pool_panic": !booted && strings.Contains(o.pan, "failed to get MPT node from the pool"),
			"reported": o.stage0, "height": o.height0, "claim_ok": o.claimOK || !booted})
		if !booted {
			return
		}
	}
	ev("resume", map[string]any{"completed": o.completed, "refused": len(o.refuse), "why": short(strings.Join(o.refuse, " | ")),
		"stuck": o.stuck, "panic": short(o.pan), "deliveries": o.ndeliv})
	if !o.completed || o.pan != "" {
		return
	}
	ev("synced", map[string]any{"height": o.v.height, "p": w.P, "root_ok": o.v.rootOK, "storage_ok": o.v.storeOK})
	for _, l := range o.v.lock {
		ev("lockstep", l)
	}
	if ref != nil && ref.v.final1 != nil && o.v.final1 != nil {
		d1 := DiffDisks(o.v.final1, ref.v.final1, 6)
		fe := map[string]any{"raw_equal": len(d1) == 0, "diff": hexKeys(d1), "after_lockstep": o.v.final2 != nil && ref.v.final2 != nil}
		if o.v.final2 != nil && ref.v.final2 != nil {
			d2 := DiffDisks(o.v.final2, ref.v.final2, 6)
			fe["raw_equal2"], fe["diff2"] = len(d2) == 0, hexKeys(d2)
		} else {
			fe["raw_equal2"] = true
		}
		ev("final", fe)
	}
}

func hexKeys(ks []string) []string {
	out := []string{}
	for _, k := range ks {
		out = append(out, fmt.Sprintf("%x", k))
	}
	return out
}

func touch(b *Batch) []string {
	seen := map[string]bool{}
	for k, v := range b.KV {
		c := fmt.Sprintf("%02x", k[0])
		if v == nil {
			c += "-"
		} else {
			c += "+"
		}
		seen[c] = true
	}
	out := []string{}
	for c := range seen {
		out = append(out, c)
	}
	sort.Strings(out)
	return out
}

// crashPoints chooses the prefixes of a batch sequence to crash at: all of them (thorough / short runs), else a
// stratified sample that keeps every stage boundary and the batches around it.
func crashPoints(classes []string, all bool, budget int, r *rand.Rand) []int {
	n := len(classes)
	if all || n <= budget {
		out := make([]int, n)
		for i := range out {
			out[i] = i + 1
		}
		return out
	}
	keep := map[int]bool{1: true, n: true}
	for i := 1; i < n; i++ {
		if classes[i] != classes[i-1] || strings.HasSuffix(classes[i], "-complete") || strings.HasPrefix(classes[i], "jump") {
			keep[i], keep[i+1] = true, true
			if i+2 <= n {
				keep[i+2] = true
			}
		}
	}
	for len(keep) < budget {
		keep[1+r.Intn(n)] = true
	}
	var out []int
	for k := range keep {
		out = append(out, k)
	}
	sort.Ints(out)
	return out
}

func (d *driver) runWorld(wi int, long bool, scheds [][]step) {
	t := d.t
	w := &world{t: t, id: wi, net: chainkit.NewNet(5, 3), ssi: 4 + uint32(wi%3), mtb: 8 + uint32(wi%2)*4, long: long}
	n := 3*w.ssi + 2 + uint32(d.r.Intn(int(2*w.ssi)))
	quietTo := uint32(0)
	if long {
		quietTo = 2003 + uint32(d.r.Intn(4))
		n = quietTo + 3*w.ssi + uint32(d.r.Intn(int(w.ssi)))
	}
	if n%w.ssi == 0 {
		n++ // the module takes the last multiple of the interval not above the remote height as sync point; headers must run beyond it
	}
	if err := w.build(n, vh.Seed()*104729+int64(wi), quietTo); err != nil {
		t.Fatalf("source: %v", err)
	}
	defer w.src.Close()
	d.tr.Emit(map[string]any{"event": "world", "world": wi, "n": w.N, "p": w.P, "ssi": w.ssi, "mtb": w.mtb, "win_lo": w.winLo,
		"nnodes": len(w.nodes), "nocc": w.nocc, "page": 2000, "long": long})
	d.res.Inc("trie_nodes", len(w.nodes))
	d.res.Inc("shared_nodes", w.nocc-len(w.nodes))
	d.res.Inc("twin_branches", w.twins)
	fail := func(kind, stage, point, what string, replay map[string]any) {
		d.res.Violate(map[string]any{"part": "synccrash", "kind": kind, "stage": stage, "point": point}, what, replay)
	}
	_ = fail
	// the uninterrupted synchronisation of this source: the reference of CrashTransparent
	ref := w.life(nil, false, w.N, nil, rand.New(rand.NewSource(int64(wi))), 0, false)
	ctx0 := map[string]any{"world": wi, "run": -1, "stage": "none", "point": "no-crash", "depth": 0}
	d.emitOutcome(w, ref, ctx0, nil, false)
	d.res.Count([]any{wi, "reference", ref.completed})
	if !ref.completed || ref.v.final1 == nil {
		return // reported by the judge (Resumable at point no-crash); nothing to compare crash points with
	}
	thorough := vh.Thorough()
	if long {
		scheds = [][]step{longSchedule(d.r, w.P), longSchedule(d.r, w.P)}
	}
	for si, sched := range scheds {
		prim := w.life(nil, true, w.N, sched, rand.New(rand.NewSource(vh.Seed()*7919+int64(wi*1000+si))), 0, false)
		ctx := map[string]any{"world": wi, "run": si, "stage": "none", "point": "no-crash", "depth": 0}
		d.tr.Emit(map[string]any{"event": "run", "world": wi, "run": si, "sched": sched, "batches": len(prim.batches)})
		// batches projected onto the abstract facts
		img := Disk{}
		var before Facts = w.project(img)
		var classes []string
		var facts []Facts
		images := []Disk{}
		for _, b := range prim.batches {
			img.Apply(b)
			f := w.project(img)
			c := class(before, f, int(w.P))
			if b.Label == "lockstep" || b.Label == "final-flush" && f.Cur > int(w.P) {
				c = "after-sync"
			}
			classes = append(classes, c)
			facts = append(facts, f)
			images = append(images, img.Clone())
			d.tr.Emit(map[string]any{"event": "batch", "world": wi, "run": si, "idx": b.Idx, "class": c, "point": c, "stage": stageOfClass(c), "label": b.Label, "during": b.Stage,
				"disk": f, "touch": touch(b), "kind": b.Kind, "p": w.P, "page": 2000})
			d.res.Count([]any{"batch", c, b.Label, touch(b)})
			before = f
		}
		d.emitOutcome(w, prim, ctx, ref, false)
		if !prim.completed {
			continue
		}
		// crash points: prefixes of the batch sequence up to the end of the jump
		last := len(classes)
		for last > 0 && classes[last-1] == "after-sync" {
			last--
		}
		pts := crashPoints(classes[:last], thorough || vh.EnvInt("VERIF_ALL_POINTS", 0) == 1, vh.EnvInt("VERIF_POINTS", 14), d.r)
		for _, k := range pts {
			c := classes[k-1]
			stage := stageOfClass(c)
			remote := w.N
			if facts[k-1].SP >= 0 && d.r.Intn(4) == 0 {
				remote = w.N + w.ssi // the source has grown meanwhile; the stored sync point is still valid
			}
			second := d.r.Intn(3) == 0
			cctx := map[string]any{"world": wi, "run": si, "stage": stage, "point": c, "depth": 1, "at": k}
			d.tr.Emit(map[string]any{"event": "crash", "world": wi, "run": si, "at": k, "stage": stage, "point": c, "depth": 1,
				"disk": facts[k-1], "remote": remote, "p": w.P})
			rr := rand.New(rand.NewSource(vh.Seed()*31337 + int64(wi*100000+si*1000+k)))
			o := w.life(images[k-1], second, remote, nil, rr, map[bool]float64{true: 0.5, false: 0}[second], true)
			d.emitOutcome(w, o, cctx, ref, true)
			d.res.Count([]any{"crash", c, o.stage0, facts[k-1].Frontier > 0, facts[k-1].BlkAny, remote != w.N, facts[k-1].Trap,
				facts[k-1].Stored * 8 / max(len(w.nodes), 1), facts[k-1].Complete * 8 / max(len(w.nodes), 1), long})
			d.res.Inc("crash_points", 1)
			d.res.Inc("crash_"+c, 1)
			if facts[k-1].Trap && facts[k-1].Jst == "none" && facts[k-1].Cur <= 0 {
				d.res.Inc("crash_points_on_trapped_trie", 1)
			}
			if !second || len(o.batches) == 0 {
				continue
			}
			// crash during the recovery: a prefix of what the resumed node wrote
			img2 := images[k-1].Clone()
			cut := 1 + d.r.Intn(len(o.batches))
			bf := facts[k-1]
			var f2 Facts
			c2 := c
			for _, b := range o.batches[:cut] {
				img2.Apply(b)
				f2 = w.project(img2)
				c2 = class(bf, f2, int(w.P))
				if b.Label == "lockstep" || b.Label == "final-flush" && f2.Cur > int(w.P) {
					c2 = "after-sync"
				}
				bf = f2
			}
			if c2 == "after-sync" {
				continue
			}
			st2 := stageOfClass(c2)
			d.tr.Emit(map[string]any{"event": "crash", "world": wi, "run": si, "at": k, "at2": cut, "stage": st2, "point": c2, "depth": 2,
				"disk": f2, "remote": w.N, "p": w.P})
			o2 := w.life(img2, false, w.N, nil, rr, 0, true)
			d.emitOutcome(w, o2, map[string]any{"world": wi, "run": si, "stage": st2, "point": c2, "depth": 2, "at": k, "at2": cut}, ref, true)
			d.res.Count([]any{"crash2", c, c2, o2.stage0})
			d.res.Inc("second_crash_points", 1)
		}
		d.res.Traces++
		if wi < 2 && si == 0 {
			d.res.Sample(map[string]any{"world": wi, "n": w.N, "p": w.P, "trie_nodes": len(w.nodes), "batches": classes, "crash_points": pts,
				"schedule_prefix": sched[:min(len(sched), 16)]})
		}
	}
}

// randomSchedule: a seeded schedule from a larger universe than the model's (batch sizes, flush density).
func randomSchedule(r *rand.Rand) []step {
	var out []step
	pf := []float64{0.15, 0.35, 0.7}[r.Intn(3)]
	fl := func() {
		if r.Float64() < pf {
			out = append(out, step{Op: "flush"})
		}
	}
	fl()
	for i, k := 0, 1+r.Intn(4); i < k; i++ {
		out = append(out, step{Op: "headers", N: 1 + r.Intn(2), Of: 2 + r.Intn(4)})
		fl()
	}
	for i, k := 0, 2+r.Intn(10); i < k; i++ {
		if r.Intn(6) == 0 {
			out = append(out, step{Op: "dup"})
		}
		out = append(out, step{Op: "nodes", N: 1 + r.Intn(6), Big: r.Intn(3), Order: []string{"asc", "desc", "rnd"}[r.Intn(3)]})
		fl()
	}
	for i, k := 0, 1+r.Intn(5); i < k; i++ {
		out = append(out, step{Op: "blocks", N: 1, Of: 2 + r.Intn(5)})
		fl()
	}
	return out
}

// longSchedule: header deliveries and flushes around the first header-hash page boundary (2000), then a random rest.
func longSchedule(r *rand.Rand, p uint32) []step {
	out := []step{{Op: "headers_to", N: 1990 + r.Intn(9)}, {Op: "flush"}, {Op: "headers_to", N: 1999 + r.Intn(3)}, {Op: "flush"},
		{Op: "headers_to", N: 2001 + r.Intn(int(p)-2001)}, {Op: "flush"}}
	for _, st := range randomSchedule(r) {
		if st.Op != "headers" {
			out = append(out, st)
		}
	}
	return out
}

func TestDriver(t *testing.T) {
	d := &driver{t: t, res: vh.NewResult(), tr: vh.NewTrace("trace.ndjson"), r: vh.Rand(202)}
	var scheds [][]step
	if err := vh.ReadJSON("schedules.json", &scheds); err != nil {
		t.Fatalf("no schedules: %v", err)
	}
	nw := vh.EnvInt("VERIF_WORLDS", 3)
	per := vh.EnvInt("VERIF_PER_WORLD", 4)
	nrand := vh.EnvInt("VERIF_RANDOM", 1)
	si := 0
	for wi := 0; wi < nw; wi++ {
		var ss [][]step
		for i := 0; i < per && si < len(scheds); i++ {
			ss = append(ss, scheds[si])
			si++
		}
		for i := 0; i < nrand; i++ {
			ss = append(ss, randomSchedule(d.r))
		}
		d.runWorld(wi, false, ss)
	}
	for i := 0; i < vh.EnvInt("VERIF_LONG_WORLDS", 0); i++ {
		d.runWorld(1000+i, true, nil)
	}
	// informational: flushes INSIDE a delivery (a spinning flusher; timing dependent, never a verdict)
	if rounds := vh.EnvInt("VERIF_TORN_ROUNDS", 0); rounds > 0 {
		w := &world{t: t, id: 9000, net: chainkit.NewNet(5, 3), ssi: 4, mtb: 8}
		if err := w.build(21, vh.Seed()*104729, 0); err != nil {
			t.Fatalf("source: %v", err)
		}
		ref := w.life(nil, false, w.N, nil, rand.New(rand.NewSource(1)), 0, false)
		torn, bad, descr, err := tornRounds(w, rounds, ref)
		w.src.Close()
		d.res.Inc("torn_images", torn)
		d.res.Inc("torn_images_end_wrong", bad)
		d.res.Inc("torn_rounds", rounds)
		if err != nil {
			d.res.AddDrift(map[string]any{"part": "synccrash", "drift": "torn-probe-failed", "what": err.Error()})
		}
		for _, x := range descr {
			d.res.AddDrift(map[string]any{"part": "synccrash", "drift": "torn-delivery", "what": x})
		}
	}
	d.tr.Close()
	if err := d.res.Write(); err != nil {
		t.Fatal(err)
	}
}

var _ = util.Uint256{}
