//go:build verif

package c02synccrash

import (
	"fmt"
	"math/rand"
	"runtime/debug"
	"testing"

	"verifharness/internal/chainkit"

	"github.com/nspcc-dev/neo-go/pkg/core/mpt"
	"github.com/nspcc-dev/neo-go/pkg/core/storage"
	"github.com/nspcc-dev/neo-go/pkg/util"
)

func TestProbe(t *testing.T) {
	w := &world{t: t, id: 0, net: chainkit.NewNet(5, 3), ssi: 4, mtb: 8}
	if err := w.build(21, 104729, 0); err != nil {
		t.Fatal(err)
	}
	// branches with two equal children
	twins := 0
	for h, nb := range w.nodes {
		n := decodeNode(nb)
		if _, ok := n.(*mpt.BranchNode); ok {
			for ch, ps := range mpt.GetChildrenPaths([]byte{}, n) {
				if len(ps) > 1 {
					twins++
					fmt.Printf("branch %s has child %s in %d slots\n", h.StringLE()[:8], ch.StringLE()[:8], len(ps))
				}
			}
		}
	}
	fmt.Println("twins:", twins, "nodes", len(w.nodes), "occ", w.nocc)
	s := &sink{w: w, r: rand.New(rand.NewSource(1)), mem: storage.NewMemoryStore()}
	s.rec = NewRecStore(s.mem)
	fmt.Println(s.boot(w.N))
	s.advance("blocks")
	fmt.Println("phase", s.phase(), s.ok(), s.refuse, s.pan, "hh", s.bc.HeaderHeight())
	s.close() // clean stop
	s2 := &sink{w: w, r: rand.New(rand.NewSource(1)), mem: s.mem}
	func() {
		defer func() {
			if r := recover(); r != nil {
				fmt.Println("PANIC", r)
				debug.PrintStack()
			}
		}()
		var err error
		s2.bc, err = w.newSink(NewRecStore(s2.mem))
		if err != nil {
			t.Fatal(err)
		}
		chainkit.Start(s2.bc)
		s2.mod = s2.bc.GetStateSyncModule()
		fmt.Println("hh", s2.bc.HeaderHeight(), "bh", s2.bc.BlockHeight())
		fmt.Println("init:", s2.mod.Init(w.N))
		fmt.Println("sp", s2.mod.GetStateSyncPoint(), "active", s2.mod.IsActive(), "needH", s2.mod.NeedHeaders())
		fmt.Println("phase after clean restart:", s2.phase())
	}()
	_ = util.Uint256{}
}
