//go:build verif

package c02synccrash

import (
	"math/rand"
	"testing"

	"verifharness/internal/chainkit"
)

// TestProbe is the scripted scenario of the two defects this extension found in the tree it was built on (repaired by
// 847be2f and 8af99ad): (1) the node is stopped (a clean stop is enough) and started again when the restored trie holds a branch with one
// child in several slots - Module.Init used to panic "failed to get MPT node from the pool"; (2) the node dies between the
// batch that stores the last window block and the first batch of the jump - on restart the module used to declare
// itself finished at height 0. Both must end at the sync point with the source's state.
func TestProbe(t *testing.T) {
	w := &world{t: t, id: 0, net: chainkit.NewNet(5, 3), ssi: 4, mtb: 8}
	if err := w.build(21, 104729, 0); err != nil {
		t.Fatal(err)
	}
	defer w.src.Close()
	if w.twins == 0 {
		t.Fatalf("the scripted world has no branch with one child in several slots")
	}
	// the database right after the PersistSync that completes the trie (what a clean stop in the blocks stage leaves, too)
	// and right after the one that completes the blocks
	ref := w.life(nil, true, w.N, nil, rand.New(rand.NewSource(1)), 0, false)
	if !ref.completed {
		t.Fatalf("uninterrupted synchronisation failed: %v %v %v", ref.refuse, ref.stuck, ref.pan)
	}
	img := Disk{}
	at := map[string]Disk{}
	before := w.project(img)
	for _, b := range ref.batches {
		img.Apply(b)
		f := w.project(img)
		c := class(before, f, int(w.P))
		if _, seen := at[c]; !seen {
			at[c] = img.Clone()
		}
		before = f
	}
	for _, c := range []string{"mpt-complete", "blocks-complete"} {
		d, ok := at[c]
		if !ok {
			t.Fatalf("no batch of class %s recorded", c)
		}
		if c == "mpt-complete" && !w.project(d).Trap {
			t.Fatalf("the complete trie does not have the shape the scenario is about")
		}
		o := w.life(d, false, w.N, nil, rand.New(rand.NewSource(2)), 0, true)
		if o.openErr != "" || o.initErr != "" || o.pan != "" {
			t.Fatalf("restart after %s: open %q init %q panic %q", c, o.openErr, o.initErr, o.pan)
		}
		if !o.completed || !o.v.rootOK || !o.v.storeOK || o.v.height != w.P {
			t.Fatalf("restart after %s: completed=%v (%s) root=%v storage=%v height=%d (sync point %d)", c, o.completed, o.stuck, o.v.rootOK, o.v.storeOK, o.v.height, w.P)
		}
		if c == "blocks-complete" && (o.stage0 != "done" || o.height0 != w.P) {
			t.Fatalf("restart after %s: stage %s at height %d, expected the jump to be carried out by Init", c, o.stage0, o.height0)
		}
	}
}
