package c18codec

import (
	"fmt"
	"math/big"
	"testing"

	"github.com/nspcc-dev/neo-go/pkg/encoding/address"
	"github.com/nspcc-dev/neo-go/pkg/encoding/base58"
	"github.com/nspcc-dev/neo-go/pkg/encoding/fixedn"
)

func TestProbe(t *testing.T) {
	for _, c := range []struct {
		s string
		p int
	}{{"", 0}, {".", 1}, {"-", 1}, {"1.", 1}, {".5", 1}, {"+1", 1}, {"+1.5", 1}, {"007", 1}, {"-0", 1}, {"-0.5", 1}, {"1.+5", 1}, {"1.-5", 1}, {"-1.-5", 1}, {"1_0", 1}, {"0x10", 1}, {"1.5", 0}, {"1.", 0}, {"1..2", 2}, {"1.2.3", 4}, {" 1", 1}, {"1 ", 1}, {"1.0_0", 4}, {"1e3", 1}, {"-1.5", 1}, {"00.50", 2},{"+0.5",1},{"-00.5",1},{"0b1",1},{"1.0x1",4},{"1.0b1",4}, {"1.1_1",4}} {
		v, err := fixedn.FromString(c.s, c.p)
		fmt.Printf("FromString(%q,%d) = %v, %v\n", c.s, c.p, v, err)
	}
	for _, c := range []struct {
		v string
		p int
	}{{"-5", 1}, {"5", 1}, {"-15", 1}, {"0", 3}, {"100", 2}, {"99999999999999999999", 20}, {"18446744073709551616", 20}, {"18446744073709551617", 20}, {"-1", 0}, {"12345678901234567890123", 22}, {"10", 0}, {"1", 30}} {
		bi, _ := new(big.Int).SetString(c.v, 10)
		func() {
			defer func() {
				if r := recover(); r != nil {
					fmt.Printf("ToString(%s,%d) PANIC %v\n", c.v, c.p, r)
				}
			}()
			fmt.Printf("ToString(%s,%d) = %q\n", c.v, c.p, fixedn.ToString(bi, c.p))
		}()
	}
	for _, s := range []string{"-0.5", "-0.00000001", "92233720368.54775807", "-92233720368.54775808", "92233720368.54775808", "184467440737.09551616", "-0", "1.123456789"} {
		f, err := fixedn.Fixed8FromString(s)
		fmt.Printf("Fixed8FromString(%q) = %d %q, %v\n", s, int64(f), f.String(), err)
	}
	fmt.Println(fixedn.Fixed8(-50000000).String(), fixedn.Fixed8(-1 << 63).String(), fixedn.Fixed8(1<<63 - 1).String())
	for _, n := range []int{0, 1, 2, 5, 16, 17, 20, 21, 22, 25} {
		b := make([]byte, n)
		if n > 0 {
			b[0] = address.Prefix
		}
		s := base58.CheckEncode(b)
		func() {
			defer func() {
				if r := recover(); r != nil {
					fmt.Printf("StringToUint160(payload %d) PANIC %v\n", n, r)
				}
			}()
			u, err := address.StringToUint160(s)
			fmt.Printf("StringToUint160(payload %d %q) = %s, %v\n", n, s, u.StringBE(), err)
		}()
	}
}
