package chainkit

import (
	"crypto/sha256"
	"encoding/hex"
	"encoding/json"
	"fmt"
	"sort"

	"github.com/nspcc-dev/neo-go/pkg/config"
	"github.com/nspcc-dev/neo-go/pkg/core"
	"github.com/nspcc-dev/neo-go/pkg/core/block"
	"github.com/nspcc-dev/neo-go/pkg/core/native/noderoles"
	"github.com/nspcc-dev/neo-go/pkg/core/state"
	"github.com/nspcc-dev/neo-go/pkg/core/storage"
	"github.com/nspcc-dev/neo-go/pkg/core/transaction"
	"github.com/nspcc-dev/neo-go/pkg/crypto/keys"
	"github.com/nspcc-dev/neo-go/pkg/io"
	"github.com/nspcc-dev/neo-go/pkg/smartcontract"
	"github.com/nspcc-dev/neo-go/pkg/smartcontract/callflag"
	"github.com/nspcc-dev/neo-go/pkg/smartcontract/trigger"
	"github.com/nspcc-dev/neo-go/pkg/util"
	"github.com/nspcc-dev/neo-go/pkg/vm/emit"
)

// Digest is a component-wise summary of everything the protocol defines at the chain's CURRENT height.
// Components are hashed separately so that a disagreement between two replicas can be localised.
type Digest map[string]string

func h(parts ...any) string {
	b, _ := json.Marshal(parts)
	s := sha256.Sum256(b)
	return hex.EncodeToString(s[:12])
}

func pubs(ks keys.PublicKeys) []string {
	var r []string
	for _, k := range ks {
		r = append(r, k.StringCompressed())
	}
	return r
}

// MaxContractID is the highest deployed-contract id the digest looks at.
const MaxContractID = 24

// StorageDump returns all contract storage (native ids -1..-15 and deployed ids 1..MaxContractID) as a sorted list.
func StorageDump(bc *core.Blockchain) [][3]string {
	var out [][3]string
	for id := int32(-15); id <= MaxContractID; id++ {
		if id == 0 {
			continue
		}
		bc.SeekStorage(id, nil, func(k, v []byte) bool {
			out = append(out, [3]string{fmt.Sprint(id), hex.EncodeToString(k), hex.EncodeToString(v)})
			return true
		})
	}
	return out
}

func aerKey(a *state.AppExecResult) any {
	b, _ := json.Marshal(a) // container, trigger, vmstate, gasconsumed, stack, notifications, exception
	return string(b)
}

// Compute computes the digest of bc at its current height. retained limits which historic things are included
// (none: only facts every node-local configuration keeps).
func Compute(bc *core.Blockchain) Digest {
	d := Digest{}
	height := bc.BlockHeight()
	d["height"] = fmt.Sprint(height)
	d["tip"] = bc.CurrentBlockHash().StringLE()
	if r, err := bc.GetStateRoot(height); err == nil {
		d["stateroot"] = r.Root.StringLE()
	} else {
		d["stateroot"] = "ERR:" + err.Error()
	}
	d["storage"] = h(StorageDump(bc))
	// execution results of the top block
	var aers []any
	if blk, err := bc.GetBlock(bc.CurrentBlockHash()); err == nil {
		if rs, err := bc.GetAppExecResults(blk.Hash(), trigger.All); err == nil {
			for i := range rs {
				aers = append(aers, aerKey(&rs[i]))
			}
		} else {
			aers = append(aers, "ERR:"+err.Error())
		}
		for _, tx := range blk.Transactions {
			rs, err := bc.GetAppExecResults(tx.Hash(), trigger.All)
			if err != nil {
				aers = append(aers, "ERR:"+err.Error())
				continue
			}
			for i := range rs {
				aers = append(aers, aerKey(&rs[i]))
			}
		}
	} else {
		aers = append(aers, "ERR:"+err.Error())
	}
	d["aers"] = h(aers)
	com, err := bc.GetCommittee()
	d["committee"] = h(pubs(com), fmt.Sprint(err))
	nbv, err := bc.GetNextBlockValidators()
	d["nextvalidators"] = h(pubs(nbv), fmt.Sprint(err))
	d["computedvalidators"] = h(pubs(bc.ComputeNextBlockValidators()))
	enr, err := bc.GetEnrollments()
	sort.Slice(enr, func(i, j int) bool { return enr[i].Key.Cmp(enr[j].Key) < 0 })
	var es []string
	for _, e := range enr {
		es = append(es, e.Key.StringCompressed()+":"+e.Votes.String())
	}
	d["enrollments"] = h(es, fmt.Sprint(err))
	nvb, _ := bc.GetMaxNotValidBeforeDelta()
	d["policy"] = h(bc.FeePerByte(), bc.GetBaseExecFee(), bc.GetStoragePrice(), bc.GetMaxTraceableBlocks(),
		bc.GetMaxValidUntilBlockIncrement(), bc.GetMillisecondsPerBlock(), bc.GetMaxVerificationGAS(), nvb,
		bc.GetNotaryServiceFeePerKey())
	var nat []any
	for _, c := range bc.GetNatives() {
		b, _ := json.Marshal(c)
		nat = append(nat, string(b))
	}
	d["natives"] = h(nat)
	var cs []any
	for id := int32(1); id <= MaxContractID; id++ {
		hsh, err := bc.GetContractScriptHash(id)
		if err != nil {
			cs = append(cs, "none")
			continue
		}
		c := bc.GetContractState(hsh)
		b, _ := json.Marshal(c)
		cs = append(cs, string(b))
	}
	d["contracts"] = h(cs)
	d["invoke"] = h(TestInvocations(bc))
	var roles []any
	for _, r := range []noderoles.Role{noderoles.StateValidator, noderoles.Oracle, noderoles.NeoFSAlphabet, noderoles.P2PNotary} {
		ks, hh, err := bc.GetDesignatedByRole(r)
		roles = append(roles, pubs(ks), hh, fmt.Sprint(err))
	}
	d["roles"] = h(roles)
	// what every NEO holder could claim at the next block (answers of the NEO native that go through its in-memory
	// cache of voter rewards) and what it holds
	var claim []any
	neoID := int32(-5)
	for _, c := range bc.GetNatives() {
		if c.Manifest.Name == "NeoToken" {
			neoID = c.ID
		}
	}
	n := 0
	bc.SeekStorage(neoID, []byte{20}, func(k, v []byte) bool {
		acc, err := util.Uint160DecodeBytesBE(k)
		if err != nil {
			return true
		}
		g, err := bc.CalculateClaimable(acc, height+1)
		bal, upd := bc.GetGoverningTokenBalance(acc)
		claim = append(claim, acc.StringLE(), fmt.Sprint(g), fmt.Sprint(err), fmt.Sprint(bal), upd)
		n++
		return n < 64
	})
	d["claimable"] = h(claim)
	return d
}

// zeroArg is the argument a test invocation passes for a parameter of the given type.
func zeroArg(t smartcontract.ParamType) any {
	switch t {
	case smartcontract.BoolType:
		return false
	case smartcontract.IntegerType:
		return int64(1)
	case smartcontract.ByteArrayType, smartcontract.StringType, smartcontract.AnyType:
		return []byte{0x01}
	case smartcontract.Hash160Type:
		return util.Uint160{}
	case smartcontract.Hash256Type:
		return util.Uint256{}
	case smartcontract.ArrayType:
		return []any{}
	default:
		return nil
	}
}

// TestInvocations runs, RPC invokefunction style (test VM over the current state, nothing is stored), every ABI method of
// every deployed contract with fixed arguments and returns (contract, method, VM state, GAS consumed) - the execution
// answers of the node at this height (fees included: base execution fee, storage price, whitelisted fixed fees).
func TestInvocations(bc *core.Blockchain) []string {
	var out []string
	for id := int32(1); id <= MaxContractID; id++ {
		hsh, err := bc.GetContractScriptHash(id)
		if err != nil {
			continue
		}
		c := bc.GetContractState(hsh)
		if c == nil {
			continue
		}
		for _, m := range c.Manifest.ABI.Methods {
			if len(m.Name) == 0 || m.Name[0] == '_' || m.Name == "update" || m.Name == "destroy" {
				continue
			}
			args := make([]any, 0, len(m.Parameters))
			for _, p := range m.Parameters {
				args = append(args, zeroArg(p.Type))
			}
			w := io.NewBufBinWriter()
			emit.AppCall(w.BinWriter, hsh, m.Name, callflag.All, args...)
			if w.Err != nil {
				out = append(out, fmt.Sprintf("%d:%s:ERR:%v", id, m.Name, w.Err))
				continue
			}
			tx := transaction.New(w.Bytes(), 0)
			tx.Signers = []transaction.Signer{{Account: util.Uint160{}, Scopes: transaction.None}}
			tx.ValidUntilBlock = bc.BlockHeight() + 1
			ic, err := bc.GetTestVM(trigger.Application, tx, nil)
			if err != nil {
				out = append(out, fmt.Sprintf("%d:%s:ERR:%v", id, m.Name, err))
				continue
			}
			ic.VM.SetGasLimit(20_0000_0000)
			ic.VM.LoadWithFlags(tx.Script, callflag.All)
			_ = ic.VM.Run()
			out = append(out, fmt.Sprintf("%d:%s:%s:%d", id, m.Name, ic.VM.State(), ic.VM.GasConsumed()))
			ic.Finalize()
		}
	}
	return out
}

// Diff lists the components on which two digests disagree.
func Diff(a, b Digest) []string {
	var r []string
	for k, v := range a {
		if b[k] != v {
			r = append(r, k)
		}
	}
	sort.Strings(r)
	return r
}

// RawDump returns every key/value pair of a store (after a flush this is the whole database).
func RawDump(st storage.Store) map[string]string {
	m := map[string]string{}
	st.Seek(storage.SeekRange{}, func(k, v []byte) bool {
		m[hex.EncodeToString(k)] = hex.EncodeToString(v)
		return true
	})
	return m
}

var _ = util.Uint160{}

// Explain describes how node bc (at height h) differs from a fresh reference node that is fed the same blocks 1..h
// (blockAt(i) returns block i): differing storage items and differing execution results of block h. It is information
// for the reader of a replay, never a verdict.
func (n *Net) Explain(bc *core.Blockchain, hook func(*config.Blockchain), h uint32, blockAt func(uint32) *block.Block) []string {
	var out []string
	ref, err := n.NewChain(nil, hook)
	if err != nil {
		return []string{"explain: " + err.Error()}
	}
	Start(ref)
	defer ref.Close()
	for i := uint32(1); i <= h; i++ {
		b := blockAt(i)
		if b == nil {
			return append(out, fmt.Sprintf("explain: no block %d", i))
		}
		raw, err := EncodeBlock(b)
		if err != nil {
			return append(out, "explain: "+err.Error())
		}
		c, err := DecodeBlock(raw, ref.GetConfig().StateRootInHeader)
		if err != nil {
			return append(out, "explain: "+err.Error())
		}
		if err := ref.AddBlock(c); err != nil {
			return append(out, fmt.Sprintf("explain: fresh reference refuses block %d: %v", i, err))
		}
	}
	a, b := map[string]string{}, map[string]string{}
	for _, it := range StorageDump(ref) {
		a[it[0]+"/"+it[1]] = it[2]
	}
	for _, it := range StorageDump(bc) {
		b[it[0]+"/"+it[1]] = it[2]
	}
	var keys []string
	for k, v := range a {
		if w, ok := b[k]; !ok {
			keys = append(keys, fmt.Sprintf("storage %s: reference %s | node (absent)", k, v))
		} else if w != v {
			keys = append(keys, fmt.Sprintf("storage %s: reference %s | node %s", k, v, w))
		}
	}
	for k, w := range b {
		if _, ok := a[k]; !ok {
			keys = append(keys, fmt.Sprintf("storage %s: reference (absent) | node %s", k, w))
		}
	}
	sort.Strings(keys)
	if len(keys) > 12 {
		keys = append(keys[:12], fmt.Sprintf("... %d more", len(keys)-12))
	}
	out = append(out, keys...)
	if blk := blockAt(h); blk != nil {
		for i, tx := range blk.Transactions {
			x, e1 := ref.GetAppExecResults(tx.Hash(), trigger.Application)
			y, e2 := bc.GetAppExecResults(tx.Hash(), trigger.Application)
			if e1 != nil || e2 != nil || len(x) != 1 || len(y) != 1 {
				out = append(out, fmt.Sprintf("tx %d: results reference %d/%v node %d/%v", i, len(x), e1, len(y), e2))
				continue
			}
			if aerKey(&x[0]) != aerKey(&y[0]) {
				attrs := ""
				for _, at := range tx.Attributes {
					attrs += at.Type.String() + " "
				}
				out = append(out, fmt.Sprintf("tx %d attrs[%s] script %x: reference %s gas %d %q | node %s gas %d %q", i, attrs, tx.Script[:min(len(tx.Script), 60)],
					x[0].VMState, x[0].GasConsumed, x[0].FaultException, y[0].VMState, y[0].GasConsumed, y[0].FaultException))
			}
		}
	}
	return out
}
