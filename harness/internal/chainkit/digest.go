package chainkit

import (
	"crypto/sha256"
	"encoding/hex"
	"encoding/json"
	"fmt"
	"sort"

	"github.com/nspcc-dev/neo-go/pkg/core"
	"github.com/nspcc-dev/neo-go/pkg/core/native/noderoles"
	"github.com/nspcc-dev/neo-go/pkg/core/state"
	"github.com/nspcc-dev/neo-go/pkg/core/storage"
	"github.com/nspcc-dev/neo-go/pkg/smartcontract/trigger"
	"github.com/nspcc-dev/neo-go/pkg/crypto/keys"
	"github.com/nspcc-dev/neo-go/pkg/util"
)

// Digest is a component-wise summary of everything the protocol defines at the chain's CURRENT height.
// Components are hashed separately so that a disagreement between two replicas can be localised.
type Digest map[string]string

func h(parts ...any) string {
	b, _ := json.Marshal(parts)
	s := sha256.Sum256(b)
	return hex.EncodeToString(s[:12])
}

func pubs(ks keys.PublicKeys) []string {
	var r []string
	for _, k := range ks {
		r = append(r, k.StringCompressed())
	}
	return r
}

// MaxContractID is the highest deployed-contract id the digest looks at.
const MaxContractID = 24

// StorageDump returns all contract storage (native ids -1..-15 and deployed ids 1..MaxContractID) as a sorted list.
func StorageDump(bc *core.Blockchain) [][3]string {
	var out [][3]string
	for id := int32(-15); id <= MaxContractID; id++ {
		if id == 0 {
			continue
		}
		bc.SeekStorage(id, nil, func(k, v []byte) bool {
			out = append(out, [3]string{fmt.Sprint(id), hex.EncodeToString(k), hex.EncodeToString(v)})
			return true
		})
	}
	return out
}

func aerKey(a *state.AppExecResult) any {
	b, _ := json.Marshal(a) // container, trigger, vmstate, gasconsumed, stack, notifications, exception
	return string(b)
}

// Compute computes the digest of bc at its current height. retained limits which historic things are included
// (none: only facts every node-local configuration keeps).
func Compute(bc *core.Blockchain) Digest {
	d := Digest{}
	height := bc.BlockHeight()
	d["height"] = fmt.Sprint(height)
	d["tip"] = bc.CurrentBlockHash().StringLE()
	if r, err := bc.GetStateRoot(height); err == nil {
		d["stateroot"] = r.Root.StringLE()
	} else {
		d["stateroot"] = "ERR:" + err.Error()
	}
	d["storage"] = h(StorageDump(bc))
	// execution results of the top block
	var aers []any
	if blk, err := bc.GetBlock(bc.CurrentBlockHash()); err == nil {
		if rs, err := bc.GetAppExecResults(blk.Hash(), trigger.All); err == nil {
			for i := range rs {
				aers = append(aers, aerKey(&rs[i]))
			}
		} else {
			aers = append(aers, "ERR:"+err.Error())
		}
		for _, tx := range blk.Transactions {
			rs, err := bc.GetAppExecResults(tx.Hash(), trigger.All)
			if err != nil {
				aers = append(aers, "ERR:"+err.Error())
				continue
			}
			for i := range rs {
				aers = append(aers, aerKey(&rs[i]))
			}
		}
	} else {
		aers = append(aers, "ERR:"+err.Error())
	}
	d["aers"] = h(aers)
	com, err := bc.GetCommittee()
	d["committee"] = h(pubs(com), fmt.Sprint(err))
	nbv, err := bc.GetNextBlockValidators()
	d["nextvalidators"] = h(pubs(nbv), fmt.Sprint(err))
	d["computedvalidators"] = h(pubs(bc.ComputeNextBlockValidators()))
	enr, err := bc.GetEnrollments()
	sort.Slice(enr, func(i, j int) bool { return enr[i].Key.Cmp(enr[j].Key) < 0 })
	var es []string
	for _, e := range enr {
		es = append(es, e.Key.StringCompressed()+":"+e.Votes.String())
	}
	d["enrollments"] = h(es, fmt.Sprint(err))
	nvb, _ := bc.GetMaxNotValidBeforeDelta()
	d["policy"] = h(bc.FeePerByte(), bc.GetBaseExecFee(), bc.GetStoragePrice(), bc.GetMaxTraceableBlocks(),
		bc.GetMaxValidUntilBlockIncrement(), bc.GetMillisecondsPerBlock(), bc.GetMaxVerificationGAS(), nvb,
		bc.GetNotaryServiceFeePerKey())
	var nat []any
	for _, c := range bc.GetNatives() {
		b, _ := json.Marshal(c)
		nat = append(nat, string(b))
	}
	d["natives"] = h(nat)
	var cs []any
	for id := int32(1); id <= MaxContractID; id++ {
		hsh, err := bc.GetContractScriptHash(id)
		if err != nil {
			cs = append(cs, "none")
			continue
		}
		c := bc.GetContractState(hsh)
		b, _ := json.Marshal(c)
		cs = append(cs, string(b))
	}
	d["contracts"] = h(cs)
	var roles []any
	for _, r := range []noderoles.Role{noderoles.StateValidator, noderoles.Oracle, noderoles.NeoFSAlphabet, noderoles.P2PNotary} {
		ks, hh, err := bc.GetDesignatedByRole(r)
		roles = append(roles, pubs(ks), hh, fmt.Sprint(err))
	}
	d["roles"] = h(roles)
	return d
}

// Diff lists the components on which two digests disagree.
func Diff(a, b Digest) []string {
	var r []string
	for k, v := range a {
		if b[k] != v {
			r = append(r, k)
		}
	}
	sort.Strings(r)
	return r
}

// RawDump returns every key/value pair of a store (after a flush this is the whole database).
func RawDump(st storage.Store) map[string]string {
	m := map[string]string{}
	st.Seek(storage.SeekRange{}, func(k, v []byte) bool {
		m[hex.EncodeToString(k)] = hex.EncodeToString(v)
		return true
	})
	return m
}

var _ = util.Uint160{}
