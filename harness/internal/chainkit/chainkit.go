// Package chainkit builds real neo-go ledgers for the node-level drivers: a deterministic private
// network (committee / validators with known keys), chain construction on any storage backend with
// any node-local options, block construction and a digest of everything the protocol defines.
package chainkit

import (
	"crypto/sha256"
	"encoding/hex"
	"fmt"
	"slices"
	"testing"
	"time"

	"github.com/nspcc-dev/neo-go/pkg/config"
	"github.com/nspcc-dev/neo-go/pkg/config/netmode"
	"github.com/nspcc-dev/neo-go/pkg/core"
	"github.com/nspcc-dev/neo-go/pkg/core/block"
	"github.com/nspcc-dev/neo-go/pkg/core/storage"
	"github.com/nspcc-dev/neo-go/pkg/core/transaction"
	"github.com/nspcc-dev/neo-go/pkg/crypto/keys"
	"github.com/nspcc-dev/neo-go/pkg/io"
	"github.com/nspcc-dev/neo-go/pkg/neotest"
	"github.com/nspcc-dev/neo-go/pkg/smartcontract"
	"github.com/nspcc-dev/neo-go/pkg/smartcontract/scparser"
	"github.com/nspcc-dev/neo-go/pkg/vm/emit"
	"github.com/nspcc-dev/neo-go/pkg/wallet"
	"go.uber.org/zap"
)

func init() {
	// No background flushes: drivers place every flush themselves (hook, build tag verif).
	core.VerifSetPersistInterval(100 * time.Hour)
}

// Key returns a deterministic private key.
func Key(label string) *keys.PrivateKey {
	for i := 0; ; i++ {
		h := sha256.Sum256([]byte(fmt.Sprintf("verif-key:%s:%d", label, i)))
		k, err := keys.NewPrivateKeyFromBytes(h[:])
		if err == nil {
			return k
		}
	}
}

// Net is a private network definition.
type Net struct {
	Committee  []*wallet.Account // multisig-converted, sorted by public key
	Validators []*wallet.Account // multisig-converted, sorted by public key
	Standby    []string          // StandbyCommittee config entry (validators first)
	NV         int
	Magic      netmode.Magic
}

// NewNet creates a network with nc committee members of which the first nv (in standby order) are validators.
func NewNet(nc, nv int) *Net {
	n := &Net{NV: nv, Magic: netmode.UnitTestNet}
	priv := make([]*keys.PrivateKey, nc)
	for i := range priv {
		priv[i] = Key(fmt.Sprintf("committee-%d", i))
	}
	for _, p := range priv {
		n.Standby = append(n.Standby, hex.EncodeToString(p.PublicKey().Bytes()))
	}
	mk := func(ps []*keys.PrivateKey, m int) []*wallet.Account {
		pubs := make(keys.PublicKeys, len(ps))
		for i, p := range ps {
			pubs[i] = p.PublicKey()
		}
		var accs []*wallet.Account
		for _, p := range ps {
			a := wallet.NewAccountFromPrivateKey(p)
			if err := a.ConvertMultisig(m, slices.Clone(pubs)); err != nil {
				panic(err)
			}
			accs = append(accs, a)
		}
		slices.SortFunc(accs, func(a, b *wallet.Account) int { return a.PublicKey().Cmp(b.PublicKey()) })
		return accs
	}
	n.Committee = mk(priv, smartcontract.GetMajorityHonestNodeCount(nc))
	n.Validators = mk(priv[:nv], smartcontract.GetDefaultHonestNodeCount(nv))
	return n
}

func (n *Net) ValidatorSigner() neotest.Signer {
	return neotest.NewMultiSigner(slices.Clone(n.Validators)...)
}
func (n *Net) CommitteeSigner() neotest.Signer {
	return neotest.NewMultiSigner(slices.Clone(n.Committee)...)
}

// Config returns the chain configuration of the network with node-local adjustments applied by hook.
func (n *Net) Config(hook func(*config.Blockchain)) config.Blockchain {
	cfg := config.Blockchain{
		ProtocolConfiguration: config.ProtocolConfiguration{
			Magic:                       n.Magic,
			MaxTraceableBlocks:          1000,
			MaxBlockSystemFee:           900000000000,
			MaxValidUntilBlockIncrement: 500,
			TimePerBlock:                time.Second,
			Genesis:                     config.Genesis{TimePerBlock: time.Second},
			StandbyCommittee:            n.Standby,
			ValidatorsCount:             uint32(n.NV),
			VerifyTransactions:          true,
			P2PSigExtensions:            true,
		},
	}
	if hook != nil {
		hook(&cfg)
	}
	return cfg
}

// NewChain opens (or creates) a ledger on the given store. The chain is NOT running; call Start.
func (n *Net) NewChain(st storage.Store, hook func(*config.Blockchain)) (*core.Blockchain, error) {
	if st == nil {
		st = storage.NewMemoryStore()
	}
	return core.NewBlockchain(st, n.Config(hook), zap.NewNop(), nil)
}

// Start runs the chain's background goroutine (needed for notifications; flushes are disabled by init).
func Start(bc *core.Blockchain) { go bc.Run() }

// Executor wraps the chain into a neotest.Executor signed by this network's validators/committee.
func (n *Net) Executor(t testing.TB, bc *core.Blockchain) *neotest.Executor {
	return neotest.NewExecutor(t, bc, n.ValidatorSigner(), n.CommitteeSigner())
}

// NewBlock builds and signs the next block for bc out of txs (timestamp = previous + dts milliseconds).
func (n *Net) NewBlock(bc *core.Blockchain, dts uint64, txs ...*transaction.Transaction) (*block.Block, error) {
	last, err := bc.GetBlock(bc.CurrentBlockHash())
	if err != nil {
		return nil, err
	}
	v := n.ValidatorSigner()
	b := &block.Block{
		Header: block.Header{
			NextConsensus: v.ScriptHash(),
			Script:        transaction.Witness{VerificationScript: v.Script()},
			Timestamp:     last.Timestamp + dts,
			PrevHash:      last.Hash(),
			Index:         last.Index + 1,
		},
		Transactions: txs,
	}
	if bc.GetConfig().StateRootInHeader {
		b.StateRootEnabled = true
		b.PrevStateRoot = bc.GetStateModule().CurrentLocalStateRoot()
	}
	b.RebuildMerkleRoot()
	b.Script.InvocationScript = v.SignHashable(uint32(n.Magic), b)
	return b, nil
}

// Reseal returns a copy of an edited block with the Merkle root recomputed and a fresh validators' signature.
func (n *Net) Reseal(b *block.Block) *block.Block {
	c := CloneBlockNoCache(b)
	c.RebuildMerkleRoot()
	c.Script.InvocationScript = n.ValidatorSigner().SignHashable(uint32(n.Magic), c)
	return c
}

// CloneBlockNoCache returns a copy of the block's exported content with no cached hash.
func CloneBlockNoCache(b *block.Block) *block.Block {
	c := &block.Block{Header: block.Header{
		Version: b.Version, PrevHash: b.PrevHash, MerkleRoot: b.MerkleRoot, Timestamp: b.Timestamp, Nonce: b.Nonce,
		Index: b.Index, PrimaryIndex: b.PrimaryIndex, NextConsensus: b.NextConsensus, Script: b.Script,
		StateRootEnabled: b.StateRootEnabled, PrevStateRoot: b.PrevStateRoot,
	}, Transactions: b.Transactions}
	return c
}

// EncodeBlock serialises a block the way peers receive it.
func EncodeBlock(b *block.Block) ([]byte, error) {
	w := io.NewBufBinWriter()
	b.EncodeBinary(w.BinWriter)
	if w.Err != nil {
		return nil, w.Err
	}
	return w.Bytes(), nil
}

// DecodeBlock parses a block from wire bytes (fresh object, no shared caches).
func DecodeBlock(raw []byte, stateRootInHeader bool) (*block.Block, error) {
	b := block.New(stateRootInHeader)
	r := io.NewBinReaderFromBuf(raw)
	b.DecodeBinary(r)
	if r.Err != nil {
		return nil, r.Err
	}
	return b, nil
}

// WitnessVariant returns a copy of tx in which one multisignature witness is made by ANOTHER subset of the keys this
// package knows (committee-i, acct-i): the same transaction (same hash) as it can legitimately circulate with two
// different valid witnesses. ok is false if no witness of tx has a second signer subset.
func WitnessVariant(tx *transaction.Transaction, magic netmode.Magic) (*transaction.Transaction, bool) {
	known := map[string]*keys.PrivateKey{}
	for i := 0; i < 16; i++ {
		for _, l := range []string{"committee-%d", "acct-%d"} {
			k := Key(fmt.Sprintf(l, i))
			known[string(k.PublicKey().Bytes())] = k
		}
	}
	for wi := range tx.Scripts {
		m, pubs, ok := scparser.ParseMultiSigContract(tx.Scripts[wi].VerificationScript)
		if !ok || m >= len(pubs) {
			continue
		}
		// which keys signed the original: count PUSHDATA1 signatures and try the LAST m available keys instead of the first m
		var have []int
		for i, p := range pubs {
			if _, ok := known[string(p)]; ok {
				have = append(have, i)
			}
		}
		if len(have) <= m {
			continue
		}
		c := *tx
		c.Scripts = slices.Clone(tx.Scripts)
		sel := have[len(have)-m:]
		bw := io.NewBufBinWriter()
		for _, i := range sel {
			sig := known[string(pubs[i])].SignHashable(uint32(magic), tx)
			emit.Bytes(bw.BinWriter, sig)
		}
		inv := bw.Bytes()
		if string(inv) == string(tx.Scripts[wi].InvocationScript) {
			// the original was made by exactly this subset: take the first m instead
			bw.Reset()
			for _, i := range have[:m] {
				emit.Bytes(bw.BinWriter, known[string(pubs[i])].SignHashable(uint32(magic), tx))
			}
			inv = bw.Bytes()
			if string(inv) == string(tx.Scripts[wi].InvocationScript) {
				continue
			}
		}
		c.Scripts[wi] = transaction.Witness{InvocationScript: inv, VerificationScript: tx.Scripts[wi].VerificationScript}
		raw, err := testserdes(&c)
		if err != nil {
			continue
		}
		return raw, true
	}
	return nil, false
}

// testserdes passes a transaction through its wire form (fresh object, nothing cached).
func testserdes(tx *transaction.Transaction) (*transaction.Transaction, error) {
	return transaction.NewTransactionFromBytes(tx.Bytes())
}
