package histgen

import "encoding/json"

func jsonMarshal(v any) ([]byte, error) { return json.Marshal(v) }
