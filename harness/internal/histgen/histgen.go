// Package histgen generates valid block histories on a real reference ledger: token transfers (incl. self-,
// zero- and contract-recipient transfers with payment callbacks), votes and candidate changes across committee
// epochs, policy and role changes, contract deploy / update / destroy, storage-heavy and faulting invocations,
// notary deposits. Every block it returns has been accepted by the reference chain.
package histgen

import (
	"encoding/binary"
	"fmt"
	"math/big"
	"math/rand"
	"slices"
	"strings"
	"testing"

	"verifharness/internal/chainkit"

	"github.com/nspcc-dev/neo-go/pkg/compiler"
	"github.com/nspcc-dev/neo-go/pkg/core"
	"github.com/nspcc-dev/neo-go/pkg/core/block"
	"github.com/nspcc-dev/neo-go/pkg/core/native"
	"github.com/nspcc-dev/neo-go/pkg/core/native/nativenames"
	"github.com/nspcc-dev/neo-go/pkg/core/native/noderoles"
	"github.com/nspcc-dev/neo-go/pkg/core/state"
	"github.com/nspcc-dev/neo-go/pkg/core/transaction"
	"github.com/nspcc-dev/neo-go/pkg/crypto/keys"
	"github.com/nspcc-dev/neo-go/pkg/neotest"
	"github.com/nspcc-dev/neo-go/pkg/smartcontract"
	"github.com/nspcc-dev/neo-go/pkg/smartcontract/manifest"
	"github.com/nspcc-dev/neo-go/pkg/smartcontract/trigger"
	"github.com/nspcc-dev/neo-go/pkg/util"
	"github.com/nspcc-dev/neo-go/pkg/vm/stackitem"
	"github.com/nspcc-dev/neo-go/pkg/vm/vmstate"
	"github.com/nspcc-dev/neo-go/pkg/wallet"
)

const kvSrc = `package kv

import (
	"github.com/nspcc-dev/neo-go/pkg/interop"
	"github.com/nspcc-dev/neo-go/pkg/interop/contract"
	"github.com/nspcc-dev/neo-go/pkg/interop/iterator"
	"github.com/nspcc-dev/neo-go/pkg/interop/native/ledger"
	"github.com/nspcc-dev/neo-go/pkg/interop/native/management"
	"github.com/nspcc-dev/neo-go/pkg/interop/native/oracle"
	"github.com/nspcc-dev/neo-go/pkg/interop/runtime"
	"github.com/nspcc-dev/neo-go/pkg/interop/storage"
)

const variant = %d

func Put(k, v []byte) { storage.Put(storage.GetContext(), k, v) }
func Del(k []byte)    { storage.Delete(storage.GetContext(), k) }
func Get(k []byte) any { return storage.Get(storage.GetReadOnlyContext(), k) }
func PutMany(prefix []byte, n int, v []byte) {
	ctx := storage.GetContext()
	for i := 0; i < n; i++ {
		storage.Put(ctx, append(prefix, byte(i)), v)
	}
}
func DelMany(prefix []byte, n int) {
	ctx := storage.GetContext()
	for i := 0; i < n; i++ {
		storage.Delete(ctx, append(prefix, byte(i)))
	}
}
func PutSpine(spine []byte, v []byte) {
	ctx := storage.GetContext()
	for i := 0; i < len(spine); i++ {
		k := append([]byte{}, spine[:i+1]...)
		k[i] = k[i] ^ 0x10
		storage.Put(ctx, k, v)
		k[i] = k[i] ^ 0x11
		storage.Put(ctx, k, v)
	}
	storage.Put(ctx, spine, v)
}
func Fail(k, v []byte) {
	storage.Put(storage.GetContext(), k, v)
	runtime.Notify("E1", 7)
	panic("boom")
}
func Notify(v int) { runtime.Notify("E1", v) }
func OnNEP17Payment(from interop.Hash160, amount int, data any) {
	storage.Put(storage.GetContext(), []byte("pay"), amount)
	if data != nil && data.(string) == "throw" {
		panic("no payments")
	}
}
func TryFail(k, v []byte, h interop.Hash160) {
	tryCall(h, k, v)
	storage.Put(storage.GetContext(), k, v)
}
func tryCall(h interop.Hash160, k, v []byte) {
	defer func() { _ = recover() }()
	contract.Call(h, "fail", contract.All, append(k, 1), v)
}
func Find(prefix []byte, opts int) []any {
	it := storage.Find(storage.GetReadOnlyContext(), prefix, storage.FindFlags(opts))
	var res []any
	for iterator.Next(it) {
		res = append(res, iterator.Value(it))
	}
	return res
}
func OracleReq(url string, filter []byte, data any, gas int) {
	oracle.Request(url, filter, "oracleCb", data, gas)
}
func OracleCb(url string, data any, code int, res []byte) {
	storage.Put(storage.GetContext(), []byte("orc"), append([]byte{byte(code)}, res...))
	runtime.Notify("E1", code)
	if data != nil && data.(string) == "throw" {
		panic("callback refuses")
	}
}
func LedgerProbe(i int, h interop.Hash256) {
	r := 0
	if ledger.GetBlock(i) != nil {
		r += 1
	}
	if ledger.GetTransaction(h) != nil {
		r += 2
	}
	th := ledger.GetTransactionHeight(h)
	st := ledger.GetTransactionVMState(h)
	storage.Put(storage.GetContext(), []byte("led"), []byte{byte(r), byte(th + 1), byte(st)})
}
func LedgerProbe3(i int, k int) {
	r := 0
	if ledger.GetTransactionFromBlock(i, k) != nil {
		r = 1
	}
	storage.Put(storage.GetContext(), []byte("led3"), []byte{byte(r)})
}
func LedgerProbe2(i int, h interop.Hash256) {
	r := 0
	if ledger.GetBlock(i) != nil {
		r += 1
	}
	if ledger.GetTransaction(h) != nil {
		r += 2
	}
	storage.Put(storage.GetContext(), []byte("led"), []byte{byte(r), byte(ledger.GetTransactionHeight(h) + 1)})
}
func Update(nef, manifest []byte) { management.Update(nef, manifest) }
func Destroy()                    { management.Destroy() }
func Version() int                { return variant }
`

var wild = func() manifest.Permission {
	p := manifest.NewPermission(manifest.PermissionWildcard)
	p.Methods = manifest.WildStrings{}
	return *p
}()

// KV compiles the scenario contract (variant makes different NEFs).
func KV(t testing.TB, sender util.Uint160, variant int, name int) *neotest.Contract {
	return neotest.CompileSource(t, sender, strings.NewReader(fmt.Sprintf(kvSrc, variant)), &compiler.Options{
		Name: fmt.Sprintf("kv%d", name), NoEventsCheck: true, NoPermissionsCheck: true, SafeMethods: []string{"get", "version", "find"},
		ContractEvents: []compiler.HybridEvent{{Name: "E1", Parameters: []compiler.HybridParameter{{Parameter: manifest.Parameter{Name: "v", Type: smartcontract.IntegerType}}}}},
		Permissions:    []manifest.Permission{wild},
	})
}

// Gen drives a reference chain.
type Gen struct {
	T      testing.TB
	Net    *chainkit.Net
	BC     *core.Blockchain
	E      *neotest.Executor
	R      *rand.Rand
	Accts  []neotest.SingleSigner
	Cands  map[int]bool // indexes of Accts currently registered (as far as the generator knows)
	KVs    []util.Uint160
	kvName map[util.Uint160]int
	AllKVs []util.Uint160 // every scenario contract ever deployed (destroyed ones too)
	// Churn is a dedicated whale candidate that is never picked by the random kinds: it registers, votes for
	// itself, sits in the committee for an epoch, withdraws its vote, unregisters (its candidate record is dropped),
	// then comes back - the life-cycle that exercises caches of per-candidate values across node restarts.
	Churn neotest.SingleSigner
	// Churn2 unregisters while it is still voted for and registers again in an otherwise QUIET epoch (no other
	// vote-affecting transaction between the re-registration and the committee refresh).
	Churn2 neotest.SingleSigner
	nvar   int
	spines int
	// PendingOracle are the ids of oracle requests seen in accepted blocks and not answered yet (as far as the
	// generator knows); Answered keeps some answered ids (a second response must be refused).
	PendingOracle []uint64
	reqHeight     map[uint64]uint32
	ReqTx         map[uint64]util.Uint256 // requesting transaction per oracle request id
	// AvoidOldOracle: never answer a request whose requesting transaction may have left the traceability horizon
	// (a node that collects old blocks cannot execute such a response the way an archival node does: known finding).
	AvoidOldOracle bool
	// NoVMStateProbe: ledger look-ups do not ask for the VM state of an old transaction (a state-synchronised node
	// has the transactions of the blocks it fetched but not their execution results: known finding).
	NoVMStateProbe bool
	TxHeight       map[util.Uint256]uint32
	Answered       []uint64
	// OldTxs are hashes of transactions of accepted blocks, oldest first.
	OldTxs []util.Uint256
	// QuietFrom..QuietTo (inclusive block indexes) is a stretch of empty blocks (long-chain worlds).
	QuietFrom, QuietTo uint32
	// Script adds a scripted transaction to the block of the given index (scenario steps of special worlds).
	Script map[uint32]func() *transaction.Transaction
	// Stats counts generated transaction kinds.
	Stats   map[string]int
	Faults  int
	Weights map[string]int
}

// DefaultWeights of transaction kinds.
func DefaultWeights() map[string]int {
	return map[string]int{"gas": 10, "neo": 8, "reg": 3, "unreg": 2, "vote": 8, "policy": 4, "wlfee": 4, "role": 2,
		"deploy": 2, "update": 2, "destroy": 1, "kvput": 8, "kvdel": 4, "kvmany": 4, "kvfail": 4, "kvtry": 3,
		"notary": 3, "notarylock": 1, "notarywd": 1, "notify": 2,
		"oraclereq": 3, "oracleresp": 4, "ledger": 3, "natcfg": 2, "kvspine": 1}
}

// New funds nacc accounts on a fresh reference chain (consumes the first block).
func New(t testing.TB, net *chainkit.Net, bc *core.Blockchain, seed int64, nacc int) *Gen {
	g := &Gen{T: t, Net: net, BC: bc, E: net.Executor(t, bc), R: rand.New(rand.NewSource(seed)), Cands: map[int]bool{}, kvName: map[util.Uint160]int{},
		Stats: map[string]int{}, Weights: DefaultWeights()}
	g.Churn = neotest.NewSingleSigner(wallet.NewAccountFromPrivateKey(chainkit.Key("acct-churn")))
	g.Churn2 = neotest.NewSingleSigner(wallet.NewAccountFromPrivateKey(chainkit.Key("acct-churn2")))
	for i := 0; i < nacc; i++ {
		g.Accts = append(g.Accts, neotest.NewSingleSigner(wallet.NewAccountFromPrivateKey(chainkit.Key(fmt.Sprintf("acct-%d", i)))))
	}
	return g
}

// committee returns signers for a committee-only method: an ordinary funded account pays, the CURRENT committee
// (which depends on votes) co-signs with the majority multisig built from the keys this network knows.
func (g *Gen) committee() []neotest.Signer {
	pubs, err := g.BC.GetCommittee()
	if err != nil {
		return []neotest.Signer{g.E.Committee}
	}
	known := map[string]*keys.PrivateKey{}
	for i := range g.Net.Committee {
		k := chainkit.Key(fmt.Sprintf("committee-%d", i))
		known[string(k.PublicKey().Bytes())] = k
	}
	for i := range g.Accts {
		k := chainkit.Key(fmt.Sprintf("acct-%d", i))
		known[string(k.PublicKey().Bytes())] = k
	}
	m := smartcontract.GetMajorityHonestNodeCount(len(pubs))
	var accs []*wallet.Account
	for _, p := range pubs {
		k, ok := known[string(p.Bytes())]
		if !ok {
			continue
		}
		a := wallet.NewAccountFromPrivateKey(k)
		if err := a.ConvertMultisig(m, slices.Clone(pubs)); err != nil {
			return []neotest.Signer{g.E.Committee}
		}
		accs = append(accs, a)
	}
	if len(accs) < m {
		return []neotest.Signer{g.E.Committee}
	}
	_, payer := g.acct()
	return []neotest.Signer{payer, neotest.NewMultiSigner(accs...)}
}

func (g *Gen) hash(name string) util.Uint160 { return g.E.NativeHash(g.T, name) }

// vubInc is the validity window given to generated transactions (inside the network's limit).
func (g *Gen) vubInc() uint32 {
	return min(5, max(1, g.BC.GetConfig().MaxValidUntilBlockIncrement))
}

// tx builds and signs an invocation; nil if it cannot be built.
func (g *Gen) tx(signers []neotest.Signer, h util.Uint160, method string, args ...any) (tx *transaction.Transaction) {
	defer func() {
		if r := recover(); r != nil {
			tx = nil
		}
	}()
	u := g.E.NewUnsignedTx(g.T, h, method, args...)
	u.ValidUntilBlock = g.BC.BlockHeight() + g.vubInc()
	for _, s := range signers {
		u.Signers = append(u.Signers, transaction.Signer{Account: s.ScriptHash(), Scopes: transaction.Global})
	}
	v, _ := g.E.TestInvoke(u)
	sys := int64(2_0000000)
	if v != nil {
		sys += v.GasConsumed()
	}
	u.Signers = nil
	return g.E.SignTx(g.T, u, sys, signers...)
}

// Bootstrap returns the transactions of the first block: funding of all accounts and cheaper candidate registration.
func (g *Gen) Bootstrap() []*transaction.Transaction {
	var txs []*transaction.Transaction
	v := []neotest.Signer{g.E.Validator}
	for _, a := range g.Accts {
		txs = append(txs, g.tx(v, g.hash(nativenames.Gas), "transfer", g.E.Validator.ScriptHash(), a.ScriptHash(), int64(3000_00000000), nil))
		txs = append(txs, g.tx(v, g.hash(nativenames.Neo), "transfer", g.E.Validator.ScriptHash(), a.ScriptHash(), int64(5_000_000+g.R.Intn(8_000_000)), nil))
	}
	txs = append(txs, g.tx(v, g.hash(nativenames.Gas), "transfer", g.E.Validator.ScriptHash(), g.Churn.ScriptHash(), int64(5000_00000000), nil))
	txs = append(txs, g.tx(v, g.hash(nativenames.Neo), "transfer", g.E.Validator.ScriptHash(), g.Churn.ScriptHash(), int64(14_000_000), nil))
	txs = append(txs, g.tx(v, g.hash(nativenames.Gas), "transfer", g.E.Validator.ScriptHash(), g.Churn2.ScriptHash(), int64(5000_00000000), nil))
	txs = append(txs, g.tx(v, g.hash(nativenames.Neo), "transfer", g.E.Validator.ScriptHash(), g.Churn2.ScriptHash(), int64(11_000_000), nil))
	// the committee's multisig account pays for committee-signed transactions (policy, roles)
	txs = append(txs, g.tx(v, g.hash(nativenames.Gas), "transfer", g.E.Validator.ScriptHash(), g.E.Committee.ScriptHash(), int64(5000_00000000), nil))
	return txs
}

// Bootstrap2 makes the committee depend on votes: enough candidates and enough voter turnout.
func (g *Gen) Bootstrap2() []*transaction.Transaction {
	var txs []*transaction.Transaction
	// registration at the default price (1000 GAS) for the first candidates; cheaper afterwards
	for i, a := range g.Accts {
		if i < len(g.Net.Committee)+1 {
			txs = append(txs, g.tx([]neotest.Signer{a}, g.hash(nativenames.Neo), "registerCandidate", a.Account().PublicKey().Bytes()))
			g.Cands[i] = true
		}
	}
	for i, a := range g.Accts {
		c := g.Accts[(i*3+1)%(len(g.Net.Committee)+1)]
		txs = append(txs, g.tx([]neotest.Signer{a}, g.hash(nativenames.Neo), "vote", a.ScriptHash(), c.Account().PublicKey().Bytes()))
	}
	txs = append(txs, g.tx([]neotest.Signer{g.E.Committee}, g.hash(nativenames.Neo), "setRegisterPrice", int64(5_00000000)))
	return txs
}

func (g *Gen) acct() (int, neotest.SingleSigner) {
	i := g.R.Intn(len(g.Accts))
	return i, g.Accts[i]
}

func (g *Gen) pick() string {
	tot := 0
	for _, w := range g.Weights {
		tot += w
	}
	x := g.R.Intn(tot)
	// deterministic order
	keys := []string{"gas", "neo", "reg", "unreg", "vote", "policy", "wlfee", "role", "deploy", "update", "destroy", "kvput", "kvdel", "kvmany", "kvfail", "kvtry", "notary", "notarylock", "notarywd", "notify",
		"oraclereq", "oracleresp", "ledger", "natcfg", "kvspine"}
	for _, k := range keys {
		if x < g.Weights[k] {
			return k
		}
		x -= g.Weights[k]
	}
	return "gas"
}

func (g *Gen) key() []byte {
	// small key universe with prefixes/extensions and shared values
	ks := [][]byte{{0x01}, {0x01, 0x02}, {0x01, 0x02, 0x03}, {0x02}, {0xff}, {0xff, 0xff}, {0x00}, {0x01, 0x00}, {0x10, 0x20, 0x30, 0x40}}
	return ks[g.R.Intn(len(ks))]
}
func (g *Gen) val() []byte {
	vs := [][]byte{{1}, {2}, {1, 2, 3}, {}, []byte("shared-value-shared-value-shared-value")}
	return vs[g.R.Intn(len(vs))]
}

// one produces one random transaction (or nil).
func (g *Gen) one() *transaction.Transaction {
	kind := g.pick()
	if q := (g.BC.BlockHeight() + 1) % 26; q >= 19 {
		switch kind { // quiet epoch: nothing that changes votes, balances of voters or the candidate list
		case "vote", "reg", "unreg", "neo", "policy":
			return nil
		}
	}
	i, a := g.acct()
	sa := []neotest.Signer{a}
	var com []neotest.Signer
	if kind == "policy" || kind == "role" || kind == "wlfee" || kind == "natcfg" {
		com = g.committee()
	}
	var tx *transaction.Transaction
	switch kind {
	case "gas", "neo":
		tok := nativenames.Gas
		amt := int64(g.R.Intn(3)) * int64(1+g.R.Intn(1000_0000))
		if kind == "neo" {
			tok = nativenames.Neo
			amt = int64(g.R.Intn(4)) * int64(g.R.Intn(1_500_000))
		}
		var to util.Uint160
		var data any
		switch g.R.Intn(6) {
		case 0:
			to = a.ScriptHash() // self
		case 1:
			if len(g.KVs) > 0 {
				to = g.KVs[g.R.Intn(len(g.KVs))] // contract with payment callback
				if g.R.Intn(3) == 0 {
					data = "throw"
				}
				break
			}
			fallthrough
		default:
			_, b := g.acct()
			to = b.ScriptHash()
		}
		tx = g.tx(sa, g.hash(tok), "transfer", a.ScriptHash(), to, amt, data)
	case "reg":
		tx = g.tx(sa, g.hash(nativenames.Neo), "registerCandidate", a.Account().PublicKey().Bytes())
		g.Cands[i] = true
	case "unreg":
		tx = g.tx(sa, g.hash(nativenames.Neo), "unregisterCandidate", a.Account().PublicKey().Bytes())
		delete(g.Cands, i)
	case "vote":
		var target any
		switch g.R.Intn(8) {
		case 0: // unvote
		case 1: // standby committee member
			target = g.Net.Committee[g.R.Intn(len(g.Net.Committee))].PublicKey().Bytes()
		default:
			_, c := g.acct()
			target = c.Account().PublicKey().Bytes()
		}
		tx = g.tx(sa, g.hash(nativenames.Neo), "vote", a.ScriptHash(), target)
	case "policy":
		switch g.R.Intn(6) {
		case 0:
			tx = g.tx(com, g.hash(nativenames.Policy), "setFeePerByte", int64(500+g.R.Intn(1500)))
		case 1:
			tx = g.tx(com, g.hash(nativenames.Policy), "setExecFeeFactor", int64(10+g.R.Intn(40)))
		case 2:
			tx = g.tx(com, g.hash(nativenames.Policy), "setStoragePrice", int64(50000+g.R.Intn(100000)))
		case 3:
			_, b := g.acct()
			tx = g.tx(com, g.hash(nativenames.Policy), "blockAccount", b.ScriptHash())
		case 4:
			_, b := g.acct()
			tx = g.tx(com, g.hash(nativenames.Policy), "unblockAccount", b.ScriptHash())
		case 5:
			tx = g.tx(com, g.hash(nativenames.Neo), "setGasPerBlock", int64(1+g.R.Intn(9))*1_0000000)
		}
	case "wlfee":
		// whitelisted fixed fee of a scenario contract method: set, re-set with another fee while still set, remove
		var live []util.Uint160
		for _, h := range g.KVs {
			if g.BC.GetContractState(h) != nil {
				live = append(live, h)
			}
		}
		if len(live) == 0 {
			return nil
		}
		ms := [][2]any{{"put", int64(2)}, {"del", int64(1)}, {"putMany", int64(3)}, {"notify", int64(1)}}
		m, kv := ms[g.R.Intn(len(ms))], live[g.R.Intn(len(live))]
		switch x := g.R.Intn(10); {
		case x < 5: // concentrate on one method so that a fee gets re-set while whitelisted
			m, kv = ms[0], live[0]
		case x < 8 && len(live) > 1:
			// several contracts whose order by hash and order by method offset disagree: the contract with the
			// lower hash gets its method with the highest offset, the other one its method with the lowest offset
			lo, hi := live[0], live[1+g.R.Intn(len(live)-1)]
			if lo.Compare(hi) > 0 {
				lo, hi = hi, lo
			}
			kv = lo
			if g.R.Intn(2) == 0 {
				kv = hi
			}
			best := -1
			for _, c := range ms {
				md := g.BC.GetContractState(kv).Manifest.ABI.GetMethod(c[0].(string), int(c[1].(int64)))
				if md == nil {
					continue
				}
				if best < 0 || (kv == lo && md.Offset > best) || (kv == hi && md.Offset < best) {
					best, m = md.Offset, c
				}
			}
		}
		if g.R.Intn(5) == 0 {
			tx = g.tx(com, g.hash(nativenames.Policy), "removeWhitelistFeeContract", kv, m[0], m[1])
		} else {
			tx = g.tx(com, g.hash(nativenames.Policy), "setWhitelistFeeContract", kv, m[0], m[1], int64(1+g.R.Intn(5))*1_0000000)
		}
	case "role":
		roles := []noderoles.Role{noderoles.StateValidator, noderoles.Oracle, noderoles.P2PNotary, noderoles.NeoFSAlphabet, noderoles.Oracle}
		n := 1 + g.R.Intn(3)
		var ks []any
		for j := 0; j < n; j++ {
			ks = append(ks, g.Accts[(i+j)%len(g.Accts)].Account().PublicKey().Bytes())
		}
		tx = g.tx(com, g.hash(nativenames.Designation), "designateAsRole", int64(roles[g.R.Intn(len(roles))]), ks)
	case "deploy":
		if len(g.KVs) >= 6 {
			return nil
		}
		g.nvar++
		c := KV(g.T, a.ScriptHash(), g.nvar, g.nvar)
		tx = g.safeDeploy(a, c)
		if tx != nil {
			g.KVs = append(g.KVs, c.Hash)
			g.kvName[c.Hash] = g.nvar
			g.AllKVs = append(g.AllKVs, c.Hash)
		}
	case "update":
		if len(g.KVs) == 0 {
			return nil
		}
		g.nvar++
		target := g.KVs[g.R.Intn(len(g.KVs))]
		c := KV(g.T, a.ScriptHash(), g.nvar, g.kvName[target])
		nb, err1 := c.NEF.Bytes()
		mb, err2 := jsonManifest(c)
		if err1 != nil || err2 != nil {
			return nil
		}
		tx = g.tx(sa, target, "update", nb, mb)
	case "destroy":
		if len(g.KVs) < 2 {
			return nil
		}
		k := g.R.Intn(len(g.KVs))
		tx = g.tx(sa, g.KVs[k], "destroy")
		g.KVs = append(g.KVs[:k], g.KVs[k+1:]...)
	case "kvput", "kvdel", "kvmany", "kvfail", "kvtry", "notify":
		if len(g.KVs) == 0 {
			return nil
		}
		c := g.KVs[g.R.Intn(len(g.KVs))]
		switch kind {
		case "kvput":
			tx = g.tx(sa, c, "put", g.key(), g.val())
		case "kvdel":
			tx = g.tx(sa, c, "del", g.key())
		case "kvmany":
			if g.R.Intn(3) == 0 {
				tx = g.tx(sa, c, "delMany", g.key(), int64(1+g.R.Intn(20)))
			} else {
				tx = g.tx(sa, c, "putMany", g.key(), int64(1+g.R.Intn(20)), g.val())
			}
		case "kvfail":
			tx = g.tx(sa, c, "fail", g.key(), g.val())
		case "kvtry":
			tx = g.tx(sa, c, "tryFail", g.key(), g.val(), g.KVs[g.R.Intn(len(g.KVs))])
		case "notify":
			tx = g.tx(sa, c, "notify", int64(g.R.Intn(100)))
		}
	case "notary":
		till := int64(g.BC.BlockHeight()) + int64(3+g.R.Intn(20))
		_, b := g.acct()
		var to any = b.ScriptHash()
		if g.R.Intn(2) == 0 {
			to = nil
		}
		tx = g.tx(sa, g.hash(nativenames.Gas), "transfer", a.ScriptHash(), g.hash(nativenames.Notary), int64(1+g.R.Intn(30))*1_0000000, []any{to, till})
	case "notarylock":
		tx = g.tx(sa, g.hash(nativenames.Notary), "lockDepositUntil", a.ScriptHash(), int64(g.BC.BlockHeight())+int64(2+g.R.Intn(30)))
	case "notarywd":
		_, b := g.acct()
		tx = g.tx(sa, g.hash(nativenames.Notary), "withdraw", a.ScriptHash(), b.ScriptHash())
	case "kvspine":
		// a deep corner of the state trie: one long key with a key leaving it at every half-byte
		if len(g.KVs) == 0 || g.spines >= 3 {
			return nil
		}
		sp := make([]byte, 40+g.R.Intn(21))
		g.R.Read(sp)
		tx = g.tx(sa, g.KVs[g.R.Intn(len(g.KVs))], "putSpine", sp, g.val())
		if tx != nil {
			g.spines++
		}
	case "oraclereq":
		// a scenario contract asks the native Oracle for data; the request stays pending until an "oracleresp"
		// transaction (possibly much later: beyond MaxTraceableBlocks in the worlds where that is small) answers it
		if len(g.KVs) == 0 {
			return nil
		}
		c := g.KVs[g.R.Intn(len(g.KVs))]
		urls := []string{"https://a.example/1", "https://a.example/2", "https://b.example/x"}
		var filter, data any
		if g.R.Intn(3) == 0 {
			filter = []byte("$.f")
		}
		if g.R.Intn(5) == 0 {
			data = "throw"
		}
		tx = g.tx(sa, c, "oracleReq", urls[g.R.Intn(len(urls))], filter, data, int64(1+g.R.Intn(6))*5000_0000)
	case "oracleresp":
		tx = g.OracleResponse()
	case "ledger":
		// a contract looks at the ledger's past: blocks and transactions around the traceability horizon
		if len(g.KVs) == 0 || len(g.OldTxs) == 0 {
			return nil
		}
		c := g.KVs[g.R.Intn(len(g.KVs))]
		h := g.BC.BlockHeight()
		idx := int64(g.R.Intn(int(h) + 2))
		if mtb := int64(g.BC.GetConfig().MaxTraceableBlocks); g.R.Intn(2) == 0 && int64(h) > mtb {
			idx = int64(h) - mtb + int64(g.R.Intn(5)) - 2 // right at the horizon
		}
		old := g.OldTxs[g.R.Intn(len(g.OldTxs))]
		if g.R.Intn(2) == 0 {
			old = g.OldTxs[g.R.Intn(1+len(g.OldTxs)/8)] // one of the oldest
		}
		m := "ledgerProbe"
		if g.NoVMStateProbe {
			m = "ledgerProbe2"
		}
		tx = g.tx(sa, c, m, idx, old.BytesBE())
		if g.R.Intn(3) == 0 {
			// a transaction of the block by position: positions at and beyond the end, blocks at and beyond the horizon
			tx = g.tx(sa, c, "ledgerProbe3", idx, int64(g.R.Intn(4)))
		}
	case "natcfg":
		switch g.R.Intn(5) {
		case 0:
			tx = g.tx(com, g.hash(nativenames.Oracle), "setPrice", int64(1+g.R.Intn(9))*1000_0000)
		case 1:
			tx = g.tx(com, g.hash(nativenames.Notary), "setMaxNotValidBeforeDelta", int64(20+g.R.Intn(100)))
		case 2:
			tx = g.tx(com, g.hash(nativenames.Policy), "setAttributeFee", int64([]transaction.AttrType{transaction.HighPriority, transaction.OracleResponseT, transaction.NotValidBeforeT, transaction.ConflictsT, transaction.NotaryAssistedT}[g.R.Intn(5)]), int64(g.R.Intn(5))*100_0000)
		case 3:
			tx = g.tx(com, g.hash(nativenames.Management), "setMinimumDeploymentFee", int64(5+g.R.Intn(10))*1_0000_0000)
		case 4:
			tx = g.tx(com, g.hash(nativenames.Neo), "setRegisterPrice", int64(3+g.R.Intn(5))*1_0000_0000)
		}
	}
	if tx != nil {
		g.Stats[kind]++
	}
	return tx
}

func jsonManifest(c *neotest.Contract) ([]byte, error) {
	return jsonMarshal(c.Manifest)
}

func (g *Gen) safeDeploy(a neotest.SingleSigner, c *neotest.Contract) (tx *transaction.Transaction) {
	defer func() {
		if r := recover(); r != nil {
			tx = nil
		}
	}()
	nb, err := c.NEF.Bytes()
	if err != nil {
		return nil
	}
	mb, err := jsonMarshal(c.Manifest)
	if err != nil {
		return nil
	}
	return g.tx([]neotest.Signer{a}, g.hash(nativenames.Management), "deploy", nb, mb)
}

// churnTx returns the scheduled life-cycle transaction of the Churn candidate for the next block, if any.
func (g *Gen) churnTx() *transaction.Transaction {
	sc := []neotest.Signer{g.Churn}
	pub := g.Churn.Account().PublicKey().Bytes()
	neo := g.hash(nativenames.Neo)
	sc2 := []neotest.Signer{g.Churn2}
	pub2 := g.Churn2.Account().PublicKey().Bytes()
	switch (g.BC.BlockHeight() + 1) % 26 {
	case 5:
		return g.tx(sc2, neo, "registerCandidate", pub2)
	case 6:
		return g.tx(sc2, neo, "vote", g.Churn2.ScriptHash(), pub2)
	case 10:
		return g.tx(sc2, neo, "unregisterCandidate", pub2) // still voted for: the record stays
	case 21:
		return g.tx(sc2, neo, "registerCandidate", pub2) // quiet epoch: nothing else touches votes until the refresh
	case 3, 17:
		g.Stats["churn"]++
		return g.tx(sc, neo, "registerCandidate", pub)
	case 4, 18:
		return g.tx(sc, neo, "vote", g.Churn.ScriptHash(), pub)
	case 13:
		return g.tx(sc, neo, "vote", g.Churn.ScriptHash(), nil)
	case 14:
		return g.tx(sc, neo, "unregisterCandidate", pub)
	}
	return nil
}

// NextTxs builds up to max transactions valid together (filtered through the reference node's own mempool).
func (g *Gen) NextTxs(max int) []*transaction.Transaction {
	if g.IsQuiet(g.BC.BlockHeight() + 1) {
		return nil
	}
	var cand []*transaction.Transaction
	if g.BC.BlockHeight() == 0 {
		cand = g.Bootstrap()
	} else if g.BC.BlockHeight() == 1 {
		cand = g.Bootstrap2()
	} else {
		n := g.R.Intn(max + 1)
		for len(cand) < n {
			if tx := g.one(); tx != nil {
				cand = append(cand, tx)
			} else if g.R.Intn(4) == 0 {
				break
			}
		}
	}
	if tx := g.churnTx(); tx != nil {
		cand = append(cand, tx)
	}
	if (g.BC.BlockHeight()+1)%8 == 1 && g.BC.BlockHeight() > 4 && g.spines < 3 && len(g.KVs) > 0 {
		_, a := g.acct()
		sp := make([]byte, 40+g.R.Intn(21))
		g.R.Read(sp)
		if tx := g.tx([]neotest.Signer{a}, g.KVs[g.R.Intn(len(g.KVs))], "putSpine", sp, g.val()); tx != nil {
			cand = append(cand, tx)
			g.spines++
			g.Stats["kvspine"]++
		}
	}
	if f := g.Script[g.BC.BlockHeight()+1]; f != nil {
		if tx := f(); tx != nil {
			cand = append([]*transaction.Transaction{tx}, cand...)
			g.Stats["scripted"]++
		}
	}
	var txs []*transaction.Transaction
	for _, tx := range cand {
		if tx == nil {
			continue
		}
		if err := g.BC.PoolTx(tx); err == nil {
			txs = append(txs, tx)
		} else {
			g.Stats["rejected"]++
		}
	}
	return txs
}

// NextBlock generates, adds to the reference chain and returns the next block.
func (g *Gen) NextBlock(maxTx int) (*block.Block, error) {
	txs := g.NextTxs(maxTx)
	b, err := g.Net.NewBlock(g.BC, uint64(1+g.R.Intn(3)), txs...)
	if err != nil {
		return nil, err
	}
	if err := g.BC.AddBlock(b); err != nil {
		return nil, fmt.Errorf("reference chain rejected generated block %d: %w", b.Index, err)
	}
	g.Harvest(b)
	return b, nil
}

// IsQuiet tells whether block h belongs to the stretch of empty blocks.
func (g *Gen) IsQuiet(h uint32) bool { return g.QuietFrom != 0 && h >= g.QuietFrom && h <= g.QuietTo }

// harvest remembers what later transactions refer to: transaction hashes, oracle requests made and answered.
func (g *Gen) Harvest(b *block.Block) {
	orc := g.hash(nativenames.Oracle)
	for _, tx := range b.Transactions {
		if len(g.OldTxs) < 4000 {
			g.OldTxs = append(g.OldTxs, tx.Hash())
			if g.TxHeight == nil {
				g.TxHeight = map[util.Uint256]uint32{}
			}
			g.TxHeight[tx.Hash()] = b.Index
		}
		for _, a := range tx.GetAttributes(transaction.OracleResponseT) {
			id := a.Value.(*transaction.OracleResponse).ID
			if k := slices.Index(g.PendingOracle, id); k >= 0 {
				g.PendingOracle = slices.Delete(g.PendingOracle, k, k+1)
				g.Answered = append(g.Answered, id)
			}
		}
		aers, err := g.BC.GetAppExecResults(tx.Hash(), trigger.Application)
		if err != nil {
			continue
		}
		for _, aer := range aers {
			if aer.VMState != vmstate.Halt {
				continue
			}
			for _, ev := range aer.Events {
				if ev.ScriptHash == orc && ev.Name == "OracleRequest" {
					if arr := ev.Item.Value().([]stackitem.Item); len(arr) > 0 {
						if id, err := arr[0].TryInteger(); err == nil {
							g.PendingOracle = append(g.PendingOracle, id.Uint64())
							if g.reqHeight == nil {
								g.reqHeight = map[uint64]uint32{}
							}
							g.reqHeight[id.Uint64()] = b.Index
							if g.ReqTx == nil {
								g.ReqTx = map[uint64]util.Uint256{}
							}
							g.ReqTx[id.Uint64()] = tx.Hash()
						}
					}
				}
			}
		}
	}
}

// oracleResponse builds the response transaction for a pending request (sometimes for an answered or unknown one,
// which the pool must refuse) the way the oracle service does: the native Oracle contract pays from the prepaid GAS,
// the designated oracle nodes co-sign with their majority multisignature.
func (g *Gen) OracleResponse() (tx *transaction.Transaction) {
	defer func() {
		if r := recover(); r != nil {
			tx = nil
		}
	}()
	var id uint64
	switch x := g.R.Intn(12); {
	case x == 0 && len(g.Answered) > 0:
		id = g.Answered[g.R.Intn(len(g.Answered))]
	case x == 1:
		id = uint64(1000 + g.R.Intn(10))
	case len(g.PendingOracle) == 0:
		return nil
	default:
		// every third request is a slow one: where the traceability horizon is near, it is answered only after the
		// requesting transaction has left it
		var ready []uint64
		mtb := g.BC.GetConfig().MaxTraceableBlocks
		for _, p := range g.PendingOracle {
			if p%3 == 0 && mtb < 100 && g.BC.BlockHeight() < g.reqHeight[p]+mtb+2 && !g.AvoidOldOracle {
				continue
			}
			if g.AvoidOldOracle && g.BC.BlockHeight()+4 > g.reqHeight[p]+mtb {
				continue
			}
			ready = append(ready, p)
		}
		if len(ready) == 0 {
			return nil
		}
		id = ready[g.R.Intn(len(ready))]
		if x < 6 {
			id = ready[0] // the oldest one
		}
	}
	pubs, _, err := g.BC.GetDesignatedByRole(noderoles.Oracle)
	if err != nil || len(pubs) == 0 {
		return nil
	}
	known := map[string]*keys.PrivateKey{}
	for i := range g.Accts {
		k := chainkit.Key(fmt.Sprintf("acct-%d", i))
		known[string(k.PublicKey().Bytes())] = k
	}
	m := smartcontract.GetDefaultHonestNodeCount(len(pubs))
	var accs []*wallet.Account
	for _, p := range pubs {
		if k, ok := known[string(p.Bytes())]; ok {
			a := wallet.NewAccountFromPrivateKey(k)
			if err := a.ConvertMultisig(m, slices.Clone(pubs)); err != nil {
				return nil
			}
			accs = append(accs, a)
		}
	}
	if len(accs) < m {
		return nil
	}
	nodes := neotest.NewMultiSigner(accs...)
	orc := g.hash(nativenames.Oracle)
	resp := &transaction.OracleResponse{ID: id, Code: transaction.Success, Result: g.val()}
	if g.R.Intn(4) == 0 {
		resp.Code = []transaction.OracleResponseCode{transaction.NotFound, transaction.Timeout, transaction.Forbidden, transaction.Error}[g.R.Intn(4)]
		resp.Result = nil
	}
	tx = transaction.New(native.CreateOracleResponseScript(orc), 0)
	tx.Nonce = uint32(id)<<8 + uint32(g.R.Intn(256))
	tx.ValidUntilBlock = g.BC.BlockHeight() + g.vubInc()
	tx.Attributes = []transaction.Attribute{{Type: transaction.OracleResponseT, Value: resp}}
	tx.Signers = []transaction.Signer{{Account: orc, Scopes: transaction.None}, {Account: nodes.ScriptHash(), Scopes: transaction.None}}
	// fees: together exactly what the request prepaid; the network part generously covers size and both witnesses
	total := int64(5000_0000) * int64(1+g.R.Intn(6))
	if cs := g.BC.GetContractState(orc); cs != nil && g.R.Intn(8) != 0 {
		key := append([]byte{7}, make([]byte, 8)...)
		binary.BigEndian.PutUint64(key[1:], id)
		if si := g.BC.GetStorageItem(cs.ID, key); si != nil {
			var req state.OracleRequest
			if it, err := stackitem.Deserialize(si); err == nil && req.FromStackItem(it) == nil {
				total = int64(req.GasForResponse) // exactly what was prepaid (the usual case)
			}
		}
	}
	tx.NetworkFee = 2500_0000 + int64(g.R.Intn(3))*500_0000
	tx.SystemFee = total - tx.NetworkFee
	tx.Scripts = []transaction.Witness{{InvocationScript: []byte{}, VerificationScript: []byte{}},
		{InvocationScript: nodes.SignHashable(uint32(g.BC.GetConfig().Magic), tx), VerificationScript: nodes.Script()}}
	return tx
}

var _ = big.NewInt

// Committee returns the signers of a committee-only transaction (an ordinary payer + the CURRENT committee's majority
// multisignature).
func (g *Gen) Committee() []neotest.Signer { return g.committee() }

// Tx and SafeDeploy are the exported forms of the transaction builders (probes and scenario drivers).
func (g *Gen) Tx(signers []neotest.Signer, h util.Uint160, method string, args ...any) *transaction.Transaction {
	return g.tx(signers, h, method, args...)
}
func (g *Gen) SafeDeploy(a neotest.SingleSigner, c *neotest.Contract) *transaction.Transaction {
	return g.safeDeploy(a, c)
}

// ScriptOldOracle schedules the life-cycle "deploy, designate an oracle node, request at block 5, answer at block
// answerAt" (the request is a slow one: nothing answers it earlier where the traceability horizon is near).
// ScriptLedgerProbes scripts, for every height in [from, to] that has no scripted step yet, a contract call looking at a
// block (and a transaction of it, by position, positions beyond its end included) far below the traceability horizon.
func (g *Gen) ScriptLedgerProbes(from, to uint32) {
	if g.Script == nil {
		g.Script = map[uint32]func() *transaction.Transaction{}
	}
	for h := from; h <= to; h++ {
		if g.Script[h] != nil {
			continue
		}
		g.Script[h] = func() *transaction.Transaction {
			if len(g.KVs) == 0 {
				return nil
			}
			_, a := g.acct()
			c := g.KVs[g.R.Intn(len(g.KVs))]
			idx := int64(1 + g.R.Intn(40))
			if g.R.Intn(2) == 0 || len(g.OldTxs) == 0 {
				return g.tx([]neotest.Signer{a}, c, "ledgerProbe3", idx, int64(g.R.Intn(6)))
			}
			old := g.OldTxs[g.R.Intn(1+len(g.OldTxs)/8)]
			return g.tx([]neotest.Signer{a}, c, "ledgerProbe2", idx, old.BytesBE())
		}
	}
}

func (g *Gen) ScriptOldOracle(answerAt uint32) {
	a := g.Accts[0]
	g.Script = map[uint32]func() *transaction.Transaction{
		3: func() *transaction.Transaction {
			g.nvar++
			c := KV(g.T, a.ScriptHash(), g.nvar, g.nvar)
			tx := g.safeDeploy(a, c)
			if tx != nil {
				g.KVs = append(g.KVs, c.Hash)
				g.kvName[c.Hash] = g.nvar
				g.AllKVs = append(g.AllKVs, c.Hash)
			}
			return tx
		},
		4: func() *transaction.Transaction {
			return g.tx(g.committee(), g.hash(nativenames.Designation), "designateAsRole", int64(noderoles.Oracle), []any{a.Account().PublicKey().Bytes()})
		},
		5: func() *transaction.Transaction {
			if len(g.KVs) == 0 {
				return nil
			}
			return g.tx([]neotest.Signer{a}, g.KVs[0], "oracleReq", "https://a.example/old", nil, nil, int64(1_0000_0000))
		},
	}
	if answerAt == 0 {
		return
	}
	g.Script[answerAt] = func() *transaction.Transaction {
		for i := 0; i < 40; i++ {
			if tx := g.OracleResponse(); tx != nil && len(g.PendingOracle) > 0 && tx.Attributes[0].Value.(*transaction.OracleResponse).ID == g.PendingOracle[0] {
				return tx
			}
		}
		return nil
	}
}
