// Package vh holds the small amount of plumbing shared by all drivers: environment, NDJSON trace
// writer and the result.json contract with tools/vlib.py.
package vh

import (
	"bufio"
	"crypto/sha1"
	"encoding/hex"
	"encoding/json"
	"fmt"
	"math/rand"
	"os"
	"path/filepath"
	"reflect"
	"strconv"
	"sync"
)

// Violation is a property violation exhibited by the real code.
type Violation struct {
	Signature map[string]any `json:"signature"`
	What      string         `json:"what"`
	Replay    any            `json:"replay,omitempty"`
}

// Result is what a driver reports back to the runner.
type Result struct {
	mu          sync.Mutex
	Evaluations int            `json:"evaluations"`
	Distinct    []string       `json:"distinct_hashes"`
	Samples     []any          `json:"samples"`
	Violations  []Violation    `json:"violations"`
	Drift       []any          `json:"drift"`
	Stats       map[string]any `json:"stats"`
	Traces      int            `json:"traces"`
	seen        map[string]bool
}

func NewResult() *Result {
	return &Result{Stats: map[string]any{}, seen: map[string]bool{}}
}

// Count registers one evaluated case; key identifies it for the distinct count.
func (r *Result) Count(key any) {
	r.mu.Lock()
	defer r.mu.Unlock()
	r.Evaluations++
	b, _ := json.Marshal(key)
	h := sha1.Sum(b)
	s := hex.EncodeToString(h[:8])
	if !r.seen[s] {
		r.seen[s] = true
		if len(r.Distinct) < 200000 {
			r.Distinct = append(r.Distinct, s)
		}
	}
}

func (r *Result) Sample(s any) {
	r.mu.Lock()
	defer r.mu.Unlock()
	if len(r.Samples) < 4 {
		r.Samples = append(r.Samples, s)
	}
}

func (r *Result) Violate(sig map[string]any, what string, replay any) {
	r.mu.Lock()
	defer r.mu.Unlock()
	if len(r.Violations) < 50 {
		r.Violations = append(r.Violations, Violation{Signature: sig, What: what, Replay: replay})
	}
}

func (r *Result) AddDrift(d any) {
	r.mu.Lock()
	defer r.mu.Unlock()
	if len(r.Drift) < 20 {
		r.Drift = append(r.Drift, d)
	}
}

func (r *Result) Inc(stat string, n int) {
	r.mu.Lock()
	defer r.mu.Unlock()
	v, _ := r.Stats[stat].(int)
	r.Stats[stat] = v + n
}

func (r *Result) Write() error {
	b, err := json.MarshalIndent(r, "", " ")
	if err != nil {
		return err
	}
	return os.WriteFile(filepath.Join(OutDir(), "result.json"), b, 0o644)
}

func OutDir() string {
	d := os.Getenv("VERIF_OUT")
	if d == "" {
		d = filepath.Join(os.TempDir(), "verif-out")
	}
	_ = os.MkdirAll(d, 0o755)
	return d
}

func InDir() string { return os.Getenv("VERIF_IN") }

func Seed() int64 {
	s, err := strconv.ParseInt(os.Getenv("VERIF_SEED"), 10, 64)
	if err != nil {
		return 1
	}
	return s
}

func Rand(stream int64) *rand.Rand { return rand.New(rand.NewSource(Seed()*1000003 + stream)) }

func Thorough() bool { return os.Getenv("VERIF_TIER") == "thorough" }

// EnvInt reads an integer parameter passed by the runner.
func EnvInt(name string, def int) int {
	v, err := strconv.Atoi(os.Getenv(name))
	if err != nil {
		return def
	}
	return v
}

// Trace is an NDJSON writer.
type Trace struct {
	mu sync.Mutex
	f  *os.File
	w  *bufio.Writer
	N  int
}

func NewTrace(name string) *Trace {
	f, err := os.Create(filepath.Join(OutDir(), name))
	if err != nil {
		panic(err)
	}
	return &Trace{f: f, w: bufio.NewWriterSize(f, 1<<20)}
}

func (t *Trace) Emit(ev map[string]any) {
	// JSON null cannot be read back by TLC's Json module: nil slices/maps become empty ones
	for k, v := range ev {
		if v == nil {
			delete(ev, k)
			continue
		}
		rv := reflect.ValueOf(v)
		if (rv.Kind() == reflect.Slice || rv.Kind() == reflect.Map) && rv.IsNil() {
			if rv.Kind() == reflect.Slice {
				ev[k] = []any{}
			} else {
				ev[k] = map[string]any{}
			}
		}
	}
	b, err := json.Marshal(ev)
	if err != nil {
		panic(fmt.Sprintf("trace marshal: %v", err))
	}
	t.mu.Lock()
	t.w.Write(b)
	t.w.WriteByte('\n')
	t.N++
	t.mu.Unlock()
}

func (t *Trace) Close() {
	t.w.Flush()
	t.f.Close()
}

// ReadJSON loads a JSON file from the input directory.
func ReadJSON(name string, v any) error {
	b, err := os.ReadFile(filepath.Join(InDir(), name))
	if err != nil {
		return err
	}
	return json.Unmarshal(b, v)
}
