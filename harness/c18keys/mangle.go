//go:build verif

package c18keys

// Manglings of signatures, serialized keys and strings: what the terms Alter / Mangle* of KeyAlgebra.tla stand for.
// Each is a deterministic function of the source, the way of mangling and a variant number; nothing here uses the code
// under test (Base58 and checksums are the reference ones of ref.go).

import (
	"math/big"
)

func cp(b []byte) []byte { return append([]byte{}, b...) }

func mangleSig(sig []byte, how string, curve string, variant int) []byte {
	out := cp(sig)
	switch how {
	case "bitflip":
		if len(out) == 0 {
			return []byte{1}
		}
		bit := variant % (len(out)*8 - 1) // never the very last bit: that is "lastbit"
		out[bit/8] ^= 0x80 >> (bit % 8)
	case "lastbit":
		if len(out) == 0 {
			return []byte{1}
		}
		switch variant % 3 {
		case 0:
			out[len(out)-1] ^= 1
		case 1:
			out[len(out)-1] ^= 0xff
		default:
			out[len(out)-1] ^= 0x80
		}
	case "trunc":
		cut := []int{1, 32, 63, 64}[variant%4]
		if cut > len(out) {
			cut = len(out)
		}
		out = out[:len(out)-cut]
	case "ext":
		switch variant % 4 {
		case 0:
			out = append(out, 0)
		case 1:
			out = append(out, 1)
		case 2:
			out = append([]byte{0}, out...)
		default:
			out = append(out, out...)
		}
	case "highS":
		if len(out) != 64 {
			return out
		}
		n := refCurveOf(curve).N
		s := new(big.Int).SetBytes(out[32:])
		s.Sub(n, s)
		s.Mod(s, n)
		s.FillBytes(out[32:])
	}
	return out
}

// an abscissa near x that is on neither curve
func offBothCurves(x *big.Int) *big.Int {
	t := new(big.Int).Set(x)
	for {
		t.Add(t, big.NewInt(1))
		if t.BitLen() > 255 {
			t.SetInt64(5)
		}
		if refP256.liftX(t, 0) == nil && refK256.liftX(t, 0) == nil {
			return t
		}
	}
}

func manglePub(b []byte, how string, curve string, variant int) []byte {
	out := cp(b)
	c := refCurveOf(curve)
	comp := len(b) == 33
	switch how {
	case "prefix":
		alts := []byte{0x05, 0x06, 0x07, 0x01, 0xff, 0x08}
		if comp {
			alts = append(alts, 0x04) // uncompressed prefix on 33 bytes
		} else {
			alts = append(alts, 0x02, 0x03) // compressed prefix followed by 64 bytes
		}
		out[0] = alts[variant%len(alts)]
	case "infinity":
		switch variant % 3 {
		case 0:
			out = []byte{0}
		case 1:
			out[0] = 0
		default:
			out = make([]byte, len(b))
		}
	case "trunc":
		cut := []int{1, 2, len(b) - 1, len(b)}[variant%4]
		out = out[:len(out)-cut]
	case "ext":
		if variant%2 == 0 {
			out = append(out, 0)
		} else {
			out = append(out, out[1:]...)
		}
	case "offcurve":
		if comp {
			offBothCurves(new(big.Int).SetBytes(b[1:])).FillBytes(out[1:])
		} else {
			switch variant % 3 {
			case 0:
				out[64] ^= 1
			case 1: // (X, X)
				copy(out[33:], out[1:33])
			default: // the ordinate of the OTHER parity class does not exist: swap X and Y
				copy(out[1:33], b[33:])
				copy(out[33:], b[1:33])
			}
		}
	case "bigx":
		// an abscissa above the field primes of BOTH curves that reduces, on the source curve, to the abscissa of a point
		var x, t *big.Int
		for j := int64(1); ; j++ {
			x = new(big.Int).Add(refK256.P, big.NewInt(j))
			t = new(big.Int).Mod(x, c.P)
			if c.liftX(t, 0) != nil {
				break
			}
		}
		x.FillBytes(out[1:33])
		if !comp {
			c.liftX(t, uint(b[64]&1)).FillBytes(out[33:])
		}
	case "xflip":
		bit := variant % 256
		out[1+bit/8] ^= 0x80 >> (bit % 8)
	}
	return out
}

func manglePriv(b []byte, how string, variant int) []byte {
	if how == "short" {
		n := []int{31, 16, 0, 1}[variant%4]
		return cp(b[:n])
	}
	if variant%2 == 0 {
		return append(cp(b), 0)
	}
	return append(cp(b), b...)
}

// withChecksum encodes a payload as a Base58Check string
func withChecksum(payload []byte) string { return refBase58Check(payload) }

// payloadOf decodes a Base58Check string WITHOUT verifying it (the last four bytes are dropped)
func payloadOf(s string) []byte {
	raw, ok := refBase58Decode(s)
	if !ok || len(raw) < 4 {
		return nil
	}
	return raw[:len(raw)-4]
}

func badsum(s string, variant int) string {
	raw, _ := refBase58Decode(s)
	raw = cp(raw)
	raw[len(raw)-1-variant%4] ^= byte(1 << (variant % 8))
	return refBase58(raw)
}

func notB58(s string, variant int) string {
	bad := []string{"0", "O", "I", "l", " ", "+", "é", "\x00"}
	i := variant % len(s)
	return s[:i] + bad[variant%len(bad)] + s[i+1:]
}

func charChange(s string, variant int) string {
	i := variant % len(s)
	j := (variant / len(s)) % 57
	k := 0
	for ; k < 58; k++ {
		if b58alphabet[k] == s[i] {
			break
		}
	}
	n := (k + 1 + j) % 58
	return s[:i] + string(b58alphabet[n]) + s[i+1:]
}

func mangleWif(s string, how string, variant int) string {
	p := payloadOf(s) // version, key, [01]
	switch how {
	case "badsum":
		return badsum(s, variant)
	case "badflag":
		q := cp(p[:33])
		q = append(q, []byte{0x00, 0x02, 0xff, 0x81}[variant%4])
		return withChecksum(q)
	case "short":
		return withChecksum(cp(p[:[]int{32, 1, 17, 0}[variant%4]]))
	case "long":
		q := append(cp(p[:33]), 0x01)
		if variant%2 == 0 {
			return withChecksum(append(q, 0x00))
		}
		return withChecksum(append(q, 0x01, 0x01))
	case "notb58":
		return notB58(s, variant)
	}
	return charChange(s, variant)
}

func mangleNep(s string, how string, variant int) string {
	p := cp(payloadOf(s)) // 01 42 e0 salt(4) body(32)
	switch how {
	case "badsum":
		return badsum(s, variant)
	case "hdr":
		if variant%2 == 0 {
			p[0] ^= byte(1 + variant%5)
		} else {
			p[1] ^= byte(1 + variant%5)
		}
		return withChecksum(p)
	case "flag":
		p[2] = []byte{0xc0, 0xe1, 0x00, 0xff}[variant%4]
		return withChecksum(p)
	case "short":
		return withChecksum(p[:[]int{38, 7, 3, 0}[variant%4]])
	case "long":
		return withChecksum(append(p, byte(variant)))
	case "notb58":
		return notB58(s, variant)
	case "salt":
		p[3+variant%4] ^= byte(1 << (variant % 8))
		return withChecksum(p)
	case "body":
		p[7+variant%32] ^= byte(1 << (variant % 8))
		return withChecksum(p)
	}
	return charChange(s, variant)
}

func mangleAddr(s string, how string, variant int) string {
	p := cp(payloadOf(s)) // 35 hash(20)
	switch how {
	case "badsum":
		return badsum(s, variant)
	case "short":
		return withChecksum(p[:[]int{20, 1, 11, 0}[variant%4]])
	case "long":
		return withChecksum(append(p, byte(variant)))
	case "prefix":
		p[0] = []byte{0x17, 0x00, 0x36, 0xff}[variant%4]
		return withChecksum(p)
	}
	return charChange(s, variant)
}
