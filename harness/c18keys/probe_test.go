//go:build verif

package c18keys

import (
	"crypto/elliptic"
	"crypto/sha256"
	"fmt"
	"math/big"
	"testing"
	"time"

	"github.com/decred/dcrd/dcrec/secp256k1/v4"
	"github.com/nspcc-dev/neo-go/pkg/crypto/keys"
	"golang.org/x/text/unicode/norm"
	"golang.org/x/crypto/ripemd160"
	xscrypt "golang.org/x/crypto/scrypt"
)

func TestProbe(t *testing.T) {
	_ = ripemd160.New
	_ = xscrypt.Key
	fmt.Println(norm.NFC.String("Å") == "Å")
	b := make([]byte, 32)
	b[31] = 1
	k, err := keys.NewPrivateKeyFromBytes(b)
	fmt.Println(err)
	msg := []byte("hello")
	t0 := time.Now()
	var sig []byte
	for i := 0; i < 100; i++ {
		sig = k.Sign(msg)
	}
	fmt.Println("sign r1", time.Since(t0)/100)
	h := sha256.Sum256(msg)
	t0 = time.Now()
	for i := 0; i < 100; i++ {
		if !k.PublicKey().Verify(sig, h[:]) {
			t.Fatal("verify")
		}
	}
	fmt.Println("verify r1", time.Since(t0)/100)
	// highS
	n := elliptic.P256().Params().N
	s := new(big.Int).SetBytes(sig[32:])
	s.Sub(n, s)
	hs := append([]byte{}, sig[:32]...)
	hs = append(hs, s.FillBytes(make([]byte, 32))...)
	fmt.Println("highS twin accepted r1:", k.PublicKey().Verify(hs, h[:]), "orig s low:", new(big.Int).SetBytes(sig[32:]).Cmp(new(big.Int).Rsh(n, 1)) <= 0)
	// k1
	c := secp256k1.S256()
	x, y := c.ScalarBaseMult(b)
	var kk keys.PrivateKey
	kk.PrivateKey.PublicKey.Curve = c
	kk.PrivateKey.PublicKey.X, kk.PrivateKey.PublicKey.Y = x, y
	kk.D = new(big.Int).SetBytes(b)
	t0 = time.Now()
	for i := 0; i < 20; i++ {
		sig = kk.Sign(msg)
	}
	fmt.Println("sign k1", time.Since(t0)/20)
	t0 = time.Now()
	for i := 0; i < 20; i++ {
		if !kk.PublicKey().Verify(sig, h[:]) {
			t.Fatal("verify k1")
		}
	}
	fmt.Println("verify k1", time.Since(t0)/20)
	nk := c.Params().N
	s = new(big.Int).SetBytes(sig[32:])
	s.Sub(nk, s)
	hs = append([]byte{}, sig[:32]...)
	hs = append(hs, s.FillBytes(make([]byte, 32))...)
	fmt.Println("highS twin accepted k1:", kk.PublicKey().Verify(hs, h[:]))
	t0 = time.Now()
	e, err := keys.NEP2Encrypt(k, "pass", keys.NEP2ScryptParams())
	fmt.Println("nep2enc", time.Since(t0), e, err)
	t0 = time.Now()
	_, err = keys.NEP2Decrypt(e, "pass", keys.NEP2ScryptParams())
	fmt.Println("nep2dec", time.Since(t0), err)
	t0 = time.Now()
	e, err = keys.NEP2Encrypt(k, "pass", keys.ScryptParams{N: 2, R: 1, P: 1})
	fmt.Println("nep2enc cheap", time.Since(t0), e, err)
	pb := k.PublicKey().Bytes()
	t0 = time.Now()
	for i := 0; i < 1000; i++ {
		p := new(keys.PublicKey)
		if err := p.DecodeBytes(pb); err != nil {
			t.Fatal(err)
		}
	}
	fmt.Println("decode comp r1", time.Since(t0)/1000)
	ub := k.PublicKey().UncompressedBytes()
	t0 = time.Now()
	for i := 0; i < 1000; i++ {
		p := new(keys.PublicKey)
		if err := p.DecodeBytes(ub); err != nil {
			t.Fatal(err)
		}
	}
	fmt.Println("decode uncomp r1", time.Since(t0)/1000)
	// zero key etc
	z := make([]byte, 32)
	kz, err := keys.NewPrivateKeyFromBytes(z)
	fmt.Println("zero priv:", err, kz.PublicKey().X, kz.PublicKey().Y)
}
