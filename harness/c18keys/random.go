//go:build verif

package c18keys

// code -> spec: seeded random call sequences on the real API, recorded for spec/keys/KeysTrace.tla, and the exhaustive
// single-character / single-bit sweeps over encoded strings, serialized keys and signatures.

import (
	"encoding/hex"
	"math/big"
	"math/rand"

	"github.com/nspcc-dev/neo-go/pkg/crypto/keys"
)

type ev = map[string]any

// passphrase families: [0] is in NFC, [1] a byte-different spelling with the same NFC, [2] another passphrase
var passFamilies = [][3]string{
	{"p\u00e4ssw\u00f6rd", "pa\u0308sswo\u0308rd", "passwoerd"},                       // decomposed accents
	{"\u00c5ngstr\u00f6m", "\u212bngstro\u0308m", "Angstrom"},                         // ANGSTROM SIGN
	{"\ud55c\uae00 pass", "\u1112\u1161\u11ab\u1100\u1173\u11af pass", "\ud55c pass"}, // Hangul jamo
	{"q\u0323\u0307x", "q\u0307\u0323x", "q\u0307x"},                                  // stacked combining marks, reordered
	{"\u03a9mega\u00e9", "\u2126megae\u0301", "Omegae"},                               // OHM SIGN
	{"\u1e69tack", "s\u0307\u0323tack", "\u1e63tack"},                                 // two marks composing in two steps
	{"\u00e9", "e\u0301", "e"},                                                        // shortest
}

var plainPasses = []string{"", "city of zion", "MyL33tP@33w0rd", "我的密码", " ", "pass\x00word", "\U0001F511 key"}

type pooled struct {
	id string
	v  *value
	// provenance used by the driver only to pick sensible arguments (never told to the specification)
	curve string
}

type rseq struct {
	r       *rand.Rand
	sp      keys.ScryptParams
	events  []ev
	privs   []*pooled
	pubs    []*pooled
	sigs    []*pooled
	pbytes  []*pooled // serialized public keys (good and mangled)
	kbytes  []*pooled
	wifs    []*pooled
	neps    []*pooled
	msgs    [][]byte
	passes  []string
	signs   []signReq
	seenAlt map[string]bool
}

type signReq struct {
	D     string `json:"d"`
	Curve string `json:"curve"`
	Msg   string `json:"msg"`
	args  []string
}

func msgID(m []byte) string  { return shortID("Msg", m) }
func passID(p string) string { return shortID("Pass", []byte(p)) }

func (s *rseq) pick(pool []*pooled) *pooled {
	if len(pool) == 0 {
		return nil
	}
	if s.r.Intn(3) == 0 {
		return pool[len(pool)-1-s.r.Intn(min(3, len(pool)))]
	}
	return pool[s.r.Intn(len(pool))]
}

func (s *rseq) call(op string, args []string, v *value, extra ev) {
	e := ev{"event": "call", "op": op, "args": args, "ok": v.OK, "res": v.id(), "panic": v.Panic != ""}
	if v.Sort == "Bool" && v.OK {
		e["res"] = map[bool]string{true: "true", false: "false"}[v.Bool]
	}
	if op == "PubOf" || op == "DecPub" {
		e["rcurve"] = ""
		if v.OK {
			e["rcurve"] = curveName(v.Pub.Curve)
		}
	}
	for k, x := range extra {
		e[k] = x
	}
	s.events = append(s.events, e)
}

func (s *rseq) alter(sort, src, how string, hard bool, res string) {
	if s.seenAlt[res] {
		return
	}
	s.seenAlt[res] = true
	s.events = append(s.events, ev{"event": "alter", "sort": sort, "src": src, "how": how, "hard": hard, "res": res})
}

func randScalar(r *rand.Rand) []byte {
	for {
		b := make([]byte, 32)
		r.Read(b)
		switch r.Intn(8) {
		case 0:
			b[0], b[1], b[2] = 0, 0, 0
		case 1:
			return big.NewInt(int64(1 + r.Intn(3))).FillBytes(b)
		case 2:
			return new(big.Int).Sub(refP256.N, big.NewInt(int64(1+r.Intn(3)))).FillBytes(b)
		}
		d := new(big.Int).SetBytes(b)
		if d.Sign() > 0 && d.Cmp(refP256.N) < 0 {
			return b
		}
	}
}

func randMsg(r *rand.Rand) []byte {
	n := []int{0, 1, 31, 32, 33, 64, 100, 1000, 70000}[r.Intn(9)]
	b := make([]byte, n)
	r.Read(b)
	return b
}

func add(pool *[]*pooled, v *value, curve string) *pooled {
	p := &pooled{id: v.id(), v: v, curve: curve}
	*pool = append(*pool, p)
	return p
}

var (
	sigHows  = []string{"bitflip", "lastbit", "trunc", "ext", "highS"}
	pubHows  = []string{"prefix", "infinity", "trunc", "ext", "offcurve", "bigx", "xflip"}
	wifHows  = []string{"badsum", "badflag", "short", "long", "notb58", "char"}
	nepHows  = []string{"badsum", "hdr", "flag", "short", "long", "notb58", "salt", "body", "char"}
	privHows = []string{"short", "long"}
)

func newSeq(r *rand.Rand, sp keys.ScryptParams, steps int) *rseq {
	s := &rseq{r: r, sp: sp, seenAlt: map[string]bool{}}
	s.events = append(s.events, ev{"event": "init"})
	// passphrases of this sequence and their classes (x/text, not the code under test)
	fam := passFamilies[r.Intn(len(passFamilies))]
	s.passes = append(s.passes, fam[0], fam[1], fam[2], plainPasses[r.Intn(len(plainPasses))])
	if r.Intn(2) == 0 {
		f2 := passFamilies[r.Intn(len(passFamilies))]
		s.passes = append(s.passes, f2[1], f2[0])
	}
	declared := map[string]bool{}
	for _, p := range s.passes {
		if !declared[p] {
			declared[p] = true
			s.events = append(s.events, ev{"event": "sym", "id": passID(p), "norm": passID(refNFC(p))})
		}
	}
	for i := 0; i < 3; i++ {
		s.msgs = append(s.msgs, randMsg(r))
	}
	for i := 0; i < steps; i++ {
		s.step()
	}
	return s
}

func (s *rseq) step() {
	r := s.r
	switch op := r.Intn(20); {
	case op == 0 || len(s.privs) == 0: // a private key from bytes
		b := randScalar(r)
		in := &value{Sort: "PrivBytes", OK: true, Bytes: b}
		v := doDecPriv(b, r.Intn(2))
		s.call("DecPriv", []string{in.id()}, v, nil)
		if v.OK {
			add(&s.privs, v, "")
			add(&s.kbytes, in, "")
		}
	case op == 1:
		p := s.pick(s.privs)
		v := doEncPriv(p.v.Priv, r.Intn(2))
		s.call("EncPriv", []string{p.id}, v, nil)
		if v.OK {
			kb := add(&s.kbytes, v, "")
			how := privHows[r.Intn(2)]
			m := &value{Sort: "PrivBytes", OK: true, Bytes: manglePriv(v.Bytes, how, r.Intn(100))}
			s.alter("PrivBytes", kb.id, how, true, m.id())
			add(&s.kbytes, m, "")
		}
	case op == 2:
		b := s.pick(s.kbytes)
		v := doDecPriv(b.v.Bytes, r.Intn(2))
		s.call("DecPriv", []string{b.id}, v, nil)
		if v.OK {
			add(&s.privs, v, "")
		}
	case op <= 4:
		p := s.pick(s.privs)
		c := []string{"p256", "k256"}[r.Intn(2)]
		v := doPubOf(p.v.Priv, c)
		s.call("PubOf", []string{p.id, c}, v, nil)
		if v.OK {
			add(&s.pubs, v, c)
		}
	case op <= 7:
		p := s.pick(s.privs)
		c := []string{"p256", "k256"}[r.Intn(2)]
		if r.Intn(4) == 0 {
			s.msgs = append(s.msgs, randMsg(r))
		}
		m := s.msgs[r.Intn(len(s.msgs))]
		// the public key first: Verify is judged against it
		pv := doPubOf(p.v.Priv, c)
		s.call("PubOf", []string{p.id, c}, pv, nil)
		if pv.OK {
			add(&s.pubs, pv, c)
		}
		v := doSign(p.v.Priv, c, m, r.Intn(2))
		args := []string{p.id, c, msgID(m)}
		s.call("Sign", args, v, nil)
		if v.OK {
			sg := add(&s.sigs, v, c)
			s.signs = append(s.signs, signReq{D: hex.EncodeToString(p.v.Priv.Bytes()), Curve: c, Msg: hex.EncodeToString(m), args: args})
			how := sigHows[r.Intn(len(sigHows))]
			a := &value{Sort: "Sig", OK: true, Bytes: mangleSig(v.Bytes, how, c, r.Intn(100000))}
			s.alter("Sig", sg.id, how, how != "highS", a.id())
			add(&s.sigs, a, c)
			// verify right away: own signature, and the altered one
			for _, g := range []*pooled{sg, s.sigs[len(s.sigs)-1]} {
				s.call("Verify", []string{pv.id(), msgID(m), g.id}, doVerify(pv.Pub, m, g.v.Bytes), nil)
			}
		}
	case op <= 10:
		if len(s.pubs) == 0 || len(s.sigs) == 0 {
			return
		}
		p, g := s.pick(s.pubs), s.pick(s.sigs)
		m := s.msgs[r.Intn(len(s.msgs))]
		s.call("Verify", []string{p.id, msgID(m), g.id}, doVerify(p.v.Pub, m, g.v.Bytes), nil)
	case op == 11:
		if len(s.pubs) == 0 {
			return
		}
		p := s.pick(s.pubs)
		f := []string{"comp", "uncomp"}[r.Intn(2)]
		v := doEncPub(p.v.Pub, f, r.Intn(2))
		s.call("EncPub", []string{p.id, f}, v, nil)
		if v.OK {
			pb := add(&s.pbytes, v, p.curve)
			how := pubHows[r.Intn(len(pubHows))]
			m := &value{Sort: "PubBytes", OK: true, Bytes: manglePub(v.Bytes, how, curveName(p.v.Pub.Curve), r.Intn(100000))}
			s.alter("PubBytes", pb.id, how, how != "xflip", m.id())
			add(&s.pbytes, m, p.curve)
		}
	case op <= 13:
		if len(s.pbytes) == 0 {
			return
		}
		b := s.pick(s.pbytes)
		c := []string{"p256", "k256"}[r.Intn(2)]
		if r.Intn(3) > 0 && b.curve != "" {
			c = b.curve
		}
		v := doDecPub(b.v.Bytes, c, r.Intn(decPubVariants))
		s.call("DecPub", []string{b.id, c}, v, nil)
		if v.OK {
			add(&s.pubs, v, c)
		}
	case op == 14:
		p := s.pick(s.privs)
		fl, ver := []string{"c", "u"}[r.Intn(2)], []string{"v80", "v81"}[r.Intn(2)]
		v := doWIFEnc(p.v.Priv, fl, ver, r.Intn(2))
		s.call("WIFEnc", []string{p.id, fl, ver}, v, nil)
		if v.OK {
			w := add(&s.wifs, v, ver)
			how := wifHows[r.Intn(len(wifHows))]
			m := &value{Sort: "Wif", OK: true, Str: mangleWif(v.Str, how, r.Intn(100000))}
			s.alter("Wif", w.id, how, how != "char", m.id())
			add(&s.wifs, m, ver)
		}
	case op <= 16:
		if len(s.wifs) == 0 {
			return
		}
		w := s.pick(s.wifs)
		ver := w.curve
		if r.Intn(4) == 0 {
			ver = []string{"v80", "v81"}[r.Intn(2)]
		}
		s.callWIFDec(w, ver)
	case op == 17:
		p := s.pick(s.privs)
		pw := s.passes[r.Intn(len(s.passes))]
		v := doNEP2Enc(p.v.Priv, pw, s.sp)
		s.call("NEP2Enc", []string{p.id, passID(pw)}, v, nil)
		if v.OK {
			n := add(&s.neps, v, "")
			how := nepHows[r.Intn(len(nepHows))]
			m := &value{Sort: "Nep2", OK: true, Str: mangleNep(v.Str, how, r.Intn(100000))}
			s.alter("Nep2", n.id, how, how != "char", m.id())
			add(&s.neps, m, "")
			// open it at once with every spelling known in this sequence
			for _, q := range s.passes {
				s.call("NEP2Dec", []string{n.id, passID(q)}, doNEP2Dec(v.Str, q, s.sp), nil)
			}
		}
	default:
		if len(s.neps) == 0 {
			return
		}
		n := s.pick(s.neps)
		pw := s.passes[r.Intn(len(s.passes))]
		v := doNEP2Dec(n.v.Str, pw, s.sp)
		s.call("NEP2Dec", []string{n.id, passID(pw)}, v, nil)
		if v.OK {
			add(&s.privs, v, "")
		}
	}
}

func (s *rseq) callWIFDec(w *pooled, ver string) {
	v := doWIFDec(w.v.Str, ver, s.r.Intn(2))
	s.call("WIFDec", []string{w.id, ver}, v, nil)
	if v.OK {
		add(&s.privs, v, "")
	}
}

// addrEvent: verification script, script hash and address of a key against the reference constructions
func addrEvent(p *keys.PublicKey) (ev, string) {
	comp := refEncodePub(p.X, p.Y, true)
	e := ev{"event": "addr", "pub": shortID("Pub", pubCanon(p))}
	panics := ""
	sc, sh, ad := doVScript(p), doScriptHash(p), doAddress(p)
	for _, v := range []*value{sc, sh, ad} {
		if v.Panic != "" {
			panics = v.Panic
		}
	}
	if panics != "" {
		return nil, panics
	}
	rs := refVerificationScript(comp)
	rh := refHash160(sc.Bytes)
	e["script"], e["refscript"] = hex.EncodeToString(sc.Bytes), hex.EncodeToString(rs)
	e["sh"], e["refhash"] = hex.EncodeToString(sh.Bytes), hex.EncodeToString(rh)
	e["addr"], e["refaddr"] = ad.Str, refAddress(sh.Bytes)
	back := doAddrToSH(ad.Str)
	if back.Panic != "" {
		return nil, back.Panic
	}
	e["bok"] = back.OK
	e["back"] = hex.EncodeToString(back.Bytes)
	return e, ""
}

// ------------------------------------------------------------------ sweeps: EVERY single change

type sweep struct {
	Op, Src             string
	Tried, Same, Panics int
	Refused, Other      int
	Example             string
}

func (w *sweep) event() ev {
	return ev{"event": "sweep", "op": w.Op, "src": w.Src, "tried": w.Tried, "same": w.Same, "panics": w.Panics}
}

func (w *sweep) note(v *value, orig []byte, input string) {
	w.Tried++
	switch {
	case v.Panic != "":
		w.Panics++
		if w.Example == "" {
			w.Example = input + " panic: " + v.Panic
		}
	case !v.OK:
		w.Refused++
	case string(v.canon()) == string(orig):
		w.Same++
		if w.Example == "" {
			w.Example = input
		}
	default:
		w.Other++
	}
}

// every single-character change of a Base58 string
func sweepString(op, s string, orig []byte, dec func(string) *value) *sweep {
	w := &sweep{Op: op, Src: s}
	for i := 0; i < len(s); i++ {
		for k := 0; k < 58; k++ {
			if b58alphabet[k] == s[i] {
				continue
			}
			t := s[:i] + string(b58alphabet[k]) + s[i+1:]
			w.note(dec(t), orig, t)
		}
	}
	// and every deletion / doubling of one character
	for i := 0; i < len(s); i++ {
		w.note(dec(s[:i]+s[i+1:]), orig, "deleted")
		w.note(dec(s[:i]+s[i:i+1]+s[i:]), orig, "doubled")
	}
	return w
}

// every single-bit change, every truncation and one-byte extension of a byte string
func sweepBytes(op string, b []byte, orig []byte, dec func([]byte) *value) *sweep {
	w := &sweep{Op: op, Src: hex.EncodeToString(b)}
	for i := 0; i < len(b)*8; i++ {
		t := cp(b)
		t[i/8] ^= 0x80 >> (i % 8)
		w.note(dec(t), orig, hex.EncodeToString(t))
	}
	for n := 0; n < len(b); n++ {
		w.note(dec(cp(b[:n])), orig, "truncated")
	}
	for _, x := range []byte{0, 1, 0xff} {
		w.note(dec(append(cp(b), x)), orig, "extended")
		w.note(dec(append([]byte{x}, b...)), orig, "prefixed")
	}
	return w
}
