//go:build verif

package c18keys

// Enumerated cases (spec -> code): every term printed by KeyAlgebraEnum.tla is evaluated with the REAL functions under
// several instantiations of its symbols, and the outcome class and the equalities the normal forms induce are compared.

import (
	"bytes"
	"encoding/hex"
	"encoding/json"
	"fmt"
	"hash/fnv"
	"runtime"
	"sort"
	"strings"
	"sync"

	"verifharness/internal/vh"

	"github.com/nspcc-dev/neo-go/pkg/crypto/keys"
)

type ecase struct {
	T    json.RawMessage `json:"t"`
	Sort string          `json:"sort"`
	Cls  string          `json:"cls"`
	NF   json.RawMessage `json:"nf"`
	Why  string          `json:"why"`
}

type term struct {
	Op  string
	X   []targ // arguments in position order (after the operation symbol)
	Key string // canonical JSON
	N   int    // number of operation symbols
}

type targ struct {
	T *term
	S string
}

func parseTerm(raw json.RawMessage) (*term, error) {
	var parts []json.RawMessage
	if err := json.Unmarshal(raw, &parts); err != nil {
		return nil, err
	}
	if len(parts) == 0 {
		return nil, fmt.Errorf("empty term")
	}
	t := &term{}
	if err := json.Unmarshal(parts[0], &t.Op); err != nil {
		return nil, err
	}
	if t.Op != "key" {
		t.N = 1
	}
	for _, p := range parts[1:] {
		if len(p) > 0 && p[0] == '[' {
			a, err := parseTerm(p)
			if err != nil {
				return nil, err
			}
			t.X = append(t.X, targ{T: a})
			t.N += a.N
		} else {
			var s string
			if err := json.Unmarshal(p, &s); err != nil {
				return nil, err
			}
			t.X = append(t.X, targ{S: s})
		}
	}
	var b bytes.Buffer
	_ = json.Compact(&b, raw)
	t.Key = b.String()
	return t, nil
}

func (t *term) has(op string) bool {
	if t.Op == op {
		return true
	}
	for _, a := range t.X {
		if a.T != nil && a.T.has(op) {
			return true
		}
	}
	return false
}

// class is the input class of a case: the spine of operations (with the ways of mangling)
func (t *term) class() string {
	var parts []string
	for c, d := t, 0; c != nil && d < 4; d++ {
		s := c.Op
		if strings.HasPrefix(c.Op, "Mangle") || c.Op == "Alter" {
			s += ":" + c.X[1].S
		}
		if c.Op == "key" {
			break
		}
		parts = append(parts, s)
		var next *term
		// follow the most specific argument: the signature of a Verify, otherwise the first term argument
		for _, a := range c.X {
			if a.T != nil {
				next = a.T
				if c.Op != "Verify" {
					break
				}
			}
		}
		c = next
	}
	return strings.Join(parts, "<")
}

func kindOf(op string) string {
	switch op {
	case "Verify", "Sign", "Alter", "PubOf":
		return "sign-verify"
	case "EncPub", "DecPub", "ManglePub":
		return "pubkey-roundtrip"
	case "EncPriv", "DecPriv", "ManglePriv":
		return "privkey-roundtrip"
	case "WIFEnc", "WIFDec", "MangleWif":
		return "wif"
	case "NEP2Enc", "NEP2Dec", "MangleNep":
		return "nep2"
	}
	return "address"
}

type inst struct {
	Name    string
	Keys    map[string][]byte
	Msgs    map[string][]byte
	Pass    map[string]string
	SP      keys.ScryptParams
	Std     bool // NEP-2 with the standard scrypt parameters: only the small NEP-2 cases are evaluated
	Variant int

	mu      sync.Mutex
	memo    map[string]*value
	nfCanon map[string][]byte
	nfTerm  map[string]string
	canonNF map[string]string
}

func (in *inst) describe() map[string]any {
	k := map[string]string{}
	for s, b := range in.Keys {
		k[s] = hex.EncodeToString(b)
	}
	m := map[string]string{}
	for s, b := range in.Msgs {
		if len(b) > 40 {
			m[s] = fmt.Sprintf("%d bytes starting %s", len(b), hex.EncodeToString(b[:16]))
		} else {
			m[s] = hex.EncodeToString(b)
		}
	}
	p := map[string]string{}
	for s, b := range in.Pass {
		p[s] = fmt.Sprintf("%+q", b)
	}
	return map[string]any{"instantiation": in.Name, "keys": k, "messages": m, "passphrases": p, "scrypt": in.SP, "variant": in.Variant}
}

func hashOf(s string) int {
	h := fnv.New32a()
	h.Write([]byte(s))
	return int(h.Sum32() & 0x7fffffff)
}

// eval evaluates a term with the real code (memoised per instantiation).
func (in *inst) eval(t *term) *value {
	in.mu.Lock()
	if v, ok := in.memo[t.Key]; ok {
		in.mu.Unlock()
		return v
	}
	in.mu.Unlock()
	v := in.compute(t)
	in.mu.Lock()
	if w, ok := in.memo[t.Key]; ok {
		v = w
	} else {
		in.memo[t.Key] = v
	}
	in.mu.Unlock()
	return v
}

var undefinedArg = &value{Err: "argument undefined"}

func (in *inst) compute(t *term) *value {
	vr := in.Variant + hashOf(t.Key)
	args := make([]*value, len(t.X))
	for i, a := range t.X {
		if a.T != nil {
			args[i] = in.eval(a.T)
			if !args[i].OK {
				return undefinedArg
			}
		}
	}
	p := func(i int) string { return t.X[i].S }
	// a mangling is a function of the CONTENT it mangles (equal terms of the algebra are mangled the same way)
	mv := func() int { return in.Variant + hashOf(string(args[0].canon())+"/"+p(1)) }
	switch t.Op {
	case "key":
		return doDecPriv(in.Keys[p(0)], 0)
	case "PubOf":
		return doPubOf(args[0].Priv, p(1))
	case "Sign":
		return doSign(args[0].Priv, p(1), in.Msgs[p(2)], vr)
	case "Alter":
		curve := t.X[0].T.X[1].S
		return &value{Sort: "Sig", OK: true, Bytes: mangleSig(args[0].Bytes, p(1), curve, mv())}
	case "Verify":
		return doVerify(args[0].Pub, in.Msgs[p(1)], args[2].Bytes)
	case "EncPub":
		return doEncPub(args[0].Pub, p(1), vr)
	case "ManglePub":
		src := in.eval(t.X[0].T.X[0].T) // the key that was encoded
		return &value{Sort: "PubBytes", OK: true, Bytes: manglePub(args[0].Bytes, p(1), curveName(src.Pub.Curve), mv())}
	case "DecPub":
		return doDecPub(args[0].Bytes, p(1), vr)
	case "EncPriv":
		return doEncPriv(args[0].Priv, vr)
	case "ManglePriv":
		return &value{Sort: "PrivBytes", OK: true, Bytes: manglePriv(args[0].Bytes, p(1), mv())}
	case "DecPriv":
		return doDecPriv(args[0].Bytes, vr)
	case "WIFEnc":
		return doWIFEnc(args[0].Priv, p(1), p(2), vr)
	case "MangleWif":
		return &value{Sort: "Wif", OK: true, Str: mangleWif(args[0].Str, p(1), mv())}
	case "WIFDec":
		return doWIFDec(args[0].Str, p(1), vr)
	case "NEP2Enc":
		return doNEP2Enc(args[0].Priv, in.Pass[p(1)], in.SP)
	case "MangleNep":
		return &value{Sort: "Nep2", OK: true, Str: mangleNep(args[0].Str, p(1), mv())}
	case "NEP2Dec":
		return doNEP2Dec(args[0].Str, in.Pass[p(1)], in.SP)
	case "VScript":
		return doVScript(args[0].Pub)
	case "RefScript":
		return &value{Sort: "Script", OK: true, Bytes: refVerificationScript(args[0].Bytes)}
	case "ScriptHash":
		return doScriptHash(args[0].Pub)
	case "RefHash":
		return &value{Sort: "SH", OK: true, Bytes: refHash160(args[0].Bytes)}
	case "Address":
		return doAddress(args[0].Pub)
	case "SHToAddr":
		return doSHToAddr(args[0].Bytes)
	case "MangleAddr":
		return &value{Sort: "Addr", OK: true, Str: mangleAddr(args[0].Str, p(1), mv())}
	case "AddrToSH":
		return doAddrToSH(args[0].Str)
	}
	panic("harness: unknown operation " + t.Op)
}

type caseJudge struct {
	res      *vh.Result
	mu       sync.Mutex
	seen     map[string]int
	open     map[string]map[string]int
	selftest bool
}

func (j *caseJudge) violate(kind, cls, what string, replay any) {
	j.mu.Lock()
	k := kind + "/" + cls
	j.seen[k]++
	n := j.seen[k]
	j.mu.Unlock()
	j.res.Inc("violating_cases", 1)
	if n > 2 {
		return
	}
	j.res.Violate(map[string]any{"part": "keys", "kind": kind, "class": cls}, what, replay)
}

func show(v *value) any {
	if v == nil {
		return nil
	}
	if v.Panic != "" {
		return map[string]any{"panic": v.Panic}
	}
	if !v.OK {
		return map[string]any{"refused": v.Err}
	}
	switch v.Sort {
	case "Bool":
		return v.Bool
	case "Wif", "Nep2", "Addr":
		return v.Str
	case "Priv", "Pub":
		return hex.EncodeToString(v.canon())
	}
	return hex.EncodeToString(v.Bytes)
}

// judge evaluates one enumerated case under one instantiation.
func (j *caseJudge) judge(in *inst, c *ecase, t *term) {
	nf := string(c.NF)
	for _, a := range t.X {
		if a.T != nil && !in.eval(a.T).OK {
			j.res.Inc("cases_with_undefined_argument", 1)
			return
		}
	}
	v := in.eval(t)
	cls := t.class()
	kind := kindOf(t.Op)
	replay := func() any {
		return map[string]any{"term": json.RawMessage(t.Key), "specified": c.Cls, "normal_form": c.NF, "why": c.Why,
			"observed": show(v), "symbols": in.describe()}
	}
	j.res.Count([]any{"case", in.Name, t.Key})
	if v.Panic != "" {
		j.violate("panic", cls, "a call of the key / signature API panicked: "+v.Panic, replay())
		return
	}
	mangled := false
	for _, a := range t.X {
		if a.T != nil && (strings.HasPrefix(a.T.Op, "Mangle") || a.T.Op == "Alter") {
			mangled = true
		}
	}
	switch c.Cls {
	case "true", "false":
		if v.Bool != (c.Cls == "true") {
			j.violate("sign-verify", c.Why, fmt.Sprintf("Verify answered %v, the algebra says %s (%s)", v.Bool, c.Cls, c.Why), replay())
		}
		return
	case "open":
		j.mu.Lock()
		if j.open[c.Why] == nil {
			j.open[c.Why] = map[string]int{}
		}
		j.open[c.Why][fmt.Sprint(v.Bool)]++
		j.mu.Unlock()
		return
	case "refused":
		if v.OK {
			k := kind
			if mangled {
				k = "malformed-accepted"
			}
			j.violate(k, cls, "an input the algebra says must be refused was accepted", replay())
		}
		return
	case "val":
		if !v.OK {
			j.violate(kind, cls, "a valid input was refused: "+v.Err, replay())
			return
		}
	case "maybe":
		if !v.OK {
			j.res.Inc("maybe_refused", 1)
			return
		}
		j.res.Inc("maybe_answered", 1)
	}
	// what the driver itself made (manglings) is an input, not an answer of the code
	if strings.HasPrefix(t.Op, "Mangle") || t.Op == "Alter" {
		return
	}
	// equal normal forms <=> equal bytes, within the sort
	can := v.canon()
	ck := c.Sort + "|" + string(can)
	in.mu.Lock()
	prev, seen := in.nfCanon[nf]
	prevT := in.nfTerm[nf]
	other, clash := in.canonNF[ck]
	if !seen {
		in.nfCanon[nf] = can
		in.nfTerm[nf] = t.Key
	}
	if !clash {
		in.canonNF[ck] = nf
	}
	in.mu.Unlock()
	if seen && !bytes.Equal(prev, can) {
		k := kind
		if t.Op == "Sign" {
			k = "determinism"
		}
		r := replay().(map[string]any)
		if json.Valid([]byte(prevT)) {
			r["equal_term"] = json.RawMessage(prevT)
		} else {
			r["equal_term"] = prevT
		}
		r["its_value"] = hex.EncodeToString(prev)
		j.violate(k, cls, "two terms the algebra makes equal evaluate to different values", r)
		return
	}
	if clash && other != nf {
		r := replay().(map[string]any)
		r["other_normal_form"] = json.RawMessage(other)
		j.violate(kind, cls, "two terms with different normal forms evaluate to the same value (for a decoder: a changed input gives the original key)", r)
	}
	// what a WIF decoder says about the compression flag
	if t.Op == "WIFDec" && v.Flag != "" && t.X[0].T.Op == "WIFEnc" && v.Flag != t.X[0].T.X[1].S {
		j.violate("wif", cls+"/compressed-flag", "WIFDecode reports another compression flag than the one encoded", replay())
	}
}

// runCases evaluates all cases under one instantiation.
func (j *caseJudge) runCases(in *inst, cases []*ecase, terms []*term) {
	var sel []int
	for i, t := range terms {
		if in.Std {
			if t.N > 3 || !(t.has("NEP2Enc")) {
				continue
			}
			if !vh.Thorough() && t.Op == "NEP2Dec" && t.X[0].T.Op == "MangleNep" {
				how := t.X[0].T.X[1].S
				if (how == "salt" || how == "body") && t.X[1].S != t.X[0].T.X[0].T.X[1].S {
					continue
				}
			}
		}
		sel = append(sel, i)
	}
	if in.Std {
		// the scrypt-bound subterms in parallel, smaller terms first
		bySize := map[int][]*term{}
		seen := map[string]bool{}
		var walk func(t *term)
		walk = func(t *term) {
			if (t.Op == "NEP2Enc" || t.Op == "NEP2Dec") && !seen[t.Key] {
				seen[t.Key] = true
				bySize[t.N] = append(bySize[t.N], t)
			}
			for _, a := range t.X {
				if a.T != nil {
					walk(a.T)
				}
			}
		}
		for _, i := range sel {
			walk(terms[i])
		}
		var sizes []int
		for n := range bySize {
			sizes = append(sizes, n)
		}
		sort.Ints(sizes)
		for _, n := range sizes {
			var wg sync.WaitGroup
			sem := make(chan struct{}, runtime.GOMAXPROCS(0))
			for _, t := range bySize[n] {
				wg.Add(1)
				sem <- struct{}{}
				go func(t *term) {
					defer wg.Done()
					defer func() { <-sem }()
					in.eval(t)
				}(t)
			}
			wg.Wait()
		}
	}
	// smaller terms first: a failing subterm is reported where it is the whole case
	sort.SliceStable(sel, func(a, b int) bool { return terms[sel[a]].N < terms[sel[b]].N })
	for _, i := range sel {
		j.judge(in, cases[i], terms[i])
	}
}
