//go:build verif

package c18keys

// Independent references: nothing in this file goes through pkg/crypto/keys, pkg/crypto/hash, pkg/encoding/address or
// pkg/encoding/base58 of the code under test.  Curve arithmetic is done on the curve EQUATIONS with math/big (constants
// from SEC 2), Hash160 with crypto/sha256 + golang.org/x/crypto/ripemd160 (the code uses another RIPEMD-160 package),
// Base58Check with math/big, Unicode NFC with golang.org/x/text/unicode/norm, NEP-2 with golang.org/x/crypto/scrypt and
// crypto/aes (the code has its own scrypt).

import (
	"bytes"
	"crypto/aes"
	"crypto/sha256"
	"errors"
	"math/big"

	"golang.org/x/crypto/ripemd160"
	xscrypt "golang.org/x/crypto/scrypt"
	"golang.org/x/text/unicode/norm"
)

type refCurve struct {
	Name       string
	P, A, B, N *big.Int
	Gx, Gy     *big.Int
}

func hexInt(s string) *big.Int {
	v, ok := new(big.Int).SetString(s, 16)
	if !ok {
		panic("bad constant")
	}
	return v
}

var refP256 = &refCurve{
	Name: "p256",
	P:    hexInt("ffffffff00000001000000000000000000000000ffffffffffffffffffffffff"),
	A:    hexInt("ffffffff00000001000000000000000000000000fffffffffffffffffffffffc"),
	B:    hexInt("5ac635d8aa3a93e7b3ebbd55769886bc651d06b0cc53b0f63bce3c3e27d2604b"),
	N:    hexInt("ffffffff00000000ffffffffffffffffbce6faada7179e84f3b9cac2fc632551"),
	Gx:   hexInt("6b17d1f2e12c4247f8bce6e563a440f277037d812deb33a0f4a13945d898c296"),
	Gy:   hexInt("4fe342e2fe1a7f9b8ee7eb4a7c0f9e162bce33576b315ececbb6406837bf51f5"),
}

var refK256 = &refCurve{
	Name: "k256",
	P:    hexInt("fffffffffffffffffffffffffffffffffffffffffffffffffffffffefffffc2f"),
	A:    big.NewInt(0),
	B:    big.NewInt(7),
	N:    hexInt("fffffffffffffffffffffffffffffffebaaedce6af48a03bbfd25e8cd0364141"),
	Gx:   hexInt("79be667ef9dcbbac55a06295ce870b07029bfcdb2dce28d959f2815b16f81798"),
	Gy:   hexInt("483ada7726a3c4655da4fbfc0e1108a8fd17b448a68554199c47d08ffb10d4b8"),
}

func refCurveOf(name string) *refCurve {
	if name == "p256" {
		return refP256
	}
	return refK256
}

// rhs = x^3 + a x + b mod p
func (c *refCurve) rhs(x *big.Int) *big.Int {
	r := new(big.Int).Exp(x, big.NewInt(3), c.P)
	ax := new(big.Int).Mul(c.A, x)
	r.Add(r, ax)
	r.Add(r, c.B)
	return r.Mod(r, c.P)
}

func (c *refCurve) onCurve(x, y *big.Int) bool {
	if x.Sign() < 0 || y.Sign() < 0 || x.Cmp(c.P) >= 0 || y.Cmp(c.P) >= 0 {
		return false
	}
	l := new(big.Int).Mul(y, y)
	l.Mod(l, c.P)
	return l.Cmp(c.rhs(x)) == 0
}

// liftX returns the ordinate with the given parity (0 even, 1 odd) of the point with abscissa x, or nil.
func (c *refCurve) liftX(x *big.Int, odd uint) *big.Int {
	if x.Sign() < 0 || x.Cmp(c.P) >= 0 {
		return nil
	}
	r := c.rhs(x)
	// both primes are 3 mod 4: sqrt = r^((p+1)/4)
	e := new(big.Int).Add(c.P, big.NewInt(1))
	e.Rsh(e, 2)
	y := new(big.Int).Exp(r, e, c.P)
	if new(big.Int).Mod(new(big.Int).Mul(y, y), c.P).Cmp(r) != 0 {
		return nil
	}
	if y.Bit(0) != odd {
		if y.Sign() == 0 {
			return nil // y = 0 has no odd twin
		}
		y.Sub(c.P, y)
	}
	return y
}

// affine addition; nil,nil is the point at infinity
func (c *refCurve) add(x1, y1, x2, y2 *big.Int) (*big.Int, *big.Int) {
	if x1 == nil {
		return x2, y2
	}
	if x2 == nil {
		return x1, y1
	}
	var lam *big.Int
	if x1.Cmp(x2) == 0 {
		if y1.Cmp(y2) != 0 || y1.Sign() == 0 {
			return nil, nil
		}
		num := new(big.Int).Mul(x1, x1)
		num.Mul(num, big.NewInt(3))
		num.Add(num, c.A)
		den := new(big.Int).Lsh(y1, 1)
		den.ModInverse(den.Mod(den, c.P), c.P)
		lam = num.Mul(num, den)
	} else {
		num := new(big.Int).Sub(y2, y1)
		den := new(big.Int).Sub(x2, x1)
		den.ModInverse(den.Mod(den, c.P), c.P)
		lam = num.Mul(num, den)
	}
	lam.Mod(lam, c.P)
	x3 := new(big.Int).Mul(lam, lam)
	x3.Sub(x3, x1)
	x3.Sub(x3, x2)
	x3.Mod(x3, c.P)
	y3 := new(big.Int).Sub(x1, x3)
	y3.Mul(y3, lam)
	y3.Sub(y3, y1)
	y3.Mod(y3, c.P)
	return x3, y3
}

// mulG = d * G by double-and-add (d is reduced mod n)
func (c *refCurve) mulG(d *big.Int) (*big.Int, *big.Int) {
	k := new(big.Int).Mod(d, c.N)
	var rx, ry *big.Int
	for i := k.BitLen() - 1; i >= 0; i-- {
		rx, ry = c.add(rx, ry, rx, ry)
		if k.Bit(i) == 1 {
			rx, ry = c.add(rx, ry, c.Gx, c.Gy)
		}
	}
	return rx, ry
}

type refPoint struct {
	Curve string
	X, Y  *big.Int
}

// refDecodePub is THE pure decoding function of a serialized public key on a curve.
func refDecodePub(b []byte, curve string) (*refPoint, error) {
	c := refCurveOf(curve)
	if len(b) == 0 {
		return nil, errors.New("empty")
	}
	switch b[0] {
	case 2, 3:
		if len(b) != 33 {
			return nil, errors.New("length")
		}
		x := new(big.Int).SetBytes(b[1:])
		y := c.liftX(x, uint(b[0]&1))
		if y == nil {
			return nil, errors.New("no point with this X")
		}
		return &refPoint{curve, x, y}, nil
	case 4:
		if len(b) != 65 {
			return nil, errors.New("length")
		}
		x := new(big.Int).SetBytes(b[1:33])
		y := new(big.Int).SetBytes(b[33:])
		if !c.onCurve(x, y) {
			return nil, errors.New("not on the curve")
		}
		return &refPoint{curve, x, y}, nil
	}
	return nil, errors.New("prefix")
}

func refEncodePub(x, y *big.Int, compressed bool) []byte {
	if compressed {
		out := make([]byte, 33)
		out[0] = 2 + byte(y.Bit(0))
		x.FillBytes(out[1:])
		return out
	}
	out := make([]byte, 65)
	out[0] = 4
	x.FillBytes(out[1:33])
	y.FillBytes(out[33:])
	return out
}

func refHash160(b []byte) []byte {
	s := sha256.Sum256(b)
	h := ripemd160.New()
	h.Write(s[:])
	return h.Sum(nil)
}

// PUSHDATA1 33 <key> SYSCALL System.Crypto.CheckSig
func refVerificationScript(comp []byte) []byte {
	out := []byte{0x0c, byte(len(comp))}
	out = append(out, comp...)
	return append(out, 0x41, 0x56, 0xe7, 0xb3, 0x27)
}

const b58alphabet = "123456789ABCDEFGHJKLMNPQRSTUVWXYZabcdefghijkmnopqrstuvwxyz"

func refBase58(b []byte) string {
	x := new(big.Int).SetBytes(b)
	var out []byte
	m := new(big.Int)
	b58 := big.NewInt(58)
	for x.Sign() > 0 {
		x.DivMod(x, b58, m)
		out = append(out, b58alphabet[m.Int64()])
	}
	for _, c := range b {
		if c != 0 {
			break
		}
		out = append(out, '1')
	}
	for i, j := 0, len(out)-1; i < j; i, j = i+1, j-1 {
		out[i], out[j] = out[j], out[i]
	}
	return string(out)
}

func refChecksum(b []byte) []byte {
	a := sha256.Sum256(b)
	c := sha256.Sum256(a[:])
	return c[:4]
}

func refBase58Check(b []byte) string {
	return refBase58(append(append([]byte{}, b...), refChecksum(b)...))
}

func refBase58Decode(s string) ([]byte, bool) {
	x := new(big.Int)
	for _, ch := range []byte(s) {
		i := bytes.IndexByte([]byte(b58alphabet), ch)
		if i < 0 {
			return nil, false
		}
		x.Mul(x, big.NewInt(58))
		x.Add(x, big.NewInt(int64(i)))
	}
	out := x.Bytes()
	for _, ch := range []byte(s) {
		if ch != '1' {
			break
		}
		out = append([]byte{0}, out...)
	}
	return out, true
}

func refAddress(sh []byte) string { return refBase58Check(append([]byte{0x35}, sh...)) }

func refNFC(s string) string { return norm.NFC.String(s) }

// refNEP2 is NEP-2 encryption as the standard defines it (n, r, p given).
func refNEP2(d []byte, addr string, pass string, n, r, p int) (string, error) {
	salt := refChecksum([]byte(addr))
	dk, err := xscrypt.Key([]byte(refNFC(pass)), salt, n, r, p, 64)
	if err != nil {
		return "", err
	}
	x := make([]byte, 32)
	for i := range x {
		x[i] = d[i] ^ dk[i]
	}
	blk, err := aes.NewCipher(dk[32:])
	if err != nil {
		return "", err
	}
	enc := make([]byte, 32)
	blk.Encrypt(enc[:16], x[:16])
	blk.Encrypt(enc[16:], x[16:])
	buf := append([]byte{0x01, 0x42, 0xe0}, salt...)
	buf = append(buf, enc...)
	return refBase58Check(buf), nil
}
