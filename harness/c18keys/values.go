//go:build verif

package c18keys

// Values of the sorts of spec/keys/KeyAlgebra.tla as the REAL code produces them, and the guarded calls of the real API.

import (
	"crypto/ecdsa"
	"crypto/elliptic"
	"crypto/sha256"
	"encoding/hex"
	"fmt"
	"math/big"

	"github.com/decred/dcrd/dcrec/secp256k1/v4"
	"github.com/nspcc-dev/neo-go/pkg/crypto/keys"
	"github.com/nspcc-dev/neo-go/pkg/encoding/address"
	"github.com/nspcc-dev/neo-go/pkg/util"
)

func realCurve(name string) elliptic.Curve {
	if name == "p256" {
		return elliptic.P256()
	}
	return secp256k1.S256() // nolint:staticcheck
}

func curveName(c elliptic.Curve) string {
	switch c {
	case nil:
		return "nil"
	case elliptic.P256():
		return "p256"
	case elliptic.Curve(secp256k1.S256()): // nolint:staticcheck
		return "k256"
	}
	return "other:" + c.Params().Name
}

// value is a result of evaluating a term with the real code.
type value struct {
	Sort  string
	OK    bool   // false: refused with an error
	Panic string // non-empty: the call panicked
	Err   string
	// exactly one of these, by sort
	Priv  *keys.PrivateKey // Priv (always a P-256 key object: the only kind the package decodes)
	Pub   *keys.PublicKey  // Pub
	Bytes []byte           // PubBytes, PrivBytes, Sig, Script, SH
	Str   string           // Wif, Nep2, Addr
	Bool  bool             // Bool
	// extra observations
	Flag string // WIFDec: "c" / "u" as the decoder reports it
}

// canon is the content by which two values of one sort are the same value; read from the objects, not through encoders.
func (v *value) canon() []byte {
	switch v.Sort {
	case "Priv":
		p := v.Priv
		out := []byte("priv:")
		if p.D != nil {
			out = append(out, p.D.FillBytes(make([]byte, 40))...)
		}
		return append(out, pubCanon(p.PublicKey())...)
	case "Pub":
		return pubCanon(v.Pub)
	case "Wif", "Nep2", "Addr":
		return []byte(v.Str)
	case "Bool":
		if v.Bool {
			return []byte{1}
		}
		return []byte{0}
	}
	return v.Bytes
}

func pubCanon(p *keys.PublicKey) []byte {
	if p == nil {
		return []byte("pub:nil")
	}
	out := []byte("pub:" + curveName(p.Curve) + ":")
	if p.X == nil || p.Y == nil {
		return append(out, []byte("infinity")...)
	}
	out = append(out, p.X.FillBytes(make([]byte, 40))...)
	return append(out, p.Y.FillBytes(make([]byte, 40))...)
}

func shortID(sort string, content []byte) string {
	h := sha256.Sum256(content)
	return sort + ":" + hex.EncodeToString(h[:7])
}

func (v *value) id() string {
	if !v.OK {
		return ""
	}
	return shortID(v.Sort, v.canon())
}

// guard runs a call into the code under test and captures a panic.
func guard(f func()) (p string) {
	defer func() {
		if r := recover(); r != nil {
			p = fmt.Sprint(r)
		}
	}()
	f()
	return ""
}

func refused(sort string, err error) *value { return &value{Sort: sort, Err: fmt.Sprint(err)} }

// ------------------------------------------------------------------ private keys

// privOnCurve builds the key object the package signs with for a scalar on a curve.  For P-256 this is what the
// package's own decoder returns; for secp256k1 the package has no decoder (only a random generator), the object is the
// exported struct filled in with the public point computed by the secp256k1 library.
func privOnCurve(p *keys.PrivateKey, curve string) *keys.PrivateKey {
	if curve == "p256" {
		return p
	}
	c := realCurve(curve)
	d := p.D.FillBytes(make([]byte, 32))
	x, y := c.ScalarBaseMult(d)
	return &keys.PrivateKey{PrivateKey: ecdsa.PrivateKey{PublicKey: ecdsa.PublicKey{Curve: c, X: x, Y: y}, D: new(big.Int).Set(p.D)}}
}

func doDecPriv(b []byte, variant int) *value {
	v := &value{Sort: "Priv"}
	var err error
	v.Panic = guard(func() {
		arg := append([]byte{}, b...)
		if variant%2 == 0 {
			v.Priv, err = keys.NewPrivateKeyFromBytes(arg)
		} else {
			v.Priv, err = keys.NewPrivateKeyFromHex(hex.EncodeToString(arg))
		}
	})
	if v.Panic != "" {
		return v
	}
	if err != nil || v.Priv == nil {
		return refused("Priv", err)
	}
	v.OK = true
	return v
}

func doEncPriv(p *keys.PrivateKey, variant int) *value {
	v := &value{Sort: "PrivBytes"}
	v.Panic = guard(func() {
		if variant%2 == 0 {
			v.Bytes = p.Bytes()
		} else {
			b, err := hex.DecodeString(p.String())
			if err != nil {
				panic("String() is not hex: " + err.Error())
			}
			v.Bytes = b
		}
	})
	v.OK = v.Panic == ""
	return v
}

func doPubOf(p *keys.PrivateKey, curve string) *value {
	v := &value{Sort: "Pub"}
	v.Panic = guard(func() { v.Pub = privOnCurve(p, curve).PublicKey() })
	v.OK = v.Panic == "" && v.Pub != nil
	return v
}

func doSign(p *keys.PrivateKey, curve string, msg []byte, variant int) *value {
	v := &value{Sort: "Sig"}
	v.Panic = guard(func() {
		k := privOnCurve(p, curve)
		if variant%2 == 0 {
			v.Bytes = k.Sign(msg)
		} else {
			v.Bytes = k.SignHash(util.Uint256(sha256.Sum256(msg)))
		}
	})
	v.OK = v.Panic == ""
	return v
}

func doVerify(pub *keys.PublicKey, msg []byte, sig []byte) *value {
	v := &value{Sort: "Bool"}
	h := sha256.Sum256(msg)
	v.Panic = guard(func() { v.Bool = pub.Verify(append([]byte{}, sig...), h[:]) })
	v.OK = v.Panic == ""
	return v
}

// ------------------------------------------------------------------ public key bytes

func doEncPub(p *keys.PublicKey, form string, variant int) *value {
	v := &value{Sort: "PubBytes"}
	v.Panic = guard(func() {
		if form == "comp" {
			if variant%2 == 0 {
				v.Bytes = p.Bytes()
			} else {
				b, err := hex.DecodeString(p.StringCompressed())
				if err != nil {
					panic("StringCompressed() is not hex: " + err.Error())
				}
				v.Bytes = b
			}
		} else {
			v.Bytes = p.UncompressedBytes()
		}
	})
	v.OK = v.Panic == ""
	return v
}

const decPubVariants = 4

// doDecPub: the decoders of a serialized public key.  0: NewPublicKeyFromBytes (cached), 1: DecodeBytes on a fresh key
// with the curve set, 2 (P-256): NewPublicKeyFromString, 3 (P-256): UnmarshalJSON.
func doDecPub(b []byte, curve string, variant int) *value {
	v := &value{Sort: "Pub"}
	var err error
	c := realCurve(curve)
	if curve != "p256" {
		variant %= 2
	}
	v.Panic = guard(func() {
		arg := append([]byte{}, b...)
		switch variant % decPubVariants {
		case 0:
			v.Pub, err = keys.NewPublicKeyFromBytes(arg, c)
		case 1:
			k := &keys.PublicKey{Curve: c}
			err = k.DecodeBytes(arg)
			v.Pub = k
		case 2:
			v.Pub, err = keys.NewPublicKeyFromString(hex.EncodeToString(arg))
		case 3:
			k := new(keys.PublicKey)
			err = k.UnmarshalJSON([]byte(`"` + hex.EncodeToString(arg) + `"`))
			v.Pub = k
		}
	})
	if v.Panic != "" {
		return v
	}
	if err != nil || v.Pub == nil {
		return refused("Pub", err)
	}
	v.OK = true
	return v
}

// ------------------------------------------------------------------ WIF

func verByte(v string) byte {
	if v == "v80" {
		return keys.WIFVersion
	}
	return 0x81
}

func doWIFEnc(p *keys.PrivateKey, flag, ver string, variant int) *value {
	v := &value{Sort: "Wif"}
	var err error
	v.Panic = guard(func() {
		if variant%2 == 1 && flag == "c" && ver == "v80" {
			v.Str = p.WIF()
			return
		}
		v.Str, err = keys.WIFEncode(p.Bytes(), verByte(ver), flag == "c")
	})
	if v.Panic != "" {
		return v
	}
	if err != nil {
		return refused("Wif", err)
	}
	v.OK = true
	return v
}

func doWIFDec(s string, ver string, variant int) *value {
	v := &value{Sort: "Priv"}
	var err error
	v.Panic = guard(func() {
		if variant%2 == 1 && ver == "v80" {
			v.Priv, err = keys.NewPrivateKeyFromWIF(s)
			return
		}
		var w *keys.WIF
		w, err = keys.WIFDecode(s, verByte(ver))
		if err == nil && w != nil {
			v.Priv = w.PrivateKey
			v.Flag = "u"
			if w.Compressed {
				v.Flag = "c"
			}
		}
	})
	if v.Panic != "" {
		return v
	}
	if err != nil || v.Priv == nil {
		return refused("Priv", err)
	}
	v.OK = true
	return v
}

// ------------------------------------------------------------------ NEP-2

func doNEP2Enc(p *keys.PrivateKey, pass string, sp keys.ScryptParams) *value {
	v := &value{Sort: "Nep2"}
	var err error
	v.Panic = guard(func() { v.Str, err = keys.NEP2Encrypt(p, pass, sp) })
	if v.Panic != "" {
		return v
	}
	if err != nil {
		return refused("Nep2", err)
	}
	v.OK = true
	return v
}

func doNEP2Dec(s, pass string, sp keys.ScryptParams) *value {
	v := &value{Sort: "Priv"}
	var err error
	v.Panic = guard(func() { v.Priv, err = keys.NEP2Decrypt(s, pass, sp) })
	if v.Panic != "" {
		return v
	}
	if err != nil || v.Priv == nil {
		return refused("Priv", err)
	}
	v.OK = true
	return v
}

// ------------------------------------------------------------------ scripts, hashes, addresses

func doVScript(p *keys.PublicKey) *value {
	v := &value{Sort: "Script"}
	v.Panic = guard(func() { v.Bytes = p.GetVerificationScript() })
	v.OK = v.Panic == ""
	return v
}

func doScriptHash(p *keys.PublicKey) *value {
	v := &value{Sort: "SH"}
	v.Panic = guard(func() { h := p.GetScriptHash(); v.Bytes = h.BytesBE() })
	v.OK = v.Panic == ""
	return v
}

func doAddress(p *keys.PublicKey) *value {
	v := &value{Sort: "Addr"}
	v.Panic = guard(func() { v.Str = p.Address() })
	v.OK = v.Panic == ""
	return v
}

func doSHToAddr(sh []byte) *value {
	v := &value{Sort: "Addr"}
	v.Panic = guard(func() {
		u, err := util.Uint160DecodeBytesBE(sh)
		if err != nil {
			panic("harness: script hash of wrong length")
		}
		v.Str = address.Uint160ToString(u)
	})
	v.OK = v.Panic == ""
	return v
}

func doAddrToSH(s string) *value {
	v := &value{Sort: "SH"}
	var err error
	v.Panic = guard(func() {
		var u util.Uint160
		u, err = address.StringToUint160(s)
		v.Bytes = u.BytesBE()
	})
	if v.Panic != "" {
		return v
	}
	if err != nil {
		return refused("SH", err)
	}
	v.OK = true
	return v
}
