// Driver of the extensible-payload-pool extension of C19: replays TLC behaviours of ExtPoolImpl and seeded random
// histories on a REAL extpool.Pool standing on a REAL ledger (chainkit network: 6 committee members of which 4 are
// validators, a designated and a formerly designated state validator), with real signed payloads (dBFT messages built
// through consensus.NewPayload/Sign, state-service-like payloads, multi-signature senders), every Add made with a
// freshly wire-decoded object as Server.handleExtensibleCmd does.  After every operation the content of the pool is
// read back through the exported API only (Get for every hash ever offered, GetCategory) and recorded for
// ExtPoolTrace.tla.
package c19extpool

import (
	"bytes"
	"errors"
	"fmt"
	"math/rand"
	"sort"
	"testing"

	"verifharness/internal/chainkit"
	"verifharness/internal/vh"

	"github.com/nspcc-dev/neo-go/pkg/consensus"
	"github.com/nspcc-dev/neo-go/pkg/core"
	"github.com/nspcc-dev/neo-go/pkg/core/native/nativenames"
	"github.com/nspcc-dev/neo-go/pkg/core/native/noderoles"
	"github.com/nspcc-dev/neo-go/pkg/core/transaction"
	"github.com/nspcc-dev/neo-go/pkg/crypto/hash"
	"github.com/nspcc-dev/neo-go/pkg/crypto/keys"
	"github.com/nspcc-dev/neo-go/pkg/io"
	"github.com/nspcc-dev/neo-go/pkg/neotest"
	"github.com/nspcc-dev/neo-go/pkg/network/extpool"
	npayload "github.com/nspcc-dev/neo-go/pkg/network/payload"
	"github.com/nspcc-dev/neo-go/pkg/smartcontract"
	"github.com/nspcc-dev/neo-go/pkg/util"
	"github.com/nspcc-dev/neo-go/pkg/vm/emit"
	"github.com/nspcc-dev/neo-go/pkg/vm/opcode"
	"github.com/nspcc-dev/neo-go/pkg/vm/stackitem"
)

const stateCategory = "StateService"

// APayload is the abstract payload record shared with the TLA+ modules (heights relative to the start of the history).
type APayload struct {
	ID     int    `json:"id"`
	Hid    int    `json:"hid"`
	Sender string `json:"sender"`
	Start  int    `json:"start"`
	End    int    `json:"end"`
	Witok  bool   `json:"witok"`
	Wit    string `json:"wit,omitempty"` // witness kind (random universes); "" = derived from Witok
	Cat    string `json:"cat,omitempty"`
}

type Step struct {
	Op       string     `json:"op"`
	P        int        `json:"p"`
	Acc      bool       `json:"acc"`
	Err      string     `json:"err"`
	Known    []int      `json:"known"`
	H        int        `json:"h"`
	Payloads []APayload `json:"payloads"`
	Cap      int        `json:"cap"`
	Allowed  []string   `json:"allowed"`
}

// sender is an account that may sign extensible payloads.
type sender struct {
	name    string
	hash    util.Uint160
	keys    []*keys.PrivateKey // sorted by public key; one entry = single signature account
	m       int
	script  []byte
	allowed bool // ground truth by construction of the network (validator / committee / state validator account)
}

type world struct {
	t       *testing.T
	net     *chainkit.Net
	bc      *core.Blockchain
	e       *neotest.Executor
	senders map[string]*sender
	byHash  map[util.Uint160]string
	ctr     uint64
	foreign *keys.PrivateKey
}

func sortKeys(ks []*keys.PrivateKey) []*keys.PrivateKey {
	r := append([]*keys.PrivateKey{}, ks...)
	sort.Slice(r, func(i, j int) bool { return r[i].PublicKey().Cmp(r[j].PublicKey()) < 0 })
	return r
}

func (w *world) addSingle(name string, k *keys.PrivateKey, allowed bool) {
	s := &sender{name: name, hash: k.PublicKey().GetScriptHash(), keys: []*keys.PrivateKey{k}, m: 1,
		script: k.PublicKey().GetVerificationScript(), allowed: allowed}
	w.senders[name] = s
	w.byHash[s.hash] = name
}

func (w *world) addMulti(name string, m int, ks []*keys.PrivateKey, allowed bool) {
	ks = sortKeys(ks)
	pubs := make(keys.PublicKeys, len(ks))
	for i, k := range ks {
		pubs[i] = k.PublicKey()
	}
	script, err := smartcontract.CreateMultiSigRedeemScript(m, pubs)
	if err != nil {
		w.t.Fatal(err)
	}
	s := &sender{name: name, hash: hash.Hash160(script), keys: ks, m: m, script: script, allowed: allowed}
	w.senders[name] = s
	w.byHash[s.hash] = name
}

// newWorld builds the ledger: 6 committee members, the first 4 validators; state validator S1 designated at block 1
// and replaced by S0 at block 2; three more blocks so that the designation is in force long before any history begins.
func newWorld(t *testing.T) *world {
	w := &world{t: t, net: chainkit.NewNet(6, 4), senders: map[string]*sender{}, byHash: map[util.Uint160]string{},
		foreign: chainkit.Key("extpool-foreign")}
	bc, err := w.net.NewChain(nil, nil)
	if err != nil {
		t.Fatal(err)
	}
	chainkit.Start(bc)
	w.bc = bc
	w.e = w.net.Executor(t, bc)
	var com, val []*keys.PrivateKey
	for i := 0; i < 6; i++ {
		k := chainkit.Key(fmt.Sprintf("committee-%d", i))
		com = append(com, k)
		if i < 4 {
			val = append(val, k)
			w.addSingle(fmt.Sprintf("V%d", i), k, true)
		} else {
			w.addSingle(fmt.Sprintf("C%d", i), k, false) // a committee member that is not a validator has no individual right
		}
	}
	w.addMulti("VM", smartcontract.GetDefaultHonestNodeCount(4), val, true)
	w.addMulti("CM", smartcontract.GetMajorityHonestNodeCount(6), com, true)
	s0, s1 := chainkit.Key("stateval-0"), chainkit.Key("stateval-1")
	w.addSingle("S0", s0, true)
	w.addSingle("S1", s1, false)
	w.addMulti("SM", 1, []*keys.PrivateKey{s0}, true)
	w.addSingle("X0", chainkit.Key("outsider-0"), false)
	w.addSingle("X1", chainkit.Key("outsider-1"), false)
	if w.senders["VM"].hash != w.net.ValidatorSigner().ScriptHash() || w.senders["CM"].hash != w.net.CommitteeSigner().ScriptHash() {
		t.Fatal("multi-signature accounts of the harness differ from the network's")
	}
	w.e.ValidatorInvoker(w.e.NativeHash(t, nativenames.Gas)).Invoke(t, true, "transfer", w.e.Validator.ScriptHash(), w.e.Committee.ScriptHash(), int64(1000_0000_0000), nil)
	des := w.e.CommitteeInvoker(w.e.NativeHash(t, nativenames.Designation))
	des.Invoke(t, stackitem.Null{}, "designateAsRole", int64(noderoles.StateValidator), []any{s1.PublicKey().Bytes()})
	des.Invoke(t, stackitem.Null{}, "designateAsRole", int64(noderoles.StateValidator), []any{s0.PublicKey().Bytes()})
	w.e.GenerateNewBlocks(t, 3)
	return w
}

// ---------------------------------------------------------------- payload construction

type built struct {
	a    APayload
	raw  []byte
	hash util.Uint256
}

func encode(e *npayload.Extensible) []byte {
	bw := io.NewBufBinWriter()
	e.EncodeBinary(bw.BinWriter)
	return bw.Bytes()
}

func decode(raw []byte) (*npayload.Extensible, error) {
	e := npayload.NewExtensible()
	r := io.NewBinReaderFromBuf(raw)
	e.DecodeBinary(r)
	return e, r.Err
}

func pushSig(sig []byte) []byte {
	bw := io.NewBufBinWriter()
	emit.Bytes(bw.BinWriter, sig)
	return bw.Bytes()
}

func realHeight(base uint32, rel int, zeroStays bool) uint32 {
	if rel <= 0 && zeroStays {
		return 0
	}
	if rel < 0 {
		return base - uint32(-rel)
	}
	return base + uint32(rel)
}

// content builds the unsigned part of a payload.
func (w *world) content(base uint32, a APayload) *npayload.Extensible {
	w.ctr++
	s := w.senders[a.Sender]
	e := npayload.NewExtensible()
	e.Category = a.Cat
	e.ValidBlockStart = realHeight(base, a.Start, true)
	e.ValidBlockEnd = realHeight(base, a.End, false)
	e.Sender = s.hash
	bw := io.NewBufBinWriter()
	if a.Cat == npayload.ConsensusCategory {
		// a dBFT message as consensus.Payload encodes it: type, block index, validator index, view, body
		if w.ctr%2 == 0 {
			bw.WriteB(0x00) // ChangeView
			bw.WriteU32LE(e.ValidBlockEnd)
			bw.WriteB(byte(w.ctr % 4))
			bw.WriteB(byte(w.ctr % 3))
			bw.WriteU64LE(w.ctr) // timestamp
			bw.WriteB(0)         // reason: timeout
		} else {
			bw.WriteB(0x30) // Commit
			bw.WriteU32LE(e.ValidBlockEnd)
			bw.WriteB(byte(w.ctr % 4))
			bw.WriteB(byte(w.ctr % 3))
			sig := make([]byte, 64)
			for i := 0; i < 8; i++ {
				sig[i] = byte(w.ctr >> (8 * i))
			}
			bw.WriteBytes(sig)
		}
	} else {
		bw.WriteB(0) // state-service "vote"-like blob
		bw.WriteU64LE(w.ctr)
	}
	e.Data = bw.Bytes()
	return e
}

// signOK attaches a correct witness. Single-key dBFT payloads are signed by the consensus package's own code.
func (w *world) signOK(e *npayload.Extensible, s *sender, subset int) error {
	if len(s.keys) == 1 && s.m == 1 && bytes.Equal(s.script, s.keys[0].PublicKey().GetVerificationScript()) {
		if e.Category == npayload.ConsensusCategory {
			p := consensus.NewPayload(w.net.Magic, false)
			r := io.NewBinReaderFromBuf(encode(e))
			p.DecodeBinary(r)
			if r.Err != nil {
				return fmt.Errorf("crafted dBFT message does not decode as consensus.Payload: %w", r.Err)
			}
			if err := p.Sign(s.keys[0]); err != nil {
				return err
			}
			if p.Hash() != e.Hash() {
				return errors.New("consensus.Payload changed the payload hash")
			}
			e.Witness = p.Witness
			return nil
		}
		e.Witness = transaction.Witness{InvocationScript: pushSig(s.keys[0].SignHashable(uint32(w.net.Magic), e)), VerificationScript: s.script}
		return nil
	}
	// multi-signature: m signatures in key order, starting at key `subset`
	var inv []byte
	n := 0
	for i := subset; i < len(s.keys) && n < s.m; i++ {
		inv = append(inv, pushSig(s.keys[i].SignHashable(uint32(w.net.Magic), e))...)
		n++
	}
	if n < s.m {
		return errors.New("not enough keys for the subset")
	}
	e.Witness = transaction.Witness{InvocationScript: inv, VerificationScript: s.script}
	return nil
}

var badKinds = []string{"badsig", "wrongscript", "empty", "garbage", "rewindow"}

// build realises payload a. twin (may be nil) is the earlier payload whose content (hash) it shares.
func (w *world) build(base uint32, a APayload, twin *built) (*built, error) {
	s := w.senders[a.Sender]
	if s == nil {
		return nil, fmt.Errorf("unknown sender %q", a.Sender)
	}
	var e *npayload.Extensible
	if twin != nil {
		var err error
		if e, err = decode(twin.raw); err != nil {
			return nil, err
		}
		e.Witness = transaction.Witness{}
	} else {
		e = w.content(base, a)
	}
	kind := a.Wit
	if kind == "" {
		if a.Witok {
			kind = "ok"
			if twin != nil && twin.a.Witok && len(s.keys) > s.m {
				kind = "ok2"
			}
		} else {
			kind = badKinds[a.ID%len(badKinds)]
		}
	}
	if kind == "rewindow" && twin != nil {
		kind = "badsig" // the content of a twin is fixed
	}
	if len(s.keys) > 1 || !bytes.Equal(s.script, s.keys[0].PublicKey().GetVerificationScript()) {
		switch kind {
		case "badsig", "garbage", "rewindow", "wrongscript":
			kind = "under"
		}
	}
	switch kind {
	case "ok":
		if err := w.signOK(e, s, 0); err != nil {
			return nil, err
		}
	case "ok2": // another valid witness of a multi-signature account (same hash)
		if err := w.signOK(e, s, len(s.keys)-s.m); err != nil {
			return nil, err
		}
	case "under": // one signature short
		if err := w.signOK(e, s, 0); err != nil {
			return nil, err
		}
		if s.m > 1 {
			e.Witness.InvocationScript = e.Witness.InvocationScript[:len(e.Witness.InvocationScript)-66]
		} else {
			e.Witness.InvocationScript = pushSig(w.foreign.SignHashable(uint32(w.net.Magic), e))
		}
	case "badsig": // signed by somebody else, verification script of the sender
		e.Witness = transaction.Witness{InvocationScript: pushSig(w.foreign.SignHashable(uint32(w.net.Magic), e)), VerificationScript: s.script}
	case "wrongscript": // a perfectly valid witness - of another account
		e.Witness = transaction.Witness{InvocationScript: pushSig(w.foreign.SignHashable(uint32(w.net.Magic), e)),
			VerificationScript: w.foreign.PublicKey().GetVerificationScript()}
	case "empty":
		e.Witness = transaction.Witness{InvocationScript: []byte{}, VerificationScript: []byte{}}
	case "garbage":
		e.Witness = transaction.Witness{InvocationScript: pushSig(make([]byte, 64)), VerificationScript: s.script}
	case "rewindow": // a correctly signed payload whose window was widened afterwards
		e.ValidBlockEnd--
		e = cloneContent(e)
		if err := w.signOK(e, s, 0); err != nil {
			return nil, err
		}
		wit := e.Witness
		e.ValidBlockEnd++
		e = cloneContent(e)
		e.Witness = wit
	default:
		return nil, fmt.Errorf("unknown witness kind %q", kind)
	}
	raw := encode(e)
	x, err := decode(raw)
	if err != nil {
		return nil, err
	}
	a.Wit = kind
	return &built{a: a, raw: raw, hash: x.Hash()}, nil
}

// cloneContent returns a copy without the cached hash.
func cloneContent(e *npayload.Extensible) *npayload.Extensible {
	return &npayload.Extensible{Category: e.Category, ValidBlockStart: e.ValidBlockStart, ValidBlockEnd: e.ValidBlockEnd,
		Sender: e.Sender, Data: e.Data, Witness: e.Witness}
}

// witnessOracle decides, without the VM and without the ledger, whether the witness of x is a correct witness for the
// named sender: the verification script is the account's script and the invocation script is exactly m pushes of
// signatures that verify (in key order) over the payload.
func (w *world) witnessOracle(x *npayload.Extensible, s *sender) bool {
	if s == nil || !bytes.Equal(x.Witness.VerificationScript, s.script) || hash.Hash160(x.Witness.VerificationScript) != x.Sender {
		return false
	}
	inv := x.Witness.InvocationScript
	var sigs [][]byte
	for len(inv) > 0 {
		if len(inv) < 66 || inv[0] != byte(opcode.PUSHDATA1) || inv[1] != 64 {
			return false
		}
		sigs = append(sigs, inv[2:66])
		inv = inv[66:]
	}
	if len(sigs) != s.m {
		return false
	}
	k := 0
	for _, sig := range sigs {
		for k < len(s.keys) && !s.keys[k].PublicKey().VerifyHashable(sig, uint32(w.net.Magic), x) {
			k++
		}
		if k == len(s.keys) {
			return false
		}
		k++
	}
	return true
}

func errClass(err error) string {
	switch {
	case err == nil:
		return ""
	case errors.Is(err, extpool.ErrInvalidHeight):
		return "height"
	case err.Error() == "disallowed sender":
		return "sender"
	}
	return "witness"
}

// ---------------------------------------------------------------- one history

type hworld struct {
	w      *world
	pool   *extpool.Pool
	base   uint32
	ps     []*built               // index id-1
	hidOf  map[util.Uint256]int   // hash -> hid (smallest id with that hash)
	hashes map[int]util.Uint256   // hid -> hash
	hids   []int                  // sorted
	idOf   map[string]int         // wire bytes -> id
	cats   []string
}

func (h *hworld) observe() (known []int, served [][2]int, listed []int) {
	known, served, listed = []int{}, [][2]int{}, []int{}
	for _, hid := range h.hids {
		got := h.pool.Get(h.hashes[hid])
		if got == nil {
			continue
		}
		known = append(known, hid)
		served = append(served, [2]int{hid, h.idOf[string(encode(got))]})
	}
	for _, c := range h.cats {
		for _, x := range h.pool.GetCategory(c) {
			listed = append(listed, h.hidOf[x]) // 0 for a hash never offered
		}
	}
	sort.Ints(listed)
	return
}

func sameInts(a, b []int) bool {
	if len(a) != len(b) {
		return false
	}
	for i := range a {
		if a[i] != b[i] {
			return false
		}
	}
	return true
}

func (w *world) runHistory(res *vh.Result, tr *vh.Trace, src string, hist []Step) {
	if len(hist) == 0 || hist[0].Op != "init" {
		return
	}
	t := w.t
	h := &hworld{w: w, base: w.bc.BlockHeight(), hidOf: map[util.Uint256]int{}, hashes: map[int]util.Uint256{}, idOf: map[string]int{}}
	catSeen := map[string]bool{}
	for i, a := range hist[0].Payloads {
		a.ID = i + 1
		if a.Cat == "" {
			a.Cat = npayload.ConsensusCategory
			if a.Sender[0] == 'S' {
				a.Cat = stateCategory
			}
		}
		var twin *built
		if a.Hid != 0 && a.Hid != a.ID {
			if a.Hid > i {
				t.Fatalf("%s: payload %d names a later twin", src, a.ID)
			}
			twin = h.ps[a.Hid-1]
		}
		b, err := w.build(h.base, a, twin)
		if err != nil {
			t.Fatalf("%s: cannot build payload %d: %v", src, a.ID, err)
		}
		h.ps = append(h.ps, b)
		if _, ok := h.hidOf[b.hash]; !ok {
			h.hidOf[b.hash] = a.ID
			h.hashes[a.ID] = b.hash
			h.hids = append(h.hids, a.ID)
		}
		h.idOf[string(b.raw)] = a.ID
		if !catSeen[a.Cat] {
			catSeen[a.Cat] = true
			h.cats = append(h.cats, a.Cat)
		}
	}
	// the table of the trace is read back from the real payload objects
	table := []any{}
	for _, b := range h.ps {
		x, _ := decode(b.raw)
		name, ok := w.byHash[x.Sender]
		if !ok {
			name = "?"
		}
		start := 0
		if x.ValidBlockStart != 0 {
			start = int(x.ValidBlockStart) - int(h.base)
		}
		witok := w.witnessOracle(x, w.senders[name])
		if built := b.a.Wit == "ok" || b.a.Wit == "ok2"; built != witok || witok != b.a.Witok {
			t.Fatalf("%s: payload %d (%s, witness kind %s): built as valid=%v, universe says %v, independent check says %v", src, b.a.ID, name, b.a.Wit, built, b.a.Witok, witok)
		}
		if b.a.Hid != 0 && h.hidOf[x.Hash()] != b.a.Hid {
			t.Fatalf("%s: payload %d: hash identity %d, universe says %d", src, b.a.ID, h.hidOf[x.Hash()], b.a.Hid)
		}
		table = append(table, map[string]any{"id": b.a.ID, "hid": h.hidOf[x.Hash()], "sender": name, "start": start,
			"end": int(x.ValidBlockEnd) - int(h.base), "witok": witok, "wit": b.a.Wit, "cat": x.Category})
	}
	if hist[0].Allowed != nil {
		in := map[string]bool{}
		for _, n := range hist[0].Allowed {
			in[n] = true
		}
		for _, b := range h.ps {
			if in[b.a.Sender] != w.senders[b.a.Sender].allowed {
				t.Fatalf("%s: the model's Allowed set disagrees with the network about %s", src, b.a.Sender)
			}
		}
	}
	allowed := []string{}
	for n, s := range w.senders {
		if s.allowed {
			allowed = append(allowed, n)
		}
	}
	sort.Strings(allowed)
	h.pool = extpool.New(w.bc, hist[0].Cap, func([]util.Uint256) {})
	tr.Emit(map[string]any{"event": "init", "payloads": table, "cap": hist[0].Cap, "allowed": allowed, "src": src, "base": h.base})
	noted := 0
	var opsDone []any
	for si, st := range hist[1:] {
		var (
			isNew   bool
			opErr   error
			got     *npayload.Extensible
			paniced any
		)
		rel := int(w.bc.BlockHeight()) - int(h.base)
		if st.Op == "advance" {
			w.e.AddNewBlock(t)
			rel++
		}
		func() {
			defer func() { paniced = recover() }()
			switch st.Op {
			case "add":
				x, err := decode(h.ps[st.P-1].raw) // a fresh object per delivery, as after the wire
				if err != nil {
					t.Fatal(err)
				}
				isNew, opErr = h.pool.Add(x)
			case "stale":
				h.pool.RemoveStale(h.base + uint32(st.P))
				noted = st.P
			case "get":
				got = h.pool.Get(h.hashes[st.P])
			}
		}()
		opsDone = append(opsDone, map[string]any{"op": st.Op, "p": st.P})
		if paniced != nil {
			res.Violate(map[string]any{"kind": "panic", "part": "extpool", "op": st.Op},
				fmt.Sprintf("Go panic escaped extpool.Pool.%s: %v", st.Op, paniced),
				map[string]any{"payloads": table, "cap": hist[0].Cap, "ops": opsDone, "src": src})
			return // the pool lock may still be held
		}
		if st.Op == "get" {
			pid := 0
			if got != nil {
				pid = h.idOf[string(encode(got))]
				if pid == 0 {
					pid = -1
				}
			}
			tr.Emit(map[string]any{"event": "get", "hid": st.P, "pid": pid})
			res.Count([]any{src[:3], "get", st.P, got != nil})
			continue
		}
		known, served, listed := h.observe()
		ev := map[string]any{"event": st.Op, "h": rel, "known": known, "served": served, "listed": listed}
		switch st.Op {
		case "add":
			ev["p"], ev["acc"], ev["isnew"], ev["err"] = st.P, isNew && opErr == nil, isNew, errClass(opErr)
			if opErr != nil {
				ev["errtext"] = opErr.Error()
			}
		case "stale":
			ev["idx"] = st.P
		}
		tr.Emit(ev)
		res.Count([]any{src[:3], st.Op, st.P, known, rel - noted})
		if src[:3] == "tlc" {
			// drift: prediction of the implementation-shaped model
			sort.Ints(st.Known)
			acc := isNew && opErr == nil
			if !sameInts(st.Known, known) || (st.Op == "add" && (st.Acc != acc || st.Err != errClass(opErr) || (isNew && opErr != nil))) || st.H != rel {
				res.AddDrift(map[string]any{"part": "extpool", "src": src, "step": si + 1, "op": st.Op, "p": st.P, "predicted_known": st.Known,
					"predicted_acc": st.Acc, "predicted_err": st.Err, "observed_known": known, "observed_acc": acc, "observed_err": errClass(opErr)})
				res.Inc("extpool_drift", 1)
			}
		}
	}
	res.Traces++
	if res.Traces%40 == 1 {
		res.Sample(map[string]any{"part": "extpool", "src": src, "cap": hist[0].Cap, "base": h.base, "payloads": table, "ops": opsDone})
	}
}

// ---------------------------------------------------------------- random universes

func randomHistory(r *rand.Rand) []Step {
	names := []string{"V0", "V1", "V2", "V3", "C4", "VM", "CM", "S0", "S1", "SM", "X0", "X1"}
	r.Shuffle(len(names), func(i, j int) { names[i], names[j] = names[j], names[i] })
	ns := 2 + r.Intn(4)
	snd := names[:ns]
	if r.Intn(2) == 0 { // a busy validator
		snd = append(snd, "V"+fmt.Sprint(r.Intn(4)))
	}
	maxH := 2 + r.Intn(5)
	n := 8 + r.Intn(11)
	var ps []APayload
	for i := 0; i < n; i++ {
		a := APayload{ID: i + 1, Sender: snd[r.Intn(len(snd))]}
		if i > 0 && r.Intn(6) == 0 { // a twin: same content, another witness
			t := ps[r.Intn(i)]
			for t.Hid != t.ID {
				t = ps[t.Hid-1]
			}
			a.Sender, a.Start, a.End, a.Hid, a.Cat = t.Sender, t.Start, t.End, t.ID, t.Cat
			if r.Intn(4) == 0 {
				a.Wit = "ok"
				if (a.Sender == "VM" || a.Sender == "CM") && t.Wit == "ok" {
					a.Wit = "ok2"
				}
			} else {
				a.Wit = []string{"badsig", "wrongscript", "empty", "garbage", "under"}[r.Intn(5)]
			}
		} else {
			a.Hid = a.ID
			switch k := r.Intn(10); {
			case k < 6: // dBFT style: valid until block End
				a.Start, a.End = 0, 1+r.Intn(maxH+1)
			case k < 9:
				a.Start = r.Intn(maxH + 1)
				a.End = a.Start + 1 + r.Intn(maxH+1-a.Start)
			default: // empty or inverted window
				a.Start = 1 + r.Intn(maxH)
				a.End = a.Start - r.Intn(2)
			}
			if r.Intn(4) == 0 {
				a.Wit = []string{"badsig", "wrongscript", "empty", "garbage", "rewindow", "under"}[r.Intn(6)]
			} else {
				a.Wit = "ok"
			}
			if a.Sender[0] == 'S' || r.Intn(8) == 0 {
				a.Cat = stateCategory
			} else {
				a.Cat = npayload.ConsensusCategory
			}
		}
		a.Witok = a.Wit == "ok" || a.Wit == "ok2"
		ps = append(ps, a)
	}
	hist := []Step{{Op: "init", Payloads: ps, Cap: 1 + r.Intn(4)}}
	height, noted := 0, 0
	nops := 25 + r.Intn(35)
	var offered []int
	for i := 0; i < nops; i++ {
		switch k := r.Intn(20); {
		case k < 13:
			p := 1 + r.Intn(n)
			if len(offered) > 0 && r.Intn(3) == 0 {
				p = offered[r.Intn(len(offered))] // re-delivery
			}
			offered = append(offered, p)
			hist = append(hist, Step{Op: "add", P: p})
		case k < 16:
			if height < maxH {
				height++
				hist = append(hist, Step{Op: "advance"})
				if r.Intn(4) != 0 { // usually the notification follows at once
					noted++
					hist = append(hist, Step{Op: "stale", P: noted})
				}
			}
		case k < 18:
			if noted < height {
				noted++
				hist = append(hist, Step{Op: "stale", P: noted})
			}
		default:
			hid := ps[r.Intn(n)].Hid
			hist = append(hist, Step{Op: "get", P: hid})
		}
	}
	return hist
}

func TestDriver(t *testing.T) {
	res := vh.NewResult()
	tr := vh.NewTrace("trace.ndjson")
	w := newWorld(t)
	defer w.bc.Close()
	var behaviours [][]Step
	if vh.InDir() != "" {
		if err := vh.ReadJSON("behaviours.json", &behaviours); err != nil {
			t.Logf("no behaviours: %v", err)
		}
	}
	for i, h := range behaviours {
		w.runHistory(res, tr, fmt.Sprintf("tlc-%d", i), h)
	}
	res.Inc("extpool_replayed_behaviours", len(behaviours))
	nr := vh.EnvInt("VERIF_RANDOM", 100)
	r := vh.Rand(1919)
	for i := 0; i < nr; i++ {
		w.runHistory(res, tr, fmt.Sprintf("rnd-%d", i), randomHistory(r))
	}
	res.Inc("extpool_random_histories", nr)
	res.Inc("extpool_ledger_height", int(w.bc.BlockHeight()))
	tr.Close()
	sort.Strings(res.Distinct)
	if err := res.Write(); err != nil {
		t.Fatal(err)
	}
}
