// Package c08notarysvc binds spec/notarysvc to the real node: the REAL notary service (pkg/services/notary) attached to
// a real core.Blockchain (P2PSigExtensions on) and to the real notary request pool of a real, never started
// network.Server (built as harness/c08notary builds them: real deposits, a designated notary node). Requests enter
// through Server.RelayP2PNotaryRequest; the service hears of them through the pool's own event dispatcher and of blocks
// through the chain's own dispatcher (its real mainLoop / newTxCallbackLoop goroutines run); what it sends arrives in
// the harness' onTransaction callback, is examined with the real ledger (VerifyWitness, VerifyTx) and offered to the
// real memory pool (PoolTx), from which blocks are made. Nothing of the service is transcribed.
package c08notarysvc

import (
	"errors"
	"fmt"
	"math"
	"os"
	"path/filepath"
	"slices"
	"sort"
	"sync"
	"sync/atomic"
	"testing"
	"time"

	"verifharness/internal/chainkit"
	"verifharness/internal/vh"

	"github.com/nspcc-dev/neo-go/pkg/config"
	"github.com/nspcc-dev/neo-go/pkg/core"
	"github.com/nspcc-dev/neo-go/pkg/core/mempool"
	"github.com/nspcc-dev/neo-go/pkg/core/native/nativehashes"
	"github.com/nspcc-dev/neo-go/pkg/core/native/nativeids"
	"github.com/nspcc-dev/neo-go/pkg/core/native/nativenames"
	"github.com/nspcc-dev/neo-go/pkg/core/native/noderoles"
	"github.com/nspcc-dev/neo-go/pkg/core/state"
	"github.com/nspcc-dev/neo-go/pkg/core/transaction"
	"github.com/nspcc-dev/neo-go/pkg/crypto/hash"
	"github.com/nspcc-dev/neo-go/pkg/crypto/keys"
	"github.com/nspcc-dev/neo-go/pkg/neotest"
	"github.com/nspcc-dev/neo-go/pkg/network"
	"github.com/nspcc-dev/neo-go/pkg/network/payload"
	"github.com/nspcc-dev/neo-go/pkg/services/notary"
	"github.com/nspcc-dev/neo-go/pkg/smartcontract"
	"github.com/nspcc-dev/neo-go/pkg/smartcontract/trigger"
	"github.com/nspcc-dev/neo-go/pkg/util"
	"github.com/nspcc-dev/neo-go/pkg/vm/opcode"
	"github.com/nspcc-dev/neo-go/pkg/vm/stackitem"
	"github.com/nspcc-dev/neo-go/pkg/wallet"
	"go.uber.org/zap"
)

const (
	gas        = int64(1_0000_0000)
	unit       = int64(1000_0000) // one model fee unit = 0.1 GAS
	walletPass = "verif"
)

// AWit is one witness slot of a main transaction: "sig" (one key), "multi" (m of keys), "notary".
type AWit struct {
	T    string   `json:"t"`
	M    int      `json:"m"`
	Keys []string `json:"keys"`
}

// AMain is the abstract main transaction.
type AMain struct {
	Wits []AWit `json:"wits"`
	Vub  int    `json:"vub"` // relative height
	Nk   int    `json:"nk"`  // declared NKeys minus the real number of keys (0 = consistent)
}

// AReq is the abstract request: the copy of main transaction `main` that depositor `dep` sends together with its fallback.
type AReq struct {
	Main int    `json:"main"`
	Dep  string `json:"dep"`
	Nvb  int    `json:"nvb"`  // NotValidBefore of the fallback, relative
	Fee  int    `json:"fee"`  // network fee level of the fallback (pool priority), model units
	W    int    `json:"w"`    // witness slot (1-based) the copy carries a signature in; 0 = none
	Key  string `json:"key"`  // whose signature
	Sig  string `json:"sig"`  // "good" | "bad" (signature of Key over something else) | "none"
	Form string `json:"form"` // "ok" | "badverif" (slot W has a foreign verification script) | "badinv" (67-byte invocation in slot W)
	// | "dummy" (Notary slot carries the 64-zero-byte placeholder, which is for fallbacks only) | "twosigs" (two signatures in slot W)
}

// Universe is what an init step carries.
type Universe struct {
	Mains []AMain          `json:"mains"`
	Reqs  []AReq           `json:"reqs"`
	Cap   int              `json:"cap"`
	Delta int              `json:"delta"`
	Desig []string         `json:"desig"` // initially designated notary keys (names K1..K3; K1, K2 are in the service's wallet)
	Deps  map[string]int64 `json:"deps"`  // deposits in model units (0.1 GAS); a depositor not listed gets an ample one
}

var (
	coNames  = []string{"A", "B", "C", "D", "E"}
	nkNames  = []string{"K1", "K2", "K3"}
	inWallet = []string{"K1", "K2"}
)

type realReq struct {
	a        AReq
	main     *transaction.Transaction // this request's copy of the main transaction
	fallback *transaction.Transaction
	raw      []byte
}

type realMain struct {
	a    AMain
	tmpl *transaction.Transaction // hashable part + verification scripts, no signatures
	hash util.Uint256
	vs   [][]byte // verification scripts per slot (nil for Notary)
}

// World is one chain + server + notary service.
type World struct {
	t      testing.TB
	net    *chainkit.Net
	bc     *core.Blockchain
	e      *neotest.Executor
	srv    *network.Server
	pool   *mempool.Pool
	nk     map[string]*keys.PrivateKey
	co     map[string]*wallet.Account
	u      Universe
	base   uint32
	mains  []*realMain
	reqs   []*realReq
	mainID map[util.Uint256]int
	fbID   map[util.Uint256]int
	nonce  uint32
	svc    *notary.Notary
	gMain  int64 // goroutine ids of the running service
	gTx    int64
	mu     sync.Mutex // guards events / sends
	events []map[string]any
	sends  []map[string]any // sends since the last settle
	failTx atomic.Bool      // make the next onTransaction calls fail (a relay error)
	gen    int              // service generation (restarts)
}

func coKey(n string) *keys.PrivateKey { return chainkit.Key("c08s-co-" + n) }
func nkKey(n string) *keys.PrivateKey { return chainkit.Key("c08s-notary-" + n) }

var (
	walletOnce sync.Once
	walletFile string
	walletErr  error
)

// serviceWallet writes (once per process) the wallet of the notary node: accounts K1 and K2, encrypted with cheap scrypt
// parameters (the file carries them).
func serviceWallet() (string, error) {
	walletOnce.Do(func() {
		dir := vh.OutDir()
		if dir == "" {
			dir = os.TempDir()
		}
		walletFile = filepath.Join(dir, "notary-wallet.json")
		_ = os.Remove(walletFile)
		wl, err := wallet.NewWallet(walletFile)
		if err != nil {
			walletErr = err
			return
		}
		wl.Scrypt = keys.ScryptParams{N: 2, R: 1, P: 1}
		for _, n := range inWallet {
			acc := wallet.NewAccountFromPrivateKey(nkKey(n))
			if err := acc.Encrypt(walletPass, wl.Scrypt); err != nil {
				walletErr = err
				return
			}
			acc.Label = n
			wl.AddAccount(acc)
		}
		walletErr = wl.Save()
		wl.Close()
	})
	return walletFile, walletErr
}

// NewWorld builds the chain (funding, designation, MaxNotValidBeforeDelta, deposits), the server, the transactions of
// the universe and a started notary service.
func NewWorld(t testing.TB, u Universe) (w *World, err error) {
	defer func() {
		if r := recover(); r != nil {
			err = fmt.Errorf("world construction panicked: %v", r)
		}
	}()
	w = &World{t: t, net: chainkit.NewNet(1, 1), u: u, nk: map[string]*keys.PrivateKey{}, co: map[string]*wallet.Account{},
		mainID: map[util.Uint256]int{}, fbID: map[util.Uint256]int{}}
	w.bc, err = w.net.NewChain(nil, func(c *config.Blockchain) {
		c.P2PNotaryRequestPayloadPoolSize = u.Cap
	})
	if err != nil {
		return nil, err
	}
	chainkit.Start(w.bc)
	w.srv, err = network.NewServer(network.ServerConfig{Addresses: []config.AnnounceableAddress{{Address: "127.0.0.1:0"}}, MinPeers: 0},
		w.bc, w.bc.GetStateSyncModule(), zap.NewNop())
	if err != nil {
		w.bc.Close()
		return nil, err
	}
	w.pool = w.srv.GetNotaryPool()
	w.e = w.net.Executor(t, w.bc)
	for _, n := range nkNames {
		w.nk[n] = nkKey(n)
	}
	for _, n := range coNames {
		w.co[n] = wallet.NewAccountFromPrivateKey(coKey(n))
	}
	gasH := w.e.NativeHash(t, nativenames.Gas)
	val := []neotest.Signer{w.e.Validator}
	cmt := []neotest.Signer{w.e.Committee}
	// the transactions of the universe (hashable parts only: their senders must be funded)
	w.base = 3
	for i := range u.Mains {
		m, err := w.buildMain(i+1, u.Mains[i])
		if err != nil {
			return w, err
		}
		w.mains = append(w.mains, m)
		w.mainID[m.hash] = i + 1
	}
	// block 1: funding (co-signers, main senders, committee)
	var txs []*transaction.Transaction
	funded := map[util.Uint160]bool{}
	fund := func(h util.Uint160) {
		if !funded[h] {
			funded[h] = true
			txs = append(txs, w.prepTx(val, gasH, "transfer", w.e.Validator.ScriptHash(), h, 1000*gas, nil))
		}
	}
	for _, n := range coNames {
		fund(w.co[n].ScriptHash())
	}
	fund(w.e.Committee.ScriptHash())
	for _, m := range w.mains {
		fund(m.tmpl.Sender())
	}
	if err = w.addBlock(true, txs...); err != nil {
		return w, err
	}
	// block 2: the notary nodes and the NotValidBefore window
	txs = []*transaction.Transaction{
		w.desigTx(u.Desig),
		w.prepTx(cmt, nativehashes.Notary, "setMaxNotValidBeforeDelta", int64(u.Delta)),
	}
	if err = w.addBlock(true, txs...); err != nil {
		return w, err
	}
	// block 3: deposits; heights of the universe are relative to this block
	if w.bc.BlockHeight()+1 != w.base {
		return w, fmt.Errorf("base height is %d, expected %d", w.bc.BlockHeight()+1, w.base)
	}
	txs = nil
	for _, n := range coNames {
		s := neotest.NewSingleSigner(w.co[n])
		amt := 200 * gas
		if d, ok := u.Deps[n]; ok && d > 0 {
			amt = d * unit
		}
		txs = append(txs, w.prepTx([]neotest.Signer{s}, gasH, "transfer", s.ScriptHash(), nativehashes.Notary, amt, []any{nil, int64(w.base + 1000)}))
	}
	if err = w.addBlock(true, txs...); err != nil {
		return w, err
	}
	for i := range u.Reqs {
		r, err := w.buildReq(i+1, u.Reqs[i])
		if err != nil {
			return w, err
		}
		w.reqs = append(w.reqs, r)
		w.fbID[r.fallback.Hash()] = i + 1
	}
	w.pool.RunSubscriptions()
	if err = w.startService(); err != nil {
		return w, err
	}
	return w, nil
}

func (w *World) Close() {
	if w.svc != nil {
		w.stopService()
	}
	if w.pool != nil {
		w.pool.StopSubscriptions()
	}
	if w.bc != nil {
		w.bc.Close()
	}
}

func (w *World) rel() int { return int(w.bc.BlockHeight()) - int(w.base) }

func (w *World) prepTx(signers []neotest.Signer, h util.Uint160, method string, args ...any) *transaction.Transaction {
	tx := w.e.NewUnsignedTx(w.t, h, method, args...)
	w.nonce++
	tx.Nonce = 0x7100_0000 + w.nonce
	tx.ValidUntilBlock = w.bc.BlockHeight() + 20
	tx.NetworkFee = gas / 10
	return w.e.SignTx(w.t, tx, 2*gas, signers...)
}

func (w *World) desigTx(names []string) *transaction.Transaction {
	pubs := []any{}
	for _, n := range names {
		pubs = append(pubs, w.nk[n].PublicKey().Bytes())
	}
	return w.prepTx([]neotest.Signer{w.e.Committee}, w.e.NativeHash(w.t, nativenames.Designation), "designateAsRole", int64(noderoles.P2PNotary), pubs)
}

// addBlock makes the next block of txs through the wire form; mustHalt also checks every transaction HALTed.
func (w *World) addBlock(mustHalt bool, txs ...*transaction.Transaction) error {
	b, err := w.net.NewBlock(w.bc, 1, txs...)
	if err != nil {
		return err
	}
	raw, err := chainkit.EncodeBlock(b)
	if err != nil {
		return err
	}
	d, err := chainkit.DecodeBlock(raw, false)
	if err != nil {
		return err
	}
	if err := w.bc.AddBlock(d); err != nil {
		return fmt.Errorf("block %d rejected: %w", b.Index, err)
	}
	for _, tx := range txs {
		if !mustHalt {
			break
		}
		aer, err := w.bc.GetAppExecResults(tx.Hash(), trigger.Application)
		if err != nil || len(aer) == 0 || aer[0].VMState.String() != "HALT" {
			return fmt.Errorf("tx %s in block %d did not HALT: %v %v", tx.Hash().StringLE(), b.Index, err, faultOf(aer))
		}
	}
	return nil
}

func faultOf(aer []state.AppExecResult) string {
	if len(aer) == 0 {
		return ""
	}
	return aer[0].FaultException
}

func sigInv(sig []byte) []byte {
	return append([]byte{byte(opcode.PUSHDATA1), keys.SignatureLen}, sig...)
}

func dummyNotaryWitness() transaction.Witness {
	return transaction.Witness{InvocationScript: sigInv(make([]byte, keys.SignatureLen)), VerificationScript: []byte{}}
}

// witScript returns the verification script of a slot (nil for the Notary slot).
func (w *World) witScript(a AWit) ([]byte, error) {
	switch a.T {
	case "notary":
		return nil, nil
	case "sig":
		if len(a.Keys) != 1 || w.co[a.Keys[0]] == nil {
			return nil, fmt.Errorf("bad sig slot %v", a)
		}
		return w.co[a.Keys[0]].PublicKey().GetVerificationScript(), nil
	case "multi":
		pubs := keys.PublicKeys{}
		for _, k := range a.Keys {
			if w.co[k] == nil {
				return nil, fmt.Errorf("unknown key %q", k)
			}
			pubs = append(pubs, w.co[k].PublicKey())
		}
		return smartcontract.CreateMultiSigRedeemScript(a.M, pubs)
	}
	return nil, fmt.Errorf("unknown slot type %q", a.T)
}

func (w *World) buildMain(id int, a AMain) (*realMain, error) {
	m := &realMain{a: a}
	tx := transaction.New([]byte{byte(opcode.PUSH1), byte(opcode.RET)}, gas/100)
	tx.Nonce = uint32(5000 + id)
	tx.ValidUntilBlock = w.base + uint32(a.Vub)
	tx.NetworkFee = 10 * gas // more than all its fallbacks together: it outbids them in the memory pool
	nkeys := 0
	for i, s := range a.Wits {
		vs, err := w.witScript(s)
		if err != nil {
			return nil, fmt.Errorf("main %d slot %d: %w", id, i+1, err)
		}
		m.vs = append(m.vs, vs)
		acc := nativehashes.Notary
		if vs != nil {
			acc = hash.Hash160(vs)
			nkeys += len(s.Keys)
		}
		tx.Signers = append(tx.Signers, transaction.Signer{Account: acc, Scopes: transaction.None})
		tx.Scripts = append(tx.Scripts, transaction.Witness{InvocationScript: []byte{}, VerificationScript: slices.Clone(vs)})
	}
	if nkeys+a.Nk < 1 || nkeys+a.Nk > 255 {
		return nil, fmt.Errorf("main %d: NKeys %d out of range", id, nkeys+a.Nk)
	}
	tx.Attributes = []transaction.Attribute{{Type: transaction.NotaryAssistedT, Value: &transaction.NotaryAssisted{NKeys: uint8(nkeys + a.Nk)}}}
	m.tmpl = tx
	m.hash = tx.Hash()
	return m, nil
}

// otherSig returns a well-formed signature of key k that does not verify against h's hash.
func (w *World) otherSig(k *keys.PrivateKey, tx *transaction.Transaction) []byte {
	c := tx.Copy()
	c.Nonce ^= 0x5a5a5a5a
	return k.SignHashable(uint32(w.net.Magic), c)
}

func (w *World) buildReq(id int, a AReq) (*realReq, error) {
	d, ok := w.co[a.Dep]
	if !ok {
		return nil, fmt.Errorf("request %d: unknown depositor %q", id, a.Dep)
	}
	if a.Main < 1 || a.Main > len(w.mains) {
		return nil, fmt.Errorf("request %d: unknown main %d", id, a.Main)
	}
	m := w.mains[a.Main-1]
	main := m.tmpl.Copy()
	magic := uint32(w.net.Magic)
	if a.W != 0 {
		if a.W < 1 || a.W > len(main.Scripts) {
			return nil, fmt.Errorf("request %d: slot %d out of range", id, a.W)
		}
		k, ok := w.co[a.Key]
		if !ok {
			return nil, fmt.Errorf("request %d: unknown key %q", id, a.Key)
		}
		var sig []byte
		switch a.Sig {
		case "good":
			sig = k.PrivateKey().SignHashable(magic, main)
		case "bad":
			sig = w.otherSig(k.PrivateKey(), main)
		case "none":
		default:
			return nil, fmt.Errorf("request %d: unknown sig kind %q", id, a.Sig)
		}
		if sig != nil {
			main.Scripts[a.W-1].InvocationScript = sigInv(sig)
		}
		switch a.Form {
		case "ok", "dummy":
		case "badverif":
			main.Scripts[a.W-1].VerificationScript = w.co["E"].PublicKey().GetVerificationScript()
			if a.Key == "E" {
				main.Scripts[a.W-1].VerificationScript = w.co["A"].PublicKey().GetVerificationScript()
			}
		case "badinv":
			main.Scripts[a.W-1].InvocationScript = append(slices.Clone(main.Scripts[a.W-1].InvocationScript), byte(opcode.NOP))
		case "twosigs":
			main.Scripts[a.W-1].InvocationScript = append(slices.Clone(main.Scripts[a.W-1].InvocationScript), sigInv(w.otherSig(k.PrivateKey(), main))...)
		default:
			return nil, fmt.Errorf("request %d: unknown form %q", id, a.Form)
		}
	}
	if a.Form == "dummy" {
		for i := range main.Signers {
			if main.Signers[i].Account.Equals(nativehashes.Notary) {
				main.Scripts[i] = dummyNotaryWitness()
			}
		}
	}
	fb := transaction.New([]byte{byte(opcode.RET)}, 0)
	fb.Nonce = uint32(9000 + id)
	fb.ValidUntilBlock = main.ValidUntilBlock
	fb.NetworkFee = int64(a.Fee) * unit
	fb.Signers = []transaction.Signer{{Account: nativehashes.Notary, Scopes: transaction.None}, {Account: d.ScriptHash(), Scopes: transaction.None}}
	fb.Attributes = []transaction.Attribute{
		{Type: transaction.NotaryAssistedT, Value: &transaction.NotaryAssisted{NKeys: 0}},
		{Type: transaction.NotValidBeforeT, Value: &transaction.NotValidBefore{Height: w.base + uint32(a.Nvb)}},
		{Type: transaction.ConflictsT, Value: &transaction.Conflicts{Hash: main.Hash()}},
	}
	fb.Scripts = []transaction.Witness{dummyNotaryWitness(), {}}
	fb.Scripts[1] = transaction.Witness{InvocationScript: sigInv(d.PrivateKey().SignHashable(magic, fb)), VerificationScript: d.GetVerificationScript()}
	p := &payload.P2PNotaryRequest{MainTransaction: main, FallbackTransaction: fb}
	p.Witness = transaction.Witness{InvocationScript: sigInv(d.PrivateKey().SignHashable(magic, p)), VerificationScript: d.GetVerificationScript()}
	raw, err := p.Bytes()
	if err != nil {
		return nil, err
	}
	if main.Hash() != m.hash {
		return nil, fmt.Errorf("request %d: copy of main %d has another hash", id, a.Main)
	}
	return &realReq{a: a, main: main, fallback: fb, raw: raw}, nil
}

// Submit hands a fresh wire-decoded copy of request id to the server's handler.
func (w *World) Submit(id int) error {
	p, err := payload.NewP2PNotaryRequestFromBytes(w.reqs[id-1].raw)
	if err != nil {
		return fmt.Errorf("decode: %w", err)
	}
	return w.srv.RelayP2PNotaryRequest(p)
}

// designated returns the names of the notary keys designated for the next block.
func (w *World) designated() []string {
	out := []string{}
	pubs, _, err := w.bc.GetDesignatedByRole(noderoles.P2PNotary)
	if err != nil {
		return out
	}
	for _, n := range nkNames {
		if slices.ContainsFunc(pubs, w.nk[n].PublicKey().Equal) {
			out = append(out, n)
		}
	}
	return out
}

// refMain returns the reference completion of main m: every slot signed by the first keys of the slot, the Notary slot
// by a designated key (any key when none of ours is designated: the ledger will refuse it).
func (w *World) refMain(m *realMain) *transaction.Transaction {
	tx := m.tmpl.Copy()
	magic := uint32(w.net.Magic)
	for i, s := range m.a.Wits {
		switch s.T {
		case "sig":
			tx.Scripts[i].InvocationScript = sigInv(w.co[s.Keys[0]].PrivateKey().SignHashable(magic, tx))
		case "multi":
			ks := []*wallet.Account{}
			for _, k := range s.Keys {
				ks = append(ks, w.co[k])
			}
			sort.Slice(ks, func(a, b int) bool { return ks[a].PublicKey().Cmp(ks[b].PublicKey()) < 0 })
			var inv []byte
			for _, k := range ks[:s.M] {
				inv = append(inv, sigInv(k.PrivateKey().SignHashable(magic, tx))...)
			}
			tx.Scripts[i].InvocationScript = inv
		case "notary":
			tx.Scripts[i] = w.notaryWitness(tx)
		}
	}
	return tx
}

func (w *World) refFallback(r *realReq) *transaction.Transaction {
	tx := r.fallback.Copy()
	tx.Scripts[0] = w.notaryWitness(tx)
	return tx
}

func (w *World) notaryWitness(tx *transaction.Transaction) transaction.Witness {
	k := w.nk["K3"]
	if d := w.designated(); len(d) > 0 {
		k = w.nk[d[0]]
	}
	return transaction.Witness{InvocationScript: sigInv(k.SignHashable(uint32(w.net.Magic), tx)), VerificationScript: []byte{}}
}

func (w *World) onChain(h util.Uint256) bool {
	_, ht, err := w.bc.GetTransaction(h)
	return err == nil && ht != math.MaxUint32
}

// poolIDs lists the requests in the real request pool (pool order).
func (w *World) poolIDs() []int {
	out := []int{}
	for _, tx := range w.pool.GetVerifiedTransactions() {
		out = append(out, w.fbID[tx.Hash()])
	}
	return out
}

// ---------------------------------------------------------------------------------------------------------------
// the service

var startMu sync.Mutex

func (w *World) startService() error {
	path, err := serviceWallet()
	if err != nil {
		return err
	}
	cfg := notary.Config{
		MainCfg: config.P2PNotary{Enabled: true, UnlockWallet: config.Wallet{Path: path, Password: walletPass}},
		Chain:   w.bc,
		Log:     zap.NewNop(),
	}
	w.gen++
	gen := w.gen
	svc, err := notary.NewNotary(cfg, w.net.Magic, w.pool, func(tx *transaction.Transaction) error { return w.onTx(gen, tx) })
	if err != nil {
		return err
	}
	// as cli/server mkP2PNotary does: register with the chain (which tells the service the designated keys), then start
	w.bc.SetNotary(svc)
	startMu.Lock()
	before := serviceGoroutines()
	svc.Start()
	w.svc = svc
	w.gMain, w.gTx = 0, 0
	// the two new goroutines show up under their own names as soon as they have run for the first time
	for try := 0; try < 2000 && (w.gMain == 0 || w.gTx == 0); try++ {
		for id, fn := range serviceGoroutines() {
			if _, old := before[id]; old {
				continue
			}
			switch fn {
			case "mainLoop":
				w.gMain = id
			case "newTxCallbackLoop":
				w.gTx = id
			}
		}
		if w.gMain == 0 || w.gTx == 0 {
			time.Sleep(200 * time.Microsecond)
		}
	}
	startMu.Unlock()
	if w.gMain == 0 || w.gTx == 0 {
		return fmt.Errorf("goroutines of the started service not found (%d, %d)", w.gMain, w.gTx)
	}
	return nil
}

func (w *World) stopService() {
	svc := w.svc
	w.svc = nil
	w.bc.SetNotary(nil)
	svc.Shutdown()
}

// onTx is the service's onTransaction callback: examine the transaction with the real ledger, record, and hand it to the
// real memory pool as the node's callback does (already known transactions are not an error).
func (w *World) onTx(gen int, tx *transaction.Transaction) error {
	ev := w.examine(tx)
	ev["pooled"], ev["dup"] = false, false
	var err error
	if w.failTx.Load() {
		err = errors.New("relay failed (harness)")
	} else {
		err = w.bc.PoolTx(tx)
		ev["pooled"] = err == nil
		if err != nil && (errors.Is(err, core.ErrAlreadyExists) || errors.Is(err, core.ErrAlreadyInPool)) {
			ev["dup"] = true
			err = nil
		}
	}
	ev["ret"] = err == nil
	if err != nil {
		ev["reterr"] = errClass(err)
	}
	ev["gen"] = gen
	w.mu.Lock()
	w.sends = append(w.sends, ev)
	w.mu.Unlock()
	return err
}

// keyOf returns the name of the key (among names) whose signature over tx sig is; "" if none.
func (w *World) keyOf(sig []byte, tx *transaction.Transaction, pubs map[string]*keys.PublicKey, names []string) string {
	h := hash.NetSha256(uint32(w.net.Magic), tx).BytesBE()
	for _, n := range names {
		if pubs[n].Verify(sig, h) {
			return n
		}
	}
	return ""
}

// examine projects a transaction sent by the service onto the abstract send record.
func (w *World) examine(tx *transaction.Transaction) map[string]any {
	ev := map[string]any{"event": "sent", "h": w.rel(), "hash": tx.Hash().StringLE()[:8]}
	var ref *transaction.Transaction
	var m *realMain
	if id, ok := w.mainID[tx.Hash()]; ok {
		m = w.mains[id-1]
		ev["kind"], ev["main"], ev["req"], ev["nvb"] = "main", id, 0, 0
		ref = w.refMain(m)
	} else if id, ok := w.fbID[tx.Hash()]; ok {
		r := w.reqs[id-1]
		ev["kind"], ev["main"], ev["req"] = "fb", r.a.Main, id
		nvb := 0
		if at := tx.GetAttributes(transaction.NotValidBeforeT); len(at) > 0 {
			nvb = int(at[0].Value.(*transaction.NotValidBefore).Height) - int(w.base)
		}
		ev["nvb"] = nvb
		ref = w.refFallback(r)
	} else {
		ev["kind"], ev["main"], ev["req"], ev["nvb"] = "unknown", 0, 0, 0
	}
	// every witness judged by the real ledger
	wok := []bool{}
	nkey := ""
	used := []map[string]any{}
	nkPubs := map[string]*keys.PublicKey{}
	for n, k := range w.nk {
		nkPubs[n] = k.PublicKey()
	}
	coPubs := map[string]*keys.PublicKey{}
	for n, a := range w.co {
		coPubs[n] = a.PublicKey()
	}
	okShape := len(tx.Scripts) == len(tx.Signers)
	for i := range tx.Signers {
		if !okShape {
			break
		}
		_, err := w.bc.VerifyWitness(tx.Signers[i].Account, tx, &tx.Scripts[i], w.bc.GetMaxVerificationGAS())
		wok = append(wok, err == nil)
		inv := tx.Scripts[i].InvocationScript
		if tx.Signers[i].Account.Equals(nativehashes.Notary) {
			if len(inv) == 66 {
				nkey = w.keyOf(inv[2:], tx, nkPubs, nkNames)
			}
			continue
		}
		if m != nil {
			for o := 0; o+66 <= len(inv); o += 66 {
				used = append(used, map[string]any{"w": i + 1, "key": w.keyOf(inv[o+2:o+66], tx, coPubs, coNames)})
			}
		}
	}
	ev["wok"], ev["nkey"], ev["used"] = wok, nkey, used
	ev["desig"] = w.designated()
	ev["admit"] = w.bc.VerifyTx(tx) == nil
	ev["ref"] = ref != nil && w.bc.VerifyTx(ref) == nil
	ev["pool"] = w.poolIDs()
	ev["vub"] = int(tx.ValidUntilBlock) - int(w.base)
	ev["onchain"] = w.onChain(tx.Hash())
	chm, chf := []int{}, []int{}
	for i, mm := range w.mains {
		if w.onChain(mm.hash) {
			chm = append(chm, i+1)
		}
	}
	for i, q := range w.reqs {
		if w.onChain(q.fallback.Hash()) {
			chf = append(chf, i+1)
		}
	}
	ev["chm"], ev["chf"] = chm, chf
	return ev
}

func errClass(err error) string {
	if err == nil {
		return ""
	}
	s := err.Error()
	if len(s) > 140 {
		s = s[:140]
	}
	return s
}

// deposit reads the deposit of a co-signer from the storage of the native Notary contract, in model units (exact).
func (w *World) deposit(name string) (int64, bool) {
	key := append([]byte{1}, w.co[name].ScriptHash().BytesBE()...) // native Notary: prefixDeposit
	si := w.bc.GetStorageItem(nativeids.Notary, key)
	if si == nil {
		return 0, true
	}
	d := new(state.Deposit)
	if err := stackitem.DeserializeConvertible(si, d); err != nil {
		panic(fmt.Sprintf("deposit record of %s unreadable: %v", name, err))
	}
	if !d.Amount.IsInt64() {
		return 0, false
	}
	a := d.Amount.Int64()
	return a / unit, a%unit == 0
}
