package c08notarysvc

import (
	"fmt"
	"slices"
	"sort"
	"time"

	"verifharness/internal/vh"

	"github.com/nspcc-dev/neo-go/pkg/core/native/nativehashes"
	"github.com/nspcc-dev/neo-go/pkg/core/transaction"
	"github.com/nspcc-dev/neo-go/pkg/crypto/hash"
	"github.com/nspcc-dev/neo-go/pkg/crypto/keys"
	"github.com/nspcc-dev/neo-go/pkg/network/payload"
	"github.com/nspcc-dev/neo-go/pkg/smartcontract/scparser"
	"github.com/nspcc-dev/neo-go/pkg/vm/opcode"
)

const settleBound = 20 * time.Second

// runner executes steps on one world and buffers the trace events of the history.
type runner struct {
	w      *World
	res    *vh.Result
	src    string
	events []map[string]any
	ops    []any
	dead   bool // a panic escaped or the service did not come to rest: the history is given up
	unrest bool
}

func (r *runner) guard(op string, f func()) {
	defer func() {
		if p := recover(); p != nil {
			r.dead = true
			r.res.Violate(map[string]any{"kind": "panic", "part": "notarysvc", "op": op},
				fmt.Sprintf("Go panic escaped %s: %v", op, p), map[string]any{"universe": r.w.u, "ops": r.ops, "src": r.src})
		}
	}()
	f()
}

// coName returns the name of the co-signer key with these public key bytes.
func (w *World) coName(pub []byte) string {
	for _, n := range coNames {
		if slices.Equal(w.co[n].PublicKey().Bytes(), pub) {
			return n
		}
	}
	return "?"
}

// projectMain reads the abstract main transaction back from the real one (its hashable part and verification scripts).
func (r *runner) projectMain(id int) map[string]any {
	m := r.w.mains[id-1]
	tx := m.tmpl
	wits := []any{}
	nkeys := 0
	for i := range tx.Signers {
		vs := tx.Scripts[i].VerificationScript
		switch {
		case tx.Signers[i].Account.Equals(nativehashes.Notary):
			wits = append(wits, map[string]any{"t": "notary", "m": 0, "keys": []string{}})
		default:
			if n, pubs, ok := scparser.ParseMultiSigContract(vs); ok {
				ks := []string{}
				for _, p := range pubs {
					ks = append(ks, r.w.coName(p))
				}
				nkeys += len(ks)
				wits = append(wits, map[string]any{"t": "multi", "m": n, "keys": ks})
			} else if p, ok := scparser.ParseSignatureContract(vs); ok {
				nkeys++
				wits = append(wits, map[string]any{"t": "sig", "m": 1, "keys": []string{r.w.coName(p)}})
			} else {
				wits = append(wits, map[string]any{"t": "other", "m": 0, "keys": []string{}})
			}
		}
	}
	declared := 0
	if at := tx.GetAttributes(transaction.NotaryAssistedT); len(at) > 0 {
		declared = int(at[0].Value.(*transaction.NotaryAssisted).NKeys)
	}
	return map[string]any{"id": id, "wits": wits, "vub": int(tx.ValidUntilBlock) - int(r.w.base), "nkeysok": declared == nkeys,
		"hash": tx.Hash().StringLE()[:8]}
}

// projectReq reads the abstract request back from its wire form: which signatures its copy of the main transaction
// carries (slot, whose key - established by verifying against the main transaction's hash - and whether that key
// belongs to the slot), and whether the copy has the documented form of an incomplete main transaction.
func (r *runner) projectReq(id int) map[string]any {
	w := r.w
	q := w.reqs[id-1]
	p, err := payload.NewP2PNotaryRequestFromBytes(q.raw)
	if err != nil {
		return map[string]any{"id": id, "main": q.a.Main, "dep": q.a.Dep, "nvb": q.a.Nvb, "vub": 0, "fee": q.a.Fee, "cost": 0, "exact": false, "sigs": []any{}, "wf": false}
	}
	mt := p.MainTransaction
	m := w.mains[q.a.Main-1]
	coPubs := map[string]*keys.PublicKey{}
	for n, a := range w.co {
		coPubs[n] = a.PublicKey()
	}
	wf := len(mt.Scripts) == len(mt.Signers)
	sigs := []any{}
	for i := range mt.Scripts {
		if !wf {
			break
		}
		inv, vs := mt.Scripts[i].InvocationScript, mt.Scripts[i].VerificationScript
		if mt.Signers[i].Account.Equals(nativehashes.Notary) {
			if len(inv) != 0 || len(vs) != 0 {
				wf = false
			}
			continue
		}
		if !hash.Hash160(vs).Equals(mt.Signers[i].Account) {
			wf = false
		}
		if len(inv) == 0 {
			continue
		}
		if len(inv) != 66 || inv[0] != byte(opcode.PUSHDATA1) || inv[1] != keys.SignatureLen {
			wf = false
			continue
		}
		k := w.keyOf(inv[2:], mt, coPubs, coNames)
		good := k != "" && slices.Contains(m.a.Wits[i].Keys, k)
		sigs = append(sigs, map[string]any{"w": i + 1, "key": k, "good": good})
	}
	fb := p.FallbackTransaction
	nvb := 0
	if at := fb.GetAttributes(transaction.NotValidBeforeT); len(at) > 0 {
		nvb = int(at[0].Value.(*transaction.NotValidBefore).Height) - int(w.base)
	}
	dep := "?"
	for n, a := range w.co {
		if len(fb.Signers) > 1 && a.ScriptHash().Equals(fb.Signers[1].Account) {
			dep = n
		}
	}
	return map[string]any{"id": id, "main": w.mainID[mt.Hash()], "dep": dep, "nvb": nvb, "vub": int(fb.ValidUntilBlock) - int(w.base),
		"fee": fb.NetworkFee / unit, "cost": (fb.NetworkFee + fb.SystemFee) / unit, "exact": (fb.NetworkFee+fb.SystemFee)%unit == 0, "sigs": sigs, "wf": wf}
}

func (r *runner) start() {
	mains, reqs := []any{}, []any{}
	for i := range r.w.mains {
		mains = append(mains, r.projectMain(i+1))
	}
	for i := range r.w.reqs {
		reqs = append(reqs, r.projectReq(i+1))
	}
	ok := r.w.settle(settleBound)
	ev := r.observe()
	ev["event"], ev["mains"], ev["reqs"], ev["cap"], ev["wallet"], ev["src"], ev["quiet"] = "init", mains, reqs, r.w.u.Cap, inWallet, r.src, ok
	r.events = append(r.events, ev)
	if !ok {
		r.giveUp("start")
	}
}

// observe reads the abstract state back from the real pool, the real memory pool and the real chain.
func (r *runner) observe() map[string]any {
	w := r.w
	chm, chf, mpm, mpf := []int{}, []int{}, []int{}, []int{}
	for i, m := range w.mains {
		if w.onChain(m.hash) {
			chm = append(chm, i+1)
		}
		if w.bc.GetMemPool().ContainsKey(m.hash) {
			mpm = append(mpm, i+1)
		}
	}
	for i, q := range w.reqs {
		if w.onChain(q.fallback.Hash()) {
			chf = append(chf, i+1)
		}
		if w.bc.GetMemPool().ContainsKey(q.fallback.Hash()) {
			mpf = append(mpf, i+1)
		}
	}
	pool := w.poolIDs()
	sort.Ints(pool)
	amt := map[string]int64{}
	exact := true
	for _, n := range coNames {
		a, ok := w.deposit(n)
		if a > 1_000_000 {
			a = 1_000_000 // TLC integers are 32 bit; sums of fees stay far below
		}
		amt[n] = a
		exact = exact && ok
	}
	return map[string]any{"pool": pool, "amt": amt, "amtexact": exact, "h": w.rel(), "desig": w.designated(), "chm": chm, "chf": chf, "mpm": mpm, "mpf": mpf,
		"auth": w.svc != nil && w.svc.IsAuthorized()}
}

// rest waits for the service to come to rest and moves what it sent meanwhile into the trace (before the event of the
// step that caused it; each send carries its own context).
func (r *runner) rest(op string) []map[string]any {
	ok := r.w.settle(settleBound)
	r.w.mu.Lock()
	sends := r.w.sends
	r.w.sends = nil
	r.w.mu.Unlock()
	r.events = append(r.events, sends...)
	if !ok {
		r.giveUp(op)
	}
	return sends
}

func (r *runner) giveUp(op string) {
	r.dead, r.unrest = true, true
	r.res.Inc("notarysvc_not_at_rest", 1)
	st := states(r.w.gMain, r.w.gTx)
	r.res.AddDrift(map[string]any{"src": r.src, "what": "the service did not come to rest within the bound; history given up", "after": op,
		"mainLoop": fmt.Sprint(st[r.w.gMain]), "txLoop": fmt.Sprint(st[r.w.gTx]), "ops": r.ops})
}

func sendKeys(sends []map[string]any) []string {
	out := []string{}
	for _, s := range sends {
		out = append(out, fmt.Sprintf("%v:%v:%v:%v", s["kind"], s["main"], s["req"], s["ret"]))
	}
	sort.Strings(out)
	return out
}

func (r *runner) submit(id int) (map[string]any, []map[string]any) {
	var err error
	r.ops = append(r.ops, map[string]any{"op": "submit", "req": id})
	r.guard("RelayP2PNotaryRequest", func() { err = r.w.Submit(id) })
	if r.dead {
		return nil, nil
	}
	sends := r.rest("submit")
	ev := r.observe()
	ev["event"], ev["req"], ev["ok"], ev["err"], ev["quiet"] = "submit", id, err == nil, errClass(err), !r.unrest
	r.events = append(r.events, ev)
	r.res.Count([]any{r.src[:3], "submit", id, ev["pool"], ev["h"], sendKeys(sends)})
	return ev, sends
}

// block stores one block: "empty", "pooled" (everything the node's memory pool offers), "desig" (the committee
// designates the notary keys named in arg; plus the pooled transactions).
func (r *runner) block(kind string, arg []string) (map[string]any, []map[string]any, error) {
	w := r.w
	if arg == nil {
		arg = []string{}
	}
	r.ops = append(r.ops, map[string]any{"op": "block", "kind": kind, "arg": arg})
	var txs []*transaction.Transaction
	if kind != "empty" {
		txs = w.bc.ApplyPolicyToTxSet(w.bc.GetMemPool().GetVerifiedTransactions())
	}
	if kind == "desig" {
		txs = append(txs, w.desigTx(arg))
	}
	var err error
	r.guard("AddBlock", func() { err = w.addBlock(false, txs...) })
	if r.dead {
		return nil, nil, nil
	}
	if err != nil {
		// the ledger refused a block made of the memory pool's offer (or the harness' own designation): recorded, the
		// history ends here
		ev := r.observe()
		ev["event"], ev["kind"], ev["arg"], ev["inc"], ev["quiet"], ev["accepted"], ev["err"] = "block", kind, arg, []string{}, true, false, errClass(err)
		r.events = append(r.events, ev)
		r.dead = true
		return ev, nil, err
	}
	sends := r.rest("block")
	ev := r.observe()
	inc := []string{}
	for _, tx := range txs {
		if id, ok := w.mainID[tx.Hash()]; ok {
			inc = append(inc, fmt.Sprintf("m%d", id))
		} else if id, ok := w.fbID[tx.Hash()]; ok {
			inc = append(inc, fmt.Sprintf("f%d", id))
		}
	}
	sort.Strings(inc)
	ev["event"], ev["kind"], ev["arg"], ev["inc"], ev["quiet"], ev["accepted"] = "block", kind, arg, inc, !r.unrest, true
	r.events = append(r.events, ev)
	r.res.Count([]any{r.src[:3], "block", kind, arg, ev["pool"], ev["h"], sendKeys(sends)})
	return ev, sends, nil
}

// restart replaces the service by a new instance on the same pool, as the node does when its configuration is reloaded.
func (r *runner) restart() (map[string]any, []map[string]any) {
	r.ops = append(r.ops, map[string]any{"op": "restart"})
	var err error
	r.guard("restart", func() {
		r.w.stopService()
		err = r.w.startService()
	})
	if r.dead {
		return nil, nil
	}
	if err != nil {
		r.dead = true
		r.res.AddDrift(map[string]any{"src": r.src, "what": "service restart failed", "err": err.Error()})
		return nil, nil
	}
	sends := r.rest("restart")
	ev := r.observe()
	ev["event"], ev["quiet"] = "restart", !r.unrest
	r.events = append(r.events, ev)
	r.res.Count([]any{r.src[:3], "restart", ev["pool"], ev["h"]})
	return ev, sends
}

// relay switches the outcome of the node's relay of completed transactions (false: the callback reports an error).
func (r *runner) relay(ok bool) {
	r.ops = append(r.ops, map[string]any{"op": "relay", "ok": ok})
	r.w.failTx.Store(!ok)
	ev := r.observe()
	ev["event"], ev["ok"], ev["quiet"] = "relay", ok, true
	r.events = append(r.events, ev)
}
