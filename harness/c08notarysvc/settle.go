package c08notarysvc

import (
	"bytes"
	"runtime"
	"strconv"
	"time"

	"github.com/nspcc-dev/neo-go/pkg/core/block"
	"github.com/nspcc-dev/neo-go/pkg/core/mempoolevent"
)

// Quiescence of the service is an observable fact, not a matter of time: its two goroutines (mainLoop,
// newTxCallbackLoop) are parked in their top-level select statements, after the two event dispatchers that feed them
// (the request pool's and the chain's, both with unbuffered channels) have handed over everything they had: a
// rendezvous with a dispatcher (an Unsubscribe of a channel that was never subscribed: a no-op for it) succeeds only
// when it is back in its own select, i.e. after the previous event was received by every subscriber. The service's
// goroutines produce no events for the dispatchers, so once all are parked nothing moves until the driver's next step.
// The wait for this state is bounded; when the bound is hit the history is given up (information, never a verdict).

type gstate struct {
	state string // "select", "runnable", "running", "chan receive", ...
	top   string // first function of the stack
}

func stacks() []byte {
	n := 1 << 18
	for {
		buf := make([]byte, n)
		k := runtime.Stack(buf, true)
		if k < n {
			return buf[:k]
		}
		n *= 2
	}
}

// serviceGoroutines returns the goroutines that run (*Notary).mainLoop / newTxCallbackLoop: id -> loop name.
func serviceGoroutines() map[int64]string {
	out := map[int64]string{}
	for _, g := range bytes.Split(stacks(), []byte("\n\n")) {
		id, _, _ := parseHeader(g)
		if id == 0 {
			continue
		}
		switch {
		case bytes.Contains(g, []byte("notary.(*Notary).mainLoop(")):
			out[id] = "mainLoop"
		case bytes.Contains(g, []byte("notary.(*Notary).newTxCallbackLoop(")):
			out[id] = "newTxCallbackLoop"
		}
	}
	return out
}

func parseHeader(g []byte) (int64, string, string) {
	if !bytes.HasPrefix(g, []byte("goroutine ")) {
		return 0, "", ""
	}
	nl := bytes.IndexByte(g, '\n')
	if nl < 0 {
		nl = len(g)
	}
	head := g[len("goroutine "):nl]
	sp := bytes.IndexByte(head, ' ')
	if sp < 0 {
		return 0, "", ""
	}
	id, err := strconv.ParseInt(string(head[:sp]), 10, 64)
	if err != nil {
		return 0, "", ""
	}
	st := head[sp+1:]
	st = bytes.TrimPrefix(st, []byte("["))
	if i := bytes.IndexAny(st, ",]"); i >= 0 {
		st = st[:i]
	}
	top := ""
	if nl < len(g) {
		rest := g[nl+1:]
		if e := bytes.IndexByte(rest, '\n'); e >= 0 {
			rest = rest[:e]
		}
		top = string(rest)
	}
	return id, string(st), top
}

func states(ids ...int64) map[int64]gstate {
	out := map[int64]gstate{}
	for _, g := range bytes.Split(stacks(), []byte("\n\n")) {
		id, st, top := parseHeader(g)
		for _, want := range ids {
			if id == want {
				out[id] = gstate{st, top}
			}
		}
	}
	return out
}

func parkedIn(s gstate, fn string) bool {
	return s.state == "select" && bytes.Contains([]byte(s.top), []byte("notary.(*Notary)."+fn+"("))
}

// settle waits (bounded) for the quiescent state; false = not reached within the bound.
func (w *World) settle(bound time.Duration) bool {
	if w.svc == nil {
		return true
	}
	done := make(chan struct{})
	go func() {
		w.pool.UnsubscribeFromTransactions(make(chan mempoolevent.Event))
		w.bc.UnsubscribeFromBlocks(make(chan *block.Block))
		close(done)
	}()
	deadline := time.Now().Add(bound)
	select {
	case <-done:
	case <-time.After(bound):
		return false
	}
	for spin := 0; ; spin++ {
		st := states(w.gMain, w.gTx)
		if parkedIn(st[w.gMain], "mainLoop") && parkedIn(st[w.gTx], "newTxCallbackLoop") {
			return true
		}
		if time.Now().After(deadline) {
			return false
		}
		if spin < 20 {
			runtime.Gosched()
		} else {
			time.Sleep(time.Duration(min(spin-19, 50)) * 100 * time.Microsecond)
		}
	}
}
