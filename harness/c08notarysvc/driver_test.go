//go:build verif

// Driver of the notary-service extension of C08 / C07: replays TLC behaviours of NotarySvcImpl, seeded random histories
// over larger universes, twin histories (the same requests in another arrival order, with duplicates) and scripted
// regression worlds on a real chain + real network.Server + REAL notary service, and records every step and every
// transaction the service sends for validation by NotarySvcTrace.tla.
package c08notarysvc

import (
	"encoding/json"
	"fmt"
	"math/rand"
	"slices"
	"sort"
	"sync"
	"testing"

	"verifharness/internal/vh"
)

// Step is one entry of a behaviour (TLC history or generated history).
type Step struct {
	Op    string           `json:"op"`
	Req   int              `json:"req"`
	Ok    bool             `json:"ok"`
	Pool  []int            `json:"pool"`
	Kind  string           `json:"kind"`
	Arg   []string         `json:"arg"`
	H     int              `json:"h"`
	Acc   string           `json:"acc"`
	Main  int              `json:"main"`
	Ret   bool             `json:"ret"`
	Mains []AMain          `json:"mains"`
	Reqs  []AReq           `json:"reqs"`
	Cap   int              `json:"cap"`
	Delta int              `json:"delta"`
	Desig []string         `json:"desig"`
	Deps  map[string]int64 `json:"deps"`
}

func universeOf(s Step) Universe {
	return Universe{Mains: s.Mains, Reqs: s.Reqs, Cap: s.Cap, Delta: s.Delta, Desig: s.Desig, Deps: s.Deps}
}

type outcome struct {
	events []map[string]any
	marks  []mark // at the end of every run of submissions, and at the end
}

type mark struct {
	pool     []int
	accepted []int // main transactions the ledger admitted from the service so far
	chm, chf []int
	clean    bool // no submission refused, nothing evicted so far
}

func sendKey(kind string, main, req int, ret bool) string {
	return fmt.Sprintf("%s:%d:%d:%v", kind, main, req, ret)
}

// run executes the driver steps of hist on a fresh world. predicted: compare with the model's predictions (drift).
func run(t testing.TB, res *vh.Result, src string, hist []Step, predicted bool) *outcome {
	if len(hist) == 0 || hist[0].Op != "init" {
		return nil
	}
	u := universeOf(hist[0])
	w, err := NewWorld(t, u)
	if w != nil {
		defer w.Close()
	}
	if err != nil {
		res.Inc("notarysvc_worlds_failed", 1)
		res.AddDrift(map[string]any{"src": src, "what": "world construction failed", "err": err.Error()})
		return nil
	}
	r := &runner{w: w, res: res, src: src}
	r.start()
	out := &outcome{}
	accepted := map[int]bool{}
	clean := true
	take := func(sends []map[string]any) {
		for _, s := range sends {
			if s["kind"] == "main" && s["admit"] == true {
				accepted[s["main"].(int)] = true
			}
		}
	}
	markNow := func(ev map[string]any) {
		if ev == nil {
			return
		}
		acc := []int{}
		for m := range accepted {
			acc = append(acc, m)
		}
		sort.Ints(acc)
		out.marks = append(out.marks, mark{pool: ev["pool"].([]int), accepted: acc, chm: ev["chm"].([]int), chf: ev["chf"].([]int), clean: clean})
	}
	drift := func(si int, st Step, what string, ev map[string]any, sends []map[string]any, want []string) {
		res.AddDrift(map[string]any{"src": src, "step": si, "op": st.Op, "req": st.Req, "kind": st.Kind, "arg": st.Arg, "what": what,
			"predicted_pool": st.Pool, "predicted_ok": st.Ok, "predicted_sends": want, "observed": ev, "observed_sends": sendKeys(sends), "ops": r.ops})
		res.Inc("notarysvc_model_drift", 1)
	}
	steps := hist[1:]
	var last map[string]any
	for si := 0; si < len(steps) && !r.dead; si++ {
		st := steps[si]
		if st.Op == "sent" {
			continue
		}
		// the sends the model predicts for this step
		want := []string{}
		for j := si + 1; j < len(steps) && steps[j].Op == "sent"; j++ {
			want = append(want, sendKey(steps[j].Kind, steps[j].Main, steps[j].Req, steps[j].Ret))
		}
		sort.Strings(want)
		var ev map[string]any
		var sends []map[string]any
		switch st.Op {
		case "submit":
			before := len(w.poolIDs())
			if st.Req >= 1 && st.Req <= len(u.Reqs) && u.Reqs[st.Req-1].Nvb <= w.rel() {
				// a request that arrives at or after its own NotValidBefore: whether the main transaction still goes out
				// depends legitimately on what the service knew when it became complete
				clean = false
			}
			ev, sends = r.submit(st.Req)
			if ev != nil && (ev["ok"] != true || len(ev["pool"].([]int)) != before+1) {
				clean = false
			}
			if ev != nil && predicted && (st.Ok != ev["ok"].(bool) || !slices.Equal(sortedInts(st.Pool), ev["pool"].([]int))) {
				drift(si, st, "submit outcome", ev, sends, want)
			}
		case "block":
			// a run of submissions ends here
			if si > 0 && steps[si-1].Op != "block" {
				markNow(last)
			}
			var err error
			ev, sends, err = r.block(st.Kind, st.Arg)
			if err != nil {
				res.Inc("notarysvc_blocks_refused", 1)
			}
			if ev != nil && err == nil && predicted && (!slices.Equal(sortedInts(st.Pool), ev["pool"].([]int)) || st.H != ev["h"].(int)) {
				drift(si, st, "block outcome", ev, sends, want)
			}
		case "restart":
			ev, sends = r.restart()
		case "relay":
			r.relay(st.Ok)
			continue
		default:
			continue
		}
		take(sends)
		if ev != nil {
			last = ev
		}
		if ev != nil && predicted && !r.dead && !slices.Equal(want, sendKeys(sends)) {
			drift(si, st, "sends", ev, sends, want)
		}
	}
	if !r.dead {
		markNow(last)
		res.Traces++
	}
	out.events = r.events
	return out
}

func sortedInts(a []int) []int {
	b := slices.Clone(a)
	sort.Ints(b)
	if b == nil {
		b = []int{}
	}
	return b
}

// twinOf returns the same history with every run of consecutive submissions shuffled and some of them repeated.
func twinOf(hist []Step, rd *rand.Rand) []Step {
	out := []Step{hist[0]}
	var run []Step
	flush := func() {
		rd.Shuffle(len(run), func(i, j int) { run[i], run[j] = run[j], run[i] })
		n := len(run)
		for i := 0; i < n; i++ {
			out = append(out, run[i])
			if rd.Intn(3) == 0 { // a duplicate (the pool refuses it: the service never hears of it) or a re-sent copy
				out = append(out, run[rd.Intn(i+1)])
			}
		}
		run = nil
	}
	for _, st := range hist[1:] {
		switch st.Op {
		case "sent":
		case "submit":
			run = append(run, st)
		default:
			flush()
			out = append(out, st)
		}
	}
	flush()
	return out
}

// compareTwin appends a twin event to the primary's events when the two runs are comparable: the comparison points are
// the ends of the runs of submissions and the end of the history; a point counts while no submission was refused,
// nothing was evicted and no request arrived at or after its own NotValidBefore in either run (the pool's capacity and the
// NotValidBefore rule make the order matter legitimately).
func compareTwin(res *vh.Result, a, b *outcome) {
	if a == nil || b == nil || len(a.events) == 0 {
		return
	}
	n := min(len(a.marks), len(b.marks))
	pa, pb := []any{}, []any{}
	for i := 0; i < n; i++ {
		ma, mb := a.marks[i], b.marks[i]
		if !ma.clean || !mb.clean || !slices.Equal(ma.pool, mb.pool) {
			break
		}
		pa = append(pa, map[string]any{"accepted": ma.accepted, "chm": ma.chm, "chf": ma.chf})
		pb = append(pb, map[string]any{"accepted": mb.accepted, "chm": mb.chm, "chf": mb.chf})
	}
	if len(pa) == 0 {
		res.Inc("notarysvc_twins_incomparable", 1)
		return
	}
	res.Inc("notarysvc_twins_compared", 1)
	res.Inc("notarysvc_twin_points", len(pa))
	ja, _ := json.Marshal(pa)
	jb, _ := json.Marshal(pb)
	ev := map[string]any{"event": "twin", "a": string(ja), "b": string(jb)}
	if string(ja) != string(jb) {
		ev["twin_events"] = b.events
	}
	a.events = append(a.events, ev)
}

// ---------------------------------------------------------------------------------------------------------------
// generated histories over larger universes

var shapes = [][]AWit{
	{{T: "sig", M: 1, Keys: []string{"A"}}, {T: "sig", M: 1, Keys: []string{"B"}}, {T: "notary"}},
	{{T: "sig", M: 1, Keys: []string{"A"}}, {T: "multi", M: 2, Keys: []string{"B", "C", "D"}}, {T: "notary"}},
	{{T: "multi", M: 2, Keys: []string{"A", "B"}}, {T: "notary"}, {T: "sig", M: 1, Keys: []string{"C"}}},
	{{T: "multi", M: 1, Keys: []string{"D", "E"}}, {T: "notary"}},
	{{T: "sig", M: 1, Keys: []string{"E"}}, {T: "notary"}, {T: "multi", M: 3, Keys: []string{"A", "B", "C", "D"}}},
	{{T: "multi", M: 2, Keys: []string{"C", "D", "E"}}, {T: "multi", M: 2, Keys: []string{"A", "B"}}, {T: "notary"}},
}

func randomHistory(rd *rand.Rand) []Step {
	u := Step{Op: "init", Cap: 3 + rd.Intn(8), Delta: 10, Desig: []string{"K1"}, Deps: map[string]int64{}}
	if rd.Intn(4) == 0 {
		u.Desig = [][]string{{"K2"}, {"K1", "K2"}, {"K3"}, {"K2", "K3"}}[rd.Intn(4)]
	}
	nm := 1 + rd.Intn(3)
	for m := 0; m < nm; m++ {
		a := AMain{Wits: shapes[rd.Intn(len(shapes))], Vub: 4 + rd.Intn(6)}
		if rd.Intn(10) == 0 {
			a.Nk = []int{-1, 1, 2}[rd.Intn(3)]
			nk := 0
			for _, s := range a.Wits {
				nk += len(s.Keys)
			}
			if nk+a.Nk < 1 {
				a.Nk = 1
			}
		}
		u.Mains = append(u.Mains, a)
	}
	fee := 3
	for m := 1; m <= nm; m++ {
		a := u.Mains[m-1]
		// the requests that would complete it, and then some
		var cand []AReq
		for wi, s := range a.Wits {
			for _, k := range s.Keys {
				cand = append(cand, AReq{Main: m, Dep: k, W: wi + 1, Key: k, Sig: "good", Form: "ok"})
			}
		}
		extra := rd.Intn(4)
		for i := 0; i < extra; i++ {
			wi := rd.Intn(len(a.Wits))
			if a.Wits[wi].T == "notary" {
				continue
			}
			q := AReq{Main: m, Dep: coNames[rd.Intn(5)], W: wi + 1, Key: a.Wits[wi].Keys[rd.Intn(len(a.Wits[wi].Keys))], Sig: "good", Form: "ok"}
			switch rd.Intn(9) {
			case 0:
				q.Sig = "bad"
			case 1:
				q.Key = coNames[rd.Intn(5)] // possibly a key that does not belong to the slot
			case 2:
				q.Form = "badverif"
				q.Sig = []string{"none", "good"}[rd.Intn(2)]
			case 3:
				q.Form = "badinv"
			case 4:
				q.Form = "twosigs"
			case 5:
				q.Form = "dummy"
			case 6:
				q.W, q.Sig = 0, "none"
			default: // a second request of the same signer
				q.Dep = q.Key
			}
			cand = append(cand, q)
		}
		for _, q := range cand {
			if rd.Intn(6) == 0 {
				continue // this signer never shows up
			}
			q.Nvb = 1 + rd.Intn(a.Vub-1)
			fee++
			q.Fee = fee
			u.Reqs = append(u.Reqs, q)
		}
	}
	if len(u.Reqs) == 0 {
		u.Reqs = append(u.Reqs, AReq{Main: 1, Dep: "A", Nvb: 2, Fee: 4, W: 0, Sig: "none", Form: "ok"})
	}
	rd.Shuffle(len(u.Reqs), func(i, j int) { u.Reqs[i].Fee, u.Reqs[j].Fee = u.Reqs[j].Fee, u.Reqs[i].Fee })
	if rd.Intn(2) == 0 { // a depositor whose deposit does not cover all its fallbacks
		sum, n := map[string]int64{}, map[string]int{}
		for _, q := range u.Reqs {
			sum[q.Dep] += int64(q.Fee)
			n[q.Dep]++
		}
		for _, d := range coNames {
			if n[d] >= 2 {
				u.Deps[d] = sum[d] - 1 - int64(rd.Intn(4))
				break
			}
		}
	}
	hist := []Step{u}
	maxVub := 0
	for _, a := range u.Mains {
		maxVub = max(maxVub, a.Vub)
	}
	h := 0
	order := rd.Perm(len(u.Reqs))
	next := 0
	desigs := [][]string{{"K1"}, {"K2"}, {"K1", "K2"}, {"K3"}, {"K2", "K3"}}
	for h <= maxVub && len(hist) < 70 {
		k := rd.Intn(100)
		switch {
		case k < 55:
			id := 1 + rd.Intn(len(u.Reqs))
			if next < len(order) && rd.Intn(5) != 0 {
				id = order[next] + 1
				next++
			}
			hist = append(hist, Step{Op: "submit", Req: id})
		case k < 72:
			hist = append(hist, Step{Op: "block", Kind: "pooled", Arg: []string{}})
			h++
		case k < 84:
			hist = append(hist, Step{Op: "block", Kind: "empty", Arg: []string{}})
			h++
		case k < 90:
			hist = append(hist, Step{Op: "block", Kind: "desig", Arg: desigs[rd.Intn(len(desigs))]})
			h++
		case k < 94:
			hist = append(hist, Step{Op: "restart"})
		default:
			hist = append(hist, Step{Op: "relay", Ok: rd.Intn(3) != 0})
		}
	}
	return hist
}

// scripted regression worlds (run every time)
func scripted() map[string][]Step {
	sm := []AWit{{T: "sig", M: 1, Keys: []string{"A"}}, {T: "multi", M: 2, Keys: []string{"B", "C", "D"}}, {T: "notary"}}
	blocks := func(n int) []Step {
		out := []Step{}
		for i := 0; i < n; i++ {
			out = append(out, Step{Op: "block", Kind: "pooled", Arg: []string{}})
		}
		return out
	}
	sub := func(ids ...int) []Step {
		out := []Step{}
		for _, id := range ids {
			out = append(out, Step{Op: "submit", Req: id})
		}
		return out
	}
	cat := func(parts ...[]Step) []Step {
		var out []Step
		for _, p := range parts {
			out = append(out, p...)
		}
		return out
	}
	return map[string][]Step{
		// a refused copy (foreign verification script in the multisignature slot) arrives first: the main transaction
		// must still be accepted (repaired in a3f9e35)
		"firstcopy": cat([]Step{{Op: "init", Cap: 6, Delta: 10, Desig: []string{"K1"}, Mains: []AMain{{Wits: sm, Vub: 8}},
			Reqs: []AReq{
				{Main: 1, Dep: "E", Nvb: 4, Fee: 4, W: 2, Key: "B", Sig: "none", Form: "badverif"},
				{Main: 1, Dep: "A", Nvb: 4, Fee: 5, W: 1, Key: "A", Sig: "good", Form: "ok"},
				{Main: 1, Dep: "B", Nvb: 4, Fee: 6, W: 2, Key: "B", Sig: "good", Form: "ok"},
				{Main: 1, Dep: "C", Nvb: 5, Fee: 7, W: 2, Key: "C", Sig: "good", Form: "ok"}}}},
			sub(1, 2, 3, 4), blocks(6)),
		// eviction: signatures of evicted requests complete the main transaction
		"eviction": cat([]Step{{Op: "init", Cap: 2, Delta: 10, Desig: []string{"K1"},
			Mains: []AMain{{Wits: sm, Vub: 8}, {Wits: []AWit{{T: "sig", M: 1, Keys: []string{"D"}}, {T: "sig", M: 1, Keys: []string{"E"}}, {T: "notary"}}, Vub: 8}},
			Reqs: []AReq{
				{Main: 1, Dep: "A", Nvb: 4, Fee: 4, W: 1, Key: "A", Sig: "good", Form: "ok"},
				{Main: 1, Dep: "B", Nvb: 4, Fee: 5, W: 2, Key: "B", Sig: "good", Form: "ok"},
				{Main: 1, Dep: "C", Nvb: 5, Fee: 6, W: 2, Key: "C", Sig: "good", Form: "ok"},
				{Main: 2, Dep: "D", Nvb: 5, Fee: 8, W: 1, Key: "D", Sig: "good", Form: "ok"}}}},
			sub(1, 2, 4, 3), blocks(6)),
		// restart and designation away and back: what the pool still holds
		"restart": cat([]Step{{Op: "init", Cap: 6, Delta: 10, Desig: []string{"K1"}, Mains: []AMain{{Wits: sm, Vub: 9}},
			Reqs: []AReq{
				{Main: 1, Dep: "A", Nvb: 3, Fee: 4, W: 1, Key: "A", Sig: "good", Form: "ok"},
				{Main: 1, Dep: "B", Nvb: 3, Fee: 5, W: 2, Key: "B", Sig: "good", Form: "ok"},
				{Main: 1, Dep: "C", Nvb: 4, Fee: 6, W: 2, Key: "C", Sig: "good", Form: "ok"}}}},
			sub(1, 2), []Step{{Op: "restart"}}, sub(3), blocks(6)),
		"redesignation": cat([]Step{{Op: "init", Cap: 6, Delta: 10, Desig: []string{"K1"}, Mains: []AMain{{Wits: sm, Vub: 9}},
			Reqs: []AReq{
				{Main: 1, Dep: "A", Nvb: 5, Fee: 4, W: 1, Key: "A", Sig: "good", Form: "ok"},
				{Main: 1, Dep: "B", Nvb: 5, Fee: 5, W: 2, Key: "B", Sig: "good", Form: "ok"},
				{Main: 1, Dep: "C", Nvb: 6, Fee: 6, W: 2, Key: "C", Sig: "good", Form: "ok"}}}},
			sub(1), []Step{{Op: "block", Kind: "desig", Arg: []string{"K2"}}}, sub(2), []Step{{Op: "block", Kind: "desig", Arg: []string{"K3"}},
				{Op: "block", Kind: "desig", Arg: []string{"K1", "K2"}}}, sub(3), blocks(6)),
		// a deposit that covers two of the depositor's three fallbacks
		"smalldeposit": cat([]Step{{Op: "init", Cap: 6, Delta: 10, Desig: []string{"K1"}, Deps: map[string]int64{"A": 9},
			Mains: []AMain{
				{Wits: []AWit{{T: "sig", M: 1, Keys: []string{"A"}}, {T: "sig", M: 1, Keys: []string{"B"}}, {T: "notary"}}, Vub: 6},
				{Wits: []AWit{{T: "sig", M: 1, Keys: []string{"A"}}, {T: "sig", M: 1, Keys: []string{"C"}}, {T: "notary"}}, Vub: 6},
				{Wits: []AWit{{T: "sig", M: 1, Keys: []string{"A"}}, {T: "sig", M: 1, Keys: []string{"D"}}, {T: "notary"}}, Vub: 6}},
			Reqs: []AReq{
				{Main: 1, Dep: "A", Nvb: 1, Fee: 4, W: 1, Key: "A", Sig: "good", Form: "ok"},
				{Main: 2, Dep: "A", Nvb: 1, Fee: 4, W: 1, Key: "A", Sig: "good", Form: "ok"},
				{Main: 3, Dep: "A", Nvb: 1, Fee: 4, W: 1, Key: "A", Sig: "good", Form: "ok"}}}},
			sub(1, 2, 3), []Step{{Op: "block", Kind: "empty", Arg: []string{}}}, blocks(3)),
		// the main transaction waits in the memory pool when NotValidBefore comes: its fallbacks must not join it
		"mainpooled": cat([]Step{{Op: "init", Cap: 6, Delta: 10, Desig: []string{"K1"},
			Mains: []AMain{{Wits: []AWit{{T: "sig", M: 1, Keys: []string{"A"}}, {T: "sig", M: 1, Keys: []string{"B"}}, {T: "notary"}}, Vub: 6}},
			Reqs: []AReq{
				{Main: 1, Dep: "A", Nvb: 2, Fee: 4, W: 1, Key: "A", Sig: "good", Form: "ok"},
				{Main: 1, Dep: "B", Nvb: 2, Fee: 5, W: 2, Key: "B", Sig: "good", Form: "ok"}}}},
			sub(1, 2), []Step{{Op: "block", Kind: "empty", Arg: []string{}}, {Op: "block", Kind: "empty", Arg: []string{}}}, blocks(3)),
		// the node cannot relay for a while: the main transaction is retried with every block, then the fallbacks go out
		"relayoff": cat([]Step{{Op: "init", Cap: 6, Delta: 10, Desig: []string{"K1", "K2"},
			Mains: []AMain{{Wits: []AWit{{T: "sig", M: 1, Keys: []string{"A"}}, {T: "notary"}, {T: "sig", M: 1, Keys: []string{"B"}}}, Vub: 8}},
			Reqs: []AReq{
				{Main: 1, Dep: "A", Nvb: 4, Fee: 4, W: 1, Key: "A", Sig: "good", Form: "ok"},
				{Main: 1, Dep: "B", Nvb: 3, Fee: 5, W: 3, Key: "B", Sig: "good", Form: "ok"}}}},
			[]Step{{Op: "relay", Ok: false}}, sub(1, 2), []Step{{Op: "block", Kind: "empty", Arg: []string{}}, {Op: "relay", Ok: true}}, blocks(5)),
	}
}

func TestDriver(t *testing.T) {
	res := vh.NewResult()
	tr := vh.NewTrace("trace.ndjson")
	var behaviours [][]Step
	if vh.InDir() != "" {
		if err := vh.ReadJSON("behaviours.json", &behaviours); err != nil {
			t.Logf("no behaviours: %v", err)
		}
	}
	type job struct {
		src       string
		hist      []Step
		predicted bool
		twin      bool
		seed      int64
	}
	var jobs []job
	sc := scripted()
	names := []string{}
	for n := range sc {
		names = append(names, n)
	}
	sort.Strings(names)
	for _, n := range names {
		jobs = append(jobs, job{src: "scr-" + n, hist: sc[n], twin: true, seed: 1})
	}
	master := vh.Rand(31)
	twinEvery := vh.EnvInt("VERIF_TWIN_EVERY", 3)
	for i, b := range behaviours {
		jobs = append(jobs, job{src: fmt.Sprintf("tlc-%d", i), hist: b, predicted: true, twin: i%twinEvery == 0, seed: master.Int63()})
	}
	nr := vh.EnvInt("VERIF_RANDOM", 100)
	for i := 0; i < nr; i++ {
		s := master.Int63()
		jobs = append(jobs, job{src: fmt.Sprintf("rnd-%d", i), hist: randomHistory(rand.New(rand.NewSource(s))), twin: i%twinEvery == 0, seed: s})
	}
	out := make([]*outcome, len(jobs))
	ch := make(chan int, len(jobs))
	for i := range jobs {
		ch <- i
	}
	close(ch)
	var wg sync.WaitGroup
	for k := 0; k < vh.EnvInt("VERIF_PAR", 6); k++ {
		wg.Add(1)
		go func() {
			defer wg.Done()
			for i := range ch {
				j := jobs[i]
				out[i] = run(t, res, j.src, j.hist, j.predicted)
				if j.twin && out[i] != nil {
					tw := run(t, res, j.src+"-twin", twinOf(j.hist, rand.New(rand.NewSource(j.seed^0x7717))), false)
					compareTwin(res, out[i], tw)
				}
			}
		}()
	}
	wg.Wait()
	kinds := map[string]int{}
	for i, o := range out {
		if o == nil {
			continue
		}
		for _, ev := range o.events {
			k := ev["event"].(string)
			switch k {
			case "block":
				k += ":" + ev["kind"].(string)
			case "submit":
				k += fmt.Sprintf(":%v", ev["ok"])
			case "sent":
				k += fmt.Sprintf(":%v:admit=%v:pooled=%v", ev["kind"], ev["admit"], ev["pooled"])
			}
			kinds[k]++
			tr.Emit(ev)
		}
		if len(o.events) > 0 && i%53 == 0 {
			res.Sample(map[string]any{"src": o.events[0]["src"], "steps": len(o.events) - 1, "last": o.events[len(o.events)-1]})
		}
	}
	tr.Close()
	res.Stats["notarysvc_event_kinds"] = kinds
	res.Inc("notarysvc_replayed_behaviours", len(behaviours))
	res.Inc("notarysvc_random_histories", nr)
	res.Inc("notarysvc_scripted_worlds", len(sc))
	sort.Strings(res.Distinct)
	if err := res.Write(); err != nil {
		t.Fatal(err)
	}
}
