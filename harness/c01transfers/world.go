package c01transfers

import (
	"encoding/binary"
	"fmt"
	"math"
	"math/rand"
	"os"
	"path/filepath"
	"sort"
	"testing"

	"verifharness/internal/chainkit"
	"verifharness/internal/histgen"
	"verifharness/internal/vh"

	"github.com/nspcc-dev/neo-go/pkg/config"
	"github.com/nspcc-dev/neo-go/pkg/core"
	"github.com/nspcc-dev/neo-go/pkg/core/native/nativenames"
	"github.com/nspcc-dev/neo-go/pkg/core/state"
	"github.com/nspcc-dev/neo-go/pkg/core/storage"
	"github.com/nspcc-dev/neo-go/pkg/core/storage/dbconfig"
	"github.com/nspcc-dev/neo-go/pkg/core/transaction"
	"github.com/nspcc-dev/neo-go/pkg/io"
	"github.com/nspcc-dev/neo-go/pkg/neotest"
	"github.com/nspcc-dev/neo-go/pkg/smartcontract/callflag"
	"github.com/nspcc-dev/neo-go/pkg/util"
	"github.com/nspcc-dev/neo-go/pkg/vm/emit"
)

// noClose keeps a MemoryStore alive across Blockchain.Close (MemoryStore.Close wipes it).
type noClose struct{ storage.Store }

func (noClose) Close() error { return nil }

type repCfg struct {
	Name    string
	Backend string // mem | bolt | level
	GC      bool   // RemoveUntraceableBlocks
	GCP     uint32
	FlushPM int // per-mille chance of a flush after a block
	RestPM  int // per-mille chance of a clean stop + restart after a block
}

type replica struct {
	cfg  repCfg
	mem  storage.Store
	st   storage.Store // the store the running chain is on
	bc   *core.Blockchain
	h    uint32
	gcb  int64 // index of the block whose timestamp bounds what transfer GC may have removed (-1: nothing)
	name string
}

func (r *replica) who() string { return r.cfg.Name + "/" + r.cfg.Backend }

// chainWorld is what a set of replicas shares: network, protocol settings, the accepted blocks.
type chainWorld struct {
	t        *testing.T
	net      *chainkit.Net
	protocol func(*config.Blockchain)
	dir      string
	blocks   [][]byte // blocks[i] = block i+1 in wire form
	ts       []uint64 // ts[i] = timestamp of block i (0 = genesis)
}

func (w *chainWorld) open(r *replica) error {
	var st storage.Store
	var err error
	switch r.cfg.Backend {
	case "mem":
		if r.mem == nil {
			r.mem = noClose{storage.NewMemoryStore()}
		}
		st = r.mem
	case "bolt":
		st, err = storage.NewBoltDBStore(dbconfig.BoltDBOptions{FilePath: filepath.Join(w.dir, r.cfg.Name+".bolt")})
	case "level":
		st, err = storage.NewLevelDBStore(dbconfig.LevelDBOptions{DataDirectoryPath: filepath.Join(w.dir, r.cfg.Name+".level")})
	}
	if err != nil {
		return err
	}
	r.st = st
	r.bc, err = w.net.NewChain(st, func(c *config.Blockchain) {
		w.protocol(c)
		if r.cfg.GC {
			c.Ledger.RemoveUntraceableBlocks = true
			c.Ledger.GarbageCollectionPeriod = r.cfg.GCP
		}
	})
	if err != nil {
		return err
	}
	chainkit.Start(r.bc)
	return nil
}

// add feeds block h+1 (wire bytes) to the replica.
func (w *chainWorld) add(r *replica) error {
	b, err := chainkit.DecodeBlock(w.blocks[r.h], false)
	if err != nil {
		return err
	}
	if err := r.bc.AddBlock(b); err != nil {
		return err
	}
	r.h++
	return nil
}

// flush performs one persist (+ the GC attempt of a GC replica) and maintains the bound of what transfer GC
// may have removed, by the rule of tryRunGC: target = floor((persisted - MaxTraceableBlocks) / period) * period,
// run when target > period and the persisted height entered another period. (An upper bound: the real
// collection is skipped when the block's timestamp is not in the in-memory cache, e.g. after a restart.)
func (w *chainWorld) flush(r *replica) error {
	old := r.bc.VerifPersistedHeight()
	if err := r.bc.VerifPersist(); err != nil {
		return err
	}
	if r.cfg.GC {
		nw := r.bc.VerifPersistedHeight()
		mtb := int64(r.bc.GetMaxTraceableBlocks())
		p := int64(r.cfg.GCP)
		tgt := (int64(nw) - mtb) / p * p
		if int64(nw)-mtb >= 0 && tgt > p && int64(nw)/p != int64(old)/p && tgt > r.gcb {
			r.gcb = tgt
		}
	}
	return nil
}

func (w *chainWorld) restart(r *replica) error {
	r.bc.Close()
	return w.open(r)
}

// tb returns the index of the last block (<= upto) whose timestamp is <= T, -1 if none.
func (w *chainWorld) tb(T uint64, upto uint32) int64 {
	res := int64(-1)
	for i := 0; i <= int(upto) && i < len(w.ts); i++ {
		if w.ts[i] <= T {
			res = int64(i)
		}
	}
	return res
}

// rawE keeps what the replay worlds need to map a real entry back to a model entry.
type rawE struct {
	Tx    util.Uint256
	Asset int32
	Neg   bool
}

// iterate runs the real iteration and emits its projection.
func (w *chainWorld) iterate(res *vh.Result, tr *vh.Trace, r *replica, name string, acc util.Uint160, kind int, T uint64, bclass string, flushed bool) []entry {
	out, _ := w.iterateRaw(res, tr, r, name, acc, kind, T, bclass, flushed)
	return out
}

func (w *chainWorld) iterateRaw(res *vh.Result, tr *vh.Trace, r *replica, name string, acc util.Uint160, kind int, T uint64, bclass string, flushed bool) ([]entry, []rawE) {
	var out []entry
	var raws []rawE
	var err error
	func() {
		defer func() {
			if p := recover(); p != nil {
				err = fmt.Errorf("panic: %v", p)
			}
		}()
		if kind == 17 {
			err = r.bc.ForEachNEP17Transfer(acc, T, func(t *state.NEP17Transfer) (bool, error) {
				out = append(out, project17(t))
				raws = append(raws, rawE{Tx: t.Tx, Asset: t.Asset, Neg: t.Amount.Sign() < 0})
				return true, nil
			})
		} else {
			err = r.bc.ForEachNEP11Transfer(acc, T, func(t *state.NEP11Transfer) (bool, error) {
				out = append(out, project11(t))
				raws = append(raws, rawE{Tx: t.Tx, Asset: t.Asset, Neg: t.Amount.Sign() < 0})
				return true, nil
			})
		}
	}()
	tuples := make([]any, 0, len(out))
	for _, e := range out {
		tuples = append(tuples, e.tuple())
	}
	es := ""
	if err != nil {
		es = err.Error()
	}
	tr.Emit(map[string]any{"event": "iter", "r": r.cfg.Name, "cfg": r.who(), "h": r.h, "acc": name, "kind": kind,
		"tb": w.tb(T, r.h), "gcb": r.gcb, "bclass": bclass, "err": es, "res": tuples, "unflushed": !flushed,
		"persisted": r.bc.VerifPersistedHeight()})
	res.Count([]any{r.cfg.Name, r.h, name, kind, bclass, len(out), !flushed})
	return out, raws
}

func (w *chainWorld) lastUpdated(res *vh.Result, tr *vh.Trace, r *replica, name string, acc util.Uint160) {
	m, err := r.bc.GetTokenLastUpdated(acc)
	if err != nil {
		tr.Emit(map[string]any{"event": "note", "what": "GetTokenLastUpdated error", "err": err.Error(), "r": r.cfg.Name})
		return
	}
	var lu [][2]int64
	for k, v := range m {
		if k == math.MinInt32 { // state sync point marker, not a token
			continue
		}
		lu = append(lu, [2]int64{int64(k), int64(v)})
	}
	sort.Slice(lu, func(i, j int) bool { return lu[i][0] < lu[j][0] })
	tuples := make([]any, 0, len(lu))
	for _, p := range lu {
		tuples = append(tuples, []any{p[0], p[1]})
	}
	tr.Emit(map[string]any{"event": "lastupd", "r": r.cfg.Name, "cfg": r.who(), "h": r.h, "acc": name, "lu": tuples})
	res.Count([]any{r.cfg.Name, r.h, name, "lu"})
}

// rawBatches scans the replica's BACKEND for the batches of an account: (key timestamp, index, size).
func rawBatches(st storage.Store, acc util.Uint160, kind int) [][3]uint64 {
	pfx := []byte{byte(storage.STNEP17Transfers)}
	if kind == 11 {
		pfx[0] = byte(storage.STNEP11Transfers)
	}
	pfx = append(pfx, acc.BytesBE()...)
	var out [][3]uint64
	st.Seek(storage.SeekRange{Prefix: pfx}, func(k, v []byte) bool {
		if len(k) == 1+util.Uint160Size+12 && len(v) > 0 {
			out = append(out, [3]uint64{binary.BigEndian.Uint64(k[21:]), uint64(binary.BigEndian.Uint32(k[29:])), uint64(v[0])})
		}
		return true
	})
	return out
}

// ------------------------------------------------------------------------------------------ random worlds

type sampleAcc struct {
	Name string
	Hash util.Uint160
}

type randomWorld struct {
	chainWorld
	rnd   *rand.Rand
	ref   *core.Blockchain
	gen   *histgen.Gen
	rb    *refBuilder
	adds  [][]refAdd // adds[i] = reference entries of block i (0 = genesis)
	tok17 *neotest.Contract
	tok11 *neotest.Contract
	hot   []util.Uint160
	watch []util.Uint160
	kinds map[string]int
}

// sysTx builds a transaction running script, signed (and paid) by signer; nil if it cannot be built.
func (w *randomWorld) scriptTx(script []byte, signer neotest.Signer, minSys int64) (tx *transaction.Transaction) {
	defer func() {
		if r := recover(); r != nil {
			tx = nil
		}
	}()
	e := w.gen.E
	u := e.PrepareInvocationNoSign(w.t, script, w.ref.BlockHeight()+5)
	u.Signers = []transaction.Signer{{Account: signer.ScriptHash(), Scopes: transaction.Global}}
	v, _ := e.TestInvoke(u)
	sys := minSys
	if v != nil {
		sys += v.GasConsumed()
	}
	u.Signers = nil
	return e.SignTx(w.t, u, sys, signer)
}

func callScript(h util.Uint160, method string, args ...any) []byte {
	w := io.NewBufBinWriter()
	emit.AppCall(w.BinWriter, h, method, callflag.All, args...)
	return w.Bytes()
}

func (w *randomWorld) party() any {
	switch w.rnd.Intn(10) {
	case 0:
		return nil // mint / burn
	case 1:
		if len(w.gen.AllKVs) > 0 {
			return w.gen.AllKVs[w.rnd.Intn(len(w.gen.AllKVs))] // a contract (possibly destroyed meanwhile)
		}
	case 2, 3, 4:
		return w.hot[w.rnd.Intn(len(w.hot))]
	}
	return w.gen.Accts[w.rnd.Intn(len(w.gen.Accts))].ScriptHash()
}

// extraTxs: what histgen does not generate - bursts of native transfers to the hot accounts, Transfer events of
// the scenario contracts (NEP-17 and NEP-11 shapes, to/from accounts, contracts, Null, self), failing and
// malformed ones.
func (w *randomWorld) extraTxs() []*transaction.Transaction {
	var txs []*transaction.Transaction
	g := w.gen
	n := w.rnd.Intn(3)
	if w.ref.BlockHeight() < 12 {
		n = 2 + w.rnd.Intn(2) // load the logs early so that batches exist (and get old enough for GC)
	}
	for i := 0; i < n; i++ {
		a := g.Accts[w.rnd.Intn(len(g.Accts))]
		kind := []string{"gasburst", "gasburst", "neoburst", "emit17", "emit17", "emit11", "emit11", "seq17", "seq11", "fail17", "fail11", "bad17", "bad11", "selfburst"}[w.rnd.Intn(14)]
		var tx *transaction.Transaction
		switch kind {
		case "gasburst", "neoburst", "selfburst":
			tok := g.E.NativeHash(w.t, nativenames.Gas)
			amt := int64(1 + w.rnd.Intn(1000))
			if kind == "neoburst" {
				tok = g.E.NativeHash(w.t, nativenames.Neo)
				amt = int64(w.rnd.Intn(3))
			}
			to := w.hot[w.rnd.Intn(len(w.hot))]
			if kind == "selfburst" {
				to = a.ScriptHash()
			}
			k := 20 + w.rnd.Intn(50)
			bw := io.NewBufBinWriter()
			for j := 0; j < k; j++ {
				emit.AppCall(bw.BinWriter, tok, "transfer", callflag.All, a.ScriptHash(), to, amt, nil)
			}
			tx = w.scriptTx(bw.Bytes(), a, 2_0000000)
		case "emit17":
			tx = w.scriptTx(callScript(w.tok17.Hash, "emit", w.party(), w.party(), int64(w.rnd.Intn(100)), int64(1+w.rnd.Intn(70))), a, 2_0000000)
		case "seq17":
			tx = w.scriptTx(callScript(w.tok17.Hash, "emitSeq", w.party(), w.party(), int64(w.rnd.Intn(100)), int64(1+w.rnd.Intn(40))), a, 2_0000000)
		case "emit11":
			tx = w.scriptTx(callScript(w.tok11.Hash, "emit", w.party(), w.party(), int64(1), []byte{byte(1 + w.rnd.Intn(5)), 7}, int64(1+w.rnd.Intn(70))), a, 2_0000000)
		case "seq11":
			tx = w.scriptTx(callScript(w.tok11.Hash, "emitSeq", w.party(), w.party(), int64(1), []byte{9, byte(w.rnd.Intn(3))}, int64(1+w.rnd.Intn(40))), a, 2_0000000)
		case "fail17":
			tx = w.scriptTx(callScript(w.tok17.Hash, "emitFail", w.party(), w.party(), int64(5), int64(1+w.rnd.Intn(5))), a, 5_0000000)
		case "fail11":
			tx = w.scriptTx(callScript(w.tok11.Hash, "emitFail", w.party(), w.party(), int64(1), []byte{4}, int64(1+w.rnd.Intn(5))), a, 5_0000000)
		case "bad17":
			tx = w.scriptTx(callScript(w.tok17.Hash, "emitBad", w.party(), w.party(), int64(3)), a, 2_0000000)
		case "bad11":
			tx = w.scriptTx(callScript(w.tok11.Hash, "emitBad", w.party(), w.party(), int64(1), []byte{8}), a, 2_0000000)
		}
		if tx != nil && w.ref.PoolTx(tx) == nil {
			txs = append(txs, tx)
			w.kinds[kind]++
		}
	}
	return txs
}

// nextBlock builds, adds to the reference node and records the next block and its reference entries.
func (w *randomWorld) nextBlock() error {
	known := snapshotKnown(w.ref, w.watch)
	h := w.ref.BlockHeight()
	var txs []*transaction.Transaction
	switch {
	case h == 2:
		// the scenario token contracts get a block of their own: they are known to ContractManagement from block 4 on
		a := w.gen.Accts[0]
		for _, c := range []*neotest.Contract{w.tok17, w.tok11} {
			if tx := w.deployTx(a, c); tx != nil && w.ref.PoolTx(tx) == nil {
				txs = append(txs, tx)
			}
		}
	default:
		txs = w.gen.NextTxs(4)
		if h >= 3 {
			txs = append(txs, w.extraTxs()...)
		}
	}
	b, err := w.net.NewBlock(w.ref, uint64(1+w.rnd.Intn(3)), txs...)
	if err != nil {
		return err
	}
	if err := w.ref.AddBlock(b); err != nil {
		return fmt.Errorf("reference chain rejected generated block %d: %w", b.Index, err)
	}
	raw, err := chainkit.EncodeBlock(b)
	if err != nil {
		return err
	}
	w.blocks = append(w.blocks, raw)
	w.ts = append(w.ts, b.Timestamp)
	w.watch = appendNew(w.watch, w.gen.AllKVs...)
	adds, err := w.rb.blockAdds(w.ref, b, known)
	if err != nil {
		return err
	}
	w.adds = append(w.adds, adds)
	return nil
}

func appendNew(l []util.Uint160, hs ...util.Uint160) []util.Uint160 {
	for _, h := range hs {
		found := false
		for _, x := range l {
			if x.Equals(h) {
				found = true
			}
		}
		if !found {
			l = append(l, h)
		}
	}
	return l
}

func (w *randomWorld) deployTx(a neotest.Signer, c *neotest.Contract) (tx *transaction.Transaction) {
	defer func() {
		if r := recover(); r != nil {
			tx = nil
		}
	}()
	return w.gen.E.NewDeployTxBy(w.t, a, c, nil) // valid until the next block, which is the one being built
}

func newRandomWorld(t *testing.T, wi int, dir string) (*randomWorld, error) {
	w := &randomWorld{rnd: vh.Rand(int64(7000 + wi)), kinds: map[string]int{}}
	w.t = t
	w.dir = dir
	w.net = chainkit.NewNet(5, 3)
	mtb := uint32(12 + w.rnd.Intn(6))
	w.protocol = func(c *config.Blockchain) {
		c.MaxTraceableBlocks = mtb
		c.MaxValidUntilBlockIncrement = 8
	}
	var err error
	w.ref, err = w.net.NewChain(nil, w.protocol)
	if err != nil {
		return nil, err
	}
	chainkit.Start(w.ref)
	w.gen = histgen.New(t, w.net, w.ref, vh.Seed()*104729+int64(wi), 8)
	w.gen.Weights["gas"] = 30
	w.gen.Weights["neo"] = 22
	w.gen.Weights["deploy"] = 3
	w.gen.Weights["destroy"] = 2
	w.tok17 = compileTok(t, w.gen.Accts[0].ScriptHash(), 17, 1)
	w.tok11 = compileTok(t, w.gen.Accts[0].ScriptHash(), 11, 1)
	w.watch = []util.Uint160{w.tok17.Hash, w.tok11.Hash}
	w.hot = []util.Uint160{w.gen.Accts[1].ScriptHash(), w.gen.Accts[2].ScriptHash()}
	w.rb = newRefBuilder(w.ref)
	// genesis
	g, err := w.ref.GetBlock(w.ref.GetHeaderHash(0))
	if err != nil {
		return nil, err
	}
	w.ts = []uint64{g.Timestamp}
	adds, err := w.rb.blockAdds(w.ref, g, nil)
	if err != nil {
		return nil, err
	}
	w.adds = [][]refAdd{adds}
	return w, nil
}

// sample picks the accounts whose logs are observed: the most loaded ones, plus one of each kind of party.
func (w *randomWorld) sample(max int) []sampleAcc {
	cnt := map[util.Uint160]int{}
	for _, as := range w.adds {
		for _, a := range as {
			cnt[a.Acc]++
		}
	}
	exclude := map[util.Uint160]bool{w.tok17.Hash: true, w.tok11.Hash: true}
	var all []util.Uint160
	for a := range cnt {
		if !exclude[a] {
			all = append(all, a)
		}
	}
	sort.Slice(all, func(i, j int) bool {
		if cnt[all[i]] != cnt[all[j]] {
			return cnt[all[i]] > cnt[all[j]]
		}
		return all[i].Less(all[j])
	})
	var out []sampleAcc
	seen := map[util.Uint160]bool{}
	add := func(h util.Uint160, label string) {
		if !seen[h] && !exclude[h] && len(out) < max {
			seen[h] = true
			out = append(out, sampleAcc{Name: fmt.Sprintf("%s-%s", label, h.StringLE()[:6]), Hash: h})
		}
	}
	for i := 0; i < len(all) && i < 3; i++ {
		add(all[i], "top")
	}
	for _, k := range w.gen.AllKVs {
		if cnt[k] > 0 {
			add(k, "contract")
			break
		}
	}
	add(w.net.CommitteeSigner().ScriptHash(), "committee")
	add(w.net.Validators[0].PublicKey().GetScriptHash(), "validator")
	for i := len(all) - 1; i >= 0 && len(out) < max; i-- {
		add(all[i], "rare")
	}
	return out
}

func tmpDir(prefix string) (string, error) {
	return os.MkdirTemp(os.Getenv("VERIF_WORK"), prefix)
}
