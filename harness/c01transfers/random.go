package c01transfers

import (
	"fmt"
	"math"
	"math/rand"
	"os"
	"testing"

	"verifharness/internal/vh"

	"github.com/nspcc-dev/neo-go/pkg/core/state"
	"github.com/nspcc-dev/neo-go/pkg/util"
)

const realBatch = state.TokenTransferBatchSize

type bound struct {
	T     uint64
	Class string
}

// chooseBounds picks newestTimestamp values for one log: "now", exact batch-edge timestamps (the timestamp of the
// block holding the last entry of a full batch is the key of the next batch) and their neighbours, a random
// block's timestamp, zero. bs = block index of every reference entry (oldest first) the replica can have.
func (w *chainWorld) chooseBounds(rnd *rand.Rand, bs []uint32, h uint32) []bound {
	out := []bound{{math.MaxUint64, "max"}}
	var edges []uint32
	for j := realBatch; j <= len(bs); j += realBatch {
		edges = append(edges, bs[j-1])
	}
	pick := map[uint32]bool{}
	if len(edges) > 0 {
		pick[edges[len(edges)-1]] = true
		pick[edges[rnd.Intn(len(edges))]] = true
	}
	for _, e := range edges { // deterministic order
		if !pick[e] {
			continue
		}
		pick[e] = false
		out = append(out, bound{w.ts[e], "edge"})
		if rnd.Intn(2) == 0 {
			out = append(out, bound{w.ts[e] - 1, "edge-1"})
		} else {
			out = append(out, bound{w.ts[e] + 1, "edge+1"})
		}
	}
	if h > 0 {
		out = append(out, bound{w.ts[1+rnd.Intn(int(h))], "mid"})
	}
	if rnd.Intn(4) == 0 {
		out = append(out, bound{0, "zero"})
	}
	return out
}

func randomConfigs(rnd *rand.Rand) []repCfg {
	return []repCfg{
		{Name: "m1", Backend: "mem", FlushPM: 150, RestPM: 60},                                          // flushes rarely: most answers come from the write cache
		{Name: "b2", Backend: "bolt", FlushPM: 500, RestPM: 120},                                        // flushes and restarts often
		{Name: "l3", Backend: "level", FlushPM: 1000, RestPM: 0},                                        // flushes after every block
		{Name: "g4", Backend: "bolt", GC: true, GCP: uint32(3 + rnd.Intn(2)), FlushPM: 450, RestPM: 30}, // transfer GC; the period
		// keeps MaxTraceableBlocks (12..17) within 7 periods: removeOldTransfers takes the bound's timestamp from an
		// in-memory LRU of the last 8 period blocks and silently skips the collection otherwise
	}
}

func runRandomWorld(t *testing.T, res *vh.Result, tr *vh.Trace, wi int, nblocks int, every int) {
	dir, err := tmpDir("c01x-rnd")
	if err != nil {
		t.Fatal(err)
	}
	defer os.RemoveAll(dir)
	w, err := newRandomWorld(t, wi, dir)
	if err != nil {
		t.Fatal(err)
	}
	defer w.ref.Close()
	for i := 0; i < nblocks; i++ {
		if err := w.nextBlock(); err != nil {
			t.Fatalf("world %d: %v", wi, err)
		}
	}
	samp := w.sample(7)
	sampled := map[util.Uint160]string{}
	var names []string
	for _, s := range samp {
		sampled[s.Hash] = s.Name
		names = append(names, s.Name)
	}
	// block index of every reference entry per sampled log
	refB := map[string][]uint32{}
	key := func(name string, kind int) string { return fmt.Sprintf("%s/%d", name, kind) }
	total := 0
	for _, as := range w.adds {
		for _, a := range as {
			if n, ok := sampled[a.Acc]; ok {
				refB[key(n, a.Kind)] = append(refB[key(n, a.Kind)], a.E.B)
				total++
			}
		}
	}
	reps := []*replica{}
	var cfgs []any
	for _, c := range randomConfigs(w.rnd) {
		reps = append(reps, &replica{cfg: c, gcb: -1})
		cfgs = append(cfgs, map[string]any{"name": c.Name, "backend": c.Backend, "gc": c.GC, "gcp": c.GCP})
	}
	mtb := w.ref.GetMaxTraceableBlocks()
	tr.Emit(map[string]any{"event": "init", "world": wi, "src": "random", "accounts": names, "replicas": cfgs, "mtb": mtb,
		"blocks": nblocks, "sampled_entries": total})
	emitBlock := func(h int) {
		adds := []any{}
		for _, a := range w.adds[h] {
			if n, ok := sampled[a.Acc]; ok {
				adds = append(adds, []any{n, a.Kind, a.E.Tok, a.E.D})
			}
		}
		tr.Emit(map[string]any{"event": "block", "h": h, "adds": adds, "ts": w.ts[h]})
	}
	emitBlock(0)
	for _, r := range reps {
		if err := w.open(r); err != nil {
			t.Fatalf("open %s: %v", r.cfg.Name, err)
		}
	}
	defer func() {
		for _, r := range reps {
			if r.bc != nil {
				r.bc.Close()
			}
		}
	}()
	fail := func(r *replica, op string, err error) {
		res.Violate(map[string]any{"part": "transferlog", "kind": "replica-" + op + "-failed", "cfg": r.who()},
			fmt.Sprintf("replica %s: %s failed at height %d: %v", r.who(), op, r.h, err),
			map[string]any{"world": wi, "seed": vh.Seed(), "src": "random"})
	}
	for h := 1; h <= nblocks; h++ {
		emitBlock(h)
		for _, r := range reps {
			if err := w.add(r); err != nil {
				fail(r, "add", err)
				return
			}
			tr.Emit(map[string]any{"event": "add", "r": r.cfg.Name, "h": r.h})
			if w.rnd.Intn(1000) < r.cfg.FlushPM {
				if err := w.flush(r); err != nil {
					t.Fatalf("persist: %v", err)
				}
				tr.Emit(map[string]any{"event": "flush", "r": r.cfg.Name, "h": r.h, "gcb": r.gcb})
				res.Inc("tl_flushes", 1)
			}
			if w.rnd.Intn(1000) < r.cfg.RestPM {
				if err := w.restart(r); err != nil {
					fail(r, "restart", err)
					return
				}
				if r.bc.BlockHeight() != r.h {
					fail(r, "restart", fmt.Errorf("came back at height %d", r.bc.BlockHeight()))
					return
				}
				tr.Emit(map[string]any{"event": "restart", "r": r.cfg.Name, "h": r.h})
				res.Inc("tl_restarts", 1)
			}
		}
		if h%every != 0 && h != nblocks {
			continue
		}
		// checkpoint: the same questions to every replica
		for _, s := range samp {
			for _, kind := range []int{17, 11} {
				bs := refB[key(s.Name, kind)]
				n := 0
				for n < len(bs) && bs[n] <= uint32(h) {
					n++
				}
				if n == 0 && w.rnd.Intn(4) != 0 {
					continue
				}
				for _, b := range w.chooseBounds(w.rnd, bs[:n], uint32(h)) {
					for _, r := range reps {
						out := w.iterate(res, tr, r, s.Name, s.Hash, kind, b.T, b.Class, r.bc.VerifPersistedHeight() == r.h)
						if b.Class == "max" && len(out) > realBatch {
							res.Inc("tl_iterations_over_several_batches", 1)
						}
						if b.Class == "max" && r.cfg.GC && len(out) < n {
							res.Inc("tl_entries_seen_removed_by_gc", n-len(out))
						}
					}
				}
			}
			for _, r := range reps {
				w.lastUpdated(res, tr, r, s.Name, s.Hash)
			}
		}
		res.Inc("tl_checkpoints", 1)
	}
	res.Traces++
	maxLog := 0
	for _, bs := range refB {
		if len(bs) > maxLog {
			maxLog = len(bs)
		}
	}
	for k, v := range w.gen.Stats {
		res.Inc("tl_tx_"+k, v)
	}
	for k, v := range w.kinds {
		res.Inc("tl_tx_"+k, v)
	}
	res.Inc("tl_blocks_generated", nblocks)
	res.Inc("tl_transfer_events", w.rb.Events)
	res.Inc("tl_reference_entries", w.rb.Logged)
	res.Inc("tl_events_of_faulted_executions", w.rb.SkippedFault)
	res.Inc("tl_malformed_transfer_events", w.rb.SkippedMalformed)
	res.Inc("tl_events_of_contracts_deployed_in_the_same_block", w.rb.SkippedUnknown)
	if v, _ := res.Stats["tl_longest_sampled_log"].(int); maxLog > v {
		res.Stats["tl_longest_sampled_log"] = maxLog
	}
	gcb := int64(-1)
	for _, r := range reps {
		if r.gcb > gcb {
			gcb = r.gcb
		}
	}
	if wi < 2 {
		res.Sample(map[string]any{"world": wi, "src": "random", "blocks": nblocks, "mtb": mtb, "sampled": names, "longest_log": maxLog,
			"gc_bound_block": gcb, "tx_kinds": w.gen.Stats, "extra_tx_kinds": w.kinds})
	}
}
