// Package c01transfers binds spec/transferlog to the real token transfer log of core.Blockchain
// (extension of the C01 check): real chains, replicas with different flush / restart / GC schedules,
// the reference rebuilt from the stored application logs, iterations judged by TransferLogTrace.tla.
package c01transfers

import (
	"fmt"
	"strings"
	"testing"

	"github.com/nspcc-dev/neo-go/pkg/compiler"
	"github.com/nspcc-dev/neo-go/pkg/neotest"
	"github.com/nspcc-dev/neo-go/pkg/smartcontract"
	"github.com/nspcc-dev/neo-go/pkg/smartcontract/manifest"
	"github.com/nspcc-dev/neo-go/pkg/util"
)

// Event-emitting scenario contracts. They hold no balances: the transfer log is driven by notifications
// alone, so a contract that only notifies exercises exactly the code under test. The event parameters are
// declared with type Any so that malformed Transfer events pass the manifest compliance check of
// System.Runtime.Notify and reach blockchain.handleNotification.
const tok17Src = `package tok17

import (
	"github.com/nspcc-dev/neo-go/pkg/interop"
	"github.com/nspcc-dev/neo-go/pkg/interop/runtime"
)

const variant = %d

func _deploy(data any, isUpdate bool) {
	if !isUpdate {
		// the customary initial mint of a NEP-17 token
		runtime.Notify("Transfer", nil, runtime.GetExecutingScriptHash(), 1000000+variant)
	}
}

// Emit notifies n identical NEP-17 Transfer events.
func Emit(from, to interop.Hash160, amount int, n int) {
	for i := 0; i < n; i++ {
		runtime.Notify("Transfer", from, to, amount)
	}
}

// EmitSeq notifies n Transfer events with amounts amount, amount+1, ...
func EmitSeq(from, to interop.Hash160, amount int, n int) {
	for i := 0; i < n; i++ {
		runtime.Notify("Transfer", from, to, amount+i)
	}
}

// EmitFail notifies and then faults: nothing of it may reach the log.
func EmitFail(from, to interop.Hash160, amount int, n int) {
	for i := 0; i < n; i++ {
		runtime.Notify("Transfer", from, to, amount)
	}
	panic("fail after transfer events")
}

// EmitBad notifies events named Transfer that are not transfers (and one good one at the end).
func EmitBad(from, to interop.Hash160, amount int) {
	runtime.Notify("Transfer", []byte{1, 2, 3}, to, amount)     // sender is not a 20-byte value
	runtime.Notify("Transfer", from, []byte("nineteen-bytes-long"), amount) // receiver is not a 20-byte value
	runtime.Notify("Transfer", from, to, []any{amount})         // amount is not an integer
	runtime.Notify("Transfer", from, []any{}, amount)           // receiver is an array
	runtime.Notify("Transfer", from, to, amount)
}

func Version() int { return variant }
`

const tok11Src = `package tok11

import (
	"github.com/nspcc-dev/neo-go/pkg/interop"
	"github.com/nspcc-dev/neo-go/pkg/interop/runtime"
)

const variant = %d

// Emit notifies n identical NEP-11 Transfer events.
func Emit(from, to interop.Hash160, amount int, id []byte, n int) {
	for i := 0; i < n; i++ {
		runtime.Notify("Transfer", from, to, amount, id)
	}
}

// EmitSeq notifies n NEP-11 Transfer events with token ids id+[0], id+[1], ...
func EmitSeq(from, to interop.Hash160, amount int, id []byte, n int) {
	for i := 0; i < n; i++ {
		runtime.Notify("Transfer", from, to, amount, append(id, byte(i)))
	}
}

func EmitFail(from, to interop.Hash160, amount int, id []byte, n int) {
	for i := 0; i < n; i++ {
		runtime.Notify("Transfer", from, to, amount, id)
	}
	panic("fail after transfer events")
}

// EmitBad: a token id longer than a storage key (64 bytes), a non-bytes id, then a good one.
func EmitBad(from, to interop.Hash160, amount int, id []byte) {
	long := make([]byte, 65)
	runtime.Notify("Transfer", from, to, amount, long)
	runtime.Notify("Transfer", from, to, amount, []any{1})
	runtime.Notify("Transfer", from, to, []any{}, id)
	runtime.Notify("Transfer", from, to, amount, id)
}

func Version() int { return variant }
`

func anyParams(names ...string) []compiler.HybridParameter {
	var ps []compiler.HybridParameter
	for _, n := range names {
		ps = append(ps, compiler.HybridParameter{Parameter: manifest.Parameter{Name: n, Type: smartcontract.AnyType}})
	}
	return ps
}

// compileTok compiles an event contract; kind 17 or 11; variant makes distinct hashes.
func compileTok(t testing.TB, sender util.Uint160, kind int, variant int) *neotest.Contract {
	src, params := tok17Src, anyParams("from", "to", "amount")
	if kind == 11 {
		src, params = tok11Src, anyParams("from", "to", "amount", "id")
	}
	return neotest.CompileSource(t, sender, strings.NewReader(fmt.Sprintf(src, variant)), &compiler.Options{
		Name:               fmt.Sprintf("tok%d-%d", kind, variant),
		NoEventsCheck:      true,
		NoPermissionsCheck: true,
		SafeMethods:        []string{"version"},
		ContractEvents:     []compiler.HybridEvent{{Name: "Transfer", Parameters: params}},
	})
}
