package c01transfers

import (
	"crypto/sha256"
	"encoding/hex"
	"fmt"
	"math/big"

	"github.com/nspcc-dev/neo-go/pkg/config/limits"
	"github.com/nspcc-dev/neo-go/pkg/core"
	"github.com/nspcc-dev/neo-go/pkg/core/block"
	"github.com/nspcc-dev/neo-go/pkg/core/state"
	"github.com/nspcc-dev/neo-go/pkg/smartcontract/trigger"
	"github.com/nspcc-dev/neo-go/pkg/util"
	"github.com/nspcc-dev/neo-go/pkg/vm/stackitem"
	"github.com/nspcc-dev/neo-go/pkg/vm/vmstate"
)

// entry is the abstract projection of one log entry: block index (= rank of the timestamp), token id and a
// digest of every field. The same function projects reference entries (built here from notifications) and
// the entries the real log hands out.
type entry struct {
	B   uint32
	Tok int32
	D   string
}

func (e entry) tuple() []any { return []any{e.B, e.Tok, e.D} }

func digest(asset int32, counterparty util.Uint160, amount *big.Int, blk uint32, ts uint64, tx util.Uint256, id []byte, nep11 bool) string {
	s := fmt.Sprintf("%d|%s|%s|%d|%d|%s", asset, counterparty.StringLE(), amount.String(), blk, ts, tx.StringLE())
	if nep11 {
		s += "|" + hex.EncodeToString(id)
	}
	h := sha256.Sum256([]byte(s))
	return hex.EncodeToString(h[:6])
}

func project17(t *state.NEP17Transfer) entry {
	return entry{B: t.Block, Tok: t.Asset, D: digest(t.Asset, t.Counterparty, t.Amount, t.Block, t.Timestamp, t.Tx, nil, false)}
}

func project11(t *state.NEP11Transfer) entry {
	return entry{B: t.Block, Tok: t.Asset, D: digest(t.Asset, t.Counterparty, t.Amount, t.Block, t.Timestamp, t.Tx, t.ID, true)}
}

// refAdd is one reference entry of a block.
type refAdd struct {
	Acc  util.Uint160
	Kind int // 17 or 11
	E    entry
}

// refBuilder rebuilds the expected log content from the application logs stored by the reference node.
// It uses nothing of the transfer log code. Rules (established from blockchain.go handleNotification /
// processTokenTransfer on the unchanged tree and stated in spec/transferlog/TransferLogImpl.tla):
//   - only executions that HALTed count: OnPersist, the transactions in block order, PostPersist;
//   - the notification is named "Transfer" and carries 3 (NEP-17) or 4 (NEP-11) items: from and to are Null or
//     20 bytes, amount converts to an integer, the token id converts to at most 64 bytes;
//   - the emitting contract is native, or was known to ContractManagement BEFORE the block (the log is written
//     from a store layer that does not see the block's own deployments: drift / information, not judged);
//   - the sender (unless Null / zero) gets an entry with the negated amount and the receiver as counterparty,
//     then the receiver (unless Null / zero) gets one with the amount and the sender as counterparty; a
//     self-transfer therefore gives the account two entries;
//   - the entry carries the contract id, the block index and timestamp and the container hash (the block hash
//     for OnPersist / PostPersist).
type refBuilder struct {
	ids     map[util.Uint160]int32 // contract hash -> id for every contract ever seen
	natives map[util.Uint160]bool
	// statistics
	Events, Logged, SkippedFault, SkippedMalformed, SkippedUnknown int
	SameBlockDeploy                                                []string
}

func newRefBuilder(bc *core.Blockchain) *refBuilder {
	rb := &refBuilder{ids: map[util.Uint160]int32{}, natives: map[util.Uint160]bool{}}
	for _, n := range bc.GetNatives() {
		rb.ids[n.Hash] = n.ID
		rb.natives[n.Hash] = true
	}
	return rb
}

// snapshotKnown returns the deployed contracts (of the watched set) known to the node now.
func snapshotKnown(bc *core.Blockchain, watch []util.Uint160) map[util.Uint160]int32 {
	m := map[util.Uint160]int32{}
	for _, h := range watch {
		if cs := bc.GetContractState(h); cs != nil {
			m[h] = cs.ID
		}
	}
	return m
}

func parse160(it stackitem.Item) (util.Uint160, bool) {
	if _, ok := it.(stackitem.Null); ok {
		return util.Uint160{}, true
	}
	b, err := it.TryBytes()
	if err != nil {
		return util.Uint160{}, false
	}
	u, err := util.Uint160DecodeBytesBE(b)
	return u, err == nil
}

// blockAdds computes the reference entries of block b (already accepted by bc). known = deployed contracts before b.
func (rb *refBuilder) blockAdds(bc *core.Blockchain, b *block.Block, known map[util.Uint160]int32) ([]refAdd, error) {
	var execs []state.AppExecResult
	blk, err := bc.GetAppExecResults(b.Hash(), trigger.All)
	if err != nil {
		return nil, fmt.Errorf("block %d application log: %w", b.Index, err)
	}
	var on, post *state.AppExecResult
	for i := range blk {
		switch blk[i].Trigger {
		case trigger.OnPersist:
			on = &blk[i]
		case trigger.PostPersist:
			post = &blk[i]
		}
	}
	if on != nil {
		execs = append(execs, *on)
	}
	for _, tx := range b.Transactions {
		rs, err := bc.GetAppExecResults(tx.Hash(), trigger.Application)
		if err != nil || len(rs) != 1 {
			return nil, fmt.Errorf("tx %s application log: %v (%d results)", tx.Hash().StringLE(), err, len(rs))
		}
		execs = append(execs, rs[0])
	}
	if post != nil {
		execs = append(execs, *post)
	}
	var adds []refAdd
	for _, ex := range execs {
		for _, ev := range ex.Events {
			if ev.Name != "Transfer" {
				continue
			}
			rb.Events++
			if ex.VMState != vmstate.Halt {
				rb.SkippedFault++
				continue
			}
			arr, ok := ev.Item.Value().([]stackitem.Item)
			if !ok || (len(arr) != 3 && len(arr) != 4) {
				rb.SkippedMalformed++
				continue
			}
			from, ok1 := parse160(arr[0])
			to, ok2 := parse160(arr[1])
			amount, err := arr[2].TryInteger()
			if !ok1 || !ok2 || err != nil {
				rb.SkippedMalformed++
				continue
			}
			var id []byte
			nep11 := len(arr) == 4
			if nep11 {
				id, err = arr[3].TryBytes()
				if err != nil || len(id) > limits.MaxStorageKeyLen {
					rb.SkippedMalformed++
					continue
				}
				if id == nil {
					id = []byte{}
				}
			}
			asset := rb.ids[ev.ScriptHash]
			if !rb.natives[ev.ScriptHash] {
				kid, ok := known[ev.ScriptHash]
				if !ok {
					rb.SkippedUnknown++
					if len(rb.SameBlockDeploy) < 5 {
						rb.SameBlockDeploy = append(rb.SameBlockDeploy, fmt.Sprintf("block %d contract %s", b.Index, ev.ScriptHash.StringLE()))
					}
					continue
				}
				asset = kid
				rb.ids[ev.ScriptHash] = kid
			}
			kind := 17
			if nep11 {
				kind = 11
			}
			mk := func(cp util.Uint160, amt *big.Int) entry {
				return entry{B: b.Index, Tok: asset, D: digest(asset, cp, amt, b.Index, b.Timestamp, ex.Container, id, nep11)}
			}
			zero := util.Uint160{}
			if !from.Equals(zero) {
				adds = append(adds, refAdd{Acc: from, Kind: kind, E: mk(to, new(big.Int).Neg(amount))})
				rb.Logged++
			}
			if !to.Equals(zero) {
				adds = append(adds, refAdd{Acc: to, Kind: kind, E: mk(from, amount)})
				rb.Logged++
			}
		}
	}
	return adds, nil
}
