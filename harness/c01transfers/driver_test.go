// Driver of the transfer-log extension of C01.
package c01transfers

import (
	"encoding/json"
	"testing"

	"verifharness/internal/vh"
)

func TestDriver(t *testing.T) {
	res := vh.NewResult()
	tr := vh.NewTrace("trace.ndjson")
	nw := vh.EnvInt("VERIF_RANDOM_WORLDS", 1)
	nb := vh.EnvInt("VERIF_RANDOM_BLOCKS", 48)
	every := vh.EnvInt("VERIF_CHECK_EVERY", 6)
	runSameBlockProbe(t, res)
	var behaviours [][]simStep
	if vh.InDir() != "" {
		if err := vh.ReadJSON("behaviours.json", &behaviours); err != nil {
			t.Logf("no behaviours: %v", err)
		}
	}
	for i, h := range behaviours {
		runReplayWorld(t, res, tr, 1000+i, h)
	}
	for i := 0; i < nw; i++ {
		runRandomWorld(t, res, tr, i, nb, every)
	}
	tr.Close()
	b, _ := json.Marshal(res.Stats)
	t.Log(string(b))
	if err := res.Write(); err != nil {
		t.Fatal(err)
	}
}
