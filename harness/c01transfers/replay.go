package c01transfers

import (
	"encoding/json"
	"fmt"
	"math"
	"os"
	"testing"

	"verifharness/internal/chainkit"
	"verifharness/internal/vh"

	"github.com/nspcc-dev/neo-go/pkg/config"
	"github.com/nspcc-dev/neo-go/pkg/core"
	"github.com/nspcc-dev/neo-go/pkg/core/native/nativenames"
	"github.com/nspcc-dev/neo-go/pkg/core/state"
	"github.com/nspcc-dev/neo-go/pkg/core/transaction"
	"github.com/nspcc-dev/neo-go/pkg/crypto/hash"
	"github.com/nspcc-dev/neo-go/pkg/neotest"
	"github.com/nspcc-dev/neo-go/pkg/util"
	"github.com/nspcc-dev/neo-go/pkg/wallet"
)

// A behaviour of spec/transferlog/TransferLogSim.tla.
type simX struct {
	From string `json:"from"`
	To   string `json:"to"`
	Tok  int    `json:"tok"`
}

type simE struct {
	B   int    `json:"b"`
	N   int    `json:"n"`
	S   string `json:"s"`
	Tok int    `json:"tok"`
}

type simBatch struct {
	Ts  int `json:"ts"`
	Idx int `json:"idx"`
	N   int `json:"n"`
}

type simStep struct {
	Op string `json:"op"`
	R  string `json:"r"`
	// init
	Batch    int      `json:"batch"`
	Maxb     int      `json:"maxb"`
	Mtb      int      `json:"mtb"`
	Replicas []string `json:"replicas"`
	DiskR    []string `json:"diskr"`
	GcR      []string `json:"gcr"`
	// steps
	Xs   []simX                `json:"xs"`
	Gc   int                   `json:"gc"`
	Pred map[string][][]simE   `json:"pred"`
	Disk map[string][]simBatch `json:"disk"`
}

type replayWorld struct {
	chainWorld
	ref    *core.Blockchain
	e      *neotest.Executor
	payer  neotest.SingleSigner
	toks   [2]*neotest.Contract
	tokID  map[int32]int // contract id -> model token
	kind   int
	scale  int
	off    int // real block index = model block index + off
	acc    map[string]util.Uint160
	txAt   map[util.Uint256][2]int // container -> (model block, position)
	rb     *refBuilder
	nmodel int // model blocks generated
}

func has(l []string, s string) bool {
	for _, x := range l {
		if x == s {
			return true
		}
	}
	return false
}

func (w *replayWorld) party(n string) any {
	if n == "0" {
		return nil
	}
	return w.acc[n]
}

// genBlock realises model block b = nmodel+1 with the given transfers on the reference node.
func (w *replayWorld) genBlock(tr *vh.Trace, xs []simX) error {
	b := w.nmodel + 1
	known := snapshotKnown(w.ref, []util.Uint160{w.toks[0].Hash, w.toks[1].Hash})
	var txs []*transaction.Transaction
	for i, x := range xs {
		c := w.toks[x.Tok-1]
		amount := int64(1000*b + i + 1)
		var script []byte
		if w.kind == 17 {
			script = callScript(c.Hash, "emit", w.party(x.From), w.party(x.To), amount, int64(w.scale))
		} else {
			script = callScript(c.Hash, "emit", w.party(x.From), w.party(x.To), amount, []byte{byte(x.Tok), byte(i)}, int64(w.scale))
		}
		u := w.e.PrepareInvocationNoSign(w.t, script, w.ref.BlockHeight()+1)
		tx := w.e.SignTx(w.t, u, 1_0000000+int64(w.scale)*200_0000, w.payer)
		txs = append(txs, tx)
		w.txAt[tx.Hash()] = [2]int{b, i + 1}
	}
	return w.seal(tr, known, txs)
}

func (w *replayWorld) seal(tr *vh.Trace, known map[util.Uint160]int32, txs []*transaction.Transaction) error {
	blk, err := w.net.NewBlock(w.ref, 2, txs...)
	if err != nil {
		return err
	}
	if err := w.ref.AddBlock(blk); err != nil {
		return fmt.Errorf("reference chain rejected block %d: %w", blk.Index, err)
	}
	raw, err := chainkit.EncodeBlock(blk)
	if err != nil {
		return err
	}
	w.blocks = append(w.blocks, raw)
	w.ts = append(w.ts, blk.Timestamp)
	adds, err := w.rb.blockAdds(w.ref, blk, known)
	if err != nil {
		return err
	}
	out := []any{}
	for _, a := range adds {
		for n, h := range w.acc {
			if h.Equals(a.Acc) {
				out = append(out, []any{n, a.Kind, a.E.Tok, a.E.D})
			}
		}
	}
	tr.Emit(map[string]any{"event": "block", "h": blk.Index, "adds": out, "ts": blk.Timestamp})
	if int(blk.Index) > w.off {
		w.nmodel++
	}
	return nil
}

func newReplayWorld(t *testing.T, tr *vh.Trace, wi int, dir string, init simStep) (*replayWorld, error) {
	w := &replayWorld{kind: 17, off: 1, acc: map[string]util.Uint160{}, txAt: map[util.Uint256][2]int{}, tokID: map[int32]int{}}
	if wi%3 == 2 {
		w.kind = 11
	}
	w.t = t
	w.dir = dir
	w.scale = realBatch / init.Batch
	w.net = chainkit.NewNet(4, 1)
	w.protocol = func(c *config.Blockchain) {
		c.MaxTraceableBlocks = uint32(init.Mtb)
		c.MaxValidUntilBlockIncrement = 1
	}
	var err error
	w.ref, err = w.net.NewChain(nil, w.protocol)
	if err != nil {
		return nil, err
	}
	chainkit.Start(w.ref)
	w.e = w.net.Executor(t, w.ref)
	w.payer = neotest.NewSingleSigner(wallet.NewAccountFromPrivateKey(chainkit.Key("payer")))
	for _, n := range []string{"a1", "a2"} {
		w.acc[n] = hash.Hash160([]byte("verif-transferlog-model-account-" + n))
	}
	w.rb = newRefBuilder(w.ref)
	g, err := w.ref.GetBlock(w.ref.GetHeaderHash(0))
	if err != nil {
		return nil, err
	}
	w.ts = []uint64{g.Timestamp}
	tr.Emit(map[string]any{"event": "block", "h": 0, "adds": []any{}, "ts": g.Timestamp})
	// bootstrap block: fund the payer, deploy the two event contracts
	w.toks[0] = compileTok(t, w.e.Validator.ScriptHash(), w.kind, 1)
	w.toks[1] = compileTok(t, w.e.Validator.ScriptHash(), w.kind, 2)
	txs := []*transaction.Transaction{
		w.e.NewTx(t, []neotest.Signer{w.e.Validator}, w.e.NativeHash(t, nativenames.Gas), "transfer",
			w.e.Validator.ScriptHash(), w.payer.ScriptHash(), int64(100000_00000000), nil),
		w.e.NewDeployTx(t, w.toks[0], nil),
		w.e.NewDeployTx(t, w.toks[1], nil),
	}
	if err := w.seal(tr, nil, txs); err != nil {
		return nil, err
	}
	for i, c := range w.toks {
		cs := w.ref.GetContractState(c.Hash)
		if cs == nil {
			return nil, fmt.Errorf("event contract %d not deployed", i)
		}
		w.tokID[cs.ID] = i + 1
	}
	return w, nil
}

// collapse maps real entries back to model entries (runs of `scale` entries of one transaction); ok=false if that is
// impossible. The side (sender / receiver entry) is left out of the comparison with the prediction: the `scale`
// events of a realised self-transfer interleave their sender and receiver entries, the model's single event does not.
func (w *replayWorld) collapse(raws []rawE) ([]simE, bool) {
	var out []simE
	i := 0
	for i < len(raws) {
		r := raws[i]
		at, ok := w.txAt[r.Tx]
		tok, ok2 := w.tokID[r.Asset]
		if !ok || !ok2 {
			return nil, false
		}
		e := simE{B: at[0], N: at[1], Tok: tok}
		j := i
		for j < len(raws) && raws[j].Tx == r.Tx && raws[j].Asset == r.Asset {
			j++
		}
		if (j-i)%w.scale != 0 {
			return nil, false
		}
		for k := 0; k < (j-i)/w.scale; k++ {
			out = append(out, e)
		}
		i = j
	}
	return out, true
}

func sameE(a, b []simE) bool {
	if len(a) != len(b) {
		return false
	}
	for i := range a {
		if a[i].B != b[i].B || a[i].N != b[i].N || a[i].Tok != b[i].Tok {
			return false
		}
	}
	return true
}

func runReplayWorld(t *testing.T, res *vh.Result, tr *vh.Trace, wi int, hist []simStep) {
	if len(hist) < 2 || hist[0].Op != "init" {
		return
	}
	dir, err := tmpDir("c01x-tlc")
	if err != nil {
		t.Fatal(err)
	}
	defer os.RemoveAll(dir)
	init := hist[0]
	tr.Emit(map[string]any{"event": "init", "world": wi, "src": "tlc", "accounts": []string{"a1", "a2"}, "batch": init.Batch, "mtb": init.Mtb})
	w, err := newReplayWorld(t, tr, wi, dir, init)
	if err != nil {
		t.Fatalf("replay world %d: %v", wi, err)
	}
	defer w.ref.Close()
	reps := map[string]*replica{}
	for _, n := range init.Replicas {
		c := repCfg{Name: n, Backend: "mem"}
		if has(init.DiskR, n) {
			c.Backend = "bolt"
		}
		if has(init.GcR, n) {
			c.GC, c.GCP = true, 1
		}
		r := &replica{cfg: c, gcb: -1}
		if err := w.open(r); err != nil {
			t.Fatalf("open %s: %v", n, err)
		}
		reps[n] = r
		// every replica takes the bootstrap block first
		if err := w.add(r); err != nil {
			t.Fatalf("bootstrap block on %s: %v", n, err)
		}
	}
	defer func() {
		for _, r := range reps {
			if r.bc != nil {
				r.bc.Close()
			}
		}
	}()
	var done []any
	fail := func(r *replica, op string, err error) {
		res.Violate(map[string]any{"part": "transferlog", "kind": "replica-" + op + "-failed", "cfg": r.who()},
			fmt.Sprintf("replica %s: %s failed at height %d: %v", r.who(), op, r.h, err),
			map[string]any{"world": wi, "seed": vh.Seed(), "src": "tlc", "ops": done})
	}
	drift := func(what string, st simStep, extra map[string]any) {
		res.Inc("tl_drift_"+what, 1)
		m := map[string]any{"kind": what, "world": wi, "step": len(done), "op": st.Op, "r": st.R}
		for k, v := range extra {
			m[k] = v
		}
		res.AddDrift(m)
	}
	for _, st := range hist[1:] {
		r := reps[st.R]
		if r == nil {
			continue
		}
		done = append(done, map[string]any{"op": st.Op, "r": st.R, "xs": st.Xs})
		switch st.Op {
		case "add":
			if int(r.h)-w.off >= w.nmodel {
				if err := w.genBlock(tr, st.Xs); err != nil {
					t.Fatalf("replay world %d: %v", wi, err)
				}
			}
			if err := w.add(r); err != nil {
				fail(r, "add", err)
				return
			}
			tr.Emit(map[string]any{"event": "add", "r": r.cfg.Name, "h": r.h})
		case "flush":
			if err := w.flush(r); err != nil {
				t.Fatalf("persist: %v", err)
			}
			tr.Emit(map[string]any{"event": "flush", "r": r.cfg.Name, "h": r.h, "gcb": r.gcb})
			// model and harness agree on when a collection may run?
			want := int64(-1)
			if st.Gc >= 0 {
				want = int64(st.Gc + w.off)
			}
			if st.Gc >= 0 && r.gcb < want {
				drift("gc-bound", st, map[string]any{"model": want, "harness": r.gcb})
			}
		case "restart":
			if err := w.restart(r); err != nil {
				fail(r, "restart", err)
				return
			}
			if r.bc.BlockHeight() != r.h {
				fail(r, "restart", fmt.Errorf("came back at height %d", r.bc.BlockHeight()))
				return
			}
			tr.Emit(map[string]any{"event": "restart", "r": r.cfg.Name, "h": r.h})
		default:
			continue
		}
		res.Count([]any{"tlc", wi, len(done), st.Op, st.R})
		// observe the acting replica: every model bound that exists on the chain, and "now"
		flushed := r.bc.VerifPersistedHeight() == r.h
		for _, a := range []string{"a1", "a2"} {
			for T := 0; T <= init.Maxb && T <= w.nmodel; T++ {
				_, raws := w.iterateRaw(res, tr, r, a, w.acc[a], w.kind, w.ts[T+w.off], "model", flushed)
				if len(st.Pred[a]) > T {
					got, ok := w.collapse(raws)
					if !ok || !sameE(got, st.Pred[a][T]) {
						drift("iter-prediction", st, map[string]any{"acc": a, "T": T, "predicted": st.Pred[a][T], "observed": got, "collapsible": ok})
					} else {
						res.Inc("tl_predictions_confirmed", 1)
					}
				}
			}
			w.iterateRaw(res, tr, r, a, w.acc[a], w.kind, math.MaxUint64, "max", flushed)
			// the other log kind of the account stays empty
			w.iterateRaw(res, tr, r, a, w.acc[a], 28-w.kind, math.MaxUint64, "max", flushed)
			w.lastUpdated(res, tr, r, a, w.acc[a])
			if st.Op != "add" {
				// raw batch structure of the backend against the model's disk
				var got []simBatch
				for _, b := range rawBatches(r.st, w.acc[a], w.kind) {
					ts := 0
					if b[0] != 0 {
						ts = int(w.tb(b[0], uint32(len(w.ts)-1))) - w.off
						if w.ts[ts+w.off] != b[0] {
							ts = -1000 // not a block timestamp at all
						}
					}
					n := int(b[2])
					if n%w.scale != 0 {
						n = -n
					} else {
						n /= w.scale
					}
					got = append(got, simBatch{Ts: ts, Idx: int(b[1]), N: n})
				}
				want := st.Disk[a]
				same := len(got) == len(want)
				for i := 0; same && i < len(got); i++ {
					same = got[i] == want[i]
				}
				if !same {
					drift("disk-batches", st, map[string]any{"acc": a, "predicted": want, "observed": got})
				} else {
					res.Inc("tl_disk_predictions_confirmed", 1)
				}
			}
		}
	}
	res.Traces++
	res.Inc("tl_replayed_behaviours", 1)
	res.Inc("tl_replay_model_blocks", w.nmodel)
	if wi < 2 {
		b, _ := json.Marshal(done)
		res.Sample(map[string]any{"world": wi, "src": "tlc", "kind": w.kind, "batch": init.Batch, "scale": w.scale, "ops": json.RawMessage(b)})
	}
}

// runSameBlockProbe establishes (information only, never a verdict) how the log treats Transfer events of a contract
// deployed in the very block that emits them: storeBlock writes the log from a store layer that does not contain the
// block's own changes, so ContractManagement does not know the contract yet and the events (including the customary
// initial mint in _deploy) are not logged. The reference builder follows that rule; the judged worlds avoid the case.
func runSameBlockProbe(t *testing.T, res *vh.Result) {
	dir, err := tmpDir("c01x-probe")
	if err != nil {
		t.Fatal(err)
	}
	defer os.RemoveAll(dir)
	tr := vh.NewTrace("probe.ndjson")
	defer tr.Close()
	w, err := newReplayWorld(t, tr, 0, dir, simStep{Batch: 2, Mtb: 100})
	if err != nil {
		t.Fatalf("probe world: %v", err)
	}
	defer w.ref.Close()
	late := compileTok(t, w.e.Validator.ScriptHash(), 17, 9)
	p := w.acc["a1"]
	call := func() *transaction.Transaction {
		u := w.e.PrepareInvocationNoSign(t, callScript(late.Hash, "emit", nil, p, int64(5), int64(3)), w.ref.BlockHeight()+1)
		return w.e.SignTx(t, u, 2_0000000, w.payer)
	}
	if err := w.seal(tr, nil, []*transaction.Transaction{w.e.NewDeployTx(t, late, nil), call()}); err != nil {
		t.Fatalf("probe: %v", err)
	}
	count := func() int {
		n := 0
		_ = w.ref.ForEachNEP17Transfer(p, math.MaxUint64, func(*state.NEP17Transfer) (bool, error) { n++; return true, nil })
		return n
	}
	same := count()
	own := 0
	_ = w.ref.ForEachNEP17Transfer(late.Hash, math.MaxUint64, func(*state.NEP17Transfer) (bool, error) { own++; return true, nil })
	if err := w.seal(tr, nil, []*transaction.Transaction{call()}); err != nil {
		t.Fatalf("probe: %v", err)
	}
	next := count() - same
	res.Stats["tl_probe_same_block_deploy"] = map[string]any{"events_in_deploy_block_logged": same, "deploy_mint_logged": own, "events_in_next_block_logged": next}
	if same != 0 || own != 0 || next != 3 {
		res.AddDrift(map[string]any{"kind": "same-block-deploy-rule", "events_in_deploy_block_logged": same, "deploy_mint_logged": own,
			"events_in_next_block_logged": next, "note": "the reference builder assumes 0 / 0 / 3"})
	}
}
