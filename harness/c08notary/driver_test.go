// Driver of the notary-request-pool extension of C08: replays TLC behaviours of NotaryPoolImpl and seeded random
// histories on a real chain + real network.Server and records the abstract projection of every step (read back
// from the real pool and the real chain) for validation by NotaryPoolTrace.tla.
package c08notary

import (
	"encoding/json"
	"fmt"
	"math"
	"math/rand"
	"slices"
	"sort"
	"strings"
	"sync"
	"testing"

	"verifharness/internal/vh"

	"github.com/nspcc-dev/neo-go/pkg/core/native/nativehashes"
	"github.com/nspcc-dev/neo-go/pkg/core/transaction"
	"github.com/nspcc-dev/neo-go/pkg/network/payload"
)

// Step is one entry of a behaviour (TLC history or random history).
type Step struct {
	Op    string           `json:"op"`
	Req   int              `json:"req"`
	Bad   bool             `json:"bad"`
	Ok    bool             `json:"ok"`
	Err   string           `json:"err"`
	Pool  []int            `json:"pool"`
	Kind  string           `json:"kind"`
	Arg   json.RawMessage  `json:"arg"`
	Amt   map[string]int64 `json:"amt"`
	Till  map[string]int   `json:"till"`
	H     int              `json:"h"`
	Reqs  []AReq           `json:"reqs"`
	Deps  map[string]ADep  `json:"deps"`
	Cap   int              `json:"cap"`
	Delta int              `json:"delta"`
	Top   int64            `json:"top"`
}

func (s Step) argInt() int {
	var i int
	_ = json.Unmarshal(s.Arg, &i)
	return i
}

func (s Step) argStr() string {
	var x string
	_ = json.Unmarshal(s.Arg, &x)
	return x
}

// runner executes steps on one world and buffers the trace events of the history.
type runner struct {
	w      *World
	res    *vh.Result
	src    string
	events []map[string]any
	ops    []any
	dead   bool // a panic escaped: the locks of the node may still be held
}

func (r *runner) project(id int) map[string]any {
	w := r.w
	q := w.reqs[id-1]
	fb := q.fallback
	conf := []int{}
	for _, a := range fb.GetAttributes(transaction.ConflictsT) {
		if x, ok := w.fbID[a.Value.(*transaction.Conflicts).Hash]; ok {
			conf = append(conf, x)
		}
	}
	dep := "?"
	for n, a := range w.deps {
		if len(fb.Signers) > 1 && a.ScriptHash().Equals(fb.Signers[1].Account) {
			dep = n
		}
	}
	nvb := 0
	if at := fb.GetAttributes(transaction.NotValidBeforeT); len(at) > 0 {
		nvb = int(at[0].Value.(*transaction.NotValidBefore).Height) - int(w.base)
	}
	ms := "X"
	if q.main.Sender().Equals(nativehashes.Notary) {
		ms = "Notary"
	}
	return map[string]any{"id": id, "dep": dep, "cost": fb.SystemFee + fb.NetworkFee, "netfee": fb.NetworkFee, "fpb": fb.FeePerByte(),
		"high": fb.HasAttribute(transaction.HighPriority), "conf": conf, "main": q.a.Main, "nvb": nvb,
		"vub": int(fb.ValidUntilBlock) - int(w.base), "mainsender": ms}
}

// observe reads the abstract state back from the real pool and the real chain.
func (r *runner) observe() map[string]any {
	w := r.w
	pool, keys, data, databad := []int{}, []int{}, []int{}, []int{}
	for _, tx := range w.pool.GetVerifiedTransactions() {
		pool = append(pool, w.fbID[tx.Hash()]) // 0 = a transaction nobody submitted
	}
	chf, chm := []int{}, []int{}
	seenM := map[int]bool{}
	for i, q := range w.reqs {
		h := q.fallback.Hash()
		if w.pool.ContainsKey(h) {
			keys = append(keys, i+1)
		}
		if d, ok := w.pool.TryGetData(h); ok {
			p, isP := d.(*payload.P2PNotaryRequest)
			if isP && p != nil && p.FallbackTransaction.Hash() == h && p.MainTransaction.Hash() == q.main.Hash() {
				if raw, err := p.Bytes(); err == nil && slices.Equal(raw, q.raw) {
					data = append(data, i+1)
				} else {
					databad = append(databad, i+1)
				}
			} else {
				databad = append(databad, i+1)
			}
		}
		if _, ht, err := w.bc.GetTransaction(h); err == nil && ht != math.MaxUint32 {
			chf = append(chf, i+1)
		}
		if !seenM[q.a.Main] {
			if _, ht, err := w.bc.GetTransaction(q.main.Hash()); err == nil && ht != math.MaxUint32 {
				chm = append(chm, q.a.Main)
				seenM[q.a.Main] = true
			}
		}
	}
	amt, till := map[string]int64{}, map[string]int{}
	for _, n := range w.names {
		a, t := w.deposit(n)
		amt[n] = a
		till[n] = 0
		if t != 0 {
			till[n] = int(t) - int(w.base)
		}
	}
	ev := map[string]any{"pool": pool, "count": w.pool.Count(), "keys": keys, "data": data, "amt": amt, "till": till,
		"h": w.rel(), "chf": chf, "chm": chm}
	if len(databad) > 0 {
		ev["databad"] = databad
	}
	return ev
}

func (r *runner) start(u Universe) {
	reqs := []any{}
	for i := range r.w.reqs {
		reqs = append(reqs, r.project(i+1))
	}
	o := r.observe()
	r.events = append(r.events, map[string]any{"event": "init", "reqs": reqs, "cap": u.Cap, "delta": u.Delta, "amt": o["amt"],
		"till": o["till"], "h": o["h"], "src": r.src})
}

func (r *runner) guard(op string, f func()) {
	defer func() {
		if p := recover(); p != nil {
			r.dead = true
			r.res.Violate(map[string]any{"kind": "panic", "part": "notarypool", "op": op},
				fmt.Sprintf("Go panic escaped %s: %v", op, p), map[string]any{"universe": r.w.u, "ops": r.ops, "src": r.src})
		}
	}()
	f()
}

func (r *runner) submit(id int, bad bool) (map[string]any, error) {
	var err error
	r.ops = append(r.ops, map[string]any{"op": "submit", "req": id, "bad": bad})
	r.guard("RelayP2PNotaryRequest", func() { err = r.w.Submit(id, bad) })
	if r.dead {
		return nil, nil
	}
	ev := r.observe()
	ev["event"], ev["req"], ev["bad"], ev["ok"], ev["err"] = "submit", id, bad, err == nil, errClass(err)
	r.events = append(r.events, ev)
	r.res.Count([]any{r.src[:3], "submit", id, bad, ev["pool"], ev["h"]})
	return ev, err
}

// block stores one block with the given content; returns an error if the chain refused it (nothing recorded then).
func (r *runner) block(kind string, arg any, txs ...*transaction.Transaction) (map[string]any, error) {
	var err error
	r.ops = append(r.ops, map[string]any{"op": "block", "kind": kind, "arg": arg})
	// a completed fallback may FAULT (its system fee need not cover its script): it is charged all the same
	r.guard("AddBlock+postBlock", func() { err = r.w.addBlock(len(txs) > 0 && !strings.HasPrefix(kind, "fallback"), txs...) })
	if r.dead {
		return nil, nil
	}
	if err != nil {
		return nil, err
	}
	ev := r.observe()
	ev["event"], ev["kind"], ev["arg"] = "block", kind, arg
	r.events = append(r.events, ev)
	r.res.Count([]any{r.src[:3], "block", kind, arg, ev["pool"], ev["h"]})
	return ev, nil
}

func (r *runner) blockOf(kind string, argI int, argS string, amount int64) (map[string]any, error) {
	w := r.w
	switch kind {
	case "empty":
		return r.block(kind, 0)
	case "fallback":
		return r.block(kind, argI, w.completed(w.reqs[argI-1].fallback))
	case "main":
		for _, q := range w.reqs {
			if q.a.Main == argI {
				return r.block(kind, argI, w.completed(q.main))
			}
		}
		return nil, fmt.Errorf("no main %d", argI)
	case "topup":
		_, t := w.deposit(argS)
		till := max(t, w.bc.BlockHeight()+3)
		return r.block(kind, argS, w.depositTx(argS, amount, till))
	case "withdraw":
		return r.block(kind, argS, w.withdrawTx(argS))
	}
	return nil, fmt.Errorf("unknown block kind %q", kind)
}

func errClass(err error) string {
	if err == nil {
		return ""
	}
	s := err.Error()
	for _, c := range [][2]string{{"payload witness", "witness"}, {"not allowed to be the sender", "main-sender"}, {"valid after deposit is unlocked", "deposit-unlocks"},
		{"NotValidBefore", "nvb"}, {"is already on chain", "main-onchain"}, {"already exists in mempool", "dup"}, {"already exists", "exists"},
		{"insufficient funds", "insufficient"}, {"conflicts with the memory pool", "conflict-funds"}, {"no space left", "oom"}, {"too small network fee", "small-netfee"},
		{"ValidUntilBlock", "expired"}, {"decode", "decode"}} {
		if strings.Contains(s, c[0]) {
			return c[1]
		}
	}
	if len(s) > 160 {
		s = s[:160]
	}
	return s
}

func sameInts(a, b []int) bool { return slices.Equal(a, b) }

func universeOf(s Step) (Universe, []string) {
	u := Universe{Reqs: s.Reqs, Deps: s.Deps, Cap: s.Cap, Delta: s.Delta}
	var names []string
	for n := range s.Deps {
		names = append(names, n)
	}
	sort.Strings(names)
	return u, names
}

// runTLC replays one behaviour of NotaryPoolImpl; predictions of the model are compared for drift only.
func runTLC(t testing.TB, res *vh.Result, src string, hist []Step) []map[string]any {
	if len(hist) == 0 || hist[0].Op != "init" {
		return nil
	}
	u, names := universeOf(hist[0])
	w, err := NewWorld(t, u, names)
	if w != nil {
		defer w.Close()
	}
	if err != nil {
		res.Inc("notarypool_worlds_failed", 1)
		res.AddDrift(map[string]any{"src": src, "what": "world construction failed", "err": err.Error()})
		return nil
	}
	r := &runner{w: w, res: res, src: src}
	r.start(u)
	drift := func(si int, st Step, what string, ev map[string]any, err error) {
		res.AddDrift(map[string]any{"src": src, "step": si + 1, "op": st.Op, "req": st.Req, "kind": st.Kind, "what": what,
			"predicted": st.Pool, "predicted_ok": st.Ok, "predicted_err": st.Err, "observed": ev, "observed_err": errClass(err)})
		res.Inc("notarypool_drift", 1)
	}
	for si, st := range hist[1:] {
		switch st.Op {
		case "submit":
			ev, err := r.submit(st.Req, st.Bad)
			if r.dead {
				return r.events
			}
			if st.Ok != (err == nil) || !sameInts(st.Pool, ev["pool"].([]int)) {
				drift(si, st, "submit outcome", ev, err)
			}
		case "block":
			ev, err := r.blockOf(st.Kind, st.argInt(), st.argStr(), hist[0].Top*unit)
			if r.dead {
				return r.events
			}
			if err != nil {
				// the model thought this block acceptable, the chain did not: drift, and the rest of the behaviour
				// is not comparable
				drift(si, st, "block refused by the chain", nil, err)
				res.Traces++
				return r.events
			}
			ok := sameInts(st.Pool, ev["pool"].([]int)) && st.H == ev["h"].(int)
			for n, a := range st.Amt {
				ok = ok && ev["amt"].(map[string]int64)[n] == a*unit && ev["till"].(map[string]int)[n] == st.Till[n]
			}
			if !ok {
				drift(si, st, "block outcome", ev, nil)
			}
		}
	}
	res.Traces++
	return r.events
}

// randomUniverse draws a universe larger than the model-checked ones.
func randomUniverse(r *rand.Rand) (Universe, []string) {
	names := []string{"A", "B", "C"}
	u := Universe{Deps: map[string]ADep{}, Cap: 2 + r.Intn(4), Delta: 2 + r.Intn(4)}
	nm := 3 + r.Intn(5)
	vubs := make([]int, nm+1)
	maxVub := 0
	for m := 1; m <= nm; m++ {
		vubs[m] = 2 + r.Intn(8)
		maxVub = max(maxVub, vubs[m])
	}
	for _, n := range names {
		d := ADep{Amt: int64(4 + r.Intn(11)), Till: maxVub + 1 + r.Intn(3)}
		switch r.Intn(12) {
		case 0:
			d = ADep{} // no deposit (a top-up may create one later)
		case 1:
			d.Till = 3 + r.Intn(6) // unlocks while some requests are still valid
		}
		u.Deps[n] = d
	}
	n := 6 + r.Intn(8)
	for i := 0; i < n; i++ {
		m := 1 + r.Intn(nm)
		a := AReq{Dep: names[r.Intn(len(names))], Main: m, Vub: vubs[m], Kind: "ok"}
		lo := max(0, a.Vub-u.Delta)
		if r.Intn(10) == 0 && lo > 0 {
			lo-- // NotValidBefore window too wide
		}
		a.Nvb = lo + r.Intn(a.Vub-lo)
		a.Netfee = int64(2 + r.Intn(4)) // many ties
		a.Cost = a.Netfee + int64(r.Intn(4))
		a.Pad = []int{0, 0, 0, 70, 160}[r.Intn(5)]
		u.Reqs = append(u.Reqs, a)
	}
	if r.Intn(3) == 0 { // a request whose main transaction is sent by the Notary contract
		u.Reqs = append(u.Reqs, AReq{Dep: names[r.Intn(3)], Main: nm + 1, Vub: 3 + r.Intn(4), Nvb: 1, Cost: 3, Netfee: 3, Kind: "mainnotary"})
	}
	return u, names
}

// runRandom drives one random history; block contents that the chain would refuse are replaced by empty blocks.
func runRandom(t testing.TB, res *vh.Result, src string, seed int64) []map[string]any {
	rd := rand.New(rand.NewSource(seed))
	u, names := randomUniverse(rd)
	w, err := NewWorld(t, u, names)
	if w != nil {
		defer w.Close()
	}
	if err != nil {
		res.Inc("notarypool_worlds_failed", 1)
		res.AddDrift(map[string]any{"src": src, "what": "world construction failed", "err": err.Error(), "universe": u})
		return nil
	}
	r := &runner{w: w, res: res, src: src}
	r.start(u)
	n := len(u.Reqs)
	mains := []int{}
	for _, q := range u.Reqs {
		if q.Kind == "ok" && !slices.Contains(mains, q.Main) {
			mains = append(mains, q.Main)
		}
	}
	nops := 25 + rd.Intn(30)
	maxVub := 0
	for _, q := range u.Reqs {
		maxVub = max(maxVub, q.Vub)
	}
	for i := 0; i < nops && !r.dead && w.rel() <= maxVub; i++ {
		k := rd.Intn(100)
		switch {
		case k < 58:
			id := 1 + rd.Intn(n)
			if rd.Intn(8) != 0 { // mostly requests that are still of interest: not expired, not pooled
				var live []int
				for j := range w.reqs {
					if u.Reqs[j].Vub > w.rel() && (!w.pool.ContainsKey(w.reqs[j].fallback.Hash()) || rd.Intn(4) == 0) {
						live = append(live, j+1)
					}
				}
				if len(live) > 0 {
					id = live[rd.Intn(len(live))]
				}
			}
			r.submit(id, rd.Intn(25) == 0)
		case k < 72:
			r.blockOf("empty", 0, "", 0)
		case k < 75:
			// two completed fallbacks in one block (refused by the chain when the deposit cannot pay for both)
			a, b := 1+rd.Intn(n), 1+rd.Intn(n)
			fa, fb := w.completed(w.reqs[a-1].fallback), w.completed(w.reqs[b-1].fallback)
			if a != b && w.bc.VerifyTx(fa) == nil && w.bc.VerifyTx(fb) == nil {
				if _, err := r.block("fallbacks", []int{a, b}, fa, fb); err != nil {
					res.Inc("notarypool_random_blocks_refused", 1)
				}
			} else {
				r.blockOf("empty", 0, "", 0)
			}
		case k < 84:
			// a completed fallback the chain accepts now (pooled or not), if there is one
			done := false
			for _, j := range rd.Perm(n) {
				if w.bc.VerifyTx(w.completed(w.reqs[j].fallback)) == nil {
					if _, err := r.blockOf("fallback", j+1, "", 0); err != nil {
						res.Inc("notarypool_random_blocks_refused", 1)
					}
					done = true
					break
				}
			}
			if !done {
				r.submit(1+rd.Intn(n), false)
			}
		case k < 90:
			m := mains[rd.Intn(len(mains))]
			var mt *transaction.Transaction
			for _, q := range w.reqs {
				if q.a.Main == m {
					mt = q.main
				}
			}
			if w.bc.VerifyTx(w.completed(mt)) == nil {
				if _, err := r.blockOf("main", m, "", 0); err != nil {
					res.Inc("notarypool_random_blocks_refused", 1)
				}
			} else {
				r.submit(1+rd.Intn(n), false)
			}
		case k < 96:
			if _, err := r.blockOf("topup", 0, names[rd.Intn(len(names))], int64(2+rd.Intn(5))*unit); err != nil {
				res.Inc("notarypool_random_blocks_refused", 1)
			}
		default:
			d := names[rd.Intn(len(names))]
			a, t := w.deposit(d)
			if a > 0 && w.bc.BlockHeight() >= t {
				if _, err := r.blockOf("withdraw", 0, d, 0); err != nil {
					res.Inc("notarypool_random_blocks_refused", 1)
				}
			} else {
				r.submit(1+rd.Intn(n), false)
			}
		}
	}
	res.Traces++
	return r.events
}

func TestDriver(t *testing.T) {
	res := vh.NewResult()
	tr := vh.NewTrace("trace.ndjson")
	var behaviours [][]Step
	if vh.InDir() != "" {
		if err := vh.ReadJSON("behaviours.json", &behaviours); err != nil {
			t.Logf("no behaviours: %v", err)
		}
	}
	nr := vh.EnvInt("VERIF_RANDOM", 100)
	master := vh.Rand(8)
	seeds := make([]int64, nr)
	for i := range seeds {
		seeds[i] = master.Int63()
	}
	total := len(behaviours) + nr
	out := make([][]map[string]any, total)
	jobs := make(chan int, total)
	for i := 0; i < total; i++ {
		jobs <- i
	}
	close(jobs)
	var wg sync.WaitGroup
	for k := 0; k < vh.EnvInt("VERIF_PAR", 8); k++ {
		wg.Add(1)
		go func() {
			defer wg.Done()
			for i := range jobs {
				if i < len(behaviours) {
					out[i] = runTLC(t, res, fmt.Sprintf("tlc-%d", i), behaviours[i])
				} else {
					out[i] = runRandom(t, res, fmt.Sprintf("rnd-%d", i-len(behaviours)), seeds[i-len(behaviours)])
				}
			}
		}()
	}
	wg.Wait()
	kinds := map[string]int{}
	for i, evs := range out {
		for _, ev := range evs {
			k := ev["event"].(string)
			if k == "block" {
				k += ":" + ev["kind"].(string)
			}
			if k == "submit" {
				if ev["ok"].(bool) {
					k += ":ok"
				} else {
					k += ":fail:" + ev["err"].(string)
				}
			}
			kinds[k]++
			tr.Emit(ev)
		}
		if len(evs) > 0 && (i%97 == 0) {
			res.Sample(map[string]any{"src": evs[0]["src"], "universe": evs[0]["reqs"], "steps": len(evs) - 1, "last": evs[len(evs)-1]})
		}
	}
	tr.Close()
	res.Stats["notarypool_event_kinds"] = kinds
	res.Inc("notarypool_replayed_behaviours", len(behaviours))
	res.Inc("notarypool_random_histories", nr)
	sort.Strings(res.Distinct)
	if err := res.Write(); err != nil {
		t.Fatal(err)
	}
	if t.Failed() {
		t.Log("a preparation step failed")
	}
}
