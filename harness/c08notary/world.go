// Package c08notary binds spec/notarypool to the real node: a real core.Blockchain (P2PSigExtensions on), a real
// network.Server constructed on it (never started: no sockets, no goroutines) whose notary request pool, request
// handler (Server.RelayP2PNotaryRequest -> verifyAndPoolNotaryRequest -> bc.PoolTxWithData) and post-block refresh
// (the callback NewServer registers with bc.RegisterPostBlock) are the code under test. Nothing of that glue is
// transcribed.
package c08notary

import (
	"bytes"
	"fmt"
	"math/big"
	"testing"

	"verifharness/internal/chainkit"

	"github.com/nspcc-dev/neo-go/pkg/config"
	"github.com/nspcc-dev/neo-go/pkg/core"
	"github.com/nspcc-dev/neo-go/pkg/core/mempool"
	"github.com/nspcc-dev/neo-go/pkg/core/native/nativehashes"
	"github.com/nspcc-dev/neo-go/pkg/core/native/nativeids"
	"github.com/nspcc-dev/neo-go/pkg/core/native/nativenames"
	"github.com/nspcc-dev/neo-go/pkg/core/native/noderoles"
	"github.com/nspcc-dev/neo-go/pkg/core/state"
	"github.com/nspcc-dev/neo-go/pkg/core/transaction"
	"github.com/nspcc-dev/neo-go/pkg/crypto/keys"
	"github.com/nspcc-dev/neo-go/pkg/neotest"
	"github.com/nspcc-dev/neo-go/pkg/network"
	"github.com/nspcc-dev/neo-go/pkg/network/payload"
	"github.com/nspcc-dev/neo-go/pkg/smartcontract/trigger"
	"github.com/nspcc-dev/neo-go/pkg/util"
	"github.com/nspcc-dev/neo-go/pkg/vm/opcode"
	"github.com/nspcc-dev/neo-go/pkg/vm/stackitem"
	"github.com/nspcc-dev/neo-go/pkg/wallet"
	"go.uber.org/zap"
)

const (
	gas  = int64(1_0000_0000)
	unit = int64(1000_0000) // one model fee unit = 0.1 GAS
)

// AReq is the abstract request record shared with the TLA+ modules (heights relative to the base height).
type AReq struct {
	Dep    string `json:"dep"`    // depositor name
	Main   int    `json:"main"`   // id of the main transaction (requests may share one)
	Cost   int64  `json:"cost"`   // system + network fee of the fallback, model units
	Netfee int64  `json:"netfee"` // network fee of the fallback, model units
	Nvb    int    `json:"nvb"`    // NotValidBefore of the fallback
	Vub    int    `json:"vub"`    // ValidUntilBlock of main and fallback
	Kind   string `json:"kind"`   // "ok" | "mainnotary" (main transaction sent by the Notary contract)
	Pad    int    `json:"pad"`    // extra script bytes of the fallback: fee per byte and network fee order differently
}

// ADep is the initial deposit of a depositor.
type ADep struct {
	Amt  int64 `json:"amt"`  // model units; 0 = no deposit
	Till int   `json:"till"` // relative height
}

// Universe is what an init step carries.
type Universe struct {
	Reqs  []AReq          `json:"reqs"`
	Deps  map[string]ADep `json:"deps"`
	Cap   int             `json:"cap"`
	Delta int             `json:"delta"` // MaxNotValidBeforeDelta
}

type realReq struct {
	a        AReq
	main     *transaction.Transaction
	fallback *transaction.Transaction
	raw      []byte // wire form of the P2PNotaryRequest
	rawBad   []byte // same with a payload witness that does not verify
}

type World struct {
	t     testing.TB
	net   *chainkit.Net
	bc    *core.Blockchain
	e     *neotest.Executor
	srv   *network.Server
	pool  *mempool.Pool
	nk    *keys.PrivateKey // the designated P2PNotary node
	deps  map[string]*wallet.Account
	names []string // depositor names, sorted
	x     *wallet.Account
	u     Universe
	base  uint32
	reqs  []*realReq
	mains map[int]*transaction.Transaction
	fbID  map[util.Uint256]int
	nonce uint32
}

func depAcct(name string) *wallet.Account {
	return wallet.NewAccountFromPrivateKey(chainkit.Key("c08n-dep-" + name))
}

// NewWorld builds the chain (funding, notary node designation, MaxNotValidBeforeDelta, deposits) and the server.
func NewWorld(t testing.TB, u Universe, names []string) (w *World, err error) {
	defer func() {
		if r := recover(); r != nil {
			err = fmt.Errorf("world construction panicked: %v", r)
		}
	}()
	w = &World{t: t, net: chainkit.NewNet(1, 1), u: u, deps: map[string]*wallet.Account{}, names: names,
		mains: map[int]*transaction.Transaction{}, fbID: map[util.Uint256]int{}}
	w.bc, err = w.net.NewChain(nil, func(c *config.Blockchain) {
		c.P2PNotaryRequestPayloadPoolSize = u.Cap
	})
	if err != nil {
		return nil, err
	}
	chainkit.Start(w.bc)
	w.srv, err = network.NewServer(network.ServerConfig{Addresses: []config.AnnounceableAddress{{Address: "127.0.0.1:0"}}, MinPeers: 0},
		w.bc, w.bc.GetStateSyncModule(), zap.NewNop())
	if err != nil {
		w.bc.Close()
		return nil, err
	}
	w.pool = w.srv.GetNotaryPool()
	w.e = w.net.Executor(t, w.bc)
	w.nk = chainkit.Key("c08n-notary-node")
	w.x = wallet.NewAccountFromPrivateKey(chainkit.Key("c08n-main-sender"))
	for _, n := range names {
		w.deps[n] = depAcct(n)
	}
	gasH := w.e.NativeHash(t, nativenames.Gas)
	val := []neotest.Signer{w.e.Validator}
	cmt := []neotest.Signer{w.e.Committee}
	// block 1: funding
	var txs []*transaction.Transaction
	for _, n := range names {
		txs = append(txs, w.prepTx(val, gasH, "transfer", w.e.Validator.ScriptHash(), w.deps[n].ScriptHash(), 1000*gas, nil))
	}
	txs = append(txs, w.prepTx(val, gasH, "transfer", w.e.Validator.ScriptHash(), w.x.ScriptHash(), 1000*gas, nil))
	txs = append(txs, w.prepTx(val, gasH, "transfer", w.e.Validator.ScriptHash(), w.e.Committee.ScriptHash(), 1000*gas, nil))
	if err = w.addBlock(true, txs...); err != nil {
		return w, err
	}
	// block 2: the notary node and the NotValidBefore window
	txs = []*transaction.Transaction{
		w.prepTx(cmt, w.e.NativeHash(t, nativenames.Designation), "designateAsRole", int64(noderoles.P2PNotary), []any{w.nk.PublicKey().Bytes()}),
		w.prepTx(cmt, nativehashes.Notary, "setMaxNotValidBeforeDelta", int64(u.Delta)),
	}
	if err = w.addBlock(true, txs...); err != nil {
		return w, err
	}
	// block 3: deposits; heights of the universe are relative to this block
	w.base = w.bc.BlockHeight() + 1
	txs = nil
	for _, n := range names {
		d := u.Deps[n]
		if d.Amt > 0 {
			txs = append(txs, w.depositTx(n, d.Amt*unit, w.base+uint32(d.Till)))
		}
	}
	if err = w.addBlock(true, txs...); err != nil {
		return w, err
	}
	if got, _ := w.bc.GetMaxNotValidBeforeDelta(); int(got) != u.Delta {
		return w, fmt.Errorf("MaxNotValidBeforeDelta is %d, wanted %d", got, u.Delta)
	}
	for i := range u.Reqs {
		r, err := w.buildReq(i+1, u.Reqs[i])
		if err != nil {
			return w, err
		}
		w.reqs = append(w.reqs, r)
		w.fbID[r.fallback.Hash()] = i + 1
	}
	return w, nil
}

func (w *World) Close() {
	if w.bc != nil {
		w.bc.Close()
	}
}

func (w *World) rel() int { return int(w.bc.BlockHeight()) - int(w.base) }

func (w *World) prepTx(signers []neotest.Signer, h util.Uint160, method string, args ...any) *transaction.Transaction {
	tx := w.e.NewUnsignedTx(w.t, h, method, args...)
	w.nonce++
	tx.Nonce = 0x7000_0000 + w.nonce // neotest's global nonce counter is not deterministic across parallel worlds
	tx.ValidUntilBlock = w.bc.BlockHeight() + 20
	tx.NetworkFee = gas / 10
	return w.e.SignTx(w.t, tx, 2*gas, signers...)
}

func (w *World) depositTx(name string, amount int64, till uint32) *transaction.Transaction {
	s := neotest.NewSingleSigner(w.deps[name])
	return w.prepTx([]neotest.Signer{s}, w.e.NativeHash(w.t, nativenames.Gas), "transfer", s.ScriptHash(), nativehashes.Notary, amount, []any{nil, int64(till)})
}

func (w *World) withdrawTx(name string) *transaction.Transaction {
	s := neotest.NewSingleSigner(w.deps[name])
	return w.prepTx([]neotest.Signer{s}, nativehashes.Notary, "withdraw", s.ScriptHash(), s.ScriptHash())
}

// addBlock makes the next block of txs through the wire form; mustHalt also checks every transaction HALTed.
func (w *World) addBlock(mustHalt bool, txs ...*transaction.Transaction) error {
	b, err := w.net.NewBlock(w.bc, 1, txs...)
	if err != nil {
		return err
	}
	raw, err := chainkit.EncodeBlock(b)
	if err != nil {
		return err
	}
	d, err := chainkit.DecodeBlock(raw, false)
	if err != nil {
		return err
	}
	if err := w.bc.AddBlock(d); err != nil {
		return fmt.Errorf("block %d rejected: %w", b.Index, err)
	}
	for _, tx := range txs {
		if !mustHalt {
			break
		}
		aer, err := w.bc.GetAppExecResults(tx.Hash(), trigger.Application)
		if err != nil || len(aer) == 0 || aer[0].VMState.String() != "HALT" {
			return fmt.Errorf("tx %s in block %d did not HALT: %v %v", tx.Hash().StringLE(), b.Index, err, faultOf(aer))
		}
	}
	return nil
}

func faultOf(aer []state.AppExecResult) string {
	if len(aer) == 0 {
		return ""
	}
	return aer[0].FaultException
}

func dummyNotaryWitness() transaction.Witness {
	return transaction.Witness{InvocationScript: append([]byte{byte(opcode.PUSHDATA1), keys.SignatureLen}, make([]byte, keys.SignatureLen)...), VerificationScript: []byte{}}
}

func (w *World) notaryWitness(tx *transaction.Transaction) transaction.Witness {
	return transaction.Witness{InvocationScript: append([]byte{byte(opcode.PUSHDATA1), keys.SignatureLen}, w.nk.SignHashable(uint32(w.net.Magic), tx)...), VerificationScript: []byte{}}
}

func sigWitness(a *wallet.Account, magic uint32, h interface{ Hash() util.Uint256 }) transaction.Witness {
	return transaction.Witness{
		InvocationScript:   append([]byte{byte(opcode.PUSHDATA1), keys.SignatureLen}, a.PrivateKey().SignHashable(magic, h)...),
		VerificationScript: a.GetVerificationScript(),
	}
}

// mainTx returns (building it at first use) the main transaction number m: sender X, Notary second signer.
func (w *World) mainTx(m int, vub uint32, notarySender bool) *transaction.Transaction {
	key := m
	if notarySender {
		key = -m
	}
	if tx, ok := w.mains[key]; ok {
		return tx
	}
	tx := transaction.New([]byte{byte(opcode.PUSH1), byte(opcode.RET)}, gas/100)
	tx.Nonce = uint32(1000 + m)
	tx.ValidUntilBlock = vub
	tx.NetworkFee = gas / 2
	tx.Signers = []transaction.Signer{{Account: w.x.ScriptHash(), Scopes: transaction.CalledByEntry}, {Account: nativehashes.Notary, Scopes: transaction.None}}
	if notarySender {
		tx.Signers[0], tx.Signers[1] = tx.Signers[1], tx.Signers[0]
	}
	tx.Attributes = []transaction.Attribute{{Type: transaction.NotaryAssistedT, Value: &transaction.NotaryAssisted{NKeys: 1}}}
	tx.Scripts = []transaction.Witness{{InvocationScript: []byte{}, VerificationScript: []byte{}}, {InvocationScript: []byte{}, VerificationScript: []byte{}}}
	xi := 0
	if notarySender {
		xi = 1
	}
	tx.Scripts[xi] = sigWitness(w.x, uint32(w.net.Magic), tx)
	tx.Scripts[1-xi] = dummyNotaryWitness()
	w.mains[key] = tx
	return tx
}

func (w *World) buildReq(id int, a AReq) (*realReq, error) {
	d, ok := w.deps[a.Dep]
	if !ok {
		return nil, fmt.Errorf("request %d: unknown depositor %q", id, a.Dep)
	}
	vub := w.base + uint32(a.Vub)
	main := w.mainTx(a.Main, vub, a.Kind == "mainnotary")
	if main.ValidUntilBlock != vub {
		return nil, fmt.Errorf("request %d: requests sharing main %d must share ValidUntilBlock", id, a.Main)
	}
	script := append(bytes.Repeat([]byte{byte(opcode.NOP)}, a.Pad), byte(opcode.RET))
	fb := transaction.New(script, (a.Cost-a.Netfee)*unit)
	fb.Nonce = uint32(id)
	fb.ValidUntilBlock = vub
	fb.NetworkFee = a.Netfee * unit
	fb.Signers = []transaction.Signer{{Account: nativehashes.Notary, Scopes: transaction.None}, {Account: d.ScriptHash(), Scopes: transaction.None}}
	fb.Attributes = []transaction.Attribute{
		{Type: transaction.NotaryAssistedT, Value: &transaction.NotaryAssisted{NKeys: 0}},
		{Type: transaction.NotValidBeforeT, Value: &transaction.NotValidBefore{Height: w.base + uint32(a.Nvb)}},
		{Type: transaction.ConflictsT, Value: &transaction.Conflicts{Hash: main.Hash()}},
	}
	fb.Scripts = []transaction.Witness{dummyNotaryWitness(), {}}
	fb.Scripts[1] = sigWitness(d, uint32(w.net.Magic), fb)
	p := &payload.P2PNotaryRequest{MainTransaction: main, FallbackTransaction: fb}
	p.Witness = sigWitness(d, uint32(w.net.Magic), p)
	raw, err := p.Bytes()
	if err != nil {
		return nil, err
	}
	bad := p.Copy()
	bad.Witness.InvocationScript[10] ^= 0x55
	rawBad, err := bad.Bytes()
	if err != nil {
		return nil, err
	}
	return &realReq{a: a, main: main, fallback: fb, raw: raw, rawBad: rawBad}, nil
}

// Submit hands a fresh wire-decoded copy of request id to the server's handler.
func (w *World) Submit(id int, badWitness bool) error {
	r := w.reqs[id-1]
	raw := r.raw
	if badWitness {
		raw = r.rawBad
	}
	p, err := payload.NewP2PNotaryRequestFromBytes(raw)
	if err != nil {
		return fmt.Errorf("decode: %w", err)
	}
	return w.srv.RelayP2PNotaryRequest(p)
}

// completed returns a copy of tx with the Notary witness signed by the designated notary node.
func (w *World) completed(tx *transaction.Transaction) *transaction.Transaction {
	c := tx.Copy()
	for i := range c.Signers {
		if c.Signers[i].Account.Equals(nativehashes.Notary) {
			c.Scripts[i] = w.notaryWitness(c)
		}
	}
	return c
}

// deposit reads the deposit record of a depositor from the contract storage of the native Notary contract (the record
// the chain charges when a fallback is included) - not through the Feer methods the pool itself uses.
func (w *World) deposit(name string) (int64, uint32) {
	key := append([]byte{1}, w.deps[name].ScriptHash().BytesBE()...) // native Notary: prefixDeposit
	si := w.bc.GetStorageItem(nativeids.Notary, key)
	if si == nil {
		return 0, 0
	}
	d := new(state.Deposit)
	if err := stackitem.DeserializeConvertible(si, d); err != nil {
		panic(fmt.Sprintf("deposit record of %s unreadable: %v", name, err))
	}
	if !d.Amount.IsInt64() || d.Amount.Cmp(big.NewInt(1<<31-1)) > 0 {
		return 1<<31 - 1, d.Till
	}
	return d.Amount.Int64(), d.Till
}
