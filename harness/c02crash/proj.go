// proj.go - projection of a concrete database onto the persisted facts NodeDisk.tla talks about.
package c02crash

import (
	"crypto/sha256"
	"encoding/binary"

	"github.com/nspcc-dev/neo-go/pkg/core/block"
	"github.com/nspcc-dev/neo-go/pkg/core/storage"
	"github.com/nspcc-dev/neo-go/pkg/io"
	"github.com/nspcc-dev/neo-go/pkg/util"
)

// SetHash is an order-independent, incrementally maintainable hash of a set of key/value items.
type SetHash struct {
	X [32]byte
	N int
}

func (s *SetHash) toggle(k string, v []byte, add bool) {
	h := sha256.New()
	var l [4]byte
	binary.LittleEndian.PutUint32(l[:], uint32(len(k)))
	h.Write(l[:])
	h.Write([]byte(k))
	h.Write(v)
	var sum [32]byte
	h.Sum(sum[:0])
	for i := range s.X {
		s.X[i] ^= sum[i]
	}
	if add {
		s.N++
	} else {
		s.N--
	}
}

// Tracked is a Disk with incrementally maintained content hashes of the two contract-storage prefixes.
type Tracked struct {
	D    Disk
	Flat [2]SetHash // [0]: STStorage (0x70), [1]: STTempStorage (0x71); hashed WITHOUT the prefix byte
}

func NewTracked() *Tracked { return &Tracked{D: Disk{}} }

func (t *Tracked) Apply(b *Batch) {
	for k, v := range b.KV {
		if k[0] == byte(storage.STStorage) || k[0] == byte(storage.STTempStorage) {
			i := int(k[0] - byte(storage.STStorage))
			if old, ok := t.D[k]; ok {
				t.Flat[i].toggle(k[1:], old, false)
			}
			if v != nil {
				t.Flat[i].toggle(k[1:], v, true)
			}
		}
		if v == nil {
			delete(t.D, k)
		} else {
			t.D[k] = v
		}
	}
}

func (t *Tracked) Clone() *Tracked { return &Tracked{D: t.D.Clone(), Flat: t.Flat} }

// TrackDisk computes the hashes of an existing disk.
func TrackDisk(d Disk) *Tracked {
	t := NewTracked()
	t.Apply(&Batch{KV: d})
	return t
}

// Proj is the abstract disk (see spec/node/NodeDisk.tla, record "disk").
type Proj struct {
	Ver   bool     `json:"ver"`
	Cur   int      `json:"cur"`   // SYSCurrentBlock index, -1 absent
	Hdr   int      `json:"hdr"`   // SYSCurrentHeader index, -1 absent
	Stage string   `json:"stage"` // none | r1..r5 (reset) | j1..j3 (jump) | bad
	SP    int      `json:"sp"`    // SYSStateSyncPoint, -1 absent
	Pfx   string   `json:"pfx"`   // active storage prefix A (0x70) / B (0x71)
	FlatA int      `json:"flatA"` // height whose contract storage the items under the prefix equal; -1 no items; -2 no such height
	FlatB int      `json:"flatB"`
	Blk   [][2]int `json:"blk"`   // heights (intervals) with a full block record
	Hdo   [][2]int `json:"hdo"`   // heights with a header-only record
	Roots [][2]int `json:"roots"` // heights with a local state root record
	Pages []int    `json:"pages"` // first indexes of stored header-hash pages
	Keys  int      `json:"keys"`
}

func stageName(v []byte) string {
	if len(v) != 1 {
		return "bad"
	}
	switch v[0] {
	case 0x82:
		return "r1"
	case 0x88:
		return "r2"
	case 0x84:
		return "r3"
	case 0x90:
		return "r4"
	case 0xA0:
		return "r5"
	case 0x02:
		return "j1"
	case 0x04:
		return "j2"
	case 0x08:
		return "j3"
	}
	return "bad"
}

// Know is what the projection needs to know about the canonical chain.
type Know struct {
	Hashes   []util.Uint256       // Hashes[h] = hash of block h (0..N)
	FlatAt   map[[32]byte]int     // content hash of the reference's contract storage -> height
	SRIH     bool
	Sink     bool // state-sync node: blocks arrive without execution results (an empty one looks like a bare header)
}

func intervals(in []bool) [][2]int {
	out := [][2]int{}
	for i := 0; i < len(in); i++ {
		if !in[i] {
			continue
		}
		j := i
		for j+1 < len(in) && in[j+1] {
			j++
		}
		out = append(out, [2]int{i, j})
		i = j
	}
	return out
}

// recKind classifies an executable record: 0 absent/other, 1 header only, 2 full block.
func recKind(v []byte, srih bool) int {
	if len(v) == 0 || v[0] != storage.ExecBlock {
		return 0
	}
	r := io.NewBinReaderFromBuf(v[1:])
	b, err := block.NewTrimmedFromReader(srih, r)
	if err != nil {
		return 0
	}
	if r.Len() > 0 || len(b.Transactions) > 0 {
		return 2
	}
	return 1
}

func (k *Know) flatHeight(s SetHash) int {
	if s.N == 0 {
		return -1
	}
	if h, ok := k.FlatAt[s.X]; ok {
		return h
	}
	return -2
}

func (k *Know) Project(t *Tracked) Proj {
	d := t.D
	p := Proj{Cur: -1, Hdr: -1, SP: -1, Stage: "none", Pfx: "A", Keys: len(d)}
	if v, ok := d["\xc0"]; ok && len(v) >= 36 {
		p.Cur = int(binary.LittleEndian.Uint32(v[32:36]))
	}
	if v, ok := d["\xc1"]; ok && len(v) >= 36 {
		p.Hdr = int(binary.LittleEndian.Uint32(v[32:36]))
	}
	if v, ok := d["\xc3"]; ok && len(v) >= 4 {
		p.SP = int(binary.LittleEndian.Uint32(v))
	}
	if v, ok := d["\xc4"]; ok {
		p.Stage = stageName(v)
	}
	if v, ok := d["\xf0"]; ok {
		p.Ver = true
		i := 0
		for i < len(v) && v[i] != 0 {
			i++
		}
		if i+1 < len(v) && v[i+1] == byte(storage.STTempStorage) {
			p.Pfx = "B"
		}
	}
	p.FlatA, p.FlatB = k.flatHeight(t.Flat[0]), k.flatHeight(t.Flat[1])
	n := len(k.Hashes)
	ssh := -1
	if v, ok := d["\xc2"]; ok && len(v) >= 4 && k.Sink {
		ssh = int(binary.LittleEndian.Uint32(v))
	}
	blk, hdo, roots := make([]bool, n), make([]bool, n), make([]bool, n)
	key := make([]byte, 33)
	key[0] = byte(storage.DataExecutable)
	rk := make([]byte, 5)
	rk[0] = byte(storage.DataMPTAux)
	for h := 0; h < n; h++ {
		copy(key[1:], k.Hashes[h].BytesBE())
		switch recKind(d[string(key)], k.SRIH) {
		case 1:
			if h <= ssh && h > 0 && h <= p.Hdr {
				blk[h] = true // stored by statesync.Module.AddBlock (no execution results)
			} else {
				hdo[h] = true
			}
		case 2:
			blk[h] = true
		}
		binary.BigEndian.PutUint32(rk[1:], uint32(h))
		if _, ok := d[string(rk)]; ok {
			roots[h] = true
		}
	}
	p.Blk, p.Hdo, p.Roots = intervals(blk), intervals(hdo), intervals(roots)
	p.Pages = []int{}
	for kk := range d {
		if kk[0] == byte(storage.IXHeaderHashList) && len(kk) == 5 {
			p.Pages = append(p.Pages, int(binary.BigEndian.Uint32([]byte(kk[1:]))))
		}
	}
	sortInts(p.Pages)
	return p
}

func sortInts(a []int) {
	for i := 1; i < len(a); i++ {
		for j := i; j > 0 && a[j] < a[j-1]; j-- {
			a[j], a[j-1] = a[j-1], a[j]
		}
	}
}

// Touch names the key classes a batch writes (the batch-kind classification input of NodeDiskTrace).
func Touch(b *Batch) []string {
	seen := map[string]bool{}
	for k, v := range b.KV {
		var c string
		switch storage.KeyPrefix(k[0]) {
		case storage.DataExecutable:
			c = "exec"
		case storage.DataMPT:
			c = "mpt"
		case storage.DataMPTAux:
			c = "root"
		case storage.STStorage:
			c = "storA"
		case storage.STTempStorage:
			c = "storB"
		case storage.STNEP11Transfers, storage.STNEP17Transfers, storage.STTokenTransferInfo:
			c = "xfer"
		case storage.IXHeaderHashList:
			c = "page"
		case storage.SYSCurrentBlock:
			c = "cur"
		case storage.SYSCurrentHeader:
			c = "hdr"
		case storage.SYSStateSyncPoint:
			c = "sp"
		case storage.SYSStateChangeStage:
			c = "stage"
		case storage.SYSVersion:
			c = "ver"
		case storage.SYSStateSyncCurrentBlockHeight:
			c = "ssh"
		case storage.SYSStateSyncCheckpoint:
			c = "ckpt"
		default:
			c = "other"
		}
		if v == nil {
			c += "-"
		} else {
			c += "+"
		}
		seen[c] = true
	}
	out := make([]string, 0, len(seen))
	for c := range seen {
		out = append(out, c)
	}
	for i := 1; i < len(out); i++ {
		for j := i; j > 0 && out[j] < out[j-1]; j-- {
			out[j], out[j-1] = out[j-1], out[j]
		}
	}
	return out
}
