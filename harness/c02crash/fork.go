// fork.go - "a completed reset to height h leaves the node indistinguishable from one that only ever
// synchronised to h": the database the uninterrupted Reset left behind is reopened and compared with a fresh
// replica fed blocks 1..h only - on the digest of everything the protocol defines, and on a DIFFERENT
// continuation (blocks generated on the replica, i.e. a history the reset node has never seen).
package c02crash

import (
	"fmt"

	"verifharness/internal/chainkit"
	"verifharness/internal/histgen"
	"verifharness/internal/vh"
)

func (w *World) forkCheck(s *resetSpan, k int) {
	ev := map[string]any{"event": "fork", "target": s.Target, "from": s.From, "node": w.Node.Name, "ok": true, "n": 0,
		"equal0": true, "diff0": []string{}, "diff": []string{}, "err": "", "at": -1}
	defer func() { w.Tr.Emit(ev) }()
	only, err := w.Net.NewChain(nil, w.protocol)
	if err != nil {
		w.T.Fatalf("fork replica: %v", err)
	}
	chainkit.Start(only)
	defer only.Close()
	for h := uint32(1); h <= s.Target; h++ {
		if err := only.AddBlock(w.block(h)); err != nil {
			w.T.Fatalf("fork replica rejected canonical block %d: %v", h, err)
		}
	}
	bc, err, pan := safeNewChain(w.Net, s.Final.Store(), w.nodeHook)
	if err != nil || pan != nil {
		ev["ok"], ev["err"] = false, fmt.Sprint("reopen after reset: ", err, pan)
		return
	}
	chainkit.Start(bc)
	defer bc.Close()
	if df := chainkit.Diff(chainkit.Compute(bc), chainkit.Compute(only)); len(df) > 0 {
		ev["equal0"], ev["diff0"] = false, df
	}
	g := histgen.New(w.T, w.Net, only, vh.Seed()*104729+int64(w.WI*31+k), 8)
	for n := 0; n < 6; n++ {
		b, err := g.NextBlock(4)
		if err != nil {
			w.T.Fatalf("fork generator: %v", err)
		}
		raw, _ := chainkit.EncodeBlock(b)
		b2, _ := chainkit.DecodeBlock(raw, w.SRIH)
		if err := bc.AddBlock(b2); err != nil {
			ev["ok"], ev["err"], ev["at"] = false, err.Error(), b.Index
			return
		}
		if df := chainkit.Diff(chainkit.Compute(bc), chainkit.Compute(only)); len(df) > 0 {
			ev["ok"], ev["diff"], ev["at"] = false, df, b.Index
			return
		}
		ev["n"] = n + 1
	}
	w.Res.Count([]any{"fork", w.WI, k})
}
