// Package c02crash: crash-point enumeration for property C02.
//
// recstore.go - a storage.Store wrapper that records every atomic batch (PutChangeSet / SeekGC commit)
// that reaches the REAL backend, in the order the backend applied them, together with the interval
// during which the call was in flight (to recognise batches the node issued concurrently).
package c02crash

import (
	"bytes"
	"sort"
	"sync"
	"sync/atomic"
	"time"

	"github.com/nspcc-dev/neo-go/pkg/core/storage"
)

// Batch is one atomic write of the node to its database.
type Batch struct {
	Idx   int
	Kind  string            // "put" (PutChangeSet) | "gc" (SeekGC)
	KV    map[string][]byte // key -> value, nil value = deletion
	Enter int64             // global sequence number when the call entered the wrapper
	Exit  int64             // ... when it returned
	Done  int64             // sequence number at which the backend call returned (commit point)
	Acc   uint32            // last accepted block of the node when the batch was issued (set by the driver)
	Phase string            // driver's label of the operation in progress
	Op    int               // index of the schedule step
}

// RecStore wraps a backend.
type RecStore struct {
	inner storage.Store
	mu    sync.Mutex // serialises commits so that the recorded order is the backend's order
	seq   atomic.Int64

	bmu     sync.Mutex
	batches []*Batch

	// labels set by the driver before each operation
	Acc   uint32
	Phase string
	Op    int

	// Gate (optional): a PutChangeSet carrying the reset marker "transfersReset" without the version key is
	// held until a SeekGC has entered (or a timeout expires), so that the two batches the reset issues
	// concurrently are observed in flight together and both orders can be examined.
	GateReset bool
	gcEntered chan struct{}
	gcOnce    sync.Once

	NoClose bool
	// AfterCommit (optional) is called with the store still locked after every commit (file snapshots).
	AfterCommit func(b *Batch)
}

func NewRecStore(inner storage.Store) *RecStore {
	return &RecStore{inner: inner, gcEntered: make(chan struct{}), NoClose: true}
}

// Get and Seek hand out COPIES, as the disk backends do (BoltDB / LevelDB values are copies of the file
// content): the node may scribble over what it reads (e.g. TokenTransferLog.Append bumps the counter byte
// of the slice it was given) without touching the database.
func (r *RecStore) Get(k []byte) ([]byte, error) {
	v, err := r.inner.Get(k)
	if err != nil {
		return nil, err
	}
	return bytes.Clone(v), nil
}
func (r *RecStore) Seek(rng storage.SeekRange, f func(k, v []byte) bool) {
	r.inner.Seek(rng, func(k, v []byte) bool { return f(bytes.Clone(k), bytes.Clone(v)) })
}
func (r *RecStore) Close() error {
	if r.NoClose {
		return nil
	}
	return r.inner.Close()
}

const (
	stageKey   = "\xc4"
	versionKey = "\xf0"
)

func (r *RecStore) PutChangeSet(puts map[string][]byte, stor map[string][]byte) error {
	b := &Batch{Kind: "put", KV: make(map[string][]byte, len(puts)+len(stor)), Enter: r.seq.Add(1)}
	for _, m := range []map[string][]byte{puts, stor} {
		for k, v := range m {
			if v == nil {
				b.KV[k] = nil
			} else {
				b.KV[k] = bytes.Clone(v) // recorded batches are immutable
			}
		}
	}
	if r.GateReset {
		if v, ok := b.KV[stageKey]; ok && len(v) == 1 && v[0] == 0x80|0x20 {
			if _, hasVer := b.KV[versionKey]; !hasVer {
				select {
				case <-r.gcEntered:
				case <-time.After(400 * time.Millisecond):
				}
			}
		}
	}
	r.mu.Lock()
	err := r.inner.PutChangeSet(puts, stor)
	b.Done = r.seq.Add(1)
	r.record(b)
	r.mu.Unlock()
	b.Exit = r.seq.Add(1)
	return err
}

func (r *RecStore) SeekGC(rng storage.SeekRange, keepCont func(k, v []byte) (bool, bool)) error {
	b := &Batch{Kind: "gc", KV: map[string][]byte{}, Enter: r.seq.Add(1)}
	if len(rng.Prefix) == 1 && (rng.Prefix[0] == byte(storage.STStorage) || rng.Prefix[0] == byte(storage.STTempStorage)) {
		r.gcOnce.Do(func() { close(r.gcEntered) })
	}
	r.mu.Lock()
	err := r.inner.SeekGC(rng, func(k, v []byte) (bool, bool) {
		keep, cont := keepCont(k, v)
		if !keep {
			b.KV[string(bytes.Clone(k))] = nil
		}
		return keep, cont
	})
	b.Done = r.seq.Add(1)
	r.record(b)
	r.mu.Unlock()
	b.Exit = r.seq.Add(1)
	return err
}

// ResetGate re-arms the reset gate (one use per reset).
func (r *RecStore) ResetGate() {
	r.gcEntered = make(chan struct{})
	r.gcOnce = sync.Once{}
}

func (r *RecStore) record(b *Batch) {
	if len(b.KV) == 0 {
		return // nothing reached the disk
	}
	r.bmu.Lock()
	b.Idx = len(r.batches)
	b.Acc, b.Phase, b.Op = r.Acc, r.Phase, r.Op
	if b.Kind == "gc" && b.Phase == "persist" {
		b.Phase = "gc"
	}
	r.batches = append(r.batches, b)
	r.bmu.Unlock()
	if r.AfterCommit != nil {
		r.AfterCommit(b)
	}
}

func (r *RecStore) Batches() []*Batch {
	r.bmu.Lock()
	defer r.bmu.Unlock()
	return append([]*Batch(nil), r.batches...)
}

// Overlapped reports whether two batches were in flight at the same time (the node did not order them).
func Overlapped(x, y *Batch) bool { return x.Enter < y.Exit && y.Enter < x.Exit }

// Disjoint reports whether two batches touch no common key (then they commute).
func Disjoint(x, y *Batch) bool {
	for k := range x.KV {
		if _, ok := y.KV[k]; ok {
			return false
		}
	}
	return true
}

// Disk is the materialised database: exactly the key/value pairs a sequence of batches leaves behind.
type Disk map[string][]byte

func (d Disk) Apply(b *Batch) {
	for k, v := range b.KV {
		if v == nil {
			delete(d, k)
		} else {
			d[k] = v
		}
	}
}

func (d Disk) Clone() Disk {
	c := make(Disk, len(d))
	for k, v := range d {
		c[k] = v
	}
	return c
}

// Store builds a fresh MemoryStore holding exactly d.
func (d Disk) Store() *storage.MemoryStore {
	mem, stor := map[string][]byte{}, map[string][]byte{}
	for k, v := range d {
		if k[0] == byte(storage.STStorage) || k[0] == byte(storage.STTempStorage) {
			stor[k] = v
		} else {
			mem[k] = v
		}
	}
	st := storage.NewMemoryStore()
	_ = st.PutChangeSet(mem, stor)
	return st
}

// DumpStore reads a whole backend (every one-byte prefix; MemoryStore does not support the empty prefix).
func DumpStore(st storage.Store) Disk {
	d := Disk{}
	for p := 0; p < 256; p++ {
		st.Seek(storage.SeekRange{Prefix: []byte{byte(p)}}, func(k, v []byte) bool {
			d[string(bytes.Clone(k))] = bytes.Clone(v)
			return true
		})
	}
	return d
}

// canon returns the value in a canonical form. The only record whose BYTES are not a function of its content
// is the token transfer info (prefix 0x74): state.TokenTransferInfo serialises a Go map in iteration order.
// Its (asset id, height) pairs are sorted here so that equal contents compare equal.
func canon(k string, v []byte) []byte {
	if len(k) == 0 || k[0] != byte(storage.STTokenTransferInfo) || len(v) < 27 {
		return v
	}
	const hdr = 4 + 4 + 8 + 8 + 1 + 1
	n := int(v[hdr])
	if v[hdr] >= 0xfd || len(v) != hdr+1+8*n {
		return v
	}
	pairs := make([]string, n)
	for i := 0; i < n; i++ {
		pairs[i] = string(v[hdr+1+8*i : hdr+1+8*i+8])
	}
	sort.Strings(pairs)
	out := append([]byte{}, v[:hdr+1]...)
	for _, p := range pairs {
		out = append(out, p...)
	}
	return out
}

// DiffDisks lists up to n keys on which two disks differ (values compared in canonical form).
func DiffDisks(a, b Disk, n int) []string {
	var ks []string
	for k, v := range a {
		if w, ok := b[k]; !ok || !bytes.Equal(canon(k, v), canon(k, w)) {
			ks = append(ks, k)
		}
	}
	for k := range b {
		if _, ok := a[k]; !ok {
			ks = append(ks, k)
		}
	}
	sort.Strings(ks)
	if len(ks) > n {
		ks = ks[:n]
	}
	return ks
}
