// jump.go - the state-sync jump (MPT-based state exchange): a light node ("sink": P2PStateExchangeExtensions,
// RemoveUntraceableBlocks, KeepOnlyLatestState) collects headers, the state trie of the sync point P and the
// last MaxTraceableBlocks blocks from the reference node through the statesync.Module API, then jumps to P
// (jumpToStateInternal: stage batches with markers). Every batch prefix is reopened as in world.go; a node that
// comes back before the jump finished is handed to the same (restartable) synchronisation procedure again.
package c02crash

import (
	"bytes"
	"fmt"

	"verifharness/internal/chainkit"

	"github.com/nspcc-dev/neo-go/pkg/core"
	"github.com/nspcc-dev/neo-go/pkg/core/block"
	"github.com/nspcc-dev/neo-go/pkg/core/mpt"
	"github.com/nspcc-dev/neo-go/pkg/core/storage"
	"github.com/nspcc-dev/neo-go/pkg/util"
)

type jumpInfo struct {
	P     uint32                  // state sync point
	N     uint32                  // source height the sink is told about
	Nodes map[util.Uint256][]byte // serialised trie nodes of the state at P (from the reference node)
}

// prepareJump generates n canonical blocks and collects what the source would serve.
func (w *World) prepareJump(n uint32) error {
	if err := w.ensure(n); err != nil {
		return err
	}
	p := (n / uint32(w.SSI)) * uint32(w.SSI)
	if p == n { // headers must run beyond P
		p -= uint32(w.SSI)
	}
	ji := &jumpInfo{P: p, N: n, Nodes: map[util.Uint256][]byte{}}
	root := w.block(p + 1).PrevStateRoot
	err := w.ref.GetStateSyncModule().Traverse(root, func(nd mpt.Node, nb []byte) bool {
		ji.Nodes[nd.Hash()] = bytes.Clone(nb)
		return false
	})
	if err != nil {
		return err
	}
	w.jump = ji
	return nil
}

// syncProc drives the state synchronisation of bc to completion (idempotent / restartable). flush is called
// between protocol rounds (crash points inside the collection phase).
func (w *World) syncProc(bc *core.Blockchain, flush func()) (err error) {
	defer func() {
		if r := recover(); r != nil {
			err = fmt.Errorf("panic: %v", r)
		}
	}()
	ji := w.jump
	mod := bc.GetStateSyncModule()
	if err := mod.Init(ji.N); err != nil {
		return fmt.Errorf("init: %w", err)
	}
	if !mod.IsActive() {
		return nil
	}
	if mod.NeedHeaders() {
		const chunk = 500
		for from := bc.HeaderHeight() + 1; from <= ji.N && mod.NeedHeaders(); from += chunk {
			var hs []*block.Header
			for h := from; h < from+chunk && h <= ji.N; h++ {
				hs = append(hs, &w.block(h).Header)
			}
			if err := mod.AddHeaders(hs...); err != nil {
				return fmt.Errorf("headers: %w", err)
			}
			flush()
		}
	}
	for round := 0; mod.NeedStorageData(); round++ {
		need := mod.GetUnknownMPTNodesBatch(6)
		if len(need) == 0 {
			return fmt.Errorf("storage data needed but no unknown nodes")
		}
		var nodes [][]byte
		for _, h := range need {
			nb, ok := ji.Nodes[h]
			if !ok {
				return fmt.Errorf("unknown trie node %s requested", h.StringLE())
			}
			nodes = append(nodes, nb)
		}
		if err := mod.AddMPTNodes(nodes); err != nil {
			return fmt.Errorf("mpt nodes: %w", err)
		}
		if round%3 == 2 {
			flush()
		}
	}
	for mod.NeedBlocks() {
		h := mod.BlockHeight() + 1
		if err := mod.AddBlock(w.block(h)); err != nil {
			return fmt.Errorf("block %d: %w", h, err)
		}
		if h%3 == 0 && mod.NeedBlocks() {
			flush()
		}
	}
	if mod.IsActive() {
		return fmt.Errorf("synchronisation did not complete")
	}
	return nil
}

// RunJump: sync + jump on a recorded sink, then ordinary blocks.
func (w *World) RunJump(inner storage.Store) *runResult {
	rec := NewRecStore(inner)
	rec.AfterCommit = w.afterCommit
	ji := w.jump
	bc, err, pan := safeNewChain(w.Net, rec, w.nodeHook)
	if err != nil || pan != nil {
		w.T.Fatalf("sink: %v %v", err, pan)
	}
	chainkit.Start(bc)
	rec.Phase, rec.Acc = "sync", ji.P
	if err := w.syncProc(bc, func() { _ = bc.VerifPersist() }); err != nil {
		w.Res.Violate(map[string]any{"kind": "state-sync-failed", "node": w.Node.Name}, fmt.Sprintf("uninterrupted state sync failed: %v", err), w.replay())
		return nil
	}
	if bc.BlockHeight() != ji.P {
		w.Res.Violate(map[string]any{"kind": "jump-height", "node": w.Node.Name},
			fmt.Sprintf("after the jump the node is at %d, sync point %d", bc.BlockHeight(), ji.P), w.replay())
		return nil
	}
	rr := &runResult{}
	bs := rec.Batches()
	first, last := -1, -1
	for i, b := range bs {
		if _, ok := b.KV[stageKey]; ok {
			if first < 0 {
				first = i
			}
			last = i
		}
	}
	if first < 0 {
		w.T.Fatalf("no jump stage batch recorded")
	}
	for i := first; i <= last; i++ {
		bs[i].Phase = "jump"
	}
	rr.resets = append(rr.resets, resetSpan{First: first, Last: last, Target: ji.P, From: 0, Final: DumpStore(inner)})
	h := ji.P
	for h < uint32(len(w.blocks)) {
		rec.Phase, rec.Acc = "add", h
		if err := bc.AddBlock(w.block(h + 1)); err != nil {
			w.Res.Violate(map[string]any{"kind": "valid-block-rejected", "node": w.Node.Name, "phase": "after-jump"},
				fmt.Sprintf("block %d rejected after the jump: %v", h+1, err), w.replay())
			return nil
		}
		h++
		if h%2 == 0 {
			rec.Phase, rec.Acc = "persist", h
			_ = bc.VerifPersist()
		}
	}
	rec.Phase, rec.Acc = "close", h
	bc.Close()
	rr.batches = rec.Batches()
	rr.final = h
	sh := Disk{}
	for _, b := range rr.batches {
		sh.Apply(b)
	}
	if df := DiffDisks(sh, DumpStore(inner), 5); len(df) > 0 {
		w.T.Fatalf("recording store incomplete: %x", df[0])
	}
	return rr
}
