// Driver for C02: TLC schedules of NodeDiskSim (where the node adds headers / blocks, flushes, is cleanly
// restarted, is reset to an earlier height) executed on a real core.Blockchain whose backend is wrapped in
// a recording store; then EVERY prefix of the recorded atomic batch sequence is materialised, reopened with
// core.NewBlockchain and compared with the never-restarted reference node. The NDJSON trace (reference
// digests, batches projected onto the abstract disk, recovery outcomes) is judged by NodeDiskTrace.tla.
package c02crash

import (
	"encoding/json"
	"fmt"
	"io"
	"os"
	"path/filepath"
	"sync/atomic"
	"testing"

	"verifharness/internal/chainkit"
	"verifharness/internal/vh"

	"github.com/nspcc-dev/neo-go/pkg/core/storage"
	"github.com/nspcc-dev/neo-go/pkg/core/storage/dbconfig"
)

func openBackend(kind, path string) (storage.Store, error) {
	if kind == "bolt" {
		return storage.NewBoltDBStore(dbconfig.BoltDBOptions{FilePath: path})
	}
	return storage.NewLevelDBStore(dbconfig.LevelDBOptions{DataDirectoryPath: path})
}

// copyPath copies a database file (BoltDB) or directory (LevelDB; the LOCK file is skipped).
func copyPath(src, dst string) error {
	fi, err := os.Stat(src)
	if err != nil {
		return err
	}
	if !fi.IsDir() {
		return copyFile(src, dst)
	}
	if err := os.MkdirAll(dst, 0o755); err != nil {
		return err
	}
	es, err := os.ReadDir(src)
	if err != nil {
		return err
	}
	for _, e := range es {
		if e.Name() == "LOCK" || e.IsDir() {
			continue
		}
		if err := copyFile(filepath.Join(src, e.Name()), filepath.Join(dst, e.Name())); err != nil {
			return err
		}
	}
	return nil
}

func copyFile(src, dst string) error {
	in, err := os.Open(src)
	if err != nil {
		return err
	}
	defer in.Close()
	out, err := os.Create(dst)
	if err != nil {
		return err
	}
	if _, err := io.Copy(out, in); err != nil {
		out.Close()
		return err
	}
	return out.Close()
}

type worldSpec struct {
	Sched []Step `json:"sched"`
	Node  string `json:"node"` // arch | gc | latest
	SRIH  bool   `json:"srih"`
	MTB   int    `json:"mtb"`
	GCP   int    `json:"gcp"`
	MaxTx int    `json:"maxtx"`
	Cont  int    `json:"cont"`
	Pick  int    `json:"pick"` // examine only every Pick-th crash point outside resets (0/1 = all)
	Back  string `json:"backend"`
	Jump  int    `json:"jump"` // >0: state-sync world with that many source blocks
	SSI   int    `json:"ssi"`
	Quiet []int  `json:"quiet"` // [from, to]: heights generated as empty blocks
	WI    *int   `json:"wi"`    // index the world had in the run that produced it (seeds derive from it; replays)
}

func variant(name string, gcp int) Variant {
	switch name {
	case "gc":
		return Variant{Name: "gc", RUB: true, GCP: uint32(max(1, gcp))}
	case "latest":
		return Variant{Name: "latest", RUB: true, KOLS: true, GCP: uint32(max(1, gcp))}
	case "sink":
		return Variant{Name: "sink", RUB: true, KOLS: true, GCP: 10000}
	}
	return Variant{Name: "arch"}
}

func runWorld(t *testing.T, res *vh.Result, tr *vh.Trace, wi int, ws worldSpec, workers int) {
	gi := wi
	if ws.WI != nil {
		gi = *ws.WI
	}
	w := &World{T: t, Res: res, Tr: tr, WI: gi, Net: chainkit.NewNet(5, 3), SRIH: ws.SRIH, MTB: uint32(ws.MTB),
		Node: variant(ws.Node, ws.GCP), MaxTx: ws.MaxTx, Cont: ws.Cont, sched: ws.Sched, P2P: ws.Jump > 0, SSI: ws.SSI,
		ConcFlush: ws.Jump == 0 && gi%3 == 2}
	if len(ws.Quiet) == 2 {
		w.Quiet = [2]uint32{uint32(ws.Quiet[0]), uint32(ws.Quiet[1])}
	}
	if err := w.Init(); err != nil {
		t.Fatal(err)
	}
	defer w.Close()
	if ws.Jump > 0 {
		if err := w.prepareJump(uint32(ws.Jump)); err != nil {
			t.Fatalf("prepare jump: %v", err)
		}
	}
	var inner storage.Store = storage.NewMemoryStore()
	if ws.Back == "bolt" || ws.Back == "level" {
		dir, err := os.MkdirTemp(os.Getenv("VERIF_WORK"), "c02db")
		if err != nil {
			t.Fatal(err)
		}
		defer os.RemoveAll(dir)
		live := filepath.Join(dir, "live")
		inner, err = openBackend(ws.Back, live)
		if err != nil {
			t.Fatal(err)
		}
		defer inner.Close()
		var n atomic.Int64
		if ws.Back == "bolt" {
			// BoltDB: the file is copied after every commit and the COPY is what gets reopened
			w.afterCommit = func(b *Batch) {
				if err := copyPath(live, filepath.Join(dir, fmt.Sprintf("snap-%d", b.Idx))); err != nil {
					t.Fatalf("snapshot: %v", err)
				}
			}
			w.openSnap = func(i int, _ Disk) (storage.Store, func(), error) {
				work := filepath.Join(dir, fmt.Sprintf("open-%d-%d", i, n.Add(1)))
				if err := copyPath(filepath.Join(dir, fmt.Sprintf("snap-%d", i)), work); err != nil {
					return nil, nil, err
				}
				st, err := openBackend(ws.Back, work)
				if err != nil {
					return nil, nil, err
				}
				return st, func() { st.Close(); os.RemoveAll(work) }, nil
			}
		} else {
			// LevelDB compacts in the background, so its directory cannot be copied consistently while it is open:
			// the image is written into a fresh LevelDB as one batch, closed, and reopened
			w.openSnap = func(i int, d Disk) (storage.Store, func(), error) {
				work := filepath.Join(dir, fmt.Sprintf("open-%d-%d", i, n.Add(1)))
				st, err := openBackend(ws.Back, work)
				if err != nil {
					return nil, nil, err
				}
				if err := st.PutChangeSet(d, nil); err != nil {
					return nil, nil, err
				}
				if err := st.Close(); err != nil {
					return nil, nil, err
				}
				st, err = openBackend(ws.Back, work)
				if err != nil {
					return nil, nil, err
				}
				return st, func() { st.Close(); os.RemoveAll(work) }, nil
			}
		}
	}
	var rr *runResult
	if ws.Jump > 0 {
		rr = w.RunJump(inner)
	} else {
		rr = w.Run(inner)
	}
	if rr == nil {
		return
	}
	tr.Emit(map[string]any{"event": "init", "world": wi, "backend": ws.Back, "node": w.Node.Name, "srih": w.SRIH, "mtb": w.MTB, "gcp": w.Node.GCP,
		"page": 2000, "blocks": len(w.blocks), "nbatches": len(rr.batches)})
	for h, d := range w.refD {
		tr.Emit(map[string]any{"event": "ref", "h": h, "digest": d})
	}
	var pick func(int) bool
	if ws.Jump > 0 {
		// crash points of the collection phase belong to the synchronisation protocol (C20), not to the jump
		first := rr.resets[0].First
		pick = func(i int) bool { return i > first }
	} else if ws.Pick > 1 {
		inReset := map[int]bool{}
		for _, s := range rr.resets {
			for i := s.First; i <= s.Last+1; i++ {
				inReset[i] = true
			}
		}
		pick = func(i int) bool { return inReset[i] || i%ws.Pick == 0 || i == len(rr.batches) }
	}
	npoints := 0
	w.Enumerate(rr, workers, pick, func(ev map[string]any, outs []*Outcome) {
		tr.Emit(ev)
		for _, o := range outs {
			npoints++
			b, _ := json.Marshal(o)
			var m map[string]any
			_ = json.Unmarshal(b, &m)
			m["event"] = "recover"
			m["node"] = w.Node.Name
			tr.Emit(m)
			res.Count([]any{wi, o.Label, o.Stage, o.H, o.OK, o.ContOK, o.DumpEq})
			if os.Getenv("VERIF_VERBOSE") != "" {
				fmt.Printf("w%d crash@%s phase=%s stage=%s acc=%d -> ok=%v h=%d hdr=%d trie=%v cont=%v@%d(%s %v) dump=%d resumed=%d err=%s %s\n",
					wi, o.Label, o.Phase, o.Stage, o.Acc, o.OK, o.H, o.HdrH, o.TrieOK, o.ContOK, o.ContAt, o.ContErr, o.ContDiff, o.DumpEq, o.Resumed, o.Err, o.Panic)
				if len(o.DumpDiff) > 0 {
					fmt.Println("    dumpdiff", o.DumpDiff)
				}
			}
		}
	})
	for k := range rr.resets {
		if ws.Jump == 0 {
			w.forkCheck(&rr.resets[k], k)
		}
	}
	res.Traces++
	res.Inc("crash_points", npoints)
	res.Inc("batches", len(rr.batches))
	res.Inc("resets", len(rr.resets))
	res.Inc("blocks_generated", len(w.blocks))
	for k, v := range w.gen.Stats {
		res.Inc("tx_"+k, v)
	}
	if wi < 3 {
		res.Sample(map[string]any{"world": wi, "node": w.Node.Name, "srih": w.SRIH, "schedule_prefix": ws.Sched[:min(len(ws.Sched), 30)],
			"blocks": len(w.blocks), "batches": len(rr.batches), "crash_points": npoints, "resets": len(rr.resets)})
	}
}

func TestDriver(t *testing.T) {
	res := vh.NewResult()
	tr := vh.NewTrace("trace.ndjson")
	var worlds []worldSpec
	if err := vh.ReadJSON("worlds.json", &worlds); err != nil {
		t.Fatalf("no worlds: %v", err)
	}
	workers := vh.EnvInt("VERIF_WORKERS", 6)
	for i, ws := range worlds {
		runWorld(t, res, tr, i, ws, workers)
	}
	tr.Close()
	b, _ := json.Marshal(res.Stats)
	t.Log(string(b))
	if err := res.Write(); err != nil {
		t.Fatal(err)
	}
}
