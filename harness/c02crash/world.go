// world.go - one run: a generated history executed on a recorded node following a schedule, then every
// prefix of the recorded batch sequence reopened and judged against the never-restarted reference.
package c02crash

import (
	"fmt"
	"os"
	"runtime/debug"
	"sort"
	"sync"
	"testing"

	"verifharness/internal/chainkit"
	"verifharness/internal/histgen"
	"verifharness/internal/vh"

	"github.com/nspcc-dev/neo-go/pkg/config"
	"github.com/nspcc-dev/neo-go/pkg/core"
	"github.com/nspcc-dev/neo-go/pkg/core/block"
	"github.com/nspcc-dev/neo-go/pkg/core/storage"
	"github.com/nspcc-dev/neo-go/pkg/util"
)

// Step is one schedule step (NodeDiskSim.tla prints these).
type Step struct {
	Op string `json:"op"` // add | hdr | flush | restart | reset
	N  int    `json:"n"`  // hdr: number of headers; reset: distance back from the current height
}

// Variant is a node-local configuration of the node under test.
type Variant struct {
	Name string
	RUB  bool
	KOLS bool
	GCP  uint32
}

func (v Variant) hook(c *config.Blockchain) {
	c.Ledger.RemoveUntraceableBlocks = v.RUB
	c.Ledger.KeepOnlyLatestState = v.KOLS
	if v.RUB {
		c.Ledger.GarbageCollectionPeriod = v.GCP
	}
}

type resetSpan struct {
	First, Last int // batch indexes (inclusive) issued by the Reset call
	Target      uint32
	From        uint32
	Final       Disk // database after the uninterrupted reset
}

type World struct {
	T         *testing.T
	Res       *vh.Result
	Tr        *vh.Trace
	WI        int
	Net       *chainkit.Net
	SRIH      bool
	MTB       uint32 // protocol MaxTraceableBlocks (0 = chainkit default)
	Node      Variant
	MaxTx     int
	Cont      int       // how many further blocks a recovered node is fed (0 = all)
	Quiet     [2]uint32 // blocks with heights in [Quiet[0], Quiet[1]] are generated empty (long chains)
	P2P       bool      // P2PStateExchangeExtensions (state-sync worlds)
	ConcFlush bool      // flushes run concurrently with AddBlock (as the node's own persisting goroutine does)
	SSI       int       // StateSyncInterval
	jump      *jumpInfo

	ref    *core.Blockchain
	refRec *RecStore
	refTrk *Tracked
	refN   int
	gen    *histgen.Gen
	blocks [][]byte
	refD   []chainkit.Digest
	know   Know

	sched []Step
	done  []Step
	mu    sync.Mutex

	// disk backends: AfterCommit hook of the recording store, and a factory that reopens the file copy taken
	// after batch i (nil for the in-memory backend)
	afterCommit func(b *Batch)
	openSnap    func(i int, d Disk) (storage.Store, func(), error)
}

func (w *World) protocol(c *config.Blockchain) {
	c.StateRootInHeader = w.SRIH
	if w.MTB != 0 {
		c.MaxTraceableBlocks = w.MTB
		c.MaxValidUntilBlockIncrement = w.MTB / 2
	}
	if w.P2P {
		c.P2PStateExchangeExtensions = true
		c.StateSyncInterval = w.SSI
	}
}

func (w *World) nodeHook(c *config.Blockchain) {
	w.protocol(c)
	w.Node.hook(c)
}

func (w *World) replay() map[string]any {
	return map[string]any{"world": w.WI, "seed": vh.Seed(), "srih": w.SRIH, "mtb": w.MTB, "node": w.Node.Name, "sched": w.done}
}

// refSync flushes the reference and folds its new batches into the tracked copy of its database.
func (w *World) refSync() {
	_ = w.ref.VerifPersist()
	bs := w.refRec.Batches()
	for ; w.refN < len(bs); w.refN++ {
		w.refTrk.Apply(bs[w.refN])
	}
}

func (w *World) Init() error {
	w.refRec = NewRecStore(storage.NewMemoryStore())
	w.refTrk = NewTracked()
	var err error
	w.ref, err = w.Net.NewChain(w.refRec, w.protocol)
	if err != nil {
		return err
	}
	chainkit.Start(w.ref)
	w.gen = histgen.New(w.T, w.Net, w.ref, vh.Seed()*7919+int64(w.WI), 8)
	if w.P2P {
		// state-sync worlds stay clear of the two listed findings of state-synchronised nodes (DESIGN 10.9; C20 reproduces them)
		w.gen.AvoidOldOracle, w.gen.NoVMStateProbe = true, true
	}
	w.know = Know{FlatAt: map[[32]byte]int{}, SRIH: w.SRIH, Sink: w.P2P}
	w.refSync()
	w.know.Hashes = append(w.know.Hashes, w.ref.GetHeaderHash(0))
	w.know.FlatAt[w.refTrk.Flat[0].X] = 0
	w.refD = append(w.refD, chainkit.Compute(w.ref))
	return nil
}

func (w *World) Close() { w.ref.Close() }

// ensure makes the canonical chain at least h blocks long.
func (w *World) ensure(h uint32) error {
	for uint32(len(w.blocks)) < h {
		mt := w.MaxTx
		if nh := uint32(len(w.blocks)) + 1; nh >= w.Quiet[0] && nh <= w.Quiet[1] {
			mt = 0
		}
		b, err := w.gen.NextBlock(mt)
		if err != nil {
			return err
		}
		raw, err := chainkit.EncodeBlock(b)
		if err != nil {
			return err
		}
		w.blocks = append(w.blocks, raw)
		w.know.Hashes = append(w.know.Hashes, b.Hash())
		w.refD = append(w.refD, chainkit.Compute(w.ref))
		w.refSync()
		w.know.FlatAt[w.refTrk.Flat[0].X] = int(b.Index)
	}
	return nil
}

func (w *World) block(h uint32) *block.Block {
	b, err := chainkit.DecodeBlock(w.blocks[h-1], w.SRIH)
	if err != nil {
		panic(err)
	}
	return b
}

// ---------------------------------------------------------------------------------------------- main run

type runResult struct {
	batches []*Batch
	resets  []resetSpan
	final   uint32
}

func safeNewChain(net *chainkit.Net, st storage.Store, hook func(*config.Blockchain)) (bc *core.Blockchain, err error, pan any) {
	defer func() {
		if r := recover(); r != nil {
			pan = r
		}
	}()
	bc, err = net.NewChain(st, hook)
	return
}

// Run executes the schedule on a recorded node. Returns nil if the run itself exhibited a violation.
func (w *World) Run(inner storage.Store) *runResult {
	rec := NewRecStore(inner)
	rec.GateReset = true
	rec.AfterCommit = w.afterCommit
	rr := &runResult{}
	var bc *core.Blockchain
	open := func(start bool) bool {
		rec.Phase = "open"
		var err error
		var pan any
		bc, err, pan = safeNewChain(w.Net, rec, w.nodeHook)
		if err != nil || pan != nil {
			w.Res.Violate(map[string]any{"kind": "clean-restart-failed", "node": w.Node.Name},
				fmt.Sprintf("node cannot be reopened after a clean stop: %v %v", err, pan), w.replay())
			return false
		}
		if start {
			chainkit.Start(bc)
		}
		return true
	}
	if !open(true) {
		return nil
	}
	var h, hdr uint32
	for i, s := range w.sched {
		rec.Op, rec.Acc = i, h
		switch s.Op {
		case "add":
			if err := w.ensure(h + 1); err != nil {
				w.T.Fatalf("generator: %v", err)
			}
			rec.Phase = "add"
			var stop chan struct{}
			var stopped sync.WaitGroup
			if w.ConcFlush {
				// the node's persisting goroutine runs concurrently with block processing: flushes (and the collection
				// passes that follow them) fall anywhere inside AddBlock; whatever reaches the disk is one more crash point.
				// The block counts as accepted from here on: a flush after its commit may already carry it.
				rec.Acc = h + 1
				stop = make(chan struct{})
				stopped.Add(1)
				go func() {
					defer stopped.Done()
					for {
						select {
						case <-stop:
							return
						default:
							_ = bc.VerifPersist()
						}
					}
				}()
			}
			err := bc.AddBlock(w.block(h + 1))
			if stop != nil {
				close(stop)
				stopped.Wait()
			}
			if err != nil {
				w.Res.Violate(map[string]any{"kind": "valid-block-rejected", "node": w.Node.Name, "phase": "run"},
					fmt.Sprintf("block %d rejected: %v", h+1, err), w.replay())
				return nil
			}
			h++
			hdr = max(hdr, h)
		case "hdr":
			n := uint32(max(1, s.N))
			if err := w.ensure(hdr + n); err != nil {
				w.T.Fatalf("generator: %v", err)
			}
			rec.Phase = "hdr"
			var hs []*block.Header
			for x := hdr + 1; x <= hdr+n; x++ {
				hs = append(hs, &w.block(x).Header)
			}
			if err := bc.AddHeaders(hs...); err != nil {
				w.Res.Violate(map[string]any{"kind": "valid-header-rejected", "node": w.Node.Name},
					fmt.Sprintf("headers %d..%d rejected: %v", hdr+1, hdr+n, err), w.replay())
				return nil
			}
			hdr += n
		case "flush":
			rec.Phase = "persist"
			if err := bc.VerifPersist(); err != nil {
				w.T.Fatalf("persist: %v", err)
			}
		case "restart":
			rec.Phase = "close"
			bc.Close()
			if !open(true) {
				return nil
			}
			if bc.BlockHeight() != h {
				w.Res.Violate(map[string]any{"kind": "clean-restart-height", "node": w.Node.Name},
					fmt.Sprintf("clean restart came back at %d, expected %d", bc.BlockHeight(), h), w.replay())
				return nil
			}
			hdr = bc.HeaderHeight()
		case "reset":
			if w.Node.RUB || w.Node.KOLS {
				continue
			}
			d := uint32(max(0, s.N))
			if d > h {
				d = h
			}
			target := h - d
			if target == h && hdr == h {
				continue // nothing to do: Reset returns immediately
			}
			rec.Phase = "close"
			bc.Close()
			if !open(false) {
				return nil
			}
			rec.Phase = "reset"
			rec.ResetGate()
			first := len(rec.Batches())
			if err := bc.Reset(target); err != nil {
				w.Res.Violate(map[string]any{"kind": "reset-failed", "node": w.Node.Name},
					fmt.Sprintf("Reset(%d) at height %d failed: %v", target, h, err), w.replay())
				return nil
			}
			last := len(rec.Batches()) - 1
			rr.resets = append(rr.resets, resetSpan{First: first, Last: last, Target: target, From: h, Final: DumpStore(inner)})
			h, hdr = target, target
			rec.Acc = h
			if !open(true) {
				return nil
			}
			if bc.BlockHeight() != target {
				w.Res.Violate(map[string]any{"kind": "reset-height", "node": w.Node.Name},
					fmt.Sprintf("after Reset(%d) the node is at %d", target, bc.BlockHeight()), w.replay())
				return nil
			}
		default:
			continue
		}
		w.done = append(w.done, s)
	}
	rec.Op, rec.Acc, rec.Phase = len(w.sched), h, "close"
	bc.Close()
	rr.batches = rec.Batches()
	rr.final = h
	// binding self-check: the recorded batches reproduce the real backend's content exactly
	sh := Disk{}
	for _, b := range rr.batches {
		sh.Apply(b)
	}
	if df := DiffDisks(sh, DumpStore(inner), 5); len(df) > 0 {
		w.T.Fatalf("recording store incomplete: replayed batches differ from the backend on %d+ keys (%x...)", len(df), df[0])
	}
	return rr
}

// ---------------------------------------------------------------------------------------------- crash points

// Outcome of reopening one materialised database.
type Outcome struct {
	Label    string          `json:"label"`
	I        int             `json:"i"`     // number of batches of the main run on the disk
	Alt      bool            `json:"alt"`   // the alternative order of two concurrently issued batches
	Depth    int             `json:"depth"` // 1: crash in the main run; 2: second crash while resuming
	J        int             `json:"j"`     // depth 2: number of resume batches on the disk
	Acc      uint32          `json:"acc"`
	Phase    string          `json:"phase"`
	Stage    string          `json:"stage"` // stage marker on the reopened disk
	Target   int             `json:"target"`
	OK       bool            `json:"ok"`
	Err      string          `json:"err"`
	Panic    string          `json:"panic"`
	H        int             `json:"h"`
	HdrH     int             `json:"hdrh"`
	Digest   chainkit.Digest `json:"digest"`
	TrieOK   bool            `json:"trie_ok"`
	ContOK   bool            `json:"cont_ok"`
	ContAt   int             `json:"cont_at"`
	ContErr  string          `json:"cont_err"`
	ContN    int             `json:"cont_n"`
	ContDiff []string        `json:"cont_diff"`
	EndH     int             `json:"end_h"`
	Resumed  int             `json:"resumed"`  // batches the restart itself wrote
	Resynced bool            `json:"resynced"` // state-sync world: the node came back before the jump and was synchronised again
	DumpEq   int             `json:"dump_eq"`  // -1 not applicable, 0 differs, 1 equal to the uninterrupted reset's database
	DumpDiff []string        `json:"dump_diff"`
	Pre      Proj            `json:"pre"`  // projection of the reopened database
	Post     Proj            `json:"post"` // projection of the database after the restart
	children []*Outcome
}

type crashJob struct {
	disk  Disk
	label string
	i     int
	alt   bool
	acc   uint32
	phase string
	span  *resetSpan // non-nil when the crash point lies inside a Reset
	depth int
	j     int
	open  func() (storage.Store, func(), error) // real backend on a file copy (nil: MemoryStore built from disk)
}

func trieEqualsFlat(bc *core.Blockchain) bool {
	sr, err := bc.GetStateRoot(bc.BlockHeight())
	if err != nil {
		return false
	}
	flat := chainkit.StorageDump(bc)
	sm := bc.GetStateModule()
	n := 0
	ok := true
	idx := map[string]string{}
	for _, it := range flat {
		idx[it[0]+":"+it[1]] = it[2]
	}
	for id := int32(-15); id <= chainkit.MaxContractID; id++ {
		if id == 0 {
			continue
		}
		pre := []byte{byte(id), byte(id >> 8), byte(id >> 16), byte(id >> 24)}
		sm.SeekStates(sr.Root, pre, func(k, v []byte) bool {
			n++
			if idx[fmt.Sprint(id)+":"+fmt.Sprintf("%x", k)] != fmt.Sprintf("%x", v) {
				ok = false
			}
			return true
		})
	}
	return ok && n == len(flat)
}

func (w *World) crash(j crashJob) *Outcome {
	o := &Outcome{Label: j.label, I: j.i, Alt: j.alt, Depth: j.depth, J: j.j, Acc: j.acc, Phase: j.phase, Target: -1, DumpEq: -1, H: -1, HdrH: -1, ContAt: -1, EndH: -1,
		Digest: chainkit.Digest{}, ContDiff: []string{}, DumpDiff: []string{}}
	trk := TrackDisk(j.disk)
	pre := w.know.Project(trk)
	o.Stage = pre.Stage
	o.Pre, o.Post = pre, pre
	if j.span != nil {
		o.Target = int(j.span.Target)
	}
	var mem storage.Store
	if j.open != nil {
		st, closer, err := j.open()
		if err != nil {
			w.T.Fatalf("cannot reopen the file copy of crash point %s: %v", j.label, err)
		}
		defer closer()
		// binding check: the file the real backend left after this commit holds exactly the replayed batches
		if df := DiffDisks(DumpStore(st), j.disk, 3); len(df) > 0 {
			w.T.Fatalf("crash point %s: backend file differs from the replayed batches on keys %x", j.label, df)
		}
		w.Res.Inc("backend_file_images_checked", 1)
		mem = st
	} else {
		mem = j.disk.Store()
	}
	rec := NewRecStore(mem)
	rec.GateReset = true
	bc, err, pan := safeNewChain(w.Net, rec, w.nodeHook)
	if pan != nil {
		o.Panic = fmt.Sprint(pan)
		return o
	}
	if err != nil {
		o.Err = err.Error()
		return o
	}
	o.OK = true
	resumeBatches := rec.Batches()
	o.Resumed = len(resumeBatches)
	o.H, o.HdrH = int(bc.BlockHeight()), int(bc.HeaderHeight())
	for _, b := range resumeBatches {
		trk.Apply(b)
	}
	o.Post = w.know.Project(trk)
	if j.span != nil && (pre.Stage != "none" || (o.Post.Stage == "none" && o.Post.Cur == int(j.span.Target) && pre.Cur == int(j.span.Target))) {
		// the restart had to resume the reset / jump - or found it completed (tip at the target, no marker): either
		// way the same database as the uninterrupted one
		after := DumpStore(mem)
		df := DiffDisks(after, j.span.Final, 6)
		if len(df) == 0 {
			o.DumpEq = 1
		} else {
			o.DumpEq = 0
			for _, k := range df {
				o.DumpDiff = append(o.DumpDiff, fmt.Sprintf("%x", k))
			}
		}
	}
	chainkit.Start(bc)
	if w.jump != nil && uint32(o.H) < w.jump.P {
		// a syncing node that came back before the jump: hand it to the synchronisation procedure again
		o.Resynced = true
		if err := w.syncProc(bc, func() {}); err != nil {
			o.ContOK, o.ContErr, o.ContAt = false, "resync: "+err.Error(), o.H
			bc.Close()
			return o
		}
		o.H, o.HdrH = int(bc.BlockHeight()), int(bc.HeaderHeight())
	}
	o.Digest = chainkit.Compute(bc)
	o.TrieOK = trieEqualsFlat(bc)
	// continuation: the remaining canonical blocks, each compared with the reference
	o.ContOK = true
	end := uint32(len(w.blocks))
	if w.Cont > 0 && uint32(o.H)+uint32(w.Cont) < end {
		end = uint32(o.H) + uint32(w.Cont)
	}
	for h := uint32(o.H) + 1; h <= end; h++ {
		func() {
			defer func() {
				if r := recover(); r != nil {
					o.ContOK, o.ContAt, o.ContErr = false, int(h), fmt.Sprint("panic: ", r)
					if os.Getenv("VERIF_STACK") != "" {
						fmt.Println(string(debug.Stack()))
					}
				}
			}()
			if err := bc.AddBlock(w.block(h)); err != nil {
				o.ContOK, o.ContAt, o.ContErr = false, int(h), err.Error()
				return
			}
			o.ContN++
			if df := chainkit.Diff(chainkit.Compute(bc), w.refD[h]); len(df) > 0 {
				o.ContOK, o.ContAt, o.ContDiff = false, int(h), df
			}
		}()
		if !o.ContOK {
			break
		}
	}
	o.EndH = int(bc.BlockHeight())
	bc.Close()
	// second crash while the restart was resuming a reset
	if j.depth == 1 && j.span != nil && pre.Stage != "none" && len(resumeBatches) > 1 {
		d2 := j.disk.Clone()
		for k, b := range resumeBatches[:len(resumeBatches)-1] {
			d2.Apply(b)
			c := w.crash(crashJob{disk: d2.Clone(), label: fmt.Sprintf("%s+%d", j.label, k+1), i: j.i, alt: j.alt, acc: j.acc, phase: "resume", span: j.span, depth: 2, j: k + 1})
			o.children = append(o.children, c)
		}
	}
	return o
}

// Enumerate reopens every prefix of the recorded batch sequence (plus the alternative order of batches the
// node issued concurrently) and returns batch events interleaved with recovery outcomes, in batch order.
func (w *World) Enumerate(rr *runResult, workers int, pick func(i int) bool, emit func(ev map[string]any, outs []*Outcome)) {
	trk := NewTracked()
	type slot struct {
		ev   map[string]any
		jobs []crashJob
		outs []*Outcome
	}
	slots := make([]*slot, len(rr.batches))
	spanOf := func(i int) *resetSpan { // crash point after batch i (0-based) lies inside reset?
		for k := range rr.resets {
			s := &rr.resets[k]
			if i >= s.First && i < s.Last {
				return s
			}
		}
		return nil
	}
	orders := map[string]int{}
	for i, b := range rr.batches {
		pre := w.know.Project(trk)
		before := trk.D
		if i+1 < len(rr.batches) && Overlapped(b, rr.batches[i+1]) && Disjoint(b, rr.batches[i+1]) {
			before = trk.D.Clone()
		} else {
			before = nil
		}
		trk.Apply(b)
		post := w.know.Project(trk)
		s := &slot{ev: map[string]any{"event": "batch", "i": i + 1, "kind": b.Kind, "phase": b.Phase, "acc": b.Acc, "op": b.Op,
			"touch": Touch(b), "nkeys": len(b.KV), "pre": pre, "post": post}}
		if pick == nil || pick(i+1) {
			cj := crashJob{disk: trk.D.Clone(), label: fmt.Sprint(i + 1), i: i + 1, acc: b.Acc, phase: b.Phase, span: spanOf(i), depth: 1}
			if w.openSnap != nil {
				i, d := i, cj.disk
				cj.open = func() (storage.Store, func(), error) { return w.openSnap(i, d) }
			}
			s.jobs = append(s.jobs, cj)
		}
		if before != nil {
			// the node issued b and the next batch concurrently: the disk may also hold the next one without b
			nb := rr.batches[i+1]
			before.Apply(nb)
			s.jobs = append(s.jobs, crashJob{disk: before, label: fmt.Sprintf("%d'", i+1), i: i + 1, alt: true, acc: b.Acc, phase: nb.Phase, span: spanOf(i), depth: 1})
			s.ev["concurrent_with_next"] = true
			orders[b.Kind+"<"+nb.Kind+" (overlapped)"]++
		}
		if b.Phase == "reset" && b.Kind == "gc" {
			pos := "gc-after-" + pre.Stage
			orders[pos]++
		}
		slots[i] = s
	}
	var wg sync.WaitGroup
	ch := make(chan func(), 64)
	for k := 0; k < workers; k++ {
		wg.Add(1)
		go func() {
			defer wg.Done()
			for f := range ch {
				f()
			}
		}()
	}
	for _, s := range slots {
		s.outs = make([]*Outcome, len(s.jobs))
		for k := range s.jobs {
			s, k := s, k
			ch <- func() { s.outs[k] = w.crash(s.jobs[k]); s.jobs[k].disk = nil }
		}
	}
	close(ch)
	wg.Wait()
	for _, s := range slots {
		var outs []*Outcome
		for _, o := range s.outs {
			outs = append(outs, o)
			outs = append(outs, o.children...)
		}
		emit(s.ev, outs)
	}
	var ks []string
	for k := range orders {
		ks = append(ks, k)
	}
	sort.Strings(ks)
	for _, k := range ks {
		w.Res.Inc("order:"+k, orders[k])
	}
}

var _ = util.Uint256{}
