package c06accept

import (
	"fmt"
	"math/big"
	"math/rand"
	"slices"
	"testing"

	"verifharness/internal/chainkit"
	"verifharness/internal/histgen"

	"github.com/nspcc-dev/neo-go/pkg/config"
	"github.com/nspcc-dev/neo-go/pkg/core"
	"github.com/nspcc-dev/neo-go/pkg/core/block"
	"github.com/nspcc-dev/neo-go/pkg/core/native/nativenames"
	"github.com/nspcc-dev/neo-go/pkg/core/transaction"
	"github.com/nspcc-dev/neo-go/pkg/neotest"
	"github.com/nspcc-dev/neo-go/pkg/util"
	"github.com/nspcc-dev/neo-go/pkg/vm/opcode"
)

// world = one canonical chain (reference node + generator) under one protocol configuration.
type world struct {
	t           testing.TB
	id          int
	net         *chainkit.Net
	magic       uint32
	srih        bool
	vt          bool
	ref         *core.Blockchain
	gen         *histgen.Gen
	std         *sigSet
	alt         *sigSet
	blocks      []*block.Block // canonical block i
	raws        [][]byte
	roots       []util.Uint256 // local state root after block i
	digs        []chainkit.Digest
	signer      []*sigSet // set that signs block i (i >= 1)
	scenes      map[int]*scene
	rnd         *rand.Rand
	epoch       int // index of the block that designates the alternative validators
	prepB0      *transaction.Transaction
	maxInc      uint32
	refRejected string
}

// scene = everything needed to corrupt the valid next block of height h+1.
type scene struct {
	h    int
	pay  []neotest.Signer           // two payers whose plain transactions are valid at h
	v    []*transaction.Transaction // the harness' own valid transactions inside block h+1 (v[0] by pay[0], v[1] by pay[1])
	mats map[string][]*transaction.Transaction
}

func (w *world) hook(node func(*config.Blockchain)) func(*config.Blockchain) {
	return func(c *config.Blockchain) {
		c.StateRootInHeader = w.srih
		c.VerifyTransactions = w.vt
		if node != nil {
			node(c)
		}
	}
}

func newWorld(t testing.TB, id int, srih, vt bool, seed int64, sceneHeights []int, epoch, length int) *world {
	w := &world{t: t, id: id, net: chainkit.NewNet(7, 4), srih: srih, vt: vt, scenes: map[int]*scene{}, epoch: epoch,
		rnd: rand.New(rand.NewSource(seed))}
	w.magic = uint32(w.net.Magic)
	var err error
	// the reference node always verifies transactions: it is the generator's filter
	w.ref, err = w.net.NewChain(nil, func(c *config.Blockchain) { c.StateRootInHeader = srih })
	if err != nil {
		t.Fatal(err)
	}
	chainkit.Start(w.ref)
	w.gen = histgen.New(t, w.net, w.ref, seed, 8)
	w.std = stdSet(w.net)
	w.alt = newSigSet(fmt.Sprintf("alt-validator-%d", id), 4)
	w.maxInc = w.ref.GetConfig().MaxValidUntilBlockIncrement
	g, err := w.ref.GetBlock(w.ref.GetHeaderHash(0))
	if err != nil {
		t.Fatal(err)
	}
	w.push(g, nil)
	for h := 0; h < length && w.refRejected == ""; h++ {
		w.extend(slices.Contains(sceneHeights, h))
	}
	return w
}

func (w *world) push(b *block.Block, set *sigSet) {
	raw, err := wire(b)
	if err != nil {
		w.t.Fatal(err)
	}
	w.blocks = append(w.blocks, b)
	w.raws = append(w.raws, raw)
	w.signer = append(w.signer, set)
	w.roots = append(w.roots, w.ref.GetStateModule().CurrentLocalStateRoot())
	w.digs = append(w.digs, chainkit.Compute(w.ref))
}

func (w *world) setByHash(h util.Uint160) *sigSet {
	if h.Equals(w.alt.hash()) {
		return w.alt
	}
	return w.std
}

func (w *world) other(s *sigSet) *sigSet {
	if s == w.std {
		return w.alt
	}
	return w.std
}

// header template of the valid next block on top of canonical block h.
func (w *world) nextHeader(h int) block.Header {
	tip := w.blocks[h]
	next := w.std.hash()
	if h+1 == w.epoch {
		next = w.alt.hash()
	}
	hd := block.Header{PrevHash: tip.Hash(), Timestamp: tip.Timestamp + uint64(1+w.rnd.Intn(3)), Index: tip.Index + 1,
		NextConsensus: next, Nonce: uint64(w.rnd.Int63()), PrimaryIndex: byte(w.rnd.Intn(4))}
	if w.srih {
		hd.StateRootEnabled = true
		hd.PrevStateRoot = w.roots[h]
	}
	return hd
}

func (w *world) plain(p neotest.Signer, o txOpt) *transaction.Transaction {
	return craft(w.t, w.ref, w.magic, p, o)
}

func u32(x int) *uint32 { v := uint32(x); return &v }

func conflictsAttr(h util.Uint256) []transaction.Attribute {
	return []transaction.Attribute{{Type: transaction.ConflictsT, Value: &transaction.Conflicts{Hash: h}}}
}

// prepareScene crafts, against the reference state at height h, the harness' own valid transactions of block h+1
// (pooled in the reference node: the generator's filter) and the defective material (never pooled).
func (w *world) prepareScene(h int) *scene {
	sc := &scene{h: h, mats: map[string][]*transaction.Transaction{}}
	var cands []neotest.Signer
	if h == 0 {
		cands = []neotest.Signer{w.gen.E.Validator, w.gen.E.Validator}
	} else {
		for _, i := range w.rnd.Perm(len(w.gen.Accts)) {
			cands = append(cands, w.gen.Accts[i])
		}
	}
	for _, c := range cands {
		if len(sc.pay) == 2 {
			break
		}
		v := w.plain(c, txOpt{extraNet: 400_0000})
		if v != nil && w.ref.PoolTx(v) == nil {
			sc.pay = append(sc.pay, c)
			sc.v = append(sc.v, v)
		}
	}
	if len(sc.pay) < 2 {
		w.t.Fatalf("scene %d: no two payers with valid plain transactions", h)
	}
	p0, p1 := sc.pay[0], sc.pay[1]
	add := func(k string, txs ...*transaction.Transaction) {
		for _, x := range txs {
			if x == nil {
				w.t.Fatalf("scene %d: material %s could not be built", h, k)
			}
		}
		sc.mats[k] = txs
	}
	bal := func(p neotest.Signer) int64 {
		b := w.ref.GetUtilityTokenBalance(p.ScriptHash(), util.Uint160{})
		if !b.IsInt64() {
			return new(big.Int).Rsh(b, 1).Int64()
		}
		return b.Int64()
	}
	B := sc.v[0]
	add("tx_expired", w.plain(p0, txOpt{vub: u32(h)}))
	add("tx_vub_far", w.plain(p0, txOpt{vub: u32(h + int(w.maxInc) + 1)}))
	add("tx_nvb_future", w.plain(p0, txOpt{attrs: []transaction.Attribute{{Type: transaction.NotValidBeforeT, Value: &transaction.NotValidBefore{Height: uint32(h + 5)}}}}))
	add("tx_underfunded", w.plain(p0, txOpt{sysFee: bal(p0) + 1}))
	zero := int64(0)
	add("tx_netfee_zero", w.plain(p0, txOpt{netFee: &zero}))
	add("tx_bad_script", w.plain(p0, txOpt{script: []byte{byte(opcode.PUSHDATA1), 9, 1, 2}}))
	half := bal(p1)/10*6 + 1
	add("tx_overdraw", w.plain(p1, txOpt{sysFee: half}), w.plain(p1, txOpt{sysFee: half}))
	add("tx_conflict_low", w.plain(p0, txOpt{attrs: conflictsAttr(B.Hash()), extraNet: -90_0000}))
	add("tx_conflict_high", w.plain(p0, txOpt{attrs: conflictsAttr(B.Hash()), extraNet: 900_0000}))
	if h > 0 {
		add("tx_conflict_foreign", w.plain(p1, txOpt{attrs: conflictsAttr(B.Hash()), extraNet: -90_0000}))
		old := w.blocks[h].Transactions[w.rnd.Intn(len(w.blocks[h].Transactions))]
		add("tx_onchain_dup", old)
		add("tx_conflicts_onchain", w.plain(p0, txOpt{attrs: conflictsAttr(old.Hash())}))
	}
	if w.prepB0 != nil {
		add("tx_conflicted_by_onchain", w.prepB0)
	}
	w.scenes[h] = sc
	return sc
}

// extend generates canonical block h+1.
func (w *world) extend(isScene bool) {
	h := len(w.blocks) - 1
	var own []*transaction.Transaction
	if isScene {
		own = w.prepareScene(h).v
	}
	if h == 1 {
		// a pair (A on chain with Conflicts(B0), B0 never included) for "conflicted by an on-chain transaction"
		p := w.gen.Accts[0]
		b0 := w.plain(p, txOpt{vub: u32(h + int(w.maxInc) - 20)})
		a := w.plain(p, txOpt{attrs: conflictsAttr(b0.Hash())})
		if a != nil && b0 != nil && w.ref.PoolTx(a) == nil {
			own = append(own, a)
			w.prepB0 = b0
		}
	}
	txs := w.gen.NextTxs(4)
	txs = append(txs, own...)
	if isScene && h >= 2 {
		// a transaction signed by a MAJORITY multisignature: another subset of the signers makes another valid copy of it
		// (the "pool has it" states pool that copy)
		if tx := w.gen.Tx(w.gen.Committee(), w.gen.E.NativeHash(w.t, nativenames.Policy), "setStoragePrice", int64(60000+w.rnd.Intn(30000))); tx != nil && w.ref.PoolTx(tx) == nil {
			txs = append(txs, tx)
		}
	}
	for len(txs) < 3 || len(txs)%2 == 0 {
		var p neotest.Signer = w.gen.E.Validator
		if h > 0 {
			p = w.gen.Accts[w.rnd.Intn(len(w.gen.Accts))]
		}
		v := w.plain(p, txOpt{})
		if v != nil && w.ref.PoolTx(v) == nil {
			txs = append(txs, v)
		}
	}
	w.rnd.Shuffle(len(txs), func(i, j int) { txs[i], txs[j] = txs[j], txs[i] })
	cur := w.setByHash(w.blocks[h].NextConsensus)
	if h == 0 {
		cur = w.std
	}
	b := &block.Block{Header: w.nextHeader(h), Transactions: txs}
	b.MerkleRoot = ownMerkle(txHashes(b))
	seal(b, cur, w.magic)
	if err := w.ref.AddBlock(b); err != nil {
		// the block is valid by construction (own header fields, own Merkle root, designated signers, transactions admitted
		// one by one by this very node's PoolTx): the correct block is not accepted
		w.refRejected = fmt.Sprintf("reference node at height %d rejected the generated valid block %d (signed by %s, %d transactions): %v", h, h+1, cur.name, len(txs), err)
		return
	}
	w.push(b, cur)
}

// badRoot is canonical block i with a wrong PrevStateRoot, signed by its designated validators.
func (w *world) badRoot(i int) *block.Block {
	bad := clone(w.blocks[i])
	bad.PrevStateRoot[5] ^= 0x40
	return seal(bad, w.signer[i], w.magic)
}

// ---- corruption --------------------------------------------------------------------------------------------------------

// offer is a concrete corrupted (or valid) block ready to be handed to a node.
type offer struct {
	raw      []byte
	flag     bool                    // state-root setting the bytes are decoded with
	inserted map[util.Uint256]string // defect class of transactions put in by the harness
	base     int                     // index of the canonical block it was derived from
	note     string
}

func swapTx(txs []*transaction.Transaction, i, j int) { txs[i], txs[j] = txs[j], txs[i] }

func indexOf(txs []*transaction.Transaction, h util.Uint256) int {
	for i, t := range txs {
		if t.Hash() == h {
			return i
		}
	}
	return -1
}

// mutateTx re-encodes a transaction after applying f to a decoded copy (hash recomputed from the new bytes).
func mutateTx(tx *transaction.Transaction, f func(*transaction.Transaction)) *transaction.Transaction {
	c, err := transaction.NewTransactionFromBytes(tx.Bytes())
	if err != nil {
		return nil
	}
	f(c)
	c2, err := transaction.NewTransactionFromBytes(c.Bytes())
	if err != nil {
		return nil
	}
	return c2
}

// corrupt builds the offer for (kind, family) from canonical block `base` (extending base-1). Returns nil if the kind
// cannot be realised at this place (reported as skipped).
func (w *world) corrupt(base int, kind, family string, r *rand.Rand) *offer {
	N := w.blocks[base]
	tip := w.blocks[base-1]
	cur := w.signer[base]
	sc := w.scenes[base-1]
	b := clone(N)
	of := &offer{flag: w.srih, inserted: map[util.Uint256]string{}, base: base}
	resealed := family == "resealed"
	finishHdr := func() {
		if resealed {
			seal(b, cur, w.magic)
		}
	}
	finishTxs := func() {
		if resealed {
			b.MerkleRoot = ownMerkle(txHashes(b))
			seal(b, cur, w.magic)
		}
	}
	insert := func(class string, pos int, txs ...*transaction.Transaction) {
		for _, x := range txs {
			of.inserted[x.Hash()] = class
		}
		b.Transactions = slices.Insert(b.Transactions, pos, txs...)
	}
	mat := func(k string) []*transaction.Transaction {
		if sc == nil {
			return nil
		}
		return sc.mats[k]
	}
	n := len(b.Transactions)
	switch kind {
	case "valid":
	case "on_chain":
		raw := w.raws[base-1]
		of.raw, of.base = raw, base
		return of
	case "badroot_next":
		raw, err := wire(w.badRoot(base + 1))
		if err != nil {
			return nil
		}
		of.raw, of.base = raw, base+1
		return of
	case "idx_minus1":
		b.Index = tip.Index
		finishHdr()
	case "idx_plus1":
		b.Index = tip.Index + 2
		finishHdr()
	case "idx_far":
		b.Index = tip.Index + 1 + uint32(500+r.Intn(100000))
		finishHdr()
	case "prev_flip":
		b.PrevHash[r.Intn(32)] ^= 1 << uint(r.Intn(8))
		finishHdr()
	case "prev_older":
		if base < 2 {
			return nil
		}
		b.PrevHash = w.blocks[base-2].Hash()
		finishHdr()
	case "ts_equal":
		b.Timestamp = tip.Timestamp
		finishHdr()
	case "ts_less":
		b.Timestamp = tip.Timestamp - uint64(1+r.Intn(1000))
		finishHdr()
	case "merkle_flip":
		b.MerkleRoot[r.Intn(32)] ^= 1 << uint(r.Intn(8))
		finishHdr()
	case "srflag":
		b.StateRootEnabled = !w.srih
		if b.StateRootEnabled {
			b.PrevStateRoot = w.roots[base-1]
		} else {
			b.PrevStateRoot = util.Uint256{}
		}
		of.flag = b.StateRootEnabled
		finishHdr()
	case "prevroot_flip":
		b.PrevStateRoot[r.Intn(32)] ^= 1 << uint(r.Intn(8))
		finishHdr()
	case "prevroot_older":
		if base < 2 || w.roots[base-2] == w.roots[base-1] {
			return nil
		}
		b.PrevStateRoot = w.roots[base-2]
		finishHdr()
	case "version":
		b.Version = uint32(1 + r.Intn(3))
		finishHdr()
	case "nonce":
		b.Nonce ^= 1 << uint(r.Intn(64))
		finishHdr()
	case "primary":
		b.PrimaryIndex = (b.PrimaryIndex + 1 + byte(r.Intn(3))) % 4
		finishHdr()
	case "primary_oob":
		b.PrimaryIndex = byte(4 + r.Intn(252))
		finishHdr()
	case "nextcons":
		b.NextConsensus = w.other(w.setByHash(b.NextConsensus)).hash()
		finishHdr()
	case "wit_empty_inv":
		b.Script.InvocationScript = nil
	case "wit_empty_all":
		b.Script.InvocationScript, b.Script.VerificationScript = nil, nil
	case "wit_wrong_set":
		seal(b, w.other(cur), w.magic)
	case "wit_wrong_keys":
		b.Script.InvocationScript = invocation(w.other(cur).sigs(w.magic, b)[:cur.m])
	case "wit_one_bad":
		inv := b.Script.InvocationScript
		k := r.Intn(cur.m)
		inv[k*66+2+r.Intn(64)] ^= 1 << uint(r.Intn(8))
	case "wit_too_few":
		b.Script.InvocationScript = b.Script.InvocationScript[:66*(cur.m-1)]
	case "wit_wrong_net":
		b.Script.InvocationScript = invocation(cur.sigs(w.magic+1, b)[:cur.m])
	case "wit_swapped":
		s := cur.sigs(w.magic, b)
		s[0], s[1] = s[1], s[0]
		b.Script.InvocationScript = invocation(s[:cur.m])
	case "tx_reorder":
		i := r.Intn(n - 1)
		if r.Intn(3) == 0 {
			slices.Reverse(b.Transactions)
		} else {
			swapTx(b.Transactions, i, i+1)
		}
		finishTxs()
	case "tx_drop":
		i := r.Intn(n)
		b.Transactions = slices.Delete(b.Transactions, i, i+1)
		finishTxs()
	case "tx_drop_all":
		if n == 0 {
			return nil
		}
		b.Transactions = nil
		finishTxs()
	case "tx_dup":
		i := r.Intn(n - 1) // never the last one: that is tx_dup_last_odd
		b.Transactions = slices.Insert(b.Transactions, i+1+r.Intn(n-1-i), b.Transactions[i])
		finishTxs()
	case "tx_dup_last_odd":
		if n%2 == 0 {
			return nil
		}
		b.Transactions = append(b.Transactions, b.Transactions[n-1])
	case "tx_alter":
		i := r.Intn(n)
		x := mutateTx(b.Transactions[i], func(t *transaction.Transaction) {
			switch r.Intn(3) {
			case 0:
				t.Nonce++
			case 1:
				t.SystemFee++
			default:
				t.ValidUntilBlock++
			}
		})
		if x == nil {
			return nil
		}
		b.Transactions[i] = x
		finishTxs()
	case "tx_alter_wit":
		if sc == nil {
			return nil
		}
		i := indexOf(b.Transactions, sc.v[0].Hash())
		x := mutateTx(b.Transactions[i], func(t *transaction.Transaction) {
			inv := t.Scripts[0].InvocationScript
			inv[2+r.Intn(len(inv)-2)] ^= 1 << uint(r.Intn(8))
		})
		if x == nil || x.Hash() != b.Transactions[i].Hash() {
			return nil
		}
		b.Transactions[i] = x
	case "tx_expired", "tx_vub_far", "tx_nvb_future", "tx_onchain_dup", "tx_conflicts_onchain", "tx_conflicted_by_onchain",
		"tx_underfunded", "tx_netfee_zero", "tx_bad_script":
		m := mat(kind)
		if m == nil {
			return nil
		}
		insert("state", r.Intn(n+1), m...)
		finishTxs()
	case "tx_overdraw":
		m := mat(kind)
		if m == nil {
			return nil
		}
		insert("mutual", r.Intn(n+1), m[0])
		insert("mutual", r.Intn(n+2), m[1])
		finishTxs()
	case "tx_conflict_BA_low", "tx_conflict_BA_high", "tx_conflict_AB_low", "tx_conflict_AB_high", "tx_conflict_BA_foreign", "tx_conflict_AB_foreign":
		if sc == nil {
			return nil
		}
		var m []*transaction.Transaction
		class := "mutual"
		switch kind {
		case "tx_conflict_BA_low", "tx_conflict_AB_low":
			m = mat("tx_conflict_low")
		case "tx_conflict_BA_high", "tx_conflict_AB_high":
			m = mat("tx_conflict_high")
		default:
			m = mat("tx_conflict_foreign")
		}
		if m == nil {
			return nil
		}
		switch kind {
		case "tx_conflict_BA_high", "tx_conflict_AB_low", "tx_conflict_AB_foreign":
			class = "mutual_evict"
		}
		ib := indexOf(b.Transactions, sc.v[0].Hash())
		pos := ib + 1 + r.Intn(n-ib) // after B
		if kind[12:14] == "AB" {
			pos = r.Intn(ib + 1) // before B
		}
		insert(class, pos, m[0])
		finishTxs()
	case "enc_truncated", "enc_trailing", "enc_nonminimal":
		raw, err := wire(b)
		if err != nil {
			return nil
		}
		switch kind {
		case "enc_truncated":
			raw = raw[:len(raw)-1-r.Intn(len(raw)-1)]
		case "enc_trailing":
			for k := 1 + r.Intn(8); k > 0; k-- {
				raw = append(raw, byte(r.Intn(256)))
			}
		case "enc_nonminimal":
			hd := clone(b)
			hd.Transactions = nil
			hraw, _ := wire(hd)
			off := len(hraw) - 1 // position of the transaction count
			if int(raw[off]) != n || n >= 0xfd {
				return nil
			}
			raw = slices.Concat(raw[:off], []byte{0xfd, byte(n), 0}, raw[off+1:])
		}
		of.raw = raw
		return of
	default:
		return nil
	}
	raw, err := wire(b)
	if err != nil {
		return nil
	}
	of.raw = raw
	return of
}
