package c06accept

import (
	"encoding/hex"
	"errors"
	"fmt"
	"sort"
	"strings"

	"verifharness/internal/chainkit"

	"github.com/nspcc-dev/neo-go/pkg/config/netmode"
	"github.com/nspcc-dev/neo-go/pkg/core"
	"github.com/nspcc-dev/neo-go/pkg/core/block"
	"github.com/nspcc-dev/neo-go/pkg/core/storage"
	"github.com/nspcc-dev/neo-go/pkg/crypto/hash"
	"github.com/nspcc-dev/neo-go/pkg/util"
)

type noClose struct{ storage.Store }

func (noClose) Close() error { return nil }

// node = a real ledger brought to a chain-state kind.
type node struct {
	variants int // transactions pooled as another valid copy (different witness) of the block's
	w        *world
	st       storage.Store
	bc       *core.Blockchain
	h        int // block height when prepared
	hdrH     int
	state    string
	pooled   int
}

func (w *world) open(st storage.Store) (*core.Blockchain, error) {
	bc, err := w.net.NewChain(st, w.hook(nil))
	if err != nil {
		return nil, err
	}
	chainkit.Start(bc)
	return bc, nil
}

// newNode replays the canonical chain up to h on a fresh store and arranges the chain-state kind.
func (w *world) newNode(state string, h int) (*node, error) {
	n := &node{w: w, st: noClose{storage.NewMemoryStore()}, h: h, hdrH: h, state: state}
	var err error
	if n.bc, err = w.open(n.st); err != nil {
		return nil, err
	}
	for i := 1; i <= h; i++ {
		b, err := unwire(w.raws[i], w.srih)
		if err != nil {
			return nil, err
		}
		if err := n.bc.AddBlock(b); err != nil {
			return nil, fmt.Errorf("replay of canonical block %d: %w", i, err)
		}
	}
	hdr := func(i int) *block.Header {
		b, _ := unwire(w.raws[i], w.srih)
		return &b.Header
	}
	pool := func(i int) {
		b, _ := unwire(w.raws[i], w.srih)
		for _, tx := range b.Transactions {
			// every multi-signed transaction is pooled as ANOTHER valid copy of itself (same hash, the witness made
			// by another subset of the signers): the block's copy is as valid as the pooled one
			if v, ok := chainkit.WitnessVariant(tx, netmode.Magic(w.magic)); ok {
				if n.bc.PoolTx(v) == nil {
					n.pooled++
					n.variants++
					continue
				}
			}
			if n.bc.PoolTx(tx) == nil {
				n.pooled++
			}
		}
	}
	switch state {
	case "hdr_ahead":
		if err := n.bc.AddHeaders(hdr(h+1), hdr(h+2)); err != nil {
			return nil, fmt.Errorf("canonical headers rejected: %w", err)
		}
		n.hdrH = h + 2
	case "hdr_ahead_badroot", "hdr_ahead_badroot2":
		// header h+2 carries a wrong PrevStateRoot and is signed by its designated validators; the node cannot know yet.
		// hdr_ahead_badroot: it is the last known header (exactly one header above block h+1);
		// hdr_ahead_badroot2: one more header (linked to it) is known.
		raw, _ := wire(w.badRoot(h + 2))
		bb, _ := unwire(raw, w.srih)
		hs := []*block.Header{hdr(h + 1), &bb.Header}
		n.hdrH = h + 2
		if state == "hdr_ahead_badroot2" {
			third := clone(w.blocks[h+3])
			third.PrevHash = bb.Hash()
			seal(third, w.signer[h+3], w.magic)
			raw3, _ := wire(third)
			b3, _ := unwire(raw3, w.srih)
			hs = append(hs, &b3.Header)
			n.hdrH = h + 3
		}
		if err := n.bc.AddHeaders(hs...); err != nil {
			return nil, fmt.Errorf("headers rejected: %w", err)
		}
	case "pool_has":
		pool(h + 1)
		pool(h + 2)
	case "pool_other":
		pool(h + 2)
	case "restarted":
		if err := n.bc.VerifPersist(); err != nil {
			return nil, err
		}
		n.bc.Close()
		if n.bc, err = w.open(n.st); err != nil {
			return nil, fmt.Errorf("reopen: %w", err)
		}
	}
	if int(n.bc.BlockHeight()) != h || int(n.bc.HeaderHeight()) != n.hdrH {
		return nil, fmt.Errorf("node preparation: heights %d/%d, wanted %d/%d", n.bc.BlockHeight(), n.bc.HeaderHeight(), h, n.hdrH)
	}
	return n, nil
}

func (n *node) close() { n.bc.Close() }

// ---- observation ------------------------------------------------------------------------------------------------------

type snap struct {
	blkH, hdrH  uint32
	tip, hdrTip util.Uint256
	hdrs        []util.Uint256 // header hashes above the top block
	led         map[string]string
	pool        string
	db          map[string]string
}

func rawDump(st storage.Store) map[string]string {
	m := map[string]string{}
	for p := 0; p < 256; p++ {
		st.Seek(storage.SeekRange{Prefix: []byte{byte(p)}}, func(k, v []byte) bool {
			m[string(k)] = string(v)
			return true
		})
	}
	return m
}

func (n *node) snapshot() (*snap, error) {
	bc := n.bc
	if err := bc.VerifPersist(); err != nil {
		return nil, err
	}
	s := &snap{blkH: bc.BlockHeight(), hdrH: bc.HeaderHeight(), tip: bc.CurrentBlockHash(), hdrTip: bc.CurrentHeaderHash(), led: map[string]string{}}
	for i := s.blkH + 1; i <= s.hdrH; i++ {
		s.hdrs = append(s.hdrs, bc.GetHeaderHash(i))
	}
	for k, v := range chainkit.Compute(bc) {
		s.led["digest."+k] = v
	}
	sm := bc.GetStateModule()
	s.led["sr.local"] = fmt.Sprintf("%d:%s", sm.CurrentLocalHeight(), sm.CurrentLocalStateRoot().StringLE())
	s.led["sr.validated"] = fmt.Sprint(sm.CurrentValidatedHeight())
	s.led["persisted"] = fmt.Sprint(bc.VerifPersistedHeight())
	s.led["ext.whitelist"] = fmt.Sprint(bc.IsExtensibleAllowed(n.w.std.hash()), bc.IsExtensibleAllowed(n.w.alt.hash()))
	var ps []string
	for _, tx := range bc.GetMemPool().GetVerifiedTransactions() {
		wh := hash.Sha256(tx.Bytes())
		ps = append(ps, tx.Hash().StringLE()+"/"+wh.StringLE()[:16])
	}
	s.pool = strings.Join(ps, ",")
	s.db = rawDump(n.st)
	return s, nil
}

var prefixNames = map[byte]string{
	byte(storage.DataExecutable): "executable", byte(storage.DataMPT): "mpt", byte(storage.DataMPTAux): "mptaux",
	byte(storage.STStorage): "storage", byte(storage.STTempStorage): "tempstorage", byte(storage.STNEP11Transfers): "nep11",
	byte(storage.STNEP17Transfers): "nep17", byte(storage.STTokenTransferInfo): "transferinfo",
	byte(storage.IXHeaderHashList): "hdr_hash_page", byte(storage.SYSCurrentBlock): "cur_block",
	byte(storage.SYSCurrentHeader): "cur_header", byte(storage.SYSStateChangeStage): "stage", byte(storage.SYSVersion): "version",
}

// dbDiff names the kinds of keys whose presence or value differs; the executable record of `offered` is named apart.
func dbDiff(a, b map[string]string, offered util.Uint256, follower ...util.Uint256) []string {
	set := map[string]bool{}
	name := func(k string) string {
		if len(k) == 0 {
			return "empty"
		}
		if k[0] == byte(storage.DataExecutable) && len(k) == 33 && k[1:] == string(offered.BytesBE()) {
			return "hdr_record"
		}
		if len(follower) > 0 && k[0] == byte(storage.DataExecutable) && len(k) == 33 && k[1:] == string(follower[0].BytesBE()) {
			return "hdr_record" // the follower of a batch offer
		}
		if nm, ok := prefixNames[k[0]]; ok {
			return nm
		}
		return "prefix_" + hex.EncodeToString([]byte{k[0]})
	}
	for k, v := range a {
		if w, ok := b[k]; !ok || w != v {
			set[name(k)] = true
		}
	}
	for k := range b {
		if _, ok := a[k]; !ok {
			set[name(k)] = true
		}
	}
	r := []string{}
	for k := range set {
		r = append(r, k)
	}
	sort.Strings(r)
	return r
}

func ledDiff(a, b *snap) []string {
	r := []string{}
	if a.tip != b.tip {
		r = append(r, "tip")
	}
	for k, v := range a.led {
		if b.led[k] != v {
			r = append(r, k)
		}
	}
	sort.Strings(r)
	return r
}

// ids maps recorded header hashes to abstract identities: c = canonical at that height, o = the offered block, x = other.
func (n *node) ids(s *snap, offered util.Uint256, follower ...util.Uint256) []string {
	r := []string{}
	for i, h := range s.hdrs {
		idx := int(s.blkH) + 1 + i
		switch {
		case idx < len(n.w.blocks) && h == n.w.blocks[idx].Hash():
			r = append(r, "c")
		case h == offered:
			r = append(r, "o")
		case len(follower) > 0 && follower[0] != (util.Uint256{}) && h == follower[0]:
			r = append(r, "n") // the harness-made follower of a batch offer
		default:
			r = append(r, "x")
		}
	}
	return r
}

func errClass(err error) string {
	if err == nil {
		return ""
	}
	m := err.Error()
	if strings.Contains(m, "failed to verify") {
		return "tx"
	}
	for _, c := range []struct {
		e error
		n string
	}{{core.ErrInvalidBlockIndex, "index"}, {core.ErrAlreadyExists, "exists"}, {core.ErrHdrStateRootSetting, "srflag"},
		{core.ErrHdrInvalidStateRoot, "prevroot"}, {core.ErrHdrHashMismatch, "prev"}, {core.ErrHdrIndexMismatch, "prev"},
		{core.ErrHdrInvalidTimestamp, "ts"}, {core.ErrInvalidSignature, "wit"}, {core.ErrVerificationFailed, "wit"}} {
		if errors.Is(err, c.e) {
			return c.n
		}
	}
	switch {
	case strings.Contains(m, "MerkleRoot mismatch"):
		return "merkle"
	case strings.Contains(m, "hash mismatch"):
		return "hash"
	case strings.Contains(m, "was not found"):
		return "prev"
	case strings.Contains(m, "PrevStateRoot mismatch"):
		return "nextroot"
	case strings.Contains(m, "witness") || strings.Contains(m, "signature") || strings.Contains(m, "script"):
		return "wit"
	}
	return "other"
}
