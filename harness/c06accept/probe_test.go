package c06accept

import (
	"encoding/hex"
	"fmt"
	"testing"
)

func TestProbe(t *testing.T) {
	w := newWorld(t, 2, true, true, 7921, []int{0, 9, 7}, 7, 13)
	n, err := w.newNode("hdr_ahead_badroot", 9)
	if err != nil {
		t.Fatal(err)
	}
	before, _ := n.snapshot()
	gb, _ := unwire(w.raws[10], true)
	fmt.Println("add:", n.bc.AddBlock(gb))
	after, _ := n.snapshot()
	for k, v := range after.db {
		if before.db[k] != v {
			fmt.Printf("changed/added %s\n   before=%s\n   after =%s\n", hex.EncodeToString([]byte(k)), hex.EncodeToString([]byte(before.db[k])), hex.EncodeToString([]byte(v)))
		}
	}
	for k := range before.db {
		if _, ok := after.db[k]; !ok {
			fmt.Println("removed", hex.EncodeToString([]byte(k)))
		}
	}
	fmt.Println(ledDiff(before, after))
}
