// Driver for C06: every case of the TLC case table (spec/accept/AcceptCases.tla) and seeded random single-bit
// corruptions of the wire form of a valid next block are offered to real nodes (core.Blockchain) prepared in the
// chain-state kinds of the specification; the node is observed BEFORE and AFTER (heights, tip, header chain, 13-component
// ledger digest, state-root module, memory pool incl. witnesses, full key/value dump of the store after a forced flush),
// then the correct block is offered. The recorded trace is judged by TLC (spec/accept/AcceptTrace.tla).
package c06accept

import (
	"encoding/json"
	"fmt"
	"math/rand"
	"sync"
	"testing"

	"verifharness/internal/chainkit"
	"verifharness/internal/vh"

	"github.com/nspcc-dev/neo-go/pkg/core/block"
	"github.com/nspcc-dev/neo-go/pkg/util"
)

type attrs struct {
	Idx      string `json:"idx"`
	Prev     bool   `json:"prev"`
	Ts       string `json:"ts"`
	Merkle   bool   `json:"merkle"`
	Srflag   bool   `json:"srflag"`
	Prevroot bool   `json:"prevroot"`
	Wit      bool   `json:"wit"`
	Txdef    string `json:"txdef"`
	Hid      string `json:"hid"`
	Free     bool   `json:"free"`
}

type caseIn struct {
	Case struct {
		Srih   bool   `json:"srih"`
		Vt     bool   `json:"vt"`
		Via    string `json:"via"`
		State  string `json:"state"`
		Kind   string `json:"kind"`
		Family string `json:"family"`
	} `json:"case"`
	Dec        string `json:"dec"`
	Attrs      attrs  `json:"attrs"`
	Valid      bool   `json:"valid"`
	MustAccept bool   `json:"must_accept"`
	HdrMay     bool   `json:"hdr_may"`
	Pred       struct {
		Acc   bool   `json:"acc"`
		Stage string `json:"stage"`
		Hdr   bool   `json:"hdr"`
	} `json:"pred"`
	PredDesign struct {
		Acc bool `json:"acc"`
		Hdr bool `json:"hdr"`
	} `json:"pred_design"`
	rand bool
	seed int64
}

// measure describes an offered block in the vocabulary of Accept.tla, relative to canonical block tipIdx.
// Everything is computed by the harness itself (kit.go); transaction defects put in by the harness are known by
// construction, other differences to the canonical transaction list are classified by comparison.
func (w *world) measure(blk *block.Block, of *offer, tipIdx int) (attrs, error) {
	tip, canon := w.blocks[tipIdx], w.blocks[tipIdx+1]
	var a attrs
	hh := ownHeaderHash(&blk.Header)
	if hh != blk.Hash() {
		return a, fmt.Errorf("harness header hash differs from the library's")
	}
	switch d := int64(blk.Index) - int64(tip.Index+1); {
	case d == 0:
		a.Idx = "next"
	case d == -1:
		a.Idx = "tip"
	case d < -1:
		a.Idx = "past"
	case d == 1:
		a.Idx = "skip"
	default:
		a.Idx = "far"
	}
	a.Prev = blk.PrevHash == tip.Hash()
	switch {
	case blk.Timestamp > tip.Timestamp:
		a.Ts = "later"
	case blk.Timestamp == tip.Timestamp:
		a.Ts = "equal"
	default:
		a.Ts = "earlier"
	}
	a.Merkle = ownMerkle(txHashes(blk)) == blk.MerkleRoot
	a.Srflag = blk.StateRootEnabled == w.srih
	a.Prevroot = !w.srih || !blk.StateRootEnabled || blk.PrevStateRoot == w.roots[tipIdx]
	a.Wit = ownWitnessOK(&blk.Header, tip.NextConsensus, w.magic)
	a.Hid = "f"
	if hh == canon.Hash() {
		a.Hid = "c"
	}
	a.Free = blk.Version != canon.Version || blk.Nonce != canon.Nonce || blk.PrimaryIndex != canon.PrimaryIndex || blk.NextConsensus != canon.NextConsensus
	ctx := map[util.Uint256]string{}
	for _, tx := range canon.Transactions {
		ctx[tx.Hash()] = string(tx.Bytes())
	}
	seen := map[util.Uint256]bool{}
	rank := map[string]int{"none": 0, "mutual": 1, "wit_new": 2, "wit_same": 3, "state": 4, "mutual_evict": 5}
	a.Txdef = "none"
	up := func(c string) {
		if rank[c] > rank[a.Txdef] {
			a.Txdef = c
		}
	}
	for _, tx := range blk.Transactions {
		h := tx.Hash()
		if c, ok := of.inserted[h]; ok {
			up(c)
		} else if orig, ok := ctx[h]; !ok {
			up("wit_new")
		} else if orig != string(tx.Bytes()) {
			up("wit_same")
		}
		if seen[h] {
			up("mutual")
		}
		seen[h] = true
	}
	return a, nil
}

type jobResult struct {
	viol     []string // direct verdicts of scripted probes (class of the violated expectation)
	events   []map[string]any
	skipped  string
	infra    string
	panicked string
}

func (w *world) sceneHeight(state string, mid int) int {
	switch state {
	case "fresh":
		return 0
	case "epoch":
		return w.epoch
	}
	return mid
}

// runCase executes one case on a fresh node.
func (w *world) runCase(id string, c *caseIn, mid int) (jr jobResult) {
	r := rand.New(rand.NewSource(c.seed))
	h := w.sceneHeight(c.Case.State, mid)
	base := h + 1
	if c.Case.Via == "header" && c.Case.State == "hdr_ahead" {
		base = h + 3
	}
	var of *offer
	if c.rand {
		of = w.bitflip(base, r)
	} else {
		of = w.corrupt(base, c.Case.Kind, c.Case.Family, r)
	}
	if of == nil {
		jr.skipped = "not realisable here"
		return
	}
	blk, derr := unwire(of.raw, of.flag)
	if derr != nil {
		if !c.rand && c.Dec == "ok" {
			jr.infra = fmt.Sprintf("case %s %s/%s: constructed block does not decode: %v", id, c.Case.Kind, c.Case.Family, derr)
			return
		}
		jr.events = append(jr.events, map[string]any{"event": "undecodable", "id": id, "kind": c.Case.Kind})
		return
	}
	n, err := w.newNode(c.Case.State, h)
	if err != nil {
		jr.infra = fmt.Sprintf("case %s: %v", id, err)
		return
	}
	defer n.close()
	first := ""
	if c.Case.Kind == "badroot_next" {
		// first step of the two-step offer: the correct block (judged on its own node by the case "valid")
		gb, err := unwire(w.raws[h+1], w.srih)
		if err != nil {
			jr.infra = err.Error()
			return
		}
		func() {
			defer func() {
				if p := recover(); p != nil {
					jr.panicked = fmt.Sprint(p)
				}
			}()
			first = "rejected"
			if n.bc.AddBlock(gb) == nil {
				first = "accepted"
			}
		}()
		if jr.panicked != "" {
			return
		}
	}
	// the description is relative to the node's top block at the moment of the offer
	tipIdx := base - 1
	if c.Case.Via == "block" {
		tipIdx = int(n.bc.BlockHeight())
	}
	m, err := w.measure(blk, of, tipIdx)
	if err != nil {
		jr.infra = err.Error()
		return
	}
	// every third header offer is preceded by a probe: a headers message whose FIRST element sits at the node's current
	// header height but is not the header the node has there (made up, never signed), followed by a header linked to it and
	// signed by the validators the real chain designates - the batch continues a chain the node does not have and must be
	// refused without a trace
	if c.Case.Via == "header" && c.seed%3 == 0 {
		hh := int(n.bc.HeaderHeight())
		if hh >= 1 && hh+1 < len(w.blocks) {
			f := clone(w.blocks[hh])
			f.Timestamp++
			f.Nonce ^= 0x5a5a
			g := clone(w.blocks[hh+1])
			g.PrevHash = f.Hash()
			seal(g, w.signer[hh+1], w.magic)
			rf, e1 := wire(f)
			rg, e2 := wire(g)
			if e1 == nil && e2 == nil {
				bf, e1 := unwire(rf, w.srih)
				bg, e2 := unwire(rg, w.srih)
				if e1 == nil && e2 == nil {
					b0, err := n.snapshot()
					if err != nil {
						jr.infra = err.Error()
						return
					}
					var perr error
					func() {
						defer func() {
							if p := recover(); p != nil {
								jr.panicked = fmt.Sprint(p)
							}
						}()
						perr = n.bc.AddHeaders(&bf.Header, &bg.Header)
					}()
					if jr.panicked != "" {
						return
					}
					a0, err := n.snapshot()
					if err != nil {
						jr.infra = err.Error()
						return
					}
					if perr == nil || a0.hdrH != b0.hdrH || len(ledDiff(b0, a0)) > 0 || len(dbDiff(b0.db, a0.db, util.Uint256{})) > 0 {
						jr.viol = append(jr.viol, fmt.Sprintf("overlapping-fake-parent: AddHeaders([made-up header %d, header %d linked to it]) err=%v header height %d -> %d ledger diff %v db diff %v",
							hh, hh+1, perr, b0.hdrH, a0.hdrH, ledDiff(b0, a0), dbDiff(b0.db, a0.db, util.Uint256{})))
						return
					}
				}
			}
		}
	}
	before, err := n.snapshot()
	if err != nil {
		jr.infra = err.Error()
		return
	}
	// every other header offer is a BATCH of two: the offered header followed by a header that is linked to it and
	// signed by its designated validators (what a peer's headers message looks like); the follower can only be
	// recorded if the offered header was
	var follower *block.Block
	var followerHash util.Uint256
	if c.Case.Via == "header" && c.Case.Kind != "valid" && c.seed%2 == 0 && base+1 < len(w.blocks) && m.Hid != "c" {
		f := clone(w.blocks[base+1])
		f.PrevHash = blk.Hash()
		seal(f, w.signer[base+1], w.magic)
		if raw, err := wire(f); err == nil {
			if fb, err := unwire(raw, w.srih); err == nil {
				follower, followerHash = fb, fb.Hash()
			}
		}
	}
	var oerr error
	func() {
		defer func() {
			if p := recover(); p != nil {
				jr.panicked = fmt.Sprint(p)
			}
		}()
		if c.Case.Via == "header" && follower != nil {
			oerr = n.bc.AddHeaders(&blk.Header, &follower.Header)
		} else if c.Case.Via == "header" {
			oerr = n.bc.AddHeaders(&blk.Header)
		} else {
			oerr = n.bc.AddBlock(blk)
		}
	}()
	if jr.panicked != "" {
		return
	}
	after, err := n.snapshot()
	if err != nil {
		jr.infra = err.Error()
		return
	}
	offered := blk.Hash()
	acc := oerr == nil
	refEq := true
	if acc && c.Case.Via == "block" && m.Hid == "c" && after.blkH == before.blkH+1 {
		refEq = len(chainkit.Diff(chainkit.Compute(n.bc), w.digs[h+1])) == 0
	}
	msg := ""
	if oerr != nil {
		msg = oerr.Error()
		if len(msg) > 160 {
			msg = msg[:160]
		}
	}
	decl := c.Attrs
	if c.rand || c.Dec != "ok" || c.Case.Kind == "on_chain" || c.Case.Kind == "badroot_next" {
		decl = m
	}
	ev := map[string]any{"event": "offer", "id": id, "src": map[bool]string{true: "rand", false: "table"}[c.rand], "via": c.Case.Via,
		"state": c.Case.State, "srih": w.srih, "vt": w.vt, "kind": c.Case.Kind, "family": c.Case.Family, "world": w.id, "h": h, "first_step": first,
		"batch": follower != nil,
		"pre":   map[string]any{"blkH": int(before.blkH), "hdrs": n.ids(before, offered, followerHash)},
		"attrs": m, "decl": decl, "acc": acc, "err": errClass(oerr), "msg": msg,
		"pred": map[string]any{"acc": c.Pred.Acc, "stage": c.Pred.Stage, "hdr": c.Pred.Hdr, "has": !c.rand && c.Dec == "ok",
			"alt_acc": c.PredDesign.Acc, "alt_hdr": c.PredDesign.Hdr},
		"obs": map[string]any{"blk_plus": int(after.blkH) - int(before.blkH), "tip_is_offer": after.tip == offered,
			"hdrs_after": n.ids(after, offered, followerHash), "led_changed": ledDiff(before, after), "pool_changed": before.pool != after.pool,
			"db_changed": dbDiff(before.db, after.db, offered, followerHash), "ref_equal": refEq, "pool_size": n.pooled, "pool_variants": n.variants}}
	jr.events = append(jr.events, ev)
	if acc && c.Case.Via == "block" {
		return
	}
	// the correct block afterwards
	gb, err := unwire(w.raws[h+1], w.srih)
	if err != nil {
		jr.infra = err.Error()
		return
	}
	var gerr error
	func() {
		defer func() {
			if p := recover(); p != nil {
				jr.panicked = fmt.Sprint(p)
			}
		}()
		gerr = n.bc.AddBlock(gb)
	}()
	if jr.panicked != "" {
		return
	}
	var diff []string
	if gerr == nil {
		diff = chainkit.Diff(chainkit.Compute(n.bc), w.digs[h+1])
	}
	if diff == nil {
		diff = []string{}
	}
	gmsg := ""
	if gerr != nil {
		gmsg = gerr.Error()
		if len(gmsg) > 160 {
			gmsg = gmsg[:160]
		}
	}
	jr.events = append(jr.events, map[string]any{"event": "good", "id": id, "acc": gerr == nil, "err": errClass(gerr), "msg": gmsg,
		"ref_diff": diff, "height": int(n.bc.BlockHeight())})
	return
}

// bitflip flips one bit of the wire form of canonical block `base` (positions weighted towards header and witness).
func (w *world) bitflip(base int, r *rand.Rand) *offer {
	raw := append([]byte{}, w.raws[base]...)
	hd := clone(w.blocks[base])
	hd.Transactions = nil
	hraw, _ := wire(hd)
	hl := len(hraw) - 1
	var pos int
	switch r.Intn(4) {
	case 0:
		pos = r.Intn(hl) // header incl. its witness
	case 1:
		fixed := hl - len(hd.Script.InvocationScript) - len(hd.Script.VerificationScript) - 3
		pos = r.Intn(fixed) // hashed header fields
	default:
		pos = r.Intn(len(raw))
	}
	raw[pos] ^= 1 << uint(r.Intn(8))
	return &offer{raw: raw, flag: w.srih, inserted: map[util.Uint256]string{}, base: base, note: fmt.Sprintf("bit@%d", pos)}
}

func TestDriver(t *testing.T) {
	res := vh.NewResult()
	tr := vh.NewTrace("trace.ndjson")
	var cases []caseIn
	if err := vh.ReadJSON("cases.json", &cases); err != nil {
		t.Fatalf("no cases: %v", err)
	}
	nWorlds := vh.EnvInt("VERIF_WORLDS", 1)
	nRandom := vh.EnvInt("VERIF_RANDOM", 100)
	workers := vh.EnvInt("VERIF_WORKERS", 8)
	type job struct {
		id  string
		w   *world
		c   *caseIn
		mid int
	}
	wid := 0
	for wi := 0; wi < nWorlds; wi++ {
		for _, srih := range []bool{false, true} {
			for _, vt := range []bool{true, false} {
				var mine []*caseIn
				for i := range cases {
					if cases[i].Case.Srih == srih && cases[i].Case.Vt == vt {
						cc := cases[i]
						mine = append(mine, &cc)
					}
				}
				if len(mine) == 0 {
					continue
				}
				wr := vh.Rand(int64(7000 + wid))
				epoch := 7
				// 13: the block offered there (14) ends the second epoch - the first one at which elected committee members with
				// votes exist, so that NEO's PostPersist writes voters' rewards (and refreshes its in-memory cache of them)
				mid := []int{3, 4, 5, 6, 8, 9, 13, 13}[wr.Intn(8)]
				w := newWorld(t, wid, srih, vt, vh.Seed()*7919+int64(wid), []int{0, mid, epoch}, epoch, 17)
				wid++
				if w.refRejected != "" {
					res.Violate(map[string]any{"kind": "Complete", "via": "block", "class": "generated-valid-block-rejected"}, w.refRejected,
						map[string]any{"world": w.id, "srih": srih, "vt": vt, "seed": vh.Seed()})
					w.ref.Close()
					continue
				}
				var jobs []job
				for i, c := range mine {
					c.seed = wr.Int63()
					jobs = append(jobs, job{id: fmt.Sprintf("w%d-%d", w.id, i), w: w, c: c, mid: mid})
				}
				if vt {
					states := []string{"mid", "pool_has", "hdr_ahead", "epoch", "restarted"}
					for i := 0; i < nRandom; i++ {
						c := &caseIn{rand: true, seed: wr.Int63()}
						c.Case.Srih, c.Case.Vt, c.Case.Via, c.Case.State, c.Case.Kind, c.Case.Family = srih, vt, "block", states[wr.Intn(len(states))], "bitflip", "raw"
						jobs = append(jobs, job{id: fmt.Sprintf("w%d-r%d", w.id, i), w: w, c: c, mid: mid})
					}
				}
				out := make([]jobResult, len(jobs))
				var wg sync.WaitGroup
				ch := make(chan int)
				for k := 0; k < workers; k++ {
					wg.Add(1)
					go func() {
						defer wg.Done()
						for i := range ch {
							out[i] = jobs[i].w.runCase(jobs[i].id, jobs[i].c, jobs[i].mid)
						}
					}()
				}
				for i := range jobs {
					ch <- i
				}
				close(ch)
				wg.Wait()
				tr.Emit(map[string]any{"event": "init", "world": w.id, "srih": srih, "vt": vt, "mid": mid, "epoch": epoch})
				for i, o := range out {
					c := jobs[i].c
					if o.infra != "" {
						t.Fatalf("infrastructure: %s", o.infra)
					}
					if o.panicked != "" {
						res.Violate(map[string]any{"kind": "panic", "via": c.Case.Via, "class": c.Case.Kind},
							fmt.Sprintf("panic escaped AddBlock/AddHeaders: %s", o.panicked), map[string]any{"case": c.Case, "seed": vh.Seed(), "world": w.id})
						continue
					}
					for _, v := range o.viol {
						res.Violate(map[string]any{"kind": "RejectKeepsLedger", "via": "header", "class": "overlapping-fake-parent"}, v,
							map[string]any{"case": c.Case, "seed": vh.Seed(), "world": w.id})
					}
					if len(o.viol) > 0 {
						continue
					}
					res.Inc("overlap_probes", 0)
					if o.skipped != "" {
						res.Inc("cases_skipped", 1)
						res.Inc("skipped_"+c.Case.Kind, 1)
						continue
					}
					for _, ev := range o.events {
						tr.Emit(ev)
						if ev["event"] == "offer" {
							res.Count([]any{w.id, ev["h"], ev["src"], ev["via"], ev["state"], ev["srih"], ev["vt"], ev["kind"], ev["family"], ev["attrs"], ev["acc"], ev["err"], ev["obs"]})
							res.Inc("offers", 1)
							if obs, ok := ev["obs"].(map[string]any); ok {
								if v, ok := obs["pool_variants"].(int); ok && v > 0 {
									res.Inc("offers_with_witness_variants_pooled", 1)
								}
							}
							if ev["acc"].(bool) {
								res.Inc("offers_accepted", 1)
							}
							if len(res.Samples) < 3 && ev["kind"] != "valid" && i%97 == 5 {
								res.Sample(map[string]any{"state": ev["state"], "kind": ev["kind"], "family": ev["family"], "attrs": ev["attrs"], "accepted": ev["acc"], "error": ev["msg"], "observed": ev["obs"]})
							}
						} else if ev["event"] == "undecodable" {
							res.Inc("undecodable", 1)
						} else {
							res.Inc("good_offers", 1)
						}
					}
				}
				res.Traces++
				res.Inc("blocks_generated", len(w.blocks)-1)
				for k, v := range w.gen.Stats {
					res.Inc("tx_"+k, v)
				}
				w.ref.Close()
			}
		}
	}
	tr.Close()
	b, _ := json.Marshal(res.Stats)
	t.Log(string(b))
	if err := res.Write(); err != nil {
		t.Fatal(err)
	}
}
