// Package c06accept drives Blockchain.AddBlock / AddHeaders of the real node with corrupted variants of a valid next
// block (property C06). kit.go: block / transaction construction and the harness' OWN measurement of the abstract
// attributes of an offered block (index relation, link, time, Merkle root, witness), independent of blockchain.go.
package c06accept

import (
	"bytes"
	"crypto/sha256"
	"encoding/binary"
	"fmt"
	"slices"
	"testing"

	"verifharness/internal/chainkit"

	"github.com/nspcc-dev/neo-go/pkg/config/netmode"
	"github.com/nspcc-dev/neo-go/pkg/core"
	"github.com/nspcc-dev/neo-go/pkg/core/block"
	"github.com/nspcc-dev/neo-go/pkg/core/transaction"
	"github.com/nspcc-dev/neo-go/pkg/crypto/hash"
	"github.com/nspcc-dev/neo-go/pkg/crypto/keys"
	"github.com/nspcc-dev/neo-go/pkg/neotest"
	"github.com/nspcc-dev/neo-go/pkg/smartcontract"
	"github.com/nspcc-dev/neo-go/pkg/smartcontract/scparser"
	"github.com/nspcc-dev/neo-go/pkg/util"
	"github.com/nspcc-dev/neo-go/pkg/vm/opcode"
	"github.com/nspcc-dev/neo-go/pkg/wallet"
)

// sigSet is a consensus signer set (multisignature account of the validators designated by NextConsensus).
type sigSet struct {
	name string
	accs []*wallet.Account // sorted by public key, multisig-converted
	m    int
}

func newSigSet(name string, n int) *sigSet {
	priv := make([]*keys.PrivateKey, n)
	pubs := make(keys.PublicKeys, n)
	for i := range priv {
		priv[i] = chainkit.Key(fmt.Sprintf("%s-%d", name, i))
		pubs[i] = priv[i].PublicKey()
	}
	m := smartcontract.GetDefaultHonestNodeCount(n)
	var accs []*wallet.Account
	for _, p := range priv {
		a := wallet.NewAccountFromPrivateKey(p)
		if err := a.ConvertMultisig(m, slices.Clone(pubs)); err != nil {
			panic(err)
		}
		accs = append(accs, a)
	}
	slices.SortFunc(accs, func(a, b *wallet.Account) int { return a.PublicKey().Cmp(b.PublicKey()) })
	return &sigSet{name: name, accs: accs, m: m}
}

func stdSet(n *chainkit.Net) *sigSet {
	return &sigSet{name: "std", accs: slices.Clone(n.Validators), m: smartcontract.GetDefaultHonestNodeCount(len(n.Validators))}
}

func (s *sigSet) script() []byte         { return s.accs[0].Contract.Script }
func (s *sigSet) hash() util.Uint160     { return s.accs[0].Contract.ScriptHash() }
func (s *sigSet) signer() neotest.Signer { return neotest.NewMultiSigner(slices.Clone(s.accs)...) }

// sigs returns the individual signatures (in public key order) of all members.
func (s *sigSet) sigs(magic uint32, h hash.Hashable) [][]byte {
	var r [][]byte
	for _, a := range s.accs {
		r = append(r, a.PrivateKey().SignHashable(magic, h))
	}
	return r
}

func invocation(sigs [][]byte) []byte {
	var b []byte
	for _, s := range sigs {
		b = append(b, byte(opcode.PUSHDATA1), byte(len(s)))
		b = append(b, s...)
	}
	return b
}

// clone copies the exported content of a block (no cached hash); the transaction slice is copied, transactions shared.
func clone(b *block.Block) *block.Block {
	c := chainkit.CloneBlockNoCache(b)
	c.Transactions = slices.Clone(b.Transactions)
	c.Script = transaction.Witness{InvocationScript: slices.Clone(b.Script.InvocationScript), VerificationScript: slices.Clone(b.Script.VerificationScript)}
	return c
}

// seal signs b (whose hash must not be cached yet with other content) with the first m members of set.
func seal(b *block.Block, set *sigSet, magic uint32) *block.Block {
	b.Script.VerificationScript = set.script()
	b.Script.InvocationScript = invocation(set.sigs(magic, b)[:set.m])
	return b
}

// wire passes a block through its peer-to-peer encoding (fresh object, hash computed from the bytes).
func wire(b *block.Block) ([]byte, error) { return chainkit.EncodeBlock(b) }

func unwire(raw []byte, srFlag bool) (*block.Block, error) { return chainkit.DecodeBlock(raw, srFlag) }

// ---- the harness' own measurements -------------------------------------------------------------------------------

func dsha(b []byte) util.Uint256 {
	h1 := sha256.Sum256(b)
	h2 := sha256.Sum256(h1[:])
	return util.Uint256(h2)
}

// ownMerkle is the Merkle root definition (pairwise double SHA-256, last element paired with itself) written here
// independently of pkg/crypto/hash.
func ownMerkle(hs []util.Uint256) util.Uint256 {
	if len(hs) == 0 {
		return util.Uint256{}
	}
	lvl := slices.Clone(hs)
	for len(lvl) > 1 {
		var nxt []util.Uint256
		for i := 0; i < len(lvl); i += 2 {
			l, r := lvl[i], lvl[i]
			if i+1 < len(lvl) {
				r = lvl[i+1]
			}
			nxt = append(nxt, dsha(append(slices.Clone(l[:]), r[:]...)))
		}
		lvl = nxt
	}
	return lvl[0]
}

func txHashes(b *block.Block) []util.Uint256 {
	hs := make([]util.Uint256, len(b.Transactions))
	for i, tx := range b.Transactions {
		hs[i] = tx.Hash()
	}
	return hs
}

// ownHeaderHash recomputes the header hash from the exported fields (single SHA-256 of the hashable part).
func ownHeaderHash(b *block.Header) util.Uint256 {
	var buf bytes.Buffer
	le := binary.LittleEndian
	var u4 [4]byte
	var u8 [8]byte
	le.PutUint32(u4[:], b.Version)
	buf.Write(u4[:])
	buf.Write(b.PrevHash[:])
	buf.Write(b.MerkleRoot[:])
	le.PutUint64(u8[:], b.Timestamp)
	buf.Write(u8[:])
	le.PutUint64(u8[:], b.Nonce)
	buf.Write(u8[:])
	le.PutUint32(u4[:], b.Index)
	buf.Write(u4[:])
	buf.WriteByte(b.PrimaryIndex)
	buf.Write(b.NextConsensus[:])
	if b.StateRootEnabled {
		buf.Write(b.PrevStateRoot[:])
	}
	return util.Uint256(sha256.Sum256(buf.Bytes()))
}

// ownWitnessOK decides whether the header's witness is a correct M-of-N multisignature of the account `designated`
// over (magic, header hash): verification script hashes to the designated address, exactly M well-formed signatures,
// matched in public key order.
func ownWitnessOK(h *block.Header, designated util.Uint160, magic uint32) bool {
	vs := h.Script.VerificationScript
	if !hash.Hash160(vs).Equals(designated) {
		return false
	}
	m, pubsB, ok := scparser.ParseMultiSigContract(vs)
	if !ok {
		return false
	}
	inv := h.Script.InvocationScript
	var sigs [][]byte
	for len(inv) > 0 {
		if len(inv) < 66 || inv[0] != byte(opcode.PUSHDATA1) || inv[1] != 64 {
			return false
		}
		sigs = append(sigs, inv[2:66])
		inv = inv[66:]
	}
	if len(sigs) != m {
		return false
	}
	hh := ownHeaderHash(h)
	data := make([]byte, 4, 36)
	binary.LittleEndian.PutUint32(data, magic)
	data = append(data, hh[:]...)
	digest := sha256.Sum256(data)
	j := 0
	for _, s := range sigs {
		found := false
		for ; j < len(pubsB); j++ {
			pk, err := keys.NewPublicKeyFromBytes(pubsB[j], nil)
			if err != nil {
				return false
			}
			if pk.Verify(s, digest[:]) {
				found = true
				j++
				break
			}
		}
		if !found {
			return false
		}
	}
	return true
}

// ---- transactions ---------------------------------------------------------------------------------------------------

var nonceCtr uint32 = 0x60000000

type txOpt struct {
	vub      *uint32 // absolute; nil = height+10
	sysFee   int64   // 0 = 0.02 GAS
	extraNet int64   // added to the computed network fee (may be negative)
	netFee   *int64  // absolute override
	attrs    []transaction.Attribute
	script   []byte
	more     []neotest.Signer               // further signers after the sender
	mutate   func(*transaction.Transaction) // applied AFTER signing (breaks whatever it touches)
}

// craft builds and signs a transaction paid by sender. It never fails the test: problems show as nil.
func craft(t testing.TB, bc *core.Blockchain, magic uint32, sender neotest.Signer, o txOpt) (tx *transaction.Transaction) {
	defer func() {
		if r := recover(); r != nil {
			tx = nil
		}
	}()
	script := o.script
	if script == nil {
		script = []byte{byte(opcode.PUSH1), byte(opcode.DROP), byte(opcode.RET)}
	}
	sys := o.sysFee
	if sys == 0 {
		sys = 200_0000
	}
	tx = transaction.New(script, sys)
	nonceCtr++
	tx.Nonce = nonceCtr
	tx.ValidUntilBlock = bc.BlockHeight() + 10
	if o.vub != nil {
		tx.ValidUntilBlock = *o.vub
	}
	tx.Attributes = o.attrs
	signers := append([]neotest.Signer{sender}, o.more...)
	for _, s := range signers {
		tx.Signers = append(tx.Signers, transaction.Signer{Account: s.ScriptHash(), Scopes: transaction.CalledByEntry})
	}
	neotest.AddNetworkFee(t, bc, tx, signers...)
	tx.NetworkFee += 100_0000 + o.extraNet
	if o.netFee != nil {
		tx.NetworkFee = *o.netFee
	}
	for _, s := range signers {
		if err := s.SignTx(netmode.Magic(magic), tx); err != nil {
			return nil
		}
	}
	if o.mutate != nil {
		// re-create without the cached hash, then mutate
		raw := tx.Bytes()
		c, err := transaction.NewTransactionFromBytes(raw)
		if err != nil {
			return nil
		}
		o.mutate(c)
		raw = c.Bytes()
		c2, err := transaction.NewTransactionFromBytes(raw)
		if err != nil {
			return nil
		}
		return c2
	}
	return tx
}
