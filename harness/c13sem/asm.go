// Assembler for the decoded programs of spec/vmsem (instruction-index operands -> NeoVM bytecode).
// The opcode table is written from the NeoVM instruction set, not taken from pkg/vm/opcode.
package c13sem

import (
	"encoding/binary"
	"fmt"
)

// Ins is one decoded instruction as printed by VMEnum / VMSim.
type Ins struct {
	Op  string `json:"op"`
	B   []int  `json:"b,omitempty"`
	Gen []int  `json:"gen,omitempty"`
	Off *int   `json:"off,omitempty"`
	C   *int   `json:"c,omitempty"`
	F   *int   `json:"f,omitempty"`
	N   *int   `json:"n,omitempty"`
	L   *int   `json:"l,omitempty"`
	A   *int   `json:"a,omitempty"`
	I   *int   `json:"i,omitempty"`
	Ty  *int   `json:"ty,omitempty"`
}

type opInfo struct {
	code byte
	kind int
}

const (
	kNone   = iota
	kInt    // fixed-size immediate integer, size from the opcode
	kData1  // 1-byte length prefix
	kData2  // 2-byte length prefix
	kData4  // 4-byte length prefix
	kOff1   // 1-byte relative offset
	kOff4   // 4-byte relative offset
	kTry1   // two 1-byte offsets
	kTry4   // two 4-byte offsets
	kU8n    // one byte from field n
	kU8i    // one byte from field i
	kU8ty   // one byte from field ty
	kU8la   // two bytes: l, a
)

var ops = map[string]opInfo{
	"PUSHINT8": {0x00, kInt}, "PUSHINT16": {0x01, kInt}, "PUSHINT32": {0x02, kInt}, "PUSHINT64": {0x03, kInt},
	"PUSHINT128": {0x04, kInt}, "PUSHINT256": {0x05, kInt},
	"PUSHT": {0x08, kNone}, "PUSHF": {0x09, kNone}, "PUSHA": {0x0A, kOff4}, "PUSHNULL": {0x0B, kNone},
	"PUSHDATA1": {0x0C, kData1}, "PUSHDATA2": {0x0D, kData2}, "PUSHDATA4": {0x0E, kData4},
	"PUSHM1": {0x0F, kNone}, "PUSH0": {0x10, kNone}, "PUSH1": {0x11, kNone}, "PUSH2": {0x12, kNone}, "PUSH3": {0x13, kNone},
	"PUSH4": {0x14, kNone}, "PUSH5": {0x15, kNone}, "PUSH6": {0x16, kNone}, "PUSH7": {0x17, kNone}, "PUSH8": {0x18, kNone},
	"PUSH9": {0x19, kNone}, "PUSH10": {0x1A, kNone}, "PUSH11": {0x1B, kNone}, "PUSH12": {0x1C, kNone}, "PUSH13": {0x1D, kNone},
	"PUSH14": {0x1E, kNone}, "PUSH15": {0x1F, kNone}, "PUSH16": {0x20, kNone},
	"NOP": {0x21, kNone},
	"JMP": {0x22, kOff1}, "JMPL": {0x23, kOff4}, "JMPIF": {0x24, kOff1}, "JMPIFL": {0x25, kOff4},
	"JMPIFNOT": {0x26, kOff1}, "JMPIFNOTL": {0x27, kOff4}, "JMPEQ": {0x28, kOff1}, "JMPEQL": {0x29, kOff4},
	"JMPNE": {0x2A, kOff1}, "JMPNEL": {0x2B, kOff4}, "JMPGT": {0x2C, kOff1}, "JMPGTL": {0x2D, kOff4},
	"JMPGE": {0x2E, kOff1}, "JMPGEL": {0x2F, kOff4}, "JMPLT": {0x30, kOff1}, "JMPLTL": {0x31, kOff4},
	"JMPLE": {0x32, kOff1}, "JMPLEL": {0x33, kOff4}, "CALL": {0x34, kOff1}, "CALLL": {0x35, kOff4},
	"CALLA": {0x36, kNone},
	"ABORT": {0x38, kNone}, "ASSERT": {0x39, kNone}, "THROW": {0x3A, kNone},
	"TRY": {0x3B, kTry1}, "TRYL": {0x3C, kTry4}, "ENDTRY": {0x3D, kOff1}, "ENDTRYL": {0x3E, kOff4}, "ENDFINALLY": {0x3F, kNone},
	"RET": {0x40, kNone},
	"DEPTH": {0x43, kNone}, "DROP": {0x45, kNone}, "NIP": {0x46, kNone}, "XDROP": {0x48, kNone}, "CLEAR": {0x49, kNone},
	"DUP": {0x4A, kNone}, "OVER": {0x4B, kNone}, "PICK": {0x4D, kNone}, "TUCK": {0x4E, kNone}, "SWAP": {0x50, kNone},
	"ROT": {0x51, kNone}, "ROLL": {0x52, kNone}, "REVERSE3": {0x53, kNone}, "REVERSE4": {0x54, kNone}, "REVERSEN": {0x55, kNone},
	"INITSSLOT": {0x56, kU8n}, "INITSLOT": {0x57, kU8la},
	"LDSFLD0": {0x58, kNone}, "LDSFLD1": {0x59, kNone}, "LDSFLD2": {0x5A, kNone}, "LDSFLD3": {0x5B, kNone},
	"LDSFLD4": {0x5C, kNone}, "LDSFLD5": {0x5D, kNone}, "LDSFLD6": {0x5E, kNone}, "LDSFLD": {0x5F, kU8i},
	"STSFLD0": {0x60, kNone}, "STSFLD1": {0x61, kNone}, "STSFLD2": {0x62, kNone}, "STSFLD3": {0x63, kNone},
	"STSFLD4": {0x64, kNone}, "STSFLD5": {0x65, kNone}, "STSFLD6": {0x66, kNone}, "STSFLD": {0x67, kU8i},
	"LDLOC0": {0x68, kNone}, "LDLOC1": {0x69, kNone}, "LDLOC2": {0x6A, kNone}, "LDLOC3": {0x6B, kNone},
	"LDLOC4": {0x6C, kNone}, "LDLOC5": {0x6D, kNone}, "LDLOC6": {0x6E, kNone}, "LDLOC": {0x6F, kU8i},
	"STLOC0": {0x70, kNone}, "STLOC1": {0x71, kNone}, "STLOC2": {0x72, kNone}, "STLOC3": {0x73, kNone},
	"STLOC4": {0x74, kNone}, "STLOC5": {0x75, kNone}, "STLOC6": {0x76, kNone}, "STLOC": {0x77, kU8i},
	"LDARG0": {0x78, kNone}, "LDARG1": {0x79, kNone}, "LDARG2": {0x7A, kNone}, "LDARG3": {0x7B, kNone},
	"LDARG4": {0x7C, kNone}, "LDARG5": {0x7D, kNone}, "LDARG6": {0x7E, kNone}, "LDARG": {0x7F, kU8i},
	"STARG0": {0x80, kNone}, "STARG1": {0x81, kNone}, "STARG2": {0x82, kNone}, "STARG3": {0x83, kNone},
	"STARG4": {0x84, kNone}, "STARG5": {0x85, kNone}, "STARG6": {0x86, kNone}, "STARG": {0x87, kU8i},
	"NEWBUFFER": {0x88, kNone}, "MEMCPY": {0x89, kNone}, "CAT": {0x8B, kNone}, "SUBSTR": {0x8C, kNone},
	"LEFT": {0x8D, kNone}, "RIGHT": {0x8E, kNone},
	"INVERT": {0x90, kNone}, "AND": {0x91, kNone}, "OR": {0x92, kNone}, "XOR": {0x93, kNone},
	"EQUAL": {0x97, kNone}, "NOTEQUAL": {0x98, kNone},
	"SIGN": {0x99, kNone}, "ABS": {0x9A, kNone}, "NEGATE": {0x9B, kNone}, "INC": {0x9C, kNone}, "DEC": {0x9D, kNone},
	"ADD": {0x9E, kNone}, "SUB": {0x9F, kNone}, "MUL": {0xA0, kNone}, "DIV": {0xA1, kNone}, "MOD": {0xA2, kNone},
	"POW": {0xA3, kNone}, "SQRT": {0xA4, kNone}, "MODMUL": {0xA5, kNone}, "MODPOW": {0xA6, kNone},
	"SHL": {0xA8, kNone}, "SHR": {0xA9, kNone}, "NOT": {0xAA, kNone}, "BOOLAND": {0xAB, kNone}, "BOOLOR": {0xAC, kNone},
	"NZ": {0xB1, kNone}, "NUMEQUAL": {0xB3, kNone}, "NUMNOTEQUAL": {0xB4, kNone}, "LT": {0xB5, kNone}, "LE": {0xB6, kNone},
	"GT": {0xB7, kNone}, "GE": {0xB8, kNone}, "MIN": {0xB9, kNone}, "MAX": {0xBA, kNone}, "WITHIN": {0xBB, kNone},
	"PACKMAP": {0xBE, kNone}, "PACKSTRUCT": {0xBF, kNone}, "PACK": {0xC0, kNone}, "UNPACK": {0xC1, kNone},
	"NEWARRAY0": {0xC2, kNone}, "NEWARRAY": {0xC3, kNone}, "NEWARRAYT": {0xC4, kU8ty}, "NEWSTRUCT0": {0xC5, kNone},
	"NEWSTRUCT": {0xC6, kNone}, "NEWMAP": {0xC8, kNone},
	"SIZE": {0xCA, kNone}, "HASKEY": {0xCB, kNone}, "KEYS": {0xCC, kNone}, "VALUES": {0xCD, kNone}, "PICKITEM": {0xCE, kNone},
	"APPEND": {0xCF, kNone}, "SETITEM": {0xD0, kNone}, "REVERSEITEMS": {0xD1, kNone}, "REMOVE": {0xD2, kNone},
	"CLEARITEMS": {0xD3, kNone}, "POPITEM": {0xD4, kNone},
	"ISNULL": {0xD8, kNone}, "ISTYPE": {0xD9, kU8ty}, "CONVERT": {0xDB, kU8ty},
	"ABORTMSG": {0xE0, kNone}, "ASSERTMSG": {0xE1, kNone},
}

var intSize = map[string]int{"PUSHINT8": 1, "PUSHINT16": 2, "PUSHINT32": 4, "PUSHINT64": 8, "PUSHINT128": 16, "PUSHINT256": 32}

// GenBytes is the shared definition of generated byte strings: byte i (1-based) = (i*mul + add) mod 256.
func GenBytes(g []int) []byte {
	b := make([]byte, g[0])
	for i := 1; i <= g[0]; i++ {
		b[i-1] = byte((i*g[1] + g[2]) % 256)
	}
	return b
}

func toBytes(xs []int) []byte {
	b := make([]byte, len(xs))
	for i, x := range xs {
		b[i] = byte(x)
	}
	return b
}

func (in *Ins) data() []byte {
	if in.Gen != nil {
		return GenBytes(in.Gen)
	}
	return toBytes(in.B)
}

func (in *Ins) size() (int, error) {
	info, ok := ops[in.Op]
	if !ok {
		return 0, fmt.Errorf("unknown op %q", in.Op)
	}
	switch info.kind {
	case kNone:
		return 1, nil
	case kInt:
		return 1 + intSize[in.Op], nil
	case kData1:
		return 2 + len(in.data()), nil
	case kData2:
		return 3 + len(in.data()), nil
	case kData4:
		return 5 + len(in.data()), nil
	case kOff1, kU8n, kU8i, kU8ty:
		return 2, nil
	case kOff4:
		return 5, nil
	case kTry1, kU8la:
		return 3, nil
	case kTry4:
		return 9, nil
	}
	return 0, fmt.Errorf("bad kind")
}

// Assemble returns the script and the byte offset of every instruction index 1..n+1 (offs[n+1] = len(script)).
func Assemble(prog []Ins) (script []byte, offs []int, err error) {
	n := len(prog)
	offs = make([]int, n+2)
	pos := 0
	for i := range prog {
		offs[i+1] = pos
		sz, e := prog[i].size()
		if e != nil {
			return nil, nil, e
		}
		pos += sz
	}
	offs[n+1] = pos
	total := pos
	// byte position of an instruction index, also for indices outside the script (kept outside)
	at := func(idx int) int {
		switch {
		case idx < 1:
			return idx - 1
		case idx > n+1:
			return total + (idx - (n + 1))
		default:
			return offs[idx]
		}
	}
	rel := func(cur int, off *int) (int, error) {
		if off == nil {
			return 0, fmt.Errorf("missing offset operand at %d", cur)
		}
		if *off == 0 {
			return 0, nil
		}
		return at(cur+*off) - offs[cur], nil
	}
	put1 := func(v int) error {
		if v < -128 || v > 127 {
			return fmt.Errorf("offset %d does not fit the short form", v)
		}
		script = append(script, byte(int8(v)))
		return nil
	}
	put4 := func(v int) {
		var b [4]byte
		binary.LittleEndian.PutUint32(b[:], uint32(int32(v)))
		script = append(script, b[:]...)
	}
	u8 := func(p *int) error {
		if p == nil || *p < 0 || *p > 255 {
			return fmt.Errorf("bad byte operand")
		}
		script = append(script, byte(*p))
		return nil
	}
	for i := range prog {
		in := &prog[i]
		info := ops[in.Op]
		cur := i + 1
		script = append(script, info.code)
		switch info.kind {
		case kInt:
			d := in.data()
			if len(d) != intSize[in.Op] {
				return nil, nil, fmt.Errorf("%s with %d bytes", in.Op, len(d))
			}
			script = append(script, d...)
		case kData1:
			d := in.data()
			if len(d) > 255 {
				return nil, nil, fmt.Errorf("PUSHDATA1 too long")
			}
			script = append(script, byte(len(d)))
			script = append(script, d...)
		case kData2:
			d := in.data()
			if len(d) > 65535 {
				return nil, nil, fmt.Errorf("PUSHDATA2 too long")
			}
			script = append(script, byte(len(d)), byte(len(d)>>8))
			script = append(script, d...)
		case kData4:
			d := in.data()
			put4(len(d))
			script = append(script, d...)
		case kOff1:
			r, e := rel(cur, in.Off)
			if e == nil {
				e = put1(r)
			}
			if e != nil {
				return nil, nil, e
			}
		case kOff4:
			r, e := rel(cur, in.Off)
			if e != nil {
				return nil, nil, e
			}
			put4(r)
		case kTry1, kTry4:
			c, e := rel(cur, in.C)
			if e != nil {
				return nil, nil, e
			}
			f, e := rel(cur, in.F)
			if e != nil {
				return nil, nil, e
			}
			if info.kind == kTry1 {
				if e = put1(c); e == nil {
					e = put1(f)
				}
				if e != nil {
					return nil, nil, e
				}
			} else {
				put4(c)
				put4(f)
			}
		case kU8n:
			err = u8(in.N)
		case kU8i:
			err = u8(in.I)
		case kU8ty:
			err = u8(in.Ty)
		case kU8la:
			if err = u8(in.L); err == nil {
				err = u8(in.A)
			}
		}
		if err != nil {
			return nil, nil, fmt.Errorf("%s: %w", in.Op, err)
		}
	}
	if len(script) != total {
		return nil, nil, fmt.Errorf("assembler size mismatch")
	}
	return script, offs, nil
}
