// Driver for C13: runs the real VM on every (script, initial stack) case evaluated by TLC on the executable
// specification spec/vmsem and compares HALT/FAULT and the final stack (types, values, aliasing of
// reference items); every case is executed twice in fresh VMs and stack, state and gas must coincide.
package c13sem

import (
	"encoding/json"
	"fmt"
	"math/big"
	"os"
	"path/filepath"
	"strings"
	"testing"

	"verifharness/internal/vh"

	"github.com/nspcc-dev/neo-go/pkg/core/fee"
	"github.com/nspcc-dev/neo-go/pkg/vm"
	"github.com/nspcc-dev/neo-go/pkg/vm/opcode"
	"github.com/nspcc-dev/neo-go/pkg/vm/stackitem"
)

// ---------------------------------------------------------------- the specification's JSON vocabulary

type Big struct {
	Neg bool  `json:"neg"`
	Mag []int `json:"mag"`
}

func (b *Big) Int() *big.Int {
	r := new(big.Int)
	for i := len(b.Mag) - 1; i >= 0; i-- {
		r.Lsh(r, 15)
		r.Add(r, big.NewInt(int64(b.Mag[i])))
	}
	if b.Neg {
		r.Neg(r)
	}
	return r
}

func bigFrom(x *big.Int) *Big {
	b := &Big{Neg: x.Sign() < 0, Mag: []int{}}
	a := new(big.Int).Abs(x)
	m := big.NewInt(32768)
	for a.Sign() != 0 {
		r := new(big.Int)
		a.DivMod(a, m, r)
		b.Mag = append(b.Mag, int(r.Int64()))
	}
	return b
}

// Long is the projection of a byte string longer than 64 bytes.
type Long struct {
	Len  int   `json:"len"`
	Head []int `json:"head"`
	Tail []int `json:"tail"`
	Ck   int   `json:"ck"`
}

func project(b []byte) *Long {
	n := len(b)
	ck := 0
	for k := 0; k <= 127; k++ {
		ck = (ck + int(b[(k*(n-1))/127])*(k+1)) % 65521
	}
	return &Long{Len: n, Head: ints(b[:16]), Tail: ints(b[n-16:]), Ck: ck}
}

func ints(b []byte) []int {
	r := make([]int, len(b))
	for i := range b {
		r[i] = int(b[i])
	}
	return r
}

// Val is a value as printed by the specification (final stack / heap contents) and, with Gen / Items /
// Keys / Vals, an initial-stack literal.
type Val struct {
	T     string `json:"t"`
	N     *Big   `json:"n,omitempty"`
	B     *bool  `json:"b,omitempty"`
	S     []int  `json:"s,omitempty"`
	Long  *Long  `json:"long,omitempty"`
	R     int    `json:"r,omitempty"`
	P     int    `json:"p,omitempty"`
	Opq   bool   `json:"opq,omitempty"`
	Gen   []int  `json:"gen,omitempty"`
	Items []Val  `json:"items,omitempty"`
	Keys  []Val  `json:"keys,omitempty"`
	Vals  []Val  `json:"vals,omitempty"`
}

type Obj struct {
	K     string `json:"k"`
	S     []int  `json:"s,omitempty"`
	Long  *Long  `json:"long,omitempty"`
	Items []Val  `json:"items,omitempty"`
	Keys  []Val  `json:"keys,omitempty"`
	Vals  []Val  `json:"vals,omitempty"`
}

type Case struct {
	ID    int    `json:"id"`
	Fam   string `json:"fam"`
	Prog  []Ins  `json:"prog"`
	Init  []Val  `json:"init"`
	St    string `json:"st"`
	Opq   bool   `json:"opq"`
	Quirk string `json:"quirk"`
	Stack []Val  `json:"stack"`
	Heap  []Obj  `json:"heap"`
}

// ---------------------------------------------------------------- building real items from literals

func (l *Val) bytes() []byte {
	if l.Gen != nil {
		return GenBytes(l.Gen)
	}
	return toBytes(l.S)
}

func build(l *Val) (stackitem.Item, error) {
	switch l.T {
	case "Integer":
		return stackitem.NewBigInteger(l.N.Int()), nil
	case "Boolean":
		return stackitem.NewBool(*l.B), nil
	case "Null":
		return stackitem.Null{}, nil
	case "ByteString":
		return stackitem.NewByteArray(l.bytes()), nil
	case "Buffer":
		return stackitem.NewBuffer(l.bytes()), nil
	case "Array", "Struct":
		items := make([]stackitem.Item, len(l.Items))
		for i := range l.Items {
			it, err := build(&l.Items[i])
			if err != nil {
				return nil, err
			}
			items[i] = it
		}
		if l.T == "Array" {
			return stackitem.NewArray(items), nil
		}
		return stackitem.NewStruct(items), nil
	case "Map":
		m := stackitem.NewMap()
		for i := range l.Keys {
			k, err := build(&l.Keys[i])
			if err != nil {
				return nil, err
			}
			v, err := build(&l.Vals[i])
			if err != nil {
				return nil, err
			}
			m.Add(k, v)
		}
		return m, nil
	}
	return nil, fmt.Errorf("unknown literal type %q", l.T)
}

// ---------------------------------------------------------------- running

type outcome struct {
	state string // HALT / FAULT
	items []stackitem.Item
	gas   int64
	err   string
	panic any
}

// gas: the execution fee factor of the network (30) in the VM's pico units; the limit bounds runaway
// executions of a broken VM (no claimed case comes near it).
const (
	gasLimit    = 5_0000_0000 // datoshi
	baseExecFee = 30 * vm.ExecFeeFactorMultiplier
)

func run(script []byte, init []Val) (o outcome) {
	defer func() {
		if r := recover(); r != nil {
			o.panic = r
			o.state = "PANIC"
		}
	}()
	v := vm.New()
	v.SetPriceGetter(func(op opcode.Opcode, _ []byte) int64 { return fee.Opcode(baseExecFee, op) })
	v.SetGasLimit(gasLimit)
	v.Load(script)
	for i := range init {
		it, err := build(&init[i])
		if err != nil {
			panic("harness: " + err.Error())
		}
		v.Estack().PushItem(it)
	}
	err := v.Run()
	if err != nil {
		o.err = err.Error()
	}
	switch {
	case v.HasHalted() && err == nil:
		o.state = "HALT"
		o.items = v.Estack().ToArray()
	case v.HasFailed():
		o.state = "FAULT"
	default:
		o.state = "STATE:" + v.State().String()
	}
	o.gas = v.GasConsumed()
	return o
}

// ---------------------------------------------------------------- comparing with the specified outcome

type cmp struct {
	heap   []Obj
	offs   []int
	e2o    map[int]stackitem.Item
	o2e    map[stackitem.Item]int
	budget int
}

func bytesMatch(s []int, lg *Long, got []byte) string {
	if lg != nil {
		if len(got) <= 64 {
			return fmt.Sprintf("length %d, expected %d", len(got), lg.Len)
		}
		p := project(got)
		if p.Len != lg.Len || p.Ck != lg.Ck || fmt.Sprint(p.Head) != fmt.Sprint(lg.Head) || fmt.Sprint(p.Tail) != fmt.Sprint(lg.Tail) {
			return fmt.Sprintf("long bytes differ: got len %d ck %d, expected len %d ck %d", p.Len, p.Ck, lg.Len, lg.Ck)
		}
		return ""
	}
	if len(s) != len(got) {
		return fmt.Sprintf("bytes length %d, expected %d", len(got), len(s))
	}
	for i := range s {
		if byte(s[i]) != got[i] {
			return fmt.Sprintf("byte %d is %d, expected %d", i, got[i], s[i])
		}
	}
	return ""
}

func (c *cmp) seq(exp []Val, got []stackitem.Item, what string) string {
	if len(exp) != len(got) {
		return fmt.Sprintf("%s has %d items, expected %d", what, len(got), len(exp))
	}
	for i := range exp {
		if d := c.val(&exp[i], got[i]); d != "" {
			return fmt.Sprintf("%s[%d]: %s", what, i, d)
		}
	}
	return ""
}

// val returns "" if the observed item matches the specified value.
func (c *cmp) val(e *Val, got stackitem.Item) string {
	c.budget--
	if c.budget < 0 {
		return "comparison budget exhausted"
	}
	if got == nil {
		return "nil item"
	}
	if got.Type().String() != typeName(e.T) {
		return fmt.Sprintf("type %s, expected %s", got.Type(), e.T)
	}
	switch e.T {
	case "Integer":
		g := got.Value().(*big.Int)
		if g.Cmp(e.N.Int()) != 0 {
			return fmt.Sprintf("integer %s, expected %s", g, e.N.Int())
		}
	case "Boolean":
		if got.Value().(bool) != *e.B {
			return fmt.Sprintf("boolean %v, expected %v", got.Value(), *e.B)
		}
	case "Null":
	case "ByteString":
		if e.Opq {
			return ""
		}
		return bytesMatch(e.S, e.Long, got.Value().([]byte))
	case "Pointer":
		p := got.(*stackitem.Pointer).Position()
		if e.P < 1 || e.P >= len(c.offs) || c.offs[e.P] != p {
			return fmt.Sprintf("pointer to byte %d, expected instruction %d", p, e.P)
		}
	case "Buffer", "Array", "Struct", "Map":
		// reference items: the correspondence between specified references and real objects must be a bijection
		if o, ok := c.e2o[e.R]; ok {
			if o != got {
				return fmt.Sprintf("reference %d aliases a different object than specified", e.R)
			}
			return ""
		}
		if r, ok := c.o2e[got]; ok {
			return fmt.Sprintf("object is shared with reference %d but the specification has a distinct object %d", r, e.R)
		}
		c.e2o[e.R] = got
		c.o2e[got] = e.R
		if e.R < 1 || e.R > len(c.heap) {
			return "dangling specified reference"
		}
		obj := &c.heap[e.R-1]
		switch e.T {
		case "Buffer":
			return bytesMatch(obj.S, obj.Long, got.Value().([]byte))
		case "Array", "Struct":
			return c.seq(obj.Items, got.Value().([]stackitem.Item), e.T)
		case "Map":
			els := got.Value().([]stackitem.MapElement)
			if len(els) != len(obj.Keys) {
				return fmt.Sprintf("map has %d entries, expected %d", len(els), len(obj.Keys))
			}
			for i := range els {
				if d := c.val(&obj.Keys[i], els[i].Key); d != "" {
					return fmt.Sprintf("map key %d: %s", i, d)
				}
				if d := c.val(&obj.Vals[i], els[i].Value); d != "" {
					return fmt.Sprintf("map value %d: %s", i, d)
				}
			}
		}
	default:
		return "unknown specified type " + e.T
	}
	return ""
}

func typeName(t string) string {
	if t == "Null" {
		return "Any"
	}
	return t
}

func compare(cs *Case, offs []int, o outcome) string {
	if o.state != cs.St {
		return fmt.Sprintf("state %s (%s), expected %s", o.state, o.err, cs.St)
	}
	if cs.St != "HALT" {
		return ""
	}
	c := &cmp{heap: cs.Heap, offs: offs, e2o: map[int]stackitem.Item{}, o2e: map[stackitem.Item]int{}, budget: 200000}
	return c.seq(cs.Stack, o.items, "stack")
}

// ---------------------------------------------------------------- projecting a real outcome (determinism, traces)

type proj struct {
	ids map[stackitem.Item]int
	sb  strings.Builder
	n   int
}

func (p *proj) item(it stackitem.Item) {
	p.n++
	if p.n > 100000 {
		p.sb.WriteString("...")
		return
	}
	switch t := it.(type) {
	case *stackitem.BigInteger:
		fmt.Fprintf(&p.sb, "I%s ", t.Big())
	case stackitem.Bool:
		fmt.Fprintf(&p.sb, "B%v ", bool(t))
	case stackitem.Null:
		p.sb.WriteString("N ")
	case *stackitem.ByteArray:
		b := t.Value().([]byte)
		if len(b) > 64 {
			fmt.Fprintf(&p.sb, "S%v ", *project(b))
		} else {
			fmt.Fprintf(&p.sb, "S%x ", b)
		}
	case *stackitem.Pointer:
		fmt.Fprintf(&p.sb, "P%d ", t.Position())
	default:
		if id, ok := p.ids[it]; ok {
			fmt.Fprintf(&p.sb, "@%d ", id)
			return
		}
		id := len(p.ids) + 1
		p.ids[it] = id
		switch t := it.(type) {
		case *stackitem.Buffer:
			b := t.Value().([]byte)
			if len(b) > 64 {
				fmt.Fprintf(&p.sb, "U#%d%v ", id, *project(b))
			} else {
				fmt.Fprintf(&p.sb, "U#%d:%x ", id, b)
			}
		case *stackitem.Array, *stackitem.Struct:
			fmt.Fprintf(&p.sb, "%s#%d[ ", it.Type(), id)
			for _, x := range it.Value().([]stackitem.Item) {
				p.item(x)
			}
			p.sb.WriteString("] ")
		case *stackitem.Map:
			fmt.Fprintf(&p.sb, "M#%d{ ", id)
			for _, e := range t.Value().([]stackitem.MapElement) {
				p.item(e.Key)
				p.item(e.Value)
			}
			p.sb.WriteString("} ")
		default:
			fmt.Fprintf(&p.sb, "?%s ", it.Type())
		}
	}
}

func projectOutcome(o outcome) string {
	p := &proj{ids: map[stackitem.Item]int{}}
	fmt.Fprintf(&p.sb, "%s gas=%d | ", o.state, o.gas)
	for _, it := range o.items {
		p.item(it)
	}
	return p.sb.String()
}

// ---------------------------------------------------------------- the driver

func focus(cs *Case) string {
	if len(cs.Prog) == 1 {
		return cs.Prog[0].Op
	}
	return cs.Fam
}

func readCases(name string) ([]Case, error) {
	f, err := os.Open(filepath.Join(vh.InDir(), name))
	if err != nil {
		return nil, err
	}
	defer f.Close()
	dec := json.NewDecoder(f)
	var out []Case
	for dec.More() {
		var c Case
		if err := dec.Decode(&c); err != nil {
			return nil, err
		}
		out = append(out, c)
	}
	return out, nil
}

func TestDriver(t *testing.T) {
	res := vh.NewResult()
	cases, err := readCases("cases.ndjson")
	if err != nil {
		t.Logf("no cases: %v", err)
	}
	selftest := os.Getenv("VERIF_SELFTEST") == "1"
	var flagged []int
	for i := range cases {
		cs := &cases[i]
		if cs.St != "HALT" && cs.St != "FAULT" {
			res.Inc("unclaimed", 1)
			continue
		}
		script, offs, err := Assemble(cs.Prog)
		if err != nil {
			t.Fatalf("case %d (%s): cannot assemble: %v", cs.ID, cs.Fam, err)
		}
		o1 := run(script, cs.Init)
		o2 := run(script, cs.Init)
		res.Count([]any{cs.Fam, cs.Prog, cs.Init})
		res.Inc("cases_"+cs.St, 1)
		replay := map[string]any{"id": cs.ID, "fam": cs.Fam, "prog": cs.Prog, "init": cs.Init, "script": fmt.Sprintf("%x", clip(script)),
			"expected": map[string]any{"st": cs.St, "stack": cs.Stack, "heap": cs.Heap}, "observed": clipS(projectOutcome(o1)), "error": o1.err}
		if o1.panic != nil {
			if selftest {
				flagged = append(flagged, cs.ID)
				continue
			}
			res.Violate(map[string]any{"kind": "panic", "op": focus(cs)}, fmt.Sprintf("Go panic escaped VM.Run: %v", o1.panic), replay)
			continue
		}
		p1, p2 := projectOutcome(o1), projectOutcome(o2)
		if p1 != p2 {
			if selftest {
				flagged = append(flagged, cs.ID)
				continue
			}
			replay["second_run"] = clipS(p2)
			res.Violate(map[string]any{"kind": "nondeterminism", "op": focus(cs)}, "two runs of the same script in fresh VMs differ in stack, state or gas", replay)
			continue
		}
		if d := compare(cs, offs, o1); d != "" {
			switch {
			case selftest:
				flagged = append(flagged, cs.ID)
			case cs.Quirk != "":
				// specified from memory of the reference only: reported, never a verdict
				res.AddDrift(map[string]any{"quirk": cs.Quirk, "diff": d, "prog": cs.Prog, "init": cs.Init, "expected": cs.St, "observed": o1.state})
				res.Inc("quirk_"+cs.Quirk, 1)
			default:
				res.Violate(map[string]any{"kind": "semantics", "op": focus(cs), "expected": cs.St, "observed": o1.state},
					"real VM disagrees with the executable specification: "+d, replay)
			}
			continue
		}
		if cs.Quirk != "" {
			res.Inc("quirk_agree_"+cs.Quirk, 1)
		}
		if i%997 == 0 {
			res.Sample(map[string]any{"fam": cs.Fam, "prog": cs.Prog, "init": cs.Init, "specified": cs.St, "observed": clipS(p1)})
		}
	}
	if selftest {
		res.Stats["flagged"] = flagged
	}
	res.Inc("cases_total", len(cases))
	if err := res.Write(); err != nil {
		t.Fatal(err)
	}
}

func clip(b []byte) []byte {
	if len(b) > 300 {
		return b[:300]
	}
	return b
}

func clipS(s string) string {
	if len(s) > 2000 {
		return s[:2000] + "..."
	}
	return s
}
