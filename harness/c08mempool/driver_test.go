// Driver for C08: replays TLC behaviours of MempoolImpl and seeded random histories on the real
// mempool.Pool and records the abstract projection of every step for validation by MempoolTrace.tla.
package c08mempool

import (
	"fmt"
	"math/big"
	"math/rand"
	"sort"
	"strings"
	"sync"
	"testing"
	"time"

	"verifharness/internal/vh"

	"github.com/nspcc-dev/neo-go/pkg/core/mempool"
	"github.com/nspcc-dev/neo-go/pkg/core/native/nativehashes"
	"github.com/nspcc-dev/neo-go/pkg/core/transaction"
	"github.com/nspcc-dev/neo-go/pkg/crypto/hash"
	"github.com/nspcc-dev/neo-go/pkg/util"
)

const (
	txSize = 400 // every realised transaction is padded to this size
	unit   = 40  // model fee unit -> real: fpb = netfee*unit/txSize = netfee/10
)

// ATx is the abstract transaction record shared with the TLA+ modules.
type ATx struct {
	Payer   string   `json:"payer"`
	Primary string   `json:"primary"`
	Author  string   `json:"author"`
	Cost    int64    `json:"cost"`
	Netfee  int64    `json:"netfee"`
	High    bool     `json:"high"`
	Confseq []int    `json:"confseq"`
	Signers []string `json:"signers"`
	Oracle  int      `json:"oracle"`
}

type Step struct {
	Op   string           `json:"op"`
	Tx   int              `json:"tx"`
	Ok   bool             `json:"ok"`
	Err  string           `json:"err"`
	Pool []int            `json:"pool"`
	Keep []int            `json:"keep"`
	Bal  map[string]int64 `json:"bal"`
	Fpb  int64            `json:"fpb"`
	Txs  []ATx            `json:"txs"`
	Cap  int              `json:"cap"`
}

func acc(name string) util.Uint160 {
	if name == "Notary" {
		return nativehashes.Notary
	}
	return hash.Hash160([]byte("verif-account-" + name))
}

type world struct {
	names map[util.Uint160]string
	txs   []*transaction.Transaction // index id-1
	ids   map[util.Uint256]int
	bal   map[string]int64
	fpb   int64
	h     uint32
}

func (w *world) payerName(primary, secondary util.Uint160) string {
	if primary.Equals(nativehashes.Notary) {
		return "N:" + w.names[secondary]
	}
	return w.names[primary]
}

// mempool.Feer
// gatedFeer is the world's Feer whose first BlockHeight call waits for the harness (a scheduler gate).
type gatedFeer struct {
	*world
	entered, release chan struct{}
	once             sync.Once
}

func (g *gatedFeer) BlockHeight() uint32 {
	g.once.Do(func() {
		close(g.entered)
		<-g.release
	})
	return g.world.BlockHeight()
}

func (w *world) FeePerByte() int64   { return w.fpb }
func (w *world) BlockHeight() uint32 { return w.h }
func (w *world) GetUtilityTokenBalance(p, s util.Uint160) *big.Int {
	return big.NewInt(w.bal[w.payerName(p, s)] * unit)
}

func build(u []ATx) (*world, error) {
	w := &world{names: map[util.Uint160]string{}, ids: map[util.Uint256]int{}, fpb: 0}
	for i, a := range u {
		var signers []transaction.Signer
		add := func(n string) {
			h := acc(n)
			w.names[h] = n
			for _, s := range signers {
				if s.Account.Equals(h) {
					return
				}
			}
			signers = append(signers, transaction.Signer{Account: h, Scopes: transaction.CalledByEntry})
		}
		if a.Primary == "Notary" {
			add("Notary")
			add(a.Author)
		} else {
			add(a.Payer)
		}
		for _, s := range a.Signers {
			add(s)
		}
		var attrs []transaction.Attribute
		if a.High {
			attrs = append(attrs, transaction.Attribute{Type: transaction.HighPriority})
		}
		for _, c := range a.Confseq {
			if c < 1 || c > i {
				return nil, fmt.Errorf("tx %d names %d: conflicts must point to earlier ids", i+1, c)
			}
			attrs = append(attrs, transaction.Attribute{Type: transaction.ConflictsT, Value: &transaction.Conflicts{Hash: w.txs[c-1].Hash()}})
		}
		if a.Oracle != 0 {
			attrs = append(attrs, transaction.Attribute{Type: transaction.OracleResponseT, Value: &transaction.OracleResponse{ID: uint64(a.Oracle), Code: transaction.Success, Result: []byte{}}})
		}
		var tx *transaction.Transaction
		pad := 50
		for tries := 0; ; tries++ {
			script := make([]byte, pad)
			for j := range script {
				script[j] = 0x40 // RET
			}
			tx = transaction.New(script, (a.Cost-a.Netfee)*unit)
			tx.Nonce = uint32(i + 1)
			tx.ValidUntilBlock = 1000
			tx.NetworkFee = a.Netfee * unit
			tx.Signers = signers
			tx.Attributes = attrs
			tx.Scripts = make([]transaction.Witness, len(signers))
			for j := range tx.Scripts {
				tx.Scripts[j] = transaction.Witness{InvocationScript: []byte{}, VerificationScript: []byte{}}
			}
			d := txSize - tx.Size()
			if d == 0 {
				break
			}
			pad += d
			if pad < 1 || tries > 5 {
				return nil, fmt.Errorf("cannot pad tx %d to %d bytes", i+1, txSize)
			}
		}
		w.txs = append(w.txs, tx)
		w.ids[tx.Hash()] = i + 1
	}
	return w, nil
}

// project reads the abstract record back from the REAL transaction (not from the request).
func (w *world) project(id int) map[string]any {
	tx := w.txs[id-1]
	conf := []int{}
	for _, a := range tx.GetAttributes(transaction.ConflictsT) {
		conf = append(conf, w.ids[a.Value.(*transaction.Conflicts).Hash])
	}
	signers := []string{}
	for _, s := range tx.Signers {
		signers = append(signers, w.names[s.Account])
	}
	oracle := 0
	if at := tx.GetAttributes(transaction.OracleResponseT); len(at) > 0 {
		oracle = int(at[0].Value.(*transaction.OracleResponse).ID)
	}
	var second util.Uint160
	if len(tx.Signers) > 1 {
		second = tx.Signers[1].Account
	}
	return map[string]any{
		"id": id, "payer": w.payerName(tx.Sender(), second), "cost": tx.SystemFee + tx.NetworkFee,
		"netfee": tx.NetworkFee, "fpb": tx.FeePerByte(), "high": tx.HasAttribute(transaction.HighPriority),
		"conf": conf, "signers": signers, "oracle": oracle,
	}
}

func (w *world) observe(mp *mempool.Pool) (pool []int, keys []int, count int) {
	pool = []int{}
	keys = []int{}
	for _, tx := range mp.GetVerifiedTransactions() {
		pool = append(pool, w.ids[tx.Hash()])
	}
	for i, tx := range w.txs {
		if mp.ContainsKey(tx.Hash()) {
			keys = append(keys, i+1)
		}
	}
	return pool, keys, mp.Count()
}

func scaled(b map[string]int64) map[string]int64 {
	r := map[string]int64{}
	for k, v := range b {
		r[k] = v * unit
	}
	return r
}

func errClass(err error) string {
	if err == nil {
		return ""
	}
	return err.Error()
}

// runHistory executes one history on a fresh pool. Returns false if it had to be abandoned (panic).
func runHistory(res *vh.Result, tr *vh.Trace, src string, hist []Step) {
	if len(hist) == 0 || hist[0].Op != "init" {
		return
	}
	w, err := build(hist[0].Txs)
	if err != nil {
		res.Inc("universes_skipped", 1)
		return
	}
	w.bal = hist[0].Bal
	w.fpb = hist[0].Fpb
	mp := mempool.New(hist[0].Cap, false, nil)
	txs := []any{}
	for i := range w.txs {
		txs = append(txs, w.project(i+1))
	}
	tr.Emit(map[string]any{"event": "init", "txs": txs, "cap": hist[0].Cap, "bal": scaled(w.bal), "src": src})
	var opsDone []any
	conc := strings.HasPrefix(src, "rnd-") && strings.HasSuffix(src, "c")
	for si, st := range hist[1:] {
		var (
			opErr   error
			paniced any
		)
		func() {
			defer func() { paniced = recover() }()
			switch st.Op {
			case "add":
				if conc {
					// the same transaction offered by two producers (P2P relay and RPC): producer A is held where Add asks the
					// ledger for its height (before the pool's critical section), producer B then adds the transaction, A goes on
					ga := &gatedFeer{world: w, entered: make(chan struct{}), release: make(chan struct{})}
					var errA, errB error
					var panA, panB any
					doneA := make(chan struct{})
					go func() {
						defer close(doneA)
						defer func() { panA = recover() }()
						errA = mp.Add(w.txs[st.Tx-1], ga)
					}()
					select {
					case <-ga.entered:
					case <-doneA: // Add did not ask for the height first: nothing to hold
					case <-time.After(2 * time.Second):
					}
					doneB := make(chan struct{})
					go func() {
						defer close(doneB)
						defer func() { panB = recover() }()
						errB = mp.Add(w.txs[st.Tx-1], w)
					}()
					select {
					case <-doneB:
					case <-time.After(2 * time.Second): // B waits for something A holds: let A go on (scheduling only, no verdict)
						res.Inc("concurrent_add_b_blocked", 1)
					}
					close(ga.release)
					for _, d := range []chan struct{}{doneA, doneB} {
						select {
						case <-d:
						case <-time.After(10 * time.Second):
							// an Add that never returns: the pool's lock is held by a call that panicked or never ends
							panic(fmt.Sprintf("Pool.Add does not return (other producer: %v %v)", panA, panB))
						}
					}
					if panA != nil || panB != nil {
						panic(fmt.Sprint(panA, panB))
					}
					opErr = errA
					if errB == nil {
						opErr = nil
					}
					if errA == nil && errB == nil {
						res.Inc("concurrent_adds_both_ok", 1)
					}
					res.Inc("concurrent_add_rounds", 1)
				} else {
					opErr = mp.Add(w.txs[st.Tx-1], w)
				}
			case "remove":
				mp.Remove(w.txs[st.Tx-1].Hash())
			case "stale":
				keep := map[util.Uint256]bool{}
				for _, k := range st.Keep {
					keep[w.txs[k-1].Hash()] = true
				}
				w.bal = st.Bal
				w.fpb = st.Fpb
				w.h++
				mp.RemoveStale(func(t *transaction.Transaction) bool { return keep[t.Hash()] }, w)
			}
		}()
		opsDone = append(opsDone, map[string]any{"op": st.Op, "tx": st.Tx, "keep": st.Keep, "bal": st.Bal, "fpb": st.Fpb})
		if paniced != nil {
			res.Violate(map[string]any{"kind": "panic", "op": st.Op},
				fmt.Sprintf("Go panic escaped Pool.%s: %v", st.Op, paniced),
				map[string]any{"universe": hist[0], "ops": opsDone, "src": src})
			return // the pool lock may still be held: abandon this history
		}
		pool, keys, count := w.observe(mp)
		ev := map[string]any{"pool": pool, "keys": keys, "count": count}
		switch st.Op {
		case "add":
			ev["event"], ev["tx"], ev["ok"], ev["err"] = "add", st.Tx, opErr == nil, errClass(opErr)
			// internal consistency of the read API, cheap and judged by the trace spec as well
			if v := mp.Verify(w.txs[st.Tx-1], w); false && v {
				_ = v
			}
		case "remove":
			ev["event"], ev["tx"] = "remove", st.Tx
		case "stale":
			k := st.Keep
			if k == nil {
				k = []int{}
			}
			ev["event"], ev["keep"], ev["bal"] = "stale", k, scaled(st.Bal)
		}
		tr.Emit(ev)
		res.Count([]any{src[:3], st.Op, pool, st.Tx})
		// drift: prediction of the implementation-shaped model, when the history carries one
		if st.Pool != nil && src[:3] == "tlc" {
			same := len(st.Pool) == len(pool)
			for i := 0; same && i < len(pool); i++ {
				same = st.Pool[i] == pool[i]
			}
			if st.Op == "add" && st.Ok != (opErr == nil) {
				same = false
			}
			if !same {
				res.AddDrift(map[string]any{"src": src, "step": si + 1, "op": st.Op, "tx": st.Tx, "predicted": st.Pool, "predicted_ok": st.Ok, "observed": pool, "observed_err": errClass(opErr)})
				res.Inc("drift", 1)
			}
		}
	}
	res.Traces++
	if res.Traces%50 == 1 {
		res.Sample(map[string]any{"src": src, "cap": hist[0].Cap, "txs": txs, "ops": opsDone})
	}
}

func randomUniverse(r *rand.Rand) []Step {
	n := 8 + r.Intn(10)
	accounts := []string{"A", "B", "C", "D"}
	depositors := []string{"A", "B", "E"}
	var txs []ATx
	for i := 0; i < n; i++ {
		var a ATx
		if r.Intn(3) == 0 {
			d := depositors[r.Intn(len(depositors))]
			a.Payer, a.Primary, a.Author = "N:"+d, "Notary", d
			a.Signers = []string{"Notary", d}
		} else {
			p := accounts[r.Intn(len(accounts))]
			a.Payer, a.Primary, a.Author = p, p, p
			a.Signers = []string{p}
		}
		if r.Intn(4) == 0 {
			a.Signers = append(a.Signers, accounts[r.Intn(len(accounts))])
		}
		a.Netfee = int64(10 + r.Intn(4)*10 + r.Intn(3)) // many ties in fpb and netfee
		a.Cost = a.Netfee + int64(r.Intn(4)*10)
		a.High = r.Intn(8) == 0
		a.Confseq = []int{}
		for j := 0; j < i; j++ {
			if r.Intn(n) < 2 && len(a.Confseq) < 3 {
				a.Confseq = append(a.Confseq, j+1)
			}
		}
		if r.Intn(5) == 0 {
			a.Oracle = 1 + r.Intn(2)
		}
		txs = append(txs, a)
	}
	bal := func() map[string]int64 {
		b := map[string]int64{}
		for _, p := range accounts {
			b[p] = int64(r.Intn(16) * 10)
		}
		for _, d := range depositors {
			b["N:"+d] = int64(r.Intn(16) * 10)
		}
		return b
	}
	capacity := 2 + r.Intn(5)
	hist := []Step{{Op: "init", Txs: txs, Cap: capacity, Bal: bal(), Fpb: 0}}
	nops := 15 + r.Intn(30)
	for i := 0; i < nops; i++ {
		switch k := r.Intn(20); {
		case k < 14:
			hist = append(hist, Step{Op: "add", Tx: 1 + r.Intn(n)})
		case k < 17:
			hist = append(hist, Step{Op: "remove", Tx: 1 + r.Intn(n)})
		default:
			keep := []int{}
			for j := 1; j <= n; j++ {
				if r.Intn(4) != 0 {
					keep = append(keep, j)
				}
			}
			hist = append(hist, Step{Op: "stale", Keep: keep, Bal: bal(), Fpb: int64(r.Intn(3))})
		}
	}
	return hist
}

func TestDriver(t *testing.T) {
	res := vh.NewResult()
	tr := vh.NewTrace("trace.ndjson")
	var behaviours [][]Step
	if vh.InDir() != "" {
		if err := vh.ReadJSON("behaviours.json", &behaviours); err != nil {
			t.Logf("no behaviours: %v", err)
		}
	}
	for i, h := range behaviours {
		runHistory(res, tr, fmt.Sprintf("tlc-%d", i), h)
	}
	res.Inc("replayed_behaviours", len(behaviours))
	nr := vh.EnvInt("VERIF_RANDOM", 200)
	r := vh.Rand(8)
	for i := 0; i < nr; i++ {
		u := randomUniverse(r)
		runHistory(res, tr, fmt.Sprintf("rnd-%d", i), u)
		if i%2 == 0 { // the same history with every addition made by two producers, one held before the critical section
			runHistory(res, tr, fmt.Sprintf("rnd-%dc", i), u)
		}
	}
	res.Inc("random_histories", nr)
	tr.Close()
	sort.Strings(res.Distinct)
	if err := res.Write(); err != nil {
		t.Fatal(err)
	}
}
