module verifharness

go 1.25.0

require github.com/nspcc-dev/neo-go v0.121.0

require (
	github.com/decred/dcrd/crypto/ripemd160 v1.0.2 // indirect
	github.com/decred/dcrd/dcrec/secp256k1/v4 v4.4.1 // indirect
	github.com/hashicorp/golang-lru/v2 v2.0.7 // indirect
	github.com/holiman/uint256 v1.3.2 // indirect
	github.com/mr-tron/base58 v1.2.0 // indirect
	github.com/nspcc-dev/neofs-sdk-go v1.0.0-rc.21 // indirect
	github.com/nspcc-dev/rfc6979 v0.2.4 // indirect
	golang.org/x/text v0.37.0 // indirect
	google.golang.org/protobuf v1.36.11 // indirect
	gopkg.in/yaml.v3 v3.0.1 // indirect
)

replace github.com/nspcc-dev/neo-go => /repo
