// Package c04events binds spec/events (the node's EVENT STREAM as a function of the accepted blocks) to the real code:
// real core.Blockchains fed with histgen histories, real subscriptions (SubscribeFor* / UnsubscribeFrom* of
// core.Blockchain, SubscribeForTransactions of the node's mempool.Pool), spec-generated schedules of subscribe /
// unsubscribe / add block / offer a rejected block / add headers only / pool a transaction, and gated episodes in which
// subscribe / unsubscribe / a second AddBlock run WHILE the dispatcher is in the middle of a block's fan-out.
//
// world.go: one canonical chain (reference node + generator), the wire forms of its blocks, corrupted offers and the
// harness' own pool transactions.
package c04events

import (
	"fmt"
	"math/rand"
	"testing"

	"verifharness/internal/chainkit"
	"verifharness/internal/histgen"

	"github.com/nspcc-dev/neo-go/pkg/config"
	"github.com/nspcc-dev/neo-go/pkg/config/netmode"
	"github.com/nspcc-dev/neo-go/pkg/core"
	"github.com/nspcc-dev/neo-go/pkg/core/block"
	"github.com/nspcc-dev/neo-go/pkg/core/transaction"
	"github.com/nspcc-dev/neo-go/pkg/neotest"
	"github.com/nspcc-dev/neo-go/pkg/vm/opcode"
)

// PoolCap is the capacity of the node's memory pool in every run (small: eviction at capacity must happen).
const PoolCap = 5

type world struct {
	t      testing.TB
	id     int
	net    *chainkit.Net
	srih   bool
	ref    *core.Blockchain
	gen    *histgen.Gen
	blocks []*block.Block // canonical block i (0 = genesis)
	raws   [][]byte
	rnd    *rand.Rand
	nonce  uint32
	faults int // transactions of the chain that FAULTed with notifications recorded before the fault
}

func (w *world) protocol(c *config.Blockchain) { c.StateRootInHeader = w.srih }

// newWorld generates n blocks on a fresh reference chain.
func newWorld(t testing.TB, id int, srih bool, seed int64, n, maxTx int) (*world, error) {
	w := &world{t: t, id: id, net: chainkit.NewNet(5, 3), srih: srih, rnd: rand.New(rand.NewSource(seed ^ 0x5eed)), nonce: 0x70000000}
	var err error
	if w.ref, err = w.net.NewChain(nil, w.protocol); err != nil {
		return nil, err
	}
	chainkit.Start(w.ref)
	w.gen = histgen.New(t, w.net, w.ref, seed, 8)
	// the kinds this extension is about: faults after a notification, try/catch around a failing callee, plain
	// notifications, transfers (NEP-17 events), deployments (Deploy events), oracle traffic
	w.gen.Weights["kvfail"] = 9
	w.gen.Weights["kvtry"] = 7
	w.gen.Weights["notify"] = 6
	w.gen.Weights["deploy"] = 4
	w.gen.Weights["gas"] = 12
	g, err := w.ref.GetBlock(w.ref.GetHeaderHash(0))
	if err != nil {
		return nil, err
	}
	if err := w.push(g); err != nil {
		return nil, err
	}
	for i := 0; i < n; i++ {
		b, err := w.gen.NextBlock(maxTx)
		if err != nil {
			return nil, err
		}
		if err := w.push(b); err != nil {
			return nil, err
		}
	}
	return w, nil
}

func (w *world) push(b *block.Block) error {
	raw, err := chainkit.EncodeBlock(b)
	if err != nil {
		return err
	}
	w.blocks = append(w.blocks, b)
	w.raws = append(w.raws, raw)
	return nil
}

func (w *world) close() { w.ref.Close() }

// fresh returns canonical block i as a peer would deliver it (new object, nothing cached or shared).
func (w *world) fresh(i int) *block.Block {
	b, err := chainkit.DecodeBlock(w.raws[i], w.srih)
	if err != nil {
		panic(err)
	}
	return b
}

// newSUT opens the node under test: same protocol, memory pool of PoolCap entries with subscriptions enabled.
func (w *world) newSUT() (*core.Blockchain, error) {
	bc, err := w.net.NewChain(nil, func(c *config.Blockchain) {
		w.protocol(c)
		c.MempoolSubscriptionsEnabled = true
		c.MemPoolSize = PoolCap
	})
	if err != nil {
		return nil, err
	}
	// Blockchain.Run starts the pool's dispatcher AFTER the chain's one; starting it here (idempotent) makes sure that
	// it runs before the first pool subscription (a subscription before that moment is silently ignored).
	bc.GetMemPool().RunSubscriptions()
	chainkit.Start(bc)
	return bc, nil
}

// plainTx builds a small valid-looking transaction of one of the generator's funded accounts for the SUT's pool only
// (it never gets into a block). nil if it cannot be built.
func (w *world) plainTx(bc *core.Blockchain, signer neotest.Signer, extraNet int64, vub uint32, attrs []transaction.Attribute) (tx *transaction.Transaction) {
	defer func() {
		if r := recover(); r != nil {
			tx = nil
		}
	}()
	tx = transaction.New([]byte{byte(opcode.PUSH1), byte(opcode.DROP), byte(opcode.RET)}, 200_0000)
	w.nonce++
	tx.Nonce = w.nonce
	tx.ValidUntilBlock = vub
	tx.Attributes = attrs
	tx.Signers = []transaction.Signer{{Account: signer.ScriptHash(), Scopes: transaction.CalledByEntry}}
	neotest.AddNetworkFee(w.t, bc, tx, signer)
	tx.NetworkFee += 100_0000 + extraNet
	if err := signer.SignTx(netmode.Magic(w.net.Magic), tx); err != nil {
		return nil
	}
	return tx
}

// offer is a block the node must refuse.
type offer struct {
	kind    string
	blk     *block.Block
	headers []*block.Header // added (header-only path) before the block is offered
	note    string
}

// reject builds the corrupted offer of the given kind on top of SUT height h (nil if it cannot be built there).
//
//	badsig     the valid next block with one bit of a validator's signature flipped
//	future     block h+2
//	dup        block h, which is on the chain already
//	badmerkle  the valid next header with a different transaction list (Merkle root not recomputed)
//	resealed   the valid next block plus an EXPIRED transaction, Merkle root recomputed, re-signed by the validators
//	           (only transaction verification can refuse it; its header stays recorded: the run ends)
//	late       StateRootInHeader worlds: header h+1 and a header h+2 with a wrong PrevStateRoot (validly signed) are
//	           known; the valid block h+1 is executed completely and refused at the very end of storeBlock
//	           (the run ends)
func (w *world) reject(kind string, sut *core.Blockchain, h int) *offer {
	n := len(w.blocks) - 1
	switch kind {
	case "badsig":
		if h+1 > n {
			return nil
		}
		b := w.fresh(h + 1)
		inv := b.Script.InvocationScript
		if len(inv) < 10 {
			return nil
		}
		inv[5+w.rnd.Intn(len(inv)-6)] ^= 0x10
		return &offer{kind: kind, blk: b}
	case "future":
		if h+2 > n {
			return nil
		}
		return &offer{kind: kind, blk: w.fresh(h + 2)}
	case "dup":
		if h < 1 {
			return nil
		}
		return &offer{kind: kind, blk: w.fresh(h)}
	case "badmerkle":
		if h+1 > n {
			return nil
		}
		b := w.fresh(h + 1)
		if len(b.Transactions) > 0 {
			b.Transactions = b.Transactions[:len(b.Transactions)-1]
		} else {
			b.Transactions = append(b.Transactions, w.fresh(1).Transactions[0])
		}
		return &offer{kind: kind, blk: b}
	case "resealed":
		if h+1 > n {
			return nil
		}
		bad := w.plainTx(sut, w.gen.Accts[w.rnd.Intn(len(w.gen.Accts))], 0, uint32(h), nil) // expired
		if bad == nil {
			return nil
		}
		c := chainkit.CloneBlockNoCache(w.fresh(h + 1))
		c.Transactions = append(append([]*transaction.Transaction{}, c.Transactions...), bad)
		c = w.net.Reseal(c)
		raw, err := chainkit.EncodeBlock(c)
		if err != nil {
			return nil
		}
		b, err := chainkit.DecodeBlock(raw, w.srih)
		if err != nil {
			return nil
		}
		return &offer{kind: kind, blk: b}
	case "late":
		if !w.srih || h+2 > n {
			return nil
		}
		c := chainkit.CloneBlockNoCache(w.fresh(h + 2))
		c.PrevStateRoot[3] ^= 0x40
		c = w.net.Reseal(c)
		raw, err := chainkit.EncodeBlock(c)
		if err != nil {
			return nil
		}
		b2, err := chainkit.DecodeBlock(raw, w.srih)
		if err != nil {
			return nil
		}
		return &offer{kind: kind, blk: w.fresh(h + 1), headers: []*block.Header{&w.fresh(h + 1).Header, &b2.Header}}
	}
	panic(fmt.Sprintf("unknown rejection kind %q", kind))
}
