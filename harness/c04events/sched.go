package c04events

import "math/rand"

// randomSchedule is the seeded generator of longer schedules over the same step language as spec/events/EventsSim.tla
// (larger universes: more blocks, more steps, all ten buffered subscribers).
func randomSchedule(rnd *rand.Rand, nblocks int, srih bool, length int) []Op {
	ops := []Op{{Op: "init", N: nblocks, Srih: srih}}
	h, hdr := 0, 0
	active := map[string]bool{}
	pick := func(want bool) []string {
		var out []string
		for _, s := range SubIDs {
			if active[s] == want {
				out = append(out, s)
			}
		}
		rnd.Shuffle(len(out), func(i, j int) { out[i], out[j] = out[j], out[i] })
		return out
	}
	poolKinds := []string{"next", "next", "next", "next2", "lo", "lo", "hi", "hi", "short", "bad", "dup", "conflict"}
	rejKinds := []string{"badsig", "future", "dup", "badmerkle"}
	// start with a few subscribers so that early blocks are observed by buffered subscribers too
	for _, s := range pick(false)[:2+rnd.Intn(4)] {
		ops = append(ops, Op{Op: "sub", S: s})
		active[s] = true
	}
	for len(ops) < length && h < nblocks {
		switch x := rnd.Intn(100); {
		case x < 28:
			ops = append(ops, Op{Op: "add"})
			h++
			hdr = max(hdr, h)
		case x < 38:
			if c := pick(false); len(c) > 0 {
				ops = append(ops, Op{Op: "sub", S: c[0]})
				active[c[0]] = true
			}
		case x < 45:
			if c := pick(true); len(c) > 0 {
				ops = append(ops, Op{Op: "unsub", S: c[0]})
				active[c[0]] = false
			}
		case x < 49:
			if hdr < nblocks {
				k := 1 + rnd.Intn(2)
				ops = append(ops, Op{Op: "hdr", N: k})
				hdr = min(nblocks, hdr+k)
			}
		case x < 58:
			k := rejKinds[rnd.Intn(len(rejKinds))]
			ops = append(ops, Op{Op: "rej", Kind: k})
			if k == "badmerkle" {
				hdr = max(hdr, min(nblocks, h+1))
			}
		case x < 80:
			ops = append(ops, Op{Op: "pool", Kind: poolKinds[rnd.Intn(len(poolKinds))]})
		case x < 83:
			ops = append(ops, Op{Op: []string{"msub", "munsub"}[rnd.Intn(2)]})
		default:
			e := Op{Op: "epi", Pos: rnd.Intn(4), Second: rnd.Intn(3) != 0 && h+2 <= nblocks}
			if c := pick(false); len(c) > 0 {
				e.Join = c[:rnd.Intn(min(3, len(c))+1)]
			}
			if c := pick(true); len(c) > 0 {
				e.Leave = c[:rnd.Intn(min(3, len(c))+1)]
			}
			ops = append(ops, e)
			for _, s := range e.Join {
				active[s] = true
			}
			for _, s := range e.Leave {
				active[s] = false
			}
			h++
			if e.Second {
				h++
			}
			hdr = max(hdr, h)
		}
	}
	// a terminal rejection at the end of some schedules (the node is left with a header no valid block matches)
	if h == hdr && h+2 <= nblocks {
		switch rnd.Intn(4) {
		case 0:
			ops = append(ops, Op{Op: "rej", Kind: "resealed"})
		case 1, 2:
			if srih {
				ops = append(ops, Op{Op: "rej", Kind: "late"})
			}
		}
	}
	return ops
}
