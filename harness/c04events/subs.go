package c04events

import (
	"bytes"
	"crypto/sha256"
	"encoding/hex"
	"encoding/json"
	"fmt"
	"runtime"
	"strings"
	"sync"
	"sync/atomic"
	"time"

	"verifharness/internal/chainkit"

	"github.com/nspcc-dev/neo-go/pkg/core"
	"github.com/nspcc-dev/neo-go/pkg/core/block"
	"github.com/nspcc-dev/neo-go/pkg/core/state"
	"github.com/nspcc-dev/neo-go/pkg/core/transaction"
	"github.com/nspcc-dev/neo-go/pkg/util"
	"github.com/nspcc-dev/neo-go/pkg/vm/stackitem"
)

// Item is one delivered (or stored) element of the event stream, projected to what the specification compares:
// kind (E execution, N notification, T transaction, H header, B block), container / own hash, digest of the content.
// HH is the chain height the serial observer read at the moment of receipt (-1 where not sampled).
type Item struct {
	K  string `json:"k"`
	C  string `json:"c"`
	D  string `json:"d"`
	HH int    `json:"hh"`
}

func dg(parts ...[]byte) string {
	h := sha256.New()
	for _, p := range parts {
		h.Write(p)
		h.Write([]byte{0})
	}
	return hex.EncodeToString(h.Sum(nil)[:6])
}

func short(h util.Uint256) string { return h.StringLE()[:12] }

// execItem: container, trigger, VM state, gas, stack, exception, notifications (contract, name, payload), field by field
// (the JSON form of the whole object distinguishes a nil from an empty notification list - "notifications":null for the
// object handed to subscribers, [] for the one decoded from storage -, which is an encoding artefact, not a difference).
func execItem(a *state.AppExecResult) Item {
	parts := [][]byte{a.Container.BytesBE(), []byte(a.Trigger.String()), []byte(a.VMState.String()),
		[]byte(fmt.Sprint(a.GasConsumed)), []byte(a.FaultException), []byte(fmt.Sprint(len(a.Stack), len(a.Events)))}
	for _, it := range a.Stack {
		b, err := stackitem.ToJSONWithTypes(it)
		if err != nil {
			b = []byte("error: " + err.Error())
		}
		parts = append(parts, b)
	}
	for i := range a.Events {
		b, err := json.Marshal(&a.Events[i])
		if err != nil {
			b = []byte("ERR:" + err.Error())
		}
		parts = append(parts, b)
	}
	return Item{K: "E", C: short(a.Container), D: dg(parts...), HH: -1}
}

func noteItem(container util.Uint256, ev *state.NotificationEvent) Item {
	b, err := json.Marshal(ev)
	if err != nil {
		b = []byte("ERR:" + err.Error())
	}
	return Item{K: "N", C: short(container), D: dg(b), HH: -1}
}

func txItem(tx *transaction.Transaction) Item {
	return Item{K: "T", C: short(tx.Hash()), D: dg(tx.Bytes()), HH: -1}
}

func hdrBytes(h *block.Header) []byte {
	b := &block.Block{Header: *h}
	raw, err := chainkit.EncodeBlock(b) // header (with witness) + empty transaction list
	if err != nil {
		return []byte("ERR:" + err.Error())
	}
	return raw
}

func hdrItem(h *block.Header) Item {
	return Item{K: "H", C: short(h.Hash()), D: dg(hdrBytes(h), []byte(fmt.Sprint(h.Index))), HH: -1}
}

func blkItem(b *block.Block) Item {
	raw, err := chainkit.EncodeBlock(b)
	if err != nil {
		raw = []byte("ERR:" + err.Error())
	}
	return Item{K: "B", C: short(b.Hash()), D: dg(raw, []byte(fmt.Sprint(b.Index))), HH: -1}
}

// BufCap is the capacity of a buffered subscriber channel. A subscriber that does not read blocks the dispatcher (and
// through it AddBlock): the harness reads buffered channels only at quiescent points, so the buffer must hold
// everything one step can produce (a block of the generated histories yields < 200 items).
const BufCap = 1 << 13

// sub is one buffered subscriber of one kind.
type sub struct {
	id     string
	kind   byte
	chE    chan *state.AppExecResult
	chN    chan *state.ContainedNotificationEvent
	chT    chan *transaction.Transaction
	chH    chan *block.Header
	chB    chan *block.Block
	active bool
}

func newSub(id string, capacity int) *sub {
	s := &sub{id: id, kind: id[0]}
	switch s.kind {
	case 'E', 'G':
		s.kind = 'E'
		s.chE = make(chan *state.AppExecResult, capacity)
	case 'N':
		s.chN = make(chan *state.ContainedNotificationEvent, capacity)
	case 'T':
		s.chT = make(chan *transaction.Transaction, capacity)
	case 'H':
		s.chH = make(chan *block.Header, capacity)
	case 'B':
		s.chB = make(chan *block.Block, capacity)
	default:
		panic("bad subscriber id " + id)
	}
	return s
}

func (s *sub) subscribe(bc *core.Blockchain) {
	switch s.kind {
	case 'E':
		bc.SubscribeForExecutions(s.chE)
	case 'N':
		bc.SubscribeForNotifications(s.chN)
	case 'T':
		bc.SubscribeForTransactions(s.chT)
	case 'H':
		bc.SubscribeForHeadersOfAddedBlocks(s.chH)
	case 'B':
		bc.SubscribeForBlocks(s.chB)
	}
}

func (s *sub) unsubscribe(bc *core.Blockchain) {
	switch s.kind {
	case 'E':
		bc.UnsubscribeFromExecutions(s.chE)
	case 'N':
		bc.UnsubscribeFromNotifications(s.chN)
	case 'T':
		bc.UnsubscribeFromTransactions(s.chT)
	case 'H':
		bc.UnsubscribeFromHeadersOfAddedBlocks(s.chH)
	case 'B':
		bc.UnsubscribeFromBlocks(s.chB)
	}
}

// next takes one queued item without blocking.
func (s *sub) next() (Item, bool) {
	switch s.kind {
	case 'E':
		select {
		case x := <-s.chE:
			return execItem(x), true
		default:
		}
	case 'N':
		select {
		case x := <-s.chN:
			return noteItem(x.Container, &x.NotificationEvent), true
		default:
		}
	case 'T':
		select {
		case x := <-s.chT:
			return txItem(x), true
		default:
		}
	case 'H':
		select {
		case x := <-s.chH:
			return hdrItem(x), true
		default:
		}
	case 'B':
		select {
		case x := <-s.chB:
			return blkItem(x), true
		default:
		}
	}
	return Item{}, false
}

// drain empties the channel (called at quiescent points only).
func (s *sub) drain() []Item {
	out := []Item{}
	for {
		it, ok := s.next()
		if !ok {
			return out
		}
		out = append(out, it)
	}
}

// serial is the SERIAL OBSERVER: five UNBUFFERED channels (one per kind) read by ONE goroutine. The dispatcher sends
// one item at a time and every send completes only when this goroutine has taken it, so the order of receipt is the
// dispatcher's total order across kinds - the order docs/notifications.md documents.
type serial struct {
	bc   *core.Blockchain
	chE  chan *state.AppExecResult
	chN  chan *state.ContainedNotificationEvent
	chT  chan *transaction.Transaction
	chH  chan *block.Header
	chB  chan *block.Block
	ctl  chan chan []Item
	stop chan struct{}
	done chan struct{}
	log  []Item
}

func newSerial(bc *core.Blockchain) *serial {
	s := &serial{bc: bc, chE: make(chan *state.AppExecResult), chN: make(chan *state.ContainedNotificationEvent),
		chT: make(chan *transaction.Transaction), chH: make(chan *block.Header), chB: make(chan *block.Block),
		ctl: make(chan chan []Item), stop: make(chan struct{}), done: make(chan struct{})}
	go s.loop()
	bc.SubscribeForExecutions(s.chE)
	bc.SubscribeForNotifications(s.chN)
	bc.SubscribeForTransactions(s.chT)
	bc.SubscribeForHeadersOfAddedBlocks(s.chH)
	bc.SubscribeForBlocks(s.chB)
	return s
}

func (s *serial) loop() {
	defer close(s.done)
	add := func(it Item) {
		it.HH = int(s.bc.BlockHeight())
		s.log = append(s.log, it)
	}
	for {
		select {
		case x := <-s.chE:
			add(execItem(x))
		case x := <-s.chN:
			add(noteItem(x.Container, &x.NotificationEvent))
		case x := <-s.chT:
			add(txItem(x))
		case x := <-s.chH:
			add(hdrItem(x))
		case x := <-s.chB:
			add(blkItem(x))
		case r := <-s.ctl:
			out := s.log
			s.log = nil
			if out == nil {
				out = []Item{}
			}
			r <- out
		case <-s.stop:
			return
		}
	}
}

// take returns what was received since the last call (call after a barrier: the dispatcher is past all its sends,
// every send was taken by the loop, and the loop answers this request only after logging them).
func (s *serial) take() []Item {
	r := make(chan []Item, 1)
	s.ctl <- r
	return <-r
}

func (s *serial) close() {
	// the loop keeps reading while the unsubscriptions are in progress
	s.bc.UnsubscribeFromExecutions(s.chE)
	s.bc.UnsubscribeFromNotifications(s.chN)
	s.bc.UnsubscribeFromTransactions(s.chT)
	s.bc.UnsubscribeFromHeadersOfAddedBlocks(s.chH)
	s.bc.UnsubscribeFromBlocks(s.chB)
	close(s.stop)
	<-s.done
}

// gate is an execution subscriber with an UNBUFFERED channel nobody reads until the harness says so: while it is
// closed the dispatcher is parked in the middle of a block's fan-out, at an execution event.
type gate struct {
	s    *sub
	mu   sync.Mutex
	log  []Item
	open chan struct{}
	stop chan struct{}
	done chan struct{}
}

func newGate() *gate { return &gate{s: newSub("G", 0)} }

// step lets exactly one execution event through; false if none arrives (then the gate cannot hold the dispatcher and the
// episode goes on ungated: the recorded roles are judged all the same).
func (g *gate) step() bool {
	if gateBroken.Load() {
		return false
	}
	select {
	case x := <-g.s.chE:
		g.log = append(g.log, execItem(x))
		return true
	case <-time.After(gatePatience):
		gateBroken.Store(true)
		return false
	}
}

// release reads everything from now on.
func (g *gate) release() {
	g.stop, g.done = make(chan struct{}), make(chan struct{})
	go func() {
		defer close(g.done)
		for {
			select {
			case x := <-g.s.chE:
				g.mu.Lock()
				g.log = append(g.log, execItem(x))
				g.mu.Unlock()
			case <-g.stop:
				return
			}
		}
	}()
}

func (g *gate) halt() []Item {
	close(g.stop)
	<-g.done
	out := g.log
	g.log = nil
	if out == nil {
		out = []Item{}
	}
	return out
}

// ---- goroutine states ---------------------------------------------------------------------------------------------

// gpat is a goroutine state pattern: a function on the stack and the prefix of the state ("chan send", "select").
type gpat struct{ fn, st string }

// parked counts, in ONE dump of all goroutine stacks, the goroutines matching each pattern.
func parked(pats ...gpat) []int {
	buf := make([]byte, 1<<20)
	for {
		n := runtime.Stack(buf, true)
		if n < len(buf) {
			buf = buf[:n]
			break
		}
		buf = make([]byte, 2*len(buf))
	}
	c := make([]int, len(pats))
	for _, g := range bytes.Split(buf, []byte("\n\n")) {
		nl := bytes.IndexByte(g, '\n')
		if nl < 0 {
			continue
		}
		head := string(g[:nl])
		i := strings.IndexByte(head, '[')
		if i < 0 {
			continue
		}
		for k, p := range pats {
			if strings.HasPrefix(head[i+1:], p.st) && bytes.Contains(g[nl:], []byte(p.fn)) {
				c[k]++
			}
		}
	}
	return c
}

// gatePatience bounds every wait for a goroutine to reach the state an episode wants it in. Giving up changes which
// interleaving is explored, never a verdict: the trace records what was done and the specification judges every outcome.
// After the third time-out the driver stops waiting at all (a node whose dispatcher never reaches the gate would
// otherwise cost the patience once per episode).
const gatePatience = 5 * time.Second

var gateFailures atomic.Int32

type brokenFlag struct{}

// gateBroken: three waits have timed out in this process.
var gateBroken brokenFlag

func (brokenFlag) Load() bool { return gateFailures.Load() >= 3 }
func (brokenFlag) Store(bool) { gateFailures.Add(1) }

// waitFor polls a condition on goroutine states (no verdict depends on the time this takes, nor on whether it gives up).
func waitFor(what string, cond func() bool) error {
	if gateBroken.Load() {
		return fmt.Errorf("not waiting for %s", what)
	}
	dl := time.Now().Add(gatePatience)
	for i := 0; ; i++ {
		if cond() {
			return nil
		}
		if time.Now().After(dl) {
			gateBroken.Store(true)
			return fmt.Errorf("timed out waiting for %s", what)
		}
		if i < 20 {
			runtime.Gosched()
		} else {
			time.Sleep(100 * time.Microsecond)
		}
	}
}

const (
	fnDispatcher = "core.(*Blockchain).notificationDispatcher"
	fnStore      = "core.(*Blockchain).storeBlock"
	fnSubscribe  = "core.(*Blockchain).SubscribeFor"
	fnUnsub      = "core.(*Blockchain).UnsubscribeFrom"
)
