package c16flags

import (
	"encoding/json"
	"fmt"
	"os"
	"path/filepath"

	"verifharness/internal/vh"

	"github.com/nspcc-dev/neo-go/pkg/core/interop/interopnames"
	"github.com/nspcc-dev/neo-go/pkg/core/native/nativenames"
	"github.com/nspcc-dev/neo-go/pkg/core/transaction"
	"github.com/nspcc-dev/neo-go/pkg/crypto/keys"
	"github.com/nspcc-dev/neo-go/pkg/io"
	"github.com/nspcc-dev/neo-go/pkg/neotest"
	"github.com/nspcc-dev/neo-go/pkg/smartcontract/callflag"
	"github.com/nspcc-dev/neo-go/pkg/smartcontract/manifest"
	"github.com/nspcc-dev/neo-go/pkg/smartcontract/nef"
	"github.com/nspcc-dev/neo-go/pkg/util"
	"github.com/nspcc-dev/neo-go/pkg/vm/emit"
	"github.com/nspcc-dev/neo-go/pkg/vm/opcode"
)

// PermSpec is one abstract permission of spec/flags/PermCases.tla.
type PermSpec struct {
	Kind    string   `json:"kind"`
	Target  string   `json:"target"`
	Wild    bool     `json:"wild"`
	Methods []string `json:"methods"`
}

// PermCase is one case printed by PermCases.tla with the specified answers.
type PermCase struct {
	Perms  []PermSpec `json:"perms"`
	Groups []string   `json:"groups"`
	Method string     `json:"method"`
	Safe   bool       `json:"safe"`
	Each   []bool     `json:"each"`
	Can    bool       `json:"can"`
	May    bool       `json:"may"`
}

func (v *env) buildCallee(sender util.Uint160) *neotest.Contract {
	a := newAsm()
	a.method("a", 0, false, anyT, func(w *io.BinWriter) { emit.Opcodes(w, opcode.PUSH1, opcode.RET) })
	a.method("b", 0, false, anyT, func(w *io.BinWriter) { emit.Opcodes(w, opcode.PUSH2, opcode.RET) })
	a.method("s", 0, true, anyT, func(w *io.BinWriter) { emit.Opcodes(w, opcode.PUSH3, opcode.RET) })
	mgmt := v.e.NativeHash(v.t, nativenames.Management)
	a.method("upd", 1, false, anyT, func(w *io.BinWriter) {
		emit.Opcodes(w, opcode.PUSHNULL, opcode.SWAP, opcode.PUSHNULL, opcode.PUSH3, opcode.PACK)
		emit.Int(w, int64(callflag.All))
		emit.String(w, "update")
		emit.Bytes(w, mgmt.BytesBE())
		emit.Syscall(w, interopnames.SystemContractCall)
		emit.Opcodes(w, opcode.RET)
	})
	return a.build(sender, "verif-K", nil, nil, nil, nil)
}

func buildCaller(sender util.Uint160, name string, k util.Uint160, perms []manifest.Permission) *neotest.Contract {
	a := newAsm()
	toks := []nef.MethodToken{}
	for i, m := range []string{"a", "b", "s"} {
		a.method("c"+m, 0, false, anyT, func(w *io.BinWriter) {
			emit.AppCall(w, k, m, callflag.All)
			emit.Opcodes(w, opcode.RET)
		})
		a.method("t"+m, 0, false, anyT, func(w *io.BinWriter) {
			emit.Instruction(w, opcode.CALLT, []byte{byte(i), 0})
			emit.Opcodes(w, opcode.RET)
		})
		toks = append(toks, nef.MethodToken{Hash: k, Method: m, ParamCount: 0, HasReturn: true, CallFlag: callflag.All})
	}
	if perms == nil {
		perms = []manifest.Permission{}
	}
	return a.build(sender, name, nil, perms, toks, nil)
}

func writeJSON(name string, v any) error {
	b, err := json.Marshal(v)
	if err != nil {
		return err
	}
	return os.WriteFile(filepath.Join(vh.OutDir(), name), b, 0o644)
}

func permKey(ps []PermSpec) string { return fmt.Sprint(ps) }

func (d *driver) permCases(cases []PermCase) {
	if len(cases) == 0 {
		return
	}
	v := d.v
	t := v.t
	gk := map[string]*keys.PrivateKey{"G1": detKey(11), "G2": detKey(12)}
	K := v.buildCallee(v.comHash)
	v.e.DeployContract(t, K, nil)
	hashes := map[string]util.Uint160{"H1": K.Hash, "H2": v.U.Hash}
	realPerm := func(p PermSpec) manifest.Permission {
		var rp *manifest.Permission
		switch p.Kind {
		case "wild":
			rp = manifest.NewPermission(manifest.PermissionWildcard)
		case "hash":
			rp = manifest.NewPermission(manifest.PermissionHash, hashes[p.Target])
		case "group":
			rp = manifest.NewPermission(manifest.PermissionGroup, gk[p.Target].PublicKey())
		default:
			t.Fatalf("unknown permission kind %q", p.Kind)
		}
		if !p.Wild {
			rp.Methods.Restrict()
			for _, m := range p.Methods {
				rp.Methods.Add(m)
			}
		}
		return *rp
	}
	// deploy one caller per distinct manifest
	callers := map[string]*neotest.Contract{}
	var order []string
	byGroups := map[string][]PermCase{}
	var gorder []string
	for _, c := range cases {
		k := permKey(c.Perms)
		if _, ok := callers[k]; !ok {
			var perms []manifest.Permission
			for _, p := range c.Perms {
				perms = append(perms, realPerm(p))
			}
			ct := buildCaller(v.comHash, fmt.Sprintf("verif-C%d", len(callers)), K.Hash, perms)
			callers[k] = ct
			order = append(order, k)
		}
		g := fmt.Sprint(c.Groups)
		if _, ok := byGroups[g]; !ok {
			gorder = append(gorder, g)
		}
		byGroups[g] = append(byGroups[g], c)
	}
	// several deployments per block
	for i := 0; i < len(order); i += 20 {
		var txs []*transaction.Transaction
		for _, k := range order[i:min(i+20, len(order))] {
			txs = append(txs, v.e.NewDeployTx(t, callers[k], nil))
		}
		v.e.AddNewBlock(t, txs...)
		for _, tx := range txs {
			v.e.CheckHalt(t, tx.Hash())
		}
	}
	d.res.Inc("perm_manifests_deployed", len(order))
	inv := v.e.NewInvoker(K.Hash, v.com)
	tx := v.mkTx(v.comHash)
	for _, g := range gorder {
		cs := byGroups[g]
		// give the callee exactly these groups (ContractManagement.update through the callee itself)
		km := *K.Manifest
		var ks []*keys.PrivateKey
		for _, n := range cs[0].Groups {
			ks = append(ks, gk[n])
		}
		km.Groups = mkGroups(K.Hash, ks)
		inv.Invoke(t, nil, "upd", manifestJSON(&km))
		kst := v.bc.GetContractState(K.Hash)
		if len(kst.Manifest.Groups) != len(ks) {
			t.Fatalf("callee groups not updated")
		}
		for ci, c := range cs {
			caller := callers[permKey(c.Perms)]
			cst := v.bc.GetContractState(caller.Hash)
			if cst == nil {
				t.Fatalf("caller not deployed")
			}
			// (1) the pure functions on the manifests READ BACK from the chain
			can := cst.Manifest.CanCall(K.Hash, &kst.Manifest, c.Method)
			each := make([]bool, len(cst.Manifest.Permissions))
			for i := range cst.Manifest.Permissions {
				each[i] = cst.Manifest.Permissions[i].IsAllowed(K.Hash, &kst.Manifest, c.Method)
			}
			// (1b) the same question on the manifest as a RESTARTED node would load it (stack item codec used by
			// ContractManagement's cache initialisation): a permission must not widen on reload
			if it, err := cst.Manifest.ToStackItem(); err == nil {
				var rm manifest.Manifest
				if err := rm.FromStackItem(it); err == nil {
					canR := rm.CanCall(K.Hash, &kst.Manifest, c.Method)
					d.res.Inc("perm_reloaded_evaluations", 1)
					if canR && !c.May {
						d.res.Violate(map[string]any{"kind": "permission-too-permissive", "site": "reloaded-manifest"},
							"a manifest reloaded through its storage codec allows a call the specification refuses",
							map[string]any{"perms": c.Perms, "groups": c.Groups, "method": c.Method})
					}
				}
			}
			// (2) real cross-contract calls: System.Contract.Call and CALLT
			obs := map[string]bool{}
			for _, via := range []string{"c", "t"} {
				o := v.run(chainScript(nil, caller.Hash, via+c.Method, 15, nil), callflag.All, tx)
				if o.MonErr != "" {
					t.Fatalf("monitor: %s", o.MonErr)
				}
				obs[via] = o.Halt && o.Executed[K.Hash]
				if o.Executed[K.Hash] != o.Halt {
					d.res.Inc("perm_exec_halt_mismatch", 1)
				}
			}
			d.res.Count([]any{"perm", c.Perms, c.Groups, c.Method, can, obs["c"], obs["t"]})
			rec := map[string]any{"perms": c.Perms, "groups": c.Groups, "method": c.Method, "safe": c.Safe,
				"spec_can": c.Can, "spec_may": c.May, "spec_each": c.Each,
				"real_can": can, "real_each": each, "call_ok": obs["c"], "callt_ok": obs["t"]}
			d.perm = append(d.perm, rec)
			if ci%900 == 5 {
				d.res.Sample(rec)
			}
		}
	}
	d.res.Inc("perm_cases", len(cases))
	if err := writeJSON("perm_results.json", d.perm); err != nil {
		t.Fatal(err)
	}
}
