package c16flags

import (
	"fmt"

	"github.com/nspcc-dev/neo-go/pkg/core/block"
	"github.com/nspcc-dev/neo-go/pkg/core/native/nativenames"
	"github.com/nspcc-dev/neo-go/pkg/core/native/noderoles"
	"github.com/nspcc-dev/neo-go/pkg/core/transaction"
	"github.com/nspcc-dev/neo-go/pkg/io"
	"github.com/nspcc-dev/neo-go/pkg/neotest"
	"github.com/nspcc-dev/neo-go/pkg/smartcontract"
	"github.com/nspcc-dev/neo-go/pkg/smartcontract/manifest"
	"github.com/nspcc-dev/neo-go/pkg/util"
	"github.com/nspcc-dev/neo-go/pkg/vm/emit"
	"github.com/nspcc-dev/neo-go/pkg/vm/opcode"
	"github.com/nspcc-dev/neo-go/pkg/wallet"
)

// natOp is one native method (or a named variant of it with arguments that reach another path).
type natOp struct {
	Name    string // Contract.method/n[#variant]
	Hash    util.Uint160
	Method  string
	Safe    bool
	Args    []any
	Tx      *transaction.Transaction
	Block   *block.Block // optional persisting block override (timestamp far in the future)
	Default bool         // called with type-correct defaults only (no builder)
}

func defArg(t smartcontract.ParamType, v *env) any {
	switch t {
	case smartcontract.BoolType:
		return false
	case smartcontract.IntegerType:
		return 1
	case smartcontract.ByteArrayType:
		return []byte{1, 2, 3}
	case smartcontract.StringType:
		return "1"
	case smartcontract.Hash160Type:
		return v.comHash
	case smartcontract.Hash256Type:
		return util.Uint256{1}
	case smartcontract.PublicKeyType:
		return v.keyA.PublicKey().Bytes()
	case smartcontract.ArrayType:
		return []any{}
	default:
		return nil
	}
}

var accX = util.Uint160{0xaa, 1} // never blocked
var accY = util.Uint160{0xbb, 2} // blocked in setup, holds GAS
var farFuture = uint64(400 * 24 * 3600 * 1000)

// setupNatives puts the chain into a state where every state-changing native method can have its effect.
func (v *env) setupNatives() {
	t := v.t
	e := v.e
	v.accA = neotest.NewSingleSigner(wallet.NewAccountFromPrivateKey(v.keyA))
	v.accB = neotest.NewSingleSigner(wallet.NewAccountFromPrivateKey(v.keyB))
	gas := e.CommitteeInvoker(e.NativeHash(t, nativenames.Gas))
	neo := e.CommitteeInvoker(e.NativeHash(t, nativenames.Neo))
	pol := e.CommitteeInvoker(e.NativeHash(t, nativenames.Policy))
	for _, to := range []util.Uint160{v.accA.ScriptHash(), v.accB.ScriptHash(), accY, v.P1.Hash, v.P2.Hash} {
		gas.Invoke(t, true, "transfer", v.comHash, to, 5000_0000_0000, nil)
	}
	neo.Invoke(t, true, "transfer", v.comHash, v.accA.ScriptHash(), 1000, nil)
	neo.Invoke(t, true, "transfer", v.comHash, v.P1.Hash, 1000, nil)
	neo.Invoke(t, true, "transfer", v.comHash, v.P2.Hash, 1000, nil)
	// candidate A registered, committee votes for nobody yet
	neo.WithSigners(v.accA).Invoke(t, true, "registerCandidate", v.keyA.PublicKey().Bytes())
	// contract P2 is a voter (it witnesses the vote as the calling contract)
	e.InvokeScriptCheckHALT(t, chainScript([]hop{{v.P2.Hash, "call", 15}}, e.NativeHash(t, nativenames.Neo), "vote", 15,
		[]any{v.P2.Hash, v.keyA.PublicKey().Bytes()}), []neotest.Signer{v.com})
	// blocked account Y, whitelisted T.nop
	pol.Invoke(t, true, "blockAccount", accY)
	pol.Invoke(t, nil, "setWhitelistFeeContract", v.T.Hash, "nop", 0, 1)
	// notary deposit of the committee account expiring soon
	h := v.bc.BlockHeight()
	gas.Invoke(t, true, "transfer", v.comHash, e.NativeHash(t, nativenames.Notary), 10_0000_0000, []any{nil, int64(h + 3)})
	// pending oracle request made by P1 (id 0)
	e.InvokeScriptCheckHALT(t, chainScript([]hop{{v.P1.Hash, "call", 15}}, e.NativeHash(t, nativenames.Oracle), "request", 15,
		[]any{"https://x", nil, "oracleCb", nil, 1_0000_0000}), []neotest.Signer{v.com})
	e.GenerateNewBlocks(t, 4)
}

func (v *env) natOps() []natOp {
	t := v.t
	com := v.comHash
	a, b := v.accA.ScriptHash(), v.accB.ScriptHash()
	txAll := v.mkTx(com, a, b)
	h := v.bc.BlockHeight()
	var ops []natOp
	nh := func(n string) util.Uint160 { return v.e.NativeHash(t, n) }
	p1m := *v.P1.Manifest
	p1m.Extra = []byte(`"updated"`)
	newc := buildPing(com, "verif-new")
	withDeploy := func() *neotest.Contract {
		ac := newAsm()
		ac.method("ping", 0, false, anyT, retNull)
		ac.method(manifest.MethodDeploy, 2, false, smartcontract.VoidType, func(w *io.BinWriter) { emit.Opcodes(w, opcode.CLEAR, opcode.RET) })
		return ac.build(com, "verif-new2", nil, nil, nil, nil)
	}()
	oracleTx := v.mkTx(com, a, b)
	oracleTx.Attributes = []transaction.Attribute{{Type: transaction.OracleResponseT, Value: &transaction.OracleResponse{ID: 0, Code: transaction.Success, Result: []byte{}}}}
	future := func() *block.Block {
		blk, err := v.bc.GetFakeNextBlock(h + 1)
		if err != nil {
			panic(err)
		}
		blk.Timestamp += farFuture
		return blk
	}
	builders := map[string][]any{
		"ContractManagement.deploy/2":                     {nefBytes(newc.NEF), manifestJSON(newc.Manifest)},
		"ContractManagement.deploy/3":                     {nefBytes(withDeploy.NEF), manifestJSON(withDeploy.Manifest), nil},
		"ContractManagement.update/2":                     {nefBytes(v.P1.NEF), manifestJSON(&p1m)},
		"ContractManagement.update/3":                     {nil, manifestJSON(&p1m), nil},
		"ContractManagement.destroy/0":                    {},
		"ContractManagement.setMinimumDeploymentFee/1":    {7_0000_0000},
		"NeoToken.registerCandidate/1":                    {v.keyB.PublicKey().Bytes()},
		"NeoToken.unregisterCandidate/1":                  {v.keyA.PublicKey().Bytes()},
		"NeoToken.vote/2":                                 {com, v.keyA.PublicKey().Bytes()},
		"NeoToken.setGasPerBlock/1":                       {3_0000_0000},
		"NeoToken.setRegisterPrice/1":                     {900_0000_0000},
		"NeoToken.transfer/4":                             {com, accX, 10, nil},
		"GasToken.transfer/4":                             {com, accX, 10, nil},
		"PolicyContract.blockAccount/1":                   {accX},
		"PolicyContract.unblockAccount/1":                 {accY},
		"PolicyContract.recoverFund/2":                    {accY, nh(nativenames.Gas)},
		"PolicyContract.setWhitelistFeeContract/4":        {v.U.Hash, "ping", 0, 5},
		"PolicyContract.removeWhitelistFeeContract/3":     {v.T.Hash, "nop", 0},
		"PolicyContract.setAttributeFee/2":                {int(transaction.HighPriority), 12345},
		"PolicyContract.setExecFeeFactor/1":               {50},
		"PolicyContract.setFeePerByte/1":                  {1234},
		"PolicyContract.setMaxTraceableBlocks/1":          {900},
		"PolicyContract.setMaxValidUntilBlockIncrement/1": {50},
		"PolicyContract.setMillisecondsPerBlock/1":        {2000},
		"PolicyContract.setStoragePrice/1":                {54321},
		"RoleManagement.designateAsRole/2":                {int(noderoles.Oracle), []any{v.keyA.PublicKey().Bytes()}},
		"OracleContract.request/5":                        {"https://y", nil, "oracleCb", nil, 1_0000_0000},
		"OracleContract.finish/0":                         {},
		"OracleContract.setPrice/1":                       {7777_7777},
		"Notary.lockDepositUntil/2":                       {com, int64(h + 50)},
		"Notary.withdraw/2":                               {com, accX},
		"Notary.setMaxNotValidBeforeDelta/1":              {30},
	}
	for _, n := range v.bc.GetNatives() {
		for _, m := range n.Manifest.ABI.Methods {
			op := natOp{Name: fmt.Sprintf("%s.%s/%d", n.Manifest.Name, m.Name, len(m.Parameters)), Hash: n.Hash, Method: m.Name, Safe: m.Safe, Tx: txAll}
			if args, ok := builders[op.Name]; ok {
				op.Args = args
			} else {
				op.Default = true
				for _, p := range m.Parameters {
					op.Args = append(op.Args, defArg(p.Type, v))
				}
			}
			switch op.Name {
			case "OracleContract.finish/0":
				op.Tx = oracleTx
			case "PolicyContract.recoverFund/2":
				op.Block = future()
			}
			ops = append(ops, op)
		}
	}
	// variants reaching callbacks made by native code (native -> contract calls) and payment hooks of natives
	gasH, neoH := nh(nativenames.Gas), nh(nativenames.Neo)
	ops = append(ops,
		natOp{Name: "GasToken.transfer/4#toContract", Hash: gasH, Method: "transfer", Args: []any{com, v.P2.Hash, 10, nil}, Tx: txAll},
		natOp{Name: "NeoToken.transfer/4#toContract", Hash: neoH, Method: "transfer", Args: []any{com, v.P2.Hash, 10, nil}, Tx: txAll},
		natOp{Name: "GasToken.transfer/4#notaryDeposit", Hash: gasH, Method: "transfer", Args: []any{com, nh(nativenames.Notary), 10_0000_0000, []any{a, int64(h + 100)}}, Tx: txAll},
		natOp{Name: "GasToken.transfer/4#neoRegister", Hash: gasH, Method: "transfer", Args: []any{b, neoH, 1000_0000_0000, v.keyB.PublicKey().Bytes()}, Tx: v.mkTx(b, com)},
		natOp{Name: "NeoToken.vote/2#contractVoter", Hash: neoH, Method: "vote", Args: []any{v.P1.Hash, v.keyA.PublicKey().Bytes()}, Tx: txAll},
		natOp{Name: "PolicyContract.blockAccount/1#contractVoter", Hash: nh(nativenames.Policy), Method: "blockAccount", Args: []any{v.P2.Hash}, Tx: txAll},
		natOp{Name: "NeoToken.transfer/4#fromContract", Hash: neoH, Method: "transfer", Args: []any{v.P1.Hash, accX, 10, nil}, Tx: txAll},
	)
	return ops
}
