package c16flags

import (
	"fmt"
	"sort"

	"github.com/nspcc-dev/neo-go/pkg/core/interop/interopnames"
	"github.com/nspcc-dev/neo-go/pkg/core/transaction"
	"github.com/nspcc-dev/neo-go/pkg/io"
	"github.com/nspcc-dev/neo-go/pkg/neotest"
	"github.com/nspcc-dev/neo-go/pkg/smartcontract"
	"github.com/nspcc-dev/neo-go/pkg/smartcontract/callflag"
	"github.com/nspcc-dev/neo-go/pkg/smartcontract/nef"
	"github.com/nspcc-dev/neo-go/pkg/smartcontract/trigger"
	"github.com/nspcc-dev/neo-go/pkg/util"
	"github.com/nspcc-dev/neo-go/pkg/vm/emit"
	"github.com/nspcc-dev/neo-go/pkg/vm/opcode"
)

const anyT = smartcontract.AnyType

// probe: forwards a call. call(h, m, f, args) / scall (same code, marked safe) / tcall (inside TRY, so that the
// engine takes the "wrapped" private-DAO path of callExFromNative).
// With other != nil the probe also has kcall<f>/kscall<f>: the same forwarding through a NEF method token
// (CALLT -> contract.LoadToken) whose static call flags are f and whose callee is other.call / other.scall.
func buildProbe(sender util.Uint160, name string, other *util.Uint160) *neotest.Contract {
	a := newAsm()
	var toks []nef.MethodToken
	if other != nil {
		for i, m := range []string{"call", "scall"} {
			for f := 0; f < 16; f++ {
				idx := i*16 + f
				a.method(fmt.Sprintf("k%s%d", m, f), 4, false, anyT, func(w *io.BinWriter) {
					emit.Instruction(w, opcode.CALLT, []byte{byte(idx), 0})
					emit.Opcodes(w, opcode.RET)
				})
				toks = append(toks, nef.MethodToken{Hash: *other, Method: m, ParamCount: 4, HasReturn: true, CallFlag: callflag.CallFlag(f)})
			}
		}
	}
	off := a.method("call", 4, false, anyT, func(w *io.BinWriter) {
		emit.Syscall(w, interopnames.SystemContractCall)
		emit.Opcodes(w, opcode.RET)
	})
	a.alias("scall", 4, true, anyT, off)
	a.method("tcall", 4, false, anyT, func(w *io.BinWriter) {
		emit.Instruction(w, opcode.TRY, []byte{10, 0})
		emit.Syscall(w, interopnames.SystemContractCall)
		emit.Instruction(w, opcode.ENDTRY, []byte{6})
		emit.Opcodes(w, opcode.DROP, opcode.PUSHNULL)
		emit.Instruction(w, opcode.ENDTRY, []byte{2})
		emit.Opcodes(w, opcode.RET)
	})
	// self-administration used by the native matrix (ContractManagement.update/destroy act on the caller)
	a.method("onNEP17Payment", 3, false, smartcontract.VoidType, func(w *io.BinWriter) { emit.Opcodes(w, opcode.CLEAR, opcode.RET) })
	a.method("oracleCb", 4, false, smartcontract.VoidType, func(w *io.BinWriter) { emit.Opcodes(w, opcode.CLEAR, opcode.RET) })
	return a.build(sender, name, nil, nil, toks, nil)
}

// target: one method per abstract op, each with a safe-marked alias "<op>S" sharing the code.
func buildTarget(sender util.Uint160, name string, u util.Uint160) *neotest.Contract {
	a := newAsm()
	both := func(op string, body func(w *io.BinWriter)) {
		off := a.method(op, 0, false, anyT, body)
		a.alias(op+"S", 0, true, anyT, off)
	}
	both("put", func(w *io.BinWriter) {
		emit.Bytes(w, []byte("v"))
		emit.Bytes(w, []byte("k"))
		emit.Syscall(w, interopnames.SystemStorageGetContext)
		emit.Syscall(w, interopnames.SystemStoragePut)
		retNull(w)
	})
	both("lput", func(w *io.BinWriter) {
		emit.Bytes(w, []byte("v"))
		emit.Bytes(w, []byte("k"))
		emit.Syscall(w, interopnames.SystemStorageLocalPut)
		retNull(w)
	})
	both("del", func(w *io.BinWriter) {
		emit.Bytes(w, []byte("pre"))
		emit.Syscall(w, interopnames.SystemStorageLocalDelete)
		retNull(w)
	})
	both("notify", func(w *io.BinWriter) {
		emit.Opcodes(w, opcode.NEWARRAY0)
		emit.Bytes(w, []byte("ev"))
		emit.Syscall(w, interopnames.SystemRuntimeNotify)
		retNull(w)
	})
	both("call", func(w *io.BinWriter) {
		emit.AppCall(w, u, "ping", callflag.All)
		emit.Opcodes(w, opcode.RET)
	})
	both("nop", func(w *io.BinWriter) { retNull(w) })
	// putk(key): used by the persisted (real block) variant, one fresh key per transaction
	off := a.method("putk", 1, false, anyT, func(w *io.BinWriter) {
		emit.Bytes(w, []byte("v"))
		emit.Opcodes(w, opcode.SWAP)
		emit.Syscall(w, interopnames.SystemStorageLocalPut)
		retNull(w)
	})
	a.alias("putkS", 1, true, anyT, off)
	a.method("setup", 0, false, anyT, func(w *io.BinWriter) {
		emit.Bytes(w, []byte("1"))
		emit.Bytes(w, []byte("pre"))
		emit.Syscall(w, interopnames.SystemStorageLocalPut)
		retNull(w)
	})
	return a.build(sender, name, []string{"ev"}, nil, nil, nil)
}

func buildPing(sender util.Uint160, name string) *neotest.Contract {
	a := newAsm()
	a.method("ping", 0, false, anyT, func(w *io.BinWriter) { emit.Opcodes(w, opcode.PUSH1, opcode.RET) })
	return a.build(sender, name, nil, nil, nil, nil)
}

// sysArgs pushes type-correct arguments for a system call executed inside the syscall probe S
// (storage key "pre" exists, event "ev" is declared, U.ping exists).  Unknown names get no arguments.
func (v *env) sysArgs(w *io.BinWriter, name string, u util.Uint160) {
	getctx := func() { emit.Syscall(w, interopnames.SystemStorageGetContext) }
	switch name {
	case interopnames.SystemContractCall:
		emit.Opcodes(w, opcode.NEWARRAY0)
		emit.Int(w, int64(callflag.All))
		emit.String(w, "ping")
		emit.Bytes(w, u.BytesBE())
	case interopnames.SystemContractCallNative:
		emit.Int(w, 0)
	case interopnames.SystemContractCreateMultisigAccount:
		emit.Bytes(w, v.keyA.PublicKey().Bytes())
		emit.Int(w, 1)
		emit.Opcodes(w, opcode.PACK)
		emit.Int(w, 1)
	case interopnames.SystemContractCreateStandardAccount:
		emit.Bytes(w, v.keyA.PublicKey().Bytes())
	case interopnames.SystemCryptoCheckMultisig:
		emit.Bytes(w, make([]byte, 64))
		emit.Int(w, 1)
		emit.Opcodes(w, opcode.PACK)
		emit.Bytes(w, v.keyA.PublicKey().Bytes())
		emit.Int(w, 1)
		emit.Opcodes(w, opcode.PACK)
	case interopnames.SystemCryptoCheckSig:
		emit.Bytes(w, make([]byte, 64))
		emit.Bytes(w, v.keyA.PublicKey().Bytes())
	case interopnames.SystemIteratorNext, interopnames.SystemIteratorValue:
		emit.Int(w, 0)
		emit.Bytes(w, []byte("p"))
		getctx()
		emit.Syscall(w, interopnames.SystemStorageFind)
		if name == interopnames.SystemIteratorValue {
			emit.Opcodes(w, opcode.DUP)
			emit.Syscall(w, interopnames.SystemIteratorNext)
			emit.Opcodes(w, opcode.DROP)
		}
	case interopnames.SystemRuntimeBurnGas:
		emit.Int(w, 1)
	case interopnames.SystemRuntimeCheckWitness:
		emit.Bytes(w, v.comHash.BytesBE())
	case interopnames.SystemRuntimeGetNotifications:
		emit.Opcodes(w, opcode.PUSHNULL)
	case interopnames.SystemRuntimeLoadScript:
		sw := io.NewBufBinWriter()
		emit.AppCall(sw.BinWriter, u, "ping", callflag.All)
		emit.Opcodes(sw.BinWriter, opcode.RET)
		emit.Opcodes(w, opcode.NEWARRAY0)
		emit.Int(w, int64(callflag.All))
		emit.Bytes(w, sw.Bytes())
	case interopnames.SystemRuntimeLog:
		emit.String(w, "msg")
	case interopnames.SystemRuntimeNotify:
		emit.Opcodes(w, opcode.NEWARRAY0)
		emit.String(w, "ev")
	case interopnames.SystemStorageDelete:
		emit.Bytes(w, []byte("pre"))
		getctx()
	case interopnames.SystemStorageFind:
		emit.Int(w, 0)
		emit.Bytes(w, []byte("p"))
		getctx()
	case interopnames.SystemStorageGet:
		emit.Bytes(w, []byte("pre"))
		getctx()
	case interopnames.SystemStoragePut:
		emit.Bytes(w, []byte("v"))
		emit.Bytes(w, []byte("k"))
		getctx()
	case interopnames.SystemStorageAsReadOnly:
		getctx()
	case interopnames.SystemStorageLocalGet:
		emit.Bytes(w, []byte("pre"))
	case interopnames.SystemStorageLocalFind:
		emit.Int(w, 0)
		emit.Bytes(w, []byte("p"))
	case interopnames.SystemStorageLocalPut:
		emit.Bytes(w, []byte("v"))
		emit.Bytes(w, []byte("k"))
	case interopnames.SystemStorageLocalDelete:
		emit.Bytes(w, []byte("pre"))
	}
}

// sysNames enumerates the REAL system call table of the interop context.
func (v *env) sysNames() []string {
	ic, err := v.bc.GetTestVM(trigger.Application, nil, nil)
	if err != nil {
		panic(err)
	}
	var names []string
	for _, f := range ic.Functions {
		names = append(names, f.Name)
	}
	sort.Strings(names)
	return names
}

func (v *env) buildSys(sender util.Uint160, name string, u util.Uint160) *neotest.Contract {
	a := newAsm()
	v.sysMethods = map[string]string{}
	for i, n := range v.sysNames() {
		mname := fmt.Sprintf("s%d", i)
		v.sysMethods[n] = mname
		a.method(mname, 0, false, anyT, func(w *io.BinWriter) {
			v.sysArgs(w, n, u)
			emit.Syscall(w, n)
			emit.Opcodes(w, opcode.CLEAR)
			retNull(w)
		})
	}
	a.method("setup", 0, false, anyT, func(w *io.BinWriter) {
		emit.Bytes(w, []byte("1"))
		emit.Bytes(w, []byte("pre"))
		emit.Syscall(w, interopnames.SystemStorageLocalPut)
		retNull(w)
	})
	return a.build(sender, name, []string{"ev"}, nil, nil, nil)
}

// sysScript is the same system call issued directly by the entry script (root flags = the flag set).
func (v *env) sysScript(n string) []byte {
	w := io.NewBufBinWriter()
	v.sysArgs(w.BinWriter, n, v.U.Hash)
	emit.Syscall(w.BinWriter, n)
	emit.Opcodes(w.BinWriter, opcode.CLEAR, opcode.RET)
	return w.Bytes()
}

func (v *env) deployAll() {
	t := v.t
	s := v.comHash
	v.keyA, v.keyB = detKey(1), detKey(2)
	v.U = buildPing(s, "verif-U")
	v.P2 = buildProbe(s, "verif-P2", nil)
	v.P1 = buildProbe(s, "verif-P1", &v.P2.Hash)
	v.T = buildTarget(s, "verif-T", v.U.Hash)
	v.S = v.buildSys(s, "verif-S", v.U.Hash)
	for _, c := range []*neotest.Contract{v.U, v.P2, v.P1, v.T, v.S} {
		v.e.DeployContract(t, c, nil)
	}
	for _, c := range []*neotest.Contract{v.T, v.S} {
		inv := v.e.NewInvoker(c.Hash, v.com)
		inv.Invoke(t, nil, "setup")
	}
}

// chainScript builds the entry script for a chain of hops ending in (target, method, args).
// hops[i] = (probe hash, probe method, requested flags); the innermost call is made with lastReq.
type hop struct {
	probe  util.Uint160
	method string
	req    int
}

func chainScript(hops []hop, target util.Uint160, method string, lastReq int, args []any) []byte {
	// innermost first: arguments of the last probe call are [target, method, lastReq, args]
	w := io.NewBufBinWriter()
	if len(hops) == 0 {
		emit.AppCall(w.BinWriter, target, method, callflag.CallFlag(lastReq), args...)
		emit.Opcodes(w.BinWriter, opcode.RET)
		return w.Bytes()
	}
	inner := []any{target, method, lastReq, args}
	for i := len(hops) - 1; i >= 1; i-- {
		inner = []any{hops[i].probe, hops[i].method, hops[i].req, inner}
	}
	emit.AppCall(w.BinWriter, hops[0].probe, hops[0].method, callflag.CallFlag(hops[0].req), inner...)
	emit.Opcodes(w.BinWriter, opcode.RET)
	if w.Err != nil {
		panic(w.Err)
	}
	return w.Bytes()
}

func (v *env) mkTx(signers ...util.Uint160) *transaction.Transaction {
	tx := transaction.New([]byte{byte(opcode.RET)}, 0)
	tx.Nonce = 1
	tx.ValidUntilBlock = v.bc.BlockHeight() + 100
	for _, s := range signers {
		tx.Signers = append(tx.Signers, transaction.Signer{Account: s, Scopes: transaction.Global})
	}
	tx.Scripts = make([]transaction.Witness, len(tx.Signers))
	return tx
}
