// Package c16flags binds spec/flags (Flags.tla, Permission.tla) to the real neo-go execution engine:
// probe contracts are deployed on a real neotest chain, every case is run under chain.GetTestVM with an
// instruction hook that reads the call flags of every real execution context, and the storage change
// set / notification list are read back from the invocation's own DAO layer.
package c16flags

import (
	"encoding/json"
	"fmt"
	"testing"

	"github.com/nspcc-dev/neo-go/pkg/config"
	"github.com/nspcc-dev/neo-go/pkg/core"
	"github.com/nspcc-dev/neo-go/pkg/core/state"
	"github.com/nspcc-dev/neo-go/pkg/crypto/keys"
	"github.com/nspcc-dev/neo-go/pkg/io"
	"github.com/nspcc-dev/neo-go/pkg/neotest"
	"github.com/nspcc-dev/neo-go/pkg/neotest/chain"
	"github.com/nspcc-dev/neo-go/pkg/smartcontract"
	"github.com/nspcc-dev/neo-go/pkg/smartcontract/manifest"
	"github.com/nspcc-dev/neo-go/pkg/smartcontract/nef"
	"github.com/nspcc-dev/neo-go/pkg/util"
	"github.com/nspcc-dev/neo-go/pkg/vm/emit"
	"github.com/nspcc-dev/neo-go/pkg/vm/opcode"
	"go.uber.org/zap"
)

type env struct {
	t   *testing.T
	bc  *core.Blockchain
	e   *neotest.Executor
	com neotest.Signer // single validator == committee
	// well-known actors
	comHash util.Uint160
	keyA    *keys.PrivateKey // candidate registered in setup
	keyB    *keys.PrivateKey // fresh key (not registered)
	accA    neotest.Signer
	accB    neotest.Signer
	// contracts
	P1, P2, T, U, S *neotest.Contract
	sysMethods      map[string]string // syscall name -> method of S
	base            *baseView
}

func newEnv(t *testing.T) *env {
	config.Version = "0.0.0-verif"
	bc, acc := chain.NewSingleWithOptions(t, &chain.Options{Logger: zap.NewNop()})
	v := &env{t: t, bc: bc, com: acc}
	v.e = neotest.NewExecutor(t, bc, acc, acc)
	v.e.DisableCoverage()
	v.comHash = acc.ScriptHash()
	return v
}

// ---------------------------------------------------------------- contract assembly

type asm struct {
	w       *io.BufBinWriter
	methods []manifest.Method
}

func newAsm() *asm { return &asm{w: io.NewBufBinWriter()} }

// method registers a method starting at the current offset; body emits its code.
func (a *asm) method(name string, nparams int, safe bool, ret smartcontract.ParamType, body func(w *io.BinWriter)) int {
	off := a.w.Len()
	if body != nil {
		body(a.w.BinWriter)
	}
	a.alias(name, nparams, safe, ret, off)
	return off
}

func (a *asm) alias(name string, nparams int, safe bool, ret smartcontract.ParamType, off int) {
	ps := make([]manifest.Parameter, nparams)
	for i := range ps {
		ps[i] = manifest.NewParameter(fmt.Sprintf("a%d", i), smartcontract.AnyType)
	}
	a.methods = append(a.methods, manifest.Method{Name: name, Offset: off, Parameters: ps, ReturnType: ret, Safe: safe})
}

func (a *asm) build(sender util.Uint160, name string, events []string, perms []manifest.Permission,
	tokens []nef.MethodToken, groupKeys []*keys.PrivateKey) *neotest.Contract {
	if a.w.Err != nil {
		panic(a.w.Err)
	}
	ne, err := nef.NewFile(a.w.Bytes())
	if err != nil {
		panic(err)
	}
	if tokens != nil {
		ne.Tokens = tokens
		ne.Checksum = ne.CalculateChecksum()
	}
	m := manifest.NewManifest(name)
	m.ABI.Methods = a.methods
	for _, ev := range events {
		m.ABI.Events = append(m.ABI.Events, manifest.Event{Name: ev, Parameters: []manifest.Parameter{}})
	}
	if perms == nil {
		perms = []manifest.Permission{*manifest.NewPermission(manifest.PermissionWildcard)}
	}
	m.Permissions = perms
	h := state.CreateContractHash(sender, ne.Checksum, name)
	m.Groups = mkGroups(h, groupKeys)
	return &neotest.Contract{Hash: h, NEF: ne, Manifest: m}
}

func mkGroups(h util.Uint160, groupKeys []*keys.PrivateKey) []manifest.Group {
	gs := []manifest.Group{}
	for _, k := range groupKeys {
		gs = append(gs, manifest.Group{PublicKey: k.PublicKey(), Signature: k.Sign(h.BytesBE())})
	}
	return gs
}

func manifestJSON(m *manifest.Manifest) []byte {
	b, err := json.Marshal(m)
	if err != nil {
		panic(err)
	}
	return b
}

func nefBytes(n *nef.File) []byte {
	b, err := n.Bytes()
	if err != nil {
		panic(err)
	}
	return b
}

func retNull(w *io.BinWriter) { emit.Opcodes(w, opcode.PUSHNULL, opcode.RET) }

// detKey derives a deterministic private key (the universe does not depend on the seed).
func detKey(i byte) *keys.PrivateKey {
	b := make([]byte, 32)
	for j := range b {
		b[j] = 0x11
	}
	b[31] = i
	k, err := keys.NewPrivateKeyFromBytes(b)
	if err != nil {
		panic(err)
	}
	return k
}
