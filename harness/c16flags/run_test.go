package c16flags

import (
	"bytes"
	"encoding/binary"
	"encoding/hex"
	"fmt"
	"sort"

	"github.com/nspcc-dev/neo-go/pkg/core/block"
	"github.com/nspcc-dev/neo-go/pkg/core/dao"
	"github.com/nspcc-dev/neo-go/pkg/core/interop"
	"github.com/nspcc-dev/neo-go/pkg/core/interop/interopnames"
	"github.com/nspcc-dev/neo-go/pkg/core/storage"
	"github.com/nspcc-dev/neo-go/pkg/core/transaction"
	"github.com/nspcc-dev/neo-go/pkg/smartcontract/callflag"
	"github.com/nspcc-dev/neo-go/pkg/smartcontract/trigger"
	"github.com/nspcc-dev/neo-go/pkg/util"
	"github.com/nspcc-dev/neo-go/pkg/vm"
	"github.com/nspcc-dev/neo-go/pkg/vm/opcode"
	"github.com/nspcc-dev/neo-go/pkg/vm/vmstate"
)

// Frame is one real execution context as seen by the instruction hook.
type Frame struct {
	ID   int          `json:"id"`
	Par  int          `json:"par"`  // parent frame id, -1 for the entry script
	Fl   int          `json:"fl"`   // call flags read from the real vm.Context
	Req  int          `json:"req"`  // flags requested by the call that created it (-1: not a cross call)
	Safe bool         `json:"safe"` // callee method marked safe in the callee's manifest
	Kind string       `json:"k"`    // r root | c contract call | d dynamic script | i intra-contract CALL | n call made by native code
	Hash string       `json:"h"`
	Full util.Uint160 `json:"-"`
}

// Effect is an observed effect attributed to the frame that executed the instruction producing it.
type Effect struct {
	F int    `json:"f"`
	K string `json:"k"` // w storage change | n notification
}

type Obs struct {
	Frames   []Frame
	Effects  []Effect
	W, N     bool // end-to-end: storage changed w.r.t. the chain state / notification list non-empty
	C, T     bool // a contract outside the requested path executed / the frame under test executed (set by the driver)
	Entry    util.Uint160
	Changes  []string
	NNotif   int
	Executed map[util.Uint160]bool
	Halt     bool
	Fault    string
	MonErr   string
}

// baseView answers "what does the chain hold for this raw key" (state before the invocation).
type baseView struct {
	height uint32
	st     *storage.MemCachedStore
}

func (v *env) baseGet(key []byte) ([]byte, bool) {
	if v.base == nil || v.base.height != v.bc.BlockHeight() {
		ic, err := v.bc.GetTestVM(trigger.Application, nil, nil)
		if err != nil {
			panic(err)
		}
		v.base = &baseView{height: v.bc.BlockHeight(), st: ic.DAO.Store}
	}
	b, err := v.base.st.Get(key)
	if err != nil {
		return nil, false
	}
	return b, true
}

type pending struct {
	kind string
	req  int
	safe bool
}

type monitor struct {
	v        *env
	ic       *interop.Context
	o        *Obs
	stack    []*vm.Context
	ids      []int
	lastTop  int
	pend     *pending
	lastDAO  *dao.Simple
	lastB    map[string]string
	dirty    map[string]bool
	lastNtf  int
	nextID   int
	executed map[util.Uint160]bool
}

const delMark = "\x00<deleted>"

func batchMap(d *dao.Simple) map[string]string {
	b := d.GetBatch()
	m := make(map[string]string, len(b.Put)+len(b.Deleted))
	for _, kv := range b.Put {
		m[string(kv.Key)] = "P" + string(kv.Value)
	}
	for _, kv := range b.Deleted {
		m[string(kv.Key)] = delMark
	}
	return m
}

// realChange tells whether batch entry (k -> val) differs from the chain state.
func (m *monitor) realChange(k, val string) bool {
	old, ok := m.v.baseGet([]byte(k))
	if val == delMark {
		return ok
	}
	return !ok || !bytes.Equal(old, []byte(val[1:]))
}

func (m *monitor) effects() {
	n := len(m.ic.Notifications)
	if n > m.lastNtf && m.lastTop >= 0 {
		m.o.Effects = append(m.o.Effects, Effect{F: m.lastTop, K: "n"})
	}
	m.lastNtf = n
	d := m.ic.DAO
	cur := batchMap(d)
	if d == m.lastDAO && m.lastTop >= 0 {
		wrote := false
		for k, val := range cur {
			if old, ok := m.lastB[k]; !ok || old != val {
				if m.dirty[k] || m.realChange(k, val) {
					wrote = true
				}
				m.dirty[k] = true
			}
		}
		if wrote {
			m.o.Effects = append(m.o.Effects, Effect{F: m.lastTop, K: "w"})
		}
	} else {
		for k := range cur {
			m.dirty[k] = true
		}
	}
	m.lastDAO, m.lastB = d, cur
}

func (m *monitor) step(h util.Uint160, ip int, op opcode.Opcode) {
	defer func() {
		if r := recover(); r != nil && m.o.MonErr == "" {
			m.o.MonErr = fmt.Sprint(r)
		}
	}()
	if len(m.executed) == 0 {
		m.o.Entry = h
	}
	m.executed[h] = true
	m.effects()
	ist := m.ic.VM.Istack()
	k := 0
	for k < len(ist) && k < len(m.stack) && ist[k] == m.stack[k] {
		k++
	}
	m.stack = m.stack[:k]
	m.ids = m.ids[:k]
	for i := k; i < len(ist); i++ {
		f := Frame{ID: m.nextID, Par: -1, Fl: int(ist[i].GetCallFlags()), Req: -1, Kind: "r", Hash: ist[i].ScriptHash().StringLE()[:8], Full: ist[i].ScriptHash()}
		m.nextID++
		if i > 0 {
			f.Par = m.ids[i-1]
			f.Kind = "i"
			if i == k && m.pend != nil {
				f.Kind, f.Req, f.Safe = m.pend.kind, m.pend.req, m.pend.safe
			}
		}
		m.o.Frames = append(m.o.Frames, f)
		m.stack = append(m.stack, ist[i])
		m.ids = append(m.ids, f.ID)
	}
	m.lastTop = m.ids[len(m.ids)-1]
	m.pend = m.pending(ist[len(ist)-1], ip, op)
}

// pending describes the cross call the instruction about to execute may make.
func (m *monitor) pending(ctx *vm.Context, ip int, op opcode.Opcode) *pending {
	prog := ctx.Program()
	switch op {
	case opcode.SYSCALL:
		if ip+5 > len(prog) {
			return nil
		}
		// the interop context's own table (interopnames.FromID does not know every name)
		fn := m.ic.GetFunction(binary.LittleEndian.Uint32(prog[ip+1 : ip+5]))
		if fn == nil {
			return nil
		}
		name := fn.Name
		es := ctx.Estack()
		switch name {
		case interopnames.SystemContractCall:
			if es.Len() < 4 {
				return nil
			}
			p := &pending{kind: "c", req: -1}
			hb, e1 := es.Peek(0).Item().TryBytes()
			mb, e2 := es.Peek(1).Item().TryBytes()
			fl, e3 := es.Peek(2).Item().TryInteger()
			if e3 == nil && fl.IsInt64() {
				p.req = int(fl.Int64())
			}
			if e1 == nil && e2 == nil {
				if u, err := util.Uint160DecodeBytesBE(hb); err == nil {
					if cs, err := m.ic.GetContract(u); err == nil {
						n := itemLen(es.Peek(3))
						if md := cs.Manifest.ABI.GetMethod(string(mb), n); md != nil {
							p.safe = md.Safe
						}
					}
				}
			}
			return p
		case interopnames.SystemRuntimeLoadScript:
			if es.Len() < 2 {
				return nil
			}
			p := &pending{kind: "d", req: -1}
			if fl, err := es.Peek(1).Item().TryInteger(); err == nil && fl.IsInt64() {
				p.req = int(fl.Int64())
			}
			return p
		case interopnames.SystemContractCallNative, interopnames.SystemContractNativeOnPersist, interopnames.SystemContractNativePostPersist:
			return &pending{kind: "n", req: int(callflag.All)}
		}
	case opcode.CALLT:
		if ip+3 > len(prog) || ctx.GetNEF() == nil {
			return nil
		}
		idx := int(binary.LittleEndian.Uint16(prog[ip+1 : ip+3]))
		if idx >= len(ctx.GetNEF().Tokens) {
			return nil
		}
		tok := ctx.GetNEF().Tokens[idx]
		p := &pending{kind: "c", req: int(tok.CallFlag)}
		if cs, err := m.ic.GetContract(tok.Hash); err == nil {
			if md := cs.Manifest.ABI.GetMethod(tok.Method, int(tok.ParamCount)); md != nil {
				p.safe = md.Safe
			}
		}
		return p
	}
	return nil
}

func itemLen(e vm.Element) (n int) {
	defer func() {
		if recover() != nil {
			n = -1
		}
	}()
	return len(e.Array())
}

// run executes script as the entry script loaded with flags root and tx as the container.
func (v *env) run(script []byte, root callflag.CallFlag, tx *transaction.Transaction) *Obs {
	return v.runB(script, root, tx, nil)
}

func (v *env) runB(script []byte, root callflag.CallFlag, tx *transaction.Transaction, blk *block.Block) *Obs {
	ttx := *tx
	ic, err := v.bc.GetTestVM(trigger.Application, &ttx, blk)
	if err != nil {
		panic(err)
	}
	defer ic.Finalize()
	o := &Obs{}
	m := &monitor{v: v, ic: ic, o: o, lastTop: -1, dirty: map[string]bool{}, executed: map[util.Uint160]bool{}}
	m.lastDAO, m.lastB = ic.DAO, batchMap(ic.DAO)
	ic.VM.SetOnExecHook(m.step)
	ic.VM.LoadWithFlags(script, root)
	rootDAO := ic.DAO
	err = ic.VM.Run()
	func() {
		defer func() {
			if r := recover(); r != nil && o.MonErr == "" {
				o.MonErr = fmt.Sprint(r)
			}
		}()
		m.effects()
	}()
	o.Executed = m.executed
	o.Halt = err == nil && ic.VM.State() == vmstate.Halt
	if err != nil {
		o.Fault = err.Error()
	}
	// end-to-end observation from the invocation's own root DAO layer
	b := rootDAO.GetBatch()
	for _, kv := range b.Put {
		if old, ok := v.baseGet(kv.Key); !ok || !bytes.Equal(old, kv.Value) {
			o.Changes = append(o.Changes, "put:"+hex.EncodeToString(kv.Key))
		}
	}
	for _, kv := range b.Deleted {
		if _, ok := v.baseGet(kv.Key); ok {
			o.Changes = append(o.Changes, "del:"+hex.EncodeToString(kv.Key))
		}
	}
	sort.Strings(o.Changes)
	o.W = len(o.Changes) > 0
	o.NNotif = len(ic.Notifications)
	o.N = o.NNotif > 0
	return o
}
