package c16flags

import (
	"fmt"
	"math/rand"
	"sort"
	"testing"

	"verifharness/internal/vh"

	"github.com/nspcc-dev/neo-go/pkg/core/block"
	"github.com/nspcc-dev/neo-go/pkg/core/transaction"
	"github.com/nspcc-dev/neo-go/pkg/neotest"
	"github.com/nspcc-dev/neo-go/pkg/smartcontract/callflag"
	"github.com/nspcc-dev/neo-go/pkg/util"
	"github.com/nspcc-dev/neo-go/pkg/vm/vmstate"
)

// Hop is one element of a requested call chain (shared with spec/flags/FlagsCases.tla).
type Hop struct {
	Q int  `json:"q"`
	S bool `json:"s"`
}

// Row is one case printed by FlagsCases.tla.
type Row struct {
	Chain  []Hop `json:"chain"`
	Eff    int   `json:"eff"`
	W      bool  `json:"w"`
	N      bool  `json:"n"`
	C      bool  `json:"c"`
	Reach  bool  `json:"reach"`
	Put    bool  `json:"put"`
	Lput   bool  `json:"lput"`
	Del    bool  `json:"del"`
	Notify bool  `json:"notify"`
	Call   bool  `json:"call"`
}

type driver struct {
	v    *env
	res  *vh.Result
	tr   *vh.Trace
	rnd  *rand.Rand
	perm []map[string]any
}

// final describes the frame under test at the end of a chain.
type final struct {
	hash   util.Uint160
	method string
	args   []any
	tx     *transaction.Transaction
	blk    *block.Block
}

// exec runs root -> probes(chain[:n-1]) -> final(chain[n-1]) and records the invocation.
// chain may be empty: then script is executed as the entry script itself (direct system call).
func (d *driver) exec(src, op string, root int, chain []Hop, fin final, direct []byte) *Obs {
	v := d.v
	var script []byte
	path := map[util.Uint160]bool{}
	if len(chain) == 0 {
		script = direct
	} else {
		var hops []hop
		probes := chain[:len(chain)-1]
		for i := 0; i < len(probes); i++ {
			h := probes[i]
			p := v.P1
			if i%2 == 1 {
				p = v.P2
			}
			m := "call"
			if h.S {
				m = "scall"
			} else if d.rnd.Intn(3) == 0 {
				m = "tcall"
			}
			path[p.Hash] = true
			if i%2 == 0 && i+1 < len(probes) && !h.S && d.rnd.Intn(3) == 0 {
				// the next hop (P1 -> P2) through a method token with static flags instead of System.Contract.Call
				nx := probes[i+1]
				m = fmt.Sprintf("kcall%d", nx.Q)
				if nx.S {
					m = fmt.Sprintf("kscall%d", nx.Q)
				}
				hops = append(hops, hop{p.Hash, m, h.Q})
				path[v.P2.Hash] = true
				i++
				continue
			}
			hops = append(hops, hop{p.Hash, m, h.Q})
		}
		script = chainScript(hops, fin.hash, fin.method, chain[len(chain)-1].Q, fin.args)
		path[fin.hash] = true
	}
	tx := fin.tx
	if tx == nil {
		tx = v.mkTx(v.comHash)
	}
	o := v.runB(script, callflag.CallFlag(root), tx, fin.blk)
	if o.MonErr != "" {
		v.t.Fatalf("monitor failed on %s/%s: %s", src, op, o.MonErr)
	}
	// c: a contract outside the requested path was CALLED (frames created by a contract call or by native code);
	// t: the frame under test was executed
	other, target := false, len(chain) == 0 || o.Executed[fin.hash]
	for _, f := range o.Frames {
		if (f.Kind == "c" || f.Kind == "n") && !path[f.Full] {
			other = true
		}
	}
	ch := chain
	if ch == nil {
		ch = []Hop{}
	}
	frames, effs := o.Frames, o.Effects
	if frames == nil {
		frames = []Frame{}
	}
	if effs == nil {
		effs = []Effect{}
	}
	d.tr.Emit(map[string]any{"event": "inv", "src": src, "op": op, "root": root, "chain": ch, "frames": frames, "eff": effs,
		"w": o.W, "n": o.N, "c": other, "t": target, "halt": o.Halt})
	d.res.Count([]any{src, op, root, ch, o.W, o.N, other, target, o.Halt, len(frames)})
	d.res.Traces++
	o.C, o.T = other, target
	return o
}

func (d *driver) chainCases(rows []Row) {
	v := d.v
	ops := []string{"put", "lput", "del", "notify", "call"}
	for ri, row := range rows {
		for _, op := range ops {
			m := op
			if row.Chain[len(row.Chain)-1].S {
				m += "S"
			}
			o := d.exec("chain", op, 15, row.Chain, final{hash: v.T.Hash, method: m}, nil)
			var pred, got bool
			switch op {
			case "put":
				pred, got = row.Put, o.W
			case "lput":
				pred, got = row.Lput, o.W
			case "del":
				pred, got = row.Del, o.W
			case "notify":
				pred, got = row.Notify, o.N
			case "call":
				pred, got = row.Call, o.C
			}
			if got {
				d.res.Inc("chain_effect_"+op, 1)
			}
			if pred != got {
				d.res.Inc("drift", 1)
				d.res.AddDrift(map[string]any{"src": "chain", "op": op, "chain": row.Chain, "predicted": pred, "observed": got, "fault": o.Fault})
			}
			if ri%4000 == 7 && op == "put" {
				d.res.Sample(map[string]any{"src": "chain", "op": op, "chain": row.Chain, "frames": o.Frames, "effects": o.Effects, "w": o.W, "halt": o.Halt, "spec_eff": row.Eff})
			}
		}
	}
	d.res.Inc("chain_rows", len(rows))
}

// positions of the restricting flag set f around the frame under test (safe: Safe mark of the tested method)
func positions(f int, safe bool, direct bool) (out []struct {
	name  string
	root  int
	chain []Hop
}) {
	add := func(name string, root int, chain ...Hop) {
		out = append(out, struct {
			name  string
			root  int
			chain []Hop
		}{name, root, chain})
	}
	if direct {
		add("direct-req", 15, Hop{f, safe})
		add("direct-root", f, Hop{15, safe})
	}
	add("probe-req", 15, Hop{15, false}, Hop{f, safe})
	add("probe-flags", 15, Hop{f, false}, Hop{15, safe})
	add("probe2-mid", 15, Hop{15, false}, Hop{f, false}, Hop{15, safe})
	add("safe-hop", 15, Hop{f, true}, Hop{15, safe})
	return
}

func (d *driver) sysCases() {
	v := d.v
	names := v.sysNames()
	reached := map[string]string{}
	for _, n := range names {
		for f := 0; f < 16; f++ {
			// the system call issued by the entry script itself, loaded with flag set f
			d.exec("sys", n, f, nil, final{}, v.sysScript(n))
			for _, p := range positions(f, false, true) {
				o := d.exec("sys", n, p.root, p.chain, final{hash: v.S.Hash, method: v.sysMethods[n]}, nil)
				if p.name == "probe-req" {
					d.noteSys(reached, n, f, o)
				}
			}
		}
	}
	d.res.Inc("syscalls", len(names))
	d.res.Stats["syscall_outcome_in_probe_all_flags"] = reached
}

func (d *driver) noteSys(reached map[string]string, n string, f int, o *Obs) {
	if f != 15 {
		return
	}
	s := ""
	if o.W {
		s += "w"
	}
	if o.N {
		s += "n"
	}
	if o.C {
		s += "c"
	}
	if !o.Halt {
		s += " FAULT"
	}
	reached[n] = s
}

func (d *driver) natCases() {
	v := d.v
	ops := v.natOps()
	var unreached []string
	nState := 0
	for _, op := range ops {
		hit := false
		for f := 0; f < 16; f++ {
			for _, p := range positions(f, op.Safe, true) {
				o := d.exec("nat", op.Name, p.root, p.chain, final{hash: op.Hash, method: op.Method, args: op.Args, tx: op.Tx, blk: op.Block}, nil)
				if f == 15 && (o.W || o.N) {
					hit = true
				}
				if f == 15 && p.name == "probe-req" && !op.Safe {
					d.res.Sample(map[string]any{"src": "nat", "op": op.Name, "frames": o.Frames, "effects": o.Effects, "w": o.W, "n": o.N, "halt": o.Halt})
				}
			}
		}
		if !op.Safe {
			nState++
			if !hit {
				unreached = append(unreached, op.Name)
			}
		}
	}
	sort.Strings(unreached)
	d.res.Inc("native_methods", len(ops))
	d.res.Inc("native_nonsafe_methods", nState)
	d.res.Stats["native_nonsafe_effect_not_reached"] = unreached
}

// randomCases: longer chains than the model's bound, random final operations (seeded).
func (d *driver) randomCases(n int) {
	v := d.v
	nat := v.natOps()
	names := v.sysNames()
	tops := []string{"put", "lput", "del", "notify", "call"}
	for i := 0; i < n; i++ {
		l := 3 + d.rnd.Intn(4)
		chain := make([]Hop, l)
		for j := range chain {
			q := d.rnd.Intn(16)
			if d.rnd.Intn(3) > 0 {
				q |= 5 // keep the chain going most of the time
			}
			if d.rnd.Intn(4) == 0 {
				q = 15
			}
			chain[j] = Hop{q, d.rnd.Intn(8) == 0}
		}
		switch d.rnd.Intn(3) {
		case 0:
			op := tops[d.rnd.Intn(len(tops))]
			m := op
			if chain[l-1].S {
				m += "S"
			}
			d.exec("rnd", op, 15, chain, final{hash: v.T.Hash, method: m}, nil)
		case 1:
			nm := names[d.rnd.Intn(len(names))]
			chain[l-1].S = false
			d.exec("rnd", nm, 15, chain, final{hash: v.S.Hash, method: v.sysMethods[nm]}, nil)
		default:
			op := nat[d.rnd.Intn(len(nat))]
			chain[l-1].S = op.Safe
			d.exec("rnd", op.Name, 15, chain, final{hash: op.Hash, method: op.Method, args: op.Args, tx: op.Tx, blk: op.Block}, nil)
		}
	}
	d.res.Inc("random_chains", n)
}

// blockCases: the persisted variant.  Chains are executed by real transactions in real blocks (the production
// path: Blockchain.storeBlock -> interop context over the block's DAO); observed afterwards: the application log
// (state, notifications of T) and the presence of a per-transaction key in T's storage.  No instruction hook here.
func (d *driver) blockCases(rows []Row, sample int) {
	v := d.v
	t := v.t
	var sel []Row
	for _, r := range rows {
		if len(r.Chain) == 1 || (len(r.Chain) == 2 && (sample < 0 || d.rnd.Intn(1024) < sample)) {
			sel = append(sel, r)
		}
	}
	type pend struct {
		row Row
		op  string
		key []byte
		tx  *transaction.Transaction
	}
	var batch []pend
	tid := v.bc.GetContractState(v.T.Hash).ID
	flush := func() {
		if len(batch) == 0 {
			return
		}
		txs := make([]*transaction.Transaction, len(batch))
		for i := range batch {
			txs[i] = batch[i].tx
		}
		v.e.AddNewBlock(t, txs...)
		for _, p := range batch {
			aer := v.e.GetTxExecResult(t, p.tx.Hash())
			halt := aer.VMState.HasFlag(vmstate.Halt)
			nT := 0
			for _, ev := range aer.Events {
				if ev.ScriptHash == v.T.Hash {
					nT++
				}
			}
			w := p.key != nil && v.bc.GetStorageItem(tid, p.key) != nil
			d.tr.Emit(map[string]any{"event": "inv", "src": "blk", "op": p.op, "root": 15, "chain": p.row.Chain, "frames": []Frame{}, "eff": []Effect{},
				"w": w, "n": nT > 0, "c": p.op == "call" && halt, "t": halt, "halt": halt})
			d.res.Count([]any{"blk", p.op, p.row.Chain, w, nT, halt})
			d.res.Traces++
			var pred, got bool
			switch p.op {
			case "putk":
				pred, got = p.row.Lput, w
			case "notify":
				pred, got = p.row.Notify, nT > 0
			case "call":
				pred, got = p.row.Call, halt
			}
			if got {
				d.res.Inc("block_effect_"+p.op, 1)
			}
			if pred != got {
				d.res.Inc("drift", 1)
				d.res.AddDrift(map[string]any{"src": "blk", "op": p.op, "chain": p.row.Chain, "predicted": pred, "observed": got, "fault": aer.FaultException})
			}
		}
		batch = batch[:0]
	}
	n := 0
	for _, row := range sel {
		for _, op := range []string{"putk", "notify", "call"} {
			m := op
			if row.Chain[len(row.Chain)-1].S {
				m += "S"
			}
			var hops []hop
			for i, h := range row.Chain[:len(row.Chain)-1] {
				p := v.P1
				if i%2 == 1 {
					p = v.P2
				}
				pm := "call"
				if h.S {
					pm = "scall"
				}
				hops = append(hops, hop{p.Hash, pm, h.Q})
			}
			var args []any
			var key []byte
			if op == "putk" {
				key = []byte(fmt.Sprintf("b%d", n))
				args = []any{key}
			}
			n++
			script := chainScript(hops, v.T.Hash, m, row.Chain[len(row.Chain)-1].Q, args)
			tx := v.e.PrepareInvocation(t, script, []neotest.Signer{v.com}, v.bc.BlockHeight()+1)
			batch = append(batch, pend{row, op, key, tx})
			if len(batch) >= 40 {
				flush()
			}
		}
	}
	flush()
	d.res.Inc("block_transactions", n)
}

func TestDriver(t *testing.T) {
	res := vh.NewResult()
	tr := vh.NewTrace("trace.ndjson")
	v := newEnv(t)
	v.deployAll()
	v.setupNatives()
	d := &driver{v: v, res: res, tr: tr, rnd: vh.Rand(16)}
	var rows []Row
	if vh.InDir() != "" {
		if err := vh.ReadJSON("chains.json", &rows); err != nil {
			t.Fatalf("no chain cases: %v", err)
		}
	}
	d.chainCases(rows)
	d.sysCases()
	d.natCases()
	d.randomCases(vh.EnvInt("VERIF_RANDOM", 2000))
	d.blockCases(rows, vh.EnvInt("VERIF_BLOCK_SAMPLE", 100))
	tr.Close()
	var pcs []PermCase
	if vh.InDir() != "" {
		if err := vh.ReadJSON("perms.json", &pcs); err != nil {
			t.Fatalf("no permission cases: %v", err)
		}
	}
	d.permCases(pcs)
	sort.Strings(res.Distinct)
	if err := res.Write(); err != nil {
		t.Fatal(err)
	}
	fmt.Println("evaluations", res.Evaluations)
}
