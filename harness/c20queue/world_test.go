// Gated world for C20 (block-queue half): the REAL bqueue.Queue runs with real goroutines (one per
// producer call, one for Run); the harness implements bqueue.Queuer and owns the ledger height.  Every
// call of Queuer.Height and Queuer.AddItem is a two-phase gate (phase 1: the ledger is read / written,
// phase 2: the call returns to the queue code), so one release == one step of the program-counter model
// BlockQueue.tla.  The only step without a gate is the receive on checkBlocks; whether the runner is
// parked there is read from the Go runtime (goroutine status), never guessed from a timeout.
package c20queue

import (
	"bytes"
	"errors"
	"fmt"
	"reflect"
	"runtime"
	"strconv"
	"sync"
	"sync/atomic"
	"time"
	"unsafe"

	"github.com/nspcc-dev/neo-go/pkg/network/bqueue"
	"go.uber.org/zap"
)

type item struct {
	idx uint32
	id  int
}

// GetIndex implements bqueue.Indexable. A nil receiver panics exactly as (*block.Block)(nil) would.
func (it *item) GetIndex() uint32 { return it.idx }

const (
	stIdle  = iota // producer: no call in progress; runner: not started
	stRun          // inside the real code (running, or blocked inside it)
	stH1           // at Queuer.Height, value not read yet
	stH2           // at Queuer.Height, value read, call not returned yet
	stA1           // at Queuer.AddItem, not applied yet
	stA2           // at Queuer.AddItem, applied, call not returned yet
	stDone         // runner: Run returned
	stPanic        // a panic escaped the real code in this goroutine
)

var stNames = []string{"idle", "run", "H1", "H2", "A1", "A2", "done", "panic"}

type actor struct {
	name     string
	runner   bool
	goid     uint64
	state    int // guarded by world.mu
	release  chan struct{}
	it       *item  // producer: the element being offered
	reads    int    // producer: number of height reads of the current call
	lastRead uint32 // height returned by the last read
	arg      *item  // runner: argument of the pending AddItem
	skip     int    // runner: 1 = the next Height call is the condition of the failure log, 2 = its message argument
	failIdx  uint32 // runner: index of the block whose addition failed
	panicVal any
	todo     uint32 // requester: index to deliver next (0 = none)
}

type event = map[string]any

type world struct {
	mu       sync.Mutex
	chainH   uint32
	capacity int
	blocking bool
	q        *bqueue.Queue[*item]
	byGoid   map[uint64]*actor
	prods    []*actor
	run      *actor
	events   []event
	nextID   int
	items    map[int]*item
	teardown atomic.Bool
	wg       sync.WaitGroup
	dumpBuf  []byte
	lenSeen  atomic.Int64
	nilAdds  int
	// bookkeeping for signatures / drift
	staleInserts int
	failedAdds   int
	aheadAdds    int
	discarded    bool
	gen          int64 // incremented by every scheduler action that may wake the runner
	parkedGen    int64 // value of gen when the runner was last seen parked on checkBlocks (-1: not known)
	infra        string // non-empty: the harness itself failed (-> inconclusive, never a verdict)
}

func newWorld(capacity int, h0 uint32, blocking bool, nprod int) *world {
	w := &world{parkedGen: -1, chainH: h0, capacity: capacity, blocking: blocking, byGoid: map[uint64]*actor{}, items: map[int]*item{},
		dumpBuf: make([]byte, 1<<18)}
	mode := bqueue.NonBlocking
	if blocking {
		mode = bqueue.Blocking
	}
	w.q = bqueue.New[*item](w, zap.NewNop(), nil, capacity, func(l int) { w.lenSeen.Store(int64(l)) }, mode)
	for i := 0; i < nprod; i++ {
		w.prods = append(w.prods, &actor{name: fmt.Sprintf("p%d", i+1), release: make(chan struct{}, 1)})
	}
	w.run = &actor{name: "run", runner: true, release: make(chan struct{}, 1)}
	return w
}

func goid() uint64 {
	var b [64]byte
	n := runtime.Stack(b[:], false)
	// "goroutine 123 [running]:"
	s := b[10:n]
	i := bytes.IndexByte(s, ' ')
	id, _ := strconv.ParseUint(string(s[:i]), 10, 64)
	return id
}

func (w *world) me() *actor {
	id := goid()
	w.mu.Lock()
	a := w.byGoid[id]
	w.mu.Unlock()
	return a
}

func (w *world) set(a *actor, st int) {
	w.mu.Lock()
	a.state = st
	w.mu.Unlock()
}

func (w *world) emit(e event) { w.events = append(w.events, e) } // callers hold w.mu or are the scheduler at a stable point

func (w *world) gate(a *actor, st int) {
	w.set(a, st)
	if w.teardown.Load() {
		return
	}
	<-a.release
}

// ---------------------------------------------------------------- bqueue.Queuer

func (w *world) Height() uint32 {
	a := w.me()
	if a == nil || w.teardown.Load() {
		w.mu.Lock()
		defer w.mu.Unlock()
		return w.chainH
	}
	if a.runner && a.skip > 0 {
		// queue.go logs a failed addition: `if chain.Height() < b.GetIndex()` and, if so, Height() once more
		// for the message. These reads do not influence the queue: they are not gated.
		w.mu.Lock()
		defer w.mu.Unlock()
		if a.skip == 1 && w.chainH < a.failIdx {
			a.skip = 2
		} else {
			a.skip = 0
		}
		return w.chainH
	}
	w.gate(a, stH1)
	w.mu.Lock()
	h := w.chainH
	a.lastRead = h
	if !a.runner {
		a.reads++
		w.emit(event{"event": "offer", "p": a.name, "item": a.it.id, "i": a.it.idx, "h": h, "n": a.reads})
	}
	w.mu.Unlock()
	w.gate(a, stH2)
	w.set(a, stRun)
	return h
}

var errLedger = errors.New("ledger: not the next block")

func (w *world) AddItem(it *item) error {
	a := w.me()
	if a == nil {
		a = w.run
	}
	a.arg = it
	w.gate(a, stA1)
	w.mu.Lock()
	var err error
	switch {
	case it == nil:
		w.nilAdds++
		err = errLedger
		w.emit(event{"event": "apply", "item": 0, "i": 0, "ok": false, "h": w.chainH, "nil": true})
	case it.idx == w.chainH+1:
		w.chainH++
		w.emit(event{"event": "apply", "item": it.id, "i": it.idx, "ok": true, "h": w.chainH})
	default:
		err = errLedger
		w.failedAdds++
		if it.idx > w.chainH+1 {
			w.aheadAdds++
		}
		w.emit(event{"event": "apply", "item": it.id, "i": it.idx, "ok": false, "h": w.chainH})
		a.skip, a.failIdx = 1, it.idx
	}
	w.mu.Unlock()
	w.gate(a, stA2)
	w.set(a, stRun)
	return err
}

func (w *world) AddItems(...*item) error { panic("AddItems is not used by bqueue.Queue") }

// ---------------------------------------------------------------- scheduler side

func (w *world) st(a *actor) int {
	w.mu.Lock()
	defer w.mu.Unlock()
	return a.state
}

func (w *world) height() uint32 {
	w.mu.Lock()
	defer w.mu.Unlock()
	return w.chainH
}

func (w *world) register(a *actor) {
	id := goid()
	w.mu.Lock()
	a.goid = id
	w.byGoid[id] = a
	w.mu.Unlock()
}

func (w *world) unregister(a *actor, st int, pv any) {
	w.mu.Lock()
	delete(w.byGoid, a.goid)
	a.state = st
	a.panicVal = pv
	w.mu.Unlock()
}

func (w *world) startRunner() {
	w.mu.Lock()
	w.gen++
	w.mu.Unlock()
	w.set(w.run, stRun)
	w.wg.Add(1)
	go func() {
		defer w.wg.Done()
		w.register(w.run)
		st := stDone
		var pv any
		func() {
			defer func() {
				if r := recover(); r != nil {
					st, pv = stPanic, r
				}
			}()
			w.q.Run()
		}()
		w.unregister(w.run, st, pv)
	}()
}

func (w *world) startPut(p *actor, idx uint32) *item {
	w.mu.Lock()
	w.nextID++
	it := &item{idx: idx, id: w.nextID}
	w.items[it.id] = it
	p.it, p.reads, p.state = it, 0, stRun
	w.mu.Unlock()
	w.wg.Add(1)
	go func() {
		defer w.wg.Done()
		w.register(p)
		st := stIdle
		var pv any
		func() {
			defer func() {
				if r := recover(); r != nil {
					st, pv = stPanic, r
				}
			}()
			_ = w.q.Put(it)
		}()
		w.mu.Lock()
		ev := event{"event": "ret", "p": p.name, "item": it.id, "i": it.idx, "h": w.chainH}
		if pv != nil {
			ev["panic"] = fmt.Sprint(pv)
		}
		w.emit(ev)
		w.mu.Unlock()
		w.unregister(p, st, pv)
	}()
	return it
}

func atGate(st int) bool { return st == stH1 || st == stH2 || st == stA1 || st == stA2 }

// release lets the actor pass the gate it is blocked on.
func (w *world) release(a *actor) {
	w.mu.Lock()
	ok := atGate(a.state)
	if ok {
		a.state = stRun // it is on its way; settle() decides where it stops next
		w.gen++
	}
	w.mu.Unlock()
	if ok {
		a.release <- struct{}{}
	}
}

type gstat struct {
	status string
	inRun  bool
	inPut  bool
}

func (w *world) dump() map[uint64]gstat {
	for {
		n := runtime.Stack(w.dumpBuf, true)
		if n < len(w.dumpBuf) {
			out := map[uint64]gstat{}
			for _, blk := range bytes.Split(w.dumpBuf[:n], []byte("\n\n")) {
				if !bytes.HasPrefix(blk, []byte("goroutine ")) {
					continue
				}
				nl := bytes.IndexByte(blk, '\n')
				if nl < 0 {
					nl = len(blk)
				}
				head := blk[10:nl]
				sp := bytes.IndexByte(head, ' ')
				if sp < 0 {
					continue
				}
				id, err := strconv.ParseUint(string(head[:sp]), 10, 64)
				if err != nil {
					continue
				}
				lb, rb := bytes.IndexByte(head, '['), bytes.LastIndexByte(head, ']')
				if lb < 0 || rb < lb {
					continue
				}
				// innermost frame = first line after the header
				top := blk[nl:]
				if len(top) > 0 {
					top = top[1:]
				}
				if e := bytes.IndexByte(top, '\n'); e >= 0 {
					top = top[:e]
				}
				inQ := bytes.Contains(top, []byte("bqueue.(*Queue["))
				out[id] = gstat{status: string(head[lb+1 : rb]),
					inRun: inQ && bytes.Contains(top, []byte(".Run(")),
					inPut: inQ && bytes.Contains(top, []byte(".Put("))}
			}
			return out
		}
		w.dumpBuf = make([]byte, 2*len(w.dumpBuf))
	}
}

func hasPrefix(s, p string) bool { return len(s) >= len(p) && s[:len(p)] == p }

// settle waits until no goroutine of this world can move without a release: every actor is idle /
// finished / at a gate, or is parked inside the queue code on a channel receive (the runner waiting for
// checkBlocks; a Blocking-mode producer waiting for its ticker).  Returns false on a watchdog timeout
// (infrastructure failure -> inconclusive).
func (w *world) settle() bool {
	deadline := time.Now().Add(30 * time.Second)
	for n := 0; ; n++ {
		var moving []*actor
		w.mu.Lock()
		gen := w.gen
		for _, a := range w.all() {
			if a.state == stRun && !(a.runner && w.parkedGen == gen) {
				moving = append(moving, a)
			}
		}
		w.mu.Unlock()
		if len(moving) == 0 {
			return true
		}
		// most moves end at a gate within microseconds: look at the goroutines only if somebody is still out
		if n%8 != 7 {
			runtime.Gosched()
			continue
		}
		// goroutine states are read AFTER the actor states: whoever could still send a signal was
		// seen moving above, so a runner reported in "chan receive" here with nobody moving is parked for good
		d := w.dump()
		stable := true
		for _, a := range moving {
			w.mu.Lock()
			id, st := a.goid, a.state
			w.mu.Unlock()
			if st != stRun {
				stable = false // reached a gate or finished meanwhile: look again
				continue
			}
			g, ok := d[id]
			if !ok || !hasPrefix(g.status, "chan receive") {
				stable = false
				continue
			}
			if a.runner && !g.inRun || !a.runner && !g.inPut {
				stable = false
			}
		}
		if stable {
			// The runner stays parked until somebody sends on (or closes) checkBlocks, which only happens in a
			// step started by the scheduler (release of a producer, Discard): remember it until then.
			w.mu.Lock()
			if w.gen == gen && w.run.state == stRun {
				for _, a := range moving {
					if a.runner {
						w.parkedGen = gen
					}
				}
			}
			w.mu.Unlock()
			return true
		}
		if time.Now().After(deadline) {
			w.infra = "settle: watchdog timeout; states: " + w.describe()
			return false
		}
		if n > 400 {
			time.Sleep(20 * time.Microsecond)
		}
	}
}

func (w *world) all() []*actor { return append(append([]*actor{}, w.prods...), w.run) }

func (w *world) describe() string {
	s := ""
	w.mu.Lock()
	for _, a := range w.all() {
		s += fmt.Sprintf("%s=%s ", a.name, stNames[a.state])
	}
	s += fmt.Sprintf("h=%d", w.chainH)
	w.mu.Unlock()
	return s
}

// parkedInside tells whether the actor (state stRun) is blocked on a channel receive inside the queue code.
// Only meaningful right after settle() returned true.
func (w *world) parkedInside(a *actor) bool { return w.st(a) == stRun }

// waitGate waits until the actor arrives at a gate (used for Blocking-mode ticker wake-ups, <= 1 s each).
func (w *world) waitGate(a *actor, d time.Duration) bool {
	deadline := time.Now().Add(d)
	for {
		st := w.st(a)
		if atGate(st) {
			return true
		}
		if st != stRun || time.Now().After(deadline) {
			return false
		}
		time.Sleep(2 * time.Millisecond)
	}
}

// observation of the real queue through its public API and (best effort) through reflection
type obs struct {
	lq      uint32
	capLeft int
	ring    []int // nil if reflection failed
	length  int
	sig     int
}

func (w *world) observe() obs {
	var o obs
	o.lq, o.capLeft = w.q.LastQueued() // takes the queue lock: orders the reads below after the last critical section
	func() {
		defer func() {
			if recover() != nil {
				o.ring = nil
			}
		}()
		v := reflect.ValueOf(w.q).Elem()
		f := v.FieldByName("queue")
		if !f.IsValid() || f.Kind() != reflect.Slice {
			return
		}
		ring := make([]int, f.Len())
		for i := range ring {
			e := f.Index(i)
			if e.Kind() != reflect.Pointer {
				return
			}
			if !e.IsNil() {
				ring[i] = int((*item)(unsafe.Pointer(e.Pointer())).idx)
			}
		}
		l := v.FieldByName("len")
		c := v.FieldByName("checkBlocks")
		if !l.IsValid() || !c.IsValid() {
			return
		}
		o.length = int(l.Int())
		o.sig = c.Len()
		o.ring = ring
	}()
	return o
}

func occupied(r []int) int {
	n := 0
	for _, x := range r {
		if x != 0 {
			n++
		}
	}
	return n
}

// finish releases everything, discards the queue and waits for the goroutines to end.
func (w *world) finish() (leaked bool) {
	w.teardown.Store(true)
	for _, a := range w.all() {
		select {
		case a.release <- struct{}{}:
		default:
		}
	}
	func() {
		defer func() { _ = recover() }()
		w.q.Discard()
	}()
	done := make(chan struct{})
	go func() { w.wg.Wait(); close(done) }()
	for i := 0; i < 40; i++ {
		select {
		case <-done:
			return false
		case <-time.After(100 * time.Millisecond):
			for _, a := range w.all() {
				select {
				case a.release <- struct{}{}:
				default:
				}
			}
		}
	}
	return true
}
