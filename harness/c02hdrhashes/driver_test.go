// Driver of the header-hash paging extension of C02: the canonical chain of empty blocks is built ONCE, then
// every world (TLC behaviour of HeaderHashesSim mapped to real heights, seeded random schedule, hand-made
// boundary schedule) is executed on a real core.Blockchain; the NDJSON trace is judged by HeaderHashesTrace.tla.
package c02hdrhashes

import (
	"sync"
	"testing"

	"verifharness/internal/vh"
)

type input struct {
	N      int         `json:"n"`
	MTB    int         `json:"mtb"`
	Worlds []WorldSpec `json:"worlds"`
}

func TestDriver(t *testing.T) {
	res := vh.NewResult()
	tr := vh.NewTrace("trace.ndjson")
	var in input
	if err := vh.ReadJSON("worlds.json", &in); err != nil {
		t.Fatalf("input: %v", err)
	}
	kit, err := BuildKit(in.N, uint32(in.MTB))
	if err != nil {
		t.Fatalf("canonical chain: %v", err)
	}
	workers := vh.EnvInt("VERIF_WORKERS", 6)
	worlds := make([]*World, len(in.Worlds))
	errs := make([]error, len(in.Worlds))
	sem := make(chan struct{}, workers)
	var wg sync.WaitGroup
	for i, ws := range in.Worlds {
		worlds[i] = &World{K: kit, Spec: ws, Res: res, Rnd: vh.Rand(int64(1000 + ws.WI))}
		wg.Add(1)
		sem <- struct{}{}
		go func(i int) {
			defer wg.Done()
			defer func() { <-sem }()
			errs[i] = worlds[i].Run()
		}(i)
	}
	wg.Wait()
	probes, steps := 0, 0
	for i, w := range worlds {
		if errs[i] != nil {
			t.Errorf("world %d: %v", w.Spec.WI, errs[i])
		}
		for _, ev := range w.events {
			switch ev["event"] {
			case "probe":
				probes++
			case "step":
				steps++
			}
			tr.Emit(ev)
		}
		res.Traces++
		if i < 3 && len(w.events) > 2 {
			res.Sample(map[string]any{"world": w.Spec.WI, "kind": w.Spec.Kind, "src": w.Spec.Src, "event": w.events[len(w.events)/2]})
		}
	}
	tr.Close()
	res.Inc("hh_worlds", len(worlds))
	res.Inc("hh_crash_probes", probes)
	res.Inc("hh_steps", steps)
	res.Inc("hh_chain_blocks", in.N)
	if err := res.Write(); err != nil {
		t.Fatal(err)
	}
}
