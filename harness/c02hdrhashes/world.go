// world.go - one world: a schedule (TLC behaviour of HeaderHashesSim mapped to real heights, or a seeded
// random / hand-made one) executed on a real core.Blockchain over a recording store; every observation is
// read from the real object; every batch boundary is additionally a crash probe.
package c02hdrhashes

import (
	"encoding/binary"
	"fmt"
	"math/rand"
	"reflect"
	"sort"

	"verifharness/internal/chainkit"
	"verifharness/internal/vh"

	"github.com/nspcc-dev/neo-go/pkg/config"
	"github.com/nspcc-dev/neo-go/pkg/core"
	"github.com/nspcc-dev/neo-go/pkg/core/block"
	"github.com/nspcc-dev/neo-go/pkg/core/storage"
	"github.com/nspcc-dev/neo-go/pkg/util"
)

const page = 2000 // headerBatchCount of the code under test (the trace carries it; the judge is parametric)

// Kit is the canonical chain shared (read-only) by all worlds of a run.
type Kit struct {
	Net    *chainkit.Net
	MTB    uint32
	Raw    [][]byte       // Raw[i-1] = wire bytes of block i
	Hdr    []block.Header // Hdr[i-1] = header of block i (hash cached)
	Hashes []util.Uint256 // Hashes[i] = hash of header i (0 = genesis)
}

func (k *Kit) protocol(c *config.Blockchain) {
	c.StateRootInHeader = true
	c.MaxTraceableBlocks = k.MTB
	c.MaxValidUntilBlockIncrement = k.MTB / 2
}

// BuildKit creates the canonical chain of n empty blocks on a reference node.
func BuildKit(n int, mtb uint32) (*Kit, error) {
	k := &Kit{Net: chainkit.NewNet(1, 1), MTB: mtb}
	ref, err := k.Net.NewChain(storage.NewMemoryStore(), k.protocol)
	if err != nil {
		return nil, err
	}
	chainkit.Start(ref)
	defer ref.Close()
	k.Hashes = append(k.Hashes, ref.GetHeaderHash(0))
	for i := 1; i <= n; i++ {
		b, err := k.Net.NewBlock(ref, 1000)
		if err != nil {
			return nil, err
		}
		if err := ref.AddBlock(b); err != nil {
			return nil, fmt.Errorf("reference rejects its own block %d: %w", i, err)
		}
		raw, err := chainkit.EncodeBlock(b)
		if err != nil {
			return nil, err
		}
		k.Raw = append(k.Raw, raw)
		k.Hdr = append(k.Hdr, b.Header)
		k.Hashes = append(k.Hashes, b.Hash())
	}
	return k, nil
}

func (k *Kit) N() uint32 { return uint32(len(k.Raw)) }

func (k *Kit) block(i uint32) *block.Block {
	b, err := chainkit.DecodeBlock(k.Raw[i-1], true)
	if err != nil {
		panic(err)
	}
	return b
}

func (k *Kit) headers(from, to uint32) []*block.Header {
	var hs []*block.Header
	for i := from; i <= to; i++ {
		h := k.Hdr[i-1] // private copy of the struct
		hs = append(hs, &h)
	}
	return hs
}

// kind of an answer for index i: "c" canonical hash of i, "z" zero, "o" anything else
func (k *Kit) kind(i uint32, h util.Uint256) string {
	if h.Equals(util.Uint256{}) {
		return "z"
	}
	if int(i) < len(k.Hashes) && h.Equals(k.Hashes[i]) {
		return "c"
	}
	return "o"
}

// ---------------------------------------------------------------------------------------------- schedule

// Step is one schedule step (see spec/headerhashes/HeaderHashesSim.tla; heights are REAL heights here).
type Step struct {
	Op string `json:"op"` // hdr | blk | flush | stop | crash | reset | look | retrust
	T  int    `json:"t"`  // retrust: TrustedHeader.Index configured from now on
	To int    `json:"to"`
	H  int    `json:"h"`
	I  int    `json:"i"`
	At string `json:"at"`
}

type WorldSpec struct {
	Kind     string `json:"kind"` // arch | gc | trusted | retrust (gc node that gets a TrustedHeader configured later)
	T        int    `json:"t"`    // TrustedHeader.Index (trusted worlds)
	GCP      int    `json:"gcp"`
	Src      string `json:"src"` // tlc | random | hand
	Sched    []Step `json:"sched"`
	WI       int    `json:"wi"`
	Probe    int    `json:"probe"`     // examine every Probe-th batch boundary (1 = all)
	ContLong int    `json:"cont_long"` // every ContLong-th probe is continued across the next page boundary
}

// ---------------------------------------------------------------------------------------------- observation

type Seg struct {
	A int    `json:"a"`
	B int    `json:"b"`
	K string `json:"k"`
}

type Mem struct {
	Stored   int    `json:"stored"`
	Latest   int    `json:"latest"`
	PrevTail string `json:"prevtail"`
}

// Obs is everything the judge sees of a live node.
type Obs struct {
	HH    int    `json:"hh"`
	BH    int    `json:"bh"`
	Tip   string `json:"tip"`
	Segs  []Seg  `json:"segs"`
	Mem   Mem    `json:"mem"`
	DHH   int    `json:"dhh"` // SYSCurrentHeader index on the backend
	DBH   int    `json:"dbh"` // SYSCurrentBlock index on the backend
	Pages []int  `json:"pages"`
	Panic string `json:"panic"`
}

// memShape reads the unexported RAM fields of core.HeaderHashes (embedded in core.Blockchain) with reflect.
func memShape(k *Kit, bc *core.Blockchain) (m Mem) {
	defer func() {
		if r := recover(); r != nil {
			m = Mem{Stored: -1, Latest: -1, PrevTail: "?"}
		}
	}()
	hhs := reflect.ValueOf(bc).Elem().FieldByName("HeaderHashes")
	m.Stored = int(hhs.FieldByName("storedHeaderCount").Uint())
	m.Latest = hhs.FieldByName("latest").Len()
	prev := hhs.FieldByName("previous")
	m.PrevTail = "z"
	if n := prev.Len(); n > 0 {
		var h util.Uint256
		e := prev.Index(n - 1)
		for j := 0; j < e.Len(); j++ {
			h[j] = byte(e.Index(j).Uint())
		}
		if m.Stored >= 1 {
			m.PrevTail = k.kind(uint32(m.Stored-1), h)
		} else if !h.Equals(util.Uint256{}) {
			m.PrevTail = "o"
		}
	}
	return
}

func diskTips(d Disk) (dhh, dbh int, pages []int) {
	dhh, dbh = -1, -1
	if v, ok := d[string([]byte{byte(storage.SYSCurrentHeader)})]; ok && len(v) >= 36 {
		dhh = int(binary.LittleEndian.Uint32(v[32:36]))
	}
	if v, ok := d[string([]byte{byte(storage.SYSCurrentBlock)})]; ok && len(v) >= 36 {
		dbh = int(binary.LittleEndian.Uint32(v[32:36]))
	}
	for k := range d {
		if len(k) == 5 && k[0] == byte(storage.IXHeaderHashList) {
			pages = append(pages, int(binary.BigEndian.Uint32([]byte(k[1:]))))
		}
	}
	sort.Ints(pages)
	if pages == nil {
		pages = []int{}
	}
	return
}

// indexes examined by a sampled observation: the tip area, the block height, the retention floor, the trusted
// index, every edge of the current and the previous page, the edges of ONE older page chosen by the stream
// (older pages are served from the LRU / the database: examining all of them every time would keep every page
// cached and hide what a later deletion of a page does).
func sampleIdx(rnd *rand.Rand, hh, bh, trusted, floor int) []int {
	set := map[int]bool{}
	add := func(xs ...int) {
		for _, x := range xs {
			if x >= 0 {
				set[x] = true
			}
		}
	}
	for d := -3; d <= 3; d++ {
		add(hh+d, bh+d)
	}
	add(floor-1, floor, floor+1, trusted-1, trusted, trusted+1, 0, 1)
	cur := (hh + 1) / page * page
	for _, s := range []int{cur - page, cur, cur + page} {
		add(s-1, s, s+1, s+page/2)
	}
	if cur >= 2*page {
		s := rnd.Intn(cur/page-1) * page
		add(s, s+1, s+7, s+page-1)
	}
	for j := 0; j < 6; j++ {
		add(rnd.Intn(hh + page + 2))
	}
	out := make([]int, 0, len(set))
	for x := range set {
		out = append(out, x)
	}
	sort.Ints(out)
	return out
}

func sweepIdx(hh int) []int {
	out := make([]int, 0, hh+page+4)
	for i := 0; i <= hh+page+2; i++ {
		out = append(out, i)
	}
	return out
}

// observe reads the answer function of the real node. sweep = every index up to one page above the tip.
func observe(k *Kit, bc *core.Blockchain, d Disk, rnd *rand.Rand, sweep bool, trusted int, rub bool) (o Obs) {
	o.Segs = []Seg{}
	o.Pages = []int{}
	defer func() {
		if r := recover(); r != nil {
			o.Panic = fmt.Sprint(r)
			if len(o.Segs) == 0 {
				o.Segs = []Seg{{A: 0, B: 0, K: "o"}}
			}
		}
	}()
	o.DHH, o.DBH, o.Pages = diskTips(d)
	o.HH, o.BH = int(bc.HeaderHeight()), int(bc.BlockHeight())
	o.Mem = memShape(k, bc)
	o.Tip = k.kind(uint32(o.HH), bc.CurrentHeaderHash())
	floor := trusted
	if rub {
		floor = max(floor, o.BH-int(k.MTB)+1)
	}
	var idx []int
	if sweep {
		idx = sweepIdx(o.HH)
	} else {
		idx = sampleIdx(rnd, o.HH, o.BH, trusted, floor)
		// lookups in a seeded order (the LRU depends on it), reported in index order
		perm := rnd.Perm(len(idx))
		for _, p := range perm {
			_ = bc.GetHeaderHash(uint32(idx[p]))
		}
	}
	for _, i := range idx {
		kd := k.kind(uint32(i), bc.GetHeaderHash(uint32(i)))
		if n := len(o.Segs); n > 0 && o.Segs[n-1].K == kd && o.Segs[n-1].B == i-1 {
			o.Segs[n-1].B = i
		} else {
			o.Segs = append(o.Segs, Seg{A: i, B: i, K: kd})
		}
	}
	return
}

// ---------------------------------------------------------------------------------------------- world

type World struct {
	K    *Kit
	Spec WorldSpec
	Res  *vh.Result
	Rnd  *rand.Rand

	rec    *RecStore
	inner  *storage.MemoryStore
	disk   Disk // replay of every batch committed so far
	bc     *core.Blockchain
	events []map[string]any
	retr   int  // TrustedHeader.Index configured on the existing database by a retrust step (0 = not yet)
	kept   Disk // image of a batch prefix inside the last operation (for a crash placed there by the schedule)
	step   int
	nprobe int
	nbatch int
}

func (w *World) rub() bool { return w.Spec.Kind != "arch" }

func (w *World) hook(c *config.Blockchain) {
	w.K.protocol(c)
	switch w.Spec.Kind {
	case "gc":
		c.Ledger.RemoveUntraceableBlocks = true
		c.Ledger.GarbageCollectionPeriod = uint32(max(1, w.Spec.GCP))
	case "retrust":
		c.Ledger.RemoveUntraceableBlocks = true
		c.Ledger.GarbageCollectionPeriod = uint32(max(1, w.Spec.GCP))
		if w.retr > 0 {
			// as pkg/core's own test does it: the extension that admits a TrustedHeader without changing the
			// settings recorded in the database version
			c.NeoFSStateSyncExtensions = true
			c.NeoFSBlockFetcher.Enabled = true
			c.NeoFSStateFetcher.Enabled = true
			c.Ledger.TrustedHeader = config.HashIndex{Hash: w.K.Hashes[w.retr], Index: uint32(w.retr)}
		}
	case "trusted":
		c.Ledger.RemoveUntraceableBlocks = true
		c.Ledger.GarbageCollectionPeriod = uint32(max(1, w.Spec.GCP))
		c.P2PStateExchangeExtensions = true
		c.StateSyncInterval = 4
		c.Ledger.TrustedHeader = config.HashIndex{Hash: w.K.Hashes[w.Spec.T], Index: uint32(w.Spec.T)}
	}
}

func (w *World) emit(ev map[string]any) {
	ev["world"] = w.Spec.WI
	w.events = append(w.events, ev)
}

// open runs core.NewBlockchain on st; panics are part of the outcome.
func (w *World) open(st storage.Store, run bool) (bc *core.Blockchain, errs string) {
	defer func() {
		if r := recover(); r != nil {
			bc, errs = nil, fmt.Sprintf("panic: %v", r)
		}
	}()
	bc, err := w.K.Net.NewChain(st, w.hook)
	if err != nil {
		return nil, err.Error()
	}
	if run {
		chainkit.Start(bc)
	}
	return bc, ""
}

func safely(f func() error) (errs string) {
	defer func() {
		if r := recover(); r != nil {
			errs = fmt.Sprintf("panic: %v", r)
		}
	}()
	if err := f(); err != nil {
		return err.Error()
	}
	return ""
}

// absorb applies the batches the last operation committed to the replayed disk; every batch boundary is a crash
// probe. want (optional) is called with the index of each batch within the operation BEFORE it is applied and
// may keep an image.
func (w *World) absorb(before func(j int, b *Batch)) {
	bs := w.rec.Drain()
	for j, b := range bs {
		if before != nil {
			before(j, b)
		}
		w.disk.Apply(b)
		w.nbatch++
		if w.Spec.Probe <= 1 || w.nbatch%w.Spec.Probe == 0 || j == len(bs)-1 {
			w.probe(j)
		}
	}
}

// probe: power is lost right after the batch just applied. The image is opened by a fresh node, observed,
// continued with the next canonical headers / blocks and observed again; the main node is not touched.
func (w *World) probe(j int) {
	w.nprobe++
	img := w.disk.Clone()
	ev := map[string]any{"event": "probe", "step": w.step, "batch": w.nbatch, "cont": map[string]any{"n": 0}}
	bc, errs := w.open(img.Store(), w.Spec.Kind != "trusted")
	started := w.Spec.Kind != "trusted"
	ev["ok"], ev["err"] = errs == "", errs
	if errs != "" {
		ev["obs"] = Obs{Segs: []Seg{}, Pages: []int{}}
		w.emit(ev)
		w.Res.Count([]any{w.Spec.Kind, "probe", "fail", errs})
		return
	}
	o := observe(w.K, bc, img, w.Rnd, true, w.trusted(), w.rub())
	ev["obs"] = o
	// continuation
	hh, bh := uint32(o.HH), uint32(o.BH)
	n := uint32(40)
	if w.Spec.ContLong > 0 && w.nprobe%w.Spec.ContLong == 0 {
		n = (hh/page+1)*page + 2 - hh
	}
	from := hh + 1
	if w.Spec.Kind == "trusted" && from < uint32(w.Spec.T) {
		from = uint32(w.Spec.T)
	}
	to := min(from+n-1, w.K.N())
	cont := map[string]any{"n": 0}
	if o.Panic == "" && to >= from {
		e := safely(func() error { return bc.AddHeaders(w.K.headers(from, to)...) })
		nb := uint32(0)
		if e == "" && !w.headerOnly() {
			for x := bh + 1; x <= min(bh+2, w.K.N()); x++ {
				if e = safely(func() error { return bc.AddBlock(w.K.block(x)) }); e != "" {
					break
				}
				nb++
			}
		}
		cont = map[string]any{"n": int(to - from + 1), "ok": e == "", "err": e, "hh": int(max(to, bh+nb)), "bh": int(bh + nb)}
		if e == "" {
			cont["obs"] = observe(w.K, bc, img, w.Rnd, false, w.trusted(), w.rub())
		}
	}
	ev["cont"] = cont
	w.emit(ev)
	w.Res.Count([]any{w.Spec.Kind, "probe", o.HH, o.BH, o.Mem, len(o.Pages), cont["n"]})
	if started {
		bc.Close()
	}
}

// stageRank orders the SYSStateChangeStage values a Reset writes (0 = the batch does not touch the marker).
func stageRank(b *Batch) int {
	v, ok := b.KV[string([]byte{byte(storage.SYSStateChangeStage)})]
	if !ok {
		return 0
	}
	if v == nil {
		return 6
	}
	if len(v) == 1 {
		switch v[0] {
		case 0x82:
			return 1
		case 0x88:
			return 2
		case 0x84:
			return 3
		case 0x90:
			return 4
		case 0xa0:
			return 5
		}
	}
	return 0
}

// lookahead: when the schedule places a crash INSIDE the operation just executed (after the persist batch of a
// flush but before its GC batches; before a stage batch of a Reset), keep the database image of that prefix.
func (w *World) lookahead(si int) func(j int, b *Batch) {
	w.kept = nil
	if si+1 >= len(w.Spec.Sched) || w.Spec.Sched[si+1].Op != "crash" || w.Spec.Sched[si+1].At == "" {
		return nil
	}
	at := w.Spec.Sched[si+1].At
	return func(j int, b *Batch) {
		if w.kept != nil {
			return
		}
		hit := false
		switch at {
		case "gc":
			hit = j >= 1
		case "r1":
			hit = stageRank(b) >= 1
		case "r2":
			hit = stageRank(b) >= 4
		case "r3":
			hit = stageRank(b) >= 6
		}
		if hit {
			w.kept = w.disk.Clone()
		}
	}
}

func (w *World) trusted() int {
	if w.Spec.Kind == "trusted" {
		return w.Spec.T
	}
	return w.retr
}

// headerOnly: nodes that wait for a state synchronisation take no blocks through AddBlock here.
func (w *World) headerOnly() bool { return w.Spec.Kind == "trusted" || w.retr > 0 }

func (w *World) obs(sweep bool) Obs {
	return observe(w.K, w.bc, w.disk, w.Rnd, sweep, w.trusted(), w.rub())
}

// Run executes the schedule. Everything it learns goes into w.events.
func (w *World) Run() error {
	w.inner = storage.NewMemoryStore()
	w.rec = NewRecStore(w.inner)
	w.disk = Disk{}
	var errs string
	w.bc, errs = w.open(w.rec, true)
	if errs != "" {
		return fmt.Errorf("cannot create the node of world %d: %s", w.Spec.WI, errs)
	}
	if err := w.bc.VerifPersist(); err != nil {
		return err
	}
	w.step = 0
	for _, b := range w.rec.Drain() {
		w.disk.Apply(b)
	}
	w.emit(map[string]any{"event": "init", "kind": w.Spec.Kind, "src": w.Spec.Src, "page": page, "trusted": w.trusted(),
		"rub": w.rub(), "mtb": int(w.K.MTB), "n": int(w.K.N()), "ok": true, "full": false, "obs": w.obs(false)})
	alive := true
	for si, s := range w.Spec.Sched {
		if !alive {
			break
		}
		w.step = si + 1
		hh, bh := w.bc.HeaderHeight(), w.bc.BlockHeight()
		ev := map[string]any{"event": "step", "step": w.step, "op": s.Op, "ok": true, "err": "", "interrupted": false}
		switch s.Op {
		case "hdr":
			to := min(uint32(max(0, s.To)), w.K.N())
			from := hh + 1
			if w.Spec.Kind == "trusted" && from < uint32(w.Spec.T) {
				from = uint32(w.Spec.T)
			}
			if to < from {
				continue
			}
			e := safely(func() error { return w.bc.AddHeaders(w.K.headers(from, to)...) })
			ev["to"], ev["n"], ev["ok"], ev["err"] = int(to), int(to-from+1), e == "", e
		case "blk":
			to := min(uint32(max(0, s.To)), w.K.N())
			if to <= bh || w.headerOnly() {
				continue
			}
			e := ""
			for x := bh + 1; x <= to && e == ""; x++ {
				e = safely(func() error { return w.bc.AddBlock(w.K.block(x)) })
			}
			ev["to"], ev["n"], ev["ok"], ev["err"] = int(to), int(to-bh), e == "", e
		case "flush":
			e := safely(w.bc.VerifPersist)
			ev["ok"], ev["err"] = e == "", e
		case "look":
			ev["i"] = s.I
		case "stop":
			w.bc.Close()
			w.absorb(nil)
			w.bc, errs = w.open(w.rec, true)
			ev["ok"], ev["err"] = errs == "", errs
			alive = errs == ""
		case "retrust":
			if w.Spec.Kind != "retrust" || w.retr > 0 || s.T < page || uint32(s.T) > hh {
				continue
			}
			w.bc.Close()
			w.absorb(nil)
			w.retr = s.T
			w.bc, errs = w.open(w.rec, true)
			ev["t"], ev["ok"], ev["err"] = s.T, errs == "", errs
			alive = errs == ""
		case "crash":
			img := w.disk
			if s.At != "" && w.kept != nil {
				img = w.kept
			}
			w.kept = nil
			dhh, dbh, _ := diskTips(img)
			_, marked := img[string([]byte{byte(storage.SYSStateChangeStage)})]
			ev["at"], ev["ihh"], ev["ibh"], ev["imark"] = s.At, dhh, dbh, marked
			old := w.bc
			w.inner = img.Clone().Store()
			w.rec = NewRecStore(w.inner)
			w.disk = img.Clone()
			w.bc, errs = w.open(w.rec, true)
			old.Close() // stops the goroutines of the lost process; its final flush goes to the abandoned store
			ev["ok"], ev["err"] = errs == "", errs
			alive = errs == ""
			if alive {
				w.absorb(nil) // batches a resumed reset wrote
			}
		case "reset":
			if w.Spec.Kind != "arch" || s.H < 0 || uint32(s.H) > bh || (uint32(s.H) == bh && hh == bh) {
				continue
			}
			w.bc.Close()
			w.absorb(nil)
			var nb *core.Blockchain
			nb, errs = w.open(w.rec, false)
			if errs != "" {
				ev["op"], ev["ok"], ev["err"] = "stop", false, errs
				alive = false
				break
			}
			w.bc = nb
			e := safely(func() error { return w.bc.Reset(uint32(s.H)) })
			ev["h"], ev["ok"], ev["err"] = s.H, e == "", e
			alive = e == ""
		default:
			continue
		}
		if s.Op != "stop" && s.Op != "crash" && s.Op != "retrust" {
			// probes of the batches this operation wrote come BEFORE its step event
			w.absorb(w.lookahead(si))
			ev["interrupted"] = w.kept != nil
		}
		if ok, _ := ev["ok"].(bool); ok && alive {
			o := w.obs(s.Op == "look")
			ev["obs"] = o
			w.Res.Count([]any{w.Spec.Kind, ev["op"], ev["n"], o.HH, o.BH, o.Mem, len(o.Pages), o.Segs})
		} else {
			ev["obs"] = Obs{Segs: []Seg{}, Pages: []int{}}
			w.Res.Count([]any{w.Spec.Kind, ev["op"], "fail", ev["err"]})
		}
		w.emit(ev)
		if s.Op == "reset" && alive {
			// the reset node was not running: reopen it as the command line user would
			w.step = si + 1
			w.bc, errs = w.open(w.rec, true)
			ev2 := map[string]any{"event": "step", "step": w.step, "op": "reopen", "ok": errs == "", "err": errs, "interrupted": w.kept != nil}
			alive = errs == ""
			if alive {
				ev2["obs"] = w.obs(false)
			} else {
				ev2["obs"] = Obs{Segs: []Seg{}, Pages: []int{}}
			}
			w.emit(ev2)
		}
	}
	if alive {
		w.bc.Close()
		for _, b := range w.rec.Drain() {
			w.disk.Apply(b)
		}
		// binding self-check: the recorded batches reproduce the real backend's content exactly
		if df := DiffDisks(w.disk, DumpStore(w.inner), 3); len(df) > 0 {
			return fmt.Errorf("world %d: recording store incomplete: replayed batches differ from the backend on keys %x", w.Spec.WI, df)
		}
	}
	return nil
}
