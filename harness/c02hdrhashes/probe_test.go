package c02hdrhashes

import (
	"fmt"
	"testing"
	"time"

	"verifharness/internal/chainkit"

	"github.com/nspcc-dev/neo-go/pkg/config"
	"github.com/nspcc-dev/neo-go/pkg/core/block"
	"github.com/nspcc-dev/neo-go/pkg/core/storage"
)

func TestProbe(t *testing.T) {
	net := chainkit.NewNet(1, 1)
	proto := func(c *config.Blockchain) { c.StateRootInHeader = true; c.MaxTraceableBlocks = 24; c.MaxValidUntilBlockIncrement = 12 }
	ref, err := net.NewChain(storage.NewMemoryStore(), proto)
	if err != nil {
		t.Fatal(err)
	}
	chainkit.Start(ref)
	t0 := time.Now()
	var blocks []*block.Block
	for i := 0; i < 4200; i++ {
		b, err := net.NewBlock(ref, 1000)
		if err != nil {
			t.Fatal(err)
		}
		if err := ref.AddBlock(b); err != nil {
			t.Fatal(err)
		}
		blocks = append(blocks, b)
	}
	fmt.Println("built", len(blocks), time.Since(t0))
	for _, T := range []uint32{1500, 2500, 2000, 1999, 2001, 4000} {
		for _, k := range []uint32{0, 1, 100, 1600} {
			func() {
				defer func() {
					if r := recover(); r != nil {
						fmt.Printf("T=%d k=%d PANIC %v\n", T, k, r)
					}
				}()
				st := storage.NewMemoryStore()
				hook := func(c *config.Blockchain) {
					proto(c)
					c.P2PStateExchangeExtensions = true
					c.StateSyncInterval = 4
					c.Ledger.RemoveUntraceableBlocks = true
					c.Ledger.TrustedHeader = config.HashIndex{Hash: blocks[T-1].Hash(), Index: T}
				}
				bc, err := net.NewChain(st, hook)
				if err != nil {
					fmt.Printf("T=%d k=%d open: %v\n", T, k, err)
					return
				}
				var hs []*block.Header
				for x := T; x < T+k; x++ {
					hs = append(hs, &blocks[x-1].Header)
				}
				t1 := time.Now()
				if err := bc.AddHeaders(hs...); err != nil {
					fmt.Printf("T=%d k=%d addheaders: %v\n", T, k, err)
					return
				}
				d := time.Since(t1)
				if err := bc.VerifPersist(); err != nil {
					t.Fatal(err)
				}
				hh := bc.HeaderHeight()
				bc2, err := net.NewChain(st, hook)
				if err != nil {
					fmt.Printf("T=%d k=%d hh=%d REOPEN: %v\n", T, k, hh, err)
					return
				}
				bad := 0
				for i := T; i <= bc2.HeaderHeight(); i++ {
					if bc2.GetHeaderHash(i) != blocks[i-1].Hash() {
						bad++
					}
				}
				fmt.Printf("T=%d k=%d hh=%d reopened hh=%d bad=%d addhdr=%v\n", T, k, hh, bc2.HeaderHeight(), bad, d)
			}()
		}
	}
}
