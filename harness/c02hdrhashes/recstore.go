// Package c02hdrhashes: header-hash paging extension of the C02 check.
//
// recstore.go - a storage.Store wrapper that records every atomic batch (PutChangeSet / SeekGC commit) that
// reaches the REAL backend, in the order the backend applied them (adapted from harness/c02crash/recstore.go).
package c02hdrhashes

import (
	"bytes"
	"sort"
	"sync"

	"github.com/nspcc-dev/neo-go/pkg/core/storage"
)

// Batch is one atomic write of the node to its database.
type Batch struct {
	Kind string            // "put" (PutChangeSet) | "gc" (SeekGC)
	KV   map[string][]byte // key -> value, nil value = deletion
}

// RecStore wraps a backend.
type RecStore struct {
	inner storage.Store
	mu    sync.Mutex // serialises commits so that the recorded order is the backend's order

	bmu     sync.Mutex
	batches []*Batch
}

func NewRecStore(inner storage.Store) *RecStore { return &RecStore{inner: inner} }

// Get and Seek hand out COPIES, as the disk backends do.
func (r *RecStore) Get(k []byte) ([]byte, error) {
	v, err := r.inner.Get(k)
	if err != nil {
		return nil, err
	}
	return bytes.Clone(v), nil
}
func (r *RecStore) Seek(rng storage.SeekRange, f func(k, v []byte) bool) {
	r.inner.Seek(rng, func(k, v []byte) bool { return f(bytes.Clone(k), bytes.Clone(v)) })
}

// Close keeps the backend: a MemoryStore forgets everything when closed, a disk does not.
func (r *RecStore) Close() error { return nil }

func (r *RecStore) PutChangeSet(puts map[string][]byte, stor map[string][]byte) error {
	b := &Batch{Kind: "put", KV: make(map[string][]byte, len(puts)+len(stor))}
	for _, m := range []map[string][]byte{puts, stor} {
		for k, v := range m {
			if v == nil {
				b.KV[k] = nil
			} else {
				b.KV[k] = bytes.Clone(v) // recorded batches are immutable
			}
		}
	}
	r.mu.Lock()
	err := r.inner.PutChangeSet(puts, stor)
	r.record(b)
	r.mu.Unlock()
	return err
}

func (r *RecStore) SeekGC(rng storage.SeekRange, keepCont func(k, v []byte) (bool, bool)) error {
	b := &Batch{Kind: "gc", KV: map[string][]byte{}}
	r.mu.Lock()
	err := r.inner.SeekGC(rng, func(k, v []byte) (bool, bool) {
		keep, cont := keepCont(k, v)
		if !keep {
			b.KV[string(bytes.Clone(k))] = nil
		}
		return keep, cont
	})
	r.record(b)
	r.mu.Unlock()
	return err
}

func (r *RecStore) record(b *Batch) {
	if len(b.KV) == 0 {
		return // nothing reached the disk
	}
	r.bmu.Lock()
	r.batches = append(r.batches, b)
	r.bmu.Unlock()
}

// Drain returns the batches committed since the last call.
func (r *RecStore) Drain() []*Batch {
	r.bmu.Lock()
	defer r.bmu.Unlock()
	bs := r.batches
	r.batches = nil
	return bs
}

// Disk is the materialised database: exactly the key/value pairs a sequence of batches leaves behind.
type Disk map[string][]byte

func (d Disk) Apply(b *Batch) {
	for k, v := range b.KV {
		if v == nil {
			delete(d, k)
		} else {
			d[k] = v
		}
	}
}

func (d Disk) Clone() Disk {
	c := make(Disk, len(d))
	for k, v := range d {
		c[k] = v
	}
	return c
}

// Store builds a fresh MemoryStore holding exactly d.
func (d Disk) Store() *storage.MemoryStore {
	mem, stor := map[string][]byte{}, map[string][]byte{}
	for k, v := range d {
		if k[0] == byte(storage.STStorage) || k[0] == byte(storage.STTempStorage) {
			stor[k] = v
		} else {
			mem[k] = v
		}
	}
	st := storage.NewMemoryStore()
	_ = st.PutChangeSet(mem, stor)
	return st
}

// DumpStore reads a whole backend (every one-byte prefix; MemoryStore does not support the empty prefix).
func DumpStore(st storage.Store) Disk {
	d := Disk{}
	for p := 0; p < 256; p++ {
		st.Seek(storage.SeekRange{Prefix: []byte{byte(p)}}, func(k, v []byte) bool {
			d[string(bytes.Clone(k))] = bytes.Clone(v)
			return true
		})
	}
	return d
}

// DiffDisks lists up to n keys on which two disks differ.
func DiffDisks(a, b Disk, n int) []string {
	var ks []string
	for k, v := range a {
		if w, ok := b[k]; !ok || !bytes.Equal(v, w) {
			ks = append(ks, k)
		}
	}
	for k := range b {
		if _, ok := a[k]; !ok {
			ks = append(ks, k)
		}
	}
	sort.Strings(ks)
	if len(ks) > n {
		ks = ks[:n]
	}
	return ks
}
