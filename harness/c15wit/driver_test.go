// Driver for C15: realises the cells enumerated by spec/witness/WitnessEnum.tla (signer configuration x
// call context x account) and seeded random signer configurations on a real chain: probe contracts
// deployed once (world_test.go), the signer list put on a real transaction (encoded and decoded through the
// wire format), the entry script executed with that transaction as the script container, every frame of
// the call chain asking System.Runtime.CheckWitness.  Observed answers are compared with the
// specification's answers (cases) and recorded (trace.ndjson) for WitnessTrace.tla.
package c15wit

import (
	"encoding/json"
	"fmt"
	"math/rand"
	"runtime"
	"sort"
	"strings"
	"sync"
	"testing"

	"verifharness/internal/vh"

	"github.com/nspcc-dev/neo-go/pkg/core/transaction"
	"github.com/nspcc-dev/neo-go/pkg/crypto/keys"
	"github.com/nspcc-dev/neo-go/pkg/util"
)

// ---- abstract (specification side) data, as printed by TLC / read by WitnessTrace ----

type ACond struct {
	T  string  `json:"t"`
	V  bool    `json:"v"`
	H  string  `json:"h"`
	G  string  `json:"g"`
	Cs []ACond `json:"cs"`
}
type ARule struct {
	Action string `json:"action"`
	Cond   ACond  `json:"cond"`
}
type ASigner struct {
	Account   string   `json:"account"`
	Scopes    []string `json:"scopes"`
	Contracts []string `json:"contracts"`
	Groups    []string `json:"groups"`
	Rules     []ARule  `json:"rules"`
}
type ACtx struct {
	ID    string   `json:"id"`
	Chain []AFrame `json:"chain"`
}
type Case struct {
	Subj    string    `json:"subj"`
	Signers []ASigner `json:"signers"`
	Exp     []int     `json:"exp"`     // packed base-4 specified answers per context of the batch, nil: no expectation
	ImpDiff [][]int   `json:"impdiff"` // [ctx(1-based), acct(1-based), code] where the Impl model differs
	Deep    bool      `json:"deep"`    // observe on the deep universe instead of the batch's own contexts
}
type Batch struct {
	Family string   `json:"family"`
	Accts  []string `json:"accts"`
	Ctx    []ACtx   `json:"ctx"`
	Cases  []Case   `json:"cases"`
}
type Input struct {
	Deep    []ACtx  `json:"deep"` // the full universe of contexts (MaxLinks = 3)
	Batches []Batch `json:"batches"`
	Corrupt int     `json:"corrupt"` // self-test: flip the expectation of that many cells (must be detected)
}

var scopeBits = []struct {
	n string
	b transaction.WitnessScope
}{{"CalledByEntry", transaction.CalledByEntry}, {"CustomContracts", transaction.CustomContracts},
	{"CustomGroups", transaction.CustomGroups}, {"Rules", transaction.Rules}, {"Global", transaction.Global}}

// ---- abstract -> real ----

func (w *world) hashOf(n string) util.Uint160 {
	h, ok := w.hashes[n]
	if !ok {
		panic("unknown hash name " + n)
	}
	return h
}

func (w *world) cond(c ACond) transaction.WitnessCondition {
	switch c.T {
	case "Bool":
		v := transaction.ConditionBoolean(c.V)
		return &v
	case "Not":
		return &transaction.ConditionNot{Condition: w.cond(c.Cs[0])}
	case "And", "Or":
		l := make([]transaction.WitnessCondition, len(c.Cs))
		for i := range c.Cs {
			l[i] = w.cond(c.Cs[i])
		}
		if c.T == "And" {
			v := transaction.ConditionAnd(l)
			return &v
		}
		v := transaction.ConditionOr(l)
		return &v
	case "ScriptHash":
		v := transaction.ConditionScriptHash(w.hashOf(c.H))
		return &v
	case "Group":
		v := transaction.ConditionGroup(*w.gkeys[c.G].PublicKey())
		return &v
	case "CalledByEntry":
		return transaction.ConditionCalledByEntry{}
	case "CalledByContract":
		v := transaction.ConditionCalledByContract(w.hashOf(c.H))
		return &v
	case "CalledByGroup":
		v := transaction.ConditionCalledByGroup(*w.gkeys[c.G].PublicKey())
		return &v
	}
	panic("bad condition type " + c.T)
}

func (w *world) signer(a ASigner) transaction.Signer {
	s := transaction.Signer{Account: w.hashOf(a.Account)}
	for _, sc := range a.Scopes {
		for _, sb := range scopeBits {
			if sb.n == sc {
				s.Scopes |= sb.b
			}
		}
	}
	for _, c := range a.Contracts {
		s.AllowedContracts = append(s.AllowedContracts, w.hashOf(c))
	}
	for _, g := range a.Groups {
		s.AllowedGroups = append(s.AllowedGroups, w.gkeys[g].PublicKey())
	}
	for _, r := range a.Rules {
		act := transaction.WitnessDeny
		if r.Action == "Allow" {
			act = transaction.WitnessAllow
		}
		s.Rules = append(s.Rules, transaction.WitnessRule{Action: act, Condition: w.cond(r.Cond)})
	}
	return s
}

// ---- real -> abstract (projection read back from the decoded transaction) ----

func (w *world) nameOf(h util.Uint160) string {
	if n, ok := w.names[h]; ok {
		return n
	}
	return "?" + h.StringLE()
}

func (w *world) groupName(k *keys.PublicKey) string {
	if n, ok := w.gnames[k.StringCompressed()]; ok {
		return n
	}
	return "?" + k.StringCompressed()
}

func (w *world) projCond(c transaction.WitnessCondition) ACond {
	out := ACond{Cs: []ACond{}}
	switch v := c.(type) {
	case *transaction.ConditionBoolean:
		out.T, out.V = "Bool", bool(*v)
	case *transaction.ConditionNot:
		out.T, out.Cs = "Not", []ACond{w.projCond(v.Condition)}
	case *transaction.ConditionAnd:
		out.T = "And"
		for _, s := range *v {
			out.Cs = append(out.Cs, w.projCond(s))
		}
	case *transaction.ConditionOr:
		out.T = "Or"
		for _, s := range *v {
			out.Cs = append(out.Cs, w.projCond(s))
		}
	case *transaction.ConditionScriptHash:
		out.T, out.H = "ScriptHash", w.nameOf(util.Uint160(*v))
	case *transaction.ConditionGroup:
		out.T, out.G = "Group", w.groupName((*keys.PublicKey)(v))
	case transaction.ConditionCalledByEntry, *transaction.ConditionCalledByEntry:
		out.T = "CalledByEntry"
	case *transaction.ConditionCalledByContract:
		out.T, out.H = "CalledByContract", w.nameOf(util.Uint160(*v))
	case *transaction.ConditionCalledByGroup:
		out.T, out.G = "CalledByGroup", w.groupName((*keys.PublicKey)(v))
	default:
		out.T = fmt.Sprintf("?%T", c)
	}
	return out
}

func (w *world) projSigner(s transaction.Signer) ASigner {
	a := ASigner{Account: w.nameOf(s.Account), Scopes: []string{}, Contracts: []string{}, Groups: []string{}, Rules: []ARule{}}
	for _, sb := range scopeBits {
		if s.Scopes&sb.b != 0 {
			a.Scopes = append(a.Scopes, sb.n)
		}
	}
	for _, c := range s.AllowedContracts {
		a.Contracts = append(a.Contracts, w.nameOf(c))
	}
	for _, g := range s.AllowedGroups {
		a.Groups = append(a.Groups, w.groupName(g))
	}
	for _, r := range s.Rules {
		act := "Deny"
		if r.Action == transaction.WitnessAllow {
			act = "Allow"
		}
		a.Rules = append(a.Rules, ARule{Action: act, Cond: w.projCond(r.Condition)})
	}
	return a
}

// wire puts the signers on a transaction, encodes it and decodes it again: the signer list the check is
// run with is what a node would get from the network.
func (w *world) wire(signers []transaction.Signer) ([]transaction.Signer, error) {
	tx := transaction.New(w.scripts["E"], 0)
	tx.ValidUntilBlock = 1000
	tx.Signers = signers
	tx.Scripts = make([]transaction.Witness, len(signers))
	for i := range tx.Scripts {
		tx.Scripts[i] = transaction.Witness{InvocationScript: []byte{}, VerificationScript: []byte{}}
	}
	b := tx.Bytes()
	if b == nil {
		return nil, fmt.Errorf("cannot encode")
	}
	tx2, err := transaction.NewTransactionFromBytes(b)
	if err != nil {
		return nil, err
	}
	return tx2.Signers, nil
}

// ---- universe of contexts and its realisation as runs ----

type universe struct {
	ctx   []ACtx
	index map[string]int // id -> index
	plans map[string]*chainPlan
	// maximal normal chains (every normal context is a prefix of one), and leaf chains without ReadStates
	maximal, noRS []string
}

func normalID(id string) bool {
	return !strings.HasSuffix(id, ".g") && !strings.Contains(id, ".q")
}

func (w *world) newUniverse(t testing.TB, ctx []ACtx) *universe {
	u := &universe{ctx: ctx, index: map[string]int{}, plans: map[string]*chainPlan{}}
	for i, c := range ctx {
		u.index[c.ID] = i
	}
	for _, c := range ctx {
		id := c.ID
		chainID := strings.TrimSuffix(id, ".g")
		cp, err := w.parseChain(strings.TrimPrefix(strings.TrimPrefix(chainID, "e"), "."))
		if err != nil {
			t.Fatalf("context %s: %v", id, err)
		}
		frames := append([]AFrame{}, cp.frames...)
		if strings.HasSuffix(id, ".g") {
			frames = append(frames, AFrame{Name: "GAS", Groups: w.readGroups("GAS"), RS: true, Kind: kNative})
		}
		// binding sanity: the harness' realisation of the context must be the specification's context
		if !sameFrames(frames, c.Chain) {
			t.Fatalf("context %s: specification frames %+v, realised frames %+v", id, c.Chain, frames)
		}
		if !strings.HasSuffix(id, ".g") {
			u.plans[id] = cp
		}
	}
	for _, c := range ctx {
		if !normalID(c.ID) {
			if strings.Contains(c.ID, ".q") {
				u.noRS = append(u.noRS, c.ID)
			}
			continue
		}
		isPrefix := false
		for _, d := range ctx {
			if normalID(d.ID) && strings.HasPrefix(d.ID, c.ID+".") {
				isPrefix = true
				break
			}
		}
		if !isPrefix {
			u.maximal = append(u.maximal, c.ID)
		}
	}
	return u
}

func sameFrames(a, b []AFrame) bool {
	if len(a) != len(b) {
		return false
	}
	for i := range a {
		ga, gb := append([]string{}, a[i].Groups...), append([]string{}, b[i].Groups...)
		sort.Strings(ga)
		sort.Strings(gb)
		if a[i].Name != b[i].Name || a[i].RS != b[i].RS || a[i].Kind != b[i].Kind || strings.Join(ga, ",") != strings.Join(gb, ",") {
			return false
		}
	}
	return true
}

// prefixID returns the context id of probe frame i of the chain with the given id.
func prefixID(id string, i int) string {
	parts := strings.Split(id, ".")
	return strings.Join(parts[:i+1], ".")
}

func resolveAcct(a string, chain []AFrame, subj string) string {
	n := len(chain)
	switch a {
	case "S":
		return subj
	case "caller":
		if n > 1 {
			return chain[n-2].Name
		}
		return "Z"
	case "current":
		return chain[n-1].Name
	case "entry":
		return "E"
	}
	return a
}

// cell observation codes
const (
	oFalse = 0
	oTrue  = 1
	oFault = 2
	oNone  = -1
	oMixed = 3 // different answers for the same (signers, account, context): not a function of them
)

type caseRun struct {
	w      *world
	u      *universe
	accts  []string
	subj   string
	sig    []transaction.Signer
	keyed  bool         // key accounts are asked for by public key instead of script hash
	want   map[int]bool // context indices to observe
	obs    map[int][]int
	runs   int
	faults int
}

func (cr *caseRun) put(ci, k, v int) {
	o := cr.obs[ci]
	if o == nil {
		o = make([]int, len(cr.accts))
		for i := range o {
			o[i] = oNone
		}
		cr.obs[ci] = o
	}
	if o[k] == oNone {
		o[k] = v
	} else if o[k] != v {
		o[k] = oMixed
	}
}

type slot struct{ ci, k int }

// exec runs one chain with the given checks; slots[i][j] says which cell check j of probe frame i observes.
// A fault ends the execution: the answers recorded before it are kept, the check that was being executed
// (the next one in the deterministic order) gets "fault", and the chain is executed again without it.
func (cr *caseRun) exec(cp *chainPlan, checks [][]check, slots [][]slot) {
	for {
		out, halted, _ := cr.w.run(cr.sig, cr.w.buildPlan(cp, checks))
		cr.runs++
		type pos struct{ i, j int }
		var order []pos
		for i := range checks {
			for j := range checks[i] {
				order = append(order, pos{i, j})
			}
		}
		for i := len(checks) - 1; i >= 0; i-- {
			for j := range checks[i] {
				order = append(order, pos{i, j})
			}
		}
		if len(out) > len(order) || (halted && len(out) != len(order)) {
			panic(fmt.Sprintf("probe recorded %d results for %d checks in %s", len(out), len(order), cp.id))
		}
		for n, o := range out {
			if o.frame != order[n].i || o.j != order[n].j {
				panic(fmt.Sprintf("probe recorded results out of order in %s", cp.id))
			}
			s := slots[o.frame][o.j]
			v := oFalse
			if o.res {
				v = oTrue
			}
			cr.put(s.ci, s.k, v)
		}
		if halted {
			return
		}
		cr.faults++
		if len(out) == len(order) {
			panic(fmt.Sprintf("execution of %s faulted outside a witness check", cp.id))
		}
		f := order[len(out)]
		s := slots[f.i][f.j]
		cr.put(s.ci, s.k, oFault)
		c2 := make([][]check, len(checks))
		s2 := make([][]slot, len(checks))
		left := 0
		for i := range checks {
			for j := range checks[i] {
				if i == f.i && j == f.j {
					continue
				}
				c2[i] = append(c2[i], checks[i][j])
				s2[i] = append(s2[i], slots[i][j])
				left++
			}
		}
		if left == 0 {
			return
		}
		checks, slots = c2, s2
	}
}

func (cr *caseRun) observe() {
	w, u := cr.w, cr.u
	addChecks := func(cp *chainPlan, id string, i int, checks [][]check, slots [][]slot) {
		pid := prefixID(id, i)
		if ci, ok := u.index[pid]; ok && cr.want[ci] {
			chain := u.ctx[ci].Chain
			for k, a := range cr.accts {
				checks[i] = append(checks[i], check{w.acct(resolveAcct(a, chain, cr.subj), cr.keyed), 0})
				slots[i] = append(slots[i], slot{ci, k})
			}
		}
		if ci, ok := u.index[pid+".g"]; ok && cr.want[ci] {
			chain := u.ctx[ci].Chain
			for k, a := range cr.accts {
				checks[i] = append(checks[i], check{w.acct(resolveAcct(a, chain, cr.subj), false), 1})
				slots[i] = append(slots[i], slot{ci, k})
			}
		}
	}
	// chains to execute: the frames at which something is to be observed that are not a prefix of another one
	need := map[string]bool{}
	hasDesc := map[string]bool{}
	for ci := range cr.want {
		if !cr.want[ci] {
			continue
		}
		id := strings.TrimSuffix(u.ctx[ci].ID, ".g")
		if strings.Contains(id, ".q") {
			continue
		}
		need[id] = true
	}
	for id := range need {
		parts := strings.Split(id, ".")
		for n := 1; n < len(parts); n++ {
			hasDesc[strings.Join(parts[:n], ".")] = true
		}
	}
	for _, c := range u.ctx {
		id := c.ID
		if !need[id] || hasDesc[id] {
			continue
		}
		cp := u.plans[id]
		checks := make([][]check, len(cp.probe))
		slots := make([][]slot, len(cp.probe))
		n := 0
		for i := range cp.probe {
			addChecks(cp, id, i, checks, slots)
			n += len(checks[i])
		}
		if n > 0 {
			cr.exec(cp, checks, slots)
		}
	}
	for _, id := range u.noRS {
		ci := u.index[id]
		if !cr.want[ci] {
			continue
		}
		cp := u.plans[id]
		checks := make([][]check, len(cp.probe))
		slots := make([][]slot, len(cp.probe))
		addChecks(cp, id, len(cp.probe)-1, checks, slots)
		cr.exec(cp, checks, slots)
	}
}

func pack(o []int) int {
	p, m := 0, 1
	for _, v := range o {
		if v < 0 || v > 2 {
			v = 0
		}
		p += v * m
		m *= 3
	}
	return p
}

// digit4 extracts the specified answer of account k from a packed (base 4) expectation:
// 0 must refuse (false), 1 must grant, 2 must refuse (fault specified), 3 may grant or refuse.
func digit4(p, k int) int {
	for ; k > 0; k-- {
		p /= 4
	}
	return p % 4
}

func frameClass(chain []AFrame) string {
	f := chain[len(chain)-1]
	if !f.RS {
		return "no-readstates"
	}
	return f.Kind
}

// Signature of a wrong grant / refusal: small and stable (class of account, scopes of the signer that was
// asked for, class of frame); two special input classes get a signature of their own.
func signature(kind, acct string, signers []ASigner, subj string, chain []AFrame) map[string]any {
	sig := map[string]any{"kind": kind, "account": acct, "frame": frameClass(chain)}
	name := resolveAcct(acct, chain, subj)
	for _, x := range signers {
		if x.Account != name {
			continue
		}
		sc := strings.Join(x.Scopes, "+")
		if sc == "" {
			sc = "None"
		}
		sig["scopes"] = sc
		b, _ := json.Marshal(x)
		special := ""
		if strings.Contains(sc, "CustomGroups") && len(x.Groups) == 0 {
			special = "custom-groups-empty-list"
		} else if strings.Contains(string(b), `"Z"`) {
			special = "zero-hash-operand"
		}
		if special != "" {
			return map[string]any{"kind": kind, "frame": frameClass(chain), "special": special}
		}
		break
	}
	return sig
}

type caseOut struct {
	idx     int
	batch   int
	signers []ASigner
	cr      *caseRun
	err     error
}

func TestDriver(t *testing.T) {
	res := vh.NewResult()
	tr := vh.NewTrace("trace.ndjson")
	var in Input
	if err := vh.ReadJSON("input.json", &in); err != nil {
		t.Fatalf("no input: %v", err)
	}
	w := newWorld(t)
	deep := w.newUniverse(t, in.Deep)
	// the universe as realised, with the groups of every frame read back from the deployed manifests
	real := make([]ACtx, len(deep.ctx))
	for i, c := range deep.ctx {
		fr := make([]AFrame, len(c.Chain))
		for j, f := range c.Chain {
			fr[j] = AFrame{Name: f.Name, Groups: w.readGroups(f.Name), RS: f.RS, Kind: f.Kind}
		}
		real[i] = ACtx{ID: c.ID, Chain: fr}
	}
	tr.Emit(map[string]any{"event": "init", "ctx": real})

	// random signer configurations (larger universes), judged by the trace specification only
	rnd := vh.Rand(15)
	nr := vh.EnvInt("VERIF_RANDOM", 50)
	rb := Batch{Family: "random", Accts: []string{"S", "P", "T", "X", "caller", "current", "entry"}}
	for i := 0; i < nr; i++ {
		rb.Cases = append(rb.Cases, randomCase(rnd))
	}
	rb.Ctx = in.Deep
	in.Batches = append(in.Batches, rb)

	type job struct{ b, c int }
	jobs := make(chan job, 64)
	outs := make(chan caseOut, 64)
	var wg sync.WaitGroup
	nw := runtime.GOMAXPROCS(0)
	if nw > 8 {
		nw = 8
	}
	unis := make([]*universe, len(in.Batches))
	for bi := range in.Batches {
		unis[bi] = w.newUniverse(t, in.Batches[bi].Ctx)
	}
	for i := 0; i < nw; i++ {
		wg.Add(1)
		go func() {
			defer wg.Done()
			for j := range jobs {
				b := &in.Batches[j.b]
				c := &b.Cases[j.c]
				o := caseOut{idx: j.c, batch: j.b}
				func() {
					defer func() {
						if r := recover(); r != nil {
							o.err = fmt.Errorf("panic: %v", r)
						}
					}()
					var sg []transaction.Signer
					for _, a := range c.Signers {
						sg = append(sg, w.signer(a))
					}
					dec, err := w.wire(sg)
					if err != nil {
						o.err = fmt.Errorf("wire: %w", err)
						return
					}
					for _, s := range dec {
						o.signers = append(o.signers, w.projSigner(s))
					}
					cr := &caseRun{w: w, u: deep, accts: b.Accts, subj: c.Subj, sig: dec, keyed: j.c%2 == 1, want: map[int]bool{}, obs: map[int][]int{}}
					if c.Deep || b.Family == "random" {
						for i := range deep.ctx {
							cr.want[i] = true
						}
						if b.Family == "random" && !vh.Thorough() {
							// a seeded third of the contexts per random configuration
							r := rand.New(rand.NewSource(vh.Seed()*7919 + int64(j.c)))
							for i := range deep.ctx {
								cr.want[i] = r.Intn(3) == 0
							}
						}
					} else {
						for _, x := range b.Ctx {
							cr.want[deep.index[x.ID]] = true
						}
					}
					cr.observe()
					o.cr = cr
				}()
				outs <- o
			}
		}()
	}
	go func() {
		for bi := range in.Batches {
			for ci := range in.Batches[bi].Cases {
				jobs <- job{bi, ci}
			}
		}
		close(jobs)
		wg.Wait()
		close(outs)
	}()

	corrupt := in.Corrupt
	conds := map[string]ACond{}
	for o := range outs {
		b := &in.Batches[o.batch]
		c := &b.Cases[o.idx]
		if o.err != nil {
			if b.Family == "random" && strings.HasPrefix(o.err.Error(), "wire:") {
				res.Inc("random_undecodable", 1)
				continue
			}
			t.Fatalf("case %d of %s: %v", o.idx, b.Family, o.err)
		}
		cr := o.cr
		res.Inc("executions", cr.runs)
		res.Inc("faulted_executions", cr.faults)
		res.Inc("cases_"+b.Family, 1)
		for _, s := range o.signers {
			for _, r := range s.Rules {
				k, _ := json.Marshal(r.Cond)
				conds[string(k)] = r.Cond
			}
		}
		// expectation of the enumeration, aligned with the batch's own contexts
		imp := map[[2]int]int{}
		for _, d := range c.ImpDiff {
			imp[[2]int{d[0] - 1, d[1] - 1}] = d[2]
		}
		var obsList [][]int
		cis := make([]int, 0, len(cr.obs))
		for ci := range cr.obs {
			cis = append(cis, ci)
		}
		sort.Ints(cis)
		for _, ci := range cis {
			o1 := cr.obs[ci]
			obsList = append(obsList, []int{ci + 1, pack(o1)})
			chain := deep.ctx[ci].Chain
			res.Count([]any{o.signers, deep.ctx[ci].ID, pack(o1)})
			res.Evaluations += len(o1) - 1
			for k, v := range o1 {
				if v == oMixed {
					res.Violate(signature("answer-not-a-function-of-context", b.Accts[k], o.signers, c.Subj, chain),
						"the same signers, account and call context got different answers in different executions/phases",
						map[string]any{"signers": o.signers, "ctx": deep.ctx[ci].ID, "account": b.Accts[k]})
				}
			}
			if c.Exp == nil {
				continue
			}
			bi, ok := unis[o.batch].index[deep.ctx[ci].ID]
			if !ok {
				continue
			}
			for k, v := range o1 {
				if v == oNone || v == oMixed {
					continue
				}
				e := digit4(c.Exp[bi], k)
				if corrupt > 0 && k == 0 && e != 3 {
					// self-test: a corrupted expectation
					if e == 1 {
						e = 0
					} else {
						e = 1
					}
					corrupt--
				}
				granted := v == oTrue
				if (granted && e != 1 && e != 3) || (!granted && e == 1) {
					kind := "granted-where-denied"
					if e == 1 {
						kind = "refused-where-allowed"
					}
					res.Violate(signature(kind, b.Accts[k], o.signers, c.Subj, chain),
						fmt.Sprintf("CheckWitness(%s) in context %s: observed %d (0 false, 1 true, 2 fault), specified %d (0 refuse, 1 grant, 2 refuse by fault, 3 either)",
							resolveAcct(b.Accts[k], chain, c.Subj), deep.ctx[ci].ID, v, e),
						map[string]any{"signers": o.signers, "ctx": deep.ctx[ci], "account": b.Accts[k], "observed": v, "specified": e})
					res.Inc("grant_mismatches", 1)
					continue
				}
				p := e
				if d, ok := imp[[2]int{bi, k}]; ok {
					p = d
				}
				if p != 3 && p != v {
					// the Impl model predicted something else although the abstract level is satisfied
					res.Inc("drift", 1)
					res.AddDrift(map[string]any{"signers": o.signers, "ctx": deep.ctx[ci].ID, "account": b.Accts[k], "observed": v, "impl_model": p, "abstract": e})
				}
			}
		}
		if obsList == nil {
			obsList = [][]int{}
		}
		tr.Emit(map[string]any{"event": "cfg", "family": b.Family, "subj": c.Subj, "signers": o.signers, "accts": b.Accts, "obs": obsList, "keyed": cr.keyed})
		if cr.keyed {
			res.Inc("cases_asked_by_public_key", 1)
		}
		res.Traces++
		if res.Traces%400 == 1 && len(cis) > 0 {
			ci := cis[len(cis)/2]
			res.Sample(map[string]any{"family": b.Family, "signers": o.signers, "ctx": deep.ctx[ci].ID, "accounts": b.Accts, "observed_packed_base3": pack(cr.obs[ci])})
		}
	}

	// the same probes driven by real signed transactions in blocks
	if vh.EnvInt("VERIF_BLOCKS", 1) != 0 {
		nb := w.blockCells(t, deep, tr.Emit, func(k any) { res.Count(k); res.Evaluations += len(blockAccts) - 1 })
		res.Inc("block_transactions", nb)
		res.Traces += nb
	}

	// WitnessCondition.Match against a stub MatchContext, for every distinct condition seen above
	keys := make([]string, 0, len(conds))
	for k := range conds {
		keys = append(keys, k)
	}
	sort.Strings(keys)
	for _, k := range keys {
		ac := conds[k]
		rc := w.cond(ac)
		var obsList [][]int
		for ci, cx := range real {
			v := matchStub(w, rc, cx.Chain)
			obsList = append(obsList, []int{ci + 1, v})
			res.Count([]any{"match", k, cx.ID, v})
		}
		tr.Emit(map[string]any{"event": "match", "cond": ac, "obs": obsList})
		res.Inc("match_conditions", 1)
	}
	tr.Close()
	sort.Strings(res.Distinct)
	if err := res.Write(); err != nil {
		t.Fatal(err)
	}
}

// stubCtx implements transaction.MatchContext from an abstract context.
type stubCtx struct {
	w     *world
	chain []AFrame
}

func (s stubCtx) GetCallingScriptHash() util.Uint160 {
	if len(s.chain) < 2 {
		return util.Uint160{}
	}
	return s.w.hashOf(s.chain[len(s.chain)-2].Name)
}
func (s stubCtx) GetCurrentScriptHash() util.Uint160 {
	return s.w.hashOf(s.chain[len(s.chain)-1].Name)
}
func (s stubCtx) has(gs []string, k *keys.PublicKey) (bool, error) {
	if !s.chain[len(s.chain)-1].RS {
		return false, fmt.Errorf("missing ReadStates call flag")
	}
	for _, g := range gs {
		if s.w.gkeys[g].PublicKey().Equal(k) {
			return true, nil
		}
	}
	return false, nil
}
func (s stubCtx) CallingScriptHasGroup(k *keys.PublicKey) (bool, error) {
	if len(s.chain) < 2 {
		return s.has(nil, k)
	}
	return s.has(s.chain[len(s.chain)-2].Groups, k)
}
func (s stubCtx) CurrentScriptHasGroup(k *keys.PublicKey) (bool, error) {
	return s.has(s.chain[len(s.chain)-1].Groups, k)
}
func (s stubCtx) IsCalledByEntry() bool { return len(s.chain) <= 2 }

func matchStub(w *world, c transaction.WitnessCondition, chain []AFrame) (v int) {
	defer func() {
		if r := recover(); r != nil {
			v = oFault
		}
	}()
	ok, err := c.Match(stubCtx{w, chain})
	if err != nil {
		return oFault
	}
	if ok {
		return oTrue
	}
	return oFalse
}

// ---- random signer configurations ----

var rHashes = []string{"A", "B", "C", "E", "D", "GAS", "N", "Z"}
var rGroups = []string{"G1", "G2", "G3"}

func randomCond(r *rand.Rand, depth int) ACond {
	c := ACond{Cs: []ACond{}}
	k := r.Intn(12)
	if depth <= 1 && k >= 9 {
		k = r.Intn(9)
	}
	switch k {
	case 0:
		c.T, c.V = "Bool", r.Intn(2) == 0
	case 1, 2:
		c.T, c.H = "ScriptHash", rHashes[r.Intn(len(rHashes))]
	case 3:
		c.T, c.G = "Group", rGroups[r.Intn(3)]
	case 4:
		c.T = "CalledByEntry"
	case 5, 6:
		c.T, c.H = "CalledByContract", rHashes[r.Intn(len(rHashes))]
	case 7, 8:
		c.T, c.G = "CalledByGroup", rGroups[r.Intn(3)]
	case 9:
		c.T, c.Cs = "Not", []ACond{randomCond(r, depth-1)}
	default:
		c.T = "And"
		if k == 11 {
			c.T = "Or"
		}
		for i, n := 0, 1+r.Intn(3); i < n; i++ {
			c.Cs = append(c.Cs, randomCond(r, depth-1))
		}
	}
	return c
}

func randomSigner(r *rand.Rand, acct string) ASigner {
	s := ASigner{Account: acct, Scopes: []string{}, Contracts: []string{}, Groups: []string{}, Rules: []ARule{}}
	if r.Intn(12) == 0 {
		s.Scopes = []string{"Global"}
		return s
	}
	if r.Intn(3) == 0 {
		s.Scopes = append(s.Scopes, "CalledByEntry")
	}
	if r.Intn(3) == 0 {
		s.Scopes = append(s.Scopes, "CustomContracts")
		for i, n := 0, r.Intn(4); i < n; i++ {
			s.Contracts = append(s.Contracts, rHashes[r.Intn(len(rHashes))])
		}
	}
	if r.Intn(3) == 0 {
		s.Scopes = append(s.Scopes, "CustomGroups")
		for i, n := 0, r.Intn(3); i < n; i++ {
			s.Groups = append(s.Groups, rGroups[r.Intn(3)])
		}
	}
	if r.Intn(3) != 0 {
		s.Scopes = append(s.Scopes, "Rules")
		for i, n := 0, r.Intn(5); i < n; i++ {
			act := "Allow"
			if r.Intn(3) == 0 {
				act = "Deny"
			}
			s.Rules = append(s.Rules, ARule{Action: act, Cond: randomCond(r, 3)})
		}
	}
	return s
}

func randomCase(r *rand.Rand) Case {
	subj := []string{"S", "S", "S", "A", "B", "E", "GAS"}[r.Intn(7)]
	others := []string{"P", "T", "X", "C", "D"}
	r.Shuffle(len(others), func(i, j int) { others[i], others[j] = others[j], others[i] })
	n := r.Intn(3)
	sg := []ASigner{}
	pos := r.Intn(n + 1)
	for i := 0; i < n+1; i++ {
		if i == pos {
			sg = append(sg, randomSigner(r, subj))
		} else {
			sg = append(sg, randomSigner(r, others[i]))
		}
	}
	return Case{Subj: subj, Signers: sg}
}
