package c15wit

import (
	"fmt"
	"math/big"
	"strings"
	"testing"

	"github.com/nspcc-dev/neo-go/pkg/config"
	"github.com/nspcc-dev/neo-go/pkg/core"
	"github.com/nspcc-dev/neo-go/pkg/core/block"
	"github.com/nspcc-dev/neo-go/pkg/core/native/nativenames"
	"github.com/nspcc-dev/neo-go/pkg/core/state"
	"github.com/nspcc-dev/neo-go/pkg/core/transaction"
	"github.com/nspcc-dev/neo-go/pkg/crypto/hash"
	"github.com/nspcc-dev/neo-go/pkg/crypto/keys"
	"github.com/nspcc-dev/neo-go/pkg/neotest"
	"github.com/nspcc-dev/neo-go/pkg/neotest/chain"
	"github.com/nspcc-dev/neo-go/pkg/smartcontract"
	"github.com/nspcc-dev/neo-go/pkg/smartcontract/callflag"
	"github.com/nspcc-dev/neo-go/pkg/smartcontract/manifest"
	"github.com/nspcc-dev/neo-go/pkg/smartcontract/nef"
	"github.com/nspcc-dev/neo-go/pkg/smartcontract/trigger"
	"github.com/nspcc-dev/neo-go/pkg/util"
	"github.com/nspcc-dev/neo-go/pkg/vm/stackitem"
	"github.com/nspcc-dev/neo-go/pkg/vm/vmstate"
)

// Frame kinds of the abstract call chain.
const (
	kEntry  = "entry"
	kCall   = "call"   // deployed contract reached by System.Contract.Call
	kNative = "native" // the native GAS contract (reached by System.Contract.Call)
	kOnPay  = "onpay"  // deployed contract reached from the native contract (onNEP17Payment)
	kDyn    = "dyn"    // dynamic script loaded by System.Runtime.LoadScript
)

// AFrame is one frame of an abstract call chain, as the specification sees it.
type AFrame struct {
	Name   string   `json:"name"`
	Groups []string `json:"groups"`
	RS     bool     `json:"rs"`
	Kind   string   `json:"kind"`
}

type world struct {
	bc      *core.Blockchain
	e       *neotest.Executor
	gas     util.Uint160
	hashes  map[string]util.Uint160 // name -> script hash (contracts, scripts, accounts, special)
	names   map[util.Uint160]string
	gkeys   map[string]*keys.PrivateKey // group name -> key
	gnames  map[string]string           // pubkey hex -> group name
	scripts map[string][]byte           // "E", "D"
	pubs    map[string][]byte           // key accounts: name -> compressed public key
	fakeBlk *block.Block
}

// groupsOf defines which probe contract is deployed with which groups (what the real manifests carry
// is read back by readGroups).
var groupsOf = map[string][]string{"A": {}, "B": {"G1"}, "C": {"G1", "G2"}}

func detKey(seed string) *keys.PrivateKey {
	h := hash.Sha256([]byte("verif-c15-" + seed))
	k, err := keys.NewPrivateKeyFromBytes(h.BytesBE())
	if err != nil {
		panic(err)
	}
	return k
}

func newWorld(t testing.TB) *world {
	config.Version = "neotest" // nef.NewFile needs a version
	bc, acc := chain.NewSingle(t)
	e := neotest.NewExecutor(t, bc, acc, acc)
	w := &world{bc: bc, e: e, hashes: map[string]util.Uint160{}, names: map[util.Uint160]string{},
		gkeys: map[string]*keys.PrivateKey{}, gnames: map[string]string{}, scripts: map[string][]byte{}}
	w.gas = e.NativeHash(t, nativenames.Gas)
	for _, g := range []string{"G1", "G2", "G3"} {
		w.gkeys[g] = detKey("group-" + g)
		w.gnames[w.gkeys[g].PublicKey().StringCompressed()] = g
	}
	reg := func(n string, h util.Uint160) {
		w.hashes[n] = h
		w.names[h] = n
	}
	reg("GAS", w.gas)
	reg("Z", util.Uint160{})
	reg("N", hash.Hash160([]byte("verif-c15-no-such-contract")))
	w.pubs = map[string][]byte{}
	for _, n := range []string{"S", "P", "T", "X"} {
		reg(n, detKey("account-"+n).GetScriptHash())
		w.pubs[n] = detKey("account-" + n).PublicKey().Bytes()
	}
	sink := hash.Hash160([]byte("verif-c15-sink-account"))
	w.scripts["E"] = blob('E', w.gas, sink)
	w.scripts["D"] = blob('D', w.gas, sink)
	reg("E", hash.Hash160(w.scripts["E"]))
	reg("D", hash.Hash160(w.scripts["D"]))
	script, off := contractScript('K', w.gas, sink)
	for _, n := range []string{"A", "B", "C"} {
		ne, err := nef.NewFile(script)
		if err != nil {
			t.Fatal(err)
		}
		m := manifest.DefaultManifest("verif-c15-probe-" + n)
		prm := func() []manifest.Parameter {
			return []manifest.Parameter{{Name: "a", Type: smartcontract.AnyType}, {Name: "b", Type: smartcontract.AnyType}, {Name: "c", Type: smartcontract.AnyType}}
		}
		m.ABI.Methods = []manifest.Method{
			{Name: "p", Offset: 0, Parameters: prm(), ReturnType: smartcontract.VoidType},
			{Name: manifest.MethodOnNEP17Payment, Offset: off, Parameters: prm(), ReturnType: smartcontract.VoidType},
		}
		h := state.CreateContractHash(acc.ScriptHash(), ne.Checksum, m.Name)
		for _, g := range groupsOf[n] {
			k := w.gkeys[g]
			m.Groups = append(m.Groups, manifest.Group{PublicKey: k.PublicKey(), Signature: k.Sign(h.BytesBE())})
		}
		e.DeployContract(t, &neotest.Contract{Hash: h, NEF: ne, Manifest: m}, nil)
		reg(n, h)
	}
	b, err := bc.GetFakeNextBlock(bc.BlockHeight() + 1)
	if err != nil {
		t.Fatal(err)
	}
	w.fakeBlk = b
	return w
}

// readGroups returns the group names of a frame's script as the REAL chain state has them.
func (w *world) readGroups(name string) []string {
	out := []string{}
	cs := w.bc.GetContractState(w.hashes[name])
	if cs == nil {
		return out
	}
	for _, g := range cs.Manifest.Groups {
		n, ok := w.gnames[g.PublicKey.StringCompressed()]
		if !ok {
			n = "?" + g.PublicKey.StringCompressed()
		}
		out = append(out, n)
	}
	return out
}

// ---------------------------------------------------------------------------------------------------
// call chains

// chainPlan is the concrete realisation of a link sequence (the context ids of the specification).
type chainPlan struct {
	id     string
	links  []string
	frames []AFrame // abstract frames, native frames included
	// probe[i] = index into frames of the i-th probe frame (the frames that run the blob)
	probe []int
	// ctxOf[i][mode] = context id reported by probe frame i with check mode (0 own CheckWitness, 1 native check)
}

const flagsNoRS = callflag.AllowNotify

// parseChain turns "cA.nB.dyn" into frames. Link kinds: cX call, nX GAS.transfer hop, dyn / dye LoadScript,
// qX call without ReadStates (leaf).
func (w *world) parseChain(id string) (*chainPlan, error) {
	cp := &chainPlan{id: id}
	cp.frames = append(cp.frames, AFrame{Name: "E", Groups: w.readGroups("E"), RS: true, Kind: kEntry})
	cp.probe = append(cp.probe, 0)
	if id == "" {
		return cp, nil
	}
	cp.links = strings.Split(id, ".")
	full := true
	for i, l := range cp.links {
		switch {
		case l == "dyn" || l == "dye":
			n := map[string]string{"dyn": "D", "dye": "E"}[l] // dye: a dynamic copy of the entry script itself
			cp.frames = append(cp.frames, AFrame{Name: n, Groups: w.readGroups(n), RS: true, Kind: kDyn})
			full = false
		case len(l) == 2 && (l[0] == 'c' || l[0] == 'q' || l[0] == 'n'):
			n := l[1:]
			if _, ok := groupsOf[n]; !ok {
				return nil, fmt.Errorf("bad link %q", l)
			}
			switch l[0] {
			case 'c':
				cp.frames = append(cp.frames, AFrame{Name: n, Groups: w.readGroups(n), RS: true, Kind: kCall})
			case 'q':
				if i != len(cp.links)-1 {
					return nil, fmt.Errorf("q link must be last in %q", id)
				}
				cp.frames = append(cp.frames, AFrame{Name: n, Groups: w.readGroups(n), RS: false, Kind: kCall})
			case 'n':
				if !full {
					return nil, fmt.Errorf("native hop below a dynamic script in %q", id)
				}
				cp.frames = append(cp.frames, AFrame{Name: "GAS", Groups: w.readGroups("GAS"), RS: true, Kind: kNative})
				cp.frames = append(cp.frames, AFrame{Name: n, Groups: w.readGroups(n), RS: true, Kind: kOnPay})
			}
		default:
			return nil, fmt.Errorf("bad link %q", l)
		}
		cp.probe = append(cp.probe, len(cp.frames)-1)
	}
	return cp, nil
}

// check is one witness check performed by a probe frame.
type check struct {
	acc  []byte // 20-byte script hash, or (mode 0 only) the 33-byte public key of a key account
	mode int    // 0 System.Runtime.CheckWitness in the frame, 1 GAS.transfer(acc, sink, 0, null) from the frame
}

// acct is the argument given to the witness check for an account: its script hash, or - keyed - the public
// key when the account is a key account (System.Runtime.CheckWitness accepts both).
func (w *world) acct(name string, keyed bool) []byte {
	if keyed {
		if k, ok := w.pubs[name]; ok {
			return k
		}
	}
	h, ok := w.hashes[name]
	if !ok {
		panic("unknown account " + name)
	}
	return h.BytesBE()
}

// buildPlan makes the plan stack item; checks[i] are the checks of probe frame i.
func (w *world) buildPlan(cp *chainPlan, checks [][]check) stackitem.Item {
	frames := make([]stackitem.Item, len(cp.probe))
	for i := range cp.probe {
		cks := make([]stackitem.Item, len(checks[i]))
		for j, c := range checks[i] {
			cks[j] = stackitem.NewArray([]stackitem.Item{stackitem.NewByteArray(c.acc), stackitem.NewBigInteger(big.NewInt(int64(c.mode)))})
		}
		kind, target, flags := 0, stackitem.Item(stackitem.Null{}), int64(callflag.All)
		if i < len(cp.links) {
			l := cp.links[i]
			switch {
			case l == "dyn":
				kind, target, flags = 3, stackitem.NewByteArray(w.scripts["D"]), int64(callflag.ReadOnly)
			case l == "dye":
				kind, target, flags = 3, stackitem.NewByteArray(w.scripts["E"]), int64(callflag.ReadOnly)
			case l[0] == 'c':
				kind, target = 1, stackitem.NewByteArray(w.hashes[l[1:]].BytesBE())
			case l[0] == 'q':
				kind, target, flags = 1, stackitem.NewByteArray(w.hashes[l[1:]].BytesBE()), int64(flagsNoRS)
			case l[0] == 'n':
				kind, target = 2, stackitem.NewByteArray(w.hashes[l[1:]].BytesBE())
			}
		}
		frames[i] = stackitem.NewArray([]stackitem.Item{stackitem.NewArray(cks), stackitem.NewBigInteger(big.NewInt(int64(kind))), target, stackitem.NewBigInteger(big.NewInt(flags))})
	}
	return stackitem.NewArray(frames)
}

// obs is one recorded check result.
type obs struct {
	frame, phase, j int
	res             bool
}

// run executes the entry script with the given signers on a test VM of the real chain (the transaction
// is the script container, exactly as for an invocation) and returns the recorded results.
func (w *world) run(signers []transaction.Signer, plan stackitem.Item) (out []obs, halted bool, fault string) {
	tx := transaction.New(w.scripts["E"], 0)
	tx.ValidUntilBlock = w.bc.BlockHeight() + 1
	tx.Signers = signers
	tx.Scripts = make([]transaction.Witness, len(signers))
	ic, err := w.bc.GetTestVM(trigger.Application, tx, w.fakeBlk)
	if err != nil {
		return nil, false, "testvm: " + err.Error()
	}
	defer ic.Finalize()
	r := stackitem.NewArray(nil)
	ic.VM.LoadWithFlags(tx.Script, callflag.All)
	ic.VM.Estack().PushItem(stackitem.NewBigInteger(big.NewInt(0)))
	ic.VM.Estack().PushItem(plan)
	ic.VM.Estack().PushItem(r)
	err = ic.VM.Run()
	halted = err == nil && ic.VM.State() == vmstate.Halt
	if err != nil {
		fault = err.Error()
	}
	// R is a Go object: what was recorded before a fault is still there
	for _, it := range r.Value().([]stackitem.Item) {
		a := it.Value().([]stackitem.Item)
		gi := func(i int) int { b, _ := a[i].TryInteger(); return int(b.Int64()) }
		b, _ := a[3].TryBool()
		out = append(out, obs{gi(0), gi(1), gi(2), b})
	}
	return out, halted, fault
}
