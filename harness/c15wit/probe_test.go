// Probe programs for C15.  One position-independent NeoVM "blob" is used as (a) method `p` of the
// deployed probe contracts A, B, C (same code, different manifests => different hashes and groups),
// (b) their onNEP17Payment (reached from the native GAS contract: native caller), (c) the entry script
// and (d) the dynamic script given to System.Runtime.LoadScript.  The blob interprets a "plan":
//
//	blob(R, plan, idx):  frame := plan[idx] = [checks, linkKind, target, flags]
//	   for j, [acc, mode] in checks:  R.append([idx, 0, j, check(acc, mode)])      -- inline
//	   link: 0 none | 1 System.Contract.Call(target,"p",flags,[R,plan,idx+1])
//	              | 2 GAS.transfer(self, target, 0, [R,plan,idx+1])  (-> target.onNEP17Payment)
//	              | 3 System.Runtime.LoadScript(target, flags, [R,plan,idx+1])
//	   for j, [acc, mode] in checks:  R.append([idx, 1, j, check(acc, mode)])      -- inside an internal CALL
//	check(acc, 0) = System.Runtime.CheckWitness(acc)
//	check(acc, 1) = GAS.transfer(acc, sink, 0, null)   (the native contract's own witness check of `from`)
//
// R is one Array shared by reference by all frames, the harness keeps the Go pointer to it.
package c15wit

import (
	"encoding/binary"
	"fmt"

	"github.com/nspcc-dev/neo-go/pkg/core/interop/interopnames"
	"github.com/nspcc-dev/neo-go/pkg/io"
	"github.com/nspcc-dev/neo-go/pkg/smartcontract/callflag"
	"github.com/nspcc-dev/neo-go/pkg/util"
	"github.com/nspcc-dev/neo-go/pkg/vm/emit"
	"github.com/nspcc-dev/neo-go/pkg/vm/opcode"
)

// asm is a tiny assembler with labels; all jumps are the long (4-byte offset) forms.
type asm struct {
	w      *io.BufBinWriter
	labels map[string]int
	fix    []fixup
}

type fixup struct {
	at    int // offset of the instruction
	label string
}

func newAsm() *asm { return &asm{w: io.NewBufBinWriter(), labels: map[string]int{}} }

func (a *asm) op(ops ...opcode.Opcode) { emit.Opcodes(a.w.BinWriter, ops...) }
func (a *asm) pos() int                { return a.w.Len() }
func (a *asm) label(l string) {
	if _, ok := a.labels[l]; ok {
		panic("duplicate label " + l)
	}
	a.labels[l] = a.pos()
}
func (a *asm) jmp(op opcode.Opcode, l string) {
	a.fix = append(a.fix, fixup{a.pos(), l})
	emit.Instruction(a.w.BinWriter, op, []byte{0, 0, 0, 0})
}
func (a *asm) int(i int64)        { emit.Int(a.w.BinWriter, i) }
func (a *asm) bytes(b []byte)     { emit.Bytes(a.w.BinWriter, b) }
func (a *asm) str(s string)       { emit.String(a.w.BinWriter, s) }
func (a *asm) syscall(n string)   { emit.Syscall(a.w.BinWriter, n) }
func (a *asm) initslot(l, n byte) { emit.InitSlot(a.w.BinWriter, l, n) }
func (a *asm) ins(op opcode.Opcode, p ...byte) {
	emit.Instruction(a.w.BinWriter, op, p)
}
func (a *asm) done() []byte {
	if a.w.Err != nil {
		panic(a.w.Err)
	}
	b := a.w.Bytes()
	for _, f := range a.fix {
		t, ok := a.labels[f.label]
		if !ok {
			panic("undefined label " + f.label)
		}
		binary.LittleEndian.PutUint32(b[f.at+1:], uint32(int32(t-f.at)))
	}
	return b
}

// vars tells the check loop where its variables live (it is emitted twice: inline in the frame body
// and inside a subroutine reached by the CALL opcode).
type vars struct {
	r, idx, frame, phase func(a *asm)
	locJ, locChk         byte
}

func ld(op opcode.Opcode) func(a *asm) { return func(a *asm) { a.op(op) } }

func emitChecks(a *asm, v vars, gas, sink util.Uint160, pfx string) {
	stJ := func() { a.ins(opcode.STLOC, v.locJ) }
	ldJ := func() { a.ins(opcode.LDLOC, v.locJ) }
	a.op(opcode.PUSH0)
	stJ()
	a.label(pfx + "loop")
	ldJ()
	v.frame(a)
	a.op(opcode.PUSH0, opcode.PICKITEM, opcode.SIZE, opcode.LT)
	a.jmp(opcode.JMPIFNOTL, pfx+"end")
	v.frame(a)
	a.op(opcode.PUSH0, opcode.PICKITEM)
	ldJ()
	a.op(opcode.PICKITEM)
	a.ins(opcode.STLOC, v.locChk)
	a.ins(opcode.LDLOC, v.locChk)
	a.op(opcode.PUSH1, opcode.PICKITEM)
	a.jmp(opcode.JMPIFL, pfx+"native")
	a.ins(opcode.LDLOC, v.locChk)
	a.op(opcode.PUSH0, opcode.PICKITEM)
	a.syscall(interopnames.SystemRuntimeCheckWitness)
	a.jmp(opcode.JMPL, pfx+"store")
	a.label(pfx + "native")
	// GAS.transfer(acc, sink, 0, null): sink is an account without a contract (no onNEP17Payment callback)
	a.op(opcode.PUSHNULL, opcode.PUSH0)
	a.bytes(sink.BytesBE())
	a.ins(opcode.LDLOC, v.locChk)
	a.op(opcode.PUSH0, opcode.PICKITEM, opcode.PUSH4, opcode.PACK)
	a.int(int64(callflag.All))
	a.str("transfer")
	a.bytes(gas.BytesBE())
	a.syscall(interopnames.SystemContractCall)
	a.label(pfx + "store")
	// stack: result -> [idx, phase, j, result]
	ldJ()
	v.phase(a)
	v.idx(a)
	a.op(opcode.PUSH4, opcode.PACK)
	v.r(a)
	a.op(opcode.SWAP, opcode.APPEND)
	ldJ()
	a.op(opcode.INC)
	stJ()
	a.jmp(opcode.JMPL, pfx+"loop")
	a.label(pfx + "end")
}

// blob builds the position-independent frame program. tag makes scripts with distinct hashes.
func blob(tag byte, gas, sink util.Uint160) []byte {
	a := newAsm()
	a.int(int64(tag) + 1000) // PUSHINT16 tag; DROP
	a.op(opcode.DROP)
	a.label("body")
	// args (top first): R, plan, idx ; locals: 0 frame, 1 j, 2 chk
	a.initslot(3, 3)
	// frames at odd positions of the chain have already returned from an internal call when they check witnesses and
	// call on (frames of internal calls share the script context - and its link to the calling contract - with this one)
	a.op(opcode.LDARG2, opcode.PUSH1, opcode.AND)
	a.jmp(opcode.JMPIFNOTL, "nopre")
	a.jmp(opcode.CALLL, "nop")
	a.label("nopre")
	a.op(opcode.LDARG1, opcode.LDARG2, opcode.PICKITEM, opcode.STLOC0)
	emitChecks(a, vars{r: ld(opcode.LDARG0), idx: ld(opcode.LDARG2), frame: ld(opcode.LDLOC0), phase: ld(opcode.PUSH0), locJ: 1, locChk: 2}, gas, sink, "i_")
	// link
	a.op(opcode.LDLOC0, opcode.PUSH1, opcode.PICKITEM)
	a.op(opcode.DUP, opcode.PUSH1, opcode.NUMEQUAL)
	a.jmp(opcode.JMPIFL, "l_call")
	a.op(opcode.DUP, opcode.PUSH2, opcode.NUMEQUAL)
	a.jmp(opcode.JMPIFL, "l_nat")
	a.op(opcode.DUP, opcode.PUSH3, opcode.NUMEQUAL)
	a.jmp(opcode.JMPIFL, "l_dyn")
	a.op(opcode.DROP)
	a.jmp(opcode.JMPL, "after")
	next := func() { // [R, plan, idx+1]
		a.op(opcode.LDARG2, opcode.INC, opcode.LDARG1, opcode.LDARG0, opcode.PUSH3, opcode.PACK)
	}
	a.label("l_call")
	a.op(opcode.DROP)
	next()
	a.op(opcode.LDLOC0, opcode.PUSH3, opcode.PICKITEM) // flags
	a.str("p")
	a.op(opcode.LDLOC0, opcode.PUSH2, opcode.PICKITEM) // hash
	a.syscall(interopnames.SystemContractCall)
	a.op(opcode.DROP) // Null pushed for a void dynamic call
	a.jmp(opcode.JMPL, "after")
	a.label("l_nat")
	a.op(opcode.DROP)
	next()                                             // data
	a.op(opcode.PUSH0)                                 // amount
	a.op(opcode.LDLOC0, opcode.PUSH2, opcode.PICKITEM) // to
	a.syscall(interopnames.SystemRuntimeGetExecutingScriptHash)
	a.op(opcode.PUSH4, opcode.PACK)
	a.int(int64(callflag.All))
	a.str("transfer")
	a.bytes(gas.BytesBE())
	a.syscall(interopnames.SystemContractCall)
	a.op(opcode.ASSERT)
	a.jmp(opcode.JMPL, "after")
	a.label("l_dyn")
	a.op(opcode.DROP)
	next()
	a.op(opcode.LDLOC0, opcode.PUSH3, opcode.PICKITEM) // flags
	a.op(opcode.LDLOC0, opcode.PUSH2, opcode.PICKITEM) // script
	a.syscall(interopnames.SystemRuntimeLoadScript)
	a.op(opcode.DROP) // Null pushed when the dynamic script returns nothing
	a.label("after")
	// phase 1 inside an internal call: chk(R, idx, frame)
	a.op(opcode.LDLOC0, opcode.LDARG2, opcode.LDARG0)
	a.jmp(opcode.CALLL, "sub")
	a.op(opcode.RET)
	a.label("sub")
	a.initslot(2, 3)
	emitChecks(a, vars{r: ld(opcode.LDARG0), idx: ld(opcode.LDARG1), frame: ld(opcode.LDARG2), phase: ld(opcode.PUSH1), locJ: 0, locChk: 1}, gas, sink, "s_")
	a.op(opcode.RET)
	a.label("nop")
	a.op(opcode.RET)
	return a.done()
}

// contractScript = blob + onNEP17Payment stub. Returns the script and the stub's offset.
func contractScript(tag byte, gas, sink util.Uint160) ([]byte, int) {
	b := blob(tag, gas, sink)
	off := len(b)
	a := newAsm()
	// stack (top first): from, amount, data
	a.op(opcode.DROP, opcode.DROP, opcode.DUP, opcode.ISNULL)
	a.jmp(opcode.JMPIFNOTL, "go")
	a.op(opcode.DROP, opcode.RET)
	a.label("go")
	a.op(opcode.UNPACK, opcode.DROP)
	st := a.done()
	// append a jump back to the blob's start (offset 0 of the whole script)
	j := make([]byte, 5)
	j[0] = byte(opcode.JMPL)
	binary.LittleEndian.PutUint32(j[1:], uint32(int32(-(off + len(st)))))
	out := append(append(append([]byte{}, b...), st...), j...)
	if len(out) > 60000 {
		panic(fmt.Sprint("script too long ", len(out)))
	}
	return out, off
}
