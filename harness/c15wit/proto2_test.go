package c15wit

import (
	"testing"

	"github.com/nspcc-dev/neo-go/pkg/core/transaction"
	"github.com/nspcc-dev/neo-go/pkg/util"
)

func TestProto2(t *testing.T) {
	w := newWorld(t)
	cp, _ := w.parseChain("cA")
	checks := [][]check{{{w.hashes["S"], 0}, {w.hashes["S"], 1}}, {{w.hashes["S"], 0}}}
	z := transaction.ConditionCalledByContract(util.Uint160{})
	s := transaction.Signer{Account: w.hashes["S"], Scopes: transaction.Rules, Rules: []transaction.WitnessRule{{Action: transaction.WitnessAllow, Condition: &z}}}
	out, ok, f := w.run([]transaction.Signer{s}, w.buildPlan(cp, checks))
	t.Logf("halted=%v fault=%q %v", ok, f, out)
}
