package c15wit

import (
	"testing"

	"github.com/nspcc-dev/neo-go/pkg/io"
	"github.com/nspcc-dev/neo-go/pkg/neotest"
	"github.com/nspcc-dev/neo-go/pkg/vm/emit"
	"github.com/nspcc-dev/neo-go/pkg/vm/opcode"
	"github.com/nspcc-dev/neo-go/pkg/vm/stackitem"
	"github.com/nspcc-dev/neo-go/pkg/vm/vmstate"
	"github.com/nspcc-dev/neo-go/pkg/wallet"
)

// Block mode: the same probes driven by REAL signed transactions accepted into blocks (fees, witnesses
// verified, application log read back).  The entry script carries its plan, so its hash depends on the plan:
// these cells use neither the entry hash as an operand nor as an account.

var blockAccts = []string{"S", "P", "T", "X"}

func blockConfigs() []ASigner {
	mk := func(sc []string, cs, gs []string, rl []ARule) ASigner {
		if cs == nil {
			cs = []string{}
		}
		if gs == nil {
			gs = []string{}
		}
		if rl == nil {
			rl = []ARule{}
		}
		return ASigner{Account: "S", Scopes: sc, Contracts: cs, Groups: gs, Rules: rl}
	}
	at := func(t, h, g string) ACond { return ACond{T: t, H: h, G: g, Cs: []ACond{}} }
	tr := ACond{T: "Bool", V: true, Cs: []ACond{}}
	return []ASigner{
		mk([]string{}, nil, nil, nil),
		mk([]string{"Global"}, nil, nil, nil),
		mk([]string{"CalledByEntry"}, nil, nil, nil),
		mk([]string{"CustomContracts"}, []string{"B"}, nil, nil),
		mk([]string{"CustomGroups"}, nil, []string{"G2"}, nil),
		mk([]string{"Rules"}, nil, nil, []ARule{{"Deny", at("CalledByContract", "A", "")}, {"Allow", tr}}),
		mk([]string{"Rules"}, nil, nil, []ARule{{"Allow", ACond{T: "Not", Cs: []ACond{at("CalledByGroup", "", "G1")}}}}),
		mk([]string{"CalledByEntry", "Rules"}, nil, nil, []ARule{{"Allow", at("Group", "", "G1")}}),
	}
}

func (w *world) blockCells(t *testing.T, deep *universe, emitEv func(map[string]any), count func(any)) int {
	sg := map[string]neotest.Signer{}
	for _, n := range []string{"S", "P", "T"} {
		sg[n] = neotest.NewSingleSigner(wallet.NewAccountFromPrivateKey(detKey("account-" + n)))
	}
	w.e.ValidatorInvoker(w.gas).Invoke(t, true, "transfer", w.e.Validator.ScriptHash(), w.hashes["P"], int64(1000_0000_0000), nil)
	n := 0
	for _, id := range []string{"e.cA.nB.cC", "e.cB.dyn.cA", "e.cC.cA.cB", "e.nC.cB"} {
		cp := deep.plans[id]
		checks := make([][]check, len(cp.probe))
		slots := make([][]slot, len(cp.probe))
		for i := range cp.probe {
			ci := deep.index[prefixID(id, i)]
			for k, a := range blockAccts {
				checks[i] = append(checks[i], check{w.acct(a, false), 0})
				slots[i] = append(slots[i], slot{ci, k})
			}
		}
		bw := io.NewBufBinWriter()
		emit.Opcodes(bw.BinWriter, opcode.NEWARRAY0)
		emit.Int(bw.BinWriter, 0)
		emit.StackItem(bw.BinWriter, w.buildPlan(cp, checks))
		emit.Opcodes(bw.BinWriter, opcode.PUSH2, opcode.PICK)
		if bw.Err != nil {
			t.Fatal(bw.Err)
		}
		script := append(bw.Bytes(), w.scripts["E"]...)
		for _, cfg := range blockConfigs() {
			as := []ASigner{{Account: "P", Scopes: []string{}, Contracts: []string{}, Groups: []string{}, Rules: []ARule{}}, cfg,
				{Account: "T", Scopes: []string{"Global"}, Contracts: []string{}, Groups: []string{}, Rules: []ARule{}}}
			tx := w.e.PrepareInvocationNoSign(t, script)
			for _, a := range as {
				tx.Signers = append(tx.Signers, w.signer(a))
			}
			signers := []neotest.Signer{sg["P"], sg["S"], sg["T"]}
			neotest.AddNetworkFee(t, w.bc, tx, signers...)
			w.e.AddSystemFee(tx, -1)
			for _, s := range signers {
				if err := s.SignTx(w.bc.GetConfig().Magic, tx); err != nil {
					t.Fatal(err)
				}
			}
			w.e.AddNewBlock(t, tx)
			aer := w.e.GetTxExecResult(t, tx.Hash())
			if aer.VMState != vmstate.Halt || len(aer.Stack) != 1 {
				t.Fatalf("block mode: transaction for %s did not halt: %s", id, aer.FaultException)
			}
			// what the chain stored: signers read back from the persisted transaction
			ptx, _ := w.e.GetTransaction(t, tx.Hash())
			var proj []ASigner
			for _, s := range ptx.Signers {
				proj = append(proj, w.projSigner(s))
			}
			cr := &caseRun{accts: blockAccts, obs: map[int][]int{}}
			for _, it := range aer.Stack[0].Value().([]stackitem.Item) {
				a := it.Value().([]stackitem.Item)
				gi := func(i int) int { b, _ := a[i].TryInteger(); return int(b.Int64()) }
				b, _ := a[3].TryBool()
				s := slots[gi(0)][gi(2)]
				v := oFalse
				if b {
					v = oTrue
				}
				cr.put(s.ci, s.k, v)
			}
			obsList := [][]int{}
			for i := range cp.probe {
				ci := deep.index[prefixID(id, i)]
				obsList = append(obsList, []int{ci + 1, pack(cr.obs[ci])})
				count([]any{"block", proj, id, i, pack(cr.obs[ci])})
			}
			emitEv(map[string]any{"event": "cfg", "family": "block", "subj": "S", "signers": proj, "accts": blockAccts, "obs": obsList})
			n++
		}
	}
	return n
}
